import Pokerface.Proofs.EngineFirst
import Pokerface.Proofs.FlowDecr
/-
  C04 — Only the player to act can act, in clockwise order, in the right phase.

  "During a betting round exactly one player is offered actions: play starts left of the
  big blind before the flop (the dealer, who is the small blind, when heads-up) and left of
  the dealer on later streets, and then passes seat by seat clockwise, folded and all-in
  seats merely being asked to pass.  Any action attempted by another seat, any action the
  current player was not offered, and any table operation invoked in the wrong phase is
  refused with an error and leaves the state exactly as it was."

  All statements are about the model `Game.step` (Model/Game.lean), for every reachable
  state (`Reachable`, Proofs/EngineReach.lean: any operation sequence, accepted or refused,
  from any successfully started configuration with non-negative forced bets).
-/
namespace Pokerface.C04
open Pokerface Game

theorem availableActions_ne_nil (g : Game) (p : Player) : g.availableActions p ≠ [] := by
  unfold Game.availableActions
  split
  · simp
  · split <;> simp

/-- Sentence 1, first half: during a betting round exactly one seat — the seat to act — is
    offered actions (and it is offered what its situation yields, see C11); outside a
    betting round nobody is offered anything. -/
theorem one_actor {g : Game} (h : Reachable g) :
    (g.event = .roundStarted →
      (∃ p, g.players[g.cur]? = some p ∧ p.allowed = g.availableActions p ∧ p.allowed ≠ []) ∧
      (∀ (i : Nat) (p : Player), g.players[i]? = some p → i ≠ g.cur → p.allowed = [])) ∧
    (g.event ≠ .roundStarted → ∀ p ∈ g.players, p.allowed = []) := by
  have hi := inv_reachable h
  have hp := hi.post.allowed
  constructor
  · intro he
    simp only [he, if_true] at hp
    have hc := hi.struct.cur
    simp only [Game.n] at hc
    refine ⟨⟨g.players[g.cur], by simp [hc], ?_, ?_⟩, hp.onlyCur⟩
    · have := hp g.cur g.players[g.cur] (by simp [hc])
      simpa using this
    · have := hp g.cur g.players[g.cur] (by simp [hc])
      simp only [if_true] at this
      rw [this]; exact availableActions_ne_nil _ _
  · intro he
    simp only [he, if_false] at hp
    exact hp

/-- Sentence 2 (actions), for EVERY state: an action that is not in the seat's allowed list is
    refused with `invalidAction` and the state is returned unchanged. -/
theorem not_offered_refused (g : Game) (i : Nat) (a : Act) (x : Int)
    (h : g.allows i a = false) : g.act i a x = (g, some .invalidAction) := by
  unfold Game.act
  cases a <;> simp [h]

/-- Sentence 2 (actions), on reachable states: an action by a seat other than the one to act,
    or outside a betting round, is refused and changes nothing. -/
theorem wrong_seat_or_phase_refused {g : Game} (h : Reachable g) (i : Nat) (a : Act) (x : Int)
    (hw : i ≠ g.cur ∨ g.event ≠ .roundStarted) : g.act i a x = (g, some .invalidAction) := by
  apply not_offered_refused
  cases hal : g.allows i a with
  | false => rfl
  | true =>
    obtain ⟨p, _, he, hc, _⟩ := allows_spec (inv_reachable h) hal
    rcases hw with hw | hw
    · exact absurd hc hw
    · exact absurd he hw

/-- the same through `step`, for an explicit seat -/
theorem step_wrong_seat_refused {g : Game} (h : Reachable g) (i : Nat) (a : Act) (x : Int)
    (hw : i ≠ g.cur ∨ g.event ≠ .roundStarted) :
    g.step (.act (some i) a x) = (g, some .invalidAction) :=
  wrong_seat_or_phase_refused h i a x hw

/-- Sentence 2 (table operations): each is refused, without effect, outside its phase. -/
theorem ready_wrong_phase (g : Game) (h : g.event ≠ .readyRequested) : g.step .ready = (g, some .invalidAction) := by
  simp [Game.step, Game.readyForAll, h]

theorem payAnte_wrong_phase (g : Game) (h : g.event ≠ .anteRequested) : g.step .payAnte = (g, some .invalidAction) := by
  simp only [Game.step, Game.payAnte]
  split
  · rfl
  · simp [h]

theorem payBlinds_wrong_phase (g : Game) (h : g.event ≠ .blindsRequested) : g.step .payBlinds = (g, some .invalidAction) := by
  simp [Game.step, Game.payBlinds, h]

theorem next_wrong_phase (g : Game) (h : g.event ≠ .roundClosed) : g.step .next = (g, some .notClosedRound) := by
  simp [Game.step, Game.next, h]

/-- Every refusal of a player action leaves the state exactly as it was (all states). -/
theorem act_refused_no_effect (g : Game) (i : Nat) (a : Act) (x : Int) (h : (g.act i a x).2 ≠ none) :
    (g.act i a x).1 = g := by
  unfold Game.act at h ⊢
  cases a <;> simp only at h ⊢
  all_goals (repeat' split) <;> simp_all

/-- Every refusal of `ready`, `payBlinds`, `next` leaves the state exactly as it was. -/
theorem table_refused_no_effect (g : Game) (op : Op) (hop : op = .ready ∨ op = .payBlinds ∨ op = .next)
    (h : (g.step op).2 ≠ none) : (g.step op).1 = g := by
  rcases hop with rfl | rfl | rfl
  · simp only [Game.step, Game.readyForAll] at h ⊢; split <;> simp_all
  · simp only [Game.step, Game.payBlinds] at h ⊢; split <;> simp_all
  · simp only [Game.step, Game.next] at h ⊢; (repeat' split) <;> simp_all

/-- Sentence 2, in full: on every reachable state, EVERY operation that returns an error —
    any action by any seat with any amount, any table operation in any phase — leaves the
    state exactly as it was.  (The delicate case is `payAnte`: player.go `PayAnte` can return
    "paid already" from inside the per-seat loop after earlier seats have paid; the invariant
    `Flow` shows that at AnteRequested no seat has a wager, and `Seats.lean` that every seat is
    visited once, so that branch is never taken — `payAnte_no_error`.) -/
theorem refused_no_effect {g : Game} (h : Reachable g) (op : Op) (hr : (g.step op).2 ≠ none) :
    (g.step op).1 = g :=
  refused_same g (flow_reachable h) op hr

/-- the same for all states (not only reachable ones), for every operation except `payAnte` -/
theorem refused_no_effect_partial {g : Game} (op : Op) (hop : op ≠ .payAnte)
    (h : (g.step op).2 ≠ none) : (g.step op).1 = g := by
  cases op with
  | ready => exact table_refused_no_effect g _ (Or.inl rfl) h
  | payAnte => exact absurd rfl hop
  | payBlinds => exact table_refused_no_effect g _ (Or.inr (Or.inl rfl)) h
  | next => exact table_refused_no_effect g _ (Or.inr (Or.inr rfl)) h
  | act seat a x =>
    cases seat with
    | none => exact act_refused_no_effect g _ a x h
    | some i => exact act_refused_no_effect g i a x h

/-- Sentence 1, clockwise: after an accepted action, if the betting round is still open the
    turn has passed to the next seat clockwise (folded and all-in seats included: they are
    asked too, and C11 shows they are only asked to pass). -/
theorem clockwise {g : Game} (h : Reachable g) (a : Act) (x : Int) (seat : Option Nat)
    (hacc : (g.step (.act seat a x)).2 = none)
    (hopen : (g.step (.act seat a x)).1.event = .roundStarted) :
    (g.step (.act seat a x)).1.cur = (if g.cur + 1 = g.n then 0 else g.cur + 1) := by
  have hi := inv_reachable h
  have key : ∀ i, (g.act i a x).2 = none → (g.act i a x).1.event = .roundStarted →
      (g.act i a x).1.cur = (if g.cur + 1 = g.n then 0 else g.cur + 1) := by
    intro i hacc hopen
    obtain ⟨g1, he, hm⟩ := act_shape g hi i a x hacc
    rw [he] at hopen ⊢
    rw [resume_cur g1 hm.mid hopen]
    unfold Game.nextIdx
    rw [hm.soft.cur, hm.n]
  cases seat with
  | none => exact key _ hacc hopen
  | some i => exact key i hacc hopen

/-- Only the seat to act can have an action accepted, and only during a betting round. -/
theorem accepted_only_from_current {g : Game} (h : Reachable g) (i : Nat) (a : Act) (x : Int)
    (hacc : (g.act i a x).2 = none) : i = g.cur ∧ g.event = .roundStarted := by
  cases hal : g.allows i a with
  | false => rw [not_offered_refused g i a x hal] at hacc; cases hacc
  | true =>
    obtain ⟨_, _, he, hc, _⟩ := allows_spec (inv_reachable h) hal
    exact ⟨hc, he⟩

/-- Sentence 1, later streets: when `ready` opens a flop/turn/river betting round, the first
    seat asked is the one left of the dealer. -/
theorem first_postflop {g : Game} (h : Reachable g) (he : g.event = .readyRequested)
    (hr : g.round = .flop ∨ g.round = .turn ∨ g.round = .river)
    (hopen : (g.step .ready).1.event = .roundStarted) :
    (g.step .ready).1.cur = cwNext g.n g.dealerIdx := by
  have hi := inv_reachable h
  have hrn : g.round ≠ .none := by rcases hr with h | h | h <;> simp [h]
  have hrp : g.round ≠ .preflop := by rcases hr with h | h | h <;> simp [h]
  rw [ready_opens g he hrn] at hopen ⊢
  have nc : NoChip g g.resetAllAllowed.resetAllAllowed := (noChip_resetAllAllowed g).trans (noChip_resetAllAllowed _)
  have hr2 : g.resetAllAllowed.resetAllAllowed.round = g.round := rfl
  generalize g.resetAllAllowed.resetAllAllowed = g2 at hopen nc hr2 ⊢
  unfold Game.startRound' at hopen ⊢
  simp only [hr2, hrp, if_false] at hopen ⊢
  have nd := noChip_setCurrentPlayer_dealer g2
  rw [openRound_cur _ (nd.struct (nc.struct hi.struct)) hopen]
  rw [setCurrentPlayer_cur, setCurrentPlayer_n, nc.dealerIdx, nc.length]

/-- Sentence 1, before the flop: when `ready` opens the preflop betting round, the first seat
    asked is the one left of the big blind, the big blind being the first seat holding that
    position met walking clockwise from the dealer (`j + 1` seats away, `j < n`).  Heads-up
    (dealer = small blind, the other seat the big blind) this is the dealer: see the example
    below. -/
theorem first_preflop {g : Game} (h : Reachable g) (he : g.event = .readyRequested)
    (hr : g.round = .preflop) (j : Nat) (hj : j < g.n)
    (hbb : (g.players[cwIter g.n (j + 1) g.dealerIdx]?).map (·.posBB) = some true)
    (hno : ∀ j' < j, (g.players[cwIter g.n (j' + 1) g.dealerIdx]?).map (·.posBB) = some false)
    (hopen : (g.step .ready).1.event = .roundStarted) :
    (g.step .ready).1.cur = cwNext g.n (cwIter g.n (j + 1) g.dealerIdx) := by
  have hi := inv_reachable h
  have hrn : g.round ≠ .none := by simp [hr]
  rw [ready_opens g he hrn] at hopen ⊢
  have nc : NoChip g g.resetAllAllowed.resetAllAllowed := (noChip_resetAllAllowed g).trans (noChip_resetAllAllowed _)
  have hr2 : g.resetAllAllowed.resetAllAllowed.round = .preflop := hr
  generalize g.resetAllAllowed.resetAllAllowed = g2 at hopen nc hr2 ⊢
  unfold Game.startRound' at hopen ⊢
  simp only [hr2, if_true] at hopen ⊢
  split at hopen
  · cases hopen
  · rename_i hmov
    simp only [hmov, if_false]
    have nd := noChip_setCurrentPlayer_dealer g2
    have s3 := nd.struct (nc.struct hi.struct)
    have ns := noChip_seekBB g2.n (g2.setCurrentPlayer g2.dealerIdx)
    rw [openRound_cur _ (ns.struct s3) hopen, ns.length, setCurrentPlayer_n, nc.length]
    have hd : g2.dealerIdx = g.dealerIdx := nc.dealerIdx
    have hn2 : g2.n = g.n := nc.length
    have := seekBB_cur g2.n (g2.setCurrentPlayer g2.dealerIdx) j (by rw [hn2]; exact hj)
      (by rw [setCurrentPlayer_cur, setCurrentPlayer_n, hd, hn2]; exact dealerIdx_lt hi.struct)
    simp only [setCurrentPlayer_cur, setCurrentPlayer_n, hd, hn2] at this
    rw [hd, this]
    · rw [setCurrentPlayer_posBB, posBB_congr nc.frame]; exact hbb
    · intro j' hj'
      rw [setCurrentPlayer_posBB, posBB_congr nc.frame]; exact hno j' hj'

/-- Non-vacuity: a three-seat hand (blinds 5/10, stacks 100) reaches a betting round, where
    seat 0 (left of the big blind at seat 2) is the one to act. -/
def exCfg : Config :=
  { opts := { ante := 0, blindDealer := 0, blindSB := 5, blindBB := 10, potLimit := false, holeCount := 2, required := 0,
              lvl := fun _ => 1, table := [], deck := (List.range 20).map fun k => { suit := 83, rank := k + 2 } },
    seats := [{ bankroll := 100, dealer := true, sb := false, bb := false },
              { bankroll := 100, dealer := false, sb := true, bb := false },
              { bankroll := 100, dealer := false, sb := false, bb := true }] }

def exState : Game := (start exCfg).1.run [.ready, .payBlinds, .ready]

example : Reachable exState :=
  ⟨exCfg, [.ready, .payBlinds, .ready], ⟨⟨by decide, by decide, by decide, by decide⟩⟩, by decide, rfl⟩

example : exState.event = .roundStarted ∧ exState.cur = 0 := by decide

/-- heads-up: the dealer (seat 1, also small blind) is first to act before the flop -/
def exHeadsUp : Config :=
  { exCfg with seats := [{ bankroll := 100, dealer := false, sb := false, bb := true },
                         { bankroll := 100, dealer := true, sb := true, bb := false }] }

example : ((start exHeadsUp).1.run [.ready, .payBlinds, .ready]).cur = 1
    ∧ ((start exHeadsUp).1.run [.ready, .payBlinds, .ready]).event = .roundStarted := by decide

end Pokerface.C04
