/-
  C19 with RE-ENTRIES (see Properties/C09Reentry.lean for the setting).

  The theorems of Properties/C19.lean (domain `Reachable`: status forward-only, every registered
  name never registered before) and Properties/C19Async.lean (`AReachableFwd`) are restated, with
  the same statements and the suffix `_re`, on the wider domains

    `ReachableReFwd`  (Proofs/RegReentry2.lean: `RSys.okReFwd` = `RSys.ok` with "not alive now"
                       instead of "never registered" in a registration)
    `AReachableReFwd` (`ASys.okReFwd` = `ASys.okFwd` with the same weakening).

  `reentry_domain_wider_fwd(_async)`: the old domains are inside the new ones.  The forward-only
  condition cannot be dropped (as in C19: `capacity_fails_after_return_to_pending`); the theorem
  that survives without it, `request_le_max_any`, is restated on `ReachableRe` / `AReachableRe`.

  `registered` in `no_table_before_min_re` / `no_request_before_min_re` is the list of ACCEPTED
  REGISTRATIONS: a re-entered name occurs in it once per registration, so its length is the
  number of registrations so far (what the Go code can know), not the number of distinct names.
-/
import Pokerface.Proofs.RegReentry2

namespace Pokerface.C19
open Pokerface Reg RSys

/-- the forward-only domain with re-entries contains `Reachable` -/
theorem reentry_domain_wider_fwd {s : RSys} (h : Reachable s) : ReachableReFwd s := h.reFwd

/-- **capacity** (first sentence, at quiescent points): in every reachable state the real
    membership of every table is at most `max`. -/
theorem capacity_re {s : RSys} (h : ReachableReFwd s) :
    ∀ e ∈ s.env.members, e.2.length ≤ s.r.max :=
  fun _ he => (SInv.of_reachableReFwd h).capacity he

/-- **capacity, regulator side**: for every table on the regulator's sheet, `PlayerCount` and
    `Required` are non-negative and `PlayerCount + Required ≤ max` — the regulator never has an
    outstanding demand that would overfill a table (the run-time monitor checks this when
    `Required > 0`; it holds unconditionally). -/
theorem count_plus_required_le_max_re {s : RSys} (h : ReachableReFwd s) :
    ∀ tb ∈ s.r.tables, 0 ≤ tb.count ∧ 0 ≤ tb.required ∧ tb.count + tb.required ≤ s.r.max :=
  (SInv.of_reachableReFwd h).rinv.wf.bnd

/-- **capacity when opening tables**: every `requestTableFn` callback of every valid operation
    from a reachable state carries at most `max` players. -/
theorem request_le_max_re {s : RSys} (h : ReachableReFwd s) (op : EOp) (hok : s.okReFwd op) :
    ∀ id ps, RCall.requestTable id ps ∈ (s.step op).r.calls → ps.length ≤ s.r.max :=
  ((SInv.of_reachableReFwd h).step_full_re op hok).2.reqmax

/-- **capacity while topping up** (first sentence, at every callback): inside an operation the
    environment applies the callbacks one by one to `baseMembers` (the sheet after the syncing
    table has carried out its eliminations/arrivals/departures).  After EVERY prefix `cs₁` of the
    callbacks of the operation, every table holds at most `max` players. -/
theorem capacity_during_re {s : RSys} (h : ReachableReFwd s) (op : EOp) (hok : s.okReFwd op)
    (cs₁ cs₂ : List RCall) (hcs : (s.step op).r.calls = cs₁ ++ cs₂) :
    ∀ e ∈ Env.applyCalls (s.baseMembers op) cs₁, e.2.length ≤ s.r.max := by
  intro e he
  obtain ⟨hS, hF⟩ := (SInv.of_reachableReFwd h).step_full_re op hok
  obtain ⟨e', he', _, hle⟩ := applyCalls_grows _ cs₂ e he
  rw [← applyCalls_append, ← hcs, ← hF.members] at he'
  have := hS.capacity he'
  rw [hF.max_eq] at this
  omega

/-- **no_table_before_start** (state form): while the competition is pending there is no table,
    neither on the regulator's sheet nor in reality. -/
theorem no_table_before_start_re {s : RSys} (h : ReachableReFwd s) (hp : s.r.status = .pending) :
    s.r.tables = [] ∧ s.r.tableCount = 0 ∧ s.env.members = [] := by
  have hS := SInv.of_reachableReFwd h
  have ht := hS.rinv.pend hp
  refine ⟨ht, ?_, hS.members_nil_iff.2 ht⟩
  rw [hS.rinv.wf.tc, ht]; rfl

/-- **no_table_before_start** (callback form): an operation after which the competition is still
    pending made no callback at all (no table opened, nobody assigned). -/
theorem no_callback_before_start_re {s : RSys} (h : ReachableReFwd s) (op : EOp) (hok : s.okReFwd op)
    (hp : (s.step op).r.status = .pending) : (s.step op).r.calls = [] := by
  obtain ⟨hS, hF⟩ := (SInv.of_reachableReFwd h).step_full_re op hok
  have hm : (s.step op).env.members = [] := hS.members_nil_iff.2 (hS.rinv.pend hp)
  cases hc : (s.step op).r.calls with
  | nil => rfl
  | cons c cs =>
    have h1 := applyTVs_ne_nil _ _ hF.valid (by rw [hc]; exact List.cons_ne_nil _ _)
    rw [← mview_applyCalls, ← hF.members, hm] at h1
    exact absurd rfl h1

/-- the status never returns to `pending`: once an operation has left it, it stays left.  (So
    "still pending after the operation" is the same as "the competition has not started".) -/
theorem pending_is_initial_re {s : RSys} (h : ReachableReFwd s) (op : EOp) (hok : s.okReFwd op)
    (hp : (s.step op).r.status = .pending) : s.r.status = .pending := by
  have hF := ((SInv.of_reachableReFwd h).step_full_re op hok).2
  have hst := hF.status_eq
  cases op with
  | add ps ch => simp only at hst; exact hst ▸ hp
  | sync t elim stay rel keep ch => simp only at hst; exact hst ▸ hp
  | status st ch =>
    simp only at hst
    rcases hok.1 with h1 | h1
    · exact absurd (hst ▸ hp) h1
    · exact h1

/-- **no_table_before_min** (state form): tables exist only if at least `min` players have
    registered so far (`registered` = every id ever accepted by `AddPlayers`). -/
theorem no_table_before_min_re {s : RSys} (h : ReachableReFwd s) (hne : s.env.members ≠ []) :
    s.r.min ≤ s.env.registered.length := by
  have hS := SInv.of_reachableReFwd h
  exact hS.regmin (fun ht => hne (hS.members_nil_iff.2 ht))

/-- **no_table_before_min** (callback form): an operation that opens a table (`requestTableFn`)
    ends with at least `min` registered players — registrations of that very operation included,
    which is the earliest moment the Go code could know about them. -/
theorem no_request_before_min_re {s : RSys} (h : ReachableReFwd s) (op : EOp) (hok : s.okReFwd op)
    (id : Nat) (ps : List Nat) (hc : RCall.requestTable id ps ∈ (s.step op).r.calls) :
    s.r.min ≤ (s.step op).env.registered.length := by
  obtain ⟨hS, hF⟩ := (SInv.of_reachableReFwd h).step_full_re op hok
  have hne : (s.step op).env.members ≠ [] := by
    intro hm
    have h1 := applyTVs_ne_nil _ _ hF.valid (List.ne_nil_of_mem hc)
    rw [← mview_applyCalls, ← hF.members, hm] at h1
    exact absurd rfl h1
  have := hS.regmin (fun ht => hne (hS.members_nil_iff.2 ht))
  rw [hF.min_eq] at this
  exact this

/-- **initial_tables_have_min**: every table opened by an operation that started with no table
    (`tableCount = 0`, the initial allocation) gets at least `min` players. -/
theorem initial_tables_have_min_re {s : RSys} (h : ReachableReFwd s) (h0 : s.r.tableCount = 0) (op : EOp)
    (hok : s.okReFwd op) (id : Nat) (ps : List Nat) (hc : RCall.requestTable id ps ∈ (s.step op).r.calls) :
    s.r.min ≤ ps.length := by
  have hS := SInv.of_reachableReFwd h
  cases op with
  | add qs ch =>
    rw [step_add_r] at hc
    exact addPlayers_initial s.r qs ch hS.rinv h0 id ps hc
  | status st ch => exact setStatus_initial s.r st ch hS.rinv h0 id ps hc
  | sync t elim stay rel keep ch =>
    exfalso
    have ht := tables_nil_of_tc hS.rinv.wf h0
    have hm := hS.members_nil_iff.2 ht
    have : s.env.membersOf t = none := by simp [Env.membersOf, hm]
    simp only [RSys.step, this] at hc
    have hft : s.r.findTable t = none := by simp [Reg.findTable, ht]
    have : (s.syncAnswer t elim).1 = s.r.beginOp [] := by
      simp only [syncAnswer, syncState_eq, hft]
    rw [this] at hc
    simp [Reg.beginOp] at hc

/-- **initial_tables_have_min**, the remaining corner: the run-time monitor evaluates "no table
    open" again when a sync triggers `ReleasePlayers`.  If the sync just broke the last table
    (`tableCount = 0` after `SyncState`), tables opened by that `ReleasePlayers` also get at least
    `min` players.  (In fact nobody is alive then, so none is opened.) -/
theorem initial_tables_have_min_release_re {s : RSys} (h : ReachableReFwd s) (t : Nat)
    (elim stay rel keep ch : List Nat) (hok : s.okReFwd (.sync t elim stay rel keep ch))
    (h0 : (s.syncAnswer t elim).1.tableCount = 0) (id : Nat) (ps : List Nat)
    (hc : RCall.requestTable id ps ∈ (s.step (.sync t elim stay rel keep ch)).r.calls) :
    s.r.min ≤ ps.length := by
  have hS := SInv.of_reachableReFwd h
  cases hm : s.env.membersOf t with
  | none =>
    exfalso
    have hft := (hS.unknown_iff t).1 hm
    have h1 : (s.syncAnswer t elim).1 = s.r.beginOp [] := by
      simp only [syncAnswer, syncState_eq, hft]
    simp only [RSys.step, hm, h1] at hc
    simp [Reg.beginOp] at hc
  | some ms =>
    have hok' := hok
    simp only [okReFwd, ok, hm] at hok'
    rw [show s.syncAnswer t elim = ((s.syncAnswer t elim).1, (s.syncAnswer t elim).2.1,
      (s.syncAnswer t elim).2.2.1, (s.syncAnswer t elim).2.2.2) from rfl] at hok'
    simp only [] at hok'
    obtain ⟨hp1, hp2, hrl, _, _⟩ := hok'
    obtain ⟨r1, relc, nw, t0, hft, hc0, hans, post⟩ := sync_facts hS t elim stay ms hm hp1
    rw [hans] at h0 hrl
    simp only at h0 hrl
    have hmin : r1.min = s.r.min := post.min_eq
    simp only [RSys.step, hm, hans] at hc
    split at hc
    · rw [post.calls] at hc
      exact absurd hc (by simp [syncBase, Reg.setTable, Reg.beginOp])
    · rw [← hmin]
      exact releasePlayers_initial r1 rel ch post.wf h0 (by rw [post.cnt]; omega) id ps hc



/-- what survives without the forward-only condition, with re-entries: the tables OPENED never
    exceed `max` -/
theorem request_le_max_any_re {s : RSys} (h : ReachableRe s) (op : EOp) (hok : s.okRe op) :
    ∀ id ps, RCall.requestTable id ps ∈ (s.step op).r.calls → ps.length ≤ s.r.max :=
  ((SInv0.of_reachableRe h).step_full_re op hok).2.reqmax

/-! ### non-vacuity -/

/-- 13 registrants at 6/5, start (two tables of six, 13 waits), players 1, 2 of table 1 are
    eliminated (13 is seated), player 1 REGISTERS AGAIN and is dispatched to table 1 (now full). -/
def reentry19 : List EOp :=
  [.add [1,2,3,4,5,6,7,8,9,10,11,12,13] [], .status .normal [],
   .sync 1 [1,2] [3,4,5,6] [] [3,4,5,6,13] [], .add [1] [1]]

example : ReachableReFwd ((RSys.init 6 5).run reentry19) :=
  (ReachableReFwd.init 6 5 (by decide)).run reentry19 (by decide)
example : ¬ (RSys.init 6 5).allOk reentry19 := by decide
example : ((RSys.init 6 5).run reentry19).env.members = [(1, [3,4,5,6,13,1]), (2, [7,8,9,10,11,12])] := by decide
example : ((RSys.init 6 5).run reentry19).r.calls = [.assign 1 [1]] := by decide
/-- 14 registrations, 13 names -/
example : ((RSys.init 6 5).run reentry19).env.registered.length = 14 := by decide
/-- a further re-entry (player 2) finds both tables full: he waits in the queue -/
example : ((RSys.init 6 5).run reentry19).okReFwd (.add [2] []) := by decide
example : (((RSys.init 6 5).run reentry19).step (.add [2] [])).r.queue = [2] := by decide

/-! ## asynchronous releases -/

section Async
open ASys

/-- the asynchronous forward-only domain with re-entries contains `AReachableFwd` -/
theorem reentry_domain_wider_fwd_async {s : ASys} (h : AReachableFwd s) : AReachableReFwd s := h.reFwd

/-- **capacity** (first sentence, between operations), asynchronous: in every reachable state the
    real membership of every table is at most `max` — whoever is on the way back, whenever the
    reports arrive. -/
theorem capacity_async_re {s : ASys} (h : AReachableReFwd s) :
    ∀ e ∈ s.env.members, e.2.length ≤ s.r.max :=
  fun _ he => (AInvF.of_reachableReFwd h).capacity he

/-- **capacity, regulator side**, asynchronous: for every table on the regulator's sheet,
    `PlayerCount` and `Required` are non-negative and `PlayerCount + Required ≤ max` — also
    between a sync that asked for a release and the report of that release. -/
theorem count_plus_required_le_max_async_re {s : ASys} (h : AReachableReFwd s) :
    ∀ tb ∈ s.r.tables, 0 ≤ tb.count ∧ 0 ≤ tb.required ∧ tb.count + tb.required ≤ s.r.max :=
  (AInvF.of_reachableReFwd h).f.wf.bnd

/-- the regulator's `PlayerCount` of a table IS the real number of its members (the players on the
    way back are counted nowhere but in the total): the link between the two capacity statements.
    (This is `C09.counts_agree_async`, restated in the form used here.) -/
theorem count_is_membership_async_re {s : ASys} (h : AReachableReFwd s) :
    ∀ e ∈ s.env.members, ∃ tb ∈ s.r.tables, tb.id = e.1 ∧ tb.count = e.2.length :=
  fun _ he => (AInvF.of_reachableReFwd h).a.mem_table he

/-- **capacity when opening tables**, asynchronous: every `requestTableFn` callback of every valid
    operation (registration, status change, late report) carries at most `max` players. -/
theorem request_le_max_async_re {s : ASys} (h : AReachableReFwd s) (op : AOp) (hok : s.okReFwd op) :
    ∀ id ps, RCall.requestTable id ps ∈ (s.step op).r.calls → ps.length ≤ s.r.max :=
  ((AInvF.of_reachableReFwd h).a.step_full_re op (okRe_of_okReFwd hok)).2.reqmax
/-- **capacity while topping up** (first sentence, at every callback), asynchronous: inside an
    operation the environment applies the callbacks one by one to `baseMembers` (for a sync: the
    sheet after the syncing table has carried out its eliminations/arrivals/departures — a sync
    itself makes no callback here; for a registration, status change or report: the sheet as it
    is).  After EVERY prefix `cs₁` of the callbacks of the operation, every table holds at most
    `max` players. -/
theorem capacity_during_async_re {s : ASys} (h : AReachableReFwd s) (op : AOp) (hok : s.okReFwd op)
    (cs₁ cs₂ : List RCall) (hcs : (s.step op).r.calls = cs₁ ++ cs₂) :
    ∀ e ∈ Env.applyCalls (s.baseMembers op) cs₁, e.2.length ≤ s.r.max := by
  intro e he
  have hS0 := AInvF.of_reachableReFwd h
  obtain ⟨hS, hF⟩ := hS0.step_full_re op hok
  have hmax := (hS0.a.step_full_re op (okRe_of_okReFwd hok)).2.max_eq
  obtain ⟨e', he', _, hle⟩ := applyCalls_grows _ cs₂ e he
  rw [← applyCalls_append, ← hcs, ← hF.members] at he'
  have := hS.capacity he'
  rw [hmax] at this
  omega

/-- **no_table_before_start** (state form), asynchronous: while the competition is pending there
    is no table, neither on the regulator's sheet nor in reality, and nobody is on the way back. -/
theorem no_table_before_start_async_re {s : ASys} (h : AReachableReFwd s) (hp : s.r.status = .pending) :
    s.r.tables = [] ∧ s.r.tableCount = 0 ∧ s.env.members = [] ∧ s.inflight = [] := by
  have hS := AInvF.of_reachableReFwd h
  have ht := hS.f.pend hp
  refine ⟨ht, ?_, hS.a.members_nil_iff.2 ht, hS.pendfly hp⟩
  rw [hS.f.wf.tc, ht]; rfl

/-- **no_table_before_start** (callback form), asynchronous: an operation after which the
    competition is still pending made no callback at all (no table opened, nobody assigned). -/
theorem no_callback_before_start_async_re {s : ASys} (h : AReachableReFwd s) (op : AOp) (hok : s.okReFwd op)
    (hp : (s.step op).r.status = .pending) : (s.step op).r.calls = [] := by
  obtain ⟨hS, hF⟩ := (AInvF.of_reachableReFwd h).step_full_re op hok
  have hm : (s.step op).env.members = [] := hS.a.members_nil_iff.2 (hS.f.pend hp)
  cases hc : (s.step op).r.calls with
  | nil => rfl
  | cons c cs =>
    have h1 := applyTVs_ne_nil _ _ hF.valid (by rw [hc]; exact List.cons_ne_nil _ _)
    rw [← mview_applyCalls, ← hF.members, hm] at h1
    exact absurd rfl h1

/-- the status never returns to `pending`: once an operation has left it, it stays left.  (So
    "still pending after the operation" is the same as "the competition has not started".) -/
theorem pending_is_initial_async_re {s : ASys} (h : AReachableReFwd s) (op : AOp) (hok : s.okReFwd op)
    (hp : (s.step op).r.status = .pending) : s.r.status = .pending := by
  have hst := ((AInvF.of_reachableReFwd h).a.step_full_re op (okRe_of_okReFwd hok)).2.status_eq
  cases op with
  | add ps ch => simp only [statusAfter] at hst; exact hst ▸ hp
  | sync t elim stay rel keep => simp only [statusAfter] at hst; exact hst ▸ hp
  | report t ps rest ch => simp only [statusAfter] at hst; exact hst ▸ hp
  | status st ch =>
    simp only [statusAfter] at hst
    rcases hok.1 with h1 | h1
    · exact absurd (hst ▸ hp) h1
    · exact h1

/-- **no_table_before_min** (state form), asynchronous: tables exist only if at least `min` players
    have registered so far (`registered` = every id ever accepted by `AddPlayers`). -/
theorem no_table_before_min_async_re {s : ASys} (h : AReachableReFwd s) (hne : s.env.members ≠ []) :
    s.r.min ≤ s.env.registered.length := by
  have hS := AInvF.of_reachableReFwd h
  exact hS.regmin (fun ht => hne (hS.a.members_nil_iff.2 ht))

/-- **no_table_before_min** (callback form), asynchronous: an operation that opens a table
    (`requestTableFn`) ends with at least `min` registered players — registrations of that very
    operation included, which is the earliest moment the Go code could know about them. -/
theorem no_request_before_min_async_re {s : ASys} (h : AReachableReFwd s) (op : AOp) (hok : s.okReFwd op)
    (id : Nat) (ps : List Nat) (hc : RCall.requestTable id ps ∈ (s.step op).r.calls) :
    s.r.min ≤ (s.step op).env.registered.length := by
  have hS0 := AInvF.of_reachableReFwd h
  obtain ⟨hS, hF⟩ := hS0.step_full_re op hok
  have hmin := (hS0.a.step_full_re op (okRe_of_okReFwd hok)).2.min_eq
  have hne : (s.step op).env.members ≠ [] := by
    intro hm
    have h1 := applyTVs_ne_nil _ _ hF.valid (List.ne_nil_of_mem hc)
    rw [← mview_applyCalls, ← hF.members, hm] at h1
    exact absurd rfl h1
  have := hS.regmin (fun ht => hne (hS.a.members_nil_iff.2 ht))
  rw [hmin] at this
  exact this

/-- **initial_tables_have_min**, asynchronous: every table opened by an operation that started
    with no table (`tableCount = 0`, the initial allocation) gets at least `min` players —
    whichever operation it is: a registration, the start, or a (late) `ReleasePlayers` report.
    (The corner `C19.initial_tables_have_min_release` of the synchronous model — the report that
    follows the sync which broke the last table — is the `report` case here: the report is an
    operation of its own.) -/
theorem initial_tables_have_min_async_re {s : ASys} (h : AReachableReFwd s) (h0 : s.r.tableCount = 0)
    (op : AOp) (_hok : s.okReFwd op) (id : Nat) (ps : List Nat)
    (hc : RCall.requestTable id ps ∈ (s.step op).r.calls) : s.r.min ≤ ps.length :=
  (AInvF.of_reachableReFwd h).initial_min h0 op id ps hc


/-- without the forward-only condition, asynchronous, with re-entries -/
theorem request_le_max_async_any_re {s : ASys} (h : AReachableRe s) (op : AOp) (hok : s.okRe op) :
    ∀ id ps, RCall.requestTable id ps ∈ (s.step op).r.calls → ps.length ≤ s.r.max :=
  ((AInv.of_reachableRe h).step_full_re op hok).2.reqmax

/-- every synchronous forward-only history with re-entries is an asynchronous one -/
theorem rsys_reachable_is_async_fwd_re {s : RSys} (h : RSys.ReachableReFwd s) :
    AReachableReFwd (ASys.ofRSys s) :=
  AReachableReFwd.ofRSys h

/-- the synchronous `capacity_re` re-derived as the special case of `capacity_async_re` -/
theorem capacity_of_async_re {s : RSys} (h : RSys.ReachableReFwd s) :
    ∀ e ∈ s.env.members, e.2.length ≤ s.r.max :=
  capacity_async_re (rsys_reachable_is_async_fwd_re h)

/-! ### non-vacuity -/

/-- 8 registrants at 4/2; players 1, 2 are eliminated at table 1; table 2 is told to release one
    player (5 leaves: on the way back); player 1 REGISTERS AGAIN while 5 is on the way and is
    seated at table 1; then the late report of 5 arrives. -/
def lateRe : List AOp :=
  [.add [1,2,3,4,5,6,7,8] [], .status .normal [], .sync 1 [1,2] [3,4] [] [3,4],
   .sync 2 [] [5,6,7,8] [5] [6,7,8], .add [1] [1], .report 2 [5] [] [1]]

example : AReachableReFwd ((ASys.init 4 2).run lateRe) :=
  (AReachableReFwd.init 4 2 (by decide)).run lateRe (by decide)
example : ¬ (ASys.init 4 2).allOkFwd lateRe := by decide
example : ((ASys.init 4 2).run (lateRe.take 5)).inflight = [(2, [5])] := by decide
example : ((ASys.init 4 2).run (lateRe.take 5)).env.members = [(1, [3,4,1]), (2, [6,7,8])] := by decide
example : ((ASys.init 4 2).run lateRe).env.members = [(1, [3,4,1,5]), (2, [6,7,8])] := by decide
example : ((ASys.init 4 2).run lateRe).inflight = [] := by decide

end Async

end Pokerface.C19
