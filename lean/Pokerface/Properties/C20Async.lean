/-
  C20 on the ASYNCHRONOUS system: rebalancing with LATE release reports.

  "With no new registrations and no eliminations, repeatedly syncing every table
   and carrying out the moves the regulator asks for reaches, within a small
   bounded number of sweeps, a state in which no table is asked to release,
   receive or break.  A table that is told to break hands back all of its
   players, and each of them is queued for another table."

  `Properties/C20.lean` proves this for `RSys`, where a table's `SyncState` and the `ReleasePlayers`
  report it triggers are ONE step.  Here the system is `ASys` (Model/RegulatorAsync.lean): a sync
  only calls `SyncState`; the players the table is told to release leave it and are "on the way
  back" (`inflight`); `ReleasePlayers` is a separate operation `report` that may come at ANY later
  time (after syncs of other tables and of the same table, after the table was broken) and in
  several parts; a report of nobody is possible at any time for any table id.

  Domain: `AReachable` (any setting `1 ≤ max`, any `min`, statuses in any order) for the second
  sentence; `AReachableFwd` (the statuses only move forward, reading I13) where the synchronous
  proofs need it too.  Nothing asks for "report before the next operation".

  What is proved (all settings, all reachable states, all choices):
    second sentence  `break_returns_all_async`, `reported_are_requeued_async`,
                     `broken_table_players_requeued_async` - in full;
    direction        `moves_are_directed_async`, `dispatch_is_directed_async`,
                     `table_count_monotone_async`, `table_count_monotone_async_run`;
    fixed point      `ASettled`, `settled_iff_async`, `settled_persists_async`,
                     `settled_report_of_nobody`, and the witness `settled_report_of_nobody_moves`;
    first sentence   see the section "the liveness sentence" at the end of the file.
-/
import Pokerface.Properties.C20
import Pokerface.Proofs.RegAsyncSettlePhi

namespace Pokerface.C20
open Pokerface Reg ASys

/-! ## second sentence: a broken table hands back everybody, each is queued for another table -/

/-- **break_returns_all**, asynchronous, the sync half (WIDEST domain).  Let a valid sync of an
    existing table `t` (members `≈ elim ++ stay`) from a reachable state - with any players still
    on the way back, from `t` itself or from other tables - break the table.  Then
    * the regulator tells the table to release exactly its whole remaining membership (`|stay|`)
      and gives it nobody; the departing players are all of `stay`, nobody is kept;
    * afterwards table `t` exists neither in reality nor on the regulator's sheet;
    * ALL of them are now on the way back from `t` (`departing` = `rel`; the batch joins whoever was
      on the way already), and the sync itself made no callback and queued nobody: the regulator
      hears of them again only through `ReleasePlayers` (`reported_are_requeued_async`). -/
theorem break_returns_all_async {s : ASys} (h : AReachable s) (t : Nat) (elim stay rel keep ms : List Nat)
    (hm : s.env.membersOf t = some ms) (hok : s.ok (.sync t elim stay rel keep))
    (hb : s.broken t elim = true) :
    ((s.syncAnswer t elim).2.2.1 = stay.length ∧ (s.syncAnswer t elim).2.2.2 = [] ∧
      rel.Perm stay ∧ keep = []) ∧
    (t ∉ (s.step (.sync t elim stay rel keep)).env.members.map (·.1) ∧
      (s.step (.sync t elim stay rel keep)).r.findTable t = none ∧
      (s.step (.sync t elim stay rel keep)).env.membersOf t = none) ∧
    (s.departing (.sync t elim stay rel keep) = rel ∧
      (s.step (.sync t elim stay rel keep)).flyingOf t = s.flyingOf t ++ rel ∧
      (s.step (.sync t elim stay rel keep)).flying = s.flying ++ rel ∧
      (s.step (.sync t elim stay rel keep)).r.calls = [] ∧
      (s.step (.sync t elim stay rel keep)).r.queue = s.r.queue) := by
  have hS := AInv.of_reachable h
  have hok' := hok
  simp only [ok, hm] at hok'
  rw [show s.syncAnswer t elim = ((s.syncAnswer t elim).1, (s.syncAnswer t elim).2.1,
    (s.syncAnswer t elim).2.2.1, (s.syncAnswer t elim).2.2.2) from rfl] at hok'
  simp only [] at hok'
  obtain ⟨hp1, hp2, hrl, hkeep⟩ := hok'
  obtain ⟨r1, relc, nw, t0, hans, hft, _, _, _, _, hq1, hc1, _, hbrk⟩ := hS.sync_known t elim stay ms hm hp1
  obtain ⟨hrelc, hnw⟩ := hbrk hb
  have hk := hkeep hb
  rw [hans] at hp2 hrl ⊢
  simp only [] at hp2 hrl ⊢
  subst hnw hk
  simp only [List.append_nil] at hp2
  have hS' := (hS.step_full _ hok).1
  have hr : (s.step (.sync t elim stay rel [])).r = r1 := by rw [step_sync_r, hans]
  have hfind : (s.step (.sync t elim stay rel [])).r.findTable t = none := by
    have : (r1.findTable t).isNone = true := by
      have := hb; simp only [broken, hans] at this; exact this
    rw [hr]; exact Option.isNone_iff_eq_none.1 this
  have hmo : (s.step (.sync t elim stay rel [])).env.membersOf t = none := (hS'.unknown_iff t).2 hfind
  have hinf : (s.step (.sync t elim stay rel [])).inflight =
      (if rel.isEmpty then s.inflight else s.inflight ++ [(t, rel)]) := by simp only [ASys.step, hm]
  refine ⟨⟨hrelc, rfl, hp2.symm, rfl⟩, ⟨?_, hfind, hmo⟩, ?_, ?_, ?_, ?_, ?_⟩
  · intro hin
    have := (RSys.membersOf_isSome_iff _ t).2 hin
    rw [hmo] at this; cases this
  · simp only [departing, hm]
  · simp only [flyingOf, hinf]
    split
    · rename_i he
      have : rel = [] := by simpa using he
      simp [this]
    · simp
  · simp only [flying, hinf]
    split
    · rename_i he
      have : rel = [] := by simpa using he
      simp [this]
    · simp
  · rw [hr]; exact hc1
  · rw [hr]; simpa using hq1.symm

/-- **each of them is queued for another table**, asynchronous (WIDEST domain): EVERY valid release
    report `ReleasePlayers(t, ps)` - at any time, for all or part of the players on the way back
    from `t`, whether `t` still exists or not -
    * names players on the way back from `t`, who all enter the waiting queue in this operation
      (`reported` = `incoming` = `ps`), and `rest` is exactly who stays on the way from `t`;
    * obeys the C09 ledger: queue before ++ `ps` = handed out by the callbacks of this operation
      ++ queue after, in order;
    * so every reported player is, after the operation, in the waiting queue or was handed to a
      table by a callback of this very operation - and then sits at that table; if `t` does not
      exist (it was broken), that table is ANOTHER table: the id of a broken table is never used
      again. -/
theorem reported_are_requeued_async {s : ASys} (h : AReachable s) (t : Nat) (ps rest ch : List Nat)
    (hok : s.ok (.report t ps rest ch)) :
    (ASys.reported (.report t ps rest ch) = ps ∧ s.incoming (.report t ps rest ch) = ps ∧
      (s.flyingOf t).Perm (ps ++ rest) ∧ ((s.step (.report t ps rest ch)).flyingOf t).Perm rest) ∧
    s.r.queue ++ ps = handed (s.step (.report t ps rest ch)).r.calls ++ (s.step (.report t ps rest ch)).r.queue ∧
    (∀ p ∈ ps,
      (p ∈ (s.step (.report t ps rest ch)).r.queue ∨ p ∈ handed (s.step (.report t ps rest ch)).r.calls) ∧
      (p ∈ (s.step (.report t ps rest ch)).r.queue ∨
        ∃ e ∈ (s.step (.report t ps rest ch)).env.members, p ∈ e.2 ∧ (s.env.membersOf t = none → e.1 ≠ t))) := by
  have hS := AInv.of_reachable h
  obtain ⟨hS', hF⟩ := hS.step_full _ hok
  have hho : s.r.queue ++ ps =
      handed (s.step (.report t ps rest ch)).r.calls ++ (s.step (.report t ps rest ch)).r.queue := by
    have := hF.handout
    simpa [incoming, returned] using this
  have hfl : ((s.step (.report t ps rest ch)).flyingOf t).Perm rest := by
    have : (s.step (.report t ps rest ch)).inflight =
        s.inflight.filter (fun e => e.1 != t) ++ (if rest.isEmpty then [] else [(t, rest)]) := rfl
    simp only [flyingOf, this, List.filter_append, List.filter_filter]
    have e1 : (s.inflight.filter fun a => (a.1 == t && a.1 != t)) = [] := by
      apply List.filter_eq_nil_iff.2
      intro a _
      by_cases ha : a.1 = t <;> simp [ha]
    rw [e1]
    split
    · rename_i he
      have : rest = [] := by simpa using he
      simp [this]
    · simp
  refine ⟨⟨rfl, rfl, hok.1, hfl⟩, hho, ?_⟩
  intro p hp
  have hmem : p ∈ handed (s.step (.report t ps rest ch)).r.calls ++ (s.step (.report t ps rest ch)).r.queue := by
    rw [← hho]; exact List.mem_append_right _ hp
  refine ⟨(List.mem_append.1 hmem).symm, ?_⟩
  -- where the player is afterwards: conservation of the successor state
  have hpf : p ∈ s.flyingOf t := hok.1.mem_iff.2 (List.mem_append_left _ hp)
  have hpfl : p ∈ s.flying := mem_flying_of_flyingOf hpf
  have hal : p ∈ s.env.alive := hS.cons.mem_iff.2 (List.mem_append_right _ hpfl)
  have hal' : p ∈ (s.step (.report t ps rest ch)).env.alive := hal
  have hnd' := hS'.cons.nodup_iff.1 hS'.nodup
  have hcnt := hF.flying.count_eq p
  have hndf : s.flying.count p ≤ 1 := by
    have := hS.cons.nodup_iff.1 hS.nodup
    rw [List.nodup_append] at this
    exact List.nodup_iff_count.1 this.2.1 p
  have hnot : p ∉ (s.step (.report t ps rest ch)).flying := by
    intro hin
    have c1 : 0 < (s.step (.report t ps rest ch)).flying.count p := List.count_pos_iff.2 hin
    have c2 : 0 < ps.count p := List.count_pos_iff.2 hp
    simp only [List.count_append, reported, departing, List.count_nil] at hcnt
    omega
  rcases List.mem_append.1 (hS'.cons.mem_iff.1 hal') with h1 | h1
  · rcases List.mem_append.1 h1 with h2 | h2
    · exact Or.inl h2
    · right
      obtain ⟨e, he, hpe⟩ := mem_seatedOf.1 h2
      refine ⟨e, he, hpe, fun hun het => ?_⟩
      -- a batch of `t` is on the way, so `t` was handed out; unknown ids below the counter stay unknown
      obtain ⟨e0, he0, het0, _⟩ := mem_flyingOf hpf
      have hlt : t < s.r.nextId := het0 ▸ AInvN.of_reachable h e0 he0
      have hun' := (hS.step_ids _ hok).2.1 t hlt ((hS.unknown_iff t).1 hun)
      have := (hS'.unknown_iff t).2 hun'
      have hsome : ((s.step (.report t ps rest ch)).env.membersOf t).isSome = true :=
        (RSys.membersOf_isSome_iff _ t).2 (List.mem_map.2 ⟨e, he, het⟩)
      rw [this] at hsome; cases hsome
  · exact absurd h1 hnot

/-- **break_returns_all**, asynchronous, the whole sentence along a history.  A valid sync breaks
    table `t`; ANY valid script `ops` follows (registrations, status changes, syncs of other
    tables, reports of other tables and partial reports of `t`); then a report of `t` arrives.
    Every player it names enters the waiting queue or is handed to a table in that operation, and
    that table is another table: `t` no longer exists and never exists again. -/
theorem broken_table_players_requeued_async {s : ASys} (h : AReachable s) (t : Nat)
    (elim stay rel keep ms : List Nat) (hm : s.env.membersOf t = some ms)
    (hok : s.ok (.sync t elim stay rel keep)) (hb : s.broken t elim = true)
    (ops : List AOp) (hops : (s.step (.sync t elim stay rel keep)).allOk ops)
    (ps rest ch : List Nat) (hokr : ((s.step (.sync t elim stay rel keep)).run ops).ok (.report t ps rest ch)) :
    ((s.step (.sync t elim stay rel keep)).run ops).env.membersOf t = none ∧
    ∀ p ∈ ps,
      (p ∈ (((s.step (.sync t elim stay rel keep)).run ops).step (.report t ps rest ch)).r.queue ∨
        p ∈ handed (((s.step (.sync t elim stay rel keep)).run ops).step (.report t ps rest ch)).r.calls) ∧
      (p ∈ (((s.step (.sync t elim stay rel keep)).run ops).step (.report t ps rest ch)).r.queue ∨
        ∃ e ∈ (((s.step (.sync t elim stay rel keep)).run ops).step (.report t ps rest ch)).env.members,
          e.1 ≠ t ∧ p ∈ e.2) := by
  have hS := AInv.of_reachable h
  have h1 : AReachable (s.step (.sync t elim stay rel keep)) := AReachable.step _ h hok
  have hS1 := AInv.of_reachable h1
  obtain ⟨_, ⟨_, _, hgone⟩, _⟩ := break_returns_all_async h t elim stay rel keep ms hm hok hb
  -- the id was handed out
  have hlt : t < (s.step (.sync t elim stay rel keep)).r.nextId := by
    obtain ⟨t0, hft⟩ : ∃ t0, s.r.findTable t = some t0 := by
      cases hf : s.r.findTable t with
      | none => rw [(hS.unknown_iff t).2 hf] at hm; cases hm
      | some t0 => exact ⟨t0, rfl⟩
    obtain ⟨ht0, hid0⟩ := findTable_some hft
    have := hS.wf.idlt t0 ht0
    have := (hS.step_ids _ hok).1
    omega
  obtain ⟨hun, _⟩ := gone_stays_gone ops _ hS1 hops t hlt hgone
  refine ⟨hun, fun p hp => ?_⟩
  obtain ⟨_, _, hall⟩ := reported_are_requeued_async (h1.run ops hops) t ps rest ch hokr
  obtain ⟨a, b⟩ := hall p hp
  refine ⟨a, ?_⟩
  rcases b with b | ⟨e, he, hpe, hne⟩
  · exact Or.inl b
  · exact Or.inr ⟨e, he, hne hun, hpe⟩

/-! ## moves are directed -/

/-- **moves_are_directed**, asynchronous (WIDEST domain), in REAL quantities.  A table `t` with
    members `≈ elim ++ stay` syncs while any number of players are on the way back.  The water
    level the regulator uses is computed from ALL players alive after the eliminations - seated,
    queued or on the way back: `N = |alive| − |elim|`, `R = ⌈N / max⌉` tables needed.
    * if the table is not broken and told to release `k > 0` players, it is strictly above the
      water level (`N < |stay|·R`) and stays at or above its floor (`⌊N/R⌋ ≤ |stay| − k`);
    * if it receives players from the queue, it is strictly below the water level, ends at or below
      the floor (`|stay| + |new| ≤ ⌊N/R⌋`), and is told to release nobody. -/
theorem moves_are_directed_async {s : ASys} (h : AReachable s) (t : Nat) (ms elim stay : List Nat)
    (hm : s.env.membersOf t = some ms) (hp : ms.Perm (elim ++ stay)) :
    (s.broken t elim = false → 0 < (s.syncAnswer t elim).2.2.1 →
        (s.env.alive.length : Int) - elim.length <
          stay.length * ceilDiv ((s.env.alive.length : Int) - elim.length) s.r.max ∧
        ((s.env.alive.length : Int) - elim.length) / ceilDiv ((s.env.alive.length : Int) - elim.length) s.r.max ≤
          stay.length - (s.syncAnswer t elim).2.2.1) ∧
    ((s.syncAnswer t elim).2.2.2 ≠ [] →
        stay.length * ceilDiv ((s.env.alive.length : Int) - elim.length) s.r.max <
          (s.env.alive.length : Int) - elim.length ∧
        (stay.length : Int) + ((s.syncAnswer t elim).2.2.2.length : Int) ≤
          ((s.env.alive.length : Int) - elim.length) / ceilDiv ((s.env.alive.length : Int) - elim.length) s.r.max ∧
        (s.syncAnswer t elim).2.2.1 = 0) := by
  have hS := AInv.of_reachable h
  obtain ⟨r1, relc, nw, t0, hans, hft, hc0, _⟩ := hS.sync_known t elim stay ms hm hp
  have hlen := hp.length_eq
  rw [List.length_append] at hlen
  have hd := syncState_directed s.r t elim.length t0 hft
  have hsa : s.r.syncState t elim.length = s.syncAnswer t elim := rfl
  rw [hsa, hS.pc] at hd
  have hcount : t0.count - (elim.length : Int) = stay.length := by omega
  rw [hcount] at hd
  refine ⟨fun hnb hpos => hd.1 ?_ hpos, hd.2⟩
  intro hnone
  have : s.broken t elim = true := by simp only [broken, hnone]; rfl
  rw [this] at hnb; cases hnb

/-- **dispatch_is_directed**, asynchronous.  (1) A sync makes NO callback in the asynchronous
    system (WIDEST domain): players are sent to tables only by the queue-draining operations
    (`AddPlayers`, `SetStatus`, and `ReleasePlayers` whenever it arrives).  (2) There, every
    `assignPlayersFn` callback is made by `dispatchPlayer`, which picks a table with
    `Required > 0` and hands it a prefix of the candidates no longer than that `Required` - the
    regulator-level statement of `dispatch_is_directed`, which holds for ANY regulator state and so
    whoever is on the way. -/
theorem dispatch_is_directed_async :
    (∀ {s : ASys}, AReachable s → ∀ (t : Nat) (elim stay rel keep : List Nat),
      s.ok (.sync t elim stay rel keep) → (s.step (.sync t elim stay rel keep)).r.calls = []) ∧
    (∀ {r r' : Reg} {cands rest : List Nat}, r.dispatchPlayer cands = some (rest, r') → r'.badChoice = false →
      ∃ tb ∈ r.tables, 0 < tb.required ∧ ∃ picked, r'.calls = r.calls ++ [RCall.assign tb.id picked] ∧
        (picked.length : Int) ≤ tb.required ∧ cands = picked ++ rest) := by
  refine ⟨?_, fun h hb => dispatchPlayer_directed h hb⟩
  intro s h t elim stay rel keep hok
  have hS := AInv.of_reachable h
  rw [step_sync_r]
  cases hm : s.env.membersOf t with
  | none =>
    have hft : s.r.findTable t = none := (hS.unknown_iff t).1 hm
    have : (s.syncAnswer t elim).1 = s.r.beginOp [] := syncState_unknown s.r t elim.length hft
    rw [this]
    rfl
  | some ms =>
    have hok' := hok
    simp only [ok, hm] at hok'
    rw [show s.syncAnswer t elim = ((s.syncAnswer t elim).1, (s.syncAnswer t elim).2.1,
      (s.syncAnswer t elim).2.2.1, (s.syncAnswer t elim).2.2.2) from rfl] at hok'
    simp only [] at hok'
    obtain ⟨r1, relc, nw, t0, hans, _, _, _, _, _, _, hc1, _⟩ := hS.sync_known t elim stay ms hm hok'.1
    rw [hans]; exact hc1

/-- distance between the number of tables and the number needed -/
def tableGap (r : Reg) : Nat := (r.tableCount - r.requiredTables).natAbs

/-- **table_count_monotone**, asynchronous (ANY state with `max > 0`; no validity needed).
    * an elimination-free sync, whoever is on the way: the number of tables needed `R` does not
      change; the number of tables `T` stays or drops by one, and drops only if `R < T` (a break);
    * a report, at any time, for anybody: `R` does not change, `T` never drops and never rises
      above `max T R` (tables are opened only while `T < R`).
    Late reports decouple the two halves of `table_count_monotone`; each half holds on its own. -/
theorem table_count_monotone_async (s : ASys) (hmax : 0 < s.r.max) :
    (∀ (t : Nat) (stay rel keep : List Nat),
      (s.step (.sync t [] stay rel keep)).r.requiredTables = s.r.requiredTables ∧
      (s.step (.sync t [] stay rel keep)).r.max = s.r.max ∧
      ((s.step (.sync t [] stay rel keep)).r.tableCount = s.r.tableCount ∨
        ((s.step (.sync t [] stay rel keep)).r.tableCount = s.r.tableCount - 1 ∧
          s.r.requiredTables < s.r.tableCount))) ∧
    (∀ (t : Nat) (ps rest ch : List Nat),
      (s.step (.report t ps rest ch)).r.requiredTables = s.r.requiredTables ∧
      (s.step (.report t ps rest ch)).r.max = s.r.max ∧
      s.r.tableCount ≤ (s.step (.report t ps rest ch)).r.tableCount ∧
      ((s.step (.report t ps rest ch)).r.tableCount = s.r.tableCount ∨
        (s.step (.report t ps rest ch)).r.tableCount ≤ s.r.requiredTables)) := by
  constructor
  · intro t stay rel keep
    rw [step_sync_r]
    obtain ⟨h1, h2⟩ := syncState_tc s.r t
    exact ⟨h1.req, h1.max, h2⟩
  · intro t ps rest ch
    obtain ⟨h1, h2, h3⟩ := releasePlayers_tc s.r ps ch hmax
    exact ⟨h1.req, h1.max, h2, h3⟩

/-- hence along ANY script of elimination-free syncs and reports - in any order, valid or not - the
    number of tables needed never changes and `|T − R|` never increases -/
theorem table_count_monotone_async_run : ∀ (ops : List AOp) (s : ASys), 0 < s.r.max →
    (∀ op ∈ ops, quietOp op = true) →
    (s.run ops).r.requiredTables = s.r.requiredTables ∧ (s.run ops).r.max = s.r.max ∧
    tableGap (s.run ops).r ≤ tableGap s.r := by
  intro ops
  induction ops with
  | nil => intro s _ _; exact ⟨rfl, rfl, Nat.le_refl _⟩
  | cons op ops ih =>
    intro s hmax hq
    have hqo := hq op (List.mem_cons_self ..)
    have hstep : (s.step op).r.requiredTables = s.r.requiredTables ∧ (s.step op).r.max = s.r.max ∧
        tableGap (s.step op).r ≤ tableGap s.r := by
      obtain ⟨hs, hr⟩ := table_count_monotone_async s hmax
      cases op with
      | add ps ch => simp [quietOp] at hqo
      | status st ch => simp [quietOp] at hqo
      | sync t elim stay rel keep =>
        have he : elim = [] := by simpa [quietOp] using hqo
        subst he
        obtain ⟨a, b, c⟩ := hs t stay rel keep
        refine ⟨a, b, ?_⟩
        unfold tableGap
        rw [a]
        omega
      | report t ps rest ch =>
        obtain ⟨a, b, c, d⟩ := hr t ps rest ch
        refine ⟨a, b, ?_⟩
        unfold tableGap
        rw [a]
        omega
    obtain ⟨a, b, c⟩ := hstep
    obtain ⟨a', b', c'⟩ := ih (s.step op) (by rw [b]; exact hmax) (fun o ho => hq o (List.mem_cons_of_mem _ ho))
    exact ⟨a'.trans a, b'.trans b, Nat.le_trans c' c⟩

/-! ## the fixed point -/

/-- settled, asynchronously: nobody is on the way back, and no table is asked to release, receive
    or break (the synchronous `Settled` of the state with the empty `inflight` forgotten) -/
def ASettled (s : ASys) : Prop := s.inflight = [] ∧ Settled s.toRSys

/-- `ASettled` says exactly: nobody is on the way and no elimination-free sync asks for anything
    (`ASys.asks`: release count ≠ 0, or new players, or the table is broken). -/
theorem settled_iff_async (s : ASys) :
    ASettled s ↔ s.inflight = [] ∧ ∀ t stay rel keep, s.asks (.sync t [] stay rel keep) = false := by
  unfold ASettled
  rw [settled_iff]
  constructor
  · rintro ⟨h1, h2⟩
    exact ⟨h1, fun t stay rel keep => h2 t stay rel keep []⟩
  · rintro ⟨h1, h2⟩
    exact ⟨h1, fun t stay rel keep _ => h2 t stay rel keep⟩

/-- **settled_persists**, asynchronous, syncs: from a settled state every valid elimination-free
    sync of any table asks for nothing - so nobody leaves, nobody gets on the way - and leaves a
    settled state. -/
theorem settled_persists_async {s : ASys} (h : AReachableFwd s) (hs : ASettled s)
    (t : Nat) (stay rel keep : List Nat) (hok : s.okFwd (.sync t [] stay rel keep)) :
    s.asks (.sync t [] stay rel keep) = false ∧
    s.departing (.sync t [] stay rel keep) = [] ∧ ASettled (s.step (.sync t [] stay rel keep)) := by
  have hna := ((settled_iff_async s).1 hs).2 t stay rel keep
  have hok' : s.ok (.sync t [] stay rel keep) := hok
  obtain ⟨a, b, c, d⟩ := step_noask s t stay rel keep [] hok' hna
  have hSI := (AInvF.of_reachable h).toSInv hs.1
  -- the synchronous `settled_persists`, from the invariant
  have hset : Settled (s.toRSys.step (.sync t [] stay rel keep [])) := by
    obtain ⟨hfr, hids⟩ := RSys.noask_frame hSI t stay rel keep [] a b
    intro t' ms' hm'
    have hsome : (s.toRSys.env.membersOf t').isSome = true := by
      rw [RSys.membersOf_isSome_iff, ← hids, ← RSys.membersOf_isSome_iff, hm']; rfl
    cases hm2 : s.toRSys.env.membersOf t' with
    | none => rw [hm2] at hsome; cases hsome
    | some ms =>
      obtain ⟨h1, h2, h3⟩ := hs.2 t' ms hm2
      have hfa := frame_answer hfr t'
      have e : answer0 s.toRSys.r t' = (0, [], false) := by
        unfold answer0
        show ((s.toRSys.syncAnswer t' []).2.2.1, (s.toRSys.syncAnswer t' []).2.2.2, s.toRSys.broken t' []) = _
        rw [h1, h2, h3]
      rw [e] at hfa
      exact ⟨congrArg (·.1) hfa, congrArg (·.2.1) hfa, congrArg (·.2.2) hfa⟩
  have hdep : s.departing (.sync t [] stay rel keep) = [] := by
    cases hm : s.env.membersOf t with
    | none => simp only [departing, hm]
    | some ms =>
      simp only [departing, hm]
      simp only [ok, hm] at hok'
      simp only [asks, hm, Option.isSome_some, Bool.true_and, Bool.or_eq_false_iff,
        decide_eq_false_iff_not, Bool.not_eq_false', List.isEmpty_iff, Decidable.not_not] at hna
      rw [show s.syncAnswer t [] = ((s.syncAnswer t []).1, (s.syncAnswer t []).2.1,
        (s.syncAnswer t []).2.2.1, (s.syncAnswer t []).2.2.2) from rfl] at hok'
      simp only [] at hok'
      exact List.length_eq_zero_iff.1 (by have := hok'.2.2.1; have := hna.1.1; omega)
  refine ⟨hna, hdep, ?_, ?_⟩
  · rw [d]; exact hs.1
  · rw [c]; exact hset

/-- **settled_persists**, asynchronous, reports: in a settled state nobody is on the way, so the only
    valid report is a report of NOBODY (`ReleasePlayers(t, [])`, any table id).  If moreover nothing
    is queued it changes nothing but the scratch fields of the model (`calls`, `choices`,
    `badChoice`), and the state stays settled.  With a non-empty queue this is FALSE:
    `settled_report_of_nobody_moves`. -/
theorem settled_report_of_nobody {s : ASys} (hs : ASettled s) (t : Nat) (ps rest ch : List Nat)
    (hok : s.ok (.report t ps rest ch)) :
    ps = [] ∧ rest = [] ∧
    (s.r.queue = [] →
      s.step (.report t ps rest ch) = { r := s.r.beginOp ch, env := s.env, inflight := [] } ∧
      ASettled (s.step (.report t ps rest ch))) := by
  have hnil : ps = [] ∧ rest = [] := by
    have := hok.1.length_eq
    rw [flyingOf_nil_of_inflight_nil hs.1] at this
    exact List.append_eq_nil_iff.1 (List.length_eq_zero_iff.1 this.symm)
  obtain ⟨hp0, hr0⟩ := hnil
  subst hp0 hr0
  refine ⟨rfl, rfl, fun hq0 => ?_⟩
  have hrr : s.r.releasePlayers [] ch = s.r.beginOp ch := releasePlayers_nil s.r ch hq0
  have hstep : s.step (.report t [] [] ch) = { r := s.r.beginOp ch, env := s.env, inflight := [] } := by
    simp only [ASys.step, hrr, hs.1]
    rfl
  refine ⟨hstep, ?_⟩
  rw [hstep]
  exact ⟨rfl, hs.2⟩

/-! ## the liveness sentence with late reports

  `ASys.potentialA s = Reg.phi s.r + [somebody is on the way back]`, with `Reg.phi` the potential
  of the synchronous small bound (`2·psi + D + [queue ≠ ∅]`, Proofs/RegSweepDefs.lean).

  PROVED, for every state of the forward-only domain and WHOEVER is on the way:
    * `sync_never_raises_potential_async`  - an elimination-free sync never raises the potential
      and lowers it when it asks its table to release, receive or break;
    * `report_raises_potential_by_late_cost_async` - a report raises it by at most its `lateCost`:
      by nothing, unless it arrives in a CALM state (exactly the tables needed, every table
      covered by its `Required`) carrying more players than the outstanding `Required`s can take -
      then `updateTableRequirements` hands out fresh `Required`s and the potential may rise by up to
      `2·tables` - or leaves players queued while others are still on the way (`+1`);
    * `rebalancing_settles_async_partial` - hence along EVERY valid script of elimination-free syncs
      and reports (any interleaving, reports arbitrarily late and in parts) the number of asking
      syncs is at most `potentialA s + lateCostSum`, and `potentialA s ≤ small_bound + 1`;
    * `quiet_round_settled_async`, `rebalancing_reaches_settled_async_partial` - a round that
      starts with nobody on the way, covers every table and asks for nothing starts in a settled
      state; among more than `potentialA s + lateCostSum` rounds there is one.
  NOT PROVED: `rebalancing_settles_async_full` - that the late costs can be dropped, i.e. that at
  most `small_bound s + 1` syncs ask for anything, however late the reports.  `Reg.phi` is NOT
  monotone across a report that arrives in a calm state (`potential_rises_at_report`, kernel-checked
  and replayed on the Go code, in a run WITHOUT eliminations from a state with nobody on the way):
  the synchronous proof pays the fresh `Required`s of that report with the slack the preceding
  BREAK left (`psi1 + 2 ≤ psi`) and never looks at the state between the break and its report;
  with late reports any number of syncs may happen there.
  Evidence that the full claim is true (outside the kernel, `Explore.lean` of the proving agent): an
  exhaustive search of ALL interleavings of elimination-free syncs and reports (reports in parts
  included) from 4·10⁴ reachable states with nobody on the way (max 2..7, up to 30 players) found
  no run with more asking syncs than `Reg.phi` of its start, no sync that raised the potential,
  and the potential rising ONLY at reports of players of BROKEN tables.  A potential that banks
  the slack of a break until the report of its players arrives would close the gap; the three
  obvious candidates (cash the calm bonus only when the queue and the players on the way fit into
  the outstanding `Required`s / into the deficits / when nobody is on the way) are each refuted by
  the same search (a sync that lowers a stale `Required`, a partial report, a release in a calm
  state). -/

/-- the asynchronous potential -/
def potential_async (s : ASys) : Nat := ASys.potentialA s

/-- what the reports of a script may add to the potential -/
def late_cost (s : ASys) (ops : List AOp) : Nat := ASys.lateCostSum s ops

/-- **syncs never raise the potential, whoever is on the way** (forward-only domain): every valid
    elimination-free sync keeps `potential_async` from rising and lowers it by at least one when
    it asks its table to release, receive or break. -/
theorem sync_never_raises_potential_async {s : ASys} (h : AReachableFwd s) (t : Nat)
    (stay rel keep : List Nat) (hok : s.okFwd (.sync t [] stay rel keep)) :
    potential_async (s.step (.sync t [] stay rel keep)) ≤ potential_async s ∧
    (s.asks (.sync t [] stay rel keep) = true →
      potential_async (s.step (.sync t [] stay rel keep)) + 1 ≤ potential_async s) :=
  sync_step_phi (AInvF.of_reachable h) t stay rel keep (ok_of_okFwd hok)

/-- **a report raises the potential by at most its late cost**, and the late cost is `0` unless the
    report `overflows` (calm state, `|queue| + |ps| >` the sum of the outstanding `Required`s:
    cost `2·tables`) or `strands` players (the queue was empty, is not afterwards, and somebody is
    still on the way: cost `1`). -/
theorem report_raises_potential_by_late_cost_async {s : ASys} (h : AReachableFwd s) (t : Nat)
    (ps rest ch : List Nat) (hok : s.okFwd (.report t ps rest ch)) :
    potential_async (s.step (.report t ps rest ch)) ≤ potential_async s + ASys.lateCost s (.report t ps rest ch) ∧
    ASys.lateCost s (.report t ps rest ch) =
      (if ASys.overflows s ps then 2 * s.r.tables.length else 0) +
        (if ASys.strands s (.report t ps rest ch) then 1 else 0) :=
  ⟨report_step_phi (AInvF.of_reachable h) t ps rest ch (ok_of_okFwd hok), rfl⟩

/-- the potential is at most the synchronous small bound plus one -/
theorem potential_async_le {s : ASys} (h : AReachableFwd s) :
    potential_async s ≤ Reg.smallBound s.r + 1 := potentialA_le (AInvF.of_reachable h)

/-- the FULL claim (open): from every reachable state, along every valid script of elimination-free
    syncs and reports, at most `small_bound + 1` syncs ask for anything - however late and in
    however many parts the reports arrive. -/
def rebalancing_settles_async_full : Prop :=
  ∀ s : ASys, AReachableFwd s → ∀ ops : List AOp,
    (∀ op ∈ ops, quietOp op = true) → s.allOkFwd ops → s.askCount ops ≤ Reg.smallBound s.r + 1

/-- **rebalancing_settles with late reports, partial**.  From every state of the forward-only domain
    - with anybody on the way -, along EVERY valid script of elimination-free syncs and reports:
    any order of tables, a table may sync again before its report, reports at any later time and
    in parts, any choice of who leaves, any dispatch choices.  The number of syncs that ask their
    table to release, receive or break is at most the potential at the start plus the late costs
    of the reports of the script; the potential is at most `small_bound + 1`.  What is missing
    for `rebalancing_settles_async_full` is a bound on `late_cost` that does not depend on the
    script. -/
theorem rebalancing_settles_async_partial {s : ASys} (h : AReachableFwd s) (ops : List AOp)
    (hq : ∀ op ∈ ops, quietOp op = true) (hok : s.allOkFwd ops) :
    s.askCount ops ≤ potential_async s + late_cost s ops ∧
    s.askCount ops ≤ Reg.smallBound s.r + 1 + late_cost s ops := by
  have h1 := askCount_le_phiA ops s (AInvF.of_reachable h) hq hok
  have h2 := potential_async_le h
  unfold potential_async late_cost at *
  exact ⟨by omega, by omega⟩

/-- the full claim holds for every script whose reports cost nothing: no report arrives in a calm
    state with more players than the outstanding `Required`s can take, none strands players -/
theorem rebalancing_settles_async_costless {s : ASys} (h : AReachableFwd s) (ops : List AOp)
    (hq : ∀ op ∈ ops, quietOp op = true) (hok : s.allOkFwd ops) (h0 : late_cost s ops = 0) :
    s.askCount ops ≤ Reg.smallBound s.r + 1 := by
  have := (rebalancing_settles_async_partial h ops hq hok).2
  omega

/-- a whole round that starts with nobody on the way, syncs every existing table at least once,
    asks nobody anything and contains no spurious report (every report names somebody - or nothing
    is queued) starts, and by `settled_persists_async` ends, in a settled state -/
theorem quiet_round_settled_async {s : ASys} (h : AReachableFwd s) (hf : s.inflight = []) (ops : List AOp)
    (hq : ∀ op ∈ ops, quietOp op = true) (hok : s.allOkFwd ops) (h0 : s.askCount ops = 0)
    (hrep : s.r.queue = [] ∨ ∀ t ps rest ch, AOp.report t ps rest ch ∈ ops → ps ≠ [])
    (hcover : ∀ t ms, s.env.membersOf t = some ms → ∃ stay rel keep, AOp.sync t [] stay rel keep ∈ ops) :
    ASettled s := by
  refine ⟨hf, ?_⟩
  intro t ms hm
  have hm' : s.env.membersOf t = some ms := hm
  have hsome : (s.env.membersOf t).isSome = true := by rw [hm']; rfl
  have := noask_script_answers_async ops s (AInvF.of_reachable h) hf hq hok h0 hrep t (hcover t ms hm') hsome
  exact ⟨congrArg (·.1) this, congrArg (·.2.1) this, congrArg (·.2.2) this⟩

/-- **rebalancing reaches a settled state, partial**: take any valid sequence of rounds from a state
    of the forward-only domain; each round is a list of elimination-free syncs and reports that
    syncs every table existing at its start (any order, a table possibly several times) and by its
    end has delivered every report (fairness: every round STARTS with nobody on the way; inside a
    round the reports may come at any point after their sync, also after the table's next sync, and
    in parts); no report of nobody is made.  If there are more rounds than the potential at the
    start plus the late costs of the whole run, one of the rounds starts in a settled state. -/
theorem rebalancing_reaches_settled_async_partial {s : ASys} (h : AReachableFwd s) (rounds : List (List AOp))
    (hq : ∀ sw ∈ rounds, ∀ op ∈ sw, quietOp op = true) (hok : s.allOkFwd rounds.flatten)
    (hcover : ∀ pre sw post, rounds = pre ++ sw :: post → ∀ t ms,
      (s.run pre.flatten).env.membersOf t = some ms → ∃ stay rel keep, AOp.sync t [] stay rel keep ∈ sw)
    (hfair : ∀ pre sw post, rounds = pre ++ sw :: post → (s.run pre.flatten).inflight = [])
    (hrep : ∀ sw ∈ rounds, ∀ t ps rest ch, AOp.report t ps rest ch ∈ sw → ps ≠ [])
    (hlen : potential_async s + late_cost s rounds.flatten < rounds.length) :
    ∃ pre sw post, rounds = pre ++ sw :: post ∧ ASettled (s.run pre.flatten) := by
  have hqf : ∀ op ∈ rounds.flatten, quietOp op = true := by
    intro op hop
    obtain ⟨sw, hsw, hin⟩ := List.mem_flatten.1 hop
    exact hq sw hsw op hin
  have hb := (rebalancing_settles_async_partial h rounds.flatten hqf hok).1
  have hex : ∃ pre sw post, rounds = pre ++ sw :: post ∧ (s.run pre.flatten).askCount sw = 0 := by
    apply Classical.byContradiction
    intro hno
    have := askCount_rounds rounds s (fun pre sw post he => by
      have : ¬ (s.run pre.flatten).askCount sw = 0 := fun h0 => hno ⟨pre, sw, post, he, h0⟩
      omega)
    omega
  obtain ⟨pre, sw, post, he, h0⟩ := hex
  refine ⟨pre, sw, post, he, ?_⟩
  have hokf : s.allOkFwd (pre.flatten ++ (sw ++ post.flatten)) := by
    rw [he] at hok; simpa using hok
  have hok1 := (allOkFwd_append s pre.flatten (sw ++ post.flatten)).1 hokf
  have hok2 := (allOkFwd_append (s.run pre.flatten) sw post.flatten).1 hok1.2
  have hreach : AReachableFwd (s.run pre.flatten) := h.run pre.flatten hok1.1
  have hsw : sw ∈ rounds := by rw [he]; simp
  exact quiet_round_settled_async hreach (hfair pre sw post he) sw (fun op hop => hq sw hsw op hop) hok2.1 h0
    (Or.inr (hrep sw hsw)) (hcover pre sw post he)

/-- the synchronous theorems are the special case "report at once": the synchronous small bound
    re-read on the asynchronous system.  For a synchronous history (`RSys.Reachable s`) and a valid
    elimination-free synchronous script, the asynchronous script that follows every sync AT ONCE by
    the report of everybody it released reaches the same states (`C09.sync_then_report_eq_rsys_step`),
    and at most `small_bound s` of its syncs ask for anything: this is `rebalancing_settles_small_syncs`. -/
theorem rebalancing_settles_prompt_async {s : RSys} (h : RSys.Reachable s) (ops : List EOp)
    (hq : ∀ op ∈ ops, RSys.quietOp op = true) (hok : s.allOk ops) :
    AReachableFwd (ASys.ofRSys s) ∧ AReachableFwd (ASys.ofRSys (s.run ops)) ∧ s.askCount ops ≤ small_bound s :=
  ⟨AReachableFwd.ofRSys h, AReachableFwd.ofRSys (h.run ops hok), rebalancing_settles_small_syncs h ops hq hok⟩

/-! ## non-vacuity and witnesses: histories with LATE reports -/

/-- a decidable test for `ASettled`: nobody on the way, and every existing table is asked nothing -/
theorem asettled_of_check {s : ASys} (hf : s.inflight = [])
    (hc : ∀ e ∈ s.env.members, answer0 s.r e.1 = (0, [], false)) : ASettled s := by
  refine ⟨hf, ?_⟩
  intro t ms hm
  have hm' : s.env.membersOf t = some ms := hm
  have := hc (t, ms) (mem_members_of_membersOf hm')
  exact ⟨congrArg (·.1) this, congrArg (·.2.1) this, congrArg (·.2.2) this⟩

private def rg (n k : Nat) : List Nat := (List.range k).map (· + n)

/-- `brk` (9/6): twelve registrants, two tables of six; four eliminations at table 1 leave 8 players,
    one table suffices: table 1 is BROKEN, players 5 and 6 are on the way back.  Table 2 syncs
    before their report (it is below the level now and is promised two players); only then
    `ReleasePlayers(1, [5, 6])` arrives, for a table that no longer exists: both are handed to
    table 2. -/
def brk : List AOp :=
  [.add (rg 1 12) [], .status .normal [],
   .sync 1 [1,2,3,4] [5,6] [5,6] [],
   .sync 2 [] (rg 7 6) [] (rg 7 6),
   .report 1 [5,6] [] [2]]

example : AReachableFwd ((ASys.init 9 6).run brk) :=
  (AReachableFwd.init 9 6 (by decide)).run brk (by decide)
/-- hypotheses of `break_returns_all_async` -/
example : ((ASys.init 9 6).run (brk.take 2)).env.membersOf 1 = some [1,2,3,4,5,6] := by decide
example : ((ASys.init 9 6).run (brk.take 2)).broken 1 [1,2,3,4] = true := by decide
example : ((ASys.init 9 6).run (brk.take 3)).inflight = [(1, [5,6])] := by decide
example : ((ASys.init 9 6).run (brk.take 3)).env.members = [(2, rg 7 6)] := by decide
/-- the sync of the other table in between: it is asked nothing, but now waits for two players -/
example : ((ASys.init 9 6).run (brk.take 4)).r.tables = [{ id := 2, required := 2, count := 6 }] := by decide
/-- the late report (hypotheses of `reported_are_requeued_async`,
    `broken_table_players_requeued_async` with `ops` = the sync of table 2) -/
example : ((ASys.init 9 6).run (brk.take 4)).env.membersOf 1 = none := by decide
example : ((ASys.init 9 6).run brk).r.calls = [.assign 2 [5, 6]] := by decide
example : ((ASys.init 9 6).run brk).env.members = [(2, [7,8,9,10,11,12,5,6])] := by decide

/-- `lateRun` (9/6): 27 registrants, tables of nine; six eliminations at table 1 (3/9/9, level 7).
    Table 2 is told to release two (10, 11 leave), table 3 - with two players already on the way -
    is told to release two as well (19, 20 leave); table 1 syncs (nothing in the queue yet);
    table 3's report arrives; table 2 syncs AGAIN before its own report; table 2's report arrives.
    7/7/7, settled. -/
def lateRun : List AOp :=
  [.add (rg 1 27) [], .status .normal [], .sync 1 [1,2,3,4,5,6] [7,8,9] [] [7,8,9],
   .sync 2 [] (rg 10 9) [10,11] (rg 12 7),
   .sync 3 [] (rg 19 9) [19,20] (rg 21 7),
   .sync 1 [] [7,8,9] [] [7,8,9],
   .report 3 [19,20] [] [1],
   .sync 2 [] (rg 12 7) [] (rg 12 7),
   .report 2 [10,11] [] [1]]

example : AReachableFwd ((ASys.init 9 6).run lateRun) :=
  (AReachableFwd.init 9 6 (by decide)).run lateRun (by decide)
/-- `moves_are_directed_async`, first half, with players on the way: table 3 (nine players, level 7,
    21 alive of whom two sit nowhere) is told to release two -/
example : ((ASys.init 9 6).run (lateRun.take 4)).inflight = [(2, [10,11])] := by decide
example : (((ASys.init 9 6).run (lateRun.take 4)).syncAnswer 3 []).2.2.1 = 2 := by decide
example : ((ASys.init 9 6).run (lateRun.take 4)).env.alive.length = 21 := by decide
/-- the rebalancing phase `lateRun.drop 3` (hypotheses of `rebalancing_settles_async_partial`): two
    syncs ask, the potential is 9 at its start, the reports cost nothing; the potential along the
    run: 9, 6, 2, 2, 2, 2, 0 -/
example : ∀ op ∈ lateRun.drop 3, quietOp op = true := by decide
example : ((ASys.init 9 6).run (lateRun.take 3)).allOkFwd (lateRun.drop 3) := by decide
example : ((ASys.init 9 6).run (lateRun.take 3)).askCount (lateRun.drop 3) = 2 := by decide
example : potential_async ((ASys.init 9 6).run (lateRun.take 3)) = 9 := by decide
example : late_cost ((ASys.init 9 6).run (lateRun.take 3)) (lateRun.drop 3) = 0 := by decide
example : (List.range 7).map (fun i => potential_async ((ASys.init 9 6).run (lateRun.take (3 + i)))) =
    [9, 6, 2, 2, 2, 2, 0] := by decide
/-- the end of the run is settled (hypotheses of `settled_persists_async`, `settled_report_of_nobody`) -/
example : ((ASys.init 9 6).run lateRun).env.members =
    [(1, [7,8,9,19,20,10,11]), (2, rg 12 7), (3, rg 21 7)] := by decide
example : ASettled ((ASys.init 9 6).run lateRun) := asettled_of_check (by decide) (by decide)
example : ((ASys.init 9 6).run lateRun).okFwd (.sync 2 [] (rg 12 7) [] (rg 12 7)) := by decide
example : ((ASys.init 9 6).run lateRun).r.queue = [] := by decide
/-- a round with nobody on the way at its start, covering all three tables, asking nothing
    (hypotheses of `quiet_round_settled_async`) -/
example : ((ASys.init 9 6).run lateRun).askCount
    [.sync 1 [] [7,8,9,19,20,10,11] [] [7,8,9,19,20,10,11], .sync 2 [] (rg 12 7) [] (rg 12 7),
     .sync 3 [] (rg 21 7) [] (rg 21 7)] = 0 := by decide
/-- `table_count_monotone_async_run`: the break of `brk` is the only change of the table count -/
example : tableGap ((ASys.init 9 6).run (brk.take 2)).r = 0 ∧
    ((ASys.init 9 6).run (brk.take 2)).r.max = 9 := by decide

/-- **settled_report_of_nobody_moves** (witness): "a report of nobody changes nothing in a settled
    state" is FALSE when players are queued.  At max 2, min 1: seven registrants, start (tables
    1/2/2/2), two more registrants: 8 opens table 5, 9 stays queued although table 1 has a free seat
    (`allocateTables` opens a table for one player and stops; `updateTableRequirements` did not run
    because a table was missing).  The state is settled - no table is asked anything - with 9 in the
    queue.  A spurious `ReleasePlayers(0, [])` then drains the queue: 9 is handed to table 1.
    Go level: `AddPlayers(1..7); SetStatus(Normal); AddPlayers(8,9); ReleasePlayers("0", nil)`. -/
def emptyRun : List AOp := [.add (rg 1 7) [], .status .normal [], .add [8,9] []]

theorem settled_report_of_nobody_moves :
    AReachableFwd ((ASys.init 2 1).run emptyRun) ∧ ASettled ((ASys.init 2 1).run emptyRun) ∧
    ((ASys.init 2 1).run emptyRun).r.queue = [9] ∧
    ((ASys.init 2 1).run emptyRun).okFwd (.report 0 [] [] [1]) ∧
    (((ASys.init 2 1).run emptyRun).step (.report 0 [] [] [1])).r.calls = [.assign 1 [9]] ∧
    (((ASys.init 2 1).run emptyRun).step (.report 0 [] [] [1])).r.queue = [] :=
  ⟨(AReachableFwd.init 2 1 (by decide)).run emptyRun (by decide),
   asettled_of_check (by decide) (by decide), by decide, by decide, by decide, by decide⟩

/-- **potential_rises_at_report** (witness): the potential is NOT monotone across a report.
    At max 5, min 1: 17 registrants (tables 4/4/4/5); table 3 loses all four players, table 4 loses
    two; 18, 19 register and go to table 3.  Now 13 players sit 4/4/2/3 at four tables, three would
    do, nobody is on the way, nothing is queued (potential 12).  The rebalancing phase, no
    eliminations: table 4 syncs and is BROKEN - 15, 16, 17 are on the way back, the potential falls to
    2: three tables 4/4/2 with `Required` 0/0/2 are exactly the tables needed and each is covered, a
    calm state - and then their report arrives, AT ONCE: three players for two outstanding seats,
    `updateTableRequirements` hands out fresh `Required`s, the potential RISES to 6 (`lateCost = 6`).
    The synchronous proof never looks at the state between the break and its report; with late
    reports any number of syncs may happen there.  One sync asked; `1 ≤ 12`: the count of asking
    syncs is nowhere near violated.
    Go level: `AddPlayers(1..17); SetStatus(Normal); SyncState(3, out=4); SyncState(4, out=2);
    AddPlayers(18,19); SyncState(4, 0) -> break, release 3; ReleasePlayers(4, [15 16 17])`. -/
def riseRun : List AOp :=
  [.add (rg 1 17) [], .status .normal [], .sync 3 [9,10,11,12] [] [] [],
   .sync 4 [13,14] [15,16,17] [] [15,16,17], .add [18,19] [3],
   .sync 4 [] [15,16,17] [15,16,17] [], .report 4 [15,16,17] [] [3,1]]

theorem potential_rises_at_report :
    AReachableFwd ((ASys.init 5 1).run (riseRun.take 5)) ∧
    ((ASys.init 5 1).run (riseRun.take 5)).inflight = [] ∧
    ((ASys.init 5 1).run (riseRun.take 5)).r.queue = [] ∧
    (∀ op ∈ riseRun.drop 5, quietOp op = true) ∧
    ((ASys.init 5 1).run (riseRun.take 5)).allOkFwd (riseRun.drop 5) ∧
    potential_async ((ASys.init 5 1).run (riseRun.take 5)) = 12 ∧
    potential_async ((ASys.init 5 1).run (riseRun.take 6)) = 2 ∧
    potential_async ((ASys.init 5 1).run (riseRun.take 7)) = 6 ∧
    ASys.overflows ((ASys.init 5 1).run (riseRun.take 6)) [15,16,17] ∧
    late_cost ((ASys.init 5 1).run (riseRun.take 5)) (riseRun.drop 5) = 6 ∧
    ((ASys.init 5 1).run (riseRun.take 5)).askCount (riseRun.drop 5) = 1 :=
  ⟨(AReachableFwd.init 5 1 (by decide)).run (riseRun.take 5) (by decide), by decide, by decide,
   by decide, by decide, by decide, by decide, by decide, by decide, by decide, by decide⟩

example : ((ASys.init 5 1).run (riseRun.take 6)).r.tables =
    [{ id := 1, required := 0, count := 4 }, { id := 2, required := 0, count := 4 },
     { id := 3, required := 2, count := 2 }] := by decide
example : ((ASys.init 5 1).run riseRun).r.tables =
    [{ id := 1, required := 0, count := 5 }, { id := 2, required := 1, count := 4 },
     { id := 3, required := 1, count := 4 }] := by decide

end Pokerface.C20
