import Pokerface.Properties.C03Spec
import Pokerface.Proofs.EvalOrder
import Pokerface.Proofs.EvalKey
import Pokerface.Proofs.EvalValid
/-!
  # C03 — Five-card hand ranking is the poker order

  *"For any two five-card hands the evaluator gives the higher strength score to the
  hand that wins under the rules of poker and equal scores exactly to hands that
  tie, and it names the hand's category correctly; the order of categories follows
  the ranking table of the variant (flush above full house in short deck).  The ace
  plays low only in the five-high straight (how a short-deck A-6-7-8-9 is classed
  is not fixed by this property)."*

  The rules of poker are the declarative specification of `Properties/C03Spec.lean`
  (`specCat`, `specTiebreak`, `pokerKey`, `Valid`): it consults the hand only through
  the multiset of its ranks and the all-suits-equal flag, and never mentions the
  evaluator.  The evaluator is `calculatePower` of `Model/Eval.lean`
  (power.go `CalculatePower`) with `lvl = Generated.combinationLevel`
  (`CombinationLevel`) and `T` one of the two shipped ranking tables
  `Generated.powerStandard`, `Generated.powerShortDeck`; these constants are
  regenerated from the Go source, and the proofs depend on them only through
  kernel-evaluated checks (`nfGroup_1 … 8`, `tableOK_standard`, `tableOK_shortDeck`)
  which fail when a constant changes.

  All statements hold for every order of the five cards within the hand: the hand
  is an arbitrary `List Card`, and the model sorts it itself (`sortCards`).

  `powerScore` computes `rank − 2` with `Nat` subtraction; valid ranks are ≥ 2, so
  this is exact (the table check `chk` verifies that every tiebreak entry is in
  2..14 and that the raw score is the base-13 value of those entries).

  Proof outline (DESIGN §6 C03): (i) normal form of score and category on all 7 462
  classes (sorted rank tuple, flush flag) by `decide +kernel`, `Proofs/EvalTable*`;
  (ii) insertion sort gives a sorted permutation and the specification is
  permutation invariant, `Proofs/EvalSort`; (iii) base-13 value is monotone for the
  lexicographic order, `Proofs/EvalEnc`; (iv) category offsets separate categories,
  `tableOK` in `Proofs/EvalOrder`.
-/
namespace Pokerface.C03
open Generated

/-! ## The hands concerned -/

/-- The domain of the property ("all 2,598,960 five-card hands of the 52-card deck
    and all 376,992 of the 36-card deck"): five pairwise distinct cards whose suits
    are among the four suits of deck.go and whose ranks are in 2..14 satisfy `Valid`
    — in particular no rank occurs five times, and a one-suited hand has five
    different ranks.  `Valid` itself is weaker (it does not restrict the suits), so
    the theorems below cover more than the property asks. -/
theorem valid_of_distinct (h : List Card) (h5 : h.length = 5) (hd : h.Nodup)
    (hs : ∀ c ∈ h, c.suit ∈ suitCodes) (hr : ∀ c ∈ h, 2 ≤ c.rank ∧ c.rank ≤ 14) : Valid h :=
  valid_of_distinct_cards h h5 hd hs hr

/-- A royal flush in spades, cards in scrambled order. -/
def royal : List Card := [⟨83, 12⟩, ⟨83, 14⟩, ⟨83, 10⟩, ⟨83, 13⟩, ⟨83, 11⟩]
/-- The wheel 5-4-3-2-A in mixed suits, scrambled. -/
def wheel : List Card := [⟨72, 3⟩, ⟨83, 14⟩, ⟨68, 5⟩, ⟨67, 2⟩, ⟨83, 4⟩]
/-- A six-high straight. -/
def sixHigh : List Card := [⟨72, 3⟩, ⟨83, 6⟩, ⟨68, 5⟩, ⟨67, 2⟩, ⟨83, 4⟩]
/-- Short deck: a full house (nines over sixes) and a flush (K-J-9-8-6 of hearts). -/
def sdFullHouse : List Card := [⟨83, 9⟩, ⟨72, 6⟩, ⟨68, 9⟩, ⟨67, 6⟩, ⟨72, 9⟩]
def sdFlush : List Card := [⟨72, 8⟩, ⟨72, 13⟩, ⟨72, 6⟩, ⟨72, 11⟩, ⟨72, 9⟩]
/-- Two hands that tie (same ranks, other suits). -/
def pairA : List Card := [⟨83, 9⟩, ⟨72, 9⟩, ⟨68, 14⟩, ⟨67, 6⟩, ⟨72, 2⟩]
def pairB : List Card := [⟨67, 2⟩, ⟨68, 9⟩, ⟨67, 9⟩, ⟨83, 6⟩, ⟨83, 14⟩]

example : Valid royal := valid_of_distinct _ rfl (by decide) (by decide) (by decide)
example : Valid wheel := valid_of_distinct _ rfl (by decide) (by decide) (by decide)
theorem valid_sixHigh : Valid sixHigh := valid_of_distinct _ rfl (by decide) (by decide) (by decide)
theorem valid_wheel : Valid wheel := valid_of_distinct _ rfl (by decide) (by decide) (by decide)
theorem valid_sdFullHouse : Valid sdFullHouse := valid_of_distinct _ rfl (by decide) (by decide) (by decide)
theorem valid_sdFlush : Valid sdFlush := valid_of_distinct _ rfl (by decide) (by decide) (by decide)
theorem valid_pairA : Valid pairA := valid_of_distinct _ rfl (by decide) (by decide) (by decide)
theorem valid_pairB : Valid pairB := valid_of_distinct _ rfl (by decide) (by decide) (by decide)

/-! ## The specified order is an order, and ignores the order of the cards -/

/-- Of two keys exactly one of "loses", "ties", "wins" holds (totality). -/
theorem pokerKey_trichotomy (k₁ k₂ : PokerKey) : k₁ < k₂ ∨ k₁ = k₂ ∨ k₂ < k₁ :=
  key_trichotomy k₁ k₂

/-- … and "loses" excludes "wins" (hence also "ties": take `k₁ = k₂`). -/
theorem pokerKey_lt_asymm (k₁ k₂ : PokerKey) (h : k₁ < k₂) : ¬ k₂ < k₁ :=
  key_lt_asymm k₁ k₂ h

/-- The specified strength of a hand does not depend on the order of its cards. -/
theorem pokerKey_order_irrelevant (T : List Cat) (h h' : List Card) (p : h.Perm h') :
    pokerKey T h = pokerKey T h' :=
  pokerKey_perm T p

/-- "The ace plays low only in the five-high straight": sanity checks of the
    specification.  The wheel is a straight with top card five, below the six-high
    straight; Q-K-A-2-3 is no straight; A-K-Q-J-T is the highest. -/
example : specCat [14, 5, 4, 3, 2] false = .straight ∧ specTiebreak [14, 5, 4, 3, 2] = [5] := by decide
example : specCat [3, 14, 2, 13, 12] false = .highCard := by decide
example : specTiebreak [10, 14, 13, 11, 12] = [14] := by decide
example : specTiebreak [9, 14, 9, 3, 14] = [14, 9, 3] := by decide
example : pokerKey powerStandard wheel < pokerKey powerStandard sixHigh := Or.inr ⟨by decide, by decide⟩

/-! ## The ranking tables of the two variants -/

/-- "the order of categories follows the ranking table of the variant": the
    standard table is the order of categories of the rules of poker, weakest first
    (a fact about the regenerated constant `CombinationPowerStandard`). -/
theorem standard_table_is_poker_order :
    powerStandard = [.highCard, .pair, .twoPair, .trips, .straight, .flush, .fullHouse, .quads,
      .straightFlush] := by decide

/-- "(flush above full house in short deck)": the short-deck table is the standard
    one with flush and full house exchanged (regenerated constant
    `CombinationPowerShortDeck`). -/
theorem shortDeck_table_flush_above_fullHouse :
    powerShortDeck = [.highCard, .pair, .twoPair, .trips, .straight, .fullHouse, .flush, .quads,
      .straightFlush] ∧
    powerShortDeck.idxOf Cat.fullHouse < powerShortDeck.idxOf Cat.flush := by decide

/-! ## Category -/

/-- "… and it names the hand's category correctly": for every valid hand, in any
    card order, under any ranking table `T` and sizes `lvl` (the category does not
    depend on them), the reported category is the specified one. -/
theorem category_correct (lvl : Cat → Nat) (T : List Cat) (h : List Card) (hv : Valid h) :
    (calculatePower lvl T h).cat = specCat (ranks h) (sameSuit h) := by
  obtain ⟨_, n⟩ := normalForm lvl T h hv
  exact n.cat_eq

example : (calculatePower combinationLevel powerStandard royal).cat = .straightFlush := by
  rw [category_correct _ _ _ (valid_of_distinct _ rfl (by decide) (by decide) (by decide))]; decide

/-! ## Standard ranking table -/

/-- "For any two five-card hands the evaluator gives the higher strength score to
    the hand that wins under the rules of poker": with the standard table, for all
    valid hands `h₁ h₂` (any card order), `h₁` scores strictly below `h₂` iff `h₁`
    loses to `h₂` in the specified order (category position in the table first,
    then the tiebreak). -/
theorem score_lt_iff_standard (h₁ h₂ : List Card) (hv₁ : Valid h₁) (hv₂ : Valid h₂) :
    (calculatePower combinationLevel powerStandard h₁).score
        < (calculatePower combinationLevel powerStandard h₂).score
      ↔ pokerKey powerStandard h₁ < pokerKey powerStandard h₂ :=
  score_lt_iff_of_tableOK powerStandard tableOK_standard h₁ h₂ hv₁ hv₂

/-- "… and equal scores exactly to hands that tie": standard table. -/
theorem score_eq_iff_standard (h₁ h₂ : List Card) (hv₁ : Valid h₁) (hv₂ : Valid h₂) :
    (calculatePower combinationLevel powerStandard h₁).score
        = (calculatePower combinationLevel powerStandard h₂).score
      ↔ pokerKey powerStandard h₁ = pokerKey powerStandard h₂ :=
  score_eq_iff_of_tableOK powerStandard tableOK_standard h₁ h₂ hv₁ hv₂

/-- The wheel loses to the six-high straight (through the theorem). -/
example : (calculatePower combinationLevel powerStandard wheel).score
    < (calculatePower combinationLevel powerStandard sixHigh).score :=
  (score_lt_iff_standard _ _ valid_wheel valid_sixHigh).2 (Or.inr ⟨by decide, by decide⟩)

/-- Two hands with the same ranks in other suits and another card order tie. -/
example : (calculatePower combinationLevel powerStandard pairA).score
    = (calculatePower combinationLevel powerStandard pairB).score :=
  (score_eq_iff_standard _ _ valid_pairA valid_pairB).2 (by decide)

/-- Standard table: full house above flush. -/
example : (calculatePower combinationLevel powerStandard sdFlush).score
    < (calculatePower combinationLevel powerStandard sdFullHouse).score :=
  (score_lt_iff_standard _ _ valid_sdFlush valid_sdFullHouse).2 (Or.inl (by decide))

/-! ## Short-deck ranking table -/

/-- Same as `score_lt_iff_standard` for the short-deck table, where the position of
    the categories is that of `CombinationPowerShortDeck` (flush above full house).
    Hands consisting of A-9-8-7-6 are excluded (`isA6789 … = false`) because the
    property leaves their class open.  (The proof does not use these two hypotheses:
    the evaluator classes such a hand as high card or flush, which is also what the
    specification says when the ace is low only in the wheel.) -/
theorem score_lt_iff_shortDeck (h₁ h₂ : List Card) (hv₁ : Valid h₁) (hv₂ : Valid h₂)
    (_hx₁ : isA6789 h₁ = false) (_hx₂ : isA6789 h₂ = false) :
    (calculatePower combinationLevel powerShortDeck h₁).score
        < (calculatePower combinationLevel powerShortDeck h₂).score
      ↔ pokerKey powerShortDeck h₁ < pokerKey powerShortDeck h₂ :=
  score_lt_iff_of_tableOK powerShortDeck tableOK_shortDeck h₁ h₂ hv₁ hv₂

/-- "… equal scores exactly to hands that tie": short-deck table, same exclusion. -/
theorem score_eq_iff_shortDeck (h₁ h₂ : List Card) (hv₁ : Valid h₁) (hv₂ : Valid h₂)
    (_hx₁ : isA6789 h₁ = false) (_hx₂ : isA6789 h₂ = false) :
    (calculatePower combinationLevel powerShortDeck h₁).score
        = (calculatePower combinationLevel powerShortDeck h₂).score
      ↔ pokerKey powerShortDeck h₁ = pokerKey powerShortDeck h₂ :=
  score_eq_iff_of_tableOK powerShortDeck tableOK_shortDeck h₁ h₂ hv₁ hv₂

/-- "(flush above full house in short deck)": through the theorem … -/
example : (calculatePower combinationLevel powerShortDeck sdFullHouse).score
    < (calculatePower combinationLevel powerShortDeck sdFlush).score :=
  (score_lt_iff_shortDeck _ _ valid_sdFullHouse valid_sdFlush (by decide) (by decide)).2
    (Or.inl (by decide))

/-- … and by direct evaluation of the model. -/
example : (calculatePower combinationLevel powerShortDeck sdFullHouse).score
    < (calculatePower combinationLevel powerShortDeck sdFlush).score := by decide

/-- What the model does with the hand the property leaves open (observation, not an
    obligation): short-deck A-9-8-7-6 in mixed suits is reported as high card. -/
example : (calculatePower combinationLevel powerShortDeck
    [⟨83, 14⟩, ⟨72, 9⟩, ⟨68, 8⟩, ⟨67, 7⟩, ⟨83, 6⟩]).cat = .highCard := by decide

/-! ## Consequence: the result does not depend on the order of the cards -/

/-- Reordering the cards of a valid hand changes neither the category nor the score
    (either shipped table). -/
theorem card_order_irrelevant (T : List Cat) (hT : T = powerStandard ∨ T = powerShortDeck)
    (h h' : List Card) (hv : Valid h) (p : h.Perm h') :
    (calculatePower combinationLevel T h).cat = (calculatePower combinationLevel T h').cat ∧
    (calculatePower combinationLevel T h).score = (calculatePower combinationLevel T h').score := by
  have hv' := valid_perm p hv
  have hok : tableOK combinationLevel T = true := by
    rcases hT with rfl | rfl
    · exact tableOK_standard
    · exact tableOK_shortDeck
  have pr : (ranks h).Perm (ranks h') := p.map _
  constructor
  · rw [category_correct _ _ _ hv, category_correct _ _ _ hv', specCat_perm pr, sameSuit_perm p]
  · exact (score_eq_iff_of_tableOK T hok h h' hv hv').2 (pokerKey_perm T p)

example : (royal).Perm [⟨83, 14⟩, ⟨83, 13⟩, ⟨83, 12⟩, ⟨83, 11⟩, ⟨83, 10⟩] := by decide

end Pokerface.C03
