/-
  C09 / C19 / C20, small items of the clause audit (regulator model):

  * `one_table`, `one_table_re`: the explicit synchronous form of "exactly ONE table" (if player
    `p` is a member of table `t` and of table `t'` then `t = t'`), on the widest synchronous
    domains `ReachableAny` / `ReachableRe`; `table_ids_nodup(_re)`: no table id occurs twice, on
    the regulator's sheet or in reality.
  * `no_callback_before_start_any`, `initial_tables_have_min_any`,
    `initial_tables_have_min_release_any` (+ `_re`): the C19 clauses that need no forward-only
    hypothesis, on `ReachableAny` / `ReachableRe`.
  * `gone_stays_gone`, `gone_stays_gone_re`: a broken table never comes back, synchronous system.
  * `topup_le_max`, `topup_le_max_re`: the players RETURNED by `SyncState` never lift a table
    above `max` (forward-only domain, as C19 `capacity`).
  * the `_re` forms missing in C09Reentry: `one_table_async_re`, `unknown_table_refused_sys_re`,
    `unknown_table_refused_async_re`, `sync_possible_any_release_re`, `sync_possible_async_re`,
    `sync_possible_async_re'`, `report_possible_async_re`, `status_change_possible_async_re`.
-/
import Pokerface.Proofs.RegOne
import Pokerface.Properties.C09
import Pokerface.Properties.C09Reentry
import Pokerface.Properties.C19
import Pokerface.Properties.C19Reentry

namespace Pokerface.C09O
open Pokerface Reg RSys

/-! ## exactly ONE table, synchronous -/

/-- **exactly ONE table** (C09 "in exactly one place — the waiting queue or exactly one table"),
    synchronous, widest domain: if player `p` is a member of table `t` and of table `t'`, then
    `t = t'`; and a table has him once (`ms.Nodup`). -/
theorem one_table {s : RSys} (h : ReachableAny s) (p : Nat) :
    (∀ t t' ms ms', s.env.membersOf t = some ms → s.env.membersOf t' = some ms' → p ∈ ms → p ∈ ms' → t = t') ∧
    (∀ e ∈ s.env.members, ∀ e' ∈ s.env.members, p ∈ e.2 → p ∈ e'.2 → e = e') := by
  obtain ⟨_, _, _, hs⟩ := C09.exactly_one_place h p
  refine ⟨?_, ?_⟩
  · intro t t' ms ms' hm hm' hp hp'
    have := ASys.seatedOf_one_entry (m := s.env.members) hs (ASys.mem_members_of_membersOf hm)
      (ASys.mem_members_of_membersOf hm') (p := p) hp hp'
    exact (Prod.mk.inj this).1
  · intro e he e' he' hp hp'
    exact ASys.seatedOf_one_entry (m := s.env.members) hs he he' hp hp'

/-- **exactly ONE table**, synchronous, with re-entries (`ReachableRe`). -/
theorem one_table_re {s : RSys} (h : ReachableRe s) (p : Nat) :
    (∀ t t' ms ms', s.env.membersOf t = some ms → s.env.membersOf t' = some ms' → p ∈ ms → p ∈ ms' → t = t') ∧
    (∀ e ∈ s.env.members, ∀ e' ∈ s.env.members, p ∈ e.2 → p ∈ e'.2 → e = e') := by
  obtain ⟨_, _, _, hs⟩ := C09.exactly_one_place_re h p
  refine ⟨?_, ?_⟩
  · intro t t' ms ms' hm hm' hp hp'
    have := ASys.seatedOf_one_entry (m := s.env.members) hs (ASys.mem_members_of_membersOf hm)
      (ASys.mem_members_of_membersOf hm') (p := p) hp hp'
    exact (Prod.mk.inj this).1
  · intro e he e' he' hp hp'
    exact ASys.seatedOf_one_entry (m := s.env.members) hs he he' hp hp'

/-- a player is a member of a table once only (`Nodup` of every membership list) -/
theorem member_once_re {s : RSys} (h : ReachableRe s) : ∀ e ∈ s.env.members, e.2.Nodup := by
  intro e he
  obtain ⟨_, _, _, hs⟩ := C09.exactly_one_place_re h 0
  have : e.2 ∈ s.env.members.map (·.2) := List.mem_map.2 ⟨e, he, rfl⟩
  exact (List.pairwise_flatten.1 hs).1 _ this

/-- **table ids are unique**: no id occurs twice among the real tables, nor on the regulator's
    sheet; every id in use is below the next id to be handed out. -/
theorem table_ids_nodup_re {s : RSys} (h : ReachableRe s) :
    (s.env.members.map (·.1)).Nodup ∧ (s.r.tables.map (·.id)).Nodup ∧
    (∀ tb ∈ s.r.tables, tb.id < s.r.nextId) ∧ s.env.members.map (·.1) = s.r.tables.map (·.id) := by
  have hS := SInv0.of_reachableRe h
  refine ⟨hS.ids_nodup, hS.rinv.wf.nodup, hS.rinv.wf.idlt, ?_⟩
  rw [← mview_fst, ← hS.sim, tview_fst]

theorem table_ids_nodup {s : RSys} (h : ReachableAny s) :
    (s.env.members.map (·.1)).Nodup ∧ (s.r.tables.map (·.id)).Nodup ∧
    (∀ tb ∈ s.r.tables, tb.id < s.r.nextId) ∧ s.env.members.map (·.1) = s.r.tables.map (·.id) :=
  table_ids_nodup_re h.re

/-- non-vacuity: `C09.rebalance` (three tables, a player moved from table 2 to table 1), and the
    re-entry history `C09.reentry` -/
example : ReachableAny ((RSys.init 9 6).run C09.rebalance) :=
  (ReachableAny.init 9 6 (by decide)).run C09.rebalance (by decide)
example : ((RSys.init 9 6).run C09.rebalance).env.membersOf 1 = some [7,8,9,10,11] ∧
    ((RSys.init 9 6).run C09.rebalance).env.membersOf 2 = some [12,13,14,15,16,17,18] := by decide
example : ReachableRe ((RSys.init 9 6).run C09.reentry) :=
  (ReachableRe.init 9 6 (by decide)).run C09.reentry (by decide)
example : ((RSys.init 9 6).run C09.reentry).env.membersOf 1 = some [1,2,4,5,6,7,3] := by decide

/-! ## C19 clauses that need no forward-only hypothesis -/

/-- **no_table_before_start**, callback form, on the WIDEST domain (status changes in any
    direction, re-entries): an operation after which the competition is pending — not started yet,
    or set back to `Pending` — made no callback at all (no table opened, nobody assigned). -/
theorem no_callback_before_start_re {s : RSys} (h : ReachableRe s) (op : EOp) (hok : s.okRe op)
    (hp : (s.step op).r.status = .pending) : (s.step op).r.calls = [] := by
  have hS := SInv0.of_reachableRe h
  have hst := (hS.step_full_re op hok).2.status_eq
  cases op with
  | add ps ch =>
    simp only at hst
    rw [step_add_r]
    exact addPlayers_pending_calls s.r ps ch (hst ▸ hp)
  | status st ch =>
    simp only at hst
    have : st = .pending := hst ▸ hp
    subst this
    exact setStatus_to_pending_calls s.r ch
  | sync t elim stay rel keep ch =>
    simp only at hst
    have hs0 : s.r.status = .pending := hst ▸ hp
    cases hm : s.env.membersOf t with
    | none =>
      have hf := (hS.unknown_iff t).1 hm
      simp only [RSys.step, hm]
      exact (C09.unknown_table_refused s.r t elim.length hf).2.2.2.1
    | some ms =>
      have hok' : s.ok (.sync t elim stay rel keep ch) := hok
      simp only [ok, hm] at hok'
      rw [show s.syncAnswer t elim = ((s.syncAnswer t elim).1, (s.syncAnswer t elim).2.1,
        (s.syncAnswer t elim).2.2.1, (s.syncAnswer t elim).2.2.2) from rfl] at hok'
      simp only [] at hok'
      obtain ⟨hp1, _⟩ := hok'
      obtain ⟨r1, relc, nw, t0, hft, hc0, hans, post⟩ := sync_facts0 hS t elim stay ms hm hp1
      have hr1 : r1.status = .pending := by
        rw [post.status_eq]; exact hs0
      have hc1 : r1.calls = [] := by rw [post.calls]; rfl
      simp only [RSys.step, hm, hans]
      split
      · exact hc1
      · exact releasePlayers_pending_calls r1 rel ch hr1

/-- **no_table_before_start**, callback form, on `ReachableAny` -/
theorem no_callback_before_start_any {s : RSys} (h : ReachableAny s) (op : EOp) (hok : s.okAny op)
    (hp : (s.step op).r.status = .pending) : (s.step op).r.calls = [] :=
  no_callback_before_start_re h.re op ((SInv0.of_reachable h).okRe_of_okAny hok) hp

/-- non-vacuity, on the part of the domain `Reachable` does not have: `C09.backToPending` — the
    competition is set back to `Pending` while tables are open; the registration and the sync that
    follow end in `pending` (and the sync DOES hand two queued players to its table — through its
    return value, not through a callback). -/
example : ReachableAny ((RSys.init 4 2).run (C09.backToPending.take 5)) :=
  (ReachableAny.init 4 2 (by decide)).run _ (by decide)
example : ((RSys.init 4 2).run (C09.backToPending.take 5)).okAny (.sync 1 [] [3,4] [] [3,4,9,10] []) ∧
    (((RSys.init 4 2).run (C09.backToPending.take 5)).step (.sync 1 [] [3,4] [] [3,4,9,10] [])).r.status = .pending ∧
    ((RSys.init 4 2).run (C09.backToPending.take 5)).env.members ≠ [] := by decide

/-- **initial_tables_have_min** on the WIDEST domain: every table opened by an operation that
    started with no table (`tableCount = 0`) gets at least `min` players. -/
theorem initial_tables_have_min_re {s : RSys} (h : ReachableRe s) (h0 : s.r.tableCount = 0) (op : EOp)
    (hok : s.okRe op) (id : Nat) (ps : List Nat) (hc : RCall.requestTable id ps ∈ (s.step op).r.calls) :
    s.r.min ≤ ps.length := by
  have hS := SInv0.of_reachableRe h
  have hwf : WF s.r := WF_of_no_table hS.rinv.wf h.max_pos h0
  cases op with
  | add qs ch =>
    rw [step_add_r] at hc
    exact addPlayers_initialF s.r qs ch hwf h0 id ps hc
  | status st ch => exact setStatus_initialF s.r st ch hwf h0 id ps hc
  | sync t elim stay rel keep ch =>
    exfalso
    have ht := tables_nil_of_tc0 hS.rinv.wf h0
    have hm := hS.members_nil_iff.2 ht
    have : s.env.membersOf t = none := by simp [Env.membersOf, hm]
    simp only [RSys.step, this] at hc
    have hft : s.r.findTable t = none := by simp [Reg.findTable, ht]
    have : (s.syncAnswer t elim).1 = s.r.beginOp [] := by
      simp only [syncAnswer, syncState_eq, hft]
    rw [this] at hc
    simp [Reg.beginOp] at hc

/-- **initial_tables_have_min** on `ReachableAny` -/
theorem initial_tables_have_min_any {s : RSys} (h : ReachableAny s) (h0 : s.r.tableCount = 0) (op : EOp)
    (hok : s.okAny op) (id : Nat) (ps : List Nat) (hc : RCall.requestTable id ps ∈ (s.step op).r.calls) :
    s.r.min ≤ ps.length :=
  initial_tables_have_min_re h.re h0 op ((SInv0.of_reachable h).okRe_of_okAny hok) id ps hc

/-- non-vacuity: 13 registrants at 6/5, then the start opens two tables of six from no table -/
example : ReachableAny ((RSys.init 6 5).run [.add [1,2,3,4,5,6,7,8,9,10,11,12,13] []]) :=
  (ReachableAny.init 6 5 (by decide)).run _ (by decide)
example : ((RSys.init 6 5).run [.add [1,2,3,4,5,6,7,8,9,10,11,12,13] []]).r.tableCount = 0 ∧
    ((RSys.init 6 5).run [.add [1,2,3,4,5,6,7,8,9,10,11,12,13] []]).okAny (.status .normal []) ∧
    (((RSys.init 6 5).run [.add [1,2,3,4,5,6,7,8,9,10,11,12,13] []]).step (.status .normal [])).r.calls =
      [.requestTable 1 [1,2,3,4,5,6], .requestTable 2 [7,8,9,10,11,12]] := by decide

/-- **initial_tables_have_min**, the remaining corner, on the WIDEST domain: if a sync just broke
    the last table (`tableCount = 0` after `SyncState`), tables opened by the `ReleasePlayers` it
    triggers also get at least `min` players. -/
theorem initial_tables_have_min_release_re {s : RSys} (h : ReachableRe s) (t : Nat)
    (elim stay rel keep ch : List Nat) (hok : s.okRe (.sync t elim stay rel keep ch))
    (h0 : (s.syncAnswer t elim).1.tableCount = 0) (id : Nat) (ps : List Nat)
    (hc : RCall.requestTable id ps ∈ (s.step (.sync t elim stay rel keep ch)).r.calls) :
    s.r.min ≤ ps.length := by
  have hS := SInv0.of_reachableRe h
  cases hm : s.env.membersOf t with
  | none =>
    exfalso
    have hft := (hS.unknown_iff t).1 hm
    have h1 : (s.syncAnswer t elim).1 = s.r.beginOp [] := by
      simp only [syncAnswer, syncState_eq, hft]
    simp only [RSys.step, hm, h1] at hc
    simp [Reg.beginOp] at hc
  | some ms =>
    have hok' : s.ok (.sync t elim stay rel keep ch) := hok
    simp only [ok, hm] at hok'
    rw [show s.syncAnswer t elim = ((s.syncAnswer t elim).1, (s.syncAnswer t elim).2.1,
      (s.syncAnswer t elim).2.2.1, (s.syncAnswer t elim).2.2.2) from rfl] at hok'
    simp only [] at hok'
    obtain ⟨hp1, hp2, hrl, _, _⟩ := hok'
    obtain ⟨r1, relc, nw, t0, hft, hc0, hans, post⟩ := sync_facts0 hS t elim stay ms hm hp1
    rw [hans] at h0
    simp only at h0
    have hmin : r1.min = s.r.min := post.min_eq
    have hmax : r1.max = s.r.max := post.max_eq
    have hwf1 : WF r1 := WF_of_no_table post.wf (by rw [hmax]; exact h.max_pos) h0
    simp only [RSys.step, hm, hans] at hc
    split at hc
    · rw [post.calls] at hc
      exact absurd hc (by simp [syncBase, Reg.setTable, Reg.beginOp])
    · rw [← hmin]
      exact releasePlayers_initialF r1 rel ch hwf1 h0 id ps hc

/-- the same on `ReachableAny` -/
theorem initial_tables_have_min_release_any {s : RSys} (h : ReachableAny s) (t : Nat)
    (elim stay rel keep ch : List Nat) (hok : s.okAny (.sync t elim stay rel keep ch))
    (h0 : (s.syncAnswer t elim).1.tableCount = 0) (id : Nat) (ps : List Nat)
    (hc : RCall.requestTable id ps ∈ (s.step (.sync t elim stay rel keep ch)).r.calls) :
    s.r.min ≤ ps.length :=
  initial_tables_have_min_release_re h.re t elim stay rel keep ch hok h0 id ps hc

/-- non-vacuity: 3/1 after the deadline, one table of two; both are eliminated and the table —
    the last one — is broken (`tableCount = 0` after `SyncState`, hypothesis `h0`).  As on the
    forward-only domain nobody is left then, so no table is opened. -/
example : ReachableAny ((RSys.init 3 1).run [.status .normal [], .add [1,2] [], .status .afterRegDeadline []]) :=
  (ReachableAny.init 3 1 (by decide)).run _ (by decide)
example : (((RSys.init 3 1).run [.status .normal [], .add [1,2] [], .status .afterRegDeadline []]).syncAnswer 1 [1,2]).1.tableCount = 0 ∧
    ((RSys.init 3 1).run [.status .normal [], .add [1,2] [], .status .afterRegDeadline []]).okAny (.sync 1 [1,2] [] [] [] []) := by
  decide

/-! ## broken tables never come back, synchronous system -/

/-- **gone_stays_gone**, synchronous (C20 "the broken table exists no more", for ever): a table id
    that has been handed out (`t < nextId`) and names no table now — a broken table — names no
    table after ANY further history (widest domain, with re-entries), neither in reality nor on
    the regulator's sheet; ids are never reused. -/
theorem gone_stays_gone_re {s : RSys} (h : ReachableRe s) (ops : List EOp) (hok : s.allOkRe ops) (t : Nat)
    (hlt : t < s.r.nextId) (hun : s.env.membersOf t = none) :
    (s.run ops).env.membersOf t = none ∧ (s.run ops).r.findTable t = none ∧ t < (s.run ops).r.nextId := by
  have hS := SInv0.of_reachableRe h
  obtain ⟨h1, h2⟩ := gone_stays_gone_sync_re ops s hS hok t hlt hun
  exact ⟨h1, ((SInv0.of_reachableRe (h.run ops hok)).unknown_iff t).1 h1, h2⟩

/-- **gone_stays_gone**, synchronous, on `ReachableAny` -/
theorem gone_stays_gone {s : RSys} (h : ReachableAny s) (ops : List EOp) (hok : s.allOkAny ops) (t : Nat)
    (hlt : t < s.r.nextId) (hun : s.env.membersOf t = none) :
    (s.run ops).env.membersOf t = none ∧ (s.run ops).r.findTable t = none ∧ t < (s.run ops).r.nextId :=
  gone_stays_gone_re h.re ops (allOkRe_of_allOkAny ops s (SInv0.of_reachable h) hok) t hlt hun

/-- non-vacuity: `C09.minZero` at 3/0 — table 1 is broken by the third operation; the registration
    that follows opens a NEW table, with id 3 -/
example : ReachableAny ((RSys.init 3 0).run (C09.minZero.take 3)) :=
  (ReachableAny.init 3 0 (by decide)).run _ (by decide)
example : ((RSys.init 3 0).run (C09.minZero.take 3)).env.membersOf 1 = none ∧
    1 < ((RSys.init 3 0).run (C09.minZero.take 3)).r.nextId ∧
    ((RSys.init 3 0).run (C09.minZero.take 3)).allOkAny [.add [5] []] ∧
    (((RSys.init 3 0).run (C09.minZero.take 3)).run [.add [5] []]).env.members = [(2, [3,4,2]), (3, [5])] := by
  decide

/-! ## top-up by returned players -/

theorem topup_core {s : RSys} (hS : SInv s) (t : Nat) (elim stay rel keep ch ms : List Nat)
    (hm : s.env.membersOf t = some ms) (hok : s.ok (.sync t elim stay rel keep ch))
    (hS' : SInv (s.step (.sync t elim stay rel keep ch)))
    (hmax : (s.step (.sync t elim stay rel keep ch)).r.max = s.r.max) :
    stay.length + (s.syncAnswer t elim).2.2.2.length ≤ s.r.max := by
  have hok' := hok
  simp only [ok, hm] at hok'
  rw [show s.syncAnswer t elim = ((s.syncAnswer t elim).1, (s.syncAnswer t elim).2.1,
    (s.syncAnswer t elim).2.2.1, (s.syncAnswer t elim).2.2.2) from rfl] at hok'
  simp only [] at hok'
  obtain ⟨hp1, hp2, hrl, _, _⟩ := hok'
  obtain ⟨r1, relc, nw, t0, hans, hft, hc0, h0, hle, hexcl, hq, hcalls, hbrk⟩ :=
    hS.toSInv0.sync_known t elim stay ms hm hp1
  have hmem0 := ASys.mem_members_of_membersOf hm
  have hcap : ms.length ≤ s.r.max := hS.capacity hmem0
  rw [hans] at hp2 hrl ⊢
  simp only at hp2 hrl ⊢
  by_cases hnw : nw = []
  · subst hnw
    have := hp1.length_eq
    rw [List.length_append] at this
    simp only [List.length_nil]; omega
  · have hr0 : relc = 0 := hexcl.resolve_left hnw
    have hnb : s.broken t elim = false := by
      cases hb : s.broken t elim with
      | false => rfl
      | true => exact absurd (hbrk hb).2 hnw
    have hrel : rel = [] := List.length_eq_zero_iff.1 (by omega)
    subst hrel
    have hmem : (t, keep) ∈ (s.step (.sync t elim stay [] keep ch)).env.members := by
      simp only [RSys.step, hm, hnb]
      simp only [List.isEmpty_nil, and_self, if_true]
      exact List.mem_map.2 ⟨(t, ms), hmem0, by simp⟩
    have h1 := hS'.capacity hmem
    have h2 := hp2.length_eq
    rw [hmax] at h1
    simp only [List.length_append, List.length_nil] at h2 h1
    omega

/-- **topup_le_max** (C19 capacity, named form for the players RETURNED by `SyncState`): after a
    valid sync of an existing table, the members that stay (`stay`, after the eliminations)
    together with the new players the regulator RETURNS for this table are at most `max`.
    (Forward-only domain, as `C19.capacity`: it fails after a return to `Pending`,
    `C19.capacity_fails_after_return_to_pending`.) -/
theorem topup_le_max {s : RSys} (h : Reachable s) (t : Nat) (elim stay rel keep ch ms : List Nat)
    (hm : s.env.membersOf t = some ms) (hok : s.ok (.sync t elim stay rel keep ch)) :
    stay.length + (s.returned (.sync t elim stay rel keep ch)).length ≤ s.r.max := by
  have hS := SInv.of_reachable h
  obtain ⟨hS', hF⟩ := hS.step_full _ hok
  have := topup_core hS t elim stay rel keep ch ms hm hok hS' hF.max_eq
  simpa only [returned, hm] using this

/-- **topup_le_max** with re-entries (`ReachableReFwd`) -/
theorem topup_le_max_re {s : RSys} (h : ReachableReFwd s) (t : Nat) (elim stay rel keep ch ms : List Nat)
    (hm : s.env.membersOf t = some ms) (hok : s.okReFwd (.sync t elim stay rel keep ch)) :
    stay.length + (s.returned (.sync t elim stay rel keep ch)).length ≤ s.r.max := by
  have hS := SInv.of_reachableReFwd h
  obtain ⟨hS', hF⟩ := hS.step_full_re _ hok
  have := topup_core hS t elim stay rel keep ch ms hm hok hS' hF.max_eq
  simpa only [returned, hm] using this

/-- non-vacuity: `C09.topUp` (13 registrants at 6/5: player 13 waits); table 1 loses two players
    and is given player 13: 4 + 1 ≤ 6 -/
example : Reachable ((RSys.init 6 5).run C09.topUp) :=
  (Reachable.init 6 5 (by decide)).run C09.topUp (by decide)
example : ((RSys.init 6 5).run C09.topUp).env.membersOf 1 = some [1,2,3,4,5,6] ∧
    ((RSys.init 6 5).run C09.topUp).ok (.sync 1 [1,2] [3,4,5,6] [] [3,4,5,6,13] []) ∧
    ((RSys.init 6 5).run C09.topUp).returned (.sync 1 [1,2] [3,4,5,6] [] [3,4,5,6,13] []) = [13] := by decide

/-! ## the `_re` forms missing in Properties/C09Reentry.lean -/

/-- **unknown_table_refused**, system form, with re-entries: a sync naming a non-existing table
    leaves regulator and environment unchanged. -/
theorem unknown_table_refused_sys_re {s : RSys} (h : ReachableRe s) (t : Nat) (elim stay rel keep ch : List Nat)
    (hm : s.env.membersOf t = none) :
    (s.syncAnswer t elim).2.1 = some .notFoundTable ∧
    C09.SameState s.r (s.step (.sync t elim stay rel keep ch)).r ∧
    (s.step (.sync t elim stay rel keep ch)).r.calls = [] ∧
    (s.step (.sync t elim stay rel keep ch)).env = s.env := by
  have hf := (C09.unknown_iff_re h t).1 hm
  obtain ⟨h1, _, _, h4, h5⟩ := C09.unknown_table_refused s.r t elim.length hf
  have hstep : s.step (.sync t elim stay rel keep ch) = { r := (s.syncAnswer t elim).1, env := s.env } := by
    simp only [RSys.step, hm]
  rw [hstep]
  exact ⟨h1, h5, h4, rfl⟩

/-- **totality, which players are released**, with re-entries: ANY split `rel`/`keep` of the
    table's members after the arrivals in which `rel` has exactly the length `SyncState` returned
    is a valid sync for some dispatch choices. -/
theorem sync_possible_any_release_re {s : RSys} (h : ReachableRe s) (t : Nat) (elim stay rel keep : List Nat)
    (hsplit : ∀ ms, s.env.membersOf t = some ms → ms.Perm (elim ++ stay))
    (hrel : (stay ++ (s.syncAnswer t elim).2.2.2).Perm (rel ++ keep))
    (hlen : (rel.length : Int) = (s.syncAnswer t elim).2.2.1) :
    ∃ ch, s.okRe (.sync t elim stay rel keep ch) := by
  obtain ⟨ch, hch⟩ := (SInv0.of_reachableRe h).sync_total_rel t elim stay rel keep hsplit hrel hlen
  exact ⟨ch, hch⟩

/-- non-vacuity: an unknown table and a sync with a free choice of the released players on the
    re-entry history `C09.reentry` -/
example : ((RSys.init 9 6).run C09.reentry).env.membersOf 900 = none := by decide
example : (((RSys.init 9 6).run C09.reentry).syncAnswer 1 [1]).2.2.1 = 0 ∧
    (((RSys.init 9 6).run C09.reentry).syncAnswer 1 [1]).2.2.2 = [] := by decide

section Async
open ASys

/-- **exactly ONE table**, asynchronous, with re-entries: a player sits at one table only, and is
    on the way back from one table only (in one batch only). -/
theorem one_table_async_re {s : ASys} (h : AReachableRe s) (p : Nat) :
    (∀ t t' ms ms', s.env.membersOf t = some ms → s.env.membersOf t' = some ms' → p ∈ ms → p ∈ ms' → t = t') ∧
    (∀ t t', p ∈ s.flyingOf t → p ∈ s.flyingOf t' → t = t') ∧
    (∀ e ∈ s.inflight, ∀ e' ∈ s.inflight, p ∈ e.2 → p ∈ e'.2 → e = e') := by
  obtain ⟨_, _, _, _, _, hs, hf⟩ := C09.exactly_one_place_async_re h p
  refine ⟨?_, ?_, ?_⟩
  · intro t t' ms ms' hm hm' hp hp'
    have := seatedOf_one_entry (m := s.env.members) hs (mem_members_of_membersOf hm)
      (mem_members_of_membersOf hm') (p := p) hp hp'
    exact (Prod.mk.inj this).1
  · intro t t' hp hp'
    obtain ⟨e, he, rfl, hpe⟩ := mem_flyingOf hp
    obtain ⟨e', he', rfl, hpe'⟩ := mem_flyingOf hp'
    rw [seatedOf_one_entry (m := s.inflight) hf he he' hpe hpe']
  · intro e he e' he' hp hp'
    exact seatedOf_one_entry (m := s.inflight) hf he he' hp hp'

/-- **unknown_table_refused**, asynchronous system form, with re-entries. -/
theorem unknown_table_refused_async_re {s : ASys} (h : AReachableRe s) (t : Nat) (elim stay rel keep : List Nat)
    (hm : s.env.membersOf t = none) :
    (s.syncAnswer t elim).2.1 = some .notFoundTable ∧
    C09.SameState s.r (s.step (.sync t elim stay rel keep)).r ∧
    (s.step (.sync t elim stay rel keep)).r.calls = [] ∧
    (s.step (.sync t elim stay rel keep)).env = s.env ∧
    (s.step (.sync t elim stay rel keep)).inflight = s.inflight := by
  have hf := (C09.unknown_iff_async_re h t).1 hm
  obtain ⟨h1, _, _, h4, h5⟩ := C09.unknown_table_refused s.r t elim.length hf
  have hstep : s.step (.sync t elim stay rel keep) = { s with r := (s.syncAnswer t elim).1 } := by
    simp only [ASys.step, hm]
  rw [hstep]
  exact ⟨h1, h5, h4, rfl, rfl⟩

/-- the status can be set to ANY status at any time (asynchronous, with re-entries) -/
theorem status_change_possible_async_re {s : ASys} (h : AReachableRe s) (st : RStatus) :
    ∃ ch, s.okRe (.status st ch) :=
  (AInv.of_reachableRe h).status_total st

/-- EVERY table can sync at any time with EVERY split of its members into eliminated and remaining
    ones, and ANY choice of the players who leave (of exactly the number asked for) is valid
    (asynchronous, with re-entries). -/
theorem sync_possible_async_re {s : ASys} (h : AReachableRe s) (t : Nat) (elim stay rel keep : List Nat)
    (hsplit : ∀ ms, s.env.membersOf t = some ms → ms.Perm (elim ++ stay))
    (hrel : (stay ++ (s.syncAnswer t elim).2.2.2).Perm (rel ++ keep))
    (hlen : (rel.length : Int) = (s.syncAnswer t elim).2.2.1) :
    s.okRe (.sync t elim stay rel keep) :=
  (AInv.of_reachableRe h).sync_total_rel t elim stay rel keep hsplit hrel hlen

/-- such a choice of leaving players exists -/
theorem sync_possible_async_re' {s : ASys} (h : AReachableRe s) (t : Nat) (elim stay : List Nat)
    (hsplit : ∀ ms, s.env.membersOf t = some ms → ms.Perm (elim ++ stay)) :
    ∃ rel keep, s.okRe (.sync t elim stay rel keep) := by
  obtain ⟨rel, keep, hk⟩ := (AInv.of_reachableRe h).sync_total t elim stay hsplit
  exact ⟨rel, keep, hk⟩

/-- **the report can arrive at any time** (asynchronous, with re-entries): for every table id and
    every part `ps` of the players on the way back from it, `ReleasePlayers(t, ps)` is a valid
    operation for some dispatch choices. -/
theorem report_possible_async_re {s : ASys} (h : AReachableRe s) (t : Nat) (ps rest : List Nat)
    (hsplit : (s.flyingOf t).Perm (ps ++ rest)) : ∃ ch, s.okRe (.report t ps rest ch) := by
  obtain ⟨ch, hk⟩ := (AInv.of_reachableRe h).report_total t ps rest hsplit
  exact ⟨ch, hk⟩

/-- non-vacuity: `C09.reentryLate` before its last operation — players 1, 2 are on the way back
    from table 1 while player 10 has re-entered -/
example : AReachableRe ((ASys.init 9 6).run (C09.reentryLate.take 5)) :=
  (AReachableRe.init 9 6 (by decide)).run _ (by decide)
example : ((ASys.init 9 6).run (C09.reentryLate.take 5)).flyingOf 1 = [1,2] ∧
    ((ASys.init 9 6).run (C09.reentryLate.take 5)).env.membersOf 2 = some [16,17,18,10] ∧
    ((ASys.init 9 6).run (C09.reentryLate.take 5)).env.membersOf 900 = none ∧
    ((ASys.init 9 6).run (C09.reentryLate.take 5)).okRe (.report 1 [1,2] [] [2]) := by decide

end Async

end Pokerface.C09O
