/-
  C09  Tournament balancing never loses, duplicates or miscounts a player.

  "Across any history of registrations, table syncs with eliminations, and
   releases, every registered player who has not been eliminated is in exactly
   one place - the waiting queue or exactly one table - and is never handed out
   twice or dropped; the regulator's player total, table count and each table's
   player count always equal the real numbers at tables that follow its
   instructions.  Calls naming an unknown table and registrations after the
   deadline are refused without changing anything."

  Setting: `ReachableAny s` (Model/RegulatorEnv.lean) — the WIDEST domain: `s` is
  obtained from a fresh regulator with ANY setting (max, min) with `1 ≤ max`
  (no relation between `min` and `max`, `min = 0` included; with `max = 0` the
  Go code divides by zero in `float64` and converts `±Inf`/`NaN` to `int`, which
  is outside the model) by ANY finite sequence of operations of regulator ×
  environment valid in the wide sense `okAny` (DESIGN §5): registrations of
  fresh ids, `SetStatus` to ANY status at ANY time (also back to `Pending` on a
  running competition, which the Go code accepts), syncs in which a table
  eliminates any sub-multiset of its members and then releases exactly the
  number it is told to, dispatch choices that `getAvailableTable` can make.
  `Totality` (Proofs/RegTotal.lean, restated at the end of this file) shows that
  these conditions never block a history: in every such state every fresh
  registration, every status change and every sync of every table with every
  elimination subset is possible with SOME choices / release.
  Every theorem here therefore also holds on the narrower domain `Reachable` of
  C19/C20 (`Reachable.any`).
  Quiescent points = between operations, i.e. after the environment has carried
  out the instructions of the operation (a sync includes the `ReleasePlayers`
  it triggers).

  LATE RELEASE REPORTS: the last section, "asynchronous releases", proves the same
  clauses for the system `ASys` (Model/RegulatorAsync.lean) in which `SyncState`
  and the `ReleasePlayers` report it triggers are SEPARATE operations: the
  released players leave their table at the sync and are "on the way back" until
  the table reports them — registrations, status changes, syncs of other tables
  and of the same table come in between; a table may report in several parts;
  the table may have been broken meanwhile.  The synchronous system above is the
  special case "every sync is followed at once by its report"
  (`sync_then_report_eq_rsys_step`, `rsys_history_is_async`).
-/
import Pokerface.Proofs.RegAsyncProps

namespace Pokerface.C09
open Pokerface Reg RSys

/-- **counts_agree**: at every quiescent point the regulator's player total is the number of
    alive players, its table count is the number of its table records and of real tables, and
    its sheet `(id, PlayerCount)` is exactly the real sheet `(id, number of members)` — same
    tables, same order of creation, same counts. -/
theorem counts_agree {s : RSys} (h : ReachableAny s) :
    s.r.playerCount = s.env.alive.length ∧
    s.r.tableCount = s.r.tables.length ∧
    s.r.tables.length = s.env.members.length ∧
    s.r.tables.map (fun t => (t.id, t.count)) = s.env.members.map (fun e => (e.1, (e.2.length : Int))) := by
  have hS := SInv0.of_reachable h
  refine ⟨hS.pc, hS.rinv.wf.tc, ?_, hS.sim⟩
  have := congrArg List.length hS.sim
  simpa [tview, mview] using this

/-- **counts_agree**, per table: `GetTable(t).PlayerCount` is the real number of members of `t`,
    and `GetTable(t)` is `nil` exactly for the tables that do not exist. -/
theorem count_of_table {s : RSys} (h : ReachableAny s) (t : Nat) :
    (s.r.findTable t).map (fun tb => tb.count) = (s.env.membersOf t).map (fun ms => (ms.length : Int)) := by
  have hS := SInv0.of_reachable h
  have := sim_find s.r.tables s.env.members t hS.sim
  simp only [Reg.findTable, Env.membersOf, Option.map_map]
  exact this

/-- **conservation**: the alive players are exactly the queue together with all table
    memberships (as multisets), and no id occurs twice — so every registered, not eliminated
    player is in exactly one place, and nobody else is anywhere. -/
theorem conservation {s : RSys} (h : ReachableAny s) :
    s.env.alive.Perm (s.r.queue ++ s.env.seated) ∧ (s.r.queue ++ s.env.seated).Nodup ∧ s.env.alive.Nodup := by
  have hS := SInv0.of_reachable h
  exact ⟨hS.cons, hS.cons.nodup_iff.1 hS.nodup, hS.nodup⟩

/-- **conservation**, spelled out: an id is alive iff it is queued or sits at some table; never
    both; never at two tables (`Nodup` of the concatenation of all memberships). -/
theorem exactly_one_place {s : RSys} (h : ReachableAny s) (p : Nat) :
    (p ∈ s.env.alive ↔ (p ∈ s.r.queue ∨ ∃ e ∈ s.env.members, p ∈ e.2)) ∧
    ¬ (p ∈ s.r.queue ∧ ∃ e ∈ s.env.members, p ∈ e.2) ∧
    s.r.queue.Nodup ∧ s.env.seated.Nodup := by
  obtain ⟨hperm, hnd, _⟩ := conservation h
  have hseat : p ∈ s.env.seated ↔ ∃ e ∈ s.env.members, p ∈ e.2 := by
    simp only [Env.seated, List.mem_flatten, List.mem_map]
    constructor
    · rintro ⟨l, ⟨e, he, rfl⟩, hp⟩; exact ⟨e, he, hp⟩
    · rintro ⟨e, he, hp⟩; exact ⟨e.2, ⟨e, he, rfl⟩, hp⟩
  rw [List.nodup_append] at hnd
  refine ⟨?_, ?_, hnd.1, hnd.2.1⟩
  · rw [hperm.mem_iff, List.mem_append, hseat]
  · rintro ⟨hq, hs⟩
    exact hnd.2.2 p hq p (hseat.2 hs) rfl

/-- **the instructions can be followed** (part of "never dropped / miscounted"): a `SyncState` on
    an existing table is not refused, and the number of players it asks the table to release is
    between 0 and what the table has after the eliminations and arrivals.  (`elim`/`stay` is any
    split of the members into eliminated and remaining ones.) -/
theorem release_feasible {s : RSys} (h : ReachableAny s) (t : Nat) (ms elim stay : List Nat)
    (hm : s.env.membersOf t = some ms) (hp : ms.Perm (elim ++ stay)) :
    (s.syncAnswer t elim).2.1 = none ∧ 0 ≤ (s.syncAnswer t elim).2.2.1 ∧
    (s.syncAnswer t elim).2.2.1 ≤ ((stay ++ (s.syncAnswer t elim).2.2.2).length : Int) := by
  obtain ⟨r1, relc, nw, t0, hans, _, _, h0, hle, _⟩ := (SInv0.of_reachable h).sync_known t elim stay ms hm hp
  rw [hans, List.length_append]
  exact ⟨rfl, h0, by simpa using hle⟩

/-- **handout_once**: in every valid operation, the queue before the operation followed by the
    players entering it (`incoming`: the registrants / the released players) is, IN ORDER, the
    players returned by `SyncState`, then the players passed to callbacks, then the queue after
    the operation.  Hence every id handed out was removed from the queue in this very step and
    nobody was dropped; and since no id occurs twice in that list, nobody is handed out twice or
    handed out and still queued. -/
theorem handout_once {s : RSys} (h : ReachableAny s) (op : EOp) (hok : s.okAny op) :
    s.r.queue ++ s.incoming op = s.returned op ++ handed (s.step op).r.calls ++ (s.step op).r.queue ∧
    (s.returned op ++ handed (s.step op).r.calls ++ (s.step op).r.queue).Nodup := by
  have hS := SInv0.of_reachable h
  obtain ⟨hS', hF⟩ := hS.step_full op hok
  refine ⟨hF.handout, ?_⟩
  rw [← hF.handout, List.nodup_iff_count]
  intro a
  have c1 := hS.cons.count_eq a
  have c2 := List.nodup_iff_count.1 hS.nodup a
  rw [List.count_append] at c1 ⊢
  cases op with
  | status st ch => simp only [incoming, List.count_nil]; omega
  | add ps ch =>
    simp only [incoming]
    split
    · simp only [List.count_nil]; omega
    · obtain ⟨hnd, hfresh, _⟩ : s.ok (.add ps ch) := hok
      have c3 := List.nodup_iff_count.1 hnd a
      by_cases ha : a ∈ ps
      · have : a ∉ s.env.alive := fun hin => hfresh a ha (hS.sub a hin)
        have := List.count_eq_zero.2 this
        omega
      · have := List.count_eq_zero.2 ha
        omega
  | sync t elim stay rel keep ch =>
    simp only [incoming]
    cases hm : s.env.membersOf t with
    | none => simp only [List.count_nil]; omega
    | some ms =>
      simp only []
      have hok' := hok
      simp only [okAny, ok, hm] at hok'
      rw [show s.syncAnswer t elim = ((s.syncAnswer t elim).1, (s.syncAnswer t elim).2.1,
        (s.syncAnswer t elim).2.2.1, (s.syncAnswer t elim).2.2.2) from rfl] at hok'
      simp only [] at hok'
      obtain ⟨hp1, hp2, hrl, _, _⟩ := hok'
      obtain ⟨r1, relc, nw, t0, hans, _, _, _, _, hex, _⟩ := hS.sync_known t elim stay ms hm hp1
      rw [hans] at hp2 hrl
      simp only [] at hp2 hrl
      have c3 := (count_seatedOf_split s.env.members t ms [] hS.ids_nodup (membersOf_some hm) a).1
      have c4 := hp1.count_eq a
      have c5 := hp2.count_eq a
      simp only [List.count_append] at c4 c5
      rcases hex with hnw | hr0
      · subst hnw
        simp only [List.count_nil] at c5
        have : (seatedOf s.env.members).count a = s.env.seated.count a := rfl
        omega
      · have : rel = [] := by
          rw [hr0] at hrl
          exact List.length_eq_zero_iff.1 (by omega)
        subst this
        simp only [List.count_nil]; omega

/-- the non-scratch part of the regulator state is the same in `r` and `r'` (`calls`, `choices`,
    `badChoice` are per-operation scratch fields of the model, not Go state) -/
def SameState (r r' : Reg) : Prop :=
  r'.max = r.max ∧ r'.min = r.min ∧ r'.playerCount = r.playerCount ∧ r'.tableCount = r.tableCount ∧
  r'.status = r.status ∧ r'.queue = r.queue ∧ r'.tables = r.tables ∧ r'.nextId = r.nextId

/-- **unknown_table_refused**: `SyncState` naming a table the regulator does not know — for ANY
    regulator state and ANY elimination count, reachable or not — returns `ErrNotFoundTable`,
    asks for nothing, makes no callback and changes nothing. -/
theorem unknown_table_refused (r : Reg) (t : Nat) (out : Int) (hf : r.findTable t = none) :
    (r.syncState t out).2.1 = some .notFoundTable ∧ (r.syncState t out).2.2.1 = 0 ∧
    (r.syncState t out).2.2.2 = [] ∧ (r.syncState t out).1.calls = [] ∧
    SameState r (r.syncState t out).1 := by
  rw [syncState_eq, hf]
  exact ⟨rfl, rfl, rfl, rfl, rfl, rfl, rfl, rfl, rfl, rfl, rfl, rfl⟩

/-- in reachable states the regulator knows exactly the tables that exist: a table unknown to the
    environment is unknown to the regulator (so the call above IS refused), and conversely. -/
theorem unknown_iff {s : RSys} (h : ReachableAny s) (t : Nat) :
    s.env.membersOf t = none ↔ s.r.findTable t = none :=
  (SInv0.of_reachable h).unknown_iff t

/-- **unknown_table_refused**, system form: a sync naming a non-existing table leaves regulator
    and environment unchanged. -/
theorem unknown_table_refused_sys {s : RSys} (h : ReachableAny s) (t : Nat) (elim stay rel keep ch : List Nat)
    (hm : s.env.membersOf t = none) :
    SameState s.r (s.step (.sync t elim stay rel keep ch)).r ∧
    (s.step (.sync t elim stay rel keep ch)).r.calls = [] ∧
    (s.step (.sync t elim stay rel keep ch)).env = s.env := by
  have hf := (unknown_iff h t).1 hm
  obtain ⟨_, _, _, h4, h5⟩ := unknown_table_refused s.r t elim.length hf
  have hstep : s.step (.sync t elim stay rel keep ch) = { r := (s.syncAnswer t elim).1, env := s.env } := by
    simp only [RSys.step, hm]
  rw [hstep]
  exact ⟨h5, h4, rfl⟩

/-- **late_registration_refused**: after the registration deadline `AddPlayers` — for ANY
    regulator state — returns `ErrAfterRegDeadline`, makes no callback and changes nothing. -/
theorem late_registration_refused (r : Reg) (ps ch : List Nat) (hs : r.status = .afterRegDeadline) :
    (r.addPlayers ps ch).2 = some .afterRegDeadline ∧ (r.addPlayers ps ch).1.calls = [] ∧
    SameState r (r.addPlayers ps ch).1 := by
  have : (r.beginOp ch).status = .afterRegDeadline := hs
  have heq : r.addPlayers ps ch = (r.beginOp ch, some .afterRegDeadline) := by
    unfold Reg.addPlayers
    simp only [this, if_true]
  rw [heq]
  exact ⟨rfl, rfl, rfl, rfl, rfl, rfl, rfl, rfl, rfl, rfl⟩

/-- system form: the refused registrants are not alive, not registered, nowhere. -/
theorem late_registration_refused_sys (s : RSys) (ps ch : List Nat) (hs : s.r.status = .afterRegDeadline) :
    SameState s.r (s.step (.add ps ch)).r ∧ (s.step (.add ps ch)).env = s.env := by
  obtain ⟨h1, _, h3⟩ := late_registration_refused s.r ps ch hs
  refine ⟨by rw [step_add_r]; exact h3, ?_⟩
  simp only [RSys.step]
  generalize s.r.addPlayers ps ch = p at h1
  obtain ⟨r', e⟩ := p
  simp only at h1
  subst h1
  rfl

/-- converse: before the deadline a registration (with admissible dispatch choices) is accepted. -/
theorem registration_accepted {s : RSys} (h : ReachableAny s) (ps ch : List Nat) (hok : s.okAny (.add ps ch))
    (hs : s.r.status ≠ .afterRegDeadline) :
    (s.r.addPlayers ps ch).2 = none ∧
    (s.step (.add ps ch)).env.alive = s.env.alive ++ ps := by
  have hok' : s.ok (.add ps ch) := hok
  have he := (addPlayers_spec0 s.r ps ch (SInv0.of_reachable h).rinv hs hok'.2.2).1
  refine ⟨he, ?_⟩
  simp only [RSys.step]
  generalize s.r.addPlayers ps ch = p at he
  obtain ⟨r', e⟩ := p
  simp only at he
  subst he
  rfl

/-! ### the domain is total: no history of tables that follow instructions is excluded

The validity conditions of `okAny` constrain the inputs the model cannot compute itself (which
table Go's map iteration offers to `dispatchPlayer`, which members a table eliminates or
releases).  The three theorems below show that they never exclude a real history: whatever was
done so far, every next call of the regulator alphabet is valid for SOME such inputs.  (The real
run supplies the inputs it observed; K2 checks that the model accepts them.) -/

/-- **totality, `AddPlayers`**: in every reachable state every batch of distinct, never registered
    ids (any size, also empty) can be registered — in every phase (after the deadline it is
    refused, which is a valid operation too). -/
theorem registration_possible {s : RSys} (h : ReachableAny s) (ps : List Nat) (hnd : ps.Nodup)
    (hfresh : ∀ p ∈ ps, p ∉ s.env.registered) : ∃ ch, s.okAny (.add ps ch) :=
  h.add_total ps hnd hfresh

/-- **totality, `SetStatus`**: in every reachable state the status can be set to ANY status,
    `Pending` included. -/
theorem status_change_possible {s : RSys} (h : ReachableAny s) (st : RStatus) :
    ∃ ch, s.okAny (.status st ch) :=
  h.status_total st

/-- **totality, `SyncState` + `ReleasePlayers`**: in every reachable state, for EVERY table id
    (existing or not) and EVERY split of the table's members into eliminated (`elim`) and
    remaining (`stay`) ones — i.e. every elimination count `0 … |members|` and every choice of who
    is eliminated — the sync is valid for some choice of released players (`rel`, of exactly the
    length the regulator asked for), remaining players and dispatch choices. -/
theorem sync_possible {s : RSys} (h : ReachableAny s) (t : Nat) (elim stay : List Nat)
    (hsplit : ∀ ms, s.env.membersOf t = some ms → ms.Perm (elim ++ stay)) :
    ∃ rel keep ch, s.okAny (.sync t elim stay rel keep ch) :=
  h.sync_total t elim stay hsplit

/-- **totality, which players are released**: moreover ANY choice of the released players will do —
    every split `rel`/`keep` of the table's members after the arrivals in which `rel` has exactly
    the length `SyncState` returned (such splits exist by `release_feasible`). -/
theorem sync_possible_any_release {s : RSys} (h : ReachableAny s) (t : Nat) (elim stay rel keep : List Nat)
    (hsplit : ∀ ms, s.env.membersOf t = some ms → ms.Perm (elim ++ stay))
    (hrel : (stay ++ (s.syncAnswer t elim).2.2.2).Perm (rel ++ keep))
    (hlen : (rel.length : Int) = (s.syncAnswer t elim).2.2.1) :
    ∃ ch, s.okAny (.sync t elim stay rel keep ch) :=
  h.sync_total_rel t elim stay rel keep hsplit hrel hlen

/-! ### non-vacuity -/

/-- 27 registrants at 9/6, six eliminations at table 1, then table 2 is told to release two
    players, who are dispatched to table 1 (choice `1`) -/
def rebalance : List EOp :=
  [.add ((List.range 27).map (· + 1)) [], .status .normal [],
   .sync 1 [1,2,3,4,5,6] [7,8,9] [] [7,8,9] [],
   .sync 2 [] [10,11,12,13,14,15,16,17,18] [10,11] [12,13,14,15,16,17,18] [1]]

example : ReachableAny ((RSys.init 9 6).run rebalance) :=
  (ReachableAny.init 9 6 (by decide)).run rebalance (by decide)
example : ((RSys.init 9 6).run rebalance).env.members =
    [(1, [7,8,9,10,11]), (2, [12,13,14,15,16,17,18]), (3, [19,20,21,22,23,24,25,26,27])] := by decide
example : ((RSys.init 9 6).run rebalance).r.calls = [.assign 1 [10, 11]] := by decide
/-- `release_feasible` with a positive release count -/
example : (((RSys.init 9 6).run (rebalance.take 3)).syncAnswer 2 []).2.2.1 = 2 := by decide

/-- a sync that receives a queued player (`returned` non-empty): 13 registrants at 6/5 leave player
    13 waiting; table 1 loses two players and is given player 13 -/
def topUp : List EOp := [.add [1,2,3,4,5,6,7,8,9,10,11,12,13] [], .status .normal []]
example : ReachableAny ((RSys.init 6 5).run topUp) :=
  (ReachableAny.init 6 5 (by decide)).run topUp (by decide)
example : ((RSys.init 6 5).run topUp).r.queue = [13] := by decide
example : ((RSys.init 6 5).run topUp).ok (.sync 1 [1,2] [3,4,5,6] [] [3,4,5,6,13] []) := by decide
example : ((RSys.init 6 5).run topUp).returned (.sync 1 [1,2] [3,4,5,6] [] [3,4,5,6,13] []) = [13] := by decide

/-- an unknown table, and a registration after the deadline -/
example : ((RSys.init 6 5).run topUp).env.membersOf 900 = none := by decide
example : ((RSys.init 6 5).run (topUp ++ [.status .afterRegDeadline []])).r.status = .afterRegDeadline := by decide
example : (((RSys.init 6 5).run (topUp ++ [.status .afterRegDeadline []])).r.addPlayers [14] []).2
    = some .afterRegDeadline := by decide

/-! ### non-vacuity on the parts of the domain that `Reachable` (C19/C20) does not have -/

/-- a competition that is set back to `Pending` while running: registrations pile up in the
    queue, a sync hands two of them to table 1, the restart dispatches two more to table 1.
    (This is the history on which CAPACITY fails, `C19.capacity_fails_after_return_to_pending`;
    conservation and the counters are intact.) -/
def backToPending : List EOp :=
  [.status .normal [], .add [1,2,3,4,5,6,7,8] [], .sync 1 [1,2] [3,4] [] [3,4] [],
   .status .pending [], .add [9,10] [], .sync 1 [] [3,4] [] [3,4,9,10] [], .add [11,12] [],
   .status .normal [1]]

example : ReachableAny ((RSys.init 4 2).run backToPending) :=
  (ReachableAny.init 4 2 (by decide)).run backToPending (by decide)
example : ¬ (RSys.init 4 2).allOk backToPending := by decide
example : ((RSys.init 4 2).run backToPending).env.members =
    [(1, [3,4,9,10,11,12]), (2, [5,6,7,8])] := by decide
example : ((RSys.init 4 2).run backToPending).r.playerCount = 10 := by decide
/-- pending with open tables: the sync really handed queued players over -/
example : ((RSys.init 4 2).run (backToPending.take 5)).returned (.sync 1 [] [3,4] [] [3,4,9,10] []) = [9,10] := by
  decide

/-- settings outside `2 ≤ min ≤ max`: 1/1 (three one-seat tables; an eliminated player's seat is
    refilled by the next registrant), 2/3 (`min > max`: no table is ever opened), 3/0 (`min = 0`:
    a broken table's player is moved, a single late registrant gets a table of his own) -/
def oneOne : List EOp := [.status .normal [], .add [1,2,3] [], .sync 2 [2] [] [] [] [], .add [4] [2]]
example : ReachableAny ((RSys.init 1 1).run oneOne) :=
  (ReachableAny.init 1 1 (by decide)).run oneOne (by decide)
example : ((RSys.init 1 1).run oneOne).env.members = [(1, [1]), (2, [4]), (3, [3])] := by decide

def minAboveMax : List EOp := [.add [1,2,3,4,5,6,7] [], .status .normal []]
example : ReachableAny ((RSys.init 2 3).run minAboveMax) :=
  (ReachableAny.init 2 3 (by decide)).run minAboveMax (by decide)
example : ((RSys.init 2 3).run minAboveMax).r.queue = [1,2,3,4,5,6,7] := by decide

def minZero : List EOp := [.status .normal [], .add [1,2,3,4] [], .sync 1 [1] [2] [2] [] [2], .add [5] []]
example : ReachableAny ((RSys.init 3 0).run minZero) :=
  (ReachableAny.init 3 0 (by decide)).run minZero (by decide)
example : ((RSys.init 3 0).run minZero).env.members = [(2, [3,4,2]), (3, [5])] := by decide

/-- totality: hypotheses satisfiable, e.g. the sync of table 2 with one elimination after `topUp` -/
example : ((RSys.init 6 5).run topUp).env.membersOf 2 = some [7,8,9,10,11,12] := by decide

/-! ## asynchronous releases

`ASys` = regulator `r`, the tables that follow it `env` (as before), and `inflight`: the batches
`(table, players)` of players who have LEFT their table on the regulator's instruction and whose
`ReleasePlayers` has not been called yet.  Operations: `add`, `status` (as before),
`sync t elim stay rel keep` (the table eliminates `elim`, calls `SyncState(t, |elim|)`, seats the
new players, and `rel` — as many as it was told; everybody if it was broken — leave and are from
now on on the way back; NO `ReleasePlayers` call), and `report t ps rest ch`
(`ReleasePlayers(t, ps)` for some, usually all, of the players on the way back from `t`).
`AReachable` = from a fresh regulator with any setting `1 ≤ max`, any `min`, by any sequence of
operations valid in the sense `ASys.ok`, in any order of statuses.  `ok` does NOT ask a table to
report before its next sync, nor before other tables sync, nor in one piece.  The totality
theorems at the end of the section show that `ok` never blocks a history. -/

section Async
open ASys

/-- **counts_agree**, asynchronous: between any two operations the regulator's player total is
    the number of alive players (at a table, queued, or on the way back), its table count is the
    number of its table records and of real tables, and its sheet `(id, PlayerCount)` is exactly
    the real sheet `(id, number of members)`: players on the way back are NOT counted at the table
    they left (the regulator discounted them when it asked for the release). -/
theorem counts_agree_async {s : ASys} (h : AReachable s) :
    s.r.playerCount = s.env.alive.length ∧
    s.r.tableCount = s.r.tables.length ∧
    s.r.tables.length = s.env.members.length ∧
    s.r.tables.map (fun t => (t.id, t.count)) = s.env.members.map (fun e => (e.1, (e.2.length : Int))) := by
  have hS := AInv.of_reachable h
  refine ⟨hS.pc, hS.wf.tc, ?_, hS.sim⟩
  have := congrArg List.length hS.sim
  simpa [tview, mview] using this

/-- the regulator's own ledger, asynchronous: its player total is what it has queued, plus what it
    believes to sit at tables, plus the players on the way back -/
theorem ledger_async {s : ASys} (h : AReachable s) :
    s.r.playerCount = s.r.queue.length + ((s.r.tables.map (·.count)).sum) + (s.flying.length : Int) :=
  (AInv.of_reachable h).cnt

/-- **counts_agree**, per table, asynchronous -/
theorem count_of_table_async {s : ASys} (h : AReachable s) (t : Nat) :
    (s.r.findTable t).map (fun tb => tb.count) = (s.env.membersOf t).map (fun ms => (ms.length : Int)) := by
  have hS := AInv.of_reachable h
  have := sim_find s.r.tables s.env.members t hS.sim
  simp only [Reg.findTable, Env.membersOf, Option.map_map]
  exact this

/-- **conservation**, asynchronous: the alive players are exactly the queue, all table
    memberships and all batches on the way back together (as multisets), and no id occurs twice. -/
theorem conservation_async {s : ASys} (h : AReachable s) :
    s.env.alive.Perm (s.r.queue ++ s.env.seated ++ s.flying) ∧
    (s.r.queue ++ s.env.seated ++ s.flying).Nodup ∧ s.env.alive.Nodup := by
  have hS := AInv.of_reachable h
  exact ⟨hS.cons, hS.cons.nodup_iff.1 hS.nodup, hS.nodup⟩

/-- **exactly one place**, asynchronous: an id is alive iff it is queued, or sits at some table, or
    is on the way back in some batch; never two of these; and no id occurs twice in the queue,
    twice at tables, or twice on the way. -/
theorem exactly_one_place_async {s : ASys} (h : AReachable s) (p : Nat) :
    (p ∈ s.env.alive ↔ (p ∈ s.r.queue ∨ (∃ e ∈ s.env.members, p ∈ e.2) ∨ (∃ e ∈ s.inflight, p ∈ e.2))) ∧
    ¬ (p ∈ s.r.queue ∧ ∃ e ∈ s.env.members, p ∈ e.2) ∧
    ¬ (p ∈ s.r.queue ∧ ∃ e ∈ s.inflight, p ∈ e.2) ∧
    ¬ ((∃ e ∈ s.env.members, p ∈ e.2) ∧ ∃ e ∈ s.inflight, p ∈ e.2) ∧
    s.r.queue.Nodup ∧ s.env.seated.Nodup ∧ s.flying.Nodup := by
  obtain ⟨hperm, hnd, _⟩ := conservation_async h
  have hseat : p ∈ s.env.seated ↔ ∃ e ∈ s.env.members, p ∈ e.2 := by
    simp only [Env.seated, List.mem_flatten, List.mem_map]
    constructor
    · rintro ⟨l, ⟨e, he, rfl⟩, hp⟩; exact ⟨e, he, hp⟩
    · rintro ⟨e, he, hp⟩; exact ⟨e.2, ⟨e, he, rfl⟩, hp⟩
  have hfly : p ∈ s.flying ↔ ∃ e ∈ s.inflight, p ∈ e.2 := by
    simp only [ASys.flying, List.mem_flatten, List.mem_map]
    constructor
    · rintro ⟨l, ⟨e, he, rfl⟩, hp⟩; exact ⟨e, he, hp⟩
    · rintro ⟨e, he, hp⟩; exact ⟨e.2, ⟨e, he, rfl⟩, hp⟩
  rw [List.nodup_append] at hnd
  obtain ⟨hqs, hf, hd1⟩ := hnd
  rw [List.nodup_append] at hqs
  obtain ⟨hq, hs, hd2⟩ := hqs
  refine ⟨?_, ?_, ?_, ?_, hq, hs, hf⟩
  · rw [hperm.mem_iff, List.mem_append, List.mem_append, hseat, hfly, or_assoc]
  · rintro ⟨h1, h2⟩
    exact hd2 p h1 p (hseat.2 h2) rfl
  · rintro ⟨h1, h2⟩
    exact hd1 p (List.mem_append_left _ h1) p (hfly.2 h2) rfl
  · rintro ⟨h1, h2⟩
    exact hd1 p (List.mem_append_right _ (hseat.2 h1)) p (hfly.2 h2) rfl

/-- **exactly ONE table**, asynchronous: a player sits at one table only, and is on the way back
    from one table only (in one batch only). -/
theorem one_table_async {s : ASys} (h : AReachable s) (p : Nat) :
    (∀ t t' ms ms', s.env.membersOf t = some ms → s.env.membersOf t' = some ms' → p ∈ ms → p ∈ ms' → t = t') ∧
    (∀ t t', p ∈ s.flyingOf t → p ∈ s.flyingOf t' → t = t') ∧
    (∀ e ∈ s.inflight, ∀ e' ∈ s.inflight, p ∈ e.2 → p ∈ e'.2 → e = e') := by
  obtain ⟨_, _, _, _, _, hs, hf⟩ := exactly_one_place_async h p
  refine ⟨?_, ?_, ?_⟩
  · intro t t' ms ms' hm hm' hp hp'
    have := seatedOf_one_entry (m := s.env.members) hs (mem_members_of_membersOf hm)
      (mem_members_of_membersOf hm') (p := p) hp hp'
    exact (Prod.mk.inj this).1
  · intro t t' hp hp'
    obtain ⟨e, he, rfl, hpe⟩ := mem_flyingOf hp
    obtain ⟨e', he', rfl, hpe'⟩ := mem_flyingOf hp'
    rw [seatedOf_one_entry (m := s.inflight) hf he he' hpe hpe']
  · intro e he e' he' hp hp'
    exact seatedOf_one_entry (m := s.inflight) hf he he' hp hp'

/-- **the instructions can be followed**, asynchronous: a `SyncState` on an existing table — also
    one whose earlier releases have not been reported yet — is not refused, and the number of
    players it asks the table to release is between 0 and what the table has after the
    eliminations and arrivals. -/
theorem release_feasible_async {s : ASys} (h : AReachable s) (t : Nat) (ms elim stay : List Nat)
    (hm : s.env.membersOf t = some ms) (hp : ms.Perm (elim ++ stay)) :
    (s.syncAnswer t elim).2.1 = none ∧ 0 ≤ (s.syncAnswer t elim).2.2.1 ∧
    (s.syncAnswer t elim).2.2.1 ≤ ((stay ++ (s.syncAnswer t elim).2.2.2).length : Int) := by
  obtain ⟨r1, relc, nw, t0, hans, _, _, h0, hle, _⟩ := (AInv.of_reachable h).sync_known t elim stay ms hm hp
  rw [hans, List.length_append]
  exact ⟨rfl, h0, by simpa using hle⟩

/-- **handout_once**, asynchronous: in every valid operation, the queue before the operation
    followed by the players entering it (`incoming`: the registrants / the players whose release
    is reported) is, IN ORDER, the players returned by `SyncState`, then the players passed to
    callbacks, then the queue after the operation; and no id occurs twice in that list.  So every
    id handed out was removed from the queue in this very step, nobody was dropped, nobody is
    handed out twice or handed out and still queued — in particular a player on the way back is
    handed out only after his release has been reported. -/
theorem handout_once_async {s : ASys} (h : AReachable s) (op : AOp) (hok : s.ok op) :
    s.r.queue ++ s.incoming op = s.returned op ++ handed (s.step op).r.calls ++ (s.step op).r.queue ∧
    (s.returned op ++ handed (s.step op).r.calls ++ (s.step op).r.queue).Nodup := by
  have hS := AInv.of_reachable h
  obtain ⟨hS', hF⟩ := hS.step_full op hok
  refine ⟨hF.handout, ?_⟩
  rw [← hF.handout, List.nodup_iff_count]
  intro a
  have c1 := hS.cons.count_eq a
  have c2 := List.nodup_iff_count.1 hS.nodup a
  simp only [List.count_append] at c1 ⊢
  cases op with
  | status st ch => simp only [ASys.incoming, List.count_nil]; omega
  | sync t elim stay rel keep => simp only [ASys.incoming, List.count_nil]; omega
  | add ps ch =>
    simp only [ASys.incoming]
    split
    · simp only [List.count_nil]; omega
    · obtain ⟨hnd, hfresh, _⟩ := hok
      have c3 := List.nodup_iff_count.1 hnd a
      by_cases ha : a ∈ ps
      · have : a ∉ s.env.alive := fun hin => hfresh a ha (hS.sub a hin)
        have := List.count_eq_zero.2 this
        omega
      · have := List.count_eq_zero.2 ha
        omega
  | report t ps rest ch =>
    simp only [ASys.incoming]
    obtain ⟨hperm, _⟩ := hok
    have c3 := hperm.count_eq a
    have c4 := count_seatedOf_filter s.inflight t a
    rw [flyingOf_eq] at c3
    rw [flying_eq] at c1
    simp only [List.count_append] at c3
    omega

/-- **on the way back**, bookkeeping of one operation: the players on the way after the operation
    together with those whose release was reported in it are those on the way before together
    with those who left their table in it (`departing`: the `rel` of a sync on a known table).
    Nobody else ever gets on or off the way. -/
theorem on_the_way_async {s : ASys} (h : AReachable s) (op : AOp) (hok : s.ok op) :
    ((s.step op).flying ++ ASys.reported op).Perm (s.flying ++ s.departing op) :=
  ((AInv.of_reachable h).step_full op hok).2.flying

/-- in reachable states the regulator knows exactly the tables that exist (a table whose players
    are all on the way back because it was broken is gone on both sides) -/
theorem unknown_iff_async {s : ASys} (h : AReachable s) (t : Nat) :
    s.env.membersOf t = none ↔ s.r.findTable t = none :=
  (AInv.of_reachable h).unknown_iff t

/-- **unknown_table_refused**, asynchronous system form (the regulator-level statement
    `unknown_table_refused` holds for ANY regulator state, so also here): a sync naming a
    non-existing table — e.g. a broken table whose players are still on the way back — leaves
    regulator, tables and the players on the way unchanged. -/
theorem unknown_table_refused_async {s : ASys} (h : AReachable s) (t : Nat) (elim stay rel keep : List Nat)
    (hm : s.env.membersOf t = none) :
    (s.syncAnswer t elim).2.1 = some .notFoundTable ∧
    SameState s.r (s.step (.sync t elim stay rel keep)).r ∧
    (s.step (.sync t elim stay rel keep)).r.calls = [] ∧
    (s.step (.sync t elim stay rel keep)).env = s.env ∧
    (s.step (.sync t elim stay rel keep)).inflight = s.inflight := by
  have hf := (unknown_iff_async h t).1 hm
  obtain ⟨h1, _, _, h4, h5⟩ := unknown_table_refused s.r t elim.length hf
  have hstep : s.step (.sync t elim stay rel keep) = { s with r := (s.syncAnswer t elim).1 } := by
    simp only [ASys.step, hm]
  rw [hstep]
  exact ⟨h1, h5, h4, rfl, rfl⟩

/-- **late_registration_refused**, asynchronous system form, for ANY state (reachable or not):
    the refused registrants are nowhere, nothing changes — also while players are on the way. -/
theorem late_registration_refused_async (s : ASys) (ps ch : List Nat) (hs : s.r.status = .afterRegDeadline) :
    (s.r.addPlayers ps ch).2 = some .afterRegDeadline ∧
    SameState s.r (s.step (.add ps ch)).r ∧ (s.step (.add ps ch)).env = s.env ∧
    (s.step (.add ps ch)).inflight = s.inflight := by
  obtain ⟨h1, _, h3⟩ := late_registration_refused s.r ps ch hs
  refine ⟨h1, ?_⟩
  simp only [ASys.step]
  generalize s.r.addPlayers ps ch = q at h1 h3
  obtain ⟨r', e⟩ := q
  simp only at h1
  subst h1
  exact ⟨h3, rfl, rfl⟩

/-! ### the synchronous system is the special case "report at once" -/

/-- **sync_then_report_eq_rsys_step**: from a state with nobody on the way, the asynchronous script
    of a synchronous operation (`ASys.expand`: `add ↦ add`, `status ↦ status`,
    `sync ↦ sync` followed AT ONCE by the `report` of everybody released, when somebody is released
    or the table was broken) leads to the synchronous successor state, again with nobody on the
    way.  (For ANY state and operation: a plain computation.) -/
theorem sync_then_report_eq_rsys_step (s : RSys) (op : EOp) :
    (ASys.ofRSys s).run (ASys.expand s op) = ASys.ofRSys (s.step op) :=
  ASys.run_expand s op

/-- the script of a valid synchronous operation is valid asynchronously -/
theorem sync_then_report_valid (s : RSys) (op : EOp) (hok : s.okAny op) :
    (ASys.ofRSys s).allOk (ASys.expand s op) :=
  ASys.allOk_expand s op hok

/-- **every synchronous history is an asynchronous history**: every state of the widest synchronous
    domain `ReachableAny` is, with nobody on the way, a reachable state of the asynchronous
    system.  Hence every theorem of this section specialises to the synchronous theorems above
    (`conservation_of_async` spells one out). -/
theorem rsys_history_is_async {s : RSys} (h : ReachableAny s) : AReachable (ASys.ofRSys s) :=
  AReachable.ofRSys h

/-- the synchronous `conservation` re-derived as the special case of `conservation_async` -/
theorem conservation_of_async {s : RSys} (h : ReachableAny s) :
    s.env.alive.Perm (s.r.queue ++ s.env.seated) ∧ (s.r.queue ++ s.env.seated).Nodup ∧ s.env.alive.Nodup := by
  have := conservation_async (rsys_history_is_async h)
  simpa [ASys.ofRSys, ASys.flying] using this

/-! ### totality: `ASys.ok` never blocks a history -/

/-- every batch of distinct, never registered ids can be registered, whoever is on the way -/
theorem registration_possible_async {s : ASys} (h : AReachable s) (ps : List Nat) (hnd : ps.Nodup)
    (hfresh : ∀ p ∈ ps, p ∉ s.env.registered) : ∃ ch, s.ok (.add ps ch) :=
  h.add_total ps hnd hfresh

/-- the status can be set to ANY status at any time -/
theorem status_change_possible_async {s : ASys} (h : AReachable s) (st : RStatus) :
    ∃ ch, s.ok (.status st ch) :=
  h.status_total st

/-- EVERY table (existing or not, with or without unreported releases) can sync at any time with
    EVERY split of its members into eliminated and remaining ones, and ANY choice of the players
    who leave (of exactly the number asked for) is valid. -/
theorem sync_possible_async {s : ASys} (h : AReachable s) (t : Nat) (elim stay rel keep : List Nat)
    (hsplit : ∀ ms, s.env.membersOf t = some ms → ms.Perm (elim ++ stay))
    (hrel : (stay ++ (s.syncAnswer t elim).2.2.2).Perm (rel ++ keep))
    (hlen : (rel.length : Int) = (s.syncAnswer t elim).2.2.1) :
    s.ok (.sync t elim stay rel keep) :=
  h.sync_total_rel t elim stay rel keep hsplit hrel hlen

/-- such a choice of leaving players exists -/
theorem sync_possible_async' {s : ASys} (h : AReachable s) (t : Nat) (elim stay : List Nat)
    (hsplit : ∀ ms, s.env.membersOf t = some ms → ms.Perm (elim ++ stay)) :
    ∃ rel keep, s.ok (.sync t elim stay rel keep) :=
  h.sync_total t elim stay hsplit

/-- **the report can arrive at any time**: in every reachable state, for every table id (also a
    table broken meanwhile) and every part `ps` of the players on the way back from it — all, some
    or none — `ReleasePlayers(t, ps)` is a valid operation for some dispatch choices. -/
theorem report_possible_async {s : ASys} (h : AReachable s) (t : Nat) (ps rest : List Nat)
    (hsplit : (s.flyingOf t).Perm (ps ++ rest)) : ∃ ch, s.ok (.report t ps rest ch) :=
  h.report_total t ps rest hsplit

/-! ### non-vacuity -/

private def rg (n k : Nat) : List Nat := (List.range k).map (· + n)

/-- 27 registrants at 9/6 (tables 1, 2, 3 of nine); table 2 loses six players.  Then
    table 1 syncs and is told to release two players (1 and 2 leave: on the way back);
    table 3 syncs with one elimination and is told to release one (20 leaves);
    players 28, 29 register and are dispatched to table 2;
    only now table 1's report arrives: 1 and 2 are dispatched to table 2.  Player 20 is still on
    the way. -/
def lateReport : List AOp :=
  [.add (rg 1 27) [], .status .normal [], .sync 2 [10,11,12,13,14,15] [16,17,18] [] [16,17,18],
   .sync 1 [] (rg 1 9) [1,2] (rg 3 7),
   .sync 3 [19] (rg 20 8) [20] (rg 21 7),
   .add [28,29] [2],
   .report 1 [1,2] [] [2]]

example : AReachable ((ASys.init 9 6).run lateReport) :=
  (AReachable.init 9 6 (by decide)).run lateReport (by decide)
/-- between the syncs and the report: two batches on the way, counted in the regulator's total (20 = 17 at
    tables + 3 on the way), not counted at their tables -/
example : ((ASys.init 9 6).run (lateReport.take 5)).inflight = [(1, [1,2]), (3, [20])] := by decide
example : ((ASys.init 9 6).run (lateReport.take 5)).r.playerCount = 20 := by decide
example : ((ASys.init 9 6).run (lateReport.take 5)).r.tables.map (fun t => (t.id, t.count)) =
    [(1, 7), (2, 3), (3, 7)] := by decide
/-- the registration in between is dispatched while players are on the way -/
example : ((ASys.init 9 6).run (lateReport.take 6)).r.calls = [.assign 2 [28, 29]] := by decide
/-- the late report: the released players are handed out now -/
example : ((ASys.init 9 6).run lateReport).r.calls = [.assign 2 [1, 2]] := by decide
example : ((ASys.init 9 6).run lateReport).env.members =
    [(1, [3,4,5,6,7,8,9]), (2, [16,17,18,28,29,1,2]), (3, [21,22,23,24,25,26,27])] := by decide
example : ((ASys.init 9 6).run lateReport).inflight = [(3, [20])] := by decide
example : ((ASys.init 9 6).run lateReport).r.playerCount = 22 := by decide
/-- this history is NOT a synchronous one: somebody is on the way at its end -/
example : ((ASys.init 9 6).run lateReport).flying ≠ [] := by decide

/-- further: table 3 syncs AGAIN before its report (three eliminations); table 1 is broken (its
    three remaining players leave); table 1 — which no longer exists — reports in two parts, with
    table 3's report in between. -/
def lateReport2 : List AOp := lateReport ++
  [.sync 3 [21,22,23] (rg 24 4) [] (rg 24 4),
   .sync 1 [3,4,5,6] [7,8,9] [7,8,9] [],
   .report 1 [8] [7,9] [3], .report 3 [20] [] [3], .report 1 [9,7] [] [2,3]]

example : AReachable ((ASys.init 9 6).run lateReport2) :=
  (AReachable.init 9 6 (by decide)).run lateReport2 (by decide)
example : ((ASys.init 9 6).run (lateReport2.take 9)).inflight = [(3, [20]), (1, [7,8,9])] := by decide
example : ((ASys.init 9 6).run (lateReport2.take 9)).env.membersOf 1 = none := by decide
example : ((ASys.init 9 6).run (lateReport2.take 10)).inflight = [(3, [20]), (1, [7,9])] := by decide
example : ((ASys.init 9 6).run lateReport2).env.members =
    [(2, [16,17,18,28,29,1,2,9]), (3, [24,25,26,27,8,20,7])] := by decide
example : ((ASys.init 9 6).run lateReport2).inflight = [] := by decide
/-- `release_feasible_async` with players on the way: table 2 is told to release one -/
example : (((ASys.init 9 6).run (lateReport2.take 8)).syncAnswer 2 []).2.2.1 = 1 := by decide
/-- a synchronous history, expanded: the sync of table 2 of `rebalance` becomes sync + report -/
example : ASys.expand ((RSys.init 9 6).run (rebalance.take 3)) (rebalance.getD 3 (.status .normal [])) =
    [.sync 2 [] [10,11,12,13,14,15,16,17,18] [10,11] [12,13,14,15,16,17,18], .report 2 [10,11] [] [1]] := by
  decide

end Async

end Pokerface.C09
