/-
  C09  Tournament balancing never loses, duplicates or miscounts a player.

  "Across any history of registrations, table syncs with eliminations, and
   releases, every registered player who has not been eliminated is in exactly
   one place - the waiting queue or exactly one table - and is never handed out
   twice or dropped; the regulator's player total, table count and each table's
   player count always equal the real numbers at tables that follow its
   instructions.  Calls naming an unknown table and registrations after the
   deadline are refused without changing anything."

  Setting: `ReachableAny s` (Model/RegulatorEnv.lean) — the WIDEST domain: `s` is
  obtained from a fresh regulator with ANY setting (max, min) with `1 ≤ max`
  (no relation between `min` and `max`, `min = 0` included; with `max = 0` the
  Go code divides by zero in `float64` and converts `±Inf`/`NaN` to `int`, which
  is outside the model) by ANY finite sequence of operations of regulator ×
  environment valid in the wide sense `okAny` (DESIGN §5): registrations of
  fresh ids, `SetStatus` to ANY status at ANY time (also back to `Pending` on a
  running competition, which the Go code accepts), syncs in which a table
  eliminates any sub-multiset of its members and then releases exactly the
  number it is told to, dispatch choices that `getAvailableTable` can make.
  `Totality` (Proofs/RegTotal.lean, restated at the end of this file) shows that
  these conditions never block a history: in every such state every fresh
  registration, every status change and every sync of every table with every
  elimination subset is possible with SOME choices / release.
  Every theorem here therefore also holds on the narrower domain `Reachable` of
  C19/C20 (`Reachable.any`).
  Quiescent points = between operations, i.e. after the environment has carried
  out the instructions of the operation (a sync includes the `ReleasePlayers`
  it triggers).
-/
import Pokerface.Proofs.RegTotal

namespace Pokerface.C09
open Pokerface Reg RSys

/-- **counts_agree**: at every quiescent point the regulator's player total is the number of
    alive players, its table count is the number of its table records and of real tables, and
    its sheet `(id, PlayerCount)` is exactly the real sheet `(id, number of members)` — same
    tables, same order of creation, same counts. -/
theorem counts_agree {s : RSys} (h : ReachableAny s) :
    s.r.playerCount = s.env.alive.length ∧
    s.r.tableCount = s.r.tables.length ∧
    s.r.tables.length = s.env.members.length ∧
    s.r.tables.map (fun t => (t.id, t.count)) = s.env.members.map (fun e => (e.1, (e.2.length : Int))) := by
  have hS := SInv0.of_reachable h
  refine ⟨hS.pc, hS.rinv.wf.tc, ?_, hS.sim⟩
  have := congrArg List.length hS.sim
  simpa [tview, mview] using this

/-- **counts_agree**, per table: `GetTable(t).PlayerCount` is the real number of members of `t`,
    and `GetTable(t)` is `nil` exactly for the tables that do not exist. -/
theorem count_of_table {s : RSys} (h : ReachableAny s) (t : Nat) :
    (s.r.findTable t).map (fun tb => tb.count) = (s.env.membersOf t).map (fun ms => (ms.length : Int)) := by
  have hS := SInv0.of_reachable h
  have := sim_find s.r.tables s.env.members t hS.sim
  simp only [Reg.findTable, Env.membersOf, Option.map_map]
  exact this

/-- **conservation**: the alive players are exactly the queue together with all table
    memberships (as multisets), and no id occurs twice — so every registered, not eliminated
    player is in exactly one place, and nobody else is anywhere. -/
theorem conservation {s : RSys} (h : ReachableAny s) :
    s.env.alive.Perm (s.r.queue ++ s.env.seated) ∧ (s.r.queue ++ s.env.seated).Nodup ∧ s.env.alive.Nodup := by
  have hS := SInv0.of_reachable h
  exact ⟨hS.cons, hS.cons.nodup_iff.1 hS.nodup, hS.nodup⟩

/-- **conservation**, spelled out: an id is alive iff it is queued or sits at some table; never
    both; never at two tables (`Nodup` of the concatenation of all memberships). -/
theorem exactly_one_place {s : RSys} (h : ReachableAny s) (p : Nat) :
    (p ∈ s.env.alive ↔ (p ∈ s.r.queue ∨ ∃ e ∈ s.env.members, p ∈ e.2)) ∧
    ¬ (p ∈ s.r.queue ∧ ∃ e ∈ s.env.members, p ∈ e.2) ∧
    s.r.queue.Nodup ∧ s.env.seated.Nodup := by
  obtain ⟨hperm, hnd, _⟩ := conservation h
  have hseat : p ∈ s.env.seated ↔ ∃ e ∈ s.env.members, p ∈ e.2 := by
    simp only [Env.seated, List.mem_flatten, List.mem_map]
    constructor
    · rintro ⟨l, ⟨e, he, rfl⟩, hp⟩; exact ⟨e, he, hp⟩
    · rintro ⟨e, he, hp⟩; exact ⟨e.2, ⟨e, he, rfl⟩, hp⟩
  rw [List.nodup_append] at hnd
  refine ⟨?_, ?_, hnd.1, hnd.2.1⟩
  · rw [hperm.mem_iff, List.mem_append, hseat]
  · rintro ⟨hq, hs⟩
    exact hnd.2.2 p hq p (hseat.2 hs) rfl

/-- **the instructions can be followed** (part of "never dropped / miscounted"): a `SyncState` on
    an existing table is not refused, and the number of players it asks the table to release is
    between 0 and what the table has after the eliminations and arrivals.  (`elim`/`stay` is any
    split of the members into eliminated and remaining ones.) -/
theorem release_feasible {s : RSys} (h : ReachableAny s) (t : Nat) (ms elim stay : List Nat)
    (hm : s.env.membersOf t = some ms) (hp : ms.Perm (elim ++ stay)) :
    (s.syncAnswer t elim).2.1 = none ∧ 0 ≤ (s.syncAnswer t elim).2.2.1 ∧
    (s.syncAnswer t elim).2.2.1 ≤ ((stay ++ (s.syncAnswer t elim).2.2.2).length : Int) := by
  obtain ⟨r1, relc, nw, t0, hans, _, _, h0, hle, _⟩ := (SInv0.of_reachable h).sync_known t elim stay ms hm hp
  rw [hans, List.length_append]
  exact ⟨rfl, h0, by simpa using hle⟩

/-- **handout_once**: in every valid operation, the queue before the operation followed by the
    players entering it (`incoming`: the registrants / the released players) is, IN ORDER, the
    players returned by `SyncState`, then the players passed to callbacks, then the queue after
    the operation.  Hence every id handed out was removed from the queue in this very step and
    nobody was dropped; and since no id occurs twice in that list, nobody is handed out twice or
    handed out and still queued. -/
theorem handout_once {s : RSys} (h : ReachableAny s) (op : EOp) (hok : s.okAny op) :
    s.r.queue ++ s.incoming op = s.returned op ++ handed (s.step op).r.calls ++ (s.step op).r.queue ∧
    (s.returned op ++ handed (s.step op).r.calls ++ (s.step op).r.queue).Nodup := by
  have hS := SInv0.of_reachable h
  obtain ⟨hS', hF⟩ := hS.step_full op hok
  refine ⟨hF.handout, ?_⟩
  rw [← hF.handout, List.nodup_iff_count]
  intro a
  have c1 := hS.cons.count_eq a
  have c2 := List.nodup_iff_count.1 hS.nodup a
  rw [List.count_append] at c1 ⊢
  cases op with
  | status st ch => simp only [incoming, List.count_nil]; omega
  | add ps ch =>
    simp only [incoming]
    split
    · simp only [List.count_nil]; omega
    · obtain ⟨hnd, hfresh, _⟩ : s.ok (.add ps ch) := hok
      have c3 := List.nodup_iff_count.1 hnd a
      by_cases ha : a ∈ ps
      · have : a ∉ s.env.alive := fun hin => hfresh a ha (hS.sub a hin)
        have := List.count_eq_zero.2 this
        omega
      · have := List.count_eq_zero.2 ha
        omega
  | sync t elim stay rel keep ch =>
    simp only [incoming]
    cases hm : s.env.membersOf t with
    | none => simp only [List.count_nil]; omega
    | some ms =>
      simp only []
      have hok' := hok
      simp only [okAny, ok, hm] at hok'
      rw [show s.syncAnswer t elim = ((s.syncAnswer t elim).1, (s.syncAnswer t elim).2.1,
        (s.syncAnswer t elim).2.2.1, (s.syncAnswer t elim).2.2.2) from rfl] at hok'
      simp only [] at hok'
      obtain ⟨hp1, hp2, hrl, _, _⟩ := hok'
      obtain ⟨r1, relc, nw, t0, hans, _, _, _, _, hex, _⟩ := hS.sync_known t elim stay ms hm hp1
      rw [hans] at hp2 hrl
      simp only [] at hp2 hrl
      have c3 := (count_seatedOf_split s.env.members t ms [] hS.ids_nodup (membersOf_some hm) a).1
      have c4 := hp1.count_eq a
      have c5 := hp2.count_eq a
      simp only [List.count_append] at c4 c5
      rcases hex with hnw | hr0
      · subst hnw
        simp only [List.count_nil] at c5
        have : (seatedOf s.env.members).count a = s.env.seated.count a := rfl
        omega
      · have : rel = [] := by
          rw [hr0] at hrl
          exact List.length_eq_zero_iff.1 (by omega)
        subst this
        simp only [List.count_nil]; omega

/-- the non-scratch part of the regulator state is the same in `r` and `r'` (`calls`, `choices`,
    `badChoice` are per-operation scratch fields of the model, not Go state) -/
def SameState (r r' : Reg) : Prop :=
  r'.max = r.max ∧ r'.min = r.min ∧ r'.playerCount = r.playerCount ∧ r'.tableCount = r.tableCount ∧
  r'.status = r.status ∧ r'.queue = r.queue ∧ r'.tables = r.tables ∧ r'.nextId = r.nextId

/-- **unknown_table_refused**: `SyncState` naming a table the regulator does not know — for ANY
    regulator state and ANY elimination count, reachable or not — returns `ErrNotFoundTable`,
    asks for nothing, makes no callback and changes nothing. -/
theorem unknown_table_refused (r : Reg) (t : Nat) (out : Int) (hf : r.findTable t = none) :
    (r.syncState t out).2.1 = some .notFoundTable ∧ (r.syncState t out).2.2.1 = 0 ∧
    (r.syncState t out).2.2.2 = [] ∧ (r.syncState t out).1.calls = [] ∧
    SameState r (r.syncState t out).1 := by
  rw [syncState_eq, hf]
  exact ⟨rfl, rfl, rfl, rfl, rfl, rfl, rfl, rfl, rfl, rfl, rfl, rfl⟩

/-- in reachable states the regulator knows exactly the tables that exist: a table unknown to the
    environment is unknown to the regulator (so the call above IS refused), and conversely. -/
theorem unknown_iff {s : RSys} (h : ReachableAny s) (t : Nat) :
    s.env.membersOf t = none ↔ s.r.findTable t = none :=
  (SInv0.of_reachable h).unknown_iff t

/-- **unknown_table_refused**, system form: a sync naming a non-existing table leaves regulator
    and environment unchanged. -/
theorem unknown_table_refused_sys {s : RSys} (h : ReachableAny s) (t : Nat) (elim stay rel keep ch : List Nat)
    (hm : s.env.membersOf t = none) :
    SameState s.r (s.step (.sync t elim stay rel keep ch)).r ∧
    (s.step (.sync t elim stay rel keep ch)).r.calls = [] ∧
    (s.step (.sync t elim stay rel keep ch)).env = s.env := by
  have hf := (unknown_iff h t).1 hm
  obtain ⟨_, _, _, h4, h5⟩ := unknown_table_refused s.r t elim.length hf
  have hstep : s.step (.sync t elim stay rel keep ch) = { r := (s.syncAnswer t elim).1, env := s.env } := by
    simp only [RSys.step, hm]
  rw [hstep]
  exact ⟨h5, h4, rfl⟩

/-- **late_registration_refused**: after the registration deadline `AddPlayers` — for ANY
    regulator state — returns `ErrAfterRegDeadline`, makes no callback and changes nothing. -/
theorem late_registration_refused (r : Reg) (ps ch : List Nat) (hs : r.status = .afterRegDeadline) :
    (r.addPlayers ps ch).2 = some .afterRegDeadline ∧ (r.addPlayers ps ch).1.calls = [] ∧
    SameState r (r.addPlayers ps ch).1 := by
  have : (r.beginOp ch).status = .afterRegDeadline := hs
  have heq : r.addPlayers ps ch = (r.beginOp ch, some .afterRegDeadline) := by
    unfold Reg.addPlayers
    simp only [this, if_true]
  rw [heq]
  exact ⟨rfl, rfl, rfl, rfl, rfl, rfl, rfl, rfl, rfl, rfl⟩

/-- system form: the refused registrants are not alive, not registered, nowhere. -/
theorem late_registration_refused_sys (s : RSys) (ps ch : List Nat) (hs : s.r.status = .afterRegDeadline) :
    SameState s.r (s.step (.add ps ch)).r ∧ (s.step (.add ps ch)).env = s.env := by
  obtain ⟨h1, _, h3⟩ := late_registration_refused s.r ps ch hs
  refine ⟨by rw [step_add_r]; exact h3, ?_⟩
  simp only [RSys.step]
  generalize s.r.addPlayers ps ch = p at h1
  obtain ⟨r', e⟩ := p
  simp only at h1
  subst h1
  rfl

/-- converse: before the deadline a registration (with admissible dispatch choices) is accepted. -/
theorem registration_accepted {s : RSys} (h : ReachableAny s) (ps ch : List Nat) (hok : s.okAny (.add ps ch))
    (hs : s.r.status ≠ .afterRegDeadline) :
    (s.r.addPlayers ps ch).2 = none ∧
    (s.step (.add ps ch)).env.alive = s.env.alive ++ ps := by
  have hok' : s.ok (.add ps ch) := hok
  have he := (addPlayers_spec0 s.r ps ch (SInv0.of_reachable h).rinv hs hok'.2.2).1
  refine ⟨he, ?_⟩
  simp only [RSys.step]
  generalize s.r.addPlayers ps ch = p at he
  obtain ⟨r', e⟩ := p
  simp only at he
  subst he
  rfl

/-! ### the domain is total: no history of tables that follow instructions is excluded

The validity conditions of `okAny` constrain the inputs the model cannot compute itself (which
table Go's map iteration offers to `dispatchPlayer`, which members a table eliminates or
releases).  The three theorems below show that they never exclude a real history: whatever was
done so far, every next call of the regulator alphabet is valid for SOME such inputs.  (The real
run supplies the inputs it observed; K2 checks that the model accepts them.) -/

/-- **totality, `AddPlayers`**: in every reachable state every batch of distinct, never registered
    ids (any size, also empty) can be registered — in every phase (after the deadline it is
    refused, which is a valid operation too). -/
theorem registration_possible {s : RSys} (h : ReachableAny s) (ps : List Nat) (hnd : ps.Nodup)
    (hfresh : ∀ p ∈ ps, p ∉ s.env.registered) : ∃ ch, s.okAny (.add ps ch) :=
  h.add_total ps hnd hfresh

/-- **totality, `SetStatus`**: in every reachable state the status can be set to ANY status,
    `Pending` included. -/
theorem status_change_possible {s : RSys} (h : ReachableAny s) (st : RStatus) :
    ∃ ch, s.okAny (.status st ch) :=
  h.status_total st

/-- **totality, `SyncState` + `ReleasePlayers`**: in every reachable state, for EVERY table id
    (existing or not) and EVERY split of the table's members into eliminated (`elim`) and
    remaining (`stay`) ones — i.e. every elimination count `0 … |members|` and every choice of who
    is eliminated — the sync is valid for some choice of released players (`rel`, of exactly the
    length the regulator asked for), remaining players and dispatch choices. -/
theorem sync_possible {s : RSys} (h : ReachableAny s) (t : Nat) (elim stay : List Nat)
    (hsplit : ∀ ms, s.env.membersOf t = some ms → ms.Perm (elim ++ stay)) :
    ∃ rel keep ch, s.okAny (.sync t elim stay rel keep ch) :=
  h.sync_total t elim stay hsplit

/-- **totality, which players are released**: moreover ANY choice of the released players will do —
    every split `rel`/`keep` of the table's members after the arrivals in which `rel` has exactly
    the length `SyncState` returned (such splits exist by `release_feasible`). -/
theorem sync_possible_any_release {s : RSys} (h : ReachableAny s) (t : Nat) (elim stay rel keep : List Nat)
    (hsplit : ∀ ms, s.env.membersOf t = some ms → ms.Perm (elim ++ stay))
    (hrel : (stay ++ (s.syncAnswer t elim).2.2.2).Perm (rel ++ keep))
    (hlen : (rel.length : Int) = (s.syncAnswer t elim).2.2.1) :
    ∃ ch, s.okAny (.sync t elim stay rel keep ch) :=
  h.sync_total_rel t elim stay rel keep hsplit hrel hlen

/-! ### non-vacuity -/

/-- 27 registrants at 9/6, six eliminations at table 1, then table 2 is told to release two
    players, who are dispatched to table 1 (choice `1`) -/
def rebalance : List EOp :=
  [.add ((List.range 27).map (· + 1)) [], .status .normal [],
   .sync 1 [1,2,3,4,5,6] [7,8,9] [] [7,8,9] [],
   .sync 2 [] [10,11,12,13,14,15,16,17,18] [10,11] [12,13,14,15,16,17,18] [1]]

example : ReachableAny ((RSys.init 9 6).run rebalance) :=
  (ReachableAny.init 9 6 (by decide)).run rebalance (by decide)
example : ((RSys.init 9 6).run rebalance).env.members =
    [(1, [7,8,9,10,11]), (2, [12,13,14,15,16,17,18]), (3, [19,20,21,22,23,24,25,26,27])] := by decide
example : ((RSys.init 9 6).run rebalance).r.calls = [.assign 1 [10, 11]] := by decide
/-- `release_feasible` with a positive release count -/
example : (((RSys.init 9 6).run (rebalance.take 3)).syncAnswer 2 []).2.2.1 = 2 := by decide

/-- a sync that receives a queued player (`returned` non-empty): 13 registrants at 6/5 leave player
    13 waiting; table 1 loses two players and is given player 13 -/
def topUp : List EOp := [.add [1,2,3,4,5,6,7,8,9,10,11,12,13] [], .status .normal []]
example : ReachableAny ((RSys.init 6 5).run topUp) :=
  (ReachableAny.init 6 5 (by decide)).run topUp (by decide)
example : ((RSys.init 6 5).run topUp).r.queue = [13] := by decide
example : ((RSys.init 6 5).run topUp).ok (.sync 1 [1,2] [3,4,5,6] [] [3,4,5,6,13] []) := by decide
example : ((RSys.init 6 5).run topUp).returned (.sync 1 [1,2] [3,4,5,6] [] [3,4,5,6,13] []) = [13] := by decide

/-- an unknown table, and a registration after the deadline -/
example : ((RSys.init 6 5).run topUp).env.membersOf 900 = none := by decide
example : ((RSys.init 6 5).run (topUp ++ [.status .afterRegDeadline []])).r.status = .afterRegDeadline := by decide
example : (((RSys.init 6 5).run (topUp ++ [.status .afterRegDeadline []])).r.addPlayers [14] []).2
    = some .afterRegDeadline := by decide

/-! ### non-vacuity on the parts of the domain that `Reachable` (C19/C20) does not have -/

/-- a competition that is set back to `Pending` while running: registrations pile up in the
    queue, a sync hands two of them to table 1, the restart dispatches two more to table 1.
    (This is the history on which CAPACITY fails, `C19.capacity_fails_after_return_to_pending`;
    conservation and the counters are intact.) -/
def backToPending : List EOp :=
  [.status .normal [], .add [1,2,3,4,5,6,7,8] [], .sync 1 [1,2] [3,4] [] [3,4] [],
   .status .pending [], .add [9,10] [], .sync 1 [] [3,4] [] [3,4,9,10] [], .add [11,12] [],
   .status .normal [1]]

example : ReachableAny ((RSys.init 4 2).run backToPending) :=
  (ReachableAny.init 4 2 (by decide)).run backToPending (by decide)
example : ¬ (RSys.init 4 2).allOk backToPending := by decide
example : ((RSys.init 4 2).run backToPending).env.members =
    [(1, [3,4,9,10,11,12]), (2, [5,6,7,8])] := by decide
example : ((RSys.init 4 2).run backToPending).r.playerCount = 10 := by decide
/-- pending with open tables: the sync really handed queued players over -/
example : ((RSys.init 4 2).run (backToPending.take 5)).returned (.sync 1 [] [3,4] [] [3,4,9,10] []) = [9,10] := by
  decide

/-- settings outside `2 ≤ min ≤ max`: 1/1 (three one-seat tables; an eliminated player's seat is
    refilled by the next registrant), 2/3 (`min > max`: no table is ever opened), 3/0 (`min = 0`:
    a broken table's player is moved, a single late registrant gets a table of his own) -/
def oneOne : List EOp := [.status .normal [], .add [1,2,3] [], .sync 2 [2] [] [] [] [], .add [4] [2]]
example : ReachableAny ((RSys.init 1 1).run oneOne) :=
  (ReachableAny.init 1 1 (by decide)).run oneOne (by decide)
example : ((RSys.init 1 1).run oneOne).env.members = [(1, [1]), (2, [4]), (3, [3])] := by decide

def minAboveMax : List EOp := [.add [1,2,3,4,5,6,7] [], .status .normal []]
example : ReachableAny ((RSys.init 2 3).run minAboveMax) :=
  (ReachableAny.init 2 3 (by decide)).run minAboveMax (by decide)
example : ((RSys.init 2 3).run minAboveMax).r.queue = [1,2,3,4,5,6,7] := by decide

def minZero : List EOp := [.status .normal [], .add [1,2,3,4] [], .sync 1 [1] [2] [2] [] [2], .add [5] []]
example : ReachableAny ((RSys.init 3 0).run minZero) :=
  (ReachableAny.init 3 0 (by decide)).run minZero (by decide)
example : ((RSys.init 3 0).run minZero).env.members = [(2, [3,4,2]), (3, [5])] := by decide

/-- totality: hypotheses satisfiable, e.g. the sync of table 2 with one elimination after `topUp` -/
example : ((RSys.init 6 5).run topUp).env.membersOf 2 = some [7,8,9,10,11,12] := by decide

end Pokerface.C09
