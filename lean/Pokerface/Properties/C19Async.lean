/-
  C19 on the ASYNCHRONOUS system: histories with LATE release reports.

  "The regulator never asks a table to hold more than the configured maximum
   number of players - neither when opening tables for a batch of registrants
   nor when topping tables up later.  It opens no table before the competition
   has started or before the minimum initial number of players has registered,
   and every table opened by that initial allocation gets at least that minimum."

  `Properties/C19.lean` proves this for `RSys`, where a table's `SyncState` and the
  `ReleasePlayers` report it triggers are ONE step.  Here the same statements are proved for
  `ASys` (Model/RegulatorAsync.lean): a sync only calls `SyncState`; the players the table is told
  to release leave it and are "on the way back" (`inflight`); `ReleasePlayers` is a separate
  operation `report` that may come at ANY later time — after registrations, status changes, syncs
  of other tables and of the same table, after the table was broken — and in several parts.

  Domain: `AReachableFwd s` = `s` is obtained from a fresh regulator with ANY setting `1 ≤ max`,
  ANY `min`, by ANY finite sequence of operations valid in the sense of `ASys.okFwd`: `ASys.ok`
  (fresh ids on registration, a syncing table eliminates at most its members and lets go exactly
  the number of players it is told to, a report names players on the way back from the table,
  dispatch choices are ones `getAvailableTable` can make — these never block a history:
  `C09.registration_possible_async`, `sync_possible_async`, `report_possible_async`) plus reading
  I13: a `SetStatus` never returns to `pending`, exactly as `RSys.ok` restricts `RSys.okAny`.
  NOTHING asks for "report before the next operation / before the table's next sync".
  No theorem needs `2 ≤ min ≤ max`.  All theorems are for all settings and all histories.

  Result: every C19 statement survives late reports UNCHANGED.  What changes in the proof: the
  regulator's count identity is `playerCount = |queue| + Σ PlayerCount + |on the way|`, so the
  water levels are computed from a total that includes players sitting nowhere; the capacity
  tower (`PlayerCount + Required ≤ max`, "a non-empty queue means no outstanding demand", "no
  table while pending") turns out not to need the identity at all (Proofs/RegAsyncCapReg.lean),
  and the initial allocation reaches `min` because `drainWaitingQueue` looks at the QUEUE length
  (not at `playerCount`) before it opens the first table.
-/
import Pokerface.Proofs.RegAsyncCapEnv

namespace Pokerface.C19
open Pokerface Reg ASys

/-- **capacity** (first sentence, between operations), asynchronous: in every reachable state the
    real membership of every table is at most `max` — whoever is on the way back, whenever the
    reports arrive. -/
theorem capacity_async {s : ASys} (h : AReachableFwd s) :
    ∀ e ∈ s.env.members, e.2.length ≤ s.r.max :=
  fun _ he => (AInvF.of_reachable h).capacity he

/-- **capacity, regulator side**, asynchronous: for every table on the regulator's sheet,
    `PlayerCount` and `Required` are non-negative and `PlayerCount + Required ≤ max` — also
    between a sync that asked for a release and the report of that release. -/
theorem count_plus_required_le_max_async {s : ASys} (h : AReachableFwd s) :
    ∀ tb ∈ s.r.tables, 0 ≤ tb.count ∧ 0 ≤ tb.required ∧ tb.count + tb.required ≤ s.r.max :=
  (AInvF.of_reachable h).f.wf.bnd

/-- the regulator's `PlayerCount` of a table IS the real number of its members (the players on the
    way back are counted nowhere but in the total): the link between the two capacity statements.
    (This is `C09.counts_agree_async`, restated in the form used here.) -/
theorem count_is_membership_async {s : ASys} (h : AReachableFwd s) :
    ∀ e ∈ s.env.members, ∃ tb ∈ s.r.tables, tb.id = e.1 ∧ tb.count = e.2.length :=
  fun _ he => (AInvF.of_reachable h).a.mem_table he

/-- **capacity when opening tables**, asynchronous: every `requestTableFn` callback of every valid
    operation (registration, status change, late report) carries at most `max` players. -/
theorem request_le_max_async {s : ASys} (h : AReachableFwd s) (op : AOp) (hok : s.okFwd op) :
    ∀ id ps, RCall.requestTable id ps ∈ (s.step op).r.calls → ps.length ≤ s.r.max :=
  ((AInvF.of_reachable h).a.step_full op (ok_of_okFwd hok)).2.reqmax

/-- the same on the WIDE asynchronous domain of C09 (`SetStatus` to any status at any time): the
    tables OPENED never exceed `max`; only top-ups can, after a return to `pending`
    (`capacity_fails_after_return_to_pending`). -/
theorem request_le_max_async_any {s : ASys} (h : AReachable s) (op : AOp) (hok : s.ok op) :
    ∀ id ps, RCall.requestTable id ps ∈ (s.step op).r.calls → ps.length ≤ s.r.max :=
  ((AInv.of_reachable h).step_full op hok).2.reqmax

/-- **capacity while topping up** (first sentence, at every callback), asynchronous: inside an
    operation the environment applies the callbacks one by one to `baseMembers` (for a sync: the
    sheet after the syncing table has carried out its eliminations/arrivals/departures — a sync
    itself makes no callback here; for a registration, status change or report: the sheet as it
    is).  After EVERY prefix `cs₁` of the callbacks of the operation, every table holds at most
    `max` players. -/
theorem capacity_during_async {s : ASys} (h : AReachableFwd s) (op : AOp) (hok : s.okFwd op)
    (cs₁ cs₂ : List RCall) (hcs : (s.step op).r.calls = cs₁ ++ cs₂) :
    ∀ e ∈ Env.applyCalls (s.baseMembers op) cs₁, e.2.length ≤ s.r.max := by
  intro e he
  have hS0 := AInvF.of_reachable h
  obtain ⟨hS, hF⟩ := hS0.step_full op hok
  have hmax := (hS0.a.step_full op (ok_of_okFwd hok)).2.max_eq
  obtain ⟨e', he', _, hle⟩ := applyCalls_grows _ cs₂ e he
  rw [← applyCalls_append, ← hcs, ← hF.members] at he'
  have := hS.capacity he'
  rw [hmax] at this
  omega

/-- **no_table_before_start** (state form), asynchronous: while the competition is pending there
    is no table, neither on the regulator's sheet nor in reality, and nobody is on the way back. -/
theorem no_table_before_start_async {s : ASys} (h : AReachableFwd s) (hp : s.r.status = .pending) :
    s.r.tables = [] ∧ s.r.tableCount = 0 ∧ s.env.members = [] ∧ s.inflight = [] := by
  have hS := AInvF.of_reachable h
  have ht := hS.f.pend hp
  refine ⟨ht, ?_, hS.a.members_nil_iff.2 ht, hS.pendfly hp⟩
  rw [hS.f.wf.tc, ht]; rfl

/-- **no_table_before_start** (callback form), asynchronous: an operation after which the
    competition is still pending made no callback at all (no table opened, nobody assigned). -/
theorem no_callback_before_start_async {s : ASys} (h : AReachableFwd s) (op : AOp) (hok : s.okFwd op)
    (hp : (s.step op).r.status = .pending) : (s.step op).r.calls = [] := by
  obtain ⟨hS, hF⟩ := (AInvF.of_reachable h).step_full op hok
  have hm : (s.step op).env.members = [] := hS.a.members_nil_iff.2 (hS.f.pend hp)
  cases hc : (s.step op).r.calls with
  | nil => rfl
  | cons c cs =>
    have h1 := applyTVs_ne_nil _ _ hF.valid (by rw [hc]; exact List.cons_ne_nil _ _)
    rw [← mview_applyCalls, ← hF.members, hm] at h1
    exact absurd rfl h1

/-- the status never returns to `pending`: once an operation has left it, it stays left.  (So
    "still pending after the operation" is the same as "the competition has not started".) -/
theorem pending_is_initial_async {s : ASys} (h : AReachableFwd s) (op : AOp) (hok : s.okFwd op)
    (hp : (s.step op).r.status = .pending) : s.r.status = .pending := by
  have hst := ((AInvF.of_reachable h).a.step_full op (ok_of_okFwd hok)).2.status_eq
  cases op with
  | add ps ch => simp only [statusAfter] at hst; exact hst ▸ hp
  | sync t elim stay rel keep => simp only [statusAfter] at hst; exact hst ▸ hp
  | report t ps rest ch => simp only [statusAfter] at hst; exact hst ▸ hp
  | status st ch =>
    simp only [statusAfter] at hst
    rcases hok.1 with h1 | h1
    · exact absurd (hst ▸ hp) h1
    · exact h1

/-- **no_table_before_min** (state form), asynchronous: tables exist only if at least `min` players
    have registered so far (`registered` = every id ever accepted by `AddPlayers`). -/
theorem no_table_before_min_async {s : ASys} (h : AReachableFwd s) (hne : s.env.members ≠ []) :
    s.r.min ≤ s.env.registered.length := by
  have hS := AInvF.of_reachable h
  exact hS.regmin (fun ht => hne (hS.a.members_nil_iff.2 ht))

/-- **no_table_before_min** (callback form), asynchronous: an operation that opens a table
    (`requestTableFn`) ends with at least `min` registered players — registrations of that very
    operation included, which is the earliest moment the Go code could know about them. -/
theorem no_request_before_min_async {s : ASys} (h : AReachableFwd s) (op : AOp) (hok : s.okFwd op)
    (id : Nat) (ps : List Nat) (hc : RCall.requestTable id ps ∈ (s.step op).r.calls) :
    s.r.min ≤ (s.step op).env.registered.length := by
  have hS0 := AInvF.of_reachable h
  obtain ⟨hS, hF⟩ := hS0.step_full op hok
  have hmin := (hS0.a.step_full op (ok_of_okFwd hok)).2.min_eq
  have hne : (s.step op).env.members ≠ [] := by
    intro hm
    have h1 := applyTVs_ne_nil _ _ hF.valid (List.ne_nil_of_mem hc)
    rw [← mview_applyCalls, ← hF.members, hm] at h1
    exact absurd rfl h1
  have := hS.regmin (fun ht => hne (hS.a.members_nil_iff.2 ht))
  rw [hmin] at this
  exact this

/-- **initial_tables_have_min**, asynchronous: every table opened by an operation that started
    with no table (`tableCount = 0`, the initial allocation) gets at least `min` players —
    whichever operation it is: a registration, the start, or a (late) `ReleasePlayers` report.
    (The corner `C19.initial_tables_have_min_release` of the synchronous model — the report that
    follows the sync which broke the last table — is the `report` case here: the report is an
    operation of its own.) -/
theorem initial_tables_have_min_async {s : ASys} (h : AReachableFwd s) (h0 : s.r.tableCount = 0)
    (op : AOp) (_hok : s.okFwd op) (id : Nat) (ps : List Nat)
    (hc : RCall.requestTable id ps ∈ (s.step op).r.calls) : s.r.min ≤ ps.length :=
  (AInvF.of_reachable h).initial_min h0 op id ps hc

/-- **the synchronous theorems are the special case "report at once"**: every state of the
    synchronous domain of C19 (`Reachable`) is, with nobody on the way, a state of the asynchronous
    forward-only domain (by `C09.sync_then_report_eq_rsys_step`: a synchronous sync is the
    asynchronous sync followed at once by the report of everybody released). -/
theorem rsys_reachable_is_async_fwd {s : RSys} (h : RSys.Reachable s) : AReachableFwd (ASys.ofRSys s) :=
  AReachableFwd.ofRSys h

/-- the synchronous `capacity` re-derived as the special case of `capacity_async` -/
theorem capacity_of_async {s : RSys} (h : RSys.Reachable s) :
    ∀ e ∈ s.env.members, e.2.length ≤ s.r.max :=
  capacity_async (rsys_reachable_is_async_fwd h)

/-- the forward-only asynchronous domain lies inside the wide one of C09 -/
theorem async_fwd_is_async {s : ASys} (h : AReachableFwd s) : AReachable s := h.any

/-! ### non-vacuity: histories with LATE reports at 4/2

`late`: eight registrants, start (tables 1, 2 of four); table 1 loses two players and is left
with an outstanding demand; table 2 syncs and is told to release one: player 5 leaves and is ON
THE WAY BACK.  Before his report arrives: player 9 registers and is dispatched to table 1, and
registration closes.  Only then `ReleasePlayers(2, [5])`: player 5 is dispatched to table 1, which
is now full (4 of 4). -/
def late : List AOp :=
  [.add [1,2,3,4,5,6,7,8] [], .status .normal [],
   .sync 1 [1,2] [3,4] [] [3,4],
   .sync 2 [] [5,6,7,8] [5] [6,7,8],
   .add [9] [1],
   .status .afterRegDeadline [],
   .report 2 [5] [] [1]]

example : AReachableFwd ((ASys.init 4 2).run late) :=
  (AReachableFwd.init 4 2 (by decide)).run late (by decide)
/-- between the sync and its report: player 5 sits nowhere, is counted in the total (6 = 5 at tables
    + 1 on the way), and two operations come in between -/
example : ((ASys.init 4 2).run (late.take 4)).inflight = [(2, [5])] := by decide
example : ((ASys.init 4 2).run (late.take 4)).r.playerCount = 6 := by decide
example : ((ASys.init 4 2).run (late.take 4)).env.members = [(1, [3,4]), (2, [6,7,8])] := by decide
example : ((ASys.init 4 2).run (late.take 6)).inflight = [(2, [5])] := by decide
example : ((ASys.init 4 2).run (late.take 6)).env.members = [(1, [3,4,9]), (2, [6,7,8])] := by decide
/-- the late report tops table 1 up to exactly `max` (hypotheses of `capacity_during_async`,
    conclusion tight) -/
example : ((ASys.init 4 2).run late).r.calls = [.assign 1 [5]] := by decide
example : ((ASys.init 4 2).run late).env.members = [(1, [3,4,9,5]), (2, [6,7,8])] := by decide
example : ((ASys.init 4 2).run late).inflight = [] := by decide
/-- this history is not a synchronous one: somebody is on the way in the middle of it -/
example : ((ASys.init 4 2).run (late.take 5)).flying ≠ [] := by decide
/-- the start operation opened the tables from none (hypotheses of `request_le_max_async`,
    `initial_tables_have_min_async`, `no_request_before_min_async`) -/
example : ((ASys.init 4 2).run (late.take 1)).r.tableCount = 0 := by decide
example : ((ASys.init 4 2).run (late.take 2)).r.calls =
    [.requestTable 1 [1,2,3,4], .requestTable 2 [5,6,7,8]] := by decide
/-- still pending after the registration: `no_callback_before_start_async` applies -/
example : ((ASys.init 4 2).run (late.take 1)).r.status = .pending := by decide

/-- `late2`: further, table 2 loses two players; table 1 is told to release one (3 leaves), syncs
    AGAIN before that report with one more elimination and is BROKEN (9 and 5 leave): three players
    on the way back from a table that no longer exists.  The report comes in two parts with a sync
    of table 2 in between; in the end table 2 holds exactly `max`. -/
def late2 : List AOp := late ++
  [.sync 2 [6,7] [8] [] [8],
   .sync 1 [] [3,4,9,5] [3] [4,9,5],
   .sync 1 [4] [9,5] [9,5] [],
   .report 1 [9] [3,5] [2],
   .sync 2 [] [8,9] [] [8,9],
   .report 1 [3,5] [] [2]]

example : AReachableFwd ((ASys.init 4 2).run late2) :=
  (AReachableFwd.init 4 2 (by decide)).run late2 (by decide)
example : ((ASys.init 4 2).run (late2.take 10)).inflight = [(1, [3]), (1, [9,5])] := by decide
example : ((ASys.init 4 2).run (late2.take 10)).env.members = [(2, [8])] := by decide
example : ((ASys.init 4 2).run (late2.take 11)).inflight = [(1, [3,5])] := by decide
example : ((ASys.init 4 2).run (late2.take 12)).r.tables.map (fun t => (t.id, t.count, t.required)) =
    [(2, 2, 2)] := by decide
example : ((ASys.init 4 2).run late2).env.members = [(2, [8,9,3,5])] := by decide
example : ((ASys.init 4 2).run late2).r.calls = [.assign 2 [3,5]] := by decide

/-- the forward-only restriction is decidable on scripts and does exclude something: the witness
    of observation O11 (`C19.backToPending`), as an asynchronous script, is valid in the wide sense
    only -/
example : (ASys.init 4 2).allOk [.add [1,2] [], .status .normal [], .status .pending []] := by decide
example : ¬ (ASys.init 4 2).allOkFwd [.add [1,2] [], .status .normal [], .status .pending []] := by decide

end Pokerface.C19
