import Pokerface.Properties.C18
import Pokerface.Properties.C03
import Pokerface.Proofs.SmallNamedAux
/-!
  Small named theorems closing two gaps of the clause audit
  (`tools/audit_clauses*.md`, "Prioritised provable gaps", item 12):

  * C18 `join_success_seat_was_empty` — a successful `Join` landed on a seat that existed and held
    nobody before; what is and is not true about "was not reserved";
  * C03 `ace_low_only_wheel` — a valid hand is a straight iff its ranks are a rearrangement of
    `run t`, 5 ≤ t ≤ 14, and the ace counts low in `run 5` only (no wrap-around).

  Only theorems, non-vacuity examples and (C18) one concrete witness state.
-/
namespace Pokerface.Small

section C18
open SM

/-! ## C18: a successful join landed on an empty seat -/

/-- **C18, "a join succeeds only on an empty seat" (`join_success_seat_was_empty`).**
For EVERY state `sm` of the seat manager (no reachability hypothesis is needed), every seat argument, player
and recorded random choice: if `Join(seat, pid)` returns no error (`.2.1 = none`) and reports seat `i`
(`.2.2 = some i`), then seat `i` existed before the call and held nobody (`player = none`), and for an explicit
seat argument (`seat ≥ 0`) the seat reported is the one asked for.

Nothing is said here about `reserved`: see `explicit_join_takes_reserved_seat` (it may have been reserved)
and `join_any_success_seat_was_free` (for `Join(-1)` it was not). -/
theorem join_success_seat_was_empty (sm : SM) (seat : Int) (pid : Nat) (c : Option Nat) (i : Nat)
    (herr : (sm.step (.join seat pid c)).2.1 = none) (hland : (sm.step (.join seat pid c)).2.2 = some i) :
    (∃ s, sm.seats[i]? = some s ∧ s.player = none) ∧ (0 ≤ seat → i = seat.toNat) := by
  obtain ⟨k, hk, hcase⟩ := step_join_ok herr
  rw [hk] at herr hland
  obtain ⟨rfl, h⟩ := joinAt_ok herr hland
  refine ⟨h, fun h0 => ?_⟩
  rcases hcase with ⟨_, rfl⟩ | ⟨hm, _⟩
  · rfl
  · omega

/-- Non-vacuity: in the reachable state `C18.demo`, `Join(3, 13)` succeeds on seat 3 (which was empty). -/
example : (C18.demo.step (.join 3 13 none)).2.1 = none ∧ (C18.demo.step (.join 3 13 none)).2.2 = some 3 := by
  decide

/-- **C18, `Join(-1)` part of `join_success_seat_was_empty`.** When the seat is left to the seat manager
(`seat = -1`), the seat a successful join lands on was, before the call, existing, empty AND not reserved
(`SM.Free`): `getAvailableSeats` skips reserved seats.  For every state `sm`. -/
theorem join_any_success_seat_was_free (sm : SM) (pid : Nat) (c : Option Nat) (i : Nat)
    (herr : (sm.step (.join (-1) pid c)).2.1 = none) (hland : (sm.step (.join (-1) pid c)).2.2 = some i) :
    Free sm i := by
  obtain ⟨k, hk, hcase⟩ := step_join_ok herr
  rw [hk] at herr hland
  obtain ⟨rfl, _⟩ := joinAt_ok herr hland
  rcases hcase with ⟨h0, _⟩ | ⟨_, hm⟩
  · omega
  · exact mem_joinPool_free hm

/-- Non-vacuity: in `C18.demo` the only free seat is 3 and `Join(-1, 13)` (choice 3) lands there. -/
example : (C18.demo.step (.join (-1) 13 (some 3))).2.1 = none ∧
    (C18.demo.step (.join (-1) 13 (some 3))).2.2 = some 3 := by decide

/-- A reachable 2-seat state whose seat 1 is empty but reserved (`Reserve(1)` on a new table). -/
def reservedEmpty : SM := (SM.new 2).run [.reserve 1]

theorem reservedEmpty_reachable : Reachable reservedEmpty := ⟨2, _, rfl⟩

/-- **C18, the part of "a join succeeds only on an empty, unreserved seat" that is FALSE of the code.**
`SeatManager.join(seatID, p)` (seat_manager.go) tests only `s.Player != nil`; it does not look at `IsReserved`.
Witness: new 2-seat table, `Reserve(1)`, then `Join(1, 7)`: the join succeeds on seat 1 although that seat was
reserved before the call.  So "not reserved before" cannot be added to `join_success_seat_was_empty` for
an explicit seat argument, even on reachable states. -/
theorem explicit_join_takes_reserved_seat :
    Reachable reservedEmpty ∧
    reservedEmpty.seats[1]? = some { player := none, active := true, reserved := true } ∧
    (reservedEmpty.step (.join 1 7 none)).2.1 = none ∧
    (reservedEmpty.step (.join 1 7 none)).2.2 = some 1 ∧
    ¬ Free reservedEmpty 1 := by
  refine ⟨reservedEmpty_reachable, by decide, by decide, by decide, ?_⟩
  rintro ⟨s, hs, _, hr⟩
  have : reservedEmpty.seats[1]? = some { player := none, active := true, reserved := true } := by decide
  rw [this] at hs
  cases hs
  cases hr

/-- Hence the universally quantified strengthening is refuted (on reachable states). -/
theorem not_join_success_seat_was_unreserved :
    ¬ ∀ (sm : SM), Reachable sm → ∀ (seat : Int) (pid : Nat) (c : Option Nat) (i : Nat),
      (sm.step (.join seat pid c)).2.1 = none → (sm.step (.join seat pid c)).2.2 = some i → Free sm i := by
  intro h
  obtain ⟨hr, _, h1, h2, h3⟩ := explicit_join_takes_reserved_seat
  exact h3 (h _ hr 1 7 none 1 h1 h2)

end C18

section C03
open C03

/-! ## C03: the ace counts low only in the wheel -/

/-- **C03, "the ace plays low only in A-2-3-4-5": no wrap-around.**  For a top card of six or more the
straight is the five consecutive ranks `t, t-1, t-2, t-3, t-4` (the hypothesis `t ≤ 14` of the clause is not
needed). -/
theorem run_no_wrap (t : Nat) (h6 : 6 ≤ t) : run t = [t, t - 1, t - 2, t - 3, t - 4] := by
  unfold run; rw [if_neg (by omega)]

example : run 14 = [14, 13, 12, 11, 10] := run_no_wrap 14 (by decide)

/-- **C03, the wheel.**  The five-high straight is 5-4-3-2-A: it contains the ace (14). -/
theorem run_wheel : run 5 = [5, 4, 3, 2, 14] ∧ 14 ∈ run 5 := by decide

/-- **C03, "the ace plays low only in A-2-3-4-5".**  For every `t` whatever: `run t` contains both the ace
(14) and the deuce iff `t = 5`. -/
theorem run_ace_and_deuce_iff (t : Nat) : (14 ∈ run t ∧ 2 ∈ run t) ↔ t = 5 := by
  constructor
  · rintro ⟨ha, hd⟩
    by_cases h : t = 5
    · exact h
    · simp only [run, if_neg h, List.mem_cons, List.not_mem_nil, or_false] at ha hd; omega
  · rintro rfl; decide

/-- A straight of the specification that contains the ace has top card 5 or 14. -/
theorem run_ace_iff (t : Nat) (h5 : 5 ≤ t) (h14 : t ≤ 14) : 14 ∈ run t ↔ t = 5 ∨ t = 14 := by
  constructor
  · intro ha
    by_cases h : t = 5
    · exact Or.inl h
    · simp only [run, if_neg h, List.mem_cons, List.not_mem_nil, or_false] at ha; omega
  · rintro (rfl | rfl) <;> decide

example : 14 ∈ run 5 ∧ 2 ∈ run 5 := by decide
example : ¬ (14 ∈ run 14 ∧ 2 ∈ run 14) := by decide

/-- **C03 `ace_low_only_wheel`.**  For every valid five-card hand `h` (any card order), any ranking table `T`
and category sizes `lvl`: the evaluator (`calculatePower`) reports a straight (category `straight` or
`straightFlush`) iff the ranks of the hand are a rearrangement of `run t` for some top card `5 ≤ t ≤ 14` —
where (`run_no_wrap`, `run_wheel`, `run_ace_and_deuce_iff`) `run t` is `t, t-1, …, t-4` for `t ≥ 6` and
5-4-3-2-A for `t = 5`: the ace counts low in the five-high straight only; there is no wrap-around. -/
theorem ace_low_only_wheel (lvl : Cat → Nat) (T : List Cat) (h : List Card) (hv : Valid h) :
    ((calculatePower lvl T h).cat = .straight ∨ (calculatePower lvl T h).cat = .straightFlush) ↔
      ∃ t, 5 ≤ t ∧ t ≤ 14 ∧ (ranks h).Perm (run t) := by
  rw [category_correct lvl T h hv]
  constructor
  · intro hc
    obtain ⟨t, ht⟩ := straightTop_of_specCat hc
    obtain ⟨⟨h5, h14⟩, ha⟩ := straightTop_some ht
    exact ⟨t, h5, h14, perm_run_of_all h5 h14 (by simp [ranks, hv.five]) ha⟩
  · rintro ⟨t, h5, h14, p⟩
    rw [specCat_perm p, specCat_run h5 h14]
    cases sameSuit h
    · left; rfl
    · right; rfl

/-- Non-vacuity, both directions: the wheel is valid, is reported as a straight, and its ranks rearrange `run 5`. -/
example : Valid wheel ∧ (calculatePower combinationLevel powerStandard wheel).cat = .straight ∧
    (ranks wheel).Perm (run 5) :=
  ⟨valid_wheel, by rw [category_correct _ _ _ valid_wheel]; decide, by decide⟩

/-- **C03, corollary of `ace_low_only_wheel`: no wrap-around straights.**  A valid hand that holds an ace and a
deuce and is reported as a straight is the wheel A-2-3-4-5 (so Q-K-A-2-3, K-A-2-3-4, … are not straights). -/
theorem straight_with_ace_and_deuce_is_wheel (lvl : Cat → Nat) (T : List Cat) (h : List Card) (hv : Valid h)
    (hs : (calculatePower lvl T h).cat = .straight ∨ (calculatePower lvl T h).cat = .straightFlush)
    (ha : 14 ∈ ranks h) (hd : 2 ∈ ranks h) : (ranks h).Perm [5, 4, 3, 2, 14] := by
  obtain ⟨t, _, _, p⟩ := (ace_low_only_wheel lvl T h hv).mp hs
  have : t = 5 := (run_ace_and_deuce_iff t).mp ⟨p.mem_iff.mp ha, p.mem_iff.mp hd⟩
  subst this
  exact p

example : 14 ∈ ranks wheel ∧ 2 ∈ ranks wheel := by decide

/-- Q-K-A-2-3 (a valid hand) is reported as high card, not as a straight. -/
def qka23 : List Card := [⟨72, 12⟩, ⟨83, 13⟩, ⟨68, 14⟩, ⟨67, 2⟩, ⟨83, 3⟩]

theorem qka23_not_straight : Valid qka23 ∧
    (calculatePower combinationLevel powerStandard qka23).cat = .highCard := by
  have hv : Valid qka23 := valid_of_distinct _ rfl (by decide) (by decide) (by decide)
  exact ⟨hv, by rw [category_correct _ _ _ hv]; decide⟩

end C03

end Pokerface.Small

section Axioms
open Pokerface.Small
#print axioms join_success_seat_was_empty
#print axioms join_any_success_seat_was_free
#print axioms explicit_join_takes_reserved_seat
#print axioms not_join_success_seat_was_unreserved
#print axioms run_no_wrap
#print axioms run_wheel
#print axioms run_ace_and_deuce_iff
#print axioms run_ace_iff
#print axioms ace_low_only_wheel
#print axioms straight_with_ace_and_deuce_is_wheel
#print axioms qka23_not_straight
end Axioms
