import Pokerface.Proofs.EngineOpens
import Pokerface.Properties.C04
import Pokerface.Properties.C05
import Pokerface.Properties.C13
/-
  C05Opens — WHEN a betting round opens (complement of C05 "a betting round closes exactly when it should" and of
  C04 "who acts first", whose theorems `first_preflop` / `first_postflop` carry the hypothesis `hopen`: "the
  `ReadyForAll` actually opens a betting round").

  Reading I5 of DESIGN §5: preflop betting opens whenever at least one player still has chips after ante and blinds;
  on later streets a betting round opens iff at least two non-folded players have chips.

  * `movable_after_forced_bets`, `preflop_opens_iff`: in terms of the CONFIGURATION — the preflop betting round opens iff
    some seat's bankroll exceeds what it was forced to post (ante + the blind it owes); otherwise the round is closed at
    once and nobody is offered anything;
  * `preflop_first_actor_unconditional`: C04 `first_preflop` with `hopen` replaced by that condition;
  * `preflop_closed_without_betting`: in the other case flop, turn and river are dealt without a betting round and the hand
    closes at showdown on a full board;
  * `postflop_ready_opens`, `postflop_opens_iff`: later streets.

  Domain: `C13.Accepted c` (ante, blinds ≥ 0 and `Start()` accepts the table), the domain of `C13.forced_path`;
  `afterForcedBets c` is the state reached by the forced path `ReadyForAll`, [`PayAnte`], [`PayBlinds`] (C13).
-/
namespace Pokerface.C05
open Pokerface Game

/-! ## Specification-level notions -/

/-- The blind a configured seat owes: that of its first position in the order bb > sb > dealer among the positions
    with a positive blind, 0 for a seat without such a position — C13's `blindOf` (reading I1) read off the
    configuration (`owed_eq_blindOf`). -/
def owed (m : Meta) (s : SeatCfg) : Int :=
  if m.blindBB > 0 ∧ s.bb then m.blindBB
  else if m.blindSB > 0 ∧ s.sb then m.blindSB
  else if m.blindDealer > 0 ∧ s.dealer then m.blindDealer
  else 0

/-- the seat's bankroll exceeds what it is forced to post: the ante plus the blind it owes -/
def CanMove (m : Meta) (s : SeatCfg) : Prop := m.ante + owed m s < s.bankroll

instance (m : Meta) (s : SeatCfg) : Decidable (CanMove m s) := by unfold CanMove; exact inferInstance

/-- the dealer as the engine caches it (game.go `addPlayer`): the last configured seat carrying the dealer position -/
def dealerSeat (c : Config) : Nat := ((c.seats.zipIdx.reverse.find? (fun x => x.1.dealer)).map (·.2)).getD 0

/-- `owed` is C13's `blindOf` for a player with the positions of the seat -/
theorem owed_eq_blindOf (m : Meta) (s : SeatCfg) (q : Player) (h1 : q.posDealer = s.dealer) (h2 : q.posSB = s.sb)
    (h3 : q.posBB = s.bb) : blindOf m q = owed m s := by
  unfold Game.blindOf owed
  rw [h1, h2, h3]

/-- in every state of the hand the engine's cached dealer is `dealerSeat` -/
theorem dealerIdx_eq_dealerSeat {c : Config} (h : C13.Accepted c) (ops : List Op) :
    ((start c).1.run ops).dealerIdx = dealerSeat c :=
  dealerIdx_of_config c h.wf h.started ops

/-! ## Before the flop -/

/-- Who can still move after the forced bets, read off the configuration: the seat `j` of the state after the forced
    path has not folded, and it has chips left iff the bankroll of the configured seat `j` exceeds its ante plus the
    blind it owes. -/
theorem seat_can_move_iff {c : Config} (h : C13.Accepted c) {j : Nat} {q : Player}
    (hq : (afterForcedBets c).players[j]? = some q) :
    ∃ s, c.seats[j]? = some s ∧ q.fold = false ∧ 0 ≤ q.stack ∧ (0 < q.stack ↔ CanMove c.opts s) := by
  obtain ⟨s, h1, h2, h3, h4, h5, h6, h7⟩ := forced_seat_movable c h.wf h.started hq
  refine ⟨s, h1, h5, h6, ?_⟩
  unfold CanMove
  rw [← owed_eq_blindOf c.opts s q h2 h3 h4]
  exact h7

/-- `GetMovablePlayerCount()` after the forced bets is the number of configured seats whose bankroll exceeds ante +
    blind owed. -/
theorem movable_after_forced_bets {c : Config} (h : C13.Accepted c) :
    (afterForcedBets c).movableCount = (c.seats.filter fun s => decide (CanMove c.opts s)).length := by
  apply movableCount_of_pointwise
  · have := afterForcedBets_n c h.started
    simpa [Game.n] using this
  · intro j q s hq hs
    obtain ⟨s', hs', hf, h0, hiff⟩ := seat_can_move_iff h hq
    rw [hs] at hs'
    cases hs'
    rw [hf]
    by_cases hc : CanMove c.opts s
    · have := hiff.mpr hc
      have hne : ¬ q.stack = 0 := by omega
      simp [hc, hne]
    · have : ¬ 0 < q.stack := fun hp => hc (hiff.mp hp)
      have he : q.stack = 0 := by omega
      simp [hc, he]

/-- … hence somebody can move iff some seat's bankroll exceeds what it was forced to post -/
theorem movable_ne_zero_iff {c : Config} (h : C13.Accepted c) :
    (afterForcedBets c).movableCount ≠ 0 ↔ ∃ s ∈ c.seats, CanMove c.opts s := by
  rw [movable_after_forced_bets h]
  constructor
  · intro hne
    cases hl : c.seats.filter fun s => decide (CanMove c.opts s) with
    | nil => rw [hl] at hne; exact absurd rfl hne
    | cons s _ =>
      have : s ∈ c.seats.filter fun s => decide (CanMove c.opts s) := by rw [hl]; simp
      rw [List.mem_filter] at this
      exact ⟨s, this.1, by simpa using this.2⟩
  · rintro ⟨s, hs, hc⟩ h0
    rw [List.length_eq_zero_iff] at h0
    have : s ∈ c.seats.filter fun s => decide (CanMove c.opts s) := List.mem_filter.mpr ⟨hs, by simpa using hc⟩
    rw [h0] at this
    cases this

/-- the state after the forced bets: everybody is still in the hand (`GetAlivePlayerCount()` = number of seats ≥ 2) -/
theorem all_alive_after_forced_bets {c : Config} (h : C13.Accepted c) :
    (∀ p ∈ (afterForcedBets c).players, p.fold = false) ∧ (afterForcedBets c).aliveCount = c.seats.length ∧
    2 ≤ c.seats.length := by
  have hn := noFold_afterForcedBets c h.started
  exact ⟨hn, by rw [hn.alive, afterForcedBets_n c h.started], h.facts.1⟩

/-- The same on the STATE (what the engine tests): the `ReadyForAll` after the forced bets opens the preflop betting round
    iff `GetMovablePlayerCount() ≠ 0`. -/
theorem preflop_opens_iff_movable {c : Config} (h : C13.Accepted c) :
    ((afterForcedBets c).step .ready).1.event = .roundStarted ↔ (afterForcedBets c).movableCount ≠ 0 := by
  obtain ⟨_, _, _, _, ⟨hev, hrd⟩, _, hreach⟩ := C13.forced_path h
  obtain ⟨_, hal, h2⟩ := all_alive_after_forced_bets h
  exact (ready_opens_iff _ (inv_reachable hreach).struct hev (by rw [hrd]; simp) (by omega)).1

/-- **Reading I5, preflop.**  For every accepted configuration, after the forced path (`ReadyForAll`, `PayAnte` iff ante > 0,
    `PayBlinds` iff some blind > 0) the next `ReadyForAll` is accepted, stays in the preflop round, and
    * leads to `RoundStarted` — the preflop betting round opens — IFF some seat's bankroll exceeds what it was forced to
      post (ante + the blind it owes, `CanMove`), i.e. iff at least one player still has chips;
    * otherwise (everybody is all-in from ante and blinds) leads to `RoundClosed` with nobody offered anything and nobody
      able to move.
    The state reached is reachable, so all theorems about reachable states apply to it. -/
theorem preflop_opens_iff {c : Config} (h : C13.Accepted c) :
    ((afterForcedBets c).step .ready).2 = none ∧
    ((afterForcedBets c).step .ready).1.round = .preflop ∧
    (((afterForcedBets c).step .ready).1.event = .roundStarted ↔ ∃ s ∈ c.seats, CanMove c.opts s) ∧
    ((∀ s ∈ c.seats, ¬ CanMove c.opts s) →
      ((afterForcedBets c).step .ready).1.event = .roundClosed ∧
      (∀ p ∈ ((afterForcedBets c).step .ready).1.players, p.allowed = []) ∧
      ((afterForcedBets c).step .ready).1.movableCount = 0) ∧
    Reachable ((afterForcedBets c).step .ready).1 := by
  obtain ⟨_, _, _, _, ⟨hev, hrd⟩, _, hreach⟩ := C13.forced_path h
  obtain ⟨_, hal, h2⟩ := all_alive_after_forced_bets h
  have hrn : (afterForcedBets c).round ≠ .none := by rw [hrd]; simp
  obtain ⟨hmv, _, hround⟩ := ready_postflop _ hev hrn
  refine ⟨ready_accepted _ hev, by rw [hround, hrd], ?_, ?_, hreach.step _⟩
  · rw [preflop_opens_iff_movable h, movable_ne_zero_iff h]
  · intro hnone
    have h0 : (afterForcedBets c).movableCount = 0 := by
      apply Classical.byContradiction
      intro hne
      obtain ⟨s, hs, hc⟩ := (movable_ne_zero_iff h).mp hne
      exact hnone s hs hc
    have hc := (ready_opens_iff _ (inv_reachable hreach).struct hev hrn (by omega)).2 h0 hrd
    refine ⟨hc, ?_, by rw [hmv]; exact h0⟩
    exact (C04.one_actor (hreach.step _)).2 (by rw [hc]; simp)

/-- **C04 `first_preflop` without `hopen`.**  When some seat's bankroll exceeds ante + the blind it owes, the `ReadyForAll`
    after the forced bets opens the preflop betting round and the first seat asked is the one left of the big blind —
    the big blind being the first seat with that position met walking clockwise from the dealer (`j + 1` seats away,
    `j < n`; `hbb`, `hno`, stated on the configured seats).  Exactly that seat is offered actions (`C04.one_actor`
    on the reachable state). -/
theorem preflop_first_actor_unconditional {c : Config} (h : C13.Accepted c) (j : Nat) (hj : j < c.seats.length)
    (hbb : (c.seats[cwIter c.seats.length (j + 1) (dealerSeat c)]?).map (·.bb) = some true)
    (hno : ∀ j' < j, (c.seats[cwIter c.seats.length (j' + 1) (dealerSeat c)]?).map (·.bb) = some false)
    (hmove : ∃ s ∈ c.seats, CanMove c.opts s) :
    ((afterForcedBets c).step .ready).1.event = .roundStarted ∧
    ((afterForcedBets c).step .ready).1.cur = cwNext c.seats.length (cwIter c.seats.length (j + 1) (dealerSeat c)) ∧
    Reachable ((afterForcedBets c).step .ready).1 := by
  obtain ⟨_, _, _, _, ⟨hev, hrd⟩, hrun, hreach⟩ := C13.forced_path h
  have hopen := (preflop_opens_iff h).2.2.1.mpr hmove
  have hn := afterForcedBets_n c h.started
  have hd : (afterForcedBets c).dealerIdx = dealerSeat c := by rw [hrun]; exact dealerIdx_eq_dealerSeat h _
  have hpos : ∀ k : Nat, Option.map Player.posBB ((afterForcedBets c).players[k]?) = Option.map SeatCfg.bb (c.seats[k]?) := by
    intro k
    cases hq : (afterForcedBets c).players[k]? with
    | none =>
      have : c.seats[k]? = none := by
        rw [List.getElem?_eq_none_iff] at hq ⊢
        simp only [Game.n] at hn; omega
      rw [this]; rfl
    | some q =>
      obtain ⟨s, hs, _, _, _, hb, _⟩ := (C13.seats_kept h).2 k q hq
      rw [hs, Option.map_some, Option.map_some, hb]
  have hcur := C04.first_preflop hreach hev hrd j (by rw [hn]; exact hj)
    (by rw [hn, hd, hpos]; exact hbb) (fun j' hj' => by rw [hn, hd, hpos]; exact hno j' hj') hopen
  rw [hn, hd] at hcur
  exact ⟨hopen, hcur, hreach.step _⟩

/-- **No more betting.**  From a closed preflop round with at least two players left of whom at most one has chips, every
    later street is dealt by `Next` without a betting round — each `Next` is accepted and ends in `RoundClosed` on the flop,
    the turn, the river, and in none of these states anybody is offered anything — and the fourth `Next` closes the hand
    (`GameClosed`) with the same players still in: a showdown, on a full five-card board when the deck holds `n·hole + 8`
    cards (the hypothesis of `C05.full_board_at_showdown`).  (`streets_without_betting` iterated.) -/
theorem no_more_betting {g : Game} (h : Reachable g) (he : g.event = .roundClosed) (hr : g.round = .preflop)
    (h2 : 2 ≤ g.aliveCount) (hm : g.movableCount ≤ 1) :
    ((g.step .next).2 = none ∧ (g.run [.next]).event = .roundClosed ∧ (g.run [.next]).round = .flop) ∧
    (((g.run [.next]).step .next).2 = none ∧ (g.run [.next, .next]).event = .roundClosed ∧
      (g.run [.next, .next]).round = .turn) ∧
    (((g.run [.next, .next]).step .next).2 = none ∧ (g.run [.next, .next, .next]).event = .roundClosed ∧
      (g.run [.next, .next, .next]).round = .river) ∧
    (((g.run [.next, .next, .next]).step .next).2 = none ∧ (g.run [.next, .next, .next, .next]).event = .gameClosed ∧
      (g.run [.next, .next, .next, .next]).aliveCount = g.aliveCount) ∧
    (∀ k ≤ 4, ∀ p ∈ (g.run (List.replicate k .next)).players, p.allowed = []) ∧
    (g.n * g.opts.holeCount + 8 ≤ g.opts.deck.length → (g.run [.next, .next, .next, .next]).board.length = 5) := by
  obtain ⟨⟨a1, c1, r1⟩, ⟨a2, c2, r2⟩, ⟨a3, c3, r3⟩, a4, e4, l4⟩ := closed_chain g ⟨he, h2, hm⟩ hr
  refine ⟨⟨a1, c1.ev, r1⟩, ⟨a2, c2.ev, r2⟩, ⟨a3, c3.ev, r3⟩, ⟨a4, e4, l4⟩, ?_, ?_⟩
  · intro k hk p hp
    refine (C04.one_actor (h.run _)).2 ?_ p hp
    have hk' : k = 0 ∨ k = 1 ∨ k = 2 ∨ k = 3 ∨ k = 4 := by omega
    rcases hk' with rfl | rfl | rfl | rfl | rfl
    · show g.event ≠ _; rw [he]; simp
    · show (g.run [.next]).event ≠ _; rw [c1.ev]; simp
    · show (g.run [.next, .next]).event ≠ _; rw [c2.ev]; simp
    · show (g.run [.next, .next, .next]).event ≠ _; rw [c3.ev]; simp
    · show (g.run [.next, .next, .next, .next]).event ≠ _; rw [e4]; simp
  · intro hdeck
    have hst := static_run g (inv_reachable h) (flow_reachable h) [.next, .next, .next, .next]
    apply full_board_at_showdown (h.run _)
    · rw [hst.1, hst.2]; exact hdeck
    · exact e4
    · rw [l4]; exact h2

/-- **The other case.**  When no seat's bankroll exceeds ante + the blind it owes (everybody is all-in from the forced
    bets), the `ReadyForAll` after the forced bets closes the preflop round at once, with everybody still in and nobody
    able to move: the hypotheses of `no_more_betting` hold, so flop, turn and river are dealt without a betting round and
    the hand closes at showdown (all `n` players) on a full board. -/
theorem preflop_closed_without_betting {c : Config} (h : C13.Accepted c) (hnone : ∀ s ∈ c.seats, ¬ CanMove c.opts s) :
    Reachable ((afterForcedBets c).step .ready).1 ∧
    ((afterForcedBets c).step .ready).1.event = .roundClosed ∧ ((afterForcedBets c).step .ready).1.round = .preflop ∧
    ((afterForcedBets c).step .ready).1.aliveCount = c.seats.length ∧ 2 ≤ c.seats.length ∧
    ((afterForcedBets c).step .ready).1.movableCount = 0 ∧
    (∀ k ≤ 2, (((afterForcedBets c).step .ready).1.run (List.replicate (k + 1) .next)).event = .roundClosed ∧
      (((afterForcedBets c).step .ready).1.run (List.replicate (k + 1) .next)).round.idx = k + 2) ∧
    (((afterForcedBets c).step .ready).1.run [.next, .next, .next, .next]).event = .gameClosed ∧
    (((afterForcedBets c).step .ready).1.run [.next, .next, .next, .next]).aliveCount = c.seats.length ∧
    (c.seats.length * c.opts.holeCount + 8 ≤ c.opts.deck.length →
      (((afterForcedBets c).step .ready).1.run [.next, .next, .next, .next]).board.length = 5) := by
  obtain ⟨_, _, _, _, ⟨hev, hrd⟩, _, hreach⟩ := C13.forced_path h
  obtain ⟨_, hal, h2⟩ := all_alive_after_forced_bets h
  obtain ⟨_, hround, _, hclosed, hreach'⟩ := preflop_opens_iff h
  obtain ⟨hc, _, hm0⟩ := hclosed hnone
  have hrn : (afterForcedBets c).round ≠ .none := by rw [hrd]; simp
  obtain ⟨_, hal', _⟩ := ready_postflop _ hev hrn
  have hst := static_step _ (inv_reachable hreach) .ready
  generalize ((afterForcedBets c).step .ready).1 = g0 at *
  have hal0 : g0.aliveCount = c.seats.length := by rw [hal', hal]
  obtain ⟨⟨_, c1, r1⟩, ⟨_, c2, r2⟩, ⟨_, c3, r3⟩, ⟨_, e4, l4⟩, _, hb⟩ :=
    no_more_betting hreach' hc hround (by rw [hal0]; exact h2) (by rw [hm0]; omega)
  refine ⟨hreach', hc, hround, hal0, h2, hm0, ?_, e4, by rw [l4, hal0], ?_⟩
  · intro k hk
    have hk' : k = 0 ∨ k = 1 ∨ k = 2 := by omega
    rcases hk' with rfl | rfl | rfl
    · exact ⟨c1, by show (g0.run [.next]).round.idx = _; rw [r1]; rfl⟩
    · exact ⟨c2, by show (g0.run [.next, .next]).round.idx = _; rw [r2]; rfl⟩
    · exact ⟨c3, by show (g0.run [.next, .next, .next]).round.idx = _; rw [r3]; rfl⟩
  · intro hdeck
    apply hb
    rw [hst.length, hst.opts, afterForcedBets_n c h.started, (forcedSpec c h.started).opts]
    exact hdeck

/-! ## Flop, turn, river -/

/-- **Converse of `no_betting_without_two_stacks`.**  On the flop, the turn and the river a state that waits for `ReadyForAll`
    always has two non-folded players with chips (C05), and the `ReadyForAll` ALWAYS opens the betting round: the event is
    `RoundStarted` and the seat left of the dealer is asked (C04 `first_postflop`, whose hypothesis `hopen` is hereby
    discharged). -/
theorem postflop_ready_opens {g : Game} (h : Reachable g) (he : g.event = .readyRequested)
    (hr : g.round = .flop ∨ g.round = .turn ∨ g.round = .river) :
    (g.step .ready).1.event = .roundStarted ∧ (g.step .ready).1.cur = cwNext g.n g.dealerIdx := by
  have h2 := (no_betting_without_two_stacks h he hr).1
  have hle := movable_le_alive g
  have hrn : g.round ≠ .none := by rcases hr with h | h | h <;> rw [h] <;> simp
  have hopen := (ready_opens_iff g (inv_reachable h).struct he hrn (by omega)).1.mpr (by omega)
  exact ⟨hopen, C04.first_postflop h he hr hopen⟩

/-- **Reading I5, later streets.**  From a closed preflop, flop or turn round with at least two players left, `Next` (deal
    the following street) and `ReadyForAll` open a betting round on that street IFF at least two non-folded players have
    chips; then the first seat asked is the one left of the dealer.  Otherwise the street is closed at once by `Next`
    (`ReadyForAll` is then refused and changes nothing), nobody is offered anything, and the next thing to do is `Next`
    again (`streets_without_betting`). -/
theorem postflop_opens_iff {g : Game} (h : Reachable g) (he : g.event = .roundClosed) (h1 : g.aliveCount ≠ 1)
    (hr : g.round = .preflop ∨ g.round = .flop ∨ g.round = .turn) :
    ((g.run [.next, .ready]).event = .roundStarted ↔ 2 ≤ g.movableCount) ∧
    (2 ≤ g.movableCount → (g.step .next).1.event = .readyRequested ∧ ((g.step .next).1.step .ready).2 = none ∧
      (g.run [.next, .ready]).cur = cwNext g.n g.dealerIdx ∧ (g.run [.next, .ready]).round.idx = g.round.idx + 1) ∧
    (g.movableCount ≤ 1 → (g.run [.next, .ready]) = (g.step .next).1 ∧ (g.step .next).1.event = .roundClosed ∧
      ∀ p ∈ (g.step .next).1.players, p.allowed = []) := by
  obtain ⟨_, hidx, hle1, hge2, hmov, _⟩ := streets_without_betting h he h1 hr
  have hreach1 := h.step .next
  have hst := static_step g (inv_reachable h) .next
  have hd : (g.step .next).1.dealerIdx = g.dealerIdx := by
    unfold Game.dealerIdx; rw [dealerIdx?_congr_static' hst.ids]
  have hrun : g.run [.next, .ready] = ((g.step .next).1.step .ready).1 := rfl
  have hopens : 2 ≤ g.movableCount → (g.step .next).1.event = .readyRequested ∧ ((g.step .next).1.step .ready).2 = none ∧
      (g.run [.next, .ready]).event = .roundStarted ∧
      (g.run [.next, .ready]).cur = cwNext g.n g.dealerIdx ∧ (g.run [.next, .ready]).round.idx = g.round.idx + 1 := by
    intro h2
    have hev := hge2 h2
    have hr' : (g.step .next).1.round = .flop ∨ (g.step .next).1.round = .turn ∨ (g.step .next).1.round = .river := by
      rcases hr with e | e | e
      · exact Or.inl ((round_of_idx _).2.1 (by rw [hidx, e]; rfl))
      · exact Or.inr (Or.inl ((round_of_idx _).2.2.1 (by rw [hidx, e]; rfl)))
      · exact Or.inr (Or.inr ((round_of_idx _).2.2.2 (by rw [hidx, e]; rfl)))
    obtain ⟨ho, hc⟩ := postflop_ready_opens hreach1 hev hr'
    have hrd := (no_betting_without_two_stacks hreach1 hev hr').2.2
    rw [hrun]
    exact ⟨hev, ready_accepted _ hev, ho, by rw [hc, hst.length, hd], by rw [hrd, hidx]⟩
  have hcloses : g.movableCount ≤ 1 → (g.run [.next, .ready]) = (g.step .next).1 ∧ (g.step .next).1.event = .roundClosed ∧
      ∀ p ∈ (g.step .next).1.players, p.allowed = [] := by
    intro hle
    have hc := hle1 hle
    have hrf := C04.ready_wrong_phase (g.step .next).1 (by rw [hc]; simp)
    refine ⟨by rw [hrun, hrf], hc, (C04.one_actor hreach1).2 (by rw [hc]; simp)⟩
  refine ⟨⟨?_, fun h2 => (hopens h2).2.2.1⟩, fun h2 => ⟨(hopens h2).1, (hopens h2).2.1, (hopens h2).2.2.2⟩, hcloses⟩
  intro hev
  apply Classical.byContradiction
  intro hlt
  obtain ⟨e1, e2, _⟩ := hcloses (by omega)
  rw [e1, e2] at hev
  cases hev

/-! ## Non-vacuity -/

theorem acc_exShort : C13.Accepted exShort := ⟨⟨⟨by decide, by decide, by decide, by decide⟩⟩, by decide⟩
theorem acc_exCfg : C13.Accepted exCfg := ⟨exWF, by decide⟩

/-- `owed`, `CanMove`, `dealerSeat` on the four-seat table `exCfg` (blinds 5/10, stacks 100, 100, 100, 30, dealer at seat 0)
    and on the heads-up table `exShort` (5 and 10 chips: both seats post all they have) -/
example : exCfg.seats.map (owed exCfg.opts) = [0, 5, 10, 0] ∧ dealerSeat exCfg = 0 ∧
    (exCfg.seats.filter fun s => decide (CanMove exCfg.opts s)).length = 4 ∧
    exShort.seats.map (owed exShort.opts) = [5, 10] ∧
    (exShort.seats.filter fun s => decide (CanMove exShort.opts s)).length = 0 := by decide

/-- `movable_after_forced_bets`, both tables, computed on the engine -/
example : (afterForcedBets exCfg).movableCount = 4 ∧ (afterForcedBets exShort).movableCount = 0 := by decide

/-- `preflop_opens_iff`, the ordinary table: some seat can move, and the round opens -/
example : (∃ s ∈ exCfg.seats, CanMove exCfg.opts s) ∧ ((afterForcedBets exCfg).step .ready).1.event = .roundStarted :=
  ⟨⟨_, List.mem_cons_self, by decide⟩, by decide⟩

/-- `preflop_opens_iff`, everybody all-in from the blinds: no seat can move, the round is closed at once and nobody is
    offered anything -/
example : (∀ s ∈ exShort.seats, ¬ CanMove exShort.opts s) ∧
    ((afterForcedBets exShort).step .ready).1.event = .roundClosed ∧
    ((afterForcedBets exShort).step .ready).1.players.map (·.allowed) = [[], []] := by decide

/-- `preflop_first_actor_unconditional` on `exCfg`: the big blind sits `j + 1 = 2` seats after the dealer, seat 3 is asked -/
example : (exCfg.seats[cwIter exCfg.seats.length (1 + 1) (dealerSeat exCfg)]?).map (·.bb) = some true ∧
    (∀ j' < 1, (exCfg.seats[cwIter exCfg.seats.length (j' + 1) (dealerSeat exCfg)]?).map (·.bb) = some false) ∧
    cwNext exCfg.seats.length (cwIter exCfg.seats.length (1 + 1) (dealerSeat exCfg)) = 3 ∧
    ((afterForcedBets exCfg).step .ready).1.cur = 3 := by decide

/-- `preflop_closed_without_betting` on `exShort`: flop, turn, river without betting, showdown on five cards -/
example : ((afterForcedBets exShort).run [.ready, .next]).event = .roundClosed ∧
    ((afterForcedBets exShort).run [.ready, .next, .next, .next]).round = .river ∧
    ((afterForcedBets exShort).run [.ready, .next, .next, .next, .next]).event = .gameClosed ∧
    ((afterForcedBets exShort).run [.ready, .next, .next, .next, .next]).board.length = 5 ∧
    exShort.seats.length * exShort.opts.holeCount + 8 ≤ exShort.opts.deck.length := by decide

/-- `no_more_betting` on `exAllin` of C05 (seats 3 and 0 all-in, the blinds fold): its hypotheses hold -/
example : let g := (start exCfg).1.run exAllin
    Reachable g ∧ g.event = .roundClosed ∧ g.round = .preflop ∧ 2 ≤ g.aliveCount ∧ g.movableCount ≤ 1 ∧
    (g.run [.next, .next, .next, .next]).event = .gameClosed :=
  ⟨⟨exCfg, _, exWF, by decide, rfl⟩, by decide⟩

/-- `postflop_ready_opens` / `postflop_opens_iff`, betting branch: everybody calls, `Next` deals the flop, `ReadyForAll` opens
    the betting round and seat 1 (left of the dealer) is asked -/
def exCalls : List Op :=
  [.ready, .payBlinds, .ready, .act none .call 0, .act none .call 0, .act none .call 0, .act none .check 0]

example : let g := (start exCfg).1.run exCalls
    Reachable g ∧ g.event = .roundClosed ∧ g.aliveCount = 4 ∧ g.round = .preflop ∧ g.movableCount = 4 ∧
    (g.run [.next, .ready]).event = .roundStarted ∧ (g.run [.next, .ready]).cur = 1 ∧
    cwNext g.n g.dealerIdx = 1 :=
  ⟨⟨exCfg, _, exWF, by decide, rfl⟩, by decide⟩

/-- `postflop_opens_iff`, the other branch: one stack left (`exOneStack` of C05): the flop is closed at once -/
example : let g := (start exCfg).1.run exOneStack
    Reachable g ∧ g.event = .roundClosed ∧ g.aliveCount = 2 ∧ g.round = .preflop ∧ g.movableCount = 1 ∧
    (g.run [.next, .ready]).event = .roundClosed ∧ (g.run [.next, .ready]).round = .flop :=
  ⟨⟨exCfg, _, exWF, by decide, rfl⟩, by decide⟩

end Pokerface.C05

section Axioms
open Pokerface.C05
#print axioms owed_eq_blindOf
#print axioms dealerIdx_eq_dealerSeat
#print axioms seat_can_move_iff
#print axioms movable_after_forced_bets
#print axioms movable_ne_zero_iff
#print axioms all_alive_after_forced_bets
#print axioms preflop_opens_iff_movable
#print axioms preflop_opens_iff
#print axioms preflop_first_actor_unconditional
#print axioms no_more_betting
#print axioms preflop_closed_without_betting
#print axioms postflop_ready_opens
#print axioms postflop_opens_iff
end Axioms
