/-
  C08, second sentence ("newcomer timing") — from ANY reachable arrival state (audit item 6).

  The existing `C08.newcomer_timing` / `newcomer_timing_interleaved` require the newcomer's `Join` to be the first
  operation after a successful `next`.  Here:
  * the arrival state `A` is any reachable state;
  * other players' operations (`Aside x T op`: not `next`, leaves seat `x` as it is — e.g. `Join`/`Leave`/`Reserve`/`Seat`
    on other seats, `Other.aside`, or refused operations) may come before the newcomer's `Join` (`pre`), between his
    `Join` and his `Seat` (`mid`), after his `Seat` (`post`), and (`newcomer_timing_hist`) between the `next`s;
  * the `Join` may be explicit (`Join(x)`) or `Join(-1)` (`newcomer_timing_any_seat`).
  The known exclusions stay explicit hypotheses, now as predicates of the state in which `next` is called:
  * D9: seat `x` is *inactive* when the newcomer arrives (`hina`; right after a `next` this follows from "empty when `next`
    ran", `newcomer_timing_after_next`);
  * D10: at least two seats are playable (`2 ≤ playableCount`);
  * D4: at most one playable seat lies strictly between the dealer and `x` (`FewBetween`; right after a `next` this holds
    for every seat in front of the big blind, and is inherited as long as nobody sits in strictly between).
  `arrive A x pre seat pid c mid post` = `A.run (pre ++ Join(seat,pid) :: mid ++ Seat(x) :: post)` (`arrive_eq_run`).
-/
import Pokerface.Proofs.ArrivalFrame
import Pokerface.Proofs.ArrivalGeneral
import Pokerface.Properties.C18

namespace Pokerface.C08A
open SM

/-- The 6-seat example of C08: players on 0, 2, 4, one hand started (dealer 0, sb 2, bb 4); seats 1 and 3 are empty and
deactivated, seat 5 is empty and active. -/
def ex0 : SM := (SM.new 6).run [.join 0 1 none, .seat 0, .join 2 2 none, .seat 2, .join 4 3 none, .seat 4, .next]

/-- **C08 "a player who takes an empty seat strictly between the dealer and the big blind is … dealt in from exactly the
first hand after the button has moved past that seat — not before, and not later", from any reachable arrival state.**

`A` is ANY reachable state with dealer `d`; seat `x`, `a` places clockwise after the dealer (`0 < a < max`), holds nobody
and is inactive in `A` (D9 exclusion: a seat vacated after the last `next` stays active).  History: `pre` (other players'
operations), the newcomer's `Join(x)`, `mid` (others), his `Seat(x)`, `post` (others), giving `T`; then `next`s.
Hypotheses on `T` (the state in which the first `next` is called): at least two playable seats (D10 exclusion) and at
most one playable seat strictly between dealer and `x` (D4 exclusion).
Conclusions: the `Join` is accepted on `x` and the `Seat` is accepted; the button passes `x` in the first or second
`next`; and for every `n` such that the button has not passed `x` in the first `n` `next`s: `x` is not dealt in in hand `n`
(not before), the `(n+1)`-th `next` succeeds, and if the button passes `x` in it, `x` is dealt in (not later). -/
theorem newcomer_timing_from (A : SM) (hA : Reachable A) (d a x : Nat) (s : Seat) (pid : Nat) (c : Option Nat)
    (pre mid post : List SMOp)
    (hd : A.dealer = some d) (ha0 : 0 < a) (ha : a < A.max) (hx : x = (d + a) % A.max)
    (hs : A.seats[x]? = some s) (hemp : s.player = none) (hina : s.active = false)
    (hpre : AsideRun x A pre)
    (hmid : AsideRun x (arriveJ A pre (x : Int) pid c) mid)
    (hpost : AsideRun x ((arriveM A pre (x : Int) pid c mid).step (.seat (x : Int))).1 post)
    (hD10 : 2 ≤ (arrive A x pre (x : Int) pid c mid post).playableCount)
    (hD4 : FewBetween (arrive A x pre (x : Int) pid c mid post) d a) :
    ((A.run pre).step (.join (x : Int) pid c)).2 = (none, some x) ∧
    ((arriveM A pre (x : Int) pid c mid).step (.seat (x : Int))).2.1 = none ∧
    (arrive A x pre (x : Int) pid c mid post).seats[x]? = some { player := some pid, active := false, reserved := false } ∧
    (Passed (arrive A x pre (x : Int) pid c mid post) x 0 ∨ Passed (arrive A x pre (x : Int) pid c mid post) x 1) ∧
    ∀ n, (∀ m, m < n → ¬ Passed (arrive A x pre (x : Int) pid c mid post) x m) →
      (nexts (arrive A x pre (x : Int) pid c mid post) n).playable x = false ∧
      ((nexts (arrive A x pre (x : Int) pid c mid post) n).step .next).2.1 = none ∧
      (Passed (arrive A x pre (x : Int) pid c mid post) x n →
        (nexts (arrive A x pre (x : Int) pid c mid post) (n + 1)).playable x = true) := by
  obtain ⟨p1, p2, p3⟩ := hpre.frame
  have hxm : x < (A.run pre).max := by rw [p2, hx]; exact Nat.mod_lt _ (by omega)
  have hj := join_explicit_accepted (p3.trans hs) hemp hxm pid c
  obtain ⟨_, _, hseat, hTx, w⟩ :=
    waiting_arrival hA.inv hd ha0 ha hx hs hina (x : Int) pid c pre mid post hpre hj hmid hpost hD10 hD4
  exact ⟨hj, hseat, hTx, waiting_passed_soon w, fun n hnp => waiting_timing w n hnp⟩

/-- Non-vacuity of `newcomer_timing_from`: on `ex0` another player joins seat 5 (`pre`), the newcomer joins seat 3, the
other player sits in on 5 (`mid`), the newcomer sits in, a `Leave(1)` on the empty seat 1 is refused (`post`).  Four
seats are then playable/occupied (0, 2, 4, 5 playable; 3 waiting); the button goes 0 → 2 → 4 and seat 3 is dealt in from
the second hand on. -/
example : ex0.dealer = some 0 ∧ ex0.seats[3]? = some { player := none, active := false, reserved := false } ∧
    (let T := arrive ex0 3 [.join 5 7 none] 3 9 none [.seat 5] [.leave 1]
     T.playableCount = 4 ∧ T.playable 3 = false ∧ (nexts T 1).dealer = some 2 ∧ (nexts T 1).playable 3 = false ∧
     (nexts T 2).dealer = some 4 ∧ (nexts T 2).playable 3 = true) := by decide
example : OtherRun 3 ex0 [.join 5 7 none] ∧ OtherRun 3 (arriveJ ex0 [.join 5 7 none] 3 9 none) [.seat 5] ∧
    OtherRun 3 ((arriveM ex0 [.join 5 7 none] 3 9 none [.seat 5]).step (.seat 3)).1 [.leave 1] := by
  refine ⟨⟨?_, trivial⟩, ⟨?_, trivial⟩, ⟨?_, trivial⟩⟩
  · show (ex0.step (.join 5 7 none)).2.2 ≠ some 3; decide
  · show (5 : Int) ≠ ((3 : Nat) : Int); decide
  · show (1 : Int) ≠ ((3 : Nat) : Int); decide
example : FewBetween (arrive ex0 3 [.join 5 7 none] 3 9 none [.seat 5] [.leave 1]) 0 3 := by
  intro j1 j2 a1 a2 a3 a4 p1 p2
  have h1 : j1 = 1 ∨ j1 = 2 := by omega
  have h2 : j2 = 1 ∨ j2 = 2 := by omega
  rcases h1 with rfl | rfl <;> rcases h2 with rfl | rfl <;>
    first | rfl | (exfalso; revert p1; decide) | (exfalso; revert p2; decide)

/-- **The same for `Join(-1)`** (the seat is chosen by the seat manager; `c` is the choice input of the model).  If the
`Join(-1, pid)` is accepted and lands on a seat `x` that satisfies the hypotheses of `newcomer_timing_from` (inactive, `a`
places after the dealer; D10 / D4 exclusions on the state `T`), the same timing holds.  In addition (by
`C18.join_any_lands`): the seat he landed on was free, and — being inactive — can only have been chosen because no active
free seat existed at that moment. -/
theorem newcomer_timing_any_seat (A : SM) (hA : Reachable A) (d a x : Nat) (s : Seat) (pid : Nat) (c : Option Nat)
    (pre mid post : List SMOp)
    (hd : A.dealer = some d) (ha0 : 0 < a) (ha : a < A.max) (hx : x = (d + a) % A.max)
    (hs : A.seats[x]? = some s) (hina : s.active = false)
    (hpre : AsideRun x A pre)
    (hj : ((A.run pre).step (.join (-1) pid c)).2 = (none, some x))
    (hmid : AsideRun x (arriveJ A pre (-1) pid c) mid)
    (hpost : AsideRun x ((arriveM A pre (-1) pid c mid).step (.seat (x : Int))).1 post)
    (hD10 : 2 ≤ (arrive A x pre (-1) pid c mid post).playableCount)
    (hD4 : FewBetween (arrive A x pre (-1) pid c mid post) d a) :
    (s.player = none ∧ s.reserved = false ∧ ∀ j, ¬ FreeActive (A.run pre) j) ∧
    ((arriveM A pre (-1) pid c mid).step (.seat (x : Int))).2.1 = none ∧
    (arrive A x pre (-1) pid c mid post).seats[x]? = some { player := some pid, active := false, reserved := false } ∧
    (Passed (arrive A x pre (-1) pid c mid post) x 0 ∨ Passed (arrive A x pre (-1) pid c mid post) x 1) ∧
    ∀ n, (∀ m, m < n → ¬ Passed (arrive A x pre (-1) pid c mid post) x m) →
      (nexts (arrive A x pre (-1) pid c mid post) n).playable x = false ∧
      ((nexts (arrive A x pre (-1) pid c mid post) n).step .next).2.1 = none ∧
      (Passed (arrive A x pre (-1) pid c mid post) x n →
        (nexts (arrive A x pre (-1) pid c mid post) (n + 1)).playable x = true) := by
  obtain ⟨hemp, _, hseat, hTx, w⟩ :=
    waiting_arrival hA.inv hd ha0 ha hx hs hina (-1) pid c pre mid post hpre hj hmid hpost hD10 hD4
  refine ⟨?_, hseat, hTx, waiting_passed_soon w, fun n hnp => waiting_timing w n hnp⟩
  obtain ⟨_, _, p3⟩ := hpre.frame
  have hA1 : Reachable (A.run pre) := by
    obtain ⟨m, ops, he⟩ := hA
    exact ⟨m, ops ++ pre, by rw [he, run_append]⟩
  have hfree : ∃ i, Free (A.run pre) i := by
    by_contra hno
    have := (C18.join_any_none_iff (A.run pre) hA1 pid c).2 (fun i hi => hno ⟨i, hi⟩)
    rw [this] at hj; cases hj
  rcases C18.join_any_lands (A.run pre) hA1 pid c hfree with hb | ⟨i, s', h1, h2, h3, h4, he⟩
  · rw [hb] at hj; cases hj
  · rw [he] at hj
    simp only [Prod.mk.injEq, Option.some.injEq, true_and] at hj
    subst hj
    rw [p3, hs] at h1; cases h1
    refine ⟨h2, h3, ?_⟩
    rcases h4 with h4 | h4
    · rw [hina] at h4; cases h4
    · exact h4

/-- Non-vacuity of `newcomer_timing_any_seat`: on `ex0` with seat 5 taken by another player first (`pre`; then no active
free seat is left), `Join(-1)` with choice 3 lands on the inactive seat 3; dealt in from the second hand on. -/
example : ((ex0.run [.join 5 7 none, .seat 5]).step (.join (-1) 9 (some 3))).2 = (none, some 3) ∧
    (let T := arrive ex0 3 [.join 5 7 none, .seat 5] (-1) 9 (some 3) [] []
     T.playableCount = 4 ∧ T.playable 3 = false ∧ (nexts T 1).dealer = some 2 ∧ (nexts T 1).playable 3 = false ∧
     (nexts T 2).dealer = some 4 ∧ (nexts T 2).playable 3 = true) := by decide
example : OtherRun 3 ex0 [.join 5 7 none, .seat 5] := by
  refine ⟨?_, ?_, trivial⟩
  · show (ex0.step (.join 5 7 none)).2.2 ≠ some 3; decide
  · show (5 : Int) ≠ ((3 : Nat) : Int); decide

/-- **From a reachable post-`Next` state, with other players' operations around the newcomer's `Join` and `Seat`.**
Setting of `C08.newcomer_timing`: `S0 = (sm.step .next).1` right after a successful `next` from a reachable state, dealer
`d`, big blind `b`, seat `x` strictly between them and empty in `S0` (D9 exclusion).  But now other players' operations
`pre`, `mid`, `post` (asides for `x`) surround the newcomer's `Join(x)` and `Seat(x)`.  Exclusions, on the state `T` in
which the following `next` is called: at least two playable seats (D10), and no seat strictly between the dealer and `x`
has become playable since `S0` (D4: nobody sat in between).  Same conclusions. -/
theorem newcomer_timing_after_next (sm : SM) (h : Reachable sm) (hok : (sm.step .next).2.1 = none)
    (d b x : Nat) (s : Seat) (pid : Nat) (c : Option Nat) (pre mid post : List SMOp)
    (hd : (sm.step .next).1.dealer = some d) (hb : (sm.step .next).1.bb = some b)
    (hx : StrictlyBetween (sm.step .next).1.max d x b)
    (hs : (sm.step .next).1.seats[x]? = some s) (hemp : s.player = none)
    (hpre : AsideRun x (sm.step .next).1 pre)
    (hmid : AsideRun x (arriveJ (sm.step .next).1 pre (x : Int) pid c) mid)
    (hpost : AsideRun x ((arriveM (sm.step .next).1 pre (x : Int) pid c mid).step (.seat (x : Int))).1 post)
    (hD10 : 2 ≤ (arrive (sm.step .next).1 x pre (x : Int) pid c mid post).playableCount)
    (hD4 : ∀ y, StrictlyBetween (sm.step .next).1.max d y x →
      (arrive (sm.step .next).1 x pre (x : Int) pid c mid post).playable y = true →
      (sm.step .next).1.playable y = true) :
    ∃ T, T = arrive (sm.step .next).1 x pre (x : Int) pid c mid post ∧
      (T.seats[x]? = some { player := some pid, active := false, reserved := false }) ∧
      (Passed T x 0 ∨ Passed T x 1) ∧
      ∀ n, (∀ m, m < n → ¬ Passed T x m) →
        (nexts T n).playable x = false ∧ ((nexts T n).step .next).2.1 = none ∧
        (Passed T x n → (nexts T (n + 1)).playable x = true) := by
  obtain ⟨d', ks, kb, hn⟩ := next_ok h.inv hok
  have hdd : d' = d := by have := hn.dealer; rw [hd] at this; cases this; rfl
  subst hdd
  have hbb : b = (d' + kb) % sm.max := by have := hn.bb; rw [hb] at this; cases this; rfl
  obtain ⟨a, b', ha0, hab, hb'm, hxa, hbe⟩ := hx
  rw [hn.max_eq] at hb'm hxa hbe
  have hkb : b' = kb := offset_inj hb'm hn.kb_lt (hbe.symm.trans hbb)
  subst hkb
  subst hxa
  have hina := inactive_after_next hn hab hs hemp
  have hTmax : (arrive (sm.step .next).1 ((d' + a) % sm.max) pre (((d' + a) % sm.max : Nat) : Int) pid c mid post).max
      = (sm.step .next).1.max := by
    exact (arrive_max_dealer hpre hmid hpost).1
  have hfew : FewBetween (arrive (sm.step .next).1 ((d' + a) % sm.max) pre (((d' + a) % sm.max : Nat) : Int) pid c mid post)
      d' a := by
    refine (fewBetween_after_next hn hab).mono hTmax ?_
    intro j hj1 hj2 hp
    apply hD4 _ ?_ hp
    rw [hn.max_eq]
    exact ⟨j, a, hj1, hj2, by omega, hn.max_eq ▸ rfl, rfl⟩
  obtain ⟨_, _, hTx, hsoon, htim⟩ := newcomer_timing_from (sm.step .next).1 (h.step .next) d' a _ s pid c pre mid post
    hn.dealer ha0 (by rw [hn.max_eq]; omega) (by rw [hn.max_eq]) hs hemp hina hpre hmid hpost hD10 hfew
  exact ⟨_, rfl, hTx, hsoon, htim⟩


/-- Non-vacuity of `newcomer_timing_after_next`: `ex0` is the state right after a successful `next` (dealer 0, big blind
4, seat 3 empty and strictly between); with the same `pre`/`mid`/`post` as above no seat strictly between the dealer and
seat 3 (seats 1, 2) has become playable. -/
example : let sm := (SM.new 6).run [.join 0 1 none, .seat 0, .join 2 2 none, .seat 2, .join 4 3 none, .seat 4]
    (sm.step .next).2.1 = none ∧ (sm.step .next).1 = ex0 ∧ ex0.dealer = some 0 ∧ ex0.bb = some 4 ∧
    2 ≤ (arrive ex0 3 [.join 5 7 none] 3 9 none [.seat 5] [.leave 1]).playableCount := by decide
example : ∀ y, StrictlyBetween ex0.max 0 y 3 →
    (arrive ex0 3 [.join 5 7 none] 3 9 none [.seat 5] [.leave 1]).playable y = true → ex0.playable y = true := by
  rintro y ⟨a, b, h1, h2, h3, rfl, h5⟩ hp
  have hm : ex0.max = 6 := by decide
  rw [hm] at h3 h5 hp ⊢
  have ha : a = 1 ∨ a = 2 := by omega
  rcases ha with rfl | rfl
  · revert hp; decide
  · decide

/-- **Other players' operations between the `next`s as well.**  From the arrival state `T` of `newcomer_timing_from`
(any state in which the newcomer is `Waiting`), consider the history `seg₁; next; seg₂; next; …` where every `segᵢ` is
a list of other players' operations (asides for `x`).  If the history is `Calm` — every `next` up to the one in which the
button passes `x` is called in a state with at least two playable seats (D10) and at most one playable seat strictly
between the dealer and `x` (D4) — then (`Timing`): before each such `next` seat `x` is not playable, the `next` succeeds,
and in the new hand `x` is playable **iff** the button passed `x` in that `next`. -/
theorem newcomer_timing_hist {T : SM} {x d a : Nat} (w : Waiting T x d a) (segs : List (List SMOp))
    (hc : Calm x T segs) : Timing x T segs :=
  waiting_timing_hist w hc


/-- `newcomer_timing_from` / `newcomer_timing_any_seat` and `newcomer_timing_hist` combined, without the helper predicate
`Waiting`: arrival in any reachable state `A` by a `Join` (explicit seat or `-1`) accepted on the inactive seat `x`
(`pre`, `mid`, `post` other players' operations), then ANY calm history `seg₁; next; seg₂; next; …` of other players'
operations and `next`s: not dealt in before the button passes `x`, every such `next` succeeds, dealt in in the hand in
which it passes.  (`hD10`, `hD4` are the exclusions for the arrival state itself; `Calm` carries them for each `next`.) -/
theorem newcomer_timing_from_hist (A : SM) (hA : Reachable A) (d a x : Nat) (s : Seat) (seat : Int) (pid : Nat)
    (c : Option Nat) (pre mid post : List SMOp)
    (hd : A.dealer = some d) (ha0 : 0 < a) (ha : a < A.max) (hx : x = (d + a) % A.max)
    (hs : A.seats[x]? = some s) (hina : s.active = false)
    (hpre : AsideRun x A pre)
    (hj : ((A.run pre).step (.join seat pid c)).2 = (none, some x))
    (hmid : AsideRun x (arriveJ A pre seat pid c) mid)
    (hpost : AsideRun x ((arriveM A pre seat pid c mid).step (.seat (x : Int))).1 post)
    (hD10 : 2 ≤ (arrive A x pre seat pid c mid post).playableCount)
    (hD4 : FewBetween (arrive A x pre seat pid c mid post) d a)
    (segs : List (List SMOp)) (hc : Calm x (arrive A x pre seat pid c mid post) segs) :
    Timing x (arrive A x pre seat pid c mid post) segs := by
  obtain ⟨_, _, _, _, w⟩ :=
    waiting_arrival hA.inv hd ha0 ha hx hs hina seat pid c pre mid post hpre hj hmid hpost hD10 hD4
  exact waiting_timing_hist w hc

/-- Non-vacuity of `newcomer_timing_hist` / `newcomer_timing_from_hist`: the newcomer waits on seat 3 of `ex0` (`T`); history: another player joins
seat 5; `next` (button 0 → 2, not past seat 3); that player sits in on 5; `next` (button 2 → 4, past seat 3).  The history
is calm, and (`Timing`, evaluated) seat 3 is not playable in the first new hand and playable in the second. -/
example : let T := arrive ex0 3 [] 3 9 none [] []
    Calm 3 T [[.join 5 7 none], [.seat 5]] ∧
    (((T.run [.join 5 7 none]).step .next).1.playable 3 = false ∧
     ((((T.run [.join 5 7 none]).step .next).1.run [.seat 5]).step .next).1.playable 3 = true) := by
  intro T
  have hfew0 : ∀ U : SM, U.max = 6 → U.playable 1 = false → FewBetween U 0 3 := by
    intro U hm h1 j1 j2 a1 a2 a3 a4 p1 p2
    rw [hm] at p1 p2
    have e1 : j1 = 1 ∨ j1 = 2 := by omega
    have e2 : j2 = 1 ∨ j2 = 2 := by omega
    rcases e1 with rfl | rfl <;> rcases e2 with rfl | rfl <;>
      first | rfl | (exfalso; rw [h1] at p1; cases p1) | (exfalso; rw [h1] at p2; cases p2)
  refine ⟨⟨⟨Other.aside (by show (T.step (.join 5 7 none)).2.2 ≠ some 3; decide), trivial⟩, ⟨by decide, ?_⟩, fun _ =>
    ⟨⟨Other.aside (by show (5 : Int) ≠ ((3 : Nat) : Int); decide), trivial⟩, ⟨by decide, ?_⟩, fun _ => trivial⟩⟩, by decide⟩
  · intro d a hd h0 ha hx
    have hd0 : (T.run [.join 5 7 none]).dealer = some 0 := by decide
    have hm : (T.run [.join 5 7 none]).max = 6 := by decide
    rw [hd0] at hd; cases hd
    rw [hm] at ha hx
    have : a = 3 := by omega
    subst this
    exact hfew0 _ hm (by decide)
  · intro d a hd h0 ha hx
    have hd0 : ((((T.run [.join 5 7 none]).step .next).1).run [.seat 5]).dealer = some 2 := by decide
    have hm : ((((T.run [.join 5 7 none]).step .next).1).run [.seat 5]).max = 6 := by decide
    rw [hd0] at hd; cases hd
    rw [hm] at ha hx
    have : a = 1 := by omega
    subst this
    intro j1 j2 a1 a2; omega

/-- **Newcomer timing for ANY interleaving** (audit note (iii): history shape).  `A` any reachable state (so whatever
other players did before is included), dealer `d`, seat `x` `a` places after him, inactive (D9 exclusion).  The newcomer's
`Join` (explicit seat or `-1`) is accepted on `x`.  Then ANY list `ops` of operations such that each one is (`Quiet`)
* an aside: another player's operation, or a refused one — anything but `next` that leaves seat `x` as it is;
* the newcomer's own `Seat(x)` (at any moment: before, between or after the `next`s; repeated or not);
* a `next`, called in a state with at least two playable seats (D10 exclusion) and — while seat `x` is still inactive —
  at most one playable seat strictly between the dealer and `x` (D4 exclusion) (`ExclN`).
Conclusion `Track x J false False ops`: with the ghost state `sat` (a `Seat(x)` has happened) and `passed` (some `next` so
far moved the button past `x`, `PassedStep`), at EVERY point of the history seat `x` is playable (dealt in) **iff**
`sat ∧ passed`; every `next` succeeds; every `Seat(x)` is accepted.  So he is not dealt in before the button has passed
(and he has sat in), and is dealt in from the first hand after both on. -/
theorem newcomer_timing_general (A : SM) (hA : Reachable A) (d a x : Nat) (s : Seat) (seat : Int) (pid : Nat)
    (c : Option Nat) (hd : A.dealer = some d) (ha0 : 0 < a) (ha : a < A.max) (hx : x = (d + a) % A.max)
    (hs : A.seats[x]? = some s) (hina : s.active = false)
    (hj : (A.step (.join seat pid c)).2 = (none, some x))
    (ops : List SMOp) (hq : QuietRun x (A.step (.join seat pid c)).1 ops) :
    Track x (A.step (.join seat pid c)).1 false False ops :=
  track_of_phase (phase_after_join hA.inv hd ha0 ha hx hs hina seat pid c hj) hq

/-- Non-vacuity of `newcomer_timing_general`: on `ex0` the newcomer joins seat 3; then `next` (button 0 → 2) while he is
only reserved, another player joins seat 5, the newcomer sits in, the other sits in, `next` (button 2 → 4, past seat 3).
The history is quiet; seat 3 is not playable before the last `next` and playable after it. -/
example : let J := (ex0.step (.join 3 9 none)).1
    (ex0.step (.join 3 9 none)).2 = (none, some 3) ∧
    QuietRun 3 J [.next, .join 5 7 none, .seat 3, .seat 5, .next] ∧
    (J.run [.next, .join 5 7 none, .seat 3, .seat 5]).playable 3 = false ∧
    (J.run [.next, .join 5 7 none, .seat 3, .seat 5, .next]).playable 3 = true := by
  intro J
  have excl : ∀ U : SM, U.max = 6 → 2 ≤ U.playableCount → U.playable 1 = false →
      (U.dealer = some 0 ∨ U.dealer = some 2) → ExclN U 3 := by
    intro U hm hc h1 hd
    refine ⟨hc, ?_⟩
    intro d a sx hd' h0 ha hx _ _
    rw [hm] at ha hx
    rcases hd with hd | hd <;> rw [hd] at hd' <;> cases hd'
    · have : a = 3 := by omega
      subst this
      intro j1 j2 a1 a2 a3 a4 p1 p2
      rw [hm] at p1 p2
      have e1 : j1 = 1 ∨ j1 = 2 := by omega
      have e2 : j2 = 1 ∨ j2 = 2 := by omega
      rcases e1 with rfl | rfl <;> rcases e2 with rfl | rfl <;>
        first | rfl | (exfalso; rw [h1] at p1; cases p1) | (exfalso; rw [h1] at p2; cases p2)
    · have : a = 1 := by omega
      subst this
      intro j1 j2 a1 a2; omega
  refine ⟨by decide, ⟨Or.inl ⟨rfl, excl _ (by decide) (by decide) (by decide) (Or.inl (by decide))⟩,
    Or.inr (Or.inr (Other.aside (by show (_ : SM × Option SMErr × Option Nat).2.2 ≠ some 3; decide))),
    Or.inr (Or.inl rfl),
    Or.inr (Or.inr (Other.aside (by show (5 : Int) ≠ ((3 : Nat) : Int); decide))),
    Or.inl ⟨rfl, excl _ (by decide) (by decide) (by decide) (Or.inr (by decide))⟩, trivial⟩, by decide, by decide⟩

end Pokerface.C08A
