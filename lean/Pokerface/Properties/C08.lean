/-
  C08 — "Dealer, small blind and big blind always land on the right seats".

  Statements about the model `Pokerface.SM` of `seat_manager/seat_manager.go`, on the post-state
  `sm' = (sm.step .next).1` of a successful `next` (`(sm.step .next).2.1 = none`) from any reachable state `sm`.
  `playable i` = occupied, active, not reserved.  `IsNextAfter sm' d e` = `e` is the first playable seat of `sm'`
  clockwise strictly after `d` (see C17).  `sm.nextDealer.1` is the intermediate state after the Go function
  `nextDealer` and before `renewSeatStatus`.  `NoWaiting t` = no seat of `t` is occupied, non-reserved and inactive.
  For the second sentence: `StrictlyBetween m d x e` = `x = (d+a) % m`, `e = (d+b) % m` for some `0 < a < b < m`
  (`x` strictly between `d` and `e` clockwise); `nexts T n` = `T` after `n` further `next` operations (and nothing
  else: "other players staying put"); `Passed T x n` = in the `(n+1)`-th of these the button passes `x`, i.e. `x` is
  strictly between the dealer of `nexts T n` and the dealer of `nexts T (n+1)`.
  For the interleaved form of the second sentence (`newcomer_timing_interleaved`, Proofs/SMGapsNewcomer.lean): with `J`
  the state right after the newcomer's `Join(x)` and `k` the number of hands started before he sits in,
  `nhand J x k n` = the state at the start of hand `n`, i.e. right after the `n`-th `next` of the history
  `Join(x); next^k; Seat(x); next^…` (`nhand_eq_run` spells it out as one `run`; `n = 0` is `J`);
  `npre J x k n` = the state in which the `(n+1)`-th `next` is called (= `nhand … n`, after the `Seat(x)` when `n = k`);
  `PassedN J x k n` = in the `(n+1)`-th `next` the button passes `x` (as `Passed`, over `nhand`).
-/
import Pokerface.Proofs.SMNewcomer
import Pokerface.Proofs.SMGapsNewcomer

namespace Pokerface.C08
open SM

/-! ## First sentence -/

/-- **"dealer, small blind and big blind sit on occupied, active, non-reserved seats"** after every successful `next`. -/
theorem positions_playable (sm : SM) (h : Reachable sm) (hok : (sm.step .next).2.1 = none) :
    ∃ d s b, (sm.step .next).1.dealer = some d ∧ (sm.step .next).1.sb = some s ∧ (sm.step .next).1.bb = some b ∧
      (sm.step .next).1.playable d = true ∧ (sm.step .next).1.playable s = true ∧
      (sm.step .next).1.playable b = true := by
  obtain ⟨d, ks, kb, hn⟩ := next_ok h.inv hok
  exact ⟨d, _, _, hn.dealer, hn.sb, hn.bb, hn.playable_dealer, hn.playable_sb, hn.playable_bb⟩

/-- **"with exactly two such seats the dealer is the small blind and the other player the big blind"** — holds in
full: if the post-state has exactly two playable seats then `sb = dealer`, `bb ≠ dealer`, and every playable seat
is the dealer's or the big blind's. -/
theorem heads_up_layout (sm : SM) (h : Reachable sm) (hok : (sm.step .next).2.1 = none)
    (h2 : (sm.step .next).1.playableCount = 2) :
    ∃ d b, (sm.step .next).1.dealer = some d ∧ (sm.step .next).1.sb = some d ∧ (sm.step .next).1.bb = some b ∧
      b ≠ d ∧ ∀ i, (sm.step .next).1.playable i = true → i = d ∨ i = b := by
  obtain ⟨d, ks, kb, hn⟩ := next_ok h.inv hok
  have hle := hn.count_le h.inv
  have hks : ks = 0 := by
    rcases hn.branch with ⟨_, h0⟩ | ⟨hne, _⟩
    · exact h0
    · have := hn.mid_count; omega
  have hsb := hn.sb
  rw [hks, hn.offset_zero] at hsb
  have hbd : (d + kb) % sm.max ≠ d := by
    intro he
    have := offset_inj hn.kb_lt (by have := hn.kb_lt; omega : 0 < sm.max) (he.trans hn.offset_zero.symm)
    have := hn.ks_lt; omega
  have hinv' : Inv (sm.step .next).1 := step_inv h.inv .next
  refine ⟨d, _, hn.dealer, hsb, hn.bb, hbd, ?_⟩
  intro i hi
  exact playable_two hinv'.wf h2 hn.playable_dealer hn.playable_bb (Ne.symm hbd) hi

/-- Non-vacuity of `positions_playable` / `heads_up_layout`: two seated players on a 4-seat table. -/
example : let sm := (SM.new 4).run [.join 3 1 none, .seat 3, .join 1 2 none, .seat 1]
    (sm.step .next).2.1 = none ∧ (sm.step .next).1.playableCount = 2 ∧
    (sm.step .next).1.dealer = some 1 ∧ (sm.step .next).1.sb = some 1 ∧ (sm.step .next).1.bb = some 3 := by decide

/-- **"with three or more the small blind is the first such seat clockwise from the dealer and the big blind the
first after the small blind"** — the FULL statement.  It is *false* of the model (and of the Go code): see
`ring_layout_false` (known finding D4). -/
def ring_layout : Prop :=
  ∀ sm : SM, Reachable sm → (sm.step .next).2.1 = none → 3 ≤ (sm.step .next).1.playableCount →
    ∃ d s b, (sm.step .next).1.dealer = some d ∧ (sm.step .next).1.sb = some s ∧ (sm.step .next).1.bb = some b ∧
      IsNextAfter (sm.step .next).1 d s ∧ IsNextAfter (sm.step .next).1 s b

/-- The D4 history of `known_findings.json` up to (not including) its last `next`. -/
def d4pre : SM :=
  (SM.new 6).run [.join 0 1 none, .seat 0, .join 1 2 none, .seat 1, .join 4 3 none, .seat 4, .join 2 4 none, .next,
    .join 3 5 none, .seat 3, .leave 0, .leave 4, .seat 2]

/-- **D4 witness, kernel-checked.** After the last `next` of the D4 history three seats (1, 2, 3) are playable and
yet the heads-up layout was chosen: dealer = small blind = seat 1, big blind = seat 2.  (Seat 3 holds a newcomer
who was occupied, non-reserved and inactive when `renewSeatStatus` counted two playable seats, and who is
activated by the same call because he sits behind the new big blind.) -/
theorem d4_witness :
    (d4pre.step .next).2.1 = none ∧ (d4pre.step .next).1.playableCount = 3 ∧
    (d4pre.step .next).1.dealer = some 1 ∧ (d4pre.step .next).1.sb = some 1 ∧ (d4pre.step .next).1.bb = some 2 ∧
    (d4pre.step .next).1.playable 1 = true ∧ (d4pre.step .next).1.playable 2 = true ∧
    (d4pre.step .next).1.playable 3 = true := by decide

/-- The full `ring_layout` statement is false (D4). -/
theorem ring_layout_false : ¬ ring_layout := by
  intro hrl
  obtain ⟨hok, hc, hd, hs, _⟩ := d4_witness
  obtain ⟨d, s, b, hd', hs', _, hn, _⟩ := hrl d4pre ⟨6, _, rfl⟩ hok (by omega)
  rw [hd] at hd'; rw [hs] at hs'; cases hd'; cases hs'
  exact IsNextAfter.ne hn (by decide) rfl

/-- **Exact condition.** After a successful `next` the ring layout (sb = first playable after the dealer, bb = first
playable after sb, w.r.t. the new state) holds **iff** `renewSeatStatus` did not take its heads-up branch, i.e.
iff the state after `nextDealer` did not have exactly two playable seats.  The big blind is *always* the first
playable seat after the small blind. (No hypothesis on the number of playable seats is needed here.) -/
theorem ring_layout_exact (sm : SM) (h : Reachable sm) (hok : (sm.step .next).2.1 = none) :
    ∃ d s b, (sm.step .next).1.dealer = some d ∧ (sm.step .next).1.sb = some s ∧ (sm.step .next).1.bb = some b ∧
      IsNextAfter (sm.step .next).1 s b ∧
      (IsNextAfter (sm.step .next).1 d s ↔ sm.nextDealer.1.playableCount ≠ 2) := by
  obtain ⟨d, ks, kb, hn⟩ := next_ok h.inv hok
  refine ⟨d, _, _, hn.dealer, hn.sb, hn.bb, hn.bb_next_after_sb, ?_, hn.sb_next_after_dealer⟩
  intro hna h2
  have hks : ks = 0 := by
    rcases hn.branch with ⟨_, h0⟩ | ⟨hne, _⟩
    · exact h0
    · exact absurd h2 hne
  rw [hks, hn.offset_zero] at hna
  exact IsNextAfter.ne hna (by rw [hn.max_eq]; exact hn.d_lt) rfl

/-- **`ring_layout`, proved part.**  Extra hypothesis `hnw`: in the state after `nextDealer` (i.e. after the button
moved and the seats it passed were re-activated) no seat is occupied, non-reserved and still inactive.  Then with
three or more playable seats in the new hand the small blind is the first playable seat clockwise after the dealer
and the big blind the first playable seat after the small blind.
What is missing for the full statement is exactly D4: a waiting (occupied, non-reserved, inactive) seat behind the
new big blind is activated by `renewSeatStatus` *after* it chose the layout from the old count
(`ring_layout_exact` gives the precise condition, `ring_layout_false` the counterexample). -/
theorem ring_layout_partial (sm : SM) (h : Reachable sm) (hok : (sm.step .next).2.1 = none)
    (h3 : 3 ≤ (sm.step .next).1.playableCount) (hnw : NoWaiting sm.nextDealer.1) :
    ∃ d s b, (sm.step .next).1.dealer = some d ∧ (sm.step .next).1.sb = some s ∧ (sm.step .next).1.bb = some b ∧
      IsNextAfter (sm.step .next).1 d s ∧ IsNextAfter (sm.step .next).1 s b := by
  obtain ⟨d, ks, kb, hn⟩ := next_ok h.inv hok
  have hce := hn.count_eq_of_noWaiting hnw
  exact ⟨d, _, _, hn.dealer, hn.sb, hn.bb, hn.sb_next_after_dealer (by omega), hn.bb_next_after_sb⟩

/-- The same with the hypothesis on the *pre*-state: nobody is waiting before `next` is called. -/
theorem ring_layout_of_noWaiting (sm : SM) (h : Reachable sm) (hok : (sm.step .next).2.1 = none)
    (h3 : 3 ≤ (sm.step .next).1.playableCount) (hnw : NoWaiting sm) :
    ∃ d s b, (sm.step .next).1.dealer = some d ∧ (sm.step .next).1.sb = some s ∧ (sm.step .next).1.bb = some b ∧
      IsNextAfter (sm.step .next).1 d s ∧ IsNextAfter (sm.step .next).1 s b :=
  ring_layout_partial sm h hok h3 ((nextDealer_actUp sm).noWaiting hnw)

/-- Non-vacuity of `ring_layout_partial`: 5 seats, players seated on 0, 2, 3 and one hand played; nobody is waiting;
the second `next` gives dealer 2, small blind 3, big blind 0. -/
example : let sm := (SM.new 5).run [.join 0 1 none, .seat 0, .join 2 2 none, .seat 2, .join 3 3 none, .seat 3, .next]
    (sm.step .next).2.1 = none ∧ (sm.step .next).1.playableCount = 3 ∧
    (sm.step .next).1.dealer = some 2 ∧ (sm.step .next).1.sb = some 3 ∧ (sm.step .next).1.bb = some 0 := by decide
example : NoWaiting ((SM.new 5).run [.join 0 1 none, .seat 0, .join 2 2 none, .seat 2, .join 3 3 none, .seat 3, .next]) := by
  intro i s hs hp _
  have : i < 5 := (List.getElem?_eq_some_iff.mp hs).1
  have hall : ∀ j, j < 5 → ∀ t, ((SM.new 5).run [.join 0 1 none, .seat 0, .join 2 2 none, .seat 2, .join 3 3 none,
      .seat 3, .next]).seats[j]? = some t → t.player.isSome = true → t.active = true := by decide
  exact hall i this s hs hp


/-! ## Second sentence -/

/-- **"A player who takes an empty seat strictly between the dealer and the big blind is, other players staying
put, dealt in from exactly the first hand after the button has moved past that seat - not before, and not later."**

Setting: `S0 = (sm.step .next).1` is the state right after a successful `next` from a reachable state, with dealer
`d` and big blind `b`; seat `x` is empty *in `S0`* (i.e. it was empty when `next` ran, hence `renewSeatStatus`
deactivated it) and strictly between `d` and `b`.  The newcomer does `Join(x); Seat(x)` giving `T`, then only `next`
operations follow.  For every `n` such that the button did not pass `x` in the first `n` of them:
* **not before**: `x` is not playable in hand `n` (`nexts T n`; `n = 0` is the hand in progress);
* the `(n+1)`-th `next` succeeds (a hand is really started);
* **not later**: if the button passes `x` in the `(n+1)`-th `next`, `x` is playable in that hand.
Full strength: all table sizes, all reachable `sm`, any number of `next`s. -/
theorem newcomer_timing (sm : SM) (h : Reachable sm) (hok : (sm.step .next).2.1 = none)
    (d b x : Nat) (s : Seat) (pid : Nat) (c : Option Nat)
    (hd : (sm.step .next).1.dealer = some d) (hb : (sm.step .next).1.bb = some b)
    (hx : StrictlyBetween (sm.step .next).1.max d x b)
    (hs : (sm.step .next).1.seats[x]? = some s) (hemp : s.player = none) :
    ∃ T, T = (sm.step .next).1.run [.join (x : Int) pid c, .seat (x : Int)] ∧
      (∃ sx, T.seats[x]? = some sx ∧ sx.player = some pid ∧ sx.reserved = false) ∧
      (Passed T x 0 ∨ Passed T x 1) ∧
      ∀ n, (∀ m, m < n → ¬ Passed T x m) →
        (nexts T n).playable x = false ∧ ((nexts T n).step .next).2.1 = none ∧
        (Passed T x n → (nexts T (n + 1)).playable x = true) := by
  obtain ⟨d', ks, kb, hn⟩ := next_ok h.inv hok
  have hdd : d' = d := by have := hn.dealer; rw [hd] at this; cases this; rfl
  subst hdd
  have hbb : b = (d' + kb) % sm.max := by have := hn.bb; rw [hb] at this; cases this; rfl
  obtain ⟨a, b', ha0, hab, hb'm, hxa, hbe⟩ := hx
  rw [hn.max_eq] at hb'm hxa hbe
  have hkb : b' = kb := offset_inj hb'm hn.kb_lt (hbe.symm.trans hbb)
  subst hkb
  subst hxa
  have w := waiting_init h.inv hn ha0 hab hs hemp pid c
  refine ⟨_, rfl, ?_, waiting_passed_soon w, fun n hnp => waiting_timing w n hnp⟩
  obtain ⟨sx, hsx, _, hres, _⟩ := w.seat
  refine ⟨sx, hsx, ?_, hres⟩
  -- the player at x is the newcomer
  have hxlt : (d' + a) % sm.max < (sm.step .next).1.max := by
    rw [hn.max_eq]; exact Nat.mod_lt _ (by omega)
  have hxlen := (List.getElem?_eq_some_iff.mp hs).1
  have hjoin : (sm.step .next).1.step (.join (((d' + a) % sm.max : Nat) : Int) pid c) =
      ((sm.step .next).1.setSeat ((d' + a) % sm.max) { s with reserved := true, player := some pid }, none,
        some ((d' + a) % sm.max)) := by
    rw [step_join_eq, if_neg (by omega), if_pos (by omega)]
    simp only [Int.toNat_natCast]
    rcases joinAt_cases (sm.step .next).1 pid ((d' + a) % sm.max) with ⟨h', _⟩ | ⟨s', h1', h2', _⟩ | ⟨s', h1', h2', h3'⟩
    · rw [hs] at h'; cases h'
    · rw [hs] at h1'; cases h1'; simp [hemp] at h2'
    · rw [hs] at h1'; cases h1'; exact h3'
  rw [run_two, hjoin] at hsx
  rcases step_seat_cases ((sm.step .next).1.setSeat ((d' + a) % sm.max) { s with reserved := true, player := some pid })
    (((d' + a) % sm.max : Nat) : Int) with ⟨hr, _⟩ | ⟨k, hk, _, he⟩
  · simp only [setSeat] at hr; omega
  · have : k = (d' + a) % sm.max := by omega
    subst this
    simp only at hsx
    rw [he] at hsx
    simp only [modSeat_seats, setSeat_seats, if_pos hxlen, if_true, Option.map_some, Option.some.injEq] at hsx
    rw [← hsx]

/-- Non-vacuity of `newcomer_timing`: 6 seats, players on 0, 2, 4 (one hand played: dealer 0, sb 2, bb 4); seats 1
and 3 are empty, strictly between dealer and big blind, and were deactivated.  A newcomer on seat 3 is passed by the
button only in the second `next` (dealer 0 → 2 → 4) and is playable exactly from then on; a newcomer on seat 1 is
passed in the first. -/
example : let S0 := (SM.new 6).run [.join 0 1 none, .seat 0, .join 2 2 none, .seat 2, .join 4 3 none, .seat 4, .next]
    S0.dealer = some 0 ∧ S0.bb = some 4 ∧ S0.seats[3]? = some { player := none, active := false, reserved := false } ∧
    (let T := S0.run [.join 3 9 none, .seat 3]
     T.playable 3 = false ∧ (nexts T 1).dealer = some 2 ∧ (nexts T 1).playable 3 = false ∧
     (nexts T 2).dealer = some 4 ∧ (nexts T 2).playable 3 = true) ∧
    (let T := S0.run [.join 1 9 none, .seat 1]
     T.playable 1 = false ∧ (nexts T 1).dealer = some 2 ∧ (nexts T 1).playable 1 = true) := by decide
example : StrictlyBetween 6 0 3 4 := ⟨3, 4, by omega, by omega, by omega, rfl, rfl⟩

/-- The D9 history of `known_findings.json` up to the newcomer's `Seat`: hand with dealer 0, sb 1, bb 2 on 4 seats; the
small blind leaves seat 1 (which therefore stays *active*); a newcomer joins and sits in on seat 1. -/
def d9T : SM :=
  (SM.new 4).run [.join 0 1 none, .seat 0, .join 1 2 none, .seat 1, .join 2 3 none, .seat 2, .next,
    .leave 1, .join 1 4 none, .seat 1]

/-- **D9 witness, kernel-checked.**  The hypothesis "seat `x` empty when `next` ran" of `newcomer_timing` cannot be
weakened to "seat `x` empty when the newcomer arrives": on a seat between dealer (0) and big blind (2) that was
*vacated after* the last `next`, the newcomer (seat 1) is playable immediately, and in the following hand — whose
button has moved *onto* seat 1, not past it — he is dealt in (he even is the dealer).  Only seats empty at `next`
time are deactivated. -/
theorem d9_witness :
    d9T.dealer = some 0 ∧ d9T.bb = some 2 ∧ d9T.playable 1 = true ∧
    ((nexts d9T 1).dealer = some 1 ∧ (nexts d9T 1).playable 1 = true) ∧ ¬ Passed d9T 1 0 := by
  refine ⟨by decide, by decide, by decide, by decide, ?_⟩
  rintro ⟨d, e, hd, he, a, b, h1, h2, h3, h4, h5⟩
  have hd0 : (nexts d9T 0).dealer = some 0 := by decide
  have he1 : (nexts d9T 1).dealer = some 1 := by decide
  have hm : (nexts d9T 0).max = 4 := by decide
  rw [hd0] at hd; rw [he1] at he; cases hd; cases he
  rw [hm] at h3 h4 h5
  omega

/-! ## Second sentence, join and sit-in interleaved with `next` (review gap 2) -/

/-- **"… dealt in from exactly the first hand after the button has moved past that seat - not before, and not
later"**, with the newcomer's `Join`, his sit-in (`Seat`) and the `next` operations *interleaved*.

Setting, as in `newcomer_timing`: `S0 = (sm.step .next).1` is the state right after a successful `next` from any
reachable state, dealer `d`, big blind `b`; seat `x` is empty in `S0` and strictly between `d` and `b`.
History: the newcomer does `Join(x)` (state `J`); then `k ≥ 0` hands are started (`next`) while he has only joined
(his seat is reserved); then he sits in (`Seat(x)`); then any number of further `next`s.  `nhand J x k n` is the state
at the start of hand `n` (right after the `n`-th `next`); the sit-in happens between hand `k` and hand `k+1`.
Conclusions, for every table size, every reachable `sm`, every `k` and every number of hands:
* the `Join` and the `Seat` are accepted, and every `next` of the history succeeds (hands are really started);
* the button passes `x` in the first or in the second `next` (whatever `k` is);
* **not before / not later, as one equivalence**: `x` is playable (dealt in) at the start of hand `n` **iff** both
  the sit-in has happened before that hand (`k < n`) and the button has passed `x` in one of the first `n` `next`s.
  So he is not dealt in before BOTH have happened, he is dealt in in the first hand after both, and in every later one;
* that first hand exists and is hand `k+1` (the first after the sit-in) or hand `2`: from it on, and not before;
* between hands: right after the `Seat(x)` the seat counts as playable iff the button had already passed it while it
  was reserved — the hand in progress (hand `k`) was started without him in either case (previous bullet, `n = k`).
`k = 0` is `newcomer_timing`.

**Excluded histories, explicitly** (all as in `newcomer_timing`):
* *other players stay put*: between the last successful `next` before the `Join` and the end of the history the only
  operations are the newcomer's own `Join(x)` and `Seat(x)` and `next`;
  - this excludes **D4** (players sitting back in move the big blind in front of the newcomer and `renewSeatStatus`
    activates him early),
  - and **D10** (others leave, fewer than two playable seats remain and `Next()` lets every waiting player in at once);
* seat `x` is empty *when the last `next` ran* (`hs`, `hemp` are about `S0`), so that `renewSeatStatus` deactivated
  it — this excludes **D9** (a seat vacated after that `next` stays active; `d9_witness`).
No witness against the generalised statement was found: it is proved as stated. -/
theorem newcomer_timing_interleaved (sm : SM) (h : Reachable sm) (hok : (sm.step .next).2.1 = none)
    (d b x : Nat) (s : Seat) (pid : Nat) (c : Option Nat) (k : Nat)
    (hd : (sm.step .next).1.dealer = some d) (hb : (sm.step .next).1.bb = some b)
    (hx : StrictlyBetween (sm.step .next).1.max d x b)
    (hs : (sm.step .next).1.seats[x]? = some s) (hemp : s.player = none) :
    ∃ J, J = ((sm.step .next).1.step (.join (x : Int) pid c)).1 ∧
      -- the join is accepted: the seat now holds the newcomer, reserved and (still) inactive
      ((sm.step .next).1.step (.join (x : Int) pid c)).2 = (none, some x) ∧
      J.seats[x]? = some { player := some pid, active := false, reserved := true } ∧
      -- the sit-in is accepted, every `next` succeeds
      ((nhand J x k k).step (.seat (x : Int))).2.1 = none ∧
      (∀ n, ((npre J x k n).step .next).2.1 = none) ∧
      -- the button passes soon
      (PassedN J x k 0 ∨ PassedN J x k 1) ∧
      -- dealt in exactly when both have happened
      (∀ n, (nhand J x k n).playable x = true ↔ (k < n ∧ ∃ m, m < n ∧ PassedN J x k m)) ∧
      -- there is a first such hand; from it on, and not before
      (∃ n0, k < n0 ∧ (n0 = k + 1 ∨ n0 = 2) ∧ ∀ n, (nhand J x k n).playable x = true ↔ n0 ≤ n) ∧
      -- between hands, right after the sit-in
      (((nhand J x k k).step (.seat (x : Int))).1.playable x = true ↔ ∃ m, m < k ∧ PassedN J x k m) := by
  obtain ⟨d', ks, kb, hn⟩ := next_ok h.inv hok
  have hdd : d' = d := by have := hn.dealer; rw [hd] at this; cases this; rfl
  subst hdd
  have hbb : b = (d' + kb) % sm.max := by have := hn.bb; rw [hb] at this; cases this; rfl
  obtain ⟨a, b', ha0, hab, hb'm, hxa, hbe⟩ := hx
  rw [hn.max_eq] at hb'm hxa hbe
  have hkb : b' = kb := offset_inj hb'm hn.kb_lt (hbe.symm.trans hbb)
  subst hkb
  subst hxa
  obtain ⟨w, hj, hseat⟩ := pending_init h.inv hn ha0 hab hs hemp pid c
  exact ⟨_, rfl, hj, hseat, newcomer_sit_ok w k, newcomer_next_ok w k, newcomer_passed_soon w k,
    newcomer_playable_iff w k, newcomer_first_hand w k, newcomer_sit_playable_iff w k⟩

/-- `nhand` is the run of the operation list `Join(x); next^k; Seat(x); next^(n-k)` (cut after `n` `next`s). -/
theorem nhand_is_run (S0 : SM) (x pid : Nat) (c : Option Nat) (k n : Nat) :
    nhand (S0.step (.join (x : Int) pid c)).1 x k n =
      S0.run (.join (x : Int) pid c ::
        (if n ≤ k then List.replicate n .next
         else List.replicate k .next ++ .seat (x : Int) :: List.replicate (n - k) .next)) :=
  nhand_eq_run S0 x pid c k n

/-- Non-vacuity of `newcomer_timing_interleaved`: 6 seats, players on 0, 2, 4, one hand played (dealer 0, sb 2, bb 4);
seats 1 and 3 are empty, strictly between dealer and big blind, deactivated.
(a) Newcomer joins seat 3, one hand is started while he is reserved (`k = 1`, button 0 → 2, not past seat 3), he sits
in (still not playable), the next hand moves the button 2 → 4 past him: dealt in from hand 2.
(b) Newcomer joins seat 1 and sits in only after two hands (`k = 2`): the button passes him in the first `next`
(0 → 2) while he is reserved; he is dealt in neither in hand 1 nor in hand 2, counts as playable right after his
sit-in, and is dealt in from hand 3 — the first hand after both. -/
example : let S0 := (SM.new 6).run [.join 0 1 none, .seat 0, .join 2 2 none, .seat 2, .join 4 3 none, .seat 4, .next]
    S0.dealer = some 0 ∧ S0.bb = some 4 ∧ S0.seats[3]? = some { player := none, active := false, reserved := false } ∧
    S0.seats[1]? = some { player := none, active := false, reserved := false } ∧
    (let J := (S0.step (.join 3 9 none)).1
     (nhand J 3 1 0).playable 3 = false ∧
     (nhand J 3 1 1).dealer = some 2 ∧ (nhand J 3 1 1).playable 3 = false ∧
     ((nhand J 3 1 1).step (.seat 3)).1.playable 3 = false ∧
     (nhand J 3 1 2).dealer = some 4 ∧ (nhand J 3 1 2).playable 3 = true ∧ (nhand J 3 1 3).playable 3 = true) ∧
    (let J := (S0.step (.join 1 9 none)).1
     (nhand J 1 2 1).dealer = some 2 ∧ (nhand J 1 2 1).playable 1 = false ∧
     (nhand J 1 2 2).dealer = some 4 ∧ (nhand J 1 2 2).playable 1 = false ∧
     ((nhand J 1 2 2).step (.seat 1)).1.playable 1 = true ∧
     (nhand J 1 2 3).dealer = some 0 ∧ (nhand J 1 2 3).playable 1 = true) := by decide
example : StrictlyBetween 6 0 1 4 := ⟨1, 4, by omega, by omega, by omega, rfl, rfl⟩

end Pokerface.C08
