import Pokerface.Proofs.FlowC06
/-
  C06 — A hand always tells its driver what comes next and always finishes.

  "A hand starts only with at least two players with positive bankrolls, a dealer and a
  deck; once started it always indicates the single thing it is waiting for (everyone ready,
  antes, blinds, an action from the player to act, or moving on to the next street), that
  step always succeeds, and the streets run strictly preflop, flop, turn, river.  Whatever
  the players choose, the hand reaches its closed state with a settlement result after a
  bounded number of steps, and from then on accepts nothing."

  All statements are about the model (`start`, `Game.step`, Model/Game.lean) and hold for
  every reachable state: `Reachable g` (Proofs/EngineReach.lean) = any sequence of
  operations, accepted or refused, with any arguments, from any successfully started
  configuration whose forced bets are not negative (`WFConfig`).
-/
namespace Pokerface.C06
open Pokerface Game

/-! ## Start -/

/-- Sentence 1 ("a hand starts only with at least two players with positive bankrolls, a dealer
    and a deck"): `Start()` succeeds exactly when its four preconditions hold.  No hypothesis
    on the configuration. -/
theorem start_iff (c : Config) :
    (start c).2 = none ↔
      2 ≤ c.seats.length ∧ (∃ s ∈ c.seats, s.dealer = true) ∧ (∀ s ∈ c.seats, 0 < s.bankroll) ∧ c.opts.deck ≠ [] := by
  rw [start_err]
  constructor
  · intro h
    split at h
    · cases h
    · rename_i h1
      split at h
      · cases h
      · rename_i h2
        split at h
        · cases h
        · rename_i h3
          split at h
          · cases h
          · rename_i h4
            refine ⟨by omega, Classical.not_not.mp h2, ?_, h4⟩
            intro s hs
            have : ¬ s.bankroll ≤ 0 := fun hle => h3 ⟨s, hs, hle⟩
            omega
  · rintro ⟨h1, h2, h3, h4⟩
    have h3' : ¬ ∃ s ∈ c.seats, s.bankroll ≤ 0 := by
      rintro ⟨s, hs, hle⟩
      have := h3 s hs
      omega
    rw [if_neg (by omega), if_neg (fun h => h h2), if_neg h3', if_neg h4]

/-- The error `Start()` returns, guard by guard in the order of game.go `Start`:
    too few players; no dealer; a bankroll that is not positive; no deck. -/
theorem start_error (c : Config) :
    (c.seats.length < 2 → (start c).2 = some .insufficientPlayers) ∧
    (2 ≤ c.seats.length → (¬ ∃ s ∈ c.seats, s.dealer = true) → (start c).2 = some .noDealer) ∧
    (2 ≤ c.seats.length → (∃ s ∈ c.seats, s.dealer = true) → (∃ s ∈ c.seats, s.bankroll ≤ 0) →
      (start c).2 = some .notEnoughBankroll) ∧
    (2 ≤ c.seats.length → (∃ s ∈ c.seats, s.dealer = true) → (∀ s ∈ c.seats, 0 < s.bankroll) → c.opts.deck = [] →
      (start c).2 = some .noDeck) := by
  rw [start_err]
  refine ⟨fun h => by rw [if_pos h], fun h1 h2 => by rw [if_neg (by omega), if_pos h2],
    fun h1 h2 h3 => by rw [if_neg (by omega), if_neg (fun h => h h2), if_pos h3], fun h1 h2 h3 h4 => ?_⟩
  have h3' : ¬ ∃ s ∈ c.seats, s.bankroll ≤ 0 := by
    rintro ⟨s, hs, hle⟩
    have := h3 s hs
    omega
  rw [if_neg (by omega), if_neg (fun h => h h2), if_neg h3', if_pos h4]

/-! ## Wait points -/

/-- Sentence 2, first half ("it always indicates the single thing it is waiting for"): between
    operations the event is one of the six wait points. -/
theorem wait_points {g : Game} (h : Reachable g) :
    g.event = .readyRequested ∨ g.event = .anteRequested ∨ g.event = .blindsRequested ∨
    g.event = .roundStarted ∨ g.event = .roundClosed ∨ g.event = .gameClosed := by
  have := (inv_reachable h).post.wait
  revert this
  cases g.event <;> simp [Ev.isWait]

/-! ## The expected step succeeds -/

/-- Sentence 2, second half ("that step always succeeds"), one clause per wait point:
    * ReadyRequested: `ReadyForAll` succeeds;
    * AnteRequested: `PayAnte` succeeds (no seat has a wager, every seat is visited once);
    * BlindsRequested: `PayBlinds` succeeds;
    * RoundClosed: `Next` succeeds;
    * RoundStarted: the seat to act exists and is offered at least one action; every offered
      `Pass/Fold/Check/Call/Allin` succeeds (whatever amount argument is passed along), an offered
      `Bet x` succeeds for every `x ≥ 0`, an offered `Raise x` for every `x` above the wager to
      match — addressed to the table (`none`) or to the seat itself (`some g.cur`). -/
theorem expected_step_succeeds {g : Game} (h : Reachable g) :
    (g.event = .readyRequested → (g.step .ready).2 = none) ∧
    (g.event = .anteRequested → (g.step .payAnte).2 = none) ∧
    (g.event = .blindsRequested → (g.step .payBlinds).2 = none) ∧
    (g.event = .roundClosed → (g.step .next).2 = none) ∧
    (g.event = .roundStarted → ∃ p, g.players[g.cur]? = some p ∧ p.allowed ≠ [] ∧
      ∀ (seat : Option Nat), (seat = none ∨ seat = some g.cur) → ∀ (a : Act) (x : Int), a ∈ p.allowed →
        ((a = .pass ∨ a = .fold ∨ a = .check ∨ a = .call ∨ a = .allin) → (g.step (.act seat a x)).2 = none) ∧
        (a = .bet → 0 ≤ x → (g.step (.act seat a x)).2 = none) ∧
        (a = .raise → g.cw < x → (g.step (.act seat a x)).2 = none)) := by
  have hi := inv_reachable h
  have hf := flow_reachable h
  refine ⟨?_, ?_, ?_, ?_, ?_⟩
  · intro he; simp [Game.step, Game.readyForAll, he]
  · intro he; exact payAnte_ok g hf he
  · intro he; simp [Game.step, Game.payBlinds, he]
  · intro he
    simp only [Game.step, Game.next, he, ne_eq, not_true_eq_false, if_false]
    split <;> rfl
  · intro he
    have hlt := hi.struct.cur
    simp only [Game.n] at hlt
    have hp : g.players[g.cur]? = some g.players[g.cur] := by simp [hlt]
    refine ⟨g.players[g.cur], hp, ?_, ?_⟩
    · have := hi.post.allowed
      simp only [he, if_true] at this
      have := this g.cur _ hp
      rw [this, if_pos rfl]
      rcases avail_free g g.players[g.cur] with h1 | h1 <;> exact List.ne_nil_of_mem h1
    · intro seat hseat a x ha
      have hstep : g.step (.act seat a x) = g.act g.cur a x := by
        rcases hseat with rfl | rfl <;> rfl
      rw [hstep]
      have hal := allows_of_mem hp ha
      refine ⟨?_, ?_, ?_⟩
      · intro hfree
        rcases hfree with rfl | rfl | rfl | rfl | rfl <;> simp [Game.act, hal]
      · rintro rfl hx
        have : ¬ x < 0 := by omega
        simp [Game.act, hal, this]
      · rintro rfl hx
        exact raise_ok g hi he _ hp ha x hx

/-- requested by C04: `payAnte` never fails while the hand waits for the antes, hence (with
    C04's lemmas for the other operations) every refused operation leaves the state exactly as
    it was. -/
theorem refused_no_effect {g : Game} (h : Reachable g) (op : Op) (hr : (g.step op).2 ≠ none) : (g.step op).1 = g :=
  refused_same g (flow_reachable h) op hr

/-! ## Streets in order -/

/-- index of a street: none < preflop < flop < turn < river -/
def roundIdx : Round → Nat := Round.idx

/-- Sentence 2, end ("the streets run strictly preflop, flop, turn, river"): an operation
    leaves the street alone or moves it one step forward … -/
theorem streets_in_order {g : Game} (h : Reachable g) (op : Op) :
    (g.step op).1.round = g.round ∨ roundIdx (g.step op).1.round = roundIdx g.round + 1 := by
  rcases round_step g (inv_reachable h) (flow_reachable h) op with h1 | ⟨_, _, h2, h3⟩ | ⟨_, h2, h3⟩ | ⟨_, _, h3⟩
  · exact Or.inl h1
  · right; rw [h3, h2]; rfl
  · right; rw [h3, h2]; rfl
  · exact Or.inr h3

/-- … and it moves only in `ReadyForAll` (into preflop when there is no ante), `PayAnte` (into
    preflop) and `Next` on a closed round; never in a player action, never in `PayBlinds`. -/
theorem street_moves_only {g : Game} (h : Reachable g) (op : Op) (hne : (g.step op).1.round ≠ g.round) :
    (op = .ready ∧ g.opts.ante = 0 ∧ g.round = .none ∧ (g.step op).1.round = .preflop) ∨
    (op = .payAnte ∧ g.round = .none ∧ (g.step op).1.round = .preflop) ∨
    (op = .next ∧ g.event = .roundClosed) := by
  rcases round_step g (inv_reachable h) (flow_reachable h) op with h1 | h1 | h1 | ⟨h1, h2, _⟩
  · exact absurd h1 hne
  · exact Or.inl h1
  · exact Or.inr (Or.inl h1)
  · exact Or.inr (Or.inr ⟨h1, h2⟩)

/-! ## Closed is final -/

/-- Sentence 3, end ("with a settlement result … and from then on accepts nothing"): in the closed
    state the result is present, and every operation of the alphabet is refused and changes nothing. -/
theorem closed_final {g : Game} (h : Reachable g) (he : g.event = .gameClosed) :
    g.result ≠ none ∧ ∀ op, (g.step op).2 ≠ none ∧ (g.step op).1 = g := by
  refine ⟨?_, closed_refuses g (inv_reachable h) he⟩
  have := (flow_reachable h).res.mpr he
  intro hn
  rw [hn] at this
  cases this

/-- the settlement result is present exactly in the closed state -/
theorem result_iff_closed {g : Game} (h : Reachable g) : g.result.isSome = true ↔ g.event = .gameClosed :=
  (flow_reachable h).res

/-! ## Termination -/

/-- the measure: `n · Σ stacks + phase` (see Proofs/FlowMeasure.lean: the phase counts the streets
    left, the position inside the street and, in an open betting round, the seats that have not acted) -/
def measure (g : Game) : Int := g.mu

/-- Sentence 3: every accepted operation strictly decreases the (non-negative) measure. -/
theorem measure_decreases {g : Game} (h : Reachable g) (op : Op) (hacc : (g.step op).2 = none) :
    0 ≤ measure (g.step op).1 ∧ measure (g.step op).1 < measure g :=
  ⟨mu_nonneg (inv_step g (inv_reachable h) op), mu_step g (inv_reachable h) (flow_reachable h) op hacc⟩

/-- number of accepted operations of a run (specification-level copy of `Game.accepted`) -/
def acceptedCount (g : Game) (ops : List Op) : Nat := g.accepted ops

/-- the bound asserted by the run-time monitor: `n · (Σ bankrolls + 4) + 16` -/
def bound (c : Config) : Nat := c.seats.length * ((c.seats.map SeatCfg.bankroll).sum.toNat + 4) + 16

/-- the bound the measure gives: `n · Σ bankrolls + 4·n + 12` -/
def sharpBound (c : Config) : Nat := c.seats.length * (c.seats.map SeatCfg.bankroll).sum.toNat + 4 * c.seats.length + 12

theorem bankrolls_nonneg (c : Config) (hs : (start c).2 = none) : 0 ≤ (c.seats.map SeatCfg.bankroll).sum := by
  have h3 := ((start_iff c).mp hs).2.2.1
  have : ∀ l : List SeatCfg, (∀ s ∈ l, 0 < s.bankroll) → 0 ≤ (l.map (·.bankroll)).sum := by
    intro l
    induction l with
    | nil => intro _; simp
    | cons a l ih =>
      intro hl
      have h1 := hl a (by simp)
      have h2 := ih (fun s hs => hl s (by simp [hs]))
      simp only [List.map_cons, List.sum_cons]
      omega
  exact this _ h3

/-- Sentence 3 ("after a bounded number of steps"): in ANY sequence of operations run from a
    started hand — accepted or refused, any arguments — at most `n · Σ bankrolls + 4·n + 12`
    are accepted. -/
theorem terminates_sharp (c : Config) (wf : WFConfig c) (hs : (start c).2 = none) (ops : List Op) :
    acceptedCount (start c).1 ops ≤ sharpBound c := by
  have hi := inv_start c wf hs
  have hf := flow_start c hs
  have h1 := accepted_le_mu ops _ hi hf
  have h2 := mu_nonneg (inv_run _ hi ops)
  have h3 : (start c).1.mu = (c.seats.length : Int) * (c.seats.map SeatCfg.bankroll).sum
      + 4 * ((c.seats.length : Int) + 2) + 4 := start_mu c hs
  have h4 := bankrolls_nonneg c hs
  unfold acceptedCount sharpBound
  have h5 : (((c.seats.map SeatCfg.bankroll).sum.toNat : Nat) : Int) = (c.seats.map SeatCfg.bankroll).sum :=
    Int.toNat_of_nonneg h4
  have h6 : ((c.seats.length * (c.seats.map SeatCfg.bankroll).sum.toNat : Nat) : Int)
      = (c.seats.length : Int) * (c.seats.map SeatCfg.bankroll).sum := by
    rw [Int.natCast_mul, h5]
  omega

/-- … hence at most the bound the monitor asserts, `n · (Σ bankrolls + 4) + 16`. -/
theorem terminates (c : Config) (wf : WFConfig c) (hs : (start c).2 = none) (ops : List Op) :
    acceptedCount (start c).1 ops ≤ bound c := by
  have := terminates_sharp c wf hs ops
  unfold sharpBound at this
  unfold bound
  rw [Nat.mul_add]
  omega

/-- a run in which every operation is accepted is no longer than the bound: there is no infinite
    play -/
theorem no_infinite_play (c : Config) (wf : WFConfig c) (hs : (start c).2 = none) (ops : List Op)
    (hall : acceptedCount (start c).1 ops = ops.length) : ops.length ≤ bound c := by
  rw [← hall]; exact terminates c wf hs ops

/-- … and the hand is never stuck: as long as it is not closed some operation is accepted
    (so that the closed state IS reached, within the bound, by any driver that keeps going). -/
theorem progress {g : Game} (h : Reachable g) (hne : g.event ≠ .gameClosed) : ∃ op, (g.step op).2 = none := by
  obtain ⟨h1, h2, h3, h4, h5⟩ := expected_step_succeeds h
  rcases wait_points h with he | he | he | he | he | he
  · exact ⟨_, h1 he⟩
  · exact ⟨_, h2 he⟩
  · exact ⟨_, h3 he⟩
  · obtain ⟨p, hp, hne', hall⟩ := h5 he
    have hoff : p.allowed = g.availableActions p := by
      have := (inv_reachable h).post.allowed
      simp only [he, if_true] at this
      have := this g.cur p hp
      simpa using this
    rcases avail_free g p with hm | hm
    · exact ⟨.act none .pass 0, ((hall none (Or.inl rfl) .pass 0 (by rw [hoff]; exact hm)).1 (Or.inl rfl))⟩
    · exact ⟨.act none .allin 0, ((hall none (Or.inl rfl) .allin 0 (by rw [hoff]; exact hm)).1
        (Or.inr (Or.inr (Or.inr (Or.inr rfl)))))⟩
  · exact ⟨_, h4 he⟩
  · exact absurd he hne

/-! ## Non-vacuity -/

/-- three seats with 100 chips each, ante 2, blinds 5/10, dealer at seat 0 -/
def exCfg : Config :=
  { opts := { ante := 2, blindDealer := 0, blindSB := 5, blindBB := 10, potLimit := false, holeCount := 2, required := 0,
              lvl := fun _ => 1, table := [], deck := (List.range 20).map fun k => { suit := 83, rank := k + 2 } },
    seats := [{ bankroll := 100, dealer := true, sb := false, bb := false },
              { bankroll := 100, dealer := false, sb := true, bb := false },
              { bankroll := 100, dealer := false, sb := false, bb := true }] }

theorem exWF : WFConfig exCfg := ⟨⟨by decide, by decide, by decide, by decide⟩⟩

/-- `start_iff`: both sides hold for `exCfg`; each guard fails for a variant -/
example : (start exCfg).2 = none := by decide
example : (start { exCfg with seats := exCfg.seats.take 1 }).2 = some .insufficientPlayers := by decide
example : (start { exCfg with seats := exCfg.seats.drop 1 }).2 = some .noDealer := by decide
example : (start { exCfg with seats := exCfg.seats ++ [{ bankroll := 0, dealer := false, sb := false, bb := false }] }).2
    = some .notEnoughBankroll := by decide
example : (start { exCfg with opts := { exCfg.opts with deck := [] } }).2 = some .noDeck := by decide

/-- a whole hand: ready, antes, blinds, ready, seat 0 raises to 30, seat 1 folds, seat 2 folds, next -/
def exOps : List Op :=
  [.ready, .payAnte, .payBlinds, .ready, .act none .raise 30, .act none .fold 0, .act (some 2) .fold 0, .next]

def exAt (k : Nat) : Game := (start exCfg).1.run (exOps.take k)

theorem exReach (k : Nat) : Reachable (exAt k) := ⟨exCfg, exOps.take k, exWF, by decide, rfl⟩

/-- every wait point occurs, each expected step is accepted, the streets move none → preflop in
    `payAnte` only, and the hand closes with a result -/
example : (exAt 0).event = .readyRequested ∧ (exAt 1).event = .anteRequested ∧ (exAt 2).event = .blindsRequested ∧
    (exAt 3).event = .readyRequested ∧ (exAt 4).event = .roundStarted ∧ (exAt 5).event = .roundStarted ∧
    (exAt 7).event = .roundClosed ∧ (exAt 8).event = .gameClosed := by decide
example : (exAt 1).round = .none ∧ (exAt 2).round = .preflop ∧ (exAt 8).round = .preflop := by decide
example : (exAt 4).cur = 0 ∧ ((exAt 4).players[0]?.map (·.allowed)) = some [.allin, .fold, .call, .raise] := by decide
example : (exAt 8).result.isSome = true := by decide
example : acceptedCount (start exCfg).1 exOps = 8 ∧ exOps.length = 8 ∧ bound exCfg = 928 ∧ sharpBound exCfg = 924 := by decide
/-- refused operations do not count: out of turn, wrong phase, closed hand -/
example : acceptedCount (start exCfg).1 ([.next, .act (some 1) .fold 0] ++ exOps ++ [.ready, .next, .act none .pass 0]) = 8 := by
  decide
/-- the measure along the example hand -/
example : (List.range 9).map (fun k => measure (exAt k)) = [924, 923, 904, 857, 856, 765, 764, 763, 747] := by decide

end Pokerface.C06
