import Pokerface.Properties.C12
import Pokerface.Proofs.PotLimitRaise
/-
  C12PotLimit — the pot-limit half of C12 "Raise sizes obey the minimum-raise rule and amounts cannot corrupt chips"
  (audit item 10).

  The quantifier of C12 ranges over no-limit AND pot-limit tables (`opts.potLimit`), but every exactness theorem of
  `Properties/C12.lean` (`raise_exact`, `raise_exact_spec`, `raise_exact_unconditional`) carries the hypothesis
  `g.opts.potLimit = false`.  Here: what `Raise(x)` by the player to act does on a pot-limit table, in EVERY case
  (player.go `Raise`: `if PotLimit && raised > CurrentWager + PreviousRaiseSize { raised = CurrentWager + PreviousRaiseSize … }`),
  and the exact condition under which the refusal branch of `raise_exact_unconditional` is taken.

  Setting as in C12: `AtTurn g p` (reachable state, open betting round, `p` the player at the seat to act), `ByCur g seat`
  (the request is addressed to the seat to act), `x` any integer.  `g.cw` = wager to match, `g.prev` = recorded minimum
  raise, `p.initial` = the player's stack at the start of the round (reading I6).
-/
namespace Pokerface.C12P
open Pokerface Game

/-- **(a) Pot-limit, within the cap.**  First sentence of C12 on a pot-limit table: a raise request to a level `x`
    below the round-start stack that lifts the wager to match by at least the previous bet or raise (`g.prev ≤ x − g.cw`) and by
    at most the cap `g.cw + g.prev` is carried out exactly: accepted; `x` is the new wager to match and the raiser's wager;
    the raiser is the last raiser; the increment `x − g.cw` is the new minimum raise; only the raiser's stack paid.
    (Stated for every table on which the cap is respected or absent: `potLimit = false ∨ x − cw ≤ cw + prev`; with
    `potLimit = false` this is `C12.raise_exact`.) -/
theorem raise_exact_within_cap {g : Game} {p : Player} (h : AtTurn g p)
    (hr : Act.raise ∈ p.allowed) {seat : Option Nat} (hs : ByCur g seat) {x : Int}
    (hcap : g.opts.potLimit = false ∨ x - g.cw ≤ g.cw + g.prev)
    (hx1 : g.cw < x) (hx2 : x < p.initial) (hx3 : x - g.cw ≥ g.prev) :
    (g.step (.act seat .raise x)).2 = none ∧
    (g.step (.act seat .raise x)).1.cw = x ∧
    (g.step (.act seat .raise x)).1.raiser = g.cur ∧
    (g.step (.act seat .raise x)).1.prev = x - g.cw ∧
    ∃ q, (g.step (.act seat .raise x)).1.players[g.cur]? = some q ∧ q.wager = x ∧
      q.stack = p.initial - x ∧ q.pot = p.pot ∧ q.bankroll = p.bankroll := by
  rw [h.allowed_eq] at hr
  rw [step_byCur hs, act_raise_dispatch h hr hx1]
  have : ¬ (x ≥ p.initial ∨ x - g.cw < g.prev) := by omega
  rw [if_neg this]
  obtain ⟨q, hq, e1, e2, e3, e4, e5, e6, e7⟩ := doRaise_effect_uncapped h hcap hx1 hx2
  exact ⟨rfl, e2, e4, e3, q, hq, e1, e5, e6, e7⟩

/-- (a) in the wording of the task: `potLimit = true`, `g.prev ≤ x − g.cw ≤ g.cw + g.prev`, `x < p.initial`. -/
theorem raise_exact_potlimit {g : Game} {p : Player} (h : AtTurn g p) (_hpl : g.opts.potLimit = true)
    (hr : Act.raise ∈ p.allowed) {seat : Option Nat} (hs : ByCur g seat) {x : Int}
    (hx1 : g.cw < x) (hx2 : x < p.initial) (hx3 : g.prev ≤ x - g.cw) (hx4 : x - g.cw ≤ g.cw + g.prev) :
    (g.step (.act seat .raise x)).2 = none ∧
    (g.step (.act seat .raise x)).1.cw = x ∧
    (g.step (.act seat .raise x)).1.raiser = g.cur ∧
    (g.step (.act seat .raise x)).1.prev = x - g.cw ∧
    ∃ q, (g.step (.act seat .raise x)).1.players[g.cur]? = some q ∧ q.wager = x ∧
      q.stack = p.initial - x ∧ q.pot = p.pot ∧ q.bankroll = p.bankroll :=
  raise_exact_within_cap h hr hs (Or.inr hx4) hx1 hx2 hx3

/-- **(b) Pot-limit, above the cap.**  On a pot-limit table a raise request to a level `x` below the round-start stack
    that would lift the wager to match by MORE than `g.cw + g.prev` is accepted and carried out as a raise BY
    `g.cw + g.prev`: the new wager to match and the raiser's wager are `2·g.cw + g.prev` (not `x`), the raiser is the last
    raiser, the new minimum raise is `g.cw + g.prev`, and only the raiser's stack paid (`p.initial − (2·g.cw + g.prev)`
    left).  Never an undersized raise: the increment `g.cw + g.prev` is at least `g.prev`. -/
theorem raise_capped_potlimit {g : Game} {p : Player} (h : AtTurn g p) (hpl : g.opts.potLimit = true)
    (hr : Act.raise ∈ p.allowed) {seat : Option Nat} (hs : ByCur g seat) {x : Int}
    (hx2 : x < p.initial) (hcap : x - g.cw > g.cw + g.prev) :
    (g.step (.act seat .raise x)).2 = none ∧
    (g.step (.act seat .raise x)).1.cw = 2 * g.cw + g.prev ∧
    (g.step (.act seat .raise x)).1.raiser = g.cur ∧
    (g.step (.act seat .raise x)).1.prev = g.cw + g.prev ∧
    g.prev ≤ (g.step (.act seat .raise x)).1.prev ∧ g.cw < (g.step (.act seat .raise x)).1.cw ∧
    (g.step (.act seat .raise x)).1.cw < x ∧
    ∃ q, (g.step (.act seat .raise x)).1.players[g.cur]? = some q ∧ q.wager = 2 * g.cw + g.prev ∧
      q.stack = p.initial - (2 * g.cw + g.prev) ∧ q.pot = p.pot ∧ q.bankroll = p.bankroll := by
  rw [h.allowed_eq] at hr
  have hcw := raise_offered_cw_pos h hr
  have hp0 := h.chips.prev0
  have hx1 : g.cw < x := by omega
  rw [step_byCur hs, act_raise_dispatch h hr hx1]
  have : ¬ (x ≥ p.initial ∨ x - g.cw < g.prev) := by omega
  rw [if_neg this]
  obtain ⟨q, hq, e1, e2, e3, e4, e5, e6, e7⟩ := doRaise_effect_capped h hpl hcap (by omega) hx2
  refine ⟨rfl, e2, e4, e3, ?_, ?_, ?_, q, hq, e1, e5, e6, e7⟩
  · show g.prev ≤ (g.doRaise g.cur p x).prev; rw [e3]; omega
  · show g.cw < (g.doRaise g.cur p x).cw; rw [e2]; omega
  · show (g.doRaise g.cur p x).cw < x; rw [e2]; omega

/-- **(c) Pot-limit, undersized request** (`C12.raise_undersized` holds for every table; restated with `potLimit = true`):
    a request that would lift the wager to match by less than the previous bet or raise is carried out as an all-in. -/
theorem raise_undersized_potlimit {g : Game} {p : Player} (h : AtTurn g p) (_hpl : g.opts.potLimit = true)
    (hr : Act.raise ∈ p.allowed) {seat : Option Nat} (hs : ByCur g seat) {x : Int}
    (hx1 : g.cw < x) (hx3 : x - g.cw < g.prev) :
    (g.step (.act seat .raise x)).2 = none ∧
    ∃ q, (g.step (.act seat .raise x)).1.players[g.cur]? = some q ∧ q.stack = 0 ∧ q.wager = p.initial :=
  C12.raise_undersized h hr hs hx1 hx3

/-- **(c) Pot-limit, request at or above the round-start stack**: carried out as an all-in — whatever the cap (the test
    `x ≥ p.initial` of player.go `Raise` comes before the cap). -/
theorem raise_over_stack_potlimit {g : Game} {p : Player} (h : AtTurn g p) (_hpl : g.opts.potLimit = true)
    (hr : Act.raise ∈ p.allowed) {seat : Option Nat} (hs : ByCur g seat) {x : Int}
    (hx1 : g.cw < x) (hx2 : p.initial ≤ x) :
    (g.step (.act seat .raise x)).2 = none ∧
    ∃ q, (g.step (.act seat .raise x)).1.players[g.cur]? = some q ∧ q.stack = 0 ∧ q.wager = p.initial :=
  C12.raise_over_stack h hr hs hx1 hx2

/-- The right-hand side of `C12.raise_offered_iff`: the two situations of `GetAvailableActions` in which raise is
    offered to a player who has not folded and has chips. -/
def RaiseSituation (g : Game) (p : Player) : Prop :=
  (p.wager < g.cw ∧ p.initial > g.cw + g.prev) ∨ (p.wager = g.cw ∧ p.initial ≥ g.miniBet ∧ g.cw ≠ 0)

/-- raise is offered exactly to a non-folded player with chips in a `RaiseSituation` (`C12.raise_offered_iff` together
    with `C12.raise_not_offered_passive`, no side hypothesis left) -/
theorem raise_offered_iff_situation {g : Game} {p : Player} (h : AtTurn g p) :
    Act.raise ∈ p.allowed ↔ (p.fold = false ∧ p.stack ≠ 0 ∧ RaiseSituation g p) := by
  constructor
  · intro hr
    have hm : p.fold = false ∧ p.stack ≠ 0 := by
      have hr' := hr
      rw [h.allowed_eq] at hr'
      exact avail_movable_of_mem hr' (by simp)
    exact ⟨hm.1, hm.2, (C12.raise_offered_iff h hm.1 hm.2).mp hr⟩
  · rintro ⟨hf, hs, hsit⟩
    exact (C12.raise_offered_iff h hf hs).mpr hsit

/-- **`raise_refusal_exact`.**  For a request above the wager to match addressed to the seat to act (`g.cw < x`; any
    table, no-limit or pot-limit, any size of the lift), `Raise(x)` is refused EXACTLY when the right-hand side of
    `C12.raise_offered_iff` fails (or the player has folded / has no chips): then the error is `ErrInvalidAction` and the
    state is returned as it was; in the other case it is accepted.  In particular the refusal branch of
    `C12.raise_exact_unconditional` is taken iff `¬ (p.fold = false ∧ p.stack ≠ 0 ∧ RaiseSituation g p)`. -/
theorem raise_refusal_exact {g : Game} {p : Player} (h : AtTurn g p) {seat : Option Nat} (hs : ByCur g seat) {x : Int}
    (hx1 : g.cw < x) :
    (g.step (.act seat .raise x) = (g, some .invalidAction) ↔ ¬ (p.fold = false ∧ p.stack ≠ 0 ∧ RaiseSituation g p)) ∧
    ((g.step (.act seat .raise x)).2 = none ↔ (p.fold = false ∧ p.stack ≠ 0 ∧ RaiseSituation g p)) := by
  rw [← raise_offered_iff_situation h]
  by_cases hr : Act.raise ∈ p.allowed
  · have hacc : (g.step (.act seat .raise x)).2 = none := by
      have hr' := hr
      rw [h.allowed_eq] at hr'
      rw [step_byCur hs, act_raise_dispatch h hr' hx1]
      split <;> rfl
    refine ⟨⟨fun e => ?_, fun n => absurd hr n⟩, ⟨fun _ => hr, fun _ => hacc⟩⟩
    rw [e] at hacc; cases hacc
  · have e := C12.raise_not_offered_refused h hr seat x
    refine ⟨⟨fun _ => hr, fun _ => e⟩, ⟨fun hacc => ?_, fun c => absurd c hr⟩⟩
    rw [e] at hacc; cases hacc

/-- `raise_refusal_exact` attached to `C12.raise_exact_unconditional` (no-limit, `cw < x < p.initial`, `x − cw ≥ prev`):
    carried out exactly iff the player has not folded, has chips and is in a `RaiseSituation`; refused without effect
    iff not. -/
theorem raise_exact_unconditional_iff {g : Game} {p : Player} (h : AtTurn g p) (hnl : g.opts.potLimit = false)
    {seat : Option Nat} (hs : ByCur g seat) {x : Int} (hx1 : g.cw < x) (hx2 : x < p.initial) (hx3 : x - g.cw ≥ g.prev) :
    ((p.fold = false ∧ p.stack ≠ 0 ∧ RaiseSituation g p) →
      (g.step (.act seat .raise x)).2 = none ∧ (g.step (.act seat .raise x)).1.cw = x ∧
      (g.step (.act seat .raise x)).1.raiser = g.cur ∧ (g.step (.act seat .raise x)).1.prev = x - g.cw ∧
      ∃ q, (g.step (.act seat .raise x)).1.players[g.cur]? = some q ∧ q.wager = x ∧
        q.stack = p.initial - x ∧ q.pot = p.pot ∧ q.bankroll = p.bankroll) ∧
    (¬ (p.fold = false ∧ p.stack ≠ 0 ∧ RaiseSituation g p) →
      g.step (.act seat .raise x) = (g, some .invalidAction)) := by
  constructor
  · intro hsit
    exact C12.raise_exact h hnl ((raise_offered_iff_situation h).mpr hsit) hs hx1 hx2 hx3
  · intro hn
    exact (raise_refusal_exact h hs hx1).1.mpr hn

/-- **Pot-limit, every case at once** (the pot-limit counterpart of `C12.raise_exact_unconditional`, all sizes): on a
    pot-limit table, for the player to act and ANY level `x` above the wager to match, `Raise(x)` is
    * refused with `ErrInvalidAction`, state untouched — exactly when raise is not offered;
    * otherwise accepted, and carried out
      - as an all-in (stack 0, the whole round-start stack wagered) when `x ≥ p.initial` or the lift is below the
        minimum raise;
      - exactly (`cw' = x`, `prev' = x − cw`) when `prev ≤ x − cw ≤ cw + prev` and `x < p.initial`;
      - as a raise by `cw + prev` (`cw' = 2·cw + prev`, `prev' = cw + prev`) when `x − cw > cw + prev` and `x < p.initial`.
    Nothing else can happen. -/
theorem raise_potlimit_cases {g : Game} {p : Player} (h : AtTurn g p) (hpl : g.opts.potLimit = true)
    {seat : Option Nat} (hs : ByCur g seat) {x : Int} (hx1 : g.cw < x) :
    (Act.raise ∉ p.allowed ∧ g.step (.act seat .raise x) = (g, some .invalidAction)) ∨
    (Act.raise ∈ p.allowed ∧ (g.step (.act seat .raise x)).2 = none ∧
      (((p.initial ≤ x ∨ x - g.cw < g.prev) ∧
          ∃ q, (g.step (.act seat .raise x)).1.players[g.cur]? = some q ∧ q.stack = 0 ∧ q.wager = p.initial) ∨
       ((x < p.initial ∧ g.prev ≤ x - g.cw ∧ x - g.cw ≤ g.cw + g.prev) ∧
          (g.step (.act seat .raise x)).1.cw = x ∧ (g.step (.act seat .raise x)).1.prev = x - g.cw ∧
          (g.step (.act seat .raise x)).1.raiser = g.cur ∧
          ∃ q, (g.step (.act seat .raise x)).1.players[g.cur]? = some q ∧ q.wager = x ∧ q.stack = p.initial - x) ∨
       ((x < p.initial ∧ x - g.cw > g.cw + g.prev) ∧
          (g.step (.act seat .raise x)).1.cw = 2 * g.cw + g.prev ∧
          (g.step (.act seat .raise x)).1.prev = g.cw + g.prev ∧
          (g.step (.act seat .raise x)).1.raiser = g.cur ∧
          ∃ q, (g.step (.act seat .raise x)).1.players[g.cur]? = some q ∧ q.wager = 2 * g.cw + g.prev ∧
            q.stack = p.initial - (2 * g.cw + g.prev)))) := by
  by_cases hr : Act.raise ∈ p.allowed
  · right
    have hp0 := h.chips.prev0
    have hcw0 := h.chips.cw0
    by_cases c1 : p.initial ≤ x
    · obtain ⟨a, q, hq, b, c⟩ := C12.raise_over_stack h hr hs hx1 c1
      exact ⟨hr, a, Or.inl ⟨Or.inl c1, q, hq, b, c⟩⟩
    · by_cases c2 : x - g.cw < g.prev
      · obtain ⟨a, q, hq, b, c⟩ := C12.raise_undersized h hr hs hx1 c2
        exact ⟨hr, a, Or.inl ⟨Or.inr c2, q, hq, b, c⟩⟩
      · by_cases c3 : x - g.cw ≤ g.cw + g.prev
        · obtain ⟨a, e1, e2, e3, q, hq, w, s, _⟩ :=
            raise_exact_potlimit h hpl hr hs hx1 (by omega) (by omega) c3
          exact ⟨hr, a, Or.inr (Or.inl ⟨⟨by omega, by omega, c3⟩, e1, e3, e2, q, hq, w, s⟩)⟩
        · obtain ⟨a, e1, e2, e3, _, _, _, q, hq, w, s, _⟩ :=
            raise_capped_potlimit h hpl hr hs (x := x) (by omega) (by omega)
          exact ⟨hr, a, Or.inr (Or.inr ⟨⟨by omega, by omega⟩, e1, e3, e2, q, hq, w, s⟩)⟩
  · exact Or.inl ⟨hr, C12.raise_not_offered_refused h hr seat x⟩

/-! ### Non-vacuity

  `Ex.gpl` (Proofs/PotLimitRaise.lean): the history of `Ex.g4` on a POT-LIMIT table — blinds 5/10, three stacks of 1000,
  flop, seat 1 bets 30; seat 2 (990 behind) faces 30 with the minimum raise at 30: the cap is a raise by 60, to 90. -/

example : AtTurn Ex.gpl (Ex.gpl.players[2]) ∧ Ex.gpl.opts.potLimit = true ∧ Act.raise ∈ (Ex.gpl.players[2]).allowed ∧
    ByCur Ex.gpl none ∧ Ex.gpl.cur = 2 ∧ Ex.gpl.cw = 30 ∧ Ex.gpl.prev = 30 ∧ (Ex.gpl.players[2]).initial = 990 :=
  ⟨⟨Ex.reach_gpl, by decide, rfl⟩, by decide, by decide, Or.inl rfl, by decide, by decide, by decide, by decide⟩

/-- (a) within the cap: `Raise(60)` (the minimum), `Raise(75)`, `Raise(90)` (the cap) are carried out exactly -/
example : ([60, 75, 90].map fun x : Int =>
      let r := Ex.gpl.step (.act none .raise x)
      (r.2, (r.1.cw, r.1.prev), r.1.raiser, r.1.players[2]?.map fun q => (q.stack, q.wager))) =
    [(none, (60, 30), 2, some (930, 60)), (none, (75, 45), 2, some (915, 75)), (none, (90, 60), 2, some (900, 90))] := by
  decide

/-- (b) above the cap: `Raise(91)`, `Raise(500)`, `Raise(989)` are all carried out as the raise by 60 to 90 -/
example : ([91, 500, 989].map fun x : Int =>
      let r := Ex.gpl.step (.act none .raise x)
      (r.2, (r.1.cw, r.1.prev), r.1.raiser, r.1.players[2]?.map fun q => (q.stack, q.wager))) =
    [(none, (90, 60), 2, some (900, 90)), (none, (90, 60), 2, some (900, 90)), (none, (90, 60), 2, some (900, 90))] := by
  decide

/-- (c) undersized (`Raise(45)`) and at/over the stack (`Raise(990)`, `Raise(5000)`): all-in for 990, cap or no cap -/
example : ([45, 990, 5000].map fun x : Int =>
      let r := Ex.gpl.step (.act none .raise x)
      (r.2, r.1.players[2]?.map fun q => (q.stack, q.wager))) =
    [(none, some (0, 990)), (none, some (0, 990)), (none, some (0, 990))] := by decide

/-- `raise_refusal_exact`, refusal side: `C12.exNotOffered` (the big blind seat, 50 chips, level with the wager to match
    10, minimum bet 100): not folded, has chips, but in no `RaiseSituation`; `Raise(30)` is refused. -/
example : AtTurn C12.exNotOffered (C12.exNotOffered.players[2]) ∧ ByCur C12.exNotOffered none ∧
    (C12.exNotOffered.players[2]).fold = false ∧ (C12.exNotOffered.players[2]).stack ≠ 0 ∧
    ¬ RaiseSituation C12.exNotOffered (C12.exNotOffered.players[2]) ∧
    (C12.exNotOffered.step (.act none .raise 30)).2 = some .invalidAction :=
  ⟨⟨C12.exNotOffered_reach, by decide, rfl⟩, Or.inl rfl, by decide, by decide, by unfold RaiseSituation; decide, by decide⟩

/-- … acceptance side: `Ex.g4` and `Ex.gpl`, seat 2 is behind (0 < 30) and holds 990 > 30 + 30 -/
example : RaiseSituation Ex.g4 (Ex.g4.players[2]) ∧ RaiseSituation Ex.gpl (Ex.gpl.players[2]) ∧
    (Ex.g4.players[2]).fold = false ∧ (Ex.g4.players[2]).stack ≠ 0 ∧
    (Ex.g4.step (.act none .raise 100)).2 = none := by
  refine ⟨?_, ?_, by decide, by decide, by decide⟩ <;> unfold RaiseSituation <;> decide

end Pokerface.C12P

section Axioms
open Pokerface.C12P
#print axioms raise_exact_within_cap
#print axioms raise_exact_potlimit
#print axioms raise_capped_potlimit
#print axioms raise_undersized_potlimit
#print axioms raise_over_stack_potlimit
#print axioms raise_offered_iff_situation
#print axioms raise_refusal_exact
#print axioms raise_exact_unconditional_iff
#print axioms raise_potlimit_cases
end Axioms
