import Pokerface.Properties.C10
import Pokerface.Properties.C14
/-
  C10 (continued) — "in variants that require a fixed number of hole cards the selection uses exactly
  that many", read off the PUBLISHED best hand.

  `C10.selections_spec_fixed` characterises the candidate selections and `C10.reported_hand_is_best`
  says the published `Combination.Cards` is a permutation of an admissible selection; here the count
  is stated on the published cards themselves: exactly `required` of them are the player's own hole
  cards (and the other `5 − required`, as far as the board has them, are board cards).
  Domain: every state reached by any sequence of operations from a successfully started hand of a
  well-formed configuration with a duplicate-free, long-enough deck (`ReachableC`, as in C14),
  `0 < required < 5`, `holeCount ≤ 4`, community cards on the board.
-/
namespace Pokerface.C10P
open Pokerface Pokerface.C10

/-- `x` is one of the cards `l` (Boolean membership test through the decidable equality of `Card`). -/
def isIn (l : List Card) (x : Card) : Bool := l.any (fun y => decide (y = x))

theorem isIn_iff (l : List Card) (x : Card) : isIn l x = true ↔ x ∈ l := by
  simp [isIn]

theorem isIn_false_iff (l : List Card) (x : Card) : isIn l x = false ↔ x ∉ l := by
  rw [← isIn_iff]; simp

/-- The count on an abstract `ReportedBest` combination: if the hole cards are pairwise distinct and
    none of them is on the board, a `ReportedBest` combination under the rule `req > 0` has exactly
    `min req hole.length` cards from the hole and `min (5 − req) board.length` cards not from it. -/
theorem reportedBest_hole_count {lvl : Cat → Nat} {pr : List Cat} {req : Nat} {board hole : List Card}
    {c : Comb} (hreq : 0 < req) (hdisj : ∀ x ∈ hole, x ∉ board)
    (hR : ReportedBest lvl pr req board hole c) :
    (c.cards.filter (isIn hole)).length = min req hole.length ∧
    (c.cards.filter (fun x => !isIn hole x)).length = min (5 - req) board.length ∧
    (∀ x ∈ c.cards, x ∈ hole ∨ x ∈ board) := by
  obtain ⟨sel, hadm, _, hperm, _⟩ := hR
  have hne : req ≠ 0 := by omega
  simp only [Admissible, hne, if_false] at hadm
  obtain ⟨hs, bs, rfl, hsub, hlen, bsub, blen⟩ := hadm
  have h1 : (hs ++ bs).filter (isIn hole) = hs := by
    rw [List.filter_append, List.filter_eq_self.2 (fun x hx => (isIn_iff hole x).2 (hsub.subset hx)),
      List.filter_eq_nil_iff.2 (fun x hx => by
        have := bsub.subset hx
        rw [isIn_iff]
        exact fun hh => hdisj x hh this)]
    simp
  have h2 : (hs ++ bs).filter (fun x => !isIn hole x) = bs := by
    rw [List.filter_append, List.filter_eq_nil_iff.2 (fun x hx => by
        simp only [Bool.not_eq_true', Bool.not_eq_false]
        exact (isIn_iff hole x).2 (hsub.subset hx)),
      List.filter_eq_self.2 (fun x hx => by
        have := bsub.subset hx
        simp only [Bool.not_eq_true']
        rw [isIn_false_iff]
        exact fun hh => hdisj x hh this)]
    simp
  refine ⟨?_, ?_, ?_⟩
  · rw [(hperm.filter _).length_eq, h1, hlen]
  · rw [(hperm.filter _).length_eq, h2, blen]
  · intro x hx
    have := hperm.subset hx
    simp only [List.mem_append] at this
    rcases this with h | h
    · exact Or.inl (hsub.subset h)
    · exact Or.inr (bsub.subset h)

/-- **"In variants that require a fixed number of hole cards the selection uses exactly that many"**,
    on the PUBLISHED hand, over all histories: for every well-formed configuration with a duplicate-free
    deck, `0 < RequiredHoleCardsCount ≤ HoleCardsCount ≤ 4`, in every state reached by any sequence of
    operations with community cards on the board, every seat has a published combination whose
    `Cards` contain exactly `required` of that seat's own hole cards; the remaining published cards
    are `min (5 − required) board.length` board cards. -/
theorem published_uses_required_hole_cards (cfg : Config) (ops : List Op)
    (wf : WFConfig cfg) (wc : WFCards cfg) (hs : (start cfg).2 = none)
    (hreq : 0 < cfg.opts.required) (hrh : cfg.opts.required ≤ cfg.opts.holeCount)
    (hhc : cfg.opts.holeCount ≤ 4) :
    let g := (start cfg).1.run ops
    g.board ≠ [] →
    ∀ p ∈ g.players, ∃ c, p.comb = some c ∧
      (c.cards.filter (isIn p.hole)).length = cfg.opts.required ∧
      (c.cards.filter (fun x => !isIn p.hole x)).length = min (5 - cfg.opts.required) g.board.length ∧
      (∀ x ∈ c.cards, x ∈ p.hole ∨ x ∈ g.board) := by
  intro g hne p hp
  have hreach : ReachableC g := ⟨cfg, ops, wf, wc, hs, rfl⟩
  obtain ⟨c, hc, hR⟩ := reported_hand_is_best cfg ops (by omega) hhc hne p hp
  have hplaces := (C14.no_card_in_two_places hreach).2.1 p hp
  obtain ⟨h1, h2, h3⟩ := reportedBest_hole_count hreq (fun x hx => (hplaces.2 x hx).1) hR
  refine ⟨c, hc, ?_, h2, h3⟩
  rw [h1]
  -- the seat holds `holeCount` cards as soon as the board is not empty
  have hcnt := C14.counts hreach
  have hround : g.round ≠ .none := by
    intro hr
    have := hcnt.2.1
    rw [hr] at this
    exact hne (List.eq_nil_of_length_eq_zero this)
  have hlen := hcnt.1 p hp
  rw [if_neg hround, (C10.domain_bounds_on_all_histories cfg ops).1] at hlen
  omega

/-! ## Non-vacuity: an Omaha-like hand (4 hole cards, exactly 2 required) played to the flop -/

namespace Examples
open Pokerface.C14.Examples

/-- the three-seat configuration of the C14 examples with 4 hole cards of which exactly 2 count -/
def omahaCfg : Config := { exCfg with opts := { exMeta with holeCount := 4, required := 2 } }

theorem omahaWF : WFConfig omahaCfg := ⟨⟨by decide, by decide, by decide, by decide⟩⟩
theorem omahaWFC : WFCards omahaCfg := ⟨by decide, by decide⟩
theorem omahaStart : (start omahaCfg).2 = none := by decide

set_option maxRecDepth 100000 in
/-- the hypotheses hold on the flop of that hand: three board cards, four hole cards per seat -/
theorem omahaFlop : ((start omahaCfg).1.run opsFlop).board.length = 3 ∧
    ((start omahaCfg).1.run opsFlop).players.map (·.hole.length) = [4, 4, 4] := by decide +kernel

/-- `published_uses_required_hole_cards` applied to that flop: every seat's published hand has
    exactly 2 of its own hole cards and 3 board cards. -/
example : ∀ p ∈ ((start omahaCfg).1.run opsFlop).players, ∃ c, p.comb = some c ∧
    (c.cards.filter (isIn p.hole)).length = 2 ∧
    (c.cards.filter (fun x => !isIn p.hole x)).length = 3 := by
  intro p hp
  have hb : ((start omahaCfg).1.run opsFlop).board ≠ [] := by
    intro h; have := omahaFlop.1; rw [h] at this; exact absurd this (by decide)
  obtain ⟨c, hc, h1, h2, _⟩ := published_uses_required_hole_cards omahaCfg opsFlop omahaWF omahaWFC omahaStart
    (by decide) (by decide) (by decide) hb p hp
  refine ⟨c, hc, h1, ?_⟩
  rw [h2, omahaFlop.1]; rfl

end Examples

end Pokerface.C10P

#print axioms Pokerface.C10P.reportedBest_hole_count
#print axioms Pokerface.C10P.published_uses_required_hole_cards
