import Pokerface.Proofs.Int64Base
import Pokerface.Proofs.BetsExamples
/-
  Int64Exact — the sentence of the trusted base "no int64 overflow: the unchanged code compares
  before it subtracts" as theorems (C12 "every amount argument a caller can pass", C01).

  The model computes in `Int`; the Go code in `int64`.  The two agree as long as every value the Go
  code computes lies in `[-2^63, 2^63)`.  `intermediates g i a x` lists, in evaluation order, every
  arithmetic expression player.go evaluates when action `a` with amount `x` is requested for seat `i`
  in state `g` — only the expressions actually reached (an expression behind a refusing guard is not
  computed).  `no_overflow`: on a reachable state, with fewer than 2^62 chips in the hand and forced
  bets below 2^62, all of them fit for EVERY int64 amount `x`.
-/
namespace Pokerface.I64
open Pokerface Game

/-! ### 1. the chip fields are bounded by the chips in the hand -/

/-- Item 1, per player and round pot: in every reachable state, with `T = total g` the sum of the
    bankrolls, `0 ≤ stack, wager, pot ≤ bankroll ≤ T`, `0 ≤ initial ≤ bankroll`, `0 ≤ roundPot ≤ T`. -/
theorem fields_bounded {g : Game} (h : Reachable g) :
    (∀ p ∈ g.players, 0 ≤ p.stack ∧ p.stack ≤ p.bankroll ∧ 0 ≤ p.wager ∧ p.wager ≤ p.bankroll ∧
      0 ≤ p.pot ∧ p.pot ≤ p.bankroll ∧ 0 ≤ p.initial ∧ p.initial ≤ p.bankroll ∧ p.bankroll ≤ total g) ∧
    0 ≤ g.roundPot ∧ g.roundPot ≤ total g := by
  have hi := inv_reachable h
  refine ⟨fun p hp => ?_, roundPot_bounds hi.chips0⟩
  have := pinv_facts hi.chips0.pinv p hp
  omega

/-- `total` is the configured sum: the bankrolls never change -/
example : total Ex.g1 = 3000 := by decide

/-! ### 2. what player.go computes -/

/-- player.go `pay(chips, isWager)` -/
def payI (g : Game) (i : Nat) (chips : Int) (isWager : Bool) : List Int :=
  match g.players[i]? with
  | none => []
  | some p =>
    if p.stack ≤ chips then                        -- `if p.state.StackSize <= chips {` (a comparison)
      [ p.initial - p.wager,                       -- `p.state.InitialStackSize - p.state.Wager`
        g.roundPot + (p.initial - p.wager) ] ++    -- `gs.Status.CurrentRoundPot += …`
      (if g.opts.potLimit then                     -- `if gs.Meta.Limit == "pot" {`
        [ g.roundPot + (p.initial - p.wager) + g.prev ]  -- `gs.Status.MaxWager = gs.Status.CurrentRoundPot + gs.Status.PreviousRaiseSize`
       else []) ++
      (if isWager then
        [ p.initial - g.cw,                        -- `raised := p.state.InitialStackSize - gs.Status.CurrentWager`
          g.cw + g.prev ]                          -- `minRaise := gs.Status.CurrentWager + gs.Status.PreviousRaiseSize`
       else [])
    else
      [ p.wager + chips,                           -- `p.state.Wager += chips`
        p.initial - (p.wager + chips),             -- `p.state.StackSize = p.state.InitialStackSize - p.state.Wager`
        g.roundPot + chips ] ++                    -- `gs.Status.CurrentRoundPot += chips`
      (if g.opts.potLimit then
        [ g.roundPot + chips + g.prev ]            -- `gs.Status.MaxWager = gs.Status.CurrentRoundPot + gs.Status.PreviousRaiseSize`
       else [])

/-- player.go `Call()` after its `CheckAction` guard -/
def callI (g : Game) (i : Nat) : List Int :=
  match g.players[i]? with
  | none => []
  | some p =>
    [ g.cw - p.wager ] ++                          -- `delta := gs.Status.CurrentWager - p.state.Wager`
    (if g.cw < g.opts.blindBB then                 -- `if gs.Status.CurrentWager < gs.Meta.Blind.BB {`
      [ g.opts.blindBB - p.wager ]                 -- `delta = gs.Meta.Blind.BB - p.state.Wager`
     else []) ++
    payI g i (if g.cw < g.opts.blindBB then g.opts.blindBB - p.wager else g.cw - p.wager) true  -- `p.pay(delta, true)`

/-- player.go `Allin()` after its `CheckAction` guard -/
def allinI (g : Game) (i : Nat) : List Int :=
  match g.players[i]? with
  | none => []
  | some p =>
    [ p.initial - g.cw ] ++                        -- `raised := p.state.InitialStackSize - gs.Status.CurrentWager`
    -- `if raised >= gs.Status.PreviousRaiseSize { gs.Status.PreviousRaiseSize = raised }`, `p.pay(p.state.StackSize, true)`
    payI (if p.initial - g.cw ≥ g.prev then g.setPrev (p.initial - g.cw) else g) i p.stack true

/-- Item 2: every arithmetic expression player.go evaluates for action `a` with amount `x` on seat `i`, in
    evaluation order, only those reached.  (`Pass`, `Fold`, `Check` compute nothing; `Pay` is never offered by
    `GetAvailableActions`, its body is `pay(chips, true)`.) -/
def intermediates (g : Game) (i : Nat) (a : Act) (x : Int) : List Int :=
  match a with
  | .pass | .fold | .check => []
  | .pay => if !g.allows i .pay then [] else payI g i x true
  | .call => if !g.allows i .call then [] else callI g i
  | .allin => if !g.allows i .allin then [] else allinI g i
  | .bet =>
    if !g.allows i .bet then []                    -- `if !p.CheckAction("bet") {`
    else if x < 0 then []                          -- `if chips < 0 {`
    else payI g i x true                           -- `p.pay(chips, true)`; then `PreviousRaiseSize = p.state.Wager` (a copy)
  | .raise =>
    if !g.allows i .raise then []                  -- `if !p.CheckAction("raise") {`
    else if x = 0 ∨ x < g.cw then []               -- `if chipLevel == 0 || chipLevel < gs.Status.CurrentWager {`
    else if x = g.cw then                          -- `if chipLevel == gs.Status.CurrentWager { return p.Call() }`
      (if !g.allows i .call then [] else callI g i)
    else
      match g.players[i]? with
      | none => []
      | some p =>
        [ x - g.cw,                                -- `raised := chipLevel - gs.Status.CurrentWager`
          x - p.wager ] ++                         -- `required := chipLevel - p.state.Wager`
        (if x ≥ p.initial ∨ x - g.cw < g.prev then -- `if chipLevel >= p.state.InitialStackSize || raised < gs.Status.PreviousRaiseSize { return p.Allin() }`
          (if !g.allows i .allin then [] else allinI g i)
         else
          (if g.opts.potLimit then                 -- `if gs.Meta.Limit == "pot" {`
            [ g.cw + g.prev ] ++                   -- `maxRaise := gs.Status.CurrentWager + gs.Status.PreviousRaiseSize`
            (if x - g.cw > g.cw + g.prev then      -- `if raised > maxRaise {`
              [ g.cw + g.prev + g.cw,              -- `maxRaise + gs.Status.CurrentWager`
                g.cw + g.prev + g.cw - p.wager ]   -- `required = maxRaise + gs.Status.CurrentWager - p.state.Wager`
             else [])
           else []) ++
          -- `gs.Status.PreviousRaiseSize = raised`, `p.pay(required, true)`
          (let capped := g.opts.potLimit && decide (x - g.cw > g.cw + g.prev)
           payI (g.setPrev (if capped then g.cw + g.prev else x - g.cw)) i
             (if capped then g.cw + g.prev + g.cw - p.wager else x - p.wager) true))

/-! ### 3. they all fit -/

/-- the numeric facts about a state that the proof uses -/
structure Small (g : Game) : Prop where
  pinv : ∀ p ∈ g.players, PInv p
  tot : total g < 2^62
  rp0 : 0 ≤ g.roundPot
  rpT : g.roundPot ≤ total g
  rpS : ∀ p ∈ g.players, g.roundPot + p.stack ≤ total g
  cw0 : 0 ≤ g.cw
  cwS : g.cw < 2^62
  prev0 : 0 ≤ g.prev
  prevS : g.prev < 2^62
  bb0 : 0 ≤ g.opts.blindBB
  bbS : g.opts.blindBB < 2^62

theorem small_setPrev {g : Game} (s : Small g) (v : Int) (h0 : 0 ≤ v) (h1 : v < 2^62) : Small (g.setPrev v) :=
  { s with prev0 := h0, prevS := h1 }

theorem payI_fits {g : Game} (s : Small g) (i : Nat) (chips : Int) (hc : 0 ≤ chips) (w : Bool) :
    AllFit (payI g i chips w) := by
  unfold payI
  split
  · exact allFit_nil
  · rename_i p hp
    have := pinv_facts s.pinv p (List.mem_of_getElem? hp)
    have := s.rpS p (List.mem_of_getElem? hp)
    have := s.tot; have := s.rp0; have := s.rpT; have := s.cw0; have := s.cwS; have := s.prev0; have := s.prevS
    split
    · refine allFit_append (allFit_append (allFit_cons ?_ (allFit_cons ?_ allFit_nil)) ?_) ?_
      · unfold Fits; omega
      · unfold Fits; omega
      · split
        · exact allFit_cons (by unfold Fits; omega) allFit_nil
        · exact allFit_nil
      · split
        · exact allFit_cons (by unfold Fits; omega) (allFit_cons (by unfold Fits; omega) allFit_nil)
        · exact allFit_nil
    · refine allFit_append (allFit_cons ?_ (allFit_cons ?_ (allFit_cons ?_ allFit_nil))) ?_
      · unfold Fits; omega
      · unfold Fits; omega
      · unfold Fits; omega
      · split
        · exact allFit_cons (by unfold Fits; omega) allFit_nil
        · exact allFit_nil

theorem callI_fits {g : Game} (s : Small g) (i : Nat) (hw : ∀ p ∈ g.players, p.wager ≤ g.cw) :
    AllFit (callI g i) := by
  unfold callI
  split
  · exact allFit_nil
  · rename_i p hp
    have hm := List.mem_of_getElem? hp
    have := pinv_facts s.pinv p hm
    have := hw p hm
    have := s.tot; have := s.cw0; have := s.cwS; have := s.bb0; have := s.bbS
    refine allFit_append (allFit_append (allFit_cons (by unfold Fits; omega) allFit_nil) ?_) ?_
    · split
      · exact allFit_cons (by unfold Fits; omega) allFit_nil
      · exact allFit_nil
    · apply payI_fits s
      split <;> omega

theorem allinI_fits {g : Game} (s : Small g) (i : Nat) : AllFit (allinI g i) := by
  unfold allinI
  split
  · exact allFit_nil
  · rename_i p hp
    have := pinv_facts s.pinv p (List.mem_of_getElem? hp)
    have := s.tot; have := s.cw0; have := s.cwS; have := s.prev0
    refine allFit_append (allFit_cons (by unfold Fits; omega) allFit_nil) ?_
    split
    · exact payI_fits (small_setPrev s _ (by omega) (by omega)) i _ (by omega) true
    · exact payI_fits s i _ (by omega) true

/-- Item 3 given the numeric facts `Small g` and "no wager above the wager to match": every int64 amount `x`. -/
theorem intermediates_fit {g : Game} (s : Small g) (hw : ∀ p ∈ g.players, p.wager ≤ g.cw)
    (hpay : ∀ i, g.allows i .pay = false) (i : Nat) (a : Act) (x : Int) (hx' : Fits x) :
    AllFit (intermediates g i a x) := by
  unfold intermediates
  cases a with
  | pass => exact allFit_nil
  | fold => exact allFit_nil
  | check => exact allFit_nil
  | pay => simp only [hpay i]; exact allFit_nil
  | call =>
    simp only
    split
    · exact allFit_nil
    · exact callI_fits s i hw
  | allin =>
    simp only
    split
    · exact allFit_nil
    · exact allinI_fits s i
  | bet =>
    simp only
    split
    · exact allFit_nil
    · split
      · exact allFit_nil
      · exact payI_fits s i x (by omega) true
  | raise =>
    simp only
    split
    · exact allFit_nil
    · split
      · exact allFit_nil
      · rename_i hx
        split
        · split
          · exact allFit_nil
          · exact callI_fits s i hw
        · rename_i hne
          split
          · exact allFit_nil
          · rename_i p hp
            have hm := List.mem_of_getElem? hp
            have := pinv_facts s.pinv p hm
            have := hw p hm
            have := s.tot; have := s.cw0; have := s.cwS; have := s.prev0; have := s.prevS
            split
            · -- the request is turned into an all-in: `x` may be anything up to 2^63 - 1
              rename_i hall
              unfold Fits at hx'
              refine allFit_append (allFit_cons (by unfold Fits; omega) (allFit_cons (by unfold Fits; omega) allFit_nil)) ?_
              split
              · exact allFit_nil
              · exact allinI_fits s i
            · rename_i hnot
              refine allFit_append (allFit_cons (by unfold Fits; omega) (allFit_cons (by unfold Fits; omega) allFit_nil)) ?_
              refine allFit_append ?_ ?_
              · split
                · refine allFit_append (allFit_cons (by unfold Fits; omega) allFit_nil) ?_
                  split
                  · exact allFit_cons (by unfold Fits; omega) (allFit_cons (by unfold Fits; omega) allFit_nil)
                  · exact allFit_nil
                · exact allFit_nil
              · skip
                apply payI_fits
                · apply small_setPrev s
                  · split <;> omega
                  · split <;> omega
                · split <;> omega

theorem pay_never_allowed {g : Game} (h : Reachable g) (i : Nat) : g.allows i .pay = false := by
  cases hA : g.allows i .pay with
  | false => rfl
  | true =>
    obtain ⟨p, _, _, _, hav⟩ := allows_spec (inv_reachable h) hA
    exact absurd hav (not_available_pay g p)

/-- Item 3, partial: `no_overflow` under the additional hypothesis that the wager to match and the recorded raise
    size are below 2^62 (discharged by `table_fields_bounded` when that is available). -/
theorem no_overflow_partial {g : Game} (h : Reachable g) (hT : total g < 2^62) (hbb : g.opts.blindBB < 2^62)
    (hcw : g.cw < 2^62) (hprev : g.prev < 2^62) (i : Nat) (a : Act) (x : Int) (hx : Fits x) :
    ∀ v ∈ intermediates g i a x, Fits v := by
  have hi := inv_reachable h
  have rp := roundPot_bounds hi.chips0
  have s : Small g := ⟨hi.chips0.pinv, hT, rp.1, rp.2, roundPot_stack hi.chips0, hi.chips0.cw0, hcw, hi.chips0.prev0, hprev, hi.opts.bb0, hbb⟩
  by_cases he : g.event = .roundStarted
  · exact intermediates_fit s (hi.wle (by rw [he]; simp)) (pay_never_allowed h) i a x hx
  · -- nothing is offered outside a betting round: every guard refuses
    have hno : ∀ b, g.allows i b = false := by
      intro b
      cases hA : g.allows i b with
      | false => rfl
      | true => obtain ⟨_, _, he', _, _⟩ := allows_spec hi hA; exact absurd he' he
    intro v hv
    have hnil : intermediates g i a x = [] := by
      cases a <;> first | rfl | (simp only [intermediates, hno]; rfl) | simp [intermediates, hno]
    rw [hnil] at hv; cases hv

/-- Non-vacuity: blinds 5/10, three stacks of 1000, the dealer to act facing the big blind; `Raise(2^63 - 1)` — the
    largest int64 — computes `raised`, `required`, then goes through `Allin()` and `pay`, all int64. -/
example : Reachable Ex.g1 ∧ total Ex.g1 < 2^62 ∧ Fits (2^63 - 1) ∧
    (intermediates Ex.g1 0 .raise (2^63 - 1)).take 3 = [2^63 - 1 - 10, 2^63 - 1, 990] ∧
    intermediates Ex.g1 0 .raise (-(2^63)) = [] ∧ intermediates Ex.g1 0 .bet (-(2^63)) = [] :=
  ⟨Ex.reach_g1, by decide, by unfold Fits; omega, by decide, by decide, by decide⟩

/-- Item 1, table fields, kept open: the wager to match never exceeds `T`; the recorded raise size never exceeds the
    largest of `T`, the big blind and the dealer blind.  (`cw` is only ever set to a wager or a round-start stack,
    `prev` to a wager, a difference of those, or the blind; the proof needs a new invariant carried through `step` as
    `Inv` is — not done in the time given.) -/
def table_fields_bounded_full : Prop :=
  ∀ {g : Game}, Reachable g → ∀ {M : Int}, total g ≤ M → g.opts.blindBB ≤ M → g.opts.blindDealer ≤ M →
    0 ≤ g.cw ∧ g.cw ≤ M ∧ 0 ≤ g.prev ∧ g.prev ≤ M

/-- Item 3 in full: follows from `no_overflow_partial` and `table_fields_bounded_full` (with `M = 2^62 - 1`). -/
def no_overflow_full : Prop :=
  ∀ {g : Game}, Reachable g → total g < 2^62 → g.opts.ante < 2^62 → g.opts.blindDealer < 2^62 →
    g.opts.blindSB < 2^62 → g.opts.blindBB < 2^62 →
    ∀ (i : Nat) (a : Act) (x : Int), Fits x → ∀ v ∈ intermediates g i a x, Fits v

theorem no_overflow_of_table_fields (hb : table_fields_bounded_full) : no_overflow_full := by
  intro g h hT _ hbd _ hbb i a x hx
  have := hb h (M := 2^62 - 1) (by omega) (by omega) (by omega)
  exact no_overflow_partial h hT hbb (by omega) (by omega) i a x hx

end Pokerface.I64
