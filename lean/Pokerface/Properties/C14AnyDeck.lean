import Pokerface.Properties.C14
import Pokerface.Proofs.CardsAnyDeck
/-
  C14 (continued) — "cards once dealt never change", for ALL deck contents.

  `C14.cards_stable(_run)` and `C14.holes_fixed` are stated over `ReachableC`, whose configurations have
  a duplicate-free deck; the clause does not depend on that.  The theorems below quantify over
  `ReachableL g` (Proofs/GapsBCards.lean): every state reached by ANY sequence of operations (accepted
  or refused) from a successfully started hand of ANY configuration whose deck merely satisfies
  `seats·holeCount + 8 ≤ deck.length` — any deck contents, duplicates included.
-/
namespace Pokerface.C14A
open Pokerface Game

/-- **"Cards once dealt never change"**, one operation, ANY deck contents: for every reachable state
    `g` and every operation `op` (accepted or refused) the deck list is unchanged, the cursor does not
    move back, every non-empty hand of hole cards is unchanged, and the old board and burned lists are
    prefixes of the new ones. -/
theorem cards_stable_any_deck {g : Game} (h : ReachableL g) (op : Op) : Stable g (g.step op).1 :=
  stable_stepL g (cinvL_reachable h) op

/-- The same over any further history. -/
theorem cards_stable_run_any_deck {g : Game} (h : ReachableL g) (ops : List Op) : Stable g (g.run ops) :=
  stable_runL g (cinvL_reachable h) ops

/-- From the preflop round on, nobody's hole cards change any more, for ANY deck contents (also when
    `holeCount = 0`, where `Stable.holes` says nothing). -/
theorem holes_fixed_any_deck {g : Game} (h : ReachableL g) (hr : g.round ≠ .none) (ops : List Op) :
    (g.run ops).players.map (·.hole) = g.players.map (·.hole) := by
  have hi := cinvL_reachable h
  have hs := stable_runL g hi ops
  have hi' := cinvL_run g hi ops
  apply List.ext_getElem?
  intro k
  simp only [List.getElem?_map]
  by_cases hk : k < g.players.length
  · have hk' : k < (g.run ops).players.length := by rw [hs.seats]; exact hk
    rw [List.getElem?_eq_getElem hk, List.getElem?_eq_getElem hk']
    simp only [Option.map_some, Option.some.injEq]
    by_cases hne : g.players[k].hole = []
    · have h0 := hi.core.holes _ (List.getElem_mem hk)
      rw [hne, holeCountNow_of_ne hr] at h0
      have h1 := hi'.core.holes _ (List.getElem_mem hk')
      have : (g.run ops).holeCountNow ≤ (g.run ops).opts.holeCount := by
        unfold Game.holeCountNow; split <;> omega
      have hopts : (g.run ops).opts.holeCount = g.opts.holeCount := by rw [opts_runL g hi ops]
      rw [hne]
      apply List.eq_nil_of_length_eq_zero
      simp only [List.length_nil] at h0
      omega
    · exact hs.holes k _ _ (List.getElem?_eq_getElem hk) (List.getElem?_eq_getElem hk') hne
  · have hk' : ¬ k < (g.run ops).players.length := by rw [hs.seats]; exact hk
    rw [List.getElem?_eq_none (by omega), List.getElem?_eq_none (by omega)]

/-- The board and the burned cards of a later state extend those of an earlier one (projection of
    `cards_stable_run_any_deck` on the community cards). -/
theorem board_grows_any_deck {g : Game} (h : ReachableL g) (ops : List Op) :
    g.board <+: (g.run ops).board ∧ g.burned <+: (g.run ops).burned :=
  ⟨(cards_stable_run_any_deck h ops).board, (cards_stable_run_any_deck h ops).burned⟩

namespace Examples
open Pokerface.C14.Examples

set_option maxRecDepth 100000

/-- The hypotheses are met by a deck that is NOT duplicate-free (7 copies each of three cards), at a
    state where cards are out (flop dealt), and the later state really differs (river dealt). -/
example : ¬ dupDeck.Nodup ∧ ((start dupCfg).1.run opsFlop).round = .flop ∧
    ((start dupCfg).1.run opsShowdown).round = .river ∧
    ((start dupCfg).1.run opsFlop).board.length = 3 ∧ ((start dupCfg).1.run opsShowdown).board.length = 5 := by
  decide

/-- instance of `holes_fixed_any_deck` between the flop and the showdown of the duplicate deck -/
example : (((start dupCfg).1.run opsFlop).run
      ([.ready] ++ check3 ++ [.next, .ready] ++ check3 ++ [.next, .ready] ++ check3 ++ [.next])).players.map (·.hole)
    = ((start dupCfg).1.run opsFlop).players.map (·.hole) :=
  holes_fixed_any_deck (dupReach opsFlop) (by decide) _

example : ((start dupCfg).1.run opsFlop).players.map (·.hole.length) = [2, 2, 2] := by decide

end Examples

end Pokerface.C14A

#print axioms Pokerface.C14A.cards_stable_any_deck
#print axioms Pokerface.C14A.cards_stable_run_any_deck
#print axioms Pokerface.C14A.holes_fixed_any_deck
#print axioms Pokerface.C14A.board_grows_any_deck
