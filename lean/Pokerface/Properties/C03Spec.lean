import Pokerface.Model.Cards
/-!
  C03 — the declarative specification of the poker order.

  Nothing in this file refers to the evaluator (`Model/Eval.lean`) or to the
  generated constants: it is the yardstick the evaluator is measured against in
  `Properties/C03.lean`.  It is a separate file only because the proof files
  (`Proofs/Eval*.lean`) have to import it.

  Everything is a function of the *multiset* of ranks (the ranks are consulted
  through `List.count` only) and of the flush flag, so it does not depend on the
  order of the cards in the hand.
-/
namespace Pokerface.C03

/-- The ranks of a deck, highest first (ace = 14). -/
def ranksDesc : List Nat := [14, 13, 12, 11, 10, 9, 8, 7, 6, 5, 4, 3, 2]

/-- The ranks that occur exactly `k` times in the hand, highest first. -/
def ranksWith (rs : List Nat) (k : Nat) : List Nat :=
  ranksDesc.filter (fun r => rs.count r == k)

/-- The five ranks of the straight whose top card is `t`.  The ace plays low only
    in the five-high straight 5-4-3-2-A. -/
def run (t : Nat) : List Nat :=
  if t = 5 then [5, 4, 3, 2, 14] else [t, t - 1, t - 2, t - 3, t - 4]

/-- `some t` when the hand consists of exactly the ranks of the straight with top
    card `t` (`t` from ace down to five), `none` when it is no straight. -/
def straightTop (rs : List Nat) : Option Nat :=
  [14, 13, 12, 11, 10, 9, 8, 7, 6, 5].find? (fun t => (run t).all (fun r => rs.count r == 1))

/-- Category of a five-card hand from its ranks and whether all suits are equal:
    by the numbers of ranks occurring four, three and two times; without any
    repeated rank, by straight and flush. -/
def specCat (rs : List Nat) (flush : Bool) : Cat :=
  match (ranksWith rs 4).length, (ranksWith rs 3).length, (ranksWith rs 2).length with
  | 1, _, _ => .quads
  | _, 1, 1 => .fullHouse
  | _, 1, _ => .trips
  | _, _, 2 => .twoPair
  | _, _, 1 => .pair
  | _, _, _ =>
    match straightTop rs, flush with
    | some _, true => .straightFlush
    | some _, false => .straight
    | none, true => .flush
    | none, false => .highCard

/-- What decides between two hands of the same category: for straights the top
    card (five for the wheel A-5-4-3-2, which is therefore the lowest); otherwise
    the ranks of the groups, larger groups first, higher rank first among groups
    of equal size. -/
def specTiebreak (rs : List Nat) : List Nat :=
  match straightTop rs with
  | some t => [t]
  | none => ranksWith rs 4 ++ ranksWith rs 3 ++ ranksWith rs 2 ++ ranksWith rs 1

/-- The ranks of the cards of a hand. -/
def ranks (h : List Card) : List Nat := h.map (·.rank)

/-- All cards of the hand have the same suit. -/
def sameSuit (h : List Card) : Bool := h.all (fun c => h.all (fun d => c.suit == d.suit))

/-- The strength of a hand under the rules of poker: position of its category in
    the ranking table of the variant, then the tiebreak. -/
structure PokerKey where
  catIdx : Nat
  tiebreak : List Nat
deriving DecidableEq, Repr

/-- Lexicographic order: first the category index, then the tiebreak lists, which
    are themselves compared lexicographically (`<` on `List Nat` is Lean's
    lexicographic order `List.Lex`). -/
instance : LT PokerKey :=
  ⟨fun k₁ k₂ => k₁.catIdx < k₂.catIdx ∨ (k₁.catIdx = k₂.catIdx ∧ k₁.tiebreak < k₂.tiebreak)⟩

theorem PokerKey.lt_def (k₁ k₂ : PokerKey) :
    k₁ < k₂ ↔ k₁.catIdx < k₂.catIdx ∨ (k₁.catIdx = k₂.catIdx ∧ k₁.tiebreak < k₂.tiebreak) := Iff.rfl

/-- `pokerKey T h`: `T` is the ranking table of the variant, weakest category first
    (`List.idxOf` is the position of the first occurrence). -/
def pokerKey (T : List Cat) (h : List Card) : PokerKey :=
  { catIdx := T.idxOf (specCat (ranks h) (sameSuit h)), tiebreak := specTiebreak (ranks h) }

/-- The hands the property speaks about, described by what the evaluator can
    see of them: five cards with ranks 2..14, no rank five times, and if all suits
    are equal then no rank twice.  Every five distinct cards of a four-suit deck
    satisfy it (`Pokerface.C03.valid_of_distinct` in `Properties/C03.lean`). -/
structure Valid (h : List Card) : Prop where
  five : h.length = 5
  inRange : ∀ c ∈ h, 2 ≤ c.rank ∧ c.rank ≤ 14
  atMostFour : ∀ r, (ranks h).count r ≤ 4
  flushDistinct : sameSuit h = true → (ranks h).Nodup

/-- The hand consists of the ranks A, 9, 8, 7, 6 (each exactly once).  By the rules
    of short deck this is the lowest straight; the evaluator treats it as no
    straight; the property leaves its class open, so the short-deck theorems
    exclude it by hypothesis. -/
def isA6789 (h : List Card) : Bool := [14, 9, 8, 7, 6].all (fun r => (ranks h).count r == 1)

end Pokerface.C03
