/-
  LinksTableOpens — link 3 of LinksTable ("who acts first") WITHOUT its hypothesis `hopen`.

  `LinksT.table_first_to_act…` inherit from `C04.first_preflop` the hypothesis "the `ReadyForAll` after the forced bets
  actually opens a betting round".  `C05.preflop_opens_iff` (Properties/C05Opens.lean) characterises it; here it is stated
  in the terms of the TABLE: the round opens iff the player on some playable seat has a bankroll (on the sheet of the
  table) that exceeds the ante plus the blind his seat owes (`owedAt`, LinksTable).  Same setting as links 1–3:
  `HandOff t t' seats m`.
-/
import Pokerface.Properties.LinksTable
import Pokerface.Properties.C05Opens

namespace Pokerface.LinksT
open Pokerface Table SM Game

/-- the player on seat `s` has a bankroll (on the sheet of the table; 0 for an empty seat) that exceeds the ante plus the
    blind the seat owes -/
def SeatCanMove (t' : Table) (m : Meta) (s : Nat) : Prop := m.ante + owedAt t'.sm m s < bank (t'.playerAt s)

instance (t' : Table) (m : Meta) (s : Nat) : Decidable (SeatCanMove t' m s) := by unfold SeatCanMove; exact inferInstance

theorem owedAt_nonneg (sm : SM) {m : Meta} (wf : OptsOK m) (s : Nat) : 0 ≤ owedAt sm m s := by
  have := wf.bb0; have := wf.sb0; have := wf.bd0
  unfold owedAt
  split
  · omega
  · split
    · split
      · split <;> omega
      · omega
    · split <;> omega

/-- **When the first betting round opens, by seat of the seat manager** (C08Table ∘ C13 ∘ C05Opens).  The `ReadyForAll`
    after the forced bets opens the preflop betting round IFF the player on some playable seat has a table bankroll that
    exceeds the ante plus the blind his seat owes.  Seat by seat: the game player `k` (on the playable seat `seats[k]`) has
    chips left after the forced bets iff `SeatCanMove` holds for his seat; and nobody has folded. -/
theorem table_preflop_opens_iff {t t' : Table} {seats : List Nat} {m : Meta} (h : HandOff t t' seats m) :
    (((afterForcedBets ⟨m, t'.gameSeats seats⟩).step .ready).1.event = .roundStarted ↔ ∃ s ∈ seats, SeatCanMove t' m s) ∧
    (∀ (k s : Nat), seats[k]? = some s → ∃ q, (afterForcedBets ⟨m, t'.gameSeats seats⟩).players[k]? = some q ∧
      q.fold = false ∧ 0 ≤ q.stack ∧ (0 < q.stack ↔ SeatCanMove t' m s)) := by
  obtain ⟨hacc, ⟨_, _, _, hreach, hn⟩, hpl, _⟩ := table_forced_bets_by_seat h
  obtain ⟨_, _, _, _, _, _, _, _, _, _, _, _, _, _, _, _, _, hlen⟩ := h.layout
  have hnf := noFold_afterForcedBets _ hacc.started
  have ha := h.opts.ante0
  have hseat : ∀ (k s : Nat), seats[k]? = some s → ∃ q, (afterForcedBets ⟨m, t'.gameSeats seats⟩).players[k]? = some q ∧
      q.fold = false ∧ 0 ≤ q.stack ∧ (0 < q.stack ↔ SeatCanMove t' m s) := by
    intro k s hk
    obtain ⟨p, q, hp, hq, _, _, _, hpot, hw, hst, _⟩ := hpl k s hk
    have ho := owedAt_nonneg t'.sm h.opts s
    have hb : bank (t'.playerAt s) = p.bankroll := by rw [playerAt_eq_some.mpr hp]; rfl
    refine ⟨q, hq, hnf q (List.mem_of_getElem? hq), by omega, ?_⟩
    unfold SeatCanMove
    rw [hb]
    omega
  refine ⟨?_, hseat⟩
  rw [C05.preflop_opens_iff_movable hacc]
  constructor
  · intro hne
    obtain ⟨j, q, hq, _, hs0⟩ := exists_of_movable_ne_zero hne
    have hj : j < seats.length := by
      have := (List.getElem?_eq_some_iff.mp hq).1
      simp only [Game.n] at hn; omega
    obtain ⟨q', hq', _, h0, hiff⟩ := hseat j seats[j] (List.getElem?_eq_getElem hj)
    rw [hq] at hq'
    cases hq'
    exact ⟨seats[j], List.getElem_mem hj, hiff.mp (by omega)⟩
  · rintro ⟨s, hs, hc⟩
    obtain ⟨k, hk⟩ := List.getElem?_of_mem hs
    obtain ⟨q, hq, hf, _, hiff⟩ := hseat k s hk
    exact movable_pos_of_seat hq hf (hiff.mpr hc)

/-- **Link 3, general form, without `hopen`.**  When the player on some playable seat has a table bankroll that exceeds the
    ante plus the blind his seat owes, the `ReadyForAll` after the forced bets opens the first betting round, and the player
    asked first is the game player `cwNext n kb` sitting on the FIRST PLAYABLE SEAT CLOCKWISE AFTER THE SEAT MANAGER'S
    BIG-BLIND SEAT (conclusion of `table_first_to_act`). -/
theorem table_first_to_act_open {t t' : Table} {seats : List Nat} {m : Meta} (h : HandOff t t' seats m)
    (hmove : ∃ s ∈ seats, SeatCanMove t' m s) :
    ((afterForcedBets ⟨m, t'.gameSeats seats⟩).step .ready).1.event = .roundStarted ∧
    ∃ b kb x, t'.sm.bb = some b ∧ seats[kb]? = some b ∧
      (kb = if t'.sm.sb = t'.sm.dealer then 1 else 2) ∧
      ((afterForcedBets ⟨m, t'.gameSeats seats⟩).step .ready).1.cur = cwNext seats.length kb ∧
      seats[((afterForcedBets ⟨m, t'.gameSeats seats⟩).step .ready).1.cur]? = some x ∧
      IsNextAfter t'.sm b x ∧
      Reachable ((afterForcedBets ⟨m, t'.gameSeats seats⟩).step .ready).1 :=
  have hopen := (table_preflop_opens_iff h).1.mpr hmove
  ⟨hopen, table_first_to_act h hopen⟩

/-- **Link 3, heads-up, without `hopen`.** -/
theorem table_first_to_act_heads_up_open {t t' : Table} {seats : List Nat} {m : Meta} (h : HandOff t t' seats m)
    (h2 : t'.sm.playableCount = 2) (hmove : ∃ s ∈ seats, SeatCanMove t' m s) :
    ((afterForcedBets ⟨m, t'.gameSeats seats⟩).step .ready).1.event = .roundStarted ∧
    ((afterForcedBets ⟨m, t'.gameSeats seats⟩).step .ready).1.cur = 0 ∧ seats[0]? = t'.sm.dealer ∧
    t'.sm.sb = t'.sm.dealer :=
  have hopen := (table_preflop_opens_iff h).1.mpr hmove
  ⟨hopen, table_first_to_act_heads_up h h2 hopen⟩

/-- **Link 3, ring, without `hopen`.** -/
theorem table_first_to_act_ring_open {t t' : Table} {seats : List Nat} {m : Meta} (h : HandOff t t' seats m)
    (d s : Nat) (hd : t'.sm.dealer = some d) (hs : t'.sm.sb = some s) (hna : IsNextAfter t'.sm d s)
    (hmove : ∃ s ∈ seats, SeatCanMove t' m s) :
    ((afterForcedBets ⟨m, t'.gameSeats seats⟩).step .ready).1.event = .roundStarted ∧
    3 ≤ t'.sm.playableCount ∧
    ((afterForcedBets ⟨m, t'.gameSeats seats⟩).step .ready).1.cur = (if t'.sm.playableCount = 3 then 0 else 3) ∧
    ∃ b x, t'.sm.bb = some b ∧ seats[0]? = some d ∧ seats[1]? = some s ∧ seats[2]? = some b ∧
      seats[((afterForcedBets ⟨m, t'.gameSeats seats⟩).step .ready).1.cur]? = some x ∧ IsNextAfter t'.sm b x ∧
      (t'.sm.playableCount = 3 → x = d) :=
  have hopen := (table_preflop_opens_iff h).1.mpr hmove
  ⟨hopen, table_first_to_act_ring h d s hd hs hna hopen⟩

/-- It is enough that the player on the BIG-BLIND seat can cover ante + big blind with a chip to spare. -/
theorem bb_seat_can_move {t t' : Table} {seats : List Nat} {m : Meta} (h : HandOff t t' seats m)
    (hbb : ∀ b p, t'.sm.bb = some b → t'.players[b]? = some (some p) → m.ante + m.blindBB < p.bankroll) :
    ∃ s ∈ seats, SeatCanMove t' m s := by
  obtain ⟨_, _, _, _, _, b, _, _, hb, _, _, hbs, hob, _⟩ := table_forced_bets_by_seat h
  obtain ⟨k, hk⟩ := List.getElem?_of_mem hbs
  obtain ⟨_, p, hp, _, _⟩ := h.entry hk
  refine ⟨b, hbs, ?_⟩
  unfold SeatCanMove
  rw [hob, playerAt_eq_some.mpr hp]
  exact hbb b p hb hp

/-- **The everyday case.**  When every player on a playable seat has a table bankroll that exceeds ante + big blind + dealer
    blind, the first betting round opens and the first to act is the player on the first playable seat clockwise after the
    big-blind seat (game player `cwNext n kb`; heads-up the dealer, in a ring of three the dealer, else game player 3 — see
    `table_first_to_act_heads_up_open`, `table_first_to_act_ring_open`).  (Only the big-blind seat's bankroll matters:
    `bb_seat_can_move`.) -/
theorem table_first_to_act_everyday {t t' : Table} {seats : List Nat} {m : Meta} (h : HandOff t t' seats m)
    (hall : ∀ s ∈ seats, ∀ p, t'.players[s]? = some (some p) → m.ante + m.blindBB + m.blindDealer < p.bankroll) :
    ((afterForcedBets ⟨m, t'.gameSeats seats⟩).step .ready).1.event = .roundStarted ∧
    ∃ b kb x, t'.sm.bb = some b ∧ seats[kb]? = some b ∧
      (kb = if t'.sm.sb = t'.sm.dealer then 1 else 2) ∧
      ((afterForcedBets ⟨m, t'.gameSeats seats⟩).step .ready).1.cur = cwNext seats.length kb ∧
      seats[((afterForcedBets ⟨m, t'.gameSeats seats⟩).step .ready).1.cur]? = some x ∧
      IsNextAfter t'.sm b x ∧
      Reachable ((afterForcedBets ⟨m, t'.gameSeats seats⟩).step .ready).1 := by
  apply table_first_to_act_open h
  apply bb_seat_can_move h
  intro b p hb hp
  obtain ⟨_, _, _, _, _, b', _, _, hb', _, _, hbs, _⟩ := table_forced_bets_by_seat h
  rw [hb] at hb'
  cases hb'
  have := hall b hbs p hp
  have := h.opts.bd0
  omega

/-- **The other case, at the table.**  When no player on a playable seat has a table bankroll that exceeds the ante plus the
    blind his seat owes (everybody is all-in from the forced bets), the `ReadyForAll` after the forced bets closes the preflop
    round at once — nobody is asked, nobody is offered anything — with all `playableCount` players still in; flop, turn and
    river are then dealt by `Next` without a betting round and the fourth `Next` closes the hand at showdown, on a full board
    when the deck holds `n·hole + 8` cards (`C05.preflop_closed_without_betting`). -/
theorem table_all_in_from_forced_bets {t t' : Table} {seats : List Nat} {m : Meta} (h : HandOff t t' seats m)
    (hnone : ∀ s ∈ seats, ¬ SeatCanMove t' m s) :
    ((afterForcedBets ⟨m, t'.gameSeats seats⟩).step .ready).1.event = .roundClosed ∧
    (∀ p ∈ ((afterForcedBets ⟨m, t'.gameSeats seats⟩).step .ready).1.players, p.allowed = []) ∧
    ((afterForcedBets ⟨m, t'.gameSeats seats⟩).step .ready).1.aliveCount = t'.sm.playableCount ∧
    (∀ k ≤ 2, (((afterForcedBets ⟨m, t'.gameSeats seats⟩).step .ready).1.run (List.replicate (k + 1) .next)).event = .roundClosed ∧
      (((afterForcedBets ⟨m, t'.gameSeats seats⟩).step .ready).1.run (List.replicate (k + 1) .next)).round.idx = k + 2) ∧
    (((afterForcedBets ⟨m, t'.gameSeats seats⟩).step .ready).1.run [.next, .next, .next, .next]).event = .gameClosed ∧
    (((afterForcedBets ⟨m, t'.gameSeats seats⟩).step .ready).1.run [.next, .next, .next, .next]).aliveCount = t'.sm.playableCount ∧
    (t'.sm.playableCount * m.holeCount + 8 ≤ m.deck.length →
      (((afterForcedBets ⟨m, t'.gameSeats seats⟩).step .ready).1.run [.next, .next, .next, .next]).board.length = 5) := by
  obtain ⟨hacc, _, _⟩ := table_accepted h
  obtain ⟨_, _, _, _, _, _, _, _, _, _, _, _, _, _, _, _, _, hlen⟩ := h.layout
  have hl : (⟨m, t'.gameSeats seats⟩ : Config).seats.length = t'.sm.playableCount := by
    rw [← hlen]; exact gameSeats_length _ _
  have hno : ¬ ((afterForcedBets ⟨m, t'.gameSeats seats⟩).step .ready).1.event = .roundStarted := by
    intro ho
    obtain ⟨s, hs, hc⟩ := (table_preflop_opens_iff h).1.mp ho
    exact hnone s hs hc
  have hcfg : ∀ s ∈ (⟨m, t'.gameSeats seats⟩ : Config).seats, ¬ C05.CanMove m s := by
    intro s hs hc
    exact hno ((C05.preflop_opens_iff hacc).2.2.1.mpr ⟨s, hs, hc⟩)
  obtain ⟨_, hc, _, hal, _, _, hst, hcl, hal4, hb⟩ := C05.preflop_closed_without_betting hacc hcfg
  obtain ⟨_, hoff, _⟩ := (C05.preflop_opens_iff hacc).2.2.2.1 hcfg
  rw [hl] at hal hal4 hb
  exact ⟨hc, hoff, hal, hst, hcl, hal4, hb⟩

/-! ## Non-vacuity -/

/-- `demo` (players with 100, 200, 50 chips on seats 0, 2, 3; blinds 5 / 10): every playable seat can move -/
example : ∀ s ∈ [0, 2, 3], SeatCanMove C08T.demo.setupPosition.1 demoMeta s := by decide

/-- … so `table_first_to_act_open` applies: the round opens and the player of seat 0 is asked -/
example : ((afterForcedBets ⟨demoMeta, C08T.demo.setupPosition.1.gameSeats [0, 2, 3]⟩).step .ready).1.event = .roundStarted :=
  (table_first_to_act_open demo_handOff ⟨0, by decide, by decide⟩).1

/-- `table_first_to_act_ring_open` on `demo`: seat 2 is the first playable seat after the dealer's seat 0; three playable seats,
    the dealer is asked first -/
example : 3 ≤ C08T.demo.setupPosition.1.sm.playableCount ∧
    ((afterForcedBets ⟨demoMeta, C08T.demo.setupPosition.1.gameSeats [0, 2, 3]⟩).step .ready).1.cur =
      (if C08T.demo.setupPosition.1.sm.playableCount = 3 then 0 else 3) :=
  let r := table_first_to_act_ring_open demo_handOff 0 2 (by decide) (by decide)
    ⟨2, by omega, by decide, by decide, by decide, fun j h1 h2 => by
      have : j = 1 := by omega
      subst this; decide⟩ ⟨0, by decide, by decide⟩
  ⟨r.2.1, r.2.2.1⟩

/-- the hypothesis of `table_first_to_act_everyday` on `demo`: 0 + 10 + 0 < 100, 200, 50 -/
example : ∀ s ∈ [0, 2, 3], demoMeta.ante + demoMeta.blindBB + demoMeta.blindDealer <
    bank (C08T.demo.setupPosition.1.playerAt s) := by decide

/-- the same table with an ante of 200 and blinds 5 / 10: everybody is all-in from the ante -/
def allInMeta : Meta := Ex.opts 200 0 5 10

theorem demo_handOff_allIn : HandOff C08T.demo C08T.demo.setupPosition.1 [0, 2, 3] allInMeta :=
  ⟨C08T.demo_reachable.inv, by decide, pair_of_snd (by decide), by decide,
   fun _ _ hp _ => funded_of_all (by decide) hp, Ex.optsOK _ _ _ _ (by decide), by decide⟩

/-- the hypothesis of `table_all_in_from_forced_bets` holds, and (computed on the engine) the round is closed at once, nobody
    is offered anything, and the hand closes on five cards after four `Next` -/
example : (∀ s ∈ [0, 2, 3], ¬ SeatCanMove C08T.demo.setupPosition.1 allInMeta s) ∧
    (let g := ((afterForcedBets ⟨allInMeta, C08T.demo.setupPosition.1.gameSeats [0, 2, 3]⟩).step .ready).1
     g.event = .roundClosed ∧ g.players.map (·.allowed) = [[], [], []] ∧ g.players.map (·.stack) = [0, 0, 0] ∧
     (g.run [.next, .next, .next, .next]).event = .gameClosed ∧ (g.run [.next, .next, .next, .next]).board.length = 5) := by
  decide

/-- heads-up (`demo2`: 60 chips on the dealer's seat 1, 100 on seat 3) with blinds 60 / 100: both all-in from the blinds;
    with blinds 5 / 10 the round opens and the dealer acts first -/
def bigBlinds : Meta := Ex.opts 0 0 60 100

example : (∀ s ∈ [1, 3], ¬ SeatCanMove C08T.demo2.setupPosition.1 bigBlinds s) ∧
    ((afterForcedBets ⟨bigBlinds, C08T.demo2.setupPosition.1.gameSeats [1, 3]⟩).step .ready).1.event = .roundClosed ∧
    (∃ s ∈ [1, 3], SeatCanMove C08T.demo2.setupPosition.1 demoMeta s) ∧
    ((afterForcedBets ⟨demoMeta, C08T.demo2.setupPosition.1.gameSeats [1, 3]⟩).step .ready).1.event = .roundStarted := by
  decide

example : ((afterForcedBets ⟨demoMeta, C08T.demo2.setupPosition.1.gameSeats [1, 3]⟩).step .ready).1.cur = 0 :=
  (table_first_to_act_heads_up_open demo2_handOff (by decide) ⟨1, by decide, by decide⟩).2.1

end Pokerface.LinksT

section Axioms
open Pokerface.LinksT
#print axioms table_preflop_opens_iff
#print axioms table_first_to_act_open
#print axioms table_first_to_act_heads_up_open
#print axioms table_first_to_act_ring_open
#print axioms bb_seat_can_move
#print axioms table_first_to_act_everyday
#print axioms table_all_in_from_forced_bets
#print axioms demo_handOff_allIn
end Axioms
