import Pokerface.Proofs.CombosReport
import Pokerface.Proofs.CombosEngineBounds
import Pokerface.Generated.Tables
/-
  C10 — Each player's reported hand is their true best hand.

  "Whenever community cards are on the board, the hand reported for every player is a
  five-card selection from that player's own hole cards and the board that no other
  admissible selection beats; in variants that require a fixed number of hole cards the
  selection uses exactly that many.  The reported category, cards and strength describe one
  and the same hand, and that strength is the one the showdown compares."

  Specification-level notions used below (defined next to the lemmas about them):
  * `bitCount v n`, `wordsOfWeight k n`, `gospersCut`       — Proofs/CombosGosper.lean
  * `Admissible board hole req s`                           — Proofs/CombosSelect.lean
  * `SortedDescPermOf l l'` (an outcome of `sort.Slice`)    — Proofs/CombosBest.lean
  * `Game.CombFresh g`, `Game.CombInv g`, `combOfPower`,
    `showdownStrength p`, `showdownInput pots players`      — Proofs/CombosEngine.lean
  * `Game.BoundInv g` (board ≤ 5, hole ≤ holeCount, …)      — Proofs/CombosEngineBounds.lean
  `ReportedBest` (what C10 demands of one published combination) is defined here.

  Domain: `gospersHack` is verified on the whole domain the engine reaches — at most
  4 hole cards and 5 board cards, i.e. `n ≤ 9` — by kernel evaluation of the finite table;
  the pure-function theorems carry `hole.length ≤ 4`, `board.length ≤ 5` (or the weaker `≤ 9`) and
  `required < 5` as hypotheses (`required ≥ 5` makes Go divide by zero in `gospersHack(0, n)`:
  observation O4 of DESIGN §7, outside the domain).  The all-histories theorem
  `reported_hand_is_best` only assumes `required < 5` and `holeCount ≤ 4` of the configuration:
  the size bounds on board and hole cards are proved as an invariant of all histories.
-/
namespace Pokerface.C10
open Pokerface Pokerface.Game

/-! ## 1. `gospersHack` enumerates the `k`-subsets of `n` positions -/

/-- Sentence "five-card selection" (enumeration soundness+completeness, bit level):
    for every `n ≤ 9` and `0 < k ≤ n`, `gospersHack k n` is the list of numbers below `2^n`
    with exactly `k` one-bits, in ascending order, each once (the right-hand side is a filter
    of `List.range (2^n)`, spelled out here with no auxiliary definition). -/
theorem gospers_spec {n k : Nat} (hn : n ≤ 9) (hk : 0 < k) (hkn : k ≤ n) :
    gospersHack k n =
      (List.range (2 ^ n)).filter (fun v => ((List.range n).filter (fun i => v.testBit i)).length == k) :=
  gospersHack_eq hn hk hkn

/-- Fuel sufficiency (DESIGN §4 "loops … take fuel with a proved sufficiency lemma"): on that
    domain the model's loop ends because `cur ≥ limit`, as in Go, never because the fuel ran out
    (`gospersCut` follows the same recursion and returns `true` iff fuel hits 0 with `cur < limit`). -/
theorem gospers_fuel_sufficient {n k : Nat} (hn : n ≤ 9) (hk : 0 < k) (hkn : k ≤ n) :
    gospersCut (1 <<< n) (1 <<< n) ((1 <<< k) - 1) = false := by
  have h := gospersCheck_of_le hn hk hkn
  simp only [gospersCheck, Bool.and_eq_true, Bool.not_eq_true'] at h
  exact h.2

/-- The enumeration is strictly ascending, hence duplicate-free. -/
theorem gospers_ascending {n k : Nat} (hn : n ≤ 9) (hk : 0 < k) (hkn : k ≤ n) :
    (gospersHack k n).Pairwise (· < ·) := by
  rw [gospers_spec hn hk hkn]
  exact List.Pairwise.filter _ List.pairwise_lt_range

example : gospersHack 5 7 = [31, 47, 55, 59, 61, 62, 79, 87, 91, 93, 94, 103, 107, 109, 110, 115,
    117, 118, 121, 122, 124] := by decide
example : (gospersHack 2 4).length = 6 ∧ (gospersHack 3 5).length = 10 := by decide

/-! ## 2. The enumerated selections are exactly the admissible ones -/

/-- `GetPossibleCombinations(cards, n)` for `0 < n` and at most 9 cards: a list `s` occurs iff
    it is a sub-list of `cards` (cards in their original relative order) with `min n |cards|`
    elements.  For `|cards| ≤ n` this says the only selection is `cards` itself. -/
theorem selections_spec {α : Type} [Inhabited α] {cards : List α} {n : Nat}
    (hn : 0 < n) (hlen : cards.length ≤ 9) (s : List α) :
    s ∈ possibleCombinations cards n ↔ s.Sublist cards ∧ s.length = min n cards.length :=
  mem_possibleCombinations hn hlen s

/-- … and for `|cards| ≤ n` the result is literally `[cards]`. -/
theorem selections_all_when_few {α : Type} [Inhabited α] {cards : List α} {n : Nat}
    (h : cards.length ≤ n) : possibleCombinations cards n = [cards] := by
  simp [possibleCombinations, h]

/-- Sentence 1, rule "any five" (`required = 0`): the candidates are exactly the five-element
    sub-lists of the player's own hole cards followed by the board (all cards when there are
    at most five). -/
theorem selections_spec_any {α : Type} [Inhabited α] {board hole : List α}
    (hall : hole.length + board.length ≤ 9) (s : List α) :
    s ∈ allPossibleCombinations board hole 0 ↔
      s.Sublist (hole ++ board) ∧ s.length = min 5 (hole.length + board.length) := by
  rw [mem_allPossibleCombinations (by omega) (by omega) (by omega) (fun _ => hall)]
  simp [Admissible]

/-- Sentence 1, second half ("in variants that require a fixed number of hole cards the selection
    uses exactly that many"): for `required = k`, `0 < k < 5`, the candidates are exactly the
    `hs ++ bs` with `hs` a `k`-element sub-list of the hole cards and `bs` a `(5-k)`-element
    sub-list of the board (all of them when fewer are available). -/
theorem selections_spec_fixed {α : Type} [Inhabited α] {board hole : List α} {k : Nat}
    (hk : 0 < k) (hk5 : k < 5) (hh : hole.length ≤ 9) (hb : board.length ≤ 9) (s : List α) :
    s ∈ allPossibleCombinations board hole k ↔
      ∃ hs bs, s = hs ++ bs ∧ hs.Sublist hole ∧ hs.length = min k hole.length ∧
        bs.Sublist board ∧ bs.length = min (5 - k) board.length := by
  rw [mem_allPossibleCombinations hk5 hh hb (fun h => by omega)]
  have : k ≠ 0 := by omega
  simp [Admissible, this]

/-- Both rules at once, through the predicate `Admissible`. -/
theorem selections_spec_all {α : Type} [Inhabited α] {board hole : List α} {req : Nat}
    (hreq : req < 5) (hh : hole.length ≤ 4) (hb : board.length ≤ 5) (s : List α) :
    s ∈ allPossibleCombinations board hole req ↔ Admissible board hole req s :=
  mem_allPossibleCombinations hreq (by omega) (by omega) (fun _ => by omega) s

/-- An admissible selection consists of the player's own hole cards and the board only, … -/
theorem admissible_own_cards {α : Type} {board hole : List α} {req : Nat} {s : List α}
    (h : Admissible board hole req s) : s.Sublist (hole ++ board) := h.sublist

/-- … and has exactly five cards as soon as enough cards are out (post-flop hold'em: `req = 0`,
    2 + 3 cards; Omaha-like: `req = 2`, 4 hole cards, 3 board cards). -/
theorem admissible_five {α : Type} {board hole : List α} {req : Nat} {s : List α}
    (h : Admissible board hole req s) (hreq : req ≤ 5) (hh : req ≤ hole.length)
    (hb : 5 - req ≤ board.length) : s.length = 5 := h.length_eq_five hreq hh hb

/-- For pairwise distinct cards (a deck has no duplicates) no candidate is enumerated twice, under
    either rule. -/
theorem selections_each_once {α : Type} [Inhabited α] {board hole : List α} {req : Nat}
    (hreq : req < 5) (hh : hole.length ≤ 4) (hb : board.length ≤ 5) (hnd : (hole ++ board).Nodup) :
    (allPossibleCombinations board hole req).Nodup :=
  nodup_allPossibleCombinations hreq (by omega) (by omega) (fun _ => by omega) hnd

/-- The two counts that `combination_test.go` checks on one input hold for every input of that
    shape: C(7,5) = 21 candidates for 2 + 5 cards under "any five", and C(4,2)·C(5,3) = 60 for
    4 + 5 cards under "exactly two". -/
theorem selections_count {α : Type} [Inhabited α] {board hole : List α} (hb : board.length = 5) :
    (hole.length = 2 → (allPossibleCombinations board hole 0).length = 21) ∧
    (hole.length = 4 → (allPossibleCombinations board hole 2).length = 60) :=
  ⟨fun hh => length_allPossibleCombinations_any (by omega),
   fun hh => length_allPossibleCombinations_two_of_four hh hb⟩

example : (allPossibleCombinations [10, 11, 12, 13, 14] [1, 2] 0).length = 21 ∧
    (allPossibleCombinations [10, 11, 12, 13, 14] [1, 2, 3, 4] 2).length = 60 := by decide
example : Admissible [10, 11, 12, 13, 14] [1, 2, 3, 4] 2 [2, 4, 10, 12, 13] :=
  (selections_spec_all (by decide) (by decide) (by decide) _).mp (by decide)
example : ¬ Admissible [10, 11, 12, 13, 14] [1, 2, 3, 4] 2 [2, 10, 11, 12, 13] := by
  intro h; exact absurd ((selections_spec_all (by decide) (by decide) (by decide) _).mpr h) (by decide)

/-! ## 3. The first element after sorting by score is a maximum — for ANY sort outcome -/

/-- Sentence 1 ("that no other admissible selection beats"), stated for every order Go's
    `sort.Slice(powers, Score >)` may produce (DESIGN §4: only "sorted permutation" is trusted):
    if `l'` is a permutation of the scored candidates `l` in which scores never increase, then
    its first element is one of the candidates and no candidate has a larger score. -/
theorem best_is_max {l l' : List Power} (h : SortedDescPermOf l l') {p : Power}
    (hp : l'.head? = some p) : p ∈ l ∧ ∀ q ∈ l, q.score ≤ p.score :=
  head_of_sortedDescPerm h hp

/-- `powers[0]` exists for every such outcome as soon as there is a candidate (Go would panic
    otherwise). -/
theorem best_exists {l l' : List Power} (h : SortedDescPermOf l l') (hne : l ≠ []) :
    l'.head?.isSome := sortedDescPerm_head_isSome h hne

/-- The model's `bestPower` returns a candidate of maximal score, … -/
theorem bestPower_is_max {l : List Power} {p : Power} (h : bestPower l = some p) :
    p ∈ l ∧ ∀ q ∈ l, q.score ≤ p.score := bestPower_spec h

/-- … and it is the head of one of the sorted permutations, i.e. one of the outcomes Go may
    produce.  (All outcomes have the same score; category and cards may differ among ties.) -/
theorem bestPower_is_some_sort_outcome {l : List Power} {p : Power} (h : bestPower l = some p) :
    ∃ l', SortedDescPermOf l l' ∧ l'.head? = some p := bestPower_is_sorted_head h

/-- All sort outcomes agree on the strength. -/
theorem best_score_unique {l l₁ l₂ : List Power} (h₁ : SortedDescPermOf l l₁) (h₂ : SortedDescPermOf l l₂)
    {p₁ p₂ : Power} (hp₁ : l₁.head? = some p₁) (hp₂ : l₂.head? = some p₂) : p₁.score = p₂.score := by
  have a := best_is_max h₁ hp₁
  have b := best_is_max h₂ hp₂
  exact Nat.le_antisymm (b.2 _ a.1) (a.2 _ b.1)

example : SortedDescPermOf
    [⟨.pair, 5, []⟩, ⟨.flush, 9, []⟩, ⟨.trips, 9, []⟩] [⟨.trips, 9, []⟩, ⟨.flush, 9, []⟩, ⟨.pair, 5, []⟩] := by
  constructor
  · exact (List.Perm.swap _ _ _).trans ((List.Perm.swap _ _ _).cons _) |>.trans (List.Perm.swap _ _ _)
  · simp

/-! ## 4. Category, cards and strength describe one and the same hand -/

/-- What C10 demands of the combination `c` published for a player holding `hole` on `board`,
    under ranking table `pr`/`lvl` and rule `req`:
    there is an admissible selection `sel` such that the reported cards are `sel` sorted by rank
    (a permutation of it), the reported category and strength are those `CalculatePower` assigns
    to the reported cards themselves (and re-evaluating reports the same cards again), and no
    admissible selection — handed to `CalculatePower` in any order — evaluates to a larger
    strength. -/
def ReportedBest (lvl : Cat → Nat) (pr : List Cat) (req : Nat) (board hole : List Card) (c : Comb) : Prop :=
  ∃ sel, Admissible board hole req sel ∧
    c.cards = sortCards sel ∧ c.cards.Perm sel ∧
    c.cat = some (calculatePower lvl pr c.cards).cat ∧
    c.power = (calculatePower lvl pr c.cards).score ∧
    (calculatePower lvl pr c.cards).cards = c.cards ∧
    ∀ adm sel', Admissible board hole req adm → sel'.Perm adm →
      (calculatePower lvl pr sel').score ≤ c.power

/-- Any scored candidate that no candidate beats yields a `ReportedBest` combination when published
    the way `UpdateCombinationOfAllPlayers` does (`combOfPower`). -/
theorem reportedBest_of_max {lvl : Cat → Nat} {pr : List Cat} {board hole : List Card} {req : Nat}
    (hreq : req < 5) (hh : hole.length ≤ 4) (hb : board.length ≤ 5) {pw : Power}
    (hm : pw ∈ (allPossibleCombinations board hole req).map (calculatePower lvl pr))
    (hmax : ∀ q ∈ (allPossibleCombinations board hole req).map (calculatePower lvl pr), q.score ≤ pw.score) :
    ReportedBest lvl pr req board hole (combOfPower pw) := by
  obtain ⟨sel, hsel, rfl⟩ := List.mem_map.mp hm
  have hA := selections_spec_all (board := board) (hole := hole) hreq hh hb
  have hc : (combOfPower (calculatePower lvl pr sel)).cards = (calculatePower lvl pr sel).cards := rfl
  refine ⟨sel, (hA sel).mp hsel, rfl, sortCards_perm sel, ?_, ?_, ?_, ?_⟩
  · show some _ = some _
    rw [hc, calculatePower_cards]
  · show (calculatePower lvl pr sel).score = _
    rw [hc, calculatePower_cards]
  · rw [hc, calculatePower_cards]
  · intro adm sel' hadm hperm
    rw [(calculatePower_of_perm lvl pr hperm).2]
    exact hmax _ (List.mem_map_of_mem ((hA adm).mpr hadm))

/-- Sentences 1 and 2 for EVERY outcome Go's `sort.Slice` may produce in `GetAllPowersByPlayer`:
    whichever descending-sorted permutation `l'` of the scored candidates comes out, publishing
    `powers[0]` gives a `ReportedBest` combination (and `powers[0]` exists). -/
theorem any_sort_outcome_reported {lvl : Cat → Nat} {pr : List Cat} {board hole : List Card} {req : Nat}
    (hreq : req < 5) (hh : hole.length ≤ 4) (hb : board.length ≤ 5) {l' : List Power}
    (hs : SortedDescPermOf ((allPossibleCombinations board hole req).map (calculatePower lvl pr)) l') :
    ∃ pw, l'.head? = some pw ∧ ReportedBest lvl pr req board hole (combOfPower pw) := by
  have hne : (allPossibleCombinations board hole req).map (calculatePower lvl pr) ≠ [] := by
    simp only [ne_eq, List.map_eq_nil_iff]
    exact allPossibleCombinations_ne_nil hreq (by omega) (by omega) (fun _ => by omega)
  obtain ⟨pw, hpw⟩ := Option.isSome_iff_exists.mp (best_exists hs hne)
  have ⟨hm, hmax⟩ := best_is_max hs hpw
  exact ⟨pw, hpw, reportedBest_of_max hreq hh hb hm hmax⟩

/-- The evaluation of five cards depends on the cards only, not on the order in which they are
    handed over (so "admissible selection" may be read as a set of cards). -/
theorem evaluation_order_independent (lvl : Cat → Nat) (pr : List Cat) {l₁ l₂ : List Card}
    (h : l₁.Perm l₂) :
    (calculatePower lvl pr l₁).cat = (calculatePower lvl pr l₂).cat ∧
    (calculatePower lvl pr l₁).score = (calculatePower lvl pr l₂).score :=
  calculatePower_of_perm lvl pr h

/-- `CalculatePlayerPower` + the three assignments of `UpdateCombinationOfAllPlayers` in the model
    (which picks the first maximal candidate): a best hand is always returned on the domain, and
    the combination published from it is `ReportedBest`. -/
theorem playerPower_reported {lvl : Cat → Nat} {pr : List Cat} {board hole : List Card} {req : Nat}
    (hreq : req < 5) (hh : hole.length ≤ 4) (hb : board.length ≤ 5) :
    ∃ pw, playerPower lvl pr board hole req = some pw ∧
      ReportedBest lvl pr req board hole (combOfPower pw) := by
  obtain ⟨pw, hpw⟩ := playerPower_isSome (lvl := lvl) (pr := pr) hreq
    (show hole.length ≤ 9 by omega) (show board.length ≤ 9 by omega) (fun _ => by omega)
  have ⟨hm, hmax⟩ := bestPower_spec hpw
  exact ⟨pw, hpw, reportedBest_of_max hreq hh hb hm hmax⟩

/-- Sentence 2 ("The reported category, cards and strength describe one and the same hand"), and
    sentence 1, on the engine: right after `UpdateCombinationOfAllPlayers`, every player that has
    a combination object has a `ReportedBest` one for the current board and their own hole cards.
    Hypotheses: the domain (`required < 5`, at most 4 hole cards, at most 5 board cards). -/
theorem reported_consistent (g : Game) (hreq : g.opts.required < 5) (hb : g.board.length ≤ 5)
    (p : Player) (hp : p ∈ g.updateCombinations.players) (hh : p.hole.length ≤ 4)
    (c : Comb) (hc : p.comb = some c) :
    ReportedBest g.opts.lvl g.opts.table g.opts.required g.board p.hole c := by
  obtain ⟨pw, hpw, hR⟩ := playerPower_reported (lvl := g.opts.lvl) (pr := g.opts.table) hreq hh hb
  have := combFresh_updateCombinations g p hp pw hpw
  rw [hc] at this
  rcases this with h | h
  · exact absurd h (by simp)
  · simp only [Option.some.injEq] at h
    rw [h]; exact hR

/-- The same for any state whose combinations are fresh (see §5 for when that is). -/
theorem reported_of_fresh (g : Game) (hf : g.CombFresh) (hreq : g.opts.required < 5)
    (hb : g.board.length ≤ 5) (p : Player) (hp : p ∈ g.players) (hh : p.hole.length ≤ 4)
    (c : Comb) (hc : p.comb = some c) :
    ReportedBest g.opts.lvl g.opts.table g.opts.required g.board p.hole c := by
  obtain ⟨pw, hpw, hR⟩ := playerPower_reported (lvl := g.opts.lvl) (pr := g.opts.table) hreq hh hb
  have := hf p hp pw hpw
  rw [hc] at this
  rcases this with h | h
  · exact absurd h (by simp)
  · simp only [Option.some.injEq] at h
    rw [h]; exact hR

/-! ## 5. Engine: recomputed on every street; the showdown compares the published strength -/

/-- Mechanism "recomputed whenever a street is dealt": whatever the state, after
    `InitializeRound` (+ the handlers it triggers) every published combination is the one
    `CalculatePlayerPower` gives for the board as it is now and the player's own hole cards. -/
theorem recomputed_on_initializeRound (g : Game) : g.initializeRound.CombFresh :=
  combFresh_initializeRound g

/-- Whole-operation form: after ANY operation (from ANY state) that changes the board, every
    published combination is the one for the new board. -/
theorem recomputed_each_street (g : Game) (op : Op) (h : (g.step op).1.board ≠ g.board) :
    (g.step op).1.CombFresh := combFresh_of_board_changed g op h

/-- … likewise after any operation that changes the street, … -/
theorem recomputed_each_round (g : Game) (op : Op) (h : (g.step op).1.round ≠ g.round) :
    (g.step op).1.CombFresh := combFresh_of_round_changed g op h

/-- … and no operation ever makes a fresh combination stale: nothing but `InitializeRound`
    touches board, hole cards, rule, ranking table or the published combinations. -/
theorem fresh_preserved (g : Game) (op : Op) (h : g.CombFresh) : (g.step op).1.CombFresh :=
  combFresh_step g op h

/-- All histories: in every state reached from `NewGame(opts).Start()` by any sequence of
    operations (accepted or refused), if community cards are on the board — or merely a street
    has been entered — every published combination is fresh. -/
theorem fresh_on_all_histories (c : Config) (ops : List Op) :
    let g := (start c).1.run ops
    (g.board ≠ [] ∨ g.round ≠ .none) → g.CombFresh := by
  intro g h
  rcases combInv_run _ ops (combInv_start c) with ⟨h1, h2⟩ | hf
  · rcases h with h | h
    · exact absurd h2 h
    · exact absurd h1 h
  · exact hf

/-- The size bounds of the domain hold on all histories: never more than five board cards,
    never more than `holeCount` hole cards on a seat, every seat has a combination object, and the
    options are those of the configuration. -/
theorem domain_bounds_on_all_histories (cfg : Config) (ops : List Op) :
    let g := (start cfg).1.run ops
    g.opts = cfg.opts ∧ g.board.length ≤ 5 ∧
      ∀ p ∈ g.players, p.hole.length ≤ cfg.opts.holeCount ∧ p.comb.isSome := by
  intro g
  have h := bounds_on_all_histories cfg ops
  rw [opts_run] at h
  exact ⟨opts_run cfg ops, h⟩

/-- **C10, sentences 1 and 2 over all histories.**  For every configuration with
    `RequiredHoleCardsCount < 5` and `HoleCardsCount ≤ 4` (the engine's variants: 0 of 2, 2 of 4),
    every ranking table and deck, in every state reached by any sequence of operations, if
    community cards are on the board then every seat has a published combination and it is
    `ReportedBest` for the current board and that seat's own hole cards. -/
theorem reported_hand_is_best (cfg : Config) (ops : List Op)
    (hreq : cfg.opts.required < 5) (hhc : cfg.opts.holeCount ≤ 4) :
    let g := (start cfg).1.run ops
    g.board ≠ [] →
    ∀ p ∈ g.players, ∃ c, p.comb = some c ∧
      ReportedBest cfg.opts.lvl cfg.opts.table cfg.opts.required g.board p.hole c := by
  intro g hne p hp
  obtain ⟨ho, hb, hpl⟩ := domain_bounds_on_all_histories cfg ops
  obtain ⟨hh, hs⟩ := hpl p hp
  obtain ⟨c, hc⟩ := Option.isSome_iff_exists.mp hs
  refine ⟨c, hc, ?_⟩
  have := reported_of_fresh g (fresh_on_all_histories cfg ops (Or.inl hne)) (by rw [ho]; exact hreq) hb p hp
    (by omega) c hc
  rw [ho] at this
  exact this

/-- Sentence 3 ("that strength is the one the showdown compares"): `CalculateGameResults`
    stores `Calculate()` of the settlement input built from the pots and, per player in seat
    order, `AddPlayer(idx, bankroll)` and `UpdateScore(idx, s)` with
    `s = showdownStrength p` = the published `Combination.Power`, or 0 for a folded player. -/
theorem showdown_uses_published_strength (g : Game) :
    g.calculateGameResults.result = some (showdownInput g.pots g.players).calculate ∧
    g.calculateGameResults.players = g.players :=
  ⟨result_calculateGameResults g, rfl⟩

/-- The strength fed to the settlement is literally the published one. -/
theorem showdownStrength_eq (p : Player) :
    showdownStrength p = if p.fold then 0 else match p.comb with | some c => (c.power : Int) | none => 0 := by
  unfold showdownStrength
  cases p.comb <;> rfl

/-- All histories: whenever an operation writes the result, the written result is the settlement
    of the *published* strengths of the state it is stored in, and those published combinations
    are fresh (hence, with §4, the strengths of the true best hands). -/
theorem showdown_on_all_histories (cfg : Config) (ops : List Op) (op : Op) :
    let g := (start cfg).1.run ops
    let g' := (g.step op).1
    g'.result ≠ g.result →
      g'.result = some (showdownInput g'.pots g'.players).calculate ∧ g'.CombFresh := by
  intro g g' h
  rcases step_result_or_completed g op with h1 | ⟨g0, hr, he⟩
  · exact absurd h1 h
  · have hinv : CombInv g' := combInv_step g op (combInv_run _ ops (combInv_start cfg))
    have hround : g'.round ≠ .none := by
      show (g.step op).1.round ≠ .none
      rw [he]
      have := (key_eq_iff.mp (key_gameCompleted g0)).2.2.1
      rw [this]; exact hr
    refine ⟨?_, ?_⟩
    · show (g.step op).1.result = some (showdownInput (g.step op).1.pots (g.step op).1.players).calculate
      rw [he]; exact result_gameCompleted g0
    · rcases hinv with ⟨h1, _⟩ | hf
      · exact absurd h1 hround
      · exact hf

/-! ## Non-vacuity: concrete hands and a concrete played hand -/

section Examples
open Generated

private def cs (l : List String) : List Card := l.map Card.ofString
private def view (o : Option Power) : Option (Cat × Nat × List String) :=
  o.map fun p => (p.cat, p.score, p.cards.map Card.toString)

/-- 2 hole cards, 5 board cards, any five (hold'em): two pair aces and kings with a nine. -/
example : view (playerPower combinationLevel powerStandard
      (cs ["HA", "D9", "C4", "DK", "C7"]) (cs ["SA", "HK"]) 0)
    = some (.twoPair, 371293 + 28561 + (12 * 169 + 11 * 13 + 7), ["SA", "HA", "HK", "DK", "D9"]) := by
  decide +kernel

/-- 4 hole cards, exactly 2 required (Omaha-like): the ace-high straight A-K-Q-J-T would need
    three hole cards, so the reported hand is the king-high straight using K and Q from the hole. -/
example : view (playerPower combinationLevel powerStandard
      (cs ["S5", "H9", "DT", "CJ", "S2"]) (cs ["SA", "HA", "DK", "CQ"]) 2)
    = some (.straight, 371293 + 28561 + 2197 + 2197 + (13 - 5), ["DK", "CQ", "CJ", "DT", "H9"]) := by
  decide +kernel

/-- The same nine cards under "any five": the ace-high straight. -/
example : view (playerPower combinationLevel powerStandard
      (cs ["S5", "H9", "DT", "CJ", "S2"]) (cs ["SA", "HA", "DK", "CQ"]) 0)
    = some (.straight, 371293 + 28561 + 2197 + 2197 + (14 - 5), ["SA", "DK", "CQ", "CJ", "DT"]) := by
  decide +kernel

/-- A heads-up hand played to the end on a chosen deck. -/
private def exOpts : Meta where
  ante := 0
  blindDealer := 0
  blindSB := 5
  blindBB := 10
  potLimit := false
  holeCount := 2
  required := 0
  lvl := combinationLevel
  table := powerStandard
  deck := cs ["SA", "HK", "D7", "C2", "S3", "HA", "D9", "C4", "S5", "DK", "S6", "C7", "H2", "H3"]

private def exCfg : Config :=
  { opts := exOpts, seats := [⟨1000, true, true, false⟩, ⟨1000, false, false, true⟩] }

private def toFlop : List Op := [.ready, .payBlinds, .ready, .act none .call 0, .act none .check 0, .next]
private def street : List Op := [.ready, .act none .check 0, .act none .check 0]
private def toRiverClosed : List Op := toFlop ++ street ++ [.next] ++ street ++ [.next] ++ street

/-- The hypotheses of `reported_hand_is_best` hold on the flop of that hand, for both seats, and
    both seats have a combination object. -/
example :
    let g := (start exCfg).1.run toFlop
    (start exCfg).2 = none ∧ g.round = .flop ∧ g.board = cs ["HA", "D9", "C4"] ∧
    g.opts.required < 5 ∧ g.board.length ≤ 5 ∧
    g.players.map (fun p => (p.hole, p.comb.map fun c => (c.cat, c.power, c.cards))) =
      [(cs ["SA", "HK"], some (some .pair, 371293 + (12 * 2197 + 11 * 169 + 7 * 13 + 2), cs ["SA", "HA", "HK", "D9", "C4"])),
       (cs ["D7", "C2"], some (some .highCard, 12 * 28561 + 7 * 2197 + 5 * 169 + 2 * 13 + 0, cs ["HA", "D9", "D7", "C4", "C2"]))] := by
  decide +kernel

/-- `reported_hand_is_best` applied to that flop. -/
example : ∀ p ∈ ((start exCfg).1.run toFlop).players, ∃ c, p.comb = some c ∧
    ReportedBest combinationLevel powerStandard 0 (cs ["HA", "D9", "C4"]) p.hole c := by
  have h := reported_hand_is_best exCfg toFlop (by decide) (by decide) (by decide +kernel)
  have hb : ((start exCfg).1.run toFlop).board = cs ["HA", "D9", "C4"] := by decide +kernel
  rw [hb] at h
  exact h

/-- The hypothesis of `showdown_on_all_histories` holds for the `next` that ends that hand: the
    result is written, and seat 0 (two pair) takes seat 1's ten chips. -/
example :
    let g := (start exCfg).1.run toRiverClosed
    let g' := (g.step .next).1
    g.result = none ∧ g'.event = .gameClosed ∧
    g'.players.map showdownStrength = [371293 + 28561 + (12 * 169 + 11 * 13 + 7), 371293 + (5 * 2197 + 12 * 169 + 11 * 13 + 7)] ∧
    g'.result.map (fun r => r.players.map (·.changed)) = some [10, -10] := by
  decide +kernel

end Examples

end Pokerface.C10

section Axioms
open Pokerface.C10
#print axioms gospers_spec
#print axioms gospers_fuel_sufficient
#print axioms selections_spec
#print axioms selections_spec_any
#print axioms selections_spec_fixed
#print axioms best_is_max
#print axioms bestPower_is_some_sort_outcome
#print axioms any_sort_outcome_reported
#print axioms reported_consistent
#print axioms recomputed_each_street
#print axioms reported_hand_is_best
#print axioms showdown_uses_published_strength
#print axioms showdown_on_all_histories
end Axioms
