/-
  C08, carried from the seat manager THROUGH the table INTO the engine's configuration.

  C08: "Whenever the seat manager successfully moves to the next hand, dealer, small blind and big blind sit on
  occupied, active, non-reserved seats; with exactly two such seats the dealer is the small blind and the other
  player the big blind, with three or more the small blind is the first such seat clockwise from the dealer and the
  big blind the first after the small blind. ..." — anchors: "table copies these positions into the next game's player
  settings (table/internal.go: setupPosition, startGame)".

  Statements about the model `Pokerface.Table` (Model/Table.lean) of `table/table.go` (`Join`, `Leave`, `Activate`,
  `Reserve`) and `table/internal.go` (`setupPosition`, `prepareNextGame`, `startGame`, `updatePlayerStates`):
  * `t.step (.hand finals)` is one `prepareNextGame`; `finals` are the closing stacks `Result.Players[k].Final` the engine
    reports, by game index; `(t.step (.hand finals)).2.cfg` is `GameOptions.Players` of the game it creates;
  * `TReachable t`: `t` is reached from `NewTable` by any sequence of those operations, with any closing stacks;
    `TInv t` (Proofs/TableGlue.lean, spelled out in `reachable_invariant`): the invariant of reachable tables — E, F, G take
    it as hypothesis instead of `TReachable` because the closing `setupPosition` of a hand runs from a state INSIDE
    `prepareNextGame` (`closing_setup`), which satisfies the invariant without being the result of an operation;
  * `playableSeats sm` is `GetPlayableSeats()`: the playable seats clockwise from the dealer; `t.gameSeats seats` the player
    settings made from the sheet for these seats; `startRefusal` the refusal of `Start()`;
  * `sheetTotal t`: all chips on the sheet; `playerAt t i`: the sheet entry of seat `i`; `money p = (p.pid, p.bankroll)`.
  "Undisturbed hand-off": the game is made right after the `setupPosition` that ran `Next()` (`t.inPosition = false`
  before).  When `Join` / `Leave` / `Activate` come between that `setupPosition` and `startGame` (`t.inPosition = true`),
  the positions on the sheet are stale: see `disturbed_*` at the end of the file.
-/
import Pokerface.Proofs.TableGlueLayout
import Pokerface.Properties.C01
import Pokerface.Properties.C06
import Pokerface.Properties.C08
import Pokerface.Properties.C17

namespace Pokerface.C08T
open Pokerface Table SM

/-! ## Examples used throughout -/

/-- 5 seats; players 1, 2, 3 join seats 0, 2, 3 with 100, 200, 50 chips and sit in; no hand yet. -/
def demo : Table :=
  (Table.new 5 {}).run [.join 0 1 100 none, .activate 0, .join 2 2 200 none, .activate 2, .join 3 3 50 none, .activate 3]

/-- 4 seats, players 1, 2 on seats 3, 1 with 100, 60 chips. -/
def demo2 : Table := (Table.new 4 {}).run [.join 3 1 100 none, .activate 3, .join 1 2 60 none, .activate 1]

theorem demo_reachable : TReachable demo := ⟨5, {}, _, rfl⟩
theorem demo2_reachable : TReachable demo2 := ⟨4, {}, _, rfl⟩

/-! ## A. The table's refusal computation is the engine's `Start()` -/

/-- **A.** For every configuration with a deck (`startGame` always installs one), the refusal of the engine model's
`start` is the table model's `startRefusal` of the player settings. -/
theorem startRefusal_eq_start (c : Config) (hd : c.opts.deck ≠ []) : (start c).2 = Table.startRefusal c.seats :=
  Table.startRefusal_eq_start c hd

/-- the three checks, as in `C06.start_iff` -/
theorem startRefusal_none_iff (ps : List SeatCfg) :
    Table.startRefusal ps = none ↔ 2 ≤ ps.length ∧ (∃ s ∈ ps, s.dealer = true) ∧ ∀ s ∈ ps, 0 < s.bankroll :=
  Table.startRefusal_none_iff ps

example : (start C01.exCfg).2 = Table.startRefusal C01.exCfg.seats ∧ C01.exCfg.opts.deck ≠ [] := by decide
example : Table.startRefusal [⟨10, false, true, false⟩, ⟨10, false, false, true⟩] = some .noDealer := by decide

/-! ## B. Reachable tables and their invariant -/

/-- **B.** Every reachable table satisfies the invariant `TInv`, spelled out: the sheet has one slot per seat of the
seat manager; seat `i` shows a player on the sheet iff the seat manager has a player there, with the same id; and the
seat manager is itself reachable (`SM.Reachable`, what the theorems of C08 / C17 / C18 ask for). -/
theorem reachable_invariant (t : Table) (h : TReachable t) :
    t.players.length = t.sm.max ∧ t.sm.seats.length = t.sm.max ∧ SM.Reachable t.sm ∧
    ∀ (i pid : Nat), (∃ p, t.players[i]? = some (some p) ∧ p.pid = pid) ↔ (∃ s, t.sm.seats[i]? = some s ∧ s.player = some pid) := by
  have hi := h.inv
  refine ⟨hi.len, hi.seats_len, hi.smr, ?_⟩
  intro i pid
  constructor
  · rintro ⟨p, hp, rfl⟩
    exact hi.sm_of_player hp
  · rintro ⟨s, hs, hp⟩
    obtain ⟨p, hp', hpid⟩ := hi.player_of_sm hs (by rw [hp]; rfl)
    exact ⟨p, hp', by rw [hp] at hpid; exact (Option.some.inj hpid).symm⟩

/-- The invariant is inductive: it holds for a fresh table and every operation preserves it (whatever the arguments,
accepted or refused).  In particular the table only ever moves its seat manager by the seat manager's own operations:
`SM.Reachable` is preserved (closure). -/
theorem invariant_inductive :
    (∀ max o, TInv (Table.new max o)) ∧ (∀ t op, TInv t → TInv (t.step op).1) ∧
    (∀ t op, TReachable t → SM.Reachable (t.step op).1.sm) :=
  ⟨tinv_new, fun _ op h => h.step op, fun _ op h => (h.inv.step op).smr⟩

example : TReachable (demo.step (.hand [150, 200, 0])).1 := demo_reachable.step _
example : (demo.step (.hand [150, 200, 0])).1.sm.seats.map (·.player) = [some 1, none, some 2, some 3, none] ∧
    (demo.step (.hand [150, 200, 0])).1.players.map (·.map (·.pid)) = [some 1, none, some 2, some 3, none] := by decide

/-! ## C. The positions are copied -/

/-- **C** ("table copies these positions into the next game's player settings", `setupPosition`).  When `setupPosition`
really runs (`inPosition = false`) and succeeds, the seat manager has made exactly one successful `Next()`, and every
player on the sheet carries exactly the positions of the seat manager for his seat: `"dealer"` iff his seat is the
dealer's; `"sb"` iff it is the small blind's; `"bb"` iff it is the big blind's and not the small blind's (the Go code
writes `else if`); `Playable` iff the seat is playable.  Nothing else on the sheet changes (`p0`). -/
theorem positions_copied (t t' : Table) (hp : t.inPosition = false) (h : t.setupPosition = (t', none)) :
    t'.sm = (t.sm.step .next).1 ∧ (t.sm.step .next).2.1 = none ∧ t'.inPosition = true ∧
    ∀ i p, t'.players[i]? = some (some p) →
      (p.dealer = true ↔ t'.sm.dealer = some i) ∧ (p.sb = true ↔ t'.sm.sb = some i) ∧
      (p.bb = true ↔ (t'.sm.bb = some i ∧ t'.sm.sb ≠ some i)) ∧ p.playable = t'.sm.playable i ∧
      ∃ p0, t.players[i]? = some (some p0) ∧ p.pid = p0.pid ∧ p.bankroll = p0.bankroll ∧ p.gameIdx = p0.gameIdx := by
  obtain ⟨hok, rfl⟩ := setupPosition_ok hp h
  refine ⟨rfl, hok, rfl, ?_⟩
  intro i p hpl
  simp only [copyPositions_getElem?] at hpl
  cases hq : t.players[i]? with
  | none => rw [hq] at hpl; cases hpl
  | some o =>
    cases o with
    | none => rw [hq] at hpl; cases hpl
    | some p0 =>
      rw [hq] at hpl
      simp only [Option.map_some, Option.some.injEq] at hpl
      subst hpl
      refine ⟨by simp [copyPos], by simp [copyPos], ?_, rfl, p0, rfl, rfl, rfl, rfl⟩
      simp only [copyPos, Bool.and_eq_true, decide_eq_true_eq]
      exact ⟨fun ⟨a, b⟩ => ⟨b, a⟩, fun ⟨a, b⟩ => ⟨b, a⟩⟩

example : demo.inPosition = false ∧ demo.setupPosition.2 = none ∧
    demo.setupPosition.1.players.map (·.map fun p => (p.dealer, p.sb, p.bb, p.playable)) =
      [some (true, false, false, true), none, some (false, true, false, true), some (false, false, true, true), none] ∧
    (demo.setupPosition.1.sm.dealer, demo.setupPosition.1.sm.sb, demo.setupPosition.1.sm.bb) = (some 0, some 2, some 3) := by
  decide

/-! ## D. The players of the game -/

/-- **D** (`startGame`).  Whenever `prepareNextGame` creates a game, its player settings `cfg` are made of the playable
seats clockwise from the dealer (`seats = GetPlayableSeats()`, taken from the seat manager after `setupPosition`, state
`t1`): one entry per playable seat; entry `k` is the bankroll and the positions the sheet shows for the player on seat
`seats[k]`, who is playable; the game indices on the sheet are handed out in the same order (`GetPlayerByGameIdx(k)` is
the player on `seats[k]`; everybody else carries `-1`).  When `Start()` refuses the configuration (or the closing
stacks do not fit it) the table is left in exactly that state, and `Start()` refuses exactly by `startRefusal`. -/
theorem game_players (t : Table) (h : TReachable t) (finals : List Int) (cfg : List SeatCfg)
    (hc : (t.step (.hand finals)).2.cfg = some cfg) :
    ∃ t1 seats d, t.setupPosition = (t1, none) ∧ t1.sm.dealer = some d ∧
      seats = (t1.sm.normalize d).filter t1.sm.playable ∧ playableSeats t1.sm = some seats ∧
      cfg = t1.gameSeats seats ∧ cfg.length = t1.sm.playableCount ∧
      (∀ (k s : Nat), seats[k]? = some s → t1.sm.playable s = true ∧
        ∃ p, t1.players[s]? = some (some p) ∧ cfg[k]? = some ⟨p.bankroll, p.dealer, p.sb, p.bb⟩) ∧
      (∀ (k s : Nat), seats[k]? = some s → (t1.assignGameIdx seats).seatOfGameIdx k = some s) ∧
      (∀ j, j ∉ seats → ∀ p, (t1.assignGameIdx seats).players[j]? = some (some p) → p.gameIdx = -1) ∧
      (∀ e, (t.step (.hand finals)).2.err = some (.game e) ↔ Table.startRefusal cfg = some e) ∧
      ((∃ e, (t.step (.hand finals)).2.err = some (.game e)) ∨ (Table.startRefusal cfg = none ∧ finals.length ≠ cfg.length) →
        (t.step (.hand finals)).1 = t1.assignGameIdx seats) := by
  have hi := h.inv
  obtain ⟨t1, seats, hcr, hcfg, hstep⟩ := hand_created hi hc
  obtain ⟨hnd, hlen, hpl, d, hd, hseats⟩ := hcr.facts hi
  refine ⟨t1, seats, d, hcr.setup, hd, hseats, hcr.seats, hcfg, by rw [hcfg, gameSeats_length, hlen], ?_, ?_, ?_, ?_, ?_⟩
  · intro k s hks
    obtain ⟨hp, p, hp'⟩ := hpl s (List.mem_of_getElem? hks)
    refine ⟨hp, p, playerAt_eq_some.mp hp', ?_⟩
    rw [hcfg, gameSeats_getElem?, hks, Option.map_some, seatCfgAt_of_player (playerAt_eq_some.mp hp')]
    rfl
  · intro k s hks
    exact hcr.seatOfGameIdx hi hks
  · intro j hj p hp
    have := playerAt_eq_some.mpr hp
    rw [assignGameIdx_playerAt _ _ hnd] at this
    cases hq : t1.playerAt j with
    | none => rw [hq] at this; cases this
    | some q =>
      rw [hq] at this
      simp only [Option.map_some, Option.some.injEq] at this
      rw [← this]
      simp [hj]
  · intro e
    rw [hstep]; exact playHand_err_game
  · intro hor
    rw [hstep] at hor ⊢
    exact playHand_badInput_or_refused hor

example : (demo.step (.hand [150, 200, 0])).2.cfg =
      some [⟨100, true, false, false⟩, ⟨200, false, true, false⟩, ⟨50, false, false, true⟩] ∧
    playableSeats demo.setupPosition.1.sm = some [0, 2, 3] ∧ demo.setupPosition.1.sm.playableCount = 3 := by decide
/-- a refusal, visible in the returned state: a player with an empty bankroll sits in; the indices are handed out -/
example : let t := (Table.new 3 {}).run [.join 0 1 100 none, .activate 0, .join 1 2 0 none, .activate 1]
    (t.step (.hand [])).2.err = some (.game .notEnoughBankroll) ∧
    (t.step (.hand [])).2.cfg = some [⟨100, true, true, false⟩, ⟨0, false, false, true⟩] ∧
    (t.step (.hand [])).1.players.map (·.map (·.gameIdx)) = [some 0, some 1, none] := by decide

/-! ## E, F, G. The layout handed to the engine (undisturbed hand-off) -/

/-- **E** ("with exactly two such seats the dealer is the small blind and the other player the big blind", in the
engine's configuration).  After a `setupPosition` that ran a successful `Next()` leaving exactly two playable seats:
`GetPlayableSeats()` is `[d, b]`, the dealer's seat and one other seat, and the two player settings made from the sheet
are ⟨dealer's bankroll, dealer + sb⟩ and ⟨other bankroll, bb⟩ — what C04 / C13 need heads-up. -/
theorem hand_off_heads_up (t t' : Table) (hi : TInv t) (hp : t.inPosition = false)
    (hs : t.setupPosition = (t', none)) (h2 : t'.sm.playableCount = 2) :
    ∃ d b pd pb, t'.sm.dealer = some d ∧ t'.sm.sb = some d ∧ t'.sm.bb = some b ∧ b ≠ d ∧
      playableSeats t'.sm = some [d, b] ∧
      t'.players[d]? = some (some pd) ∧ t'.players[b]? = some (some pb) ∧
      t'.gameSeats [d, b] = [⟨pd.bankroll, true, true, false⟩, ⟨pb.bankroll, false, false, true⟩] := by
  obtain ⟨d, s, b, rest, ring, hd, hsb, hbb, hseats, hhu, _, hdb, hsb', _, _, _, _, _⟩ := handoff_layout hi hp hs
  obtain ⟨_, _, _, _, hlen, hmem⟩ := playableSeats_spec hseats
  rw [h2] at hlen
  cases ring with
  | true => simp at hlen
  | false =>
    simp only [Bool.false_eq_true, if_false] at hseats hlen hmem
    have hrest : rest = [] := by
      cases rest with
      | nil => rfl
      | cons _ _ => simp at hlen
    subst hrest
    have hsd : s = d := hhu rfl
    subst hsd
    have hpd := ((hmem s).mp (by simp)).2
    have hpb := ((hmem b).mp (by simp)).2
    obtain ⟨pd, hpd1, hpd2⟩ := cfg_of_playable hi hp hs hpd
    obtain ⟨pb, hpb1, hpb2⟩ := cfg_of_playable hi hp hs hpb
    refine ⟨s, b, pd, pb, hd, hsb, hbb, fun e => hdb e.symm, hseats, hpd1, hpb1, ?_⟩
    rw [gameSeats_eq_map]
    simp only [List.map_cons, List.map_nil, hpd2, hpb2, hd, hsb, hbb]
    have e1 : ¬ (s = b) := hdb
    have e2 : ¬ (b = s) := fun e => hdb e.symm
    simp [e1, e2]

example : demo2.inPosition = false ∧ demo2.setupPosition.2 = none ∧ demo2.setupPosition.1.sm.playableCount = 2 ∧
    playableSeats demo2.setupPosition.1.sm = some [1, 3] ∧
    demo2.setupPosition.1.gameSeats [1, 3] = [⟨60, true, true, false⟩, ⟨100, false, false, true⟩] := by decide

/-- **F** ("with three or more the small blind is the first such seat clockwise from the dealer and the big blind the
first after the small blind", in the engine's configuration).  After a `setupPosition` that ran a successful `Next()`
whose small blind `s` is the first playable seat after the dealer `d` (hypothesis `hna`; it holds iff `renewSeatStatus`
took its ring branch, `C08.ring_layout_exact`; without it the statement is false, `hand_off_ring_false` / D4):
the big blind `b` is the first playable seat after `s`, `GetPlayableSeats()` is `d :: s :: b :: rest`, there are at
least three playable seats, and the player settings are ⟨dealer⟩ :: ⟨sb⟩ :: ⟨bb⟩ :: settings without any position. -/
theorem hand_off_ring (t t' : Table) (hi : TInv t) (hp : t.inPosition = false)
    (hs : t.setupPosition = (t', none)) (d s : Nat) (hd : t'.sm.dealer = some d) (hsb : t'.sm.sb = some s)
    (hna : IsNextAfter t'.sm d s) :
    ∃ b rest pd ps pb, t'.sm.bb = some b ∧ IsNextAfter t'.sm s b ∧ 3 ≤ t'.sm.playableCount ∧
      playableSeats t'.sm = some (d :: s :: b :: rest) ∧
      t'.players[d]? = some (some pd) ∧ t'.players[s]? = some (some ps) ∧ t'.players[b]? = some (some pb) ∧
      t'.gameSeats (d :: s :: b :: rest) =
        ⟨pd.bankroll, true, false, false⟩ :: ⟨ps.bankroll, false, true, false⟩ :: ⟨pb.bankroll, false, false, true⟩ ::
          t'.gameSeats rest ∧
      ∀ c ∈ t'.gameSeats rest, c.dealer = false ∧ c.sb = false ∧ c.bb = false := by
  obtain ⟨d', s', b, rest, ring, hd', hsb', hbb, hseats, hhu, hring, hdb, hsb'', hrest, _, hdlt, hnab, _⟩ :=
    handoff_layout hi hp hs
  rw [hd] at hd'; rw [hsb] at hsb'
  cases hd'; cases hsb'
  obtain ⟨_, _, _, _, hlen, hmem⟩ := playableSeats_spec hseats
  cases ring with
  | false => exact absurd (hhu rfl) (IsNextAfter.ne hna hdlt)
  | true =>
    simp only [if_true] at hseats hlen hmem
    have hds : ¬ (d = s) := hring rfl
    have hsd : ¬ (s = d) := fun e => hds e.symm
    have hbd : ¬ (b = d) := fun e => hdb e.symm
    have hbs : ¬ (b = s) := fun e => hsb'' e.symm
    obtain ⟨pd, hpd1, hpd2⟩ := cfg_of_playable hi hp hs ((hmem d).mp (by simp)).2
    obtain ⟨ps, hps1, hps2⟩ := cfg_of_playable hi hp hs ((hmem s).mp (by simp)).2
    obtain ⟨pb, hpb1, hpb2⟩ := cfg_of_playable hi hp hs ((hmem b).mp (by simp)).2
    refine ⟨b, rest, pd, ps, pb, hbb, hnab, by rw [← hlen]; simp, hseats, hpd1, hps1, hpb1, ?_, ?_⟩
    · rw [gameSeats_eq_map, gameSeats_eq_map]
      simp only [List.map_cons, hpd2, hps2, hpb2, hd, hsb, hbb]
      simp [hds, hsd, hbd, hbs, hdb, hsb'']
    · intro c hc
      rw [gameSeats_eq_map, List.mem_map] at hc
      obtain ⟨x, hx, rfl⟩ := hc
      obtain ⟨hxd, hxs, hxb⟩ := hrest x hx
      obtain ⟨px, _, hpx2⟩ := cfg_of_playable hi hp hs ((hmem x).mp (by simp [hx])).2
      rw [hpx2, hd, hsb, hbb]
      have e1 : ¬ (d = x) := fun e => hxd e.symm
      have e2 : ¬ (s = x) := fun e => hxs e.symm
      have e3 : ¬ (b = x) := fun e => hxb e.symm
      simp [e1, e2, e3]

/-- **F**, with the hypothesis of `C08.ring_layout_partial`: at least three playable seats in the new hand and nobody
waiting (occupied, non-reserved, inactive) after `nextDealer`. -/
theorem hand_off_ring_of_noWaiting (t t' : Table) (hi : TInv t) (hp : t.inPosition = false)
    (hs : t.setupPosition = (t', none)) (h3 : 3 ≤ t'.sm.playableCount) (hnw : NoWaiting t.sm.nextDealer.1) :
    ∃ d s b rest pd ps pb, t'.sm.dealer = some d ∧ t'.sm.sb = some s ∧ t'.sm.bb = some b ∧
      IsNextAfter t'.sm d s ∧ IsNextAfter t'.sm s b ∧
      playableSeats t'.sm = some (d :: s :: b :: rest) ∧
      t'.players[d]? = some (some pd) ∧ t'.players[s]? = some (some ps) ∧ t'.players[b]? = some (some pb) ∧
      t'.gameSeats (d :: s :: b :: rest) =
        ⟨pd.bankroll, true, false, false⟩ :: ⟨ps.bankroll, false, true, false⟩ :: ⟨pb.bankroll, false, false, true⟩ ::
          t'.gameSeats rest ∧
      ∀ c ∈ t'.gameSeats rest, c.dealer = false ∧ c.sb = false ∧ c.bb = false := by
  obtain ⟨hsm, hok, _⟩ := positions_copied t t' hp hs
  rw [hsm] at h3
  obtain ⟨d, s, b, hd, hsb, hbb, hna, _⟩ := C08.ring_layout_partial t.sm hi.smr hok h3 hnw
  rw [← hsm] at hd hsb hna
  obtain ⟨b', rest, pd, ps, pb, hbb', hnab, _, r⟩ := hand_off_ring t t' hi hp hs d s hd hsb hna
  exact ⟨d, s, b', rest, pd, ps, pb, hd, hsb, hbb', hna, hnab, r⟩

example : demo.inPosition = false ∧ demo.setupPosition.2 = none ∧
    (demo.setupPosition.1.sm.dealer, demo.setupPosition.1.sm.sb) = (some 0, some 2) ∧
    demo.setupPosition.1.gameSeats [0, 2, 3] = [⟨100, true, false, false⟩, ⟨200, false, true, false⟩, ⟨50, false, false, true⟩] := by
  decide
example : IsNextAfter demo.setupPosition.1.sm 0 2 :=
  ⟨2, by omega, by decide, by decide, by decide, fun j h1 h2 => by
    have : j = 1 := by omega
    subst this; decide⟩

/-- the hypotheses of `hand_off_ring_of_noWaiting` for `demo`: invariant, three playable seats, nobody waiting -/
example : TInv demo ∧ demo.setupPosition.1.sm.playableCount = 3 := ⟨demo_reachable.inv, by decide⟩
example : NoWaiting demo.sm.nextDealer.1 := by
  intro i s hs hp _
  have : i < 5 := (List.getElem?_eq_some_iff.mp hs).1
  have hall : ∀ j, j < 5 → ∀ x, demo.sm.nextDealer.1.seats[j]? = some x → x.player.isSome = true → x.active = true := by
    decide
  exact hall i this s hs hp

/-- The full statement of F, without the hypothesis on the small blind: three or more playable seats after the `Next()`
of `setupPosition` ⇒ the first three player settings are ⟨dealer⟩, ⟨sb⟩, ⟨bb⟩.  It is *false* of the model (and of the Go
code): `hand_off_ring_false` — D4 of `known_findings.json`, carried through the table into the engine. -/
def hand_off_ring_full : Prop :=
  ∀ t t' : Table, TInv t → t.inPosition = false → t.setupPosition = (t', none) → 3 ≤ t'.sm.playableCount →
    ∃ d s b rest bd bs bb, playableSeats t'.sm = some (d :: s :: b :: rest) ∧
      (t'.gameSeats (d :: s :: b :: rest)).take 3 =
        [⟨bd, true, false, false⟩, ⟨bs, false, true, false⟩, ⟨bb, false, false, true⟩]

/-- A D4 history in operations of the table (6 seats, 100 chips each).  Players 10, 11, 12, 15 sit in on seats 0, 1, 2, 5;
player 13 only joins seat 3 (reserved).  Hand 1 (dealer 0) is played, everybody keeps his chips; its closing `Next()`
gives dealer 1, small blind 2, big blind 5 and deactivates the empty seat 4.  Then: player 14 joins seat 4 and sits in
(waiting: the seat is inactive); the players on seats 5 and 0 leave; player 13 sits in (playable at once). -/
def d4pre : Table :=
  (Table.new 6 {}).run [.join 0 10 100 none, .activate 0, .join 1 11 100 none, .activate 1, .join 2 12 100 none, .activate 2,
    .join 5 15 100 none, .activate 5, .join 3 13 100 none, .hand [100, 100, 100, 100],
    .join 4 14 100 none, .activate 4, .leave 5, .leave 0, .activate 3]

/-- Hand 2 of that history is over: it was played by seats 1 (the dealer, who lost everything), 2 and 3; the closing stacks
0, 150, 150 are written back; the closing `setupPosition` has not run yet. -/
def d4closed : Table := (d4pre.assignGameIdx [1, 2, 3]).closed [0, 150, 150]

theorem d4closed_inv : TInv d4closed :=
  closed_tinv ((TReachable.inv ⟨6, {}, _, rfl⟩ : TInv d4pre).assignGameIdx _) _

set_option maxRecDepth 100000 in
/-- **D4 witness at the table, kernel-checked.**  `d4closed` is the state inside `prepareNextGame` of hand 2 (first
three clauses: that hand ends without error in the state `d4closed.setupPosition.1`).  Its closing `setupPosition` runs
`Next()` with two playable seats (2 and 3) and the waiting newcomer on seat 4 behind them: the heads-up layout is chosen
(dealer = small blind = seat 2, big blind = seat 3) and seat 4 is activated by the same call.  The game of hand 3 —
nothing happens in between — has three players: ⟨dealer + sb⟩, ⟨bb⟩ and a third without a position. -/
theorem d4_hand_off_witness :
    (d4pre.step (.hand [0, 150, 150])).2.err = none ∧
    (d4pre.step (.hand [0, 150, 150])).1.sm = d4closed.setupPosition.1.sm ∧
    (d4pre.step (.hand [0, 150, 150])).1.players = d4closed.setupPosition.1.players ∧
    d4closed.inPosition = false ∧ d4closed.setupPosition.2 = none ∧
    d4closed.setupPosition.1.sm.playableCount = 3 ∧
    playableSeats d4closed.setupPosition.1.sm = some [2, 3, 4] ∧
    d4closed.setupPosition.1.gameSeats [2, 3, 4] =
      [⟨150, true, true, false⟩, ⟨150, false, false, true⟩, ⟨100, false, false, false⟩] ∧
    ((d4pre.step (.hand [0, 150, 150])).1.step (.hand [100, 100, 200])).2.cfg =
      some [⟨150, true, true, false⟩, ⟨150, false, false, true⟩, ⟨100, false, false, false⟩] ∧
    ((d4pre.step (.hand [0, 150, 150])).1.step (.hand [100, 100, 200])).2.err = none := by decide

/-- The full statement of F is false (D4). -/
theorem hand_off_ring_false : ¬ hand_off_ring_full := by
  intro hf
  obtain ⟨_, _, _, hin, hs, hc, hps, hgs, _⟩ := d4_hand_off_witness
  obtain ⟨d, s, b, rest, bd, bs, bb, hps', htk⟩ :=
    hf d4closed d4closed.setupPosition.1 d4closed_inv hin (pair_of_snd (p := d4closed.setupPosition) hs) (by rw [hc])
  rw [hps] at hps'
  simp only [Option.some.injEq, List.cons.injEq] at hps'
  obtain ⟨rfl, rfl, rfl, rfl⟩ := hps'
  rw [hgs] at htk
  simp at htk

/-- **G** (the undisturbed hand-off is accepted).  After a `setupPosition` that ran a successful `Next()`, if every
playable seat's player has a positive bankroll, `Start()` accepts the player settings made from the sheet: there are at
least two of them and the first one is the dealer's (and the only one with the dealer position: the game's player 0 is
the dealer — last clause: the dealer index `NewGame` caches for these settings is 0).  Hence (A) the engine model's `start` accepts the configuration, whatever the other options, as long as
there is a deck. -/
theorem hand_off_accepted (t t' : Table) (hi : TInv t) (hp : t.inPosition = false)
    (hs : t.setupPosition = (t', none))
    (hbank : ∀ i p, t'.players[i]? = some (some p) → t'.sm.playable i = true → 0 < p.bankroll) :
    ∃ seats d, playableSeats t'.sm = some seats ∧ t'.sm.dealer = some d ∧ seats[0]? = some d ∧ 2 ≤ seats.length ∧
      Table.startRefusal (t'.gameSeats seats) = none ∧
      (∀ m : Meta, m.deck ≠ [] → (start ⟨m, t'.gameSeats seats⟩).2 = none) ∧
      (∀ (k : Nat) c, (t'.gameSeats seats)[k]? = some c → (c.dealer = true ↔ k = 0)) ∧
      (∀ m : Meta, ({ opts := m, players := (⟨m, t'.gameSeats seats⟩ : Config).players } : Game).dealerIdx? = some 0) := by
  obtain ⟨d, s, b, rest, ring, hd, hsb, hbb, hseats, _, _, _, _, _, _, _, _, _⟩ := handoff_layout hi hp hs
  obtain ⟨_, _, _, hnd, _, hmem⟩ := playableSeats_spec hseats
  -- the list of seats, whatever the branch
  obtain ⟨tl, htl, hlen⟩ : ∃ tl, (if ring = true then d :: s :: b :: rest else d :: b :: rest) = d :: tl ∧ 1 ≤ tl.length := by
    cases ring
    · exact ⟨_, rfl, by simp⟩
    · exact ⟨_, rfl, by simp⟩
  rw [htl] at hseats hnd hmem
  have hdealer : ∀ (k : Nat) c, (t'.gameSeats (d :: tl))[k]? = some c → (c.dealer = true ↔ k = 0) := by
    intro k c hk
    rw [gameSeats_getElem?] at hk
    cases hx : (d :: tl)[k]? with
    | none => rw [hx] at hk; cases hk
    | some x =>
      rw [hx] at hk
      simp only [Option.map_some, Option.some.injEq] at hk
      obtain ⟨px, _, hpx2⟩ := cfg_of_playable hi hp hs ((hmem x).mp (List.mem_of_getElem? hx)).2
      rw [← hk, hpx2, hd]
      simp only [decide_eq_true_eq, Option.some.injEq]
      constructor
      · intro hdx
        subst hdx
        have h0 : (d :: tl)[0]? = some d := rfl
        have hk' := (List.getElem?_eq_some_iff.mp hx).1
        have := (List.Nodup.getElem_inj_iff hnd (hi := hk') (hj := by simp)).mp
          (by rw [(List.getElem?_eq_some_iff.mp hx).2]; rfl : (d :: tl)[k] = (d :: tl)[0])
        exact this
      · intro hk0
        subst hk0
        simpa using hx
  have hrefuse : Table.startRefusal (t'.gameSeats (d :: tl)) = none := by
    rw [Table.startRefusal_none_iff]
    refine ⟨by rw [gameSeats_length]; simp; omega, ?_, ?_⟩
    · obtain ⟨c, hc⟩ : ∃ c, (t'.gameSeats (d :: tl))[0]? = some c := by
        rw [gameSeats_getElem?]; exact ⟨_, rfl⟩
      exact ⟨c, List.mem_of_getElem? hc, (hdealer 0 c hc).mpr rfl⟩
    · intro c hc
      rw [gameSeats_eq_map, List.mem_map] at hc
      obtain ⟨x, hx, rfl⟩ := hc
      have hpx := ((hmem x).mp hx).2
      obtain ⟨px, hpx1, hpx2⟩ := cfg_of_playable hi hp hs hpx
      rw [hpx2]
      exact hbank x px hpx1 hpx
  refine ⟨d :: tl, d, hseats, hd, rfl, by simp; omega, hrefuse, ?_, hdealer, ?_⟩
  · intro m hm
    rw [Table.startRefusal_eq_start ⟨m, t'.gameSeats (d :: tl)⟩ hm]
    exact hrefuse
  · intro m
    exact dealerIdx?_zero m _ (by rw [gameSeats_eq_map]; simp) hdealer

/-- **G**, as seen from `prepareNextGame`: when the positions are set up in the same call (`inPosition = false`) and
every player on a playable seat has chips, the game that is created is never refused by `Start()`. -/
theorem hand_off_accepted_step (t : Table) (h : TReachable t) (hp : t.inPosition = false) (finals : List Int)
    (cfg : List SeatCfg) (hc : (t.step (.hand finals)).2.cfg = some cfg)
    (hbank : ∀ i p, t.setupPosition.1.players[i]? = some (some p) → t.setupPosition.1.sm.playable i = true → 0 < p.bankroll) :
    Table.startRefusal cfg = none ∧ ∀ e, (t.step (.hand finals)).2.err ≠ some (.game e) := by
  obtain ⟨t1, seats, d, hset, _, _, hps, hcfg, _, _, _, _, herr, _⟩ := game_players t h finals cfg hc
  rw [hset] at hbank
  obtain ⟨seats', _, hps', _, _, _, hr, _, _, _⟩ := hand_off_accepted t t1 h.inv hp hset hbank
  rw [hps] at hps'
  cases hps'
  rw [← hcfg] at hr
  refine ⟨hr, fun e he => ?_⟩
  rw [(herr e).mp he] at hr
  cases hr

example : demo.inPosition = false ∧ demo.setupPosition.2 = none ∧
    Table.startRefusal (demo.setupPosition.1.gameSeats [0, 2, 3]) = none ∧
    (demo.step (.hand [150, 200, 0])).2.err = none := by decide

/-! ## H. Chips across hands -/

/-- **H, write-back** (`updatePlayerStates`).  For a `prepareNextGame` that plays its game to the end (`Start()` accepts,
one closing stack per player): with `seats` the playable seats the game was made of,
* the player on `seats[k]` — whose bankroll was entry `k` of the configuration — now holds `finals[k]`, or, when
  `finals[k] = 0` in leave mode, has been removed from the sheet;
* every seat outside the game keeps its player and his bankroll;
* the chips on the sheet changed by exactly `Σ finals − Σ configured bankrolls`. -/
theorem bankroll_writeback (t : Table) (h : TReachable t) (finals : List Int) (cfg : List SeatCfg)
    (hc : (t.step (.hand finals)).2.cfg = some cfg) (hok : Table.startRefusal cfg = none)
    (hl : finals.length = cfg.length) :
    ∃ t1 seats, t.setupPosition = (t1, none) ∧ playableSeats t1.sm = some seats ∧ cfg = t1.gameSeats seats ∧
      (∀ (k s : Nat), seats[k]? = some s → ∃ p f, t.playerAt s = some p ∧ finals[k]? = some f ∧
        (cfg[k]?).map (·.bankroll) = some p.bankroll ∧
        ((t.step (.hand finals)).1.playerAt s).map money =
          if f = 0 ∧ t.opts.leaveMode = true then none else some (p.pid, f)) ∧
      (∀ j, j ∉ seats → ((t.step (.hand finals)).1.playerAt j).map money = (t.playerAt j).map money) ∧
      (t.step (.hand finals)).1.sheetTotal + (cfg.map (·.bankroll)).sum = t.sheetTotal + finals.sum := by
  have hi := h.inv
  obtain ⟨t1, seats, hcr, hcfg, hstep⟩ := hand_created hi hc
  obtain ⟨hnd, hlen, hpl, d, hd, hseats⟩ := hcr.facts hi
  have h1 := hcr.tinv hi
  have h2 := h1.assignGameIdx seats
  have hidx := hcr.idxOK hi
  have hcfg2 : cfg = (t1.assignGameIdx seats).gameSeats seats := hcfg.trans (hcr.cfg_eq hi).symm
  obtain ⟨_, hopts, hmoney, htot, _⟩ := played_sheet h2 hidx hcfg2 hok hl
  have hlm : (t1.assignGameIdx seats).opts.leaveMode = t.opts.leaveMode := by
    rw [assignGameIdx_opts, hcr.t1_eq, setupPosition_opts]
  -- money on the sheet of `t`, `t1`, `t2`
  have hm12 : ∀ j, ((t1.assignGameIdx seats).playerAt j).map money = (t.playerAt j).map money := by
    intro j
    rw [assignGameIdx_playerAt _ _ hnd, hcr.t1_eq, ← setupPosition_money t j]
    cases t.setupPosition.1.playerAt j <;> rfl
  refine ⟨t1, seats, hcr.setup, hcr.seats, hcfg, ?_, ?_, ?_⟩
  · intro k s hks
    obtain ⟨q, hq, hqk⟩ := hidx.has k s hks
    have hk : k < finals.length := by
      rw [hl, hcfg, gameSeats_length]; exact (List.getElem?_eq_some_iff.mp hks).1
    have hmq := hm12 s
    rw [hq] at hmq
    cases hp : t.playerAt s with
    | none => rw [hp] at hmq; cases hmq
    | some p =>
      rw [hp] at hmq
      simp only [Option.map_some, Option.some.injEq, money, Prod.mk.injEq] at hmq
      refine ⟨p, finals[k], rfl, List.getElem?_eq_getElem hk, ?_, ?_⟩
      · rw [hcfg2, gameSeats_getElem?, hks, Option.map_some, Option.map_some,
          seatCfgAt_of_player (playerAt_eq_some.mp hq)]
        show some q.bankroll = _
        rw [hmq.2]
      · rw [hstep, hmoney s, hq, hlm]
        simp only [Option.bind_some, writeBack, finalOf_of_idx hqk, List.getElem?_eq_getElem hk, written]
        split
        · rfl
        · simp [money, hmq.1]
  · intro j hj
    rw [hstep, hmoney j, ← hm12 j]
    cases hq : (t1.assignGameIdx seats).playerAt j with
    | none => rfl
    | some q =>
      have hg : q.gameIdx = -1 := by
        rw [assignGameIdx_playerAt _ _ hnd] at hq
        cases hq0 : t1.playerAt j with
        | none => rw [hq0] at hq; cases hq
        | some q0 =>
          rw [hq0] at hq
          simp only [Option.map_some, Option.some.injEq] at hq
          rw [← hq]; simp [hj]
      simp only [Option.bind_some, writeBack, finalOf, hg]
      rfl
  · rw [hstep, htot, assignGameIdx_sheetTotal _ _ hnd, hcr.t1_eq, setupPosition_sheetTotal]

/-- **H, conservation.**  If the closing stacks add up to the configured bankrolls, the chips on the sheet are the same
before and after the hand — also in leave mode: a player who is removed holds nothing.  (That every closing stack is
`≥ 0` is not needed for this.) -/
theorem hand_conserves_chips (t : Table) (h : TReachable t) (finals : List Int) (cfg : List SeatCfg)
    (hc : (t.step (.hand finals)).2.cfg = some cfg) (hok : Table.startRefusal cfg = none)
    (hl : finals.length = cfg.length) (hsum : finals.sum = (cfg.map (·.bankroll)).sum) :
    (t.step (.hand finals)).1.sheetTotal = t.sheetTotal := by
  obtain ⟨_, _, _, _, _, _, _, htot⟩ := bankroll_writeback t h finals cfg hc hok hl
  omega

example : (demo.step (.hand [150, 200, 0])).1.sheetTotal = 350 ∧ demo.sheetTotal = 350 ∧
    (demo.step (.hand [150, 200, 0])).1.players.map (·.map (·.bankroll)) = [some 150, none, some 200, some 0, none] := by
  decide
/-- `demo` in leave mode -/
def demoLeave : Table :=
  (Table.new 5 { leaveMode := true }).run
    [.join 0 1 100 none, .activate 0, .join 2 2 200 none, .activate 2, .join 3 3 50 none, .activate 3]
/-- leave mode: the busted player is gone, the chips are all there -/
example : (demoLeave.step (.hand [150, 200, 0])).1.sheetTotal = 350 ∧
    (demoLeave.step (.hand [150, 200, 0])).1.players.map (·.map (·.bankroll)) = [some 150, none, some 200, none, none] ∧
    ((demoLeave.step (.hand [150, 200, 0])).1.sm.seats[3]?).map (·.player) = some none := by
  decide

/-- **What the engine reports fits** (C01 composed).  For ANY history of the engine model from the start of ANY
configuration it accepts (non-negative forced bets, `OptsOK`) that reaches `GameClosed`, the closing stacks of the
result (`Result.Players[k].Final`, in seat = game-index order, `idx = k`) are one per configured player, none negative,
and add up to the configured bankrolls. -/
theorem engine_finals (m : Meta) (cfg : List SeatCfg) (wf : OptsOK m) (hs : (start ⟨m, cfg⟩).2 = none) (ops : List Op)
    (he : ((start ⟨m, cfg⟩).1.run ops).event = .gameClosed) :
    ∃ r, ((start ⟨m, cfg⟩).1.run ops).result = some r ∧
      (r.players.map (·.finalStack)).length = cfg.length ∧
      (r.players.map (·.finalStack)).sum = (cfg.map (·.bankroll)).sum ∧
      (∀ f ∈ r.players.map (·.finalStack), 0 ≤ f) ∧
      ∀ (k : Nat) pr, r.players[k]? = some pr → pr.idx = k := by
  obtain ⟨r, hr, hz, hlen, hall⟩ := C01.closed_result_configured ⟨m, cfg⟩ ⟨wf⟩ hs ops he
  have hrow : ∀ (i : Nat) (s : SeatCfg) (pr : PlayerResult), cfg[i]? = some s → r.players[i]? = some pr →
      pr.idx = i ∧ pr.finalStack = s.bankroll + pr.changed ∧ 0 ≤ pr.finalStack := by
    intro i s pr hs' hpr
    obtain ⟨_, pr', _, hpr', h1, h2, h3, _⟩ := hall i s hs'
    rw [hpr] at hpr'; cases hpr'
    exact ⟨h1, h2, h3⟩
  have hcfg : ∀ (i : Nat) pr, r.players[i]? = some pr → ∃ s, cfg[i]? = some s := by
    intro i pr hpr
    have : i < cfg.length := by
      have := (List.getElem?_eq_some_iff.mp hpr).1
      rw [hlen] at this; exact this
    exact ⟨_, List.getElem?_eq_getElem this⟩
  refine ⟨r, hr, by simpa using hlen, ?_, ?_, ?_⟩
  · have := sum_pointwise (·.bankroll) (·.finalStack) (·.changed) cfg r.players hlen.symm
      (fun i a b ha hb => (hrow i a b ha hb).2.1)
    rw [this, hz]; simp
  · intro f hf
    rw [List.mem_map] at hf
    obtain ⟨pr, hpr, rfl⟩ := hf
    obtain ⟨i, hi⟩ := List.getElem?_of_mem hpr
    obtain ⟨s, hs'⟩ := hcfg i pr hi
    exact (hrow i s pr hs' hi).2.2
  · intro k pr hpr
    obtain ⟨s, hs'⟩ := hcfg k pr hpr
    exact (hrow k s pr hs' hpr).1

/-- **Chips are conserved across hands at a table.**  Let a reachable table create a game with player settings `cfg`
(`hc`; `finals0` is irrelevant: `hand_cfg_independent`).  Let the engine play that game: ANY history of the engine model
from `start ⟨m, cfg⟩` — any options `m` with a deck and non-negative forced bets — that is accepted and reaches
`GameClosed` with result `r`.  Feed the closing stacks of `r` back (`updatePlayerStates`).  Then the hand is played to
the end (no refusal, no input error), the chips on the sheet are what they were before the hand, and every closing stack
written back is `≥ 0`.  (C01 `closed_result_configured` is available in exactly the form needed; no extra hypothesis.) -/
theorem table_hand_conserves (t : Table) (h : TReachable t) (finals0 : List Int) (cfg : List SeatCfg)
    (hc : (t.step (.hand finals0)).2.cfg = some cfg)
    (m : Meta) (wf : OptsOK m) (hs : (start ⟨m, cfg⟩).2 = none) (ops : List Op) (r : Result)
    (he : ((start ⟨m, cfg⟩).1.run ops).event = .gameClosed) (hr : ((start ⟨m, cfg⟩).1.run ops).result = some r) :
    let finals := r.players.map (·.finalStack)
    (t.step (.hand finals)).2.cfg = some cfg ∧
    (∀ e, (t.step (.hand finals)).2.err ≠ some (.game e)) ∧ (t.step (.hand finals)).2.err ≠ some .badInput ∧
    (t.step (.hand finals)).1.sheetTotal = t.sheetTotal ∧ ∀ f ∈ finals, 0 ≤ f := by
  intro finals
  obtain ⟨r', hr', hlen, hsum, hpos, _⟩ := engine_finals m cfg wf hs ops he
  rw [hr] at hr'; cases hr'
  have hdeck : m.deck ≠ [] := ((C06.start_iff ⟨m, cfg⟩).mp hs).2.2.2
  have hok : Table.startRefusal cfg = none := by
    rw [← Table.startRefusal_eq_start ⟨m, cfg⟩ hdeck]; exact hs
  have hc' : (t.step (.hand finals)).2.cfg = some cfg := by rw [hand_cfg_indep t finals finals0]; exact hc
  obtain ⟨_, _, _, _, _, _, _, _, _, _, _, _, herr, _⟩ := game_players t h finals cfg hc'
  refine ⟨hc', ?_, ?_, hand_conserves_chips t h finals cfg hc' hok hlen hsum, hpos⟩
  · intro e he'
    rw [(herr e).mp he'] at hok; cases hok
  · obtain ⟨t1, seats, hcr, hcfg, hstep⟩ := hand_created h.inv hc'
    rw [hstep]
    intro hbad
    exact (playHand_err_badInput hbad).2 hlen

/-- Non-vacuity of `engine_finals` / `table_hand_conserves`: a 3-seat table whose first game is exactly the side-pot hand
`C01.sideCfg` (bankrolls 100, 7, 50; dealer, sb, bb); the engine run `C01.sideOps` closes it with the stacks 50, 21, 86;
written back, the sheet shows them and still holds 157 chips. -/
def sideTable : Table :=
  (Table.new 3 {}).run [.join 0 1 100 none, .activate 0, .join 1 2 7 none, .activate 1, .join 2 3 50 none, .activate 2]

example : TReachable sideTable := ⟨3, {}, _, rfl⟩
example : (sideTable.step (.hand [])).2.cfg = some C01.sideCfg.seats ∧ sideTable.sheetTotal = 157 := by decide
example : OptsOK C01.sideCfg.opts := ⟨by decide, by decide, by decide, by decide⟩
example : (start ⟨C01.sideCfg.opts, C01.sideCfg.seats⟩).2 = none ∧
    ((start ⟨C01.sideCfg.opts, C01.sideCfg.seats⟩).1.run C01.sideOps).event = .gameClosed ∧
    (((start ⟨C01.sideCfg.opts, C01.sideCfg.seats⟩).1.run C01.sideOps).result.map fun r => r.players.map (·.finalStack)) =
      some [50, 21, 86] := by decide
example : (sideTable.step (.hand [50, 21, 86])).1.sheetTotal = 157 ∧ (sideTable.step (.hand [50, 21, 86])).2.err = none ∧
    (sideTable.step (.hand [50, 21, 86])).1.players.map (·.map (·.bankroll)) = [some 50, some 21, some 86] := by decide

/-- the game a `prepareNextGame` creates does not depend on the closing stacks it is given -/
theorem hand_cfg_independent (t : Table) (f1 f2 : List Int) : (t.step (.hand f1)).2.cfg = (t.step (.hand f2)).2.cfg :=
  hand_cfg_indep t f1 f2

/-! ## I. Busted players sit out -/

/-- **I.**  After a hand that was played to the end, a player whose closing stack is 0 (`finals[k] = 0`, seat `s =
seats[k]`) is reserved — in leave mode he is gone from the seat and from the sheet.  Hence his seat is not playable:
not in the closing `setupPosition` (if it succeeded, `inPosition = true`, the sheet says `Playable = false`), and, as long
as nobody calls `Activate(s)`, not after any further operations of the table either (joins, leaves, reserves, hands…);
in particular he is not among the players of any later game. -/
theorem busted_sits_out (t : Table) (h : TReachable t) (finals : List Int) (cfg : List SeatCfg)
    (hc : (t.step (.hand finals)).2.cfg = some cfg) (hok : Table.startRefusal cfg = none)
    (hl : finals.length = cfg.length) :
    ∃ t1 seats, t.setupPosition = (t1, none) ∧ playableSeats t1.sm = some seats ∧
      ∀ (k s : Nat), seats[k]? = some s → finals[k]? = some 0 →
        (∀ x, (t.step (.hand finals)).1.sm.seats[s]? = some x → x.reserved = true ∨ x.player = none) ∧
        (t.opts.leaveMode = true → (t.step (.hand finals)).1.playerAt s = none ∧ (t.step (.hand finals)).1.sm.pidAt s = none) ∧
        (t.step (.hand finals)).1.sm.playable s = false ∧
        ((t.step (.hand finals)).1.inPosition = true → ∀ p, (t.step (.hand finals)).1.playerAt s = some p →
          p.playable = false) ∧
        (∀ ops : List TOp, (∀ op ∈ ops, op ≠ .activate (s : Int)) →
          ((t.step (.hand finals)).1.run ops).sm.playable s = false ∧
          ∀ f2 cfg2, (((t.step (.hand finals)).1.run ops).step (.hand f2)).2.cfg = some cfg2 →
            ∃ t1' seats2, ((t.step (.hand finals)).1.run ops).setupPosition = (t1', none) ∧
              playableSeats t1'.sm = some seats2 ∧ cfg2 = t1'.gameSeats seats2 ∧ s ∉ seats2) := by
  have hi := h.inv
  obtain ⟨t1, seats, hcr, hcfg, hstep⟩ := hand_created hi hc
  obtain ⟨hnd, hlen, hpl, d, hd, hseats⟩ := hcr.facts hi
  have h2 := (hcr.tinv hi).assignGameIdx seats
  have hidx := hcr.idxOK hi
  have hcfg2 : cfg = (t1.assignGameIdx seats).gameSeats seats := hcfg.trans (hcr.cfg_eq hi).symm
  obtain ⟨hT', hopts, hmoney, _, hheld⟩ := played_sheet h2 hidx hcfg2 hok hl
  have hlm : (t1.assignGameIdx seats).opts.leaveMode = t.opts.leaveMode := by
    rw [assignGameIdx_opts, hcr.t1_eq, setupPosition_opts]
  have hflen : finals.length ≤ seats.length := by rw [hl, hcfg, gameSeats_length]
  refine ⟨t1, seats, hcr.setup, hcr.seats, ?_⟩
  intro k s hks hk0
  have hH : SM.Held (t.step (.hand finals)).1.sm s := by
    rw [hstep]; exact hheld s (applyResult_busted h2 hidx finals hflen hk0 hks)
  have hT : TInv (t.step (.hand finals)).1 := by rw [hstep]; exact hT'
  refine ⟨hH, ?_, hH.not_playable, ?_, ?_⟩
  · intro hlmt
    obtain ⟨q, hq, hqk⟩ := hidx.has k s hks
    have hm := hmoney s
    rw [hq, hlm, hlmt] at hm
    simp only [Option.bind_some, writeBack, finalOf_of_idx hqk, hk0, written, and_self, if_true, Option.map_none] at hm
    rw [← hstep] at hm
    have hnone : (t.step (.hand finals)).1.playerAt s = none := by
      cases hx : (t.step (.hand finals)).1.playerAt s with
      | none => rfl
      | some x => rw [hx] at hm; cases hm
    refine ⟨hnone, ?_⟩
    rw [← hT.sync s, pidAt_eq, hnone]; rfl
  · intro hin p hp
    rw [hstep] at hin hp
    rw [played_flags hok hl hin hp, ← hstep]
    exact hH.not_playable
  · intro ops hops
    have hR := run_held hT hH ops hops
    refine ⟨hR.not_playable, ?_⟩
    intro f2 cfg2 hc2
    have hTR := hT.run ops
    obtain ⟨t1', seats2, hcr', hcfg', _⟩ := hand_created hTR hc2
    refine ⟨t1', seats2, hcr'.setup, hcr'.seats, hcfg', ?_⟩
    intro hmem
    have hp := ((hcr'.facts hTR).2.2.1 s hmem).1
    have hH' : SM.Held t1'.sm s := by rw [hcr'.t1_eq]; exact setupPosition_held hTR hR
    rw [hH'.not_playable] at hp
    cases hp

/-- after the demo hand the player on seat 3 is busted: reserved, `Playable = false` on the sheet, and the next game is
made of seats 2 and 0 only; once he is activated again he is dealt in again — with an empty bankroll, so that `Start()`
refuses the game (nothing in `Activate` looks at the bankroll) -/
example : let t' := (demo.step (.hand [150, 200, 0])).1
    t'.sm.seats[3]? = some { player := some 3, active := true, reserved := true } ∧ t'.sm.playable 3 = false ∧
    t'.players[3]?.join.map (·.playable) = some false ∧
    (t'.step (.hand [175, 175])).2.cfg = some [⟨200, true, true, false⟩, ⟨150, false, false, true⟩] ∧
    ((t'.step (.activate 3)).1.step (.hand [0, 0, 0])).2.err = some (.game .notEnoughBankroll) := by decide


/-! ## From one hand to the next -/

/-- **The closing `setupPosition` of a hand is a hand-off in the sense of E, F, G.**  When `prepareNextGame` creates a
game and ends without error, its last step was a successful `setupPosition` that ran `Next()` from a state `tc` (hand
over, stacks written back, `inPosition = false`) which satisfies the invariant: E, F, G apply to `tc` and the returned
table `t'`, whose `inPosition` is now `true`. -/
theorem closing_setup (t : Table) (h : TReachable t) (finals : List Int) (cfg : List SeatCfg)
    (hc : (t.step (.hand finals)).2.cfg = some cfg) (herr : (t.step (.hand finals)).2.err = none) :
    ∃ tc, TInv tc ∧ tc.inPosition = false ∧ tc.setupPosition = ((t.step (.hand finals)).1, none) ∧
      (t.step (.hand finals)).1.inPosition = true := by
  have hi := h.inv
  obtain ⟨t1, seats, hcr, hcfg, hstep⟩ := hand_created hi hc
  rw [hstep] at herr ⊢
  obtain ⟨_, _, hsp⟩ := playHand_ok herr
  exact ⟨_, closed_tinv ((hcr.tinv hi).assignGameIdx seats) finals, rfl, hsp, setupPosition_ok_inPosition hsp⟩

/-- **The next game, when nothing happens in between.**  A `prepareNextGame` that finds the positions already set up
(`inPosition = true`) makes its game from the sheet and the seat manager as they are: the player settings are
`gameSeats` of `GetPlayableSeats()` of the current state.  So after `closing_setup`, E, F, G describe the configuration
the engine gets for the following hand — provided no `Join` / `Leave` / `Activate` / `Reserve` came in between
(otherwise: `disturbed_*` below). -/
theorem next_game_undisturbed (t : Table) (h : TReachable t) (hin : t.inPosition = true) (finals : List Int)
    (cfg : List SeatCfg) (hc : (t.step (.hand finals)).2.cfg = some cfg) :
    ∃ seats, playableSeats t.sm = some seats ∧ cfg = t.gameSeats seats := by
  obtain ⟨t1, seats, _, hset, _, _, hps, hcfg, _⟩ := game_players t h finals cfg hc
  rw [setupPosition_inPosition hin] at hset
  cases hset
  exact ⟨seats, hps, hcfg⟩

/-- `demo`, two hands in a row: the closing `setupPosition` of the first hand (everybody keeps chips) gives dealer 2,
small blind 3, big blind 0; the second hand is made of exactly that. -/
example : let t' := (demo.step (.hand [150, 150, 50])).1
    (demo.step (.hand [150, 150, 50])).2.err = none ∧ t'.inPosition = true ∧
    (t'.sm.dealer, t'.sm.sb, t'.sm.bb) = (some 2, some 3, some 0) ∧ playableSeats t'.sm = some [2, 3, 0] ∧
    (t'.step (.hand [100, 100, 150])).2.cfg =
      some [⟨150, true, false, false⟩, ⟨50, false, true, false⟩, ⟨150, false, false, true⟩] := by decide

/-! ## The disturbed hand-off (findings)

`prepareNextGame` sets up the positions of the NEXT hand at the end of the current one (`inPosition = true`), but
`startGame` of that next hand reads the playable seats afresh.  `Join` / `Leave` / `Activate` between the two are not
reflected in the positions on the sheet. -/

/-- `demo` after one hand in which everybody kept chips; the positions of the next hand are set up: dealer on seat 2. -/
def afterHand : Table := (demo.step (.hand [150, 150, 50])).1

/-- **Finding (disturbed hand-off, no dealer).**  The player who has just been given the button leaves before the next
hand starts (`Leave(2)`).  `setupPosition` does nothing (`inPosition = true`), `startGame` builds the game from the two
remaining players, none of whom carries `"dealer"`: `Start()` refuses with `ErrNoDealer`.  Go-level sequence: three
players join and sit in (seats 0, 2, 3), one hand is played, `Leave(2)`, `prepareNextGame`. -/
theorem disturbed_no_dealer :
    afterHand.inPosition = true ∧ afterHand.sm.dealer = some 2 ∧
    ((afterHand.step (.leave 2)).1.step (.hand [100, 100])).2.err = some (.game .noDealer) ∧
    ((afterHand.step (.leave 2)).1.step (.hand [100, 100])).2.cfg =
      some [⟨50, false, true, false⟩, ⟨150, false, false, true⟩] := by decide

/-- **A refused game is refused for ever.**  When `Start()` refuses the game of a `prepareNextGame` (any reason: no
dealer, an empty bankroll…), `startGame` returns before `inPosition` is reset; so every further `prepareNextGame` — as
long as nothing else happens at the table — builds the same game and gets the same refusal.  (In `tableLoop` this error
is none of the cases handled: the loop schedules the next game, again and again.)  All reachable tables, any number of
retries, any closing stacks offered. -/
theorem refused_forever (t : Table) (h : TReachable t) (f : List Int) (e : Err)
    (hr : (t.step (.hand f)).2.err = some (.game e)) (fs : List (List Int)) (f' : List Int) :
    (((t.step (.hand f)).1.run (fs.map .hand)).step (.hand f')).2.err = some (.game e) ∧
    (((t.step (.hand f)).1.run (fs.map .hand)).step (.hand f')).2.cfg = (t.step (.hand f)).2.cfg := by
  obtain ⟨seats, hst⟩ := stuck_of_refused h.inv hr
  obtain ⟨h1, h2⟩ := refused_again hst fs f'
  refine ⟨h1, ?_⟩
  rw [h2]
  -- the first refusal already shows that game
  obtain ⟨cfg, hc⟩ : ∃ cfg, (t.step (.hand f)).2.cfg = some cfg := by
    rcases prepareNextGame_cases t f with ⟨t1, s1, hcr⟩ | ⟨_, hne⟩
    · exact ⟨_, by show (t.prepareNextGame f).2.cfg = _; rw [prepareNextGame_created hcr, playHand_cfg]⟩
    · exact absurd hr (hne e)
  obtain ⟨t1, s1, hcr, hcfg, hstep⟩ := hand_created h.inv hc
  have hr' : Table.startRefusal cfg = some e := by rw [hstep] at hr; exact playHand_err_game.mp hr
  have hst1 : (t.step (.hand f)).1 = t1.assignGameIdx s1 := by rw [hstep, playHand_refused hr']
  have hps : playableSeats (t.step (.hand f)).1.sm = some s1 := by rw [hst1, assignGameIdx_sm]; exact hcr.seats
  have hseq : seats = s1 := by
    have := hst.created.seats
    rw [hps] at this
    exact (Option.some.inj this).symm
  rw [hc, hseq, hst1, hcr.cfg_eq h.inv, hcfg]

example : let t := (afterHand.step (.leave 2)).1
    ((t.run [.hand [100, 100], .hand [], .hand [7]]).step (.hand [100, 100])).2.err = some (.game .noDealer) := by decide

/-- 6 seats; players on 0, 2, 4 sit in, a fourth only joins seat 3; one hand; the closing `Next()` gives dealer 2, small
blind 4 (seat 3 is reserved), big blind 0; then the player on seat 3 sits in (`Activate(3)`: playable at once). -/
def lateSitIn : Table :=
  (Table.new 6 {}).run [.join 0 10 100 none, .activate 0, .join 2 12 100 none, .activate 2, .join 4 14 100 none, .activate 4,
    .join 3 13 100 none, .hand [100, 100, 100], .activate 3]

/-- **Finding (disturbed hand-off, layout).**  A player who sits in between two hands on a seat between the dealer and
the small blind is dealt in at once, without a position: the engine gets ⟨dealer⟩, ⟨no position⟩, ⟨sb⟩, ⟨bb⟩ — the small
blind is not the first player after the dealer.  Likewise in `d4pre` above the big blind left between two hands: the
engine gets three players ⟨dealer⟩, ⟨sb⟩, ⟨no position⟩ and no big blind at all; `Start()` accepts both. -/
theorem disturbed_layout :
    lateSitIn.inPosition = true ∧ (lateSitIn.sm.dealer, lateSitIn.sm.sb, lateSitIn.sm.bb) = (some 2, some 4, some 0) ∧
    (lateSitIn.step (.hand [100, 100, 100, 100])).2.cfg =
      some [⟨100, true, false, false⟩, ⟨100, false, false, false⟩, ⟨100, false, true, false⟩, ⟨100, false, false, true⟩] ∧
    (lateSitIn.step (.hand [100, 100, 100, 100])).2.err = none ∧
    d4pre.inPosition = true ∧
    (d4pre.step (.hand [0, 150, 150])).2.cfg =
      some [⟨100, true, false, false⟩, ⟨100, false, true, false⟩, ⟨100, false, false, false⟩] := by decide

end Pokerface.C08T

section Axioms
open Pokerface.C08T
#print axioms startRefusal_eq_start
#print axioms reachable_invariant
#print axioms invariant_inductive
#print axioms positions_copied
#print axioms game_players
#print axioms hand_off_heads_up
#print axioms hand_off_ring
#print axioms hand_off_ring_of_noWaiting
#print axioms d4_hand_off_witness
#print axioms hand_off_ring_false
#print axioms hand_off_accepted
#print axioms hand_off_accepted_step
#print axioms bankroll_writeback
#print axioms hand_conserves_chips
#print axioms engine_finals
#print axioms table_hand_conserves
#print axioms busted_sits_out
#print axioms closing_setup
#print axioms next_game_undisturbed
#print axioms disturbed_no_dealer
#print axioms refused_forever
#print axioms disturbed_layout
end Axioms

