/-
  C09 with RE-ENTRIES.

  "Across any history of registrations, table syncs with eliminations, and releases, every
   registered player who has not been eliminated is in exactly one place …"

  The Go regulator knows names, not identities: `AddPlayers` accepts any names, in particular the
  name of a player who was eliminated earlier (a re-entry).  The theorems of Properties/C09.lean
  are stated on `ReachableAny` / `AReachable`, where a registered name must never have been
  registered before (`p ∉ env.registered`).  This file states and proves the same clauses on the
  WIDER domains

    `ReachableRe`  (synchronous,  Proofs/RegReentry.lean: `RSys.okRe`)
    `AReachableRe` (asynchronous, Proofs/RegReentry.lean: `ASys.okRe`)

  in which the names of a registration need only be distinct from each other and from the names
  of the players CURRENTLY ALIVE (`p ∉ env.alive`: registered and not eliminated — at a table,
  queued, or on the way back).  Everything else is as in `okAny` / `ASys.ok` (any setting
  `1 ≤ max`, any status at any time, any elimination subset, any released players, late reports).
  `reentry_domain_wider` / `reentry_domain_wider_async`: every history of the old domains is a
  history of the new ones, so each theorem here implies its namesake in Properties/C09.lean.

  The condition `p ∉ env.alive` cannot be dropped: registering the name of a player who is still
  in the competition puts that name in two places (`alive_name_twice` below: the Go code accepts
  such a call, and then the name IS at two seats; conservation of NAMES is false there, by
  `decide`).  `env.registered` is a ghost list; with re-entries it holds a name once per
  registration and no theorem mentions it.

  How it is proved: the invariants `SInv0` / `AInv` of the old proofs hold on the new domains as
  they stand; only their `add` step used freshness, and only through "the new names are not
  alive" (`SInv0.step_add_re`, `AInv.step_add_re`); the other steps are the old lemmas.
-/
import Pokerface.Proofs.RegReentry

namespace Pokerface.C09
open Pokerface Reg RSys

/-- the domain with re-entries contains the widest domain without: every theorem below implies
    its namesake of Properties/C09.lean -/
theorem reentry_domain_wider {s : RSys} (h : ReachableAny s) : ReachableRe s := h.re

/-- **counts_agree**, with re-entries: at every quiescent point the regulator's player total is
    the number of alive players (a re-entered player counts once: he was discounted when he was
    eliminated), its table count is the number of its table records and of real tables, and its
    sheet `(id, PlayerCount)` is exactly the real sheet `(id, number of members)`. -/
theorem counts_agree_re {s : RSys} (h : ReachableRe s) :
    s.r.playerCount = s.env.alive.length ∧
    s.r.tableCount = s.r.tables.length ∧
    s.r.tables.length = s.env.members.length ∧
    s.r.tables.map (fun t => (t.id, t.count)) = s.env.members.map (fun e => (e.1, (e.2.length : Int))) := by
  have hS := SInv0.of_reachableRe h
  refine ⟨hS.pc, hS.rinv.wf.tc, ?_, hS.sim⟩
  have := congrArg List.length hS.sim
  simpa [tview, mview] using this

/-- **counts_agree**, per table, with re-entries -/
theorem count_of_table_re {s : RSys} (h : ReachableRe s) (t : Nat) :
    (s.r.findTable t).map (fun tb => tb.count) = (s.env.membersOf t).map (fun ms => (ms.length : Int)) := by
  have hS := SInv0.of_reachableRe h
  have := sim_find s.r.tables s.env.members t hS.sim
  simp only [Reg.findTable, Env.membersOf, Option.map_map]
  exact this

/-- **conservation**, with re-entries: the alive players are exactly the queue together with all
    table memberships (as multisets), and no name occurs twice — a player who was eliminated and
    came back is there ONCE. -/
theorem conservation_re {s : RSys} (h : ReachableRe s) :
    s.env.alive.Perm (s.r.queue ++ s.env.seated) ∧ (s.r.queue ++ s.env.seated).Nodup ∧ s.env.alive.Nodup := by
  have hS := SInv0.of_reachableRe h
  exact ⟨hS.cons, hS.cons.nodup_iff.1 hS.nodup, hS.nodup⟩

/-- **exactly one place**, with re-entries: a name is alive iff it is queued or sits at some table;
    never both; never at two tables, never twice in the queue. -/
theorem exactly_one_place_re {s : RSys} (h : ReachableRe s) (p : Nat) :
    (p ∈ s.env.alive ↔ (p ∈ s.r.queue ∨ ∃ e ∈ s.env.members, p ∈ e.2)) ∧
    ¬ (p ∈ s.r.queue ∧ ∃ e ∈ s.env.members, p ∈ e.2) ∧
    s.r.queue.Nodup ∧ s.env.seated.Nodup := by
  obtain ⟨hperm, hnd, _⟩ := conservation_re h
  have hseat : p ∈ s.env.seated ↔ ∃ e ∈ s.env.members, p ∈ e.2 := by
    simp only [Env.seated, List.mem_flatten, List.mem_map]
    constructor
    · rintro ⟨l, ⟨e, he, rfl⟩, hp⟩; exact ⟨e, he, hp⟩
    · rintro ⟨e, he, hp⟩; exact ⟨e.2, ⟨e, he, rfl⟩, hp⟩
  rw [List.nodup_append] at hnd
  refine ⟨?_, ?_, hnd.1, hnd.2.1⟩
  · rw [hperm.mem_iff, List.mem_append, hseat]
  · rintro ⟨hq, hs⟩
    exact hnd.2.2 p hq p (hseat.2 hs) rfl

/-- **the eliminated are nowhere** (what makes a re-entry harmless): after a valid sync of a known
    table, the eliminated players are not alive, hence (by `exactly_one_place_re` in the successor
    state) neither queued nor at any table — their names are free to be registered again. -/
theorem eliminated_nowhere_re {s : RSys} (h : ReachableRe s) (t : Nat) (elim stay rel keep ch ms : List Nat)
    (hm : s.env.membersOf t = some ms) (hok : s.okRe (.sync t elim stay rel keep ch)) :
    ∀ p ∈ elim, p ∉ (s.step (.sync t elim stay rel keep ch)).env.alive ∧
      p ∉ (s.step (.sync t elim stay rel keep ch)).r.queue ∧
      ∀ e ∈ (s.step (.sync t elim stay rel keep ch)).env.members, p ∉ e.2 := by
  intro p hp
  have h' : ReachableRe (s.step (.sync t elim stay rel keep ch)) := .step _ h hok
  have hna : p ∉ (s.step (.sync t elim stay rel keep ch)).env.alive := by
    simp only [RSys.step, hm]
    split <;> simp [List.mem_filter, hp]
  obtain ⟨hiff, _, _, _⟩ := exactly_one_place_re h' p
  refine ⟨hna, fun hq => hna (hiff.2 (Or.inl hq)), fun e he hpe => hna (hiff.2 (Or.inr ⟨e, he, hpe⟩))⟩

/-- **the instructions can be followed**, with re-entries (as `release_feasible`) -/
theorem release_feasible_re {s : RSys} (h : ReachableRe s) (t : Nat) (ms elim stay : List Nat)
    (hm : s.env.membersOf t = some ms) (hp : ms.Perm (elim ++ stay)) :
    (s.syncAnswer t elim).2.1 = none ∧ 0 ≤ (s.syncAnswer t elim).2.2.1 ∧
    (s.syncAnswer t elim).2.2.1 ≤ ((stay ++ (s.syncAnswer t elim).2.2.2).length : Int) := by
  obtain ⟨r1, relc, nw, t0, hans, _, _, h0, hle, _⟩ := (SInv0.of_reachableRe h).sync_known t elim stay ms hm hp
  rw [hans, List.length_append]
  exact ⟨rfl, h0, by simpa using hle⟩

/-- **handout_once**, with re-entries: in every valid operation (a re-entry included), the queue
    before the operation followed by the players entering it is, IN ORDER, the players returned by
    `SyncState`, then the players passed to callbacks, then the queue after the operation; and no
    name occurs twice in that list. -/
theorem handout_once_re {s : RSys} (h : ReachableRe s) (op : EOp) (hok : s.okRe op) :
    s.r.queue ++ s.incoming op = s.returned op ++ handed (s.step op).r.calls ++ (s.step op).r.queue ∧
    (s.returned op ++ handed (s.step op).r.calls ++ (s.step op).r.queue).Nodup := by
  have hS := SInv0.of_reachableRe h
  obtain ⟨hS', hF⟩ := hS.step_full_re op hok
  refine ⟨hF.handout, ?_⟩
  rw [← hF.handout, List.nodup_iff_count]
  intro a
  have c1 := hS.cons.count_eq a
  have c2 := List.nodup_iff_count.1 hS.nodup a
  rw [List.count_append] at c1 ⊢
  cases op with
  | status st ch => simp only [incoming, List.count_nil]; omega
  | add ps ch =>
    simp only [incoming]
    split
    · simp only [List.count_nil]; omega
    · obtain ⟨hnd, hfree, _⟩ := hok
      have c3 := List.nodup_iff_count.1 hnd a
      by_cases ha : a ∈ ps
      · have := List.count_eq_zero.2 (hfree a ha)
        omega
      · have := List.count_eq_zero.2 ha
        omega
  | sync t elim stay rel keep ch =>
    simp only [incoming]
    cases hm : s.env.membersOf t with
    | none => simp only [List.count_nil]; omega
    | some ms =>
      simp only []
      have hok' := hok
      simp only [okRe, okAny, ok, hm] at hok'
      rw [show s.syncAnswer t elim = ((s.syncAnswer t elim).1, (s.syncAnswer t elim).2.1,
        (s.syncAnswer t elim).2.2.1, (s.syncAnswer t elim).2.2.2) from rfl] at hok'
      simp only [] at hok'
      obtain ⟨hp1, hp2, hrl, _, _⟩ := hok'
      obtain ⟨r1, relc, nw, t0, hans, _, _, _, _, hex, _⟩ := hS.sync_known t elim stay ms hm hp1
      rw [hans] at hp2 hrl
      simp only [] at hp2 hrl
      have c3 := (count_seatedOf_split s.env.members t ms [] hS.ids_nodup (membersOf_some hm) a).1
      have c4 := hp1.count_eq a
      have c5 := hp2.count_eq a
      simp only [List.count_append] at c4 c5
      rcases hex with hnw | hr0
      · subst hnw
        simp only [List.count_nil] at c5
        have : (seatedOf s.env.members).count a = s.env.seated.count a := rfl
        omega
      · have : rel = [] := by
          rw [hr0] at hrl
          exact List.length_eq_zero_iff.1 (by omega)
        subst this
        simp only [List.count_nil]; omega

/-- in reachable states with re-entries the regulator knows exactly the tables that exist -/
theorem unknown_iff_re {s : RSys} (h : ReachableRe s) (t : Nat) :
    s.env.membersOf t = none ↔ s.r.findTable t = none :=
  (SInv0.of_reachableRe h).unknown_iff t

/-- before the deadline a registration — of new names or of names of eliminated players — is
    accepted, and the registrants become alive -/
theorem registration_accepted_re {s : RSys} (h : ReachableRe s) (ps ch : List Nat) (hok : s.okRe (.add ps ch))
    (hs : s.r.status ≠ .afterRegDeadline) :
    (s.r.addPlayers ps ch).2 = none ∧
    (s.step (.add ps ch)).env.alive = s.env.alive ++ ps := by
  have he := (addPlayers_spec0 s.r ps ch (SInv0.of_reachableRe h).rinv hs hok.2.2).1
  refine ⟨he, ?_⟩
  simp only [RSys.step]
  generalize s.r.addPlayers ps ch = p at he
  obtain ⟨r', e⟩ := p
  simp only at he
  subst he
  rfl

/-- **totality, `AddPlayers`, with re-entries**: in every reachable state every batch of distinct
    names none of which is that of a player currently alive — never registered, or registered and
    eliminated since — can be registered, in every phase. -/
theorem registration_possible_re {s : RSys} (h : ReachableRe s) (ps : List Nat) (hnd : ps.Nodup)
    (hfree : ∀ p ∈ ps, p ∉ s.env.alive) : ∃ ch, s.okRe (.add ps ch) :=
  (SInv0.of_reachableRe h).add_total_re ps hnd hfree

/-- totality of the other operations is unchanged (`okRe` = `okAny` on them) -/
theorem status_change_possible_re {s : RSys} (h : ReachableRe s) (st : RStatus) :
    ∃ ch, s.okRe (.status st ch) :=
  (SInv0.of_reachableRe h).status_total st

theorem sync_possible_re {s : RSys} (h : ReachableRe s) (t : Nat) (elim stay : List Nat)
    (hsplit : ∀ ms, s.env.membersOf t = some ms → ms.Perm (elim ++ stay)) :
    ∃ rel keep ch, s.okRe (.sync t elim stay rel keep ch) := by
  obtain ⟨rel, keep, ch, hok⟩ := (SInv0.of_reachableRe h).sync_total t elim stay hsplit
  exact ⟨rel, keep, ch, hok⟩

/-! ### non-vacuity -/

/-- seven registrants at 9/6, start (one table), player 3 is eliminated, and REGISTERS AGAIN under
    the same name: he is dispatched to table 1 (choice `1`). -/
def reentry : List EOp :=
  [.add [1,2,3,4,5,6,7] [], .status .normal [],
   .sync 1 [3] [1,2,4,5,6,7] [] [1,2,4,5,6,7] [], .add [3] [1]]

example : ReachableRe ((RSys.init 9 6).run reentry) :=
  (ReachableRe.init 9 6 (by decide)).run reentry (by decide)
/-- the history is outside the old domain: its last operation is not valid under `okAny` … -/
example : ¬ (RSys.init 9 6).allOkAny reentry := by decide
/-- … although everything before it is -/
example : (RSys.init 9 6).allOkAny (reentry.take 3) := by decide
example : ¬ ((RSys.init 9 6).run (reentry.take 3)).okAny (.add [3] [1]) := by decide
/-- after the elimination player 3 is nowhere … -/
example : ((RSys.init 9 6).run (reentry.take 3)).env.members = [(1, [1,2,4,5,6,7])] ∧
    ((RSys.init 9 6).run (reentry.take 3)).env.alive = [1,2,4,5,6,7] ∧
    ((RSys.init 9 6).run (reentry.take 3)).r.queue = [] ∧
    ((RSys.init 9 6).run (reentry.take 3)).r.playerCount = 6 := by decide
/-- … and after the re-entry he is at exactly one place, counted once -/
example : ((RSys.init 9 6).run reentry).env.members = [(1, [1,2,4,5,6,7,3])] ∧
    ((RSys.init 9 6).run reentry).env.alive = [1,2,4,5,6,7,3] ∧
    ((RSys.init 9 6).run reentry).r.queue = [] ∧
    ((RSys.init 9 6).run reentry).r.calls = [.assign 1 [3]] ∧
    ((RSys.init 9 6).run reentry).r.playerCount = 7 := by decide
/-- the ghost list holds his name twice: it is not a set any more, and no theorem mentions it -/
example : ((RSys.init 9 6).run reentry).env.registered = [1,2,3,4,5,6,7,3] := by decide
/-- `eliminated_nowhere_re`, `handout_once_re`: hypotheses satisfiable on this history -/
example : ((RSys.init 9 6).run (reentry.take 2)).env.membersOf 1 = some [1,2,3,4,5,6,7] := by decide
example : ((RSys.init 9 6).run (reentry.take 3)).okRe (.add [3] [1]) := by decide

/-- THE EDGE OF THE DOMAIN: a second registration of player 3 WHILE HE IS ALIVE is not in the
    domain (`okRe` refuses it) … -/
example : ¬ ((RSys.init 9 6).run reentry).okRe (.add [3] [1]) := by decide
/-- … and rightly so: the model (like the Go code, which does not look at names) carries it out,
    and then the name 3 sits at two seats and is counted twice: conservation of names is FALSE
    after a registration of an alive name. -/
theorem alive_name_twice :
    (((RSys.init 9 6).run reentry).step (.add [3] [1])).env.members = [(1, [1,2,4,5,6,7,3,3])] ∧
    (((RSys.init 9 6).run reentry).step (.add [3] [1])).r.playerCount = 8 ∧
    ¬ (((RSys.init 9 6).run reentry).step (.add [3] [1])).env.seated.Nodup := by decide

/-! ## asynchronous releases, with re-entries -/

section Async
open ASys

/-- the asynchronous domain with re-entries contains the one without -/
theorem reentry_domain_wider_async {s : ASys} (h : AReachable s) : AReachableRe s := h.re

/-- every synchronous history with re-entries is an asynchronous one with nobody on the way -/
theorem rsys_history_is_async_re {s : RSys} (h : ReachableRe s) : AReachableRe (ASys.ofRSys s) :=
  AReachableRe.ofRSys h

/-- **counts_agree**, asynchronous, with re-entries -/
theorem counts_agree_async_re {s : ASys} (h : AReachableRe s) :
    s.r.playerCount = s.env.alive.length ∧
    s.r.tableCount = s.r.tables.length ∧
    s.r.tables.length = s.env.members.length ∧
    s.r.tables.map (fun t => (t.id, t.count)) = s.env.members.map (fun e => (e.1, (e.2.length : Int))) := by
  have hS := AInv.of_reachableRe h
  refine ⟨hS.pc, hS.wf.tc, ?_, hS.sim⟩
  have := congrArg List.length hS.sim
  simpa [tview, mview] using this

/-- the regulator's own ledger, asynchronous, with re-entries -/
theorem ledger_async_re {s : ASys} (h : AReachableRe s) :
    s.r.playerCount = s.r.queue.length + ((s.r.tables.map (·.count)).sum) + (s.flying.length : Int) :=
  (AInv.of_reachableRe h).cnt

/-- **conservation**, asynchronous, with re-entries: the alive players are exactly the queue, all
    table memberships and all batches on the way back together, and no name occurs twice. -/
theorem conservation_async_re {s : ASys} (h : AReachableRe s) :
    s.env.alive.Perm (s.r.queue ++ s.env.seated ++ s.flying) ∧
    (s.r.queue ++ s.env.seated ++ s.flying).Nodup ∧ s.env.alive.Nodup := by
  have hS := AInv.of_reachableRe h
  exact ⟨hS.cons, hS.cons.nodup_iff.1 hS.nodup, hS.nodup⟩

/-- **exactly one place**, asynchronous, with re-entries -/
theorem exactly_one_place_async_re {s : ASys} (h : AReachableRe s) (p : Nat) :
    (p ∈ s.env.alive ↔ (p ∈ s.r.queue ∨ (∃ e ∈ s.env.members, p ∈ e.2) ∨ (∃ e ∈ s.inflight, p ∈ e.2))) ∧
    ¬ (p ∈ s.r.queue ∧ ∃ e ∈ s.env.members, p ∈ e.2) ∧
    ¬ (p ∈ s.r.queue ∧ ∃ e ∈ s.inflight, p ∈ e.2) ∧
    ¬ ((∃ e ∈ s.env.members, p ∈ e.2) ∧ ∃ e ∈ s.inflight, p ∈ e.2) ∧
    s.r.queue.Nodup ∧ s.env.seated.Nodup ∧ s.flying.Nodup := by
  obtain ⟨hperm, hnd, _⟩ := conservation_async_re h
  have hseat : p ∈ s.env.seated ↔ ∃ e ∈ s.env.members, p ∈ e.2 := by
    simp only [Env.seated, List.mem_flatten, List.mem_map]
    constructor
    · rintro ⟨l, ⟨e, he, rfl⟩, hp⟩; exact ⟨e, he, hp⟩
    · rintro ⟨e, he, hp⟩; exact ⟨e.2, ⟨e, he, rfl⟩, hp⟩
  have hfly : p ∈ s.flying ↔ ∃ e ∈ s.inflight, p ∈ e.2 := by
    simp only [ASys.flying, List.mem_flatten, List.mem_map]
    constructor
    · rintro ⟨l, ⟨e, he, rfl⟩, hp⟩; exact ⟨e, he, hp⟩
    · rintro ⟨e, he, hp⟩; exact ⟨e.2, ⟨e, he, rfl⟩, hp⟩
  rw [List.nodup_append] at hnd
  obtain ⟨hqs, hf, hd1⟩ := hnd
  rw [List.nodup_append] at hqs
  obtain ⟨hq, hs, hd2⟩ := hqs
  refine ⟨?_, ?_, ?_, ?_, hq, hs, hf⟩
  · rw [hperm.mem_iff, List.mem_append, List.mem_append, hseat, hfly, or_assoc]
  · rintro ⟨h1, h2⟩
    exact hd2 p h1 p (hseat.2 h2) rfl
  · rintro ⟨h1, h2⟩
    exact hd1 p (List.mem_append_left _ h1) p (hfly.2 h2) rfl
  · rintro ⟨h1, h2⟩
    exact hd1 p (List.mem_append_right _ (hseat.2 h1)) p (hfly.2 h2) rfl

/-- **the instructions can be followed**, asynchronous, with re-entries -/
theorem release_feasible_async_re {s : ASys} (h : AReachableRe s) (t : Nat) (ms elim stay : List Nat)
    (hm : s.env.membersOf t = some ms) (hp : ms.Perm (elim ++ stay)) :
    (s.syncAnswer t elim).2.1 = none ∧ 0 ≤ (s.syncAnswer t elim).2.2.1 ∧
    (s.syncAnswer t elim).2.2.1 ≤ ((stay ++ (s.syncAnswer t elim).2.2.2).length : Int) := by
  obtain ⟨r1, relc, nw, t0, hans, _, _, h0, hle, _⟩ := (AInv.of_reachableRe h).sync_known t elim stay ms hm hp
  rw [hans, List.length_append]
  exact ⟨rfl, h0, by simpa using hle⟩

/-- **handout_once**, asynchronous, with re-entries -/
theorem handout_once_async_re {s : ASys} (h : AReachableRe s) (op : AOp) (hok : s.okRe op) :
    s.r.queue ++ s.incoming op = s.returned op ++ handed (s.step op).r.calls ++ (s.step op).r.queue ∧
    (s.returned op ++ handed (s.step op).r.calls ++ (s.step op).r.queue).Nodup := by
  have hS := AInv.of_reachableRe h
  obtain ⟨hS', hF⟩ := hS.step_full_re op hok
  refine ⟨hF.handout, ?_⟩
  rw [← hF.handout, List.nodup_iff_count]
  intro a
  have c1 := hS.cons.count_eq a
  have c2 := List.nodup_iff_count.1 hS.nodup a
  simp only [List.count_append] at c1 ⊢
  cases op with
  | status st ch => simp only [ASys.incoming, List.count_nil]; omega
  | sync t elim stay rel keep => simp only [ASys.incoming, List.count_nil]; omega
  | add ps ch =>
    simp only [ASys.incoming]
    split
    · simp only [List.count_nil]; omega
    · obtain ⟨hnd, hfree, _⟩ := hok
      have c3 := List.nodup_iff_count.1 hnd a
      by_cases ha : a ∈ ps
      · have := List.count_eq_zero.2 (hfree a ha)
        omega
      · have := List.count_eq_zero.2 ha
        omega
  | report t ps rest ch =>
    simp only [ASys.incoming]
    obtain ⟨hperm, _⟩ := hok
    have c3 := hperm.count_eq a
    have c4 := count_seatedOf_filter s.inflight t a
    rw [flyingOf_eq] at c3
    rw [flying_eq] at c1
    simp only [List.count_append] at c3
    omega

/-- **on the way back**, bookkeeping of one operation, with re-entries -/
theorem on_the_way_async_re {s : ASys} (h : AReachableRe s) (op : AOp) (hok : s.okRe op) :
    ((s.step op).flying ++ ASys.reported op).Perm (s.flying ++ s.departing op) :=
  ((AInv.of_reachableRe h).step_full_re op hok).2.flying

theorem unknown_iff_async_re {s : ASys} (h : AReachableRe s) (t : Nat) :
    s.env.membersOf t = none ↔ s.r.findTable t = none :=
  (AInv.of_reachableRe h).unknown_iff t

/-- totality, asynchronous, with re-entries: every batch of distinct names of players not
    currently alive (not at a table, not queued, not on the way back) can be registered -/
theorem registration_possible_async_re {s : ASys} (h : AReachableRe s) (ps : List Nat) (hnd : ps.Nodup)
    (hfree : ∀ p ∈ ps, p ∉ s.env.alive) : ∃ ch, s.okRe (.add ps ch) :=
  (AInv.of_reachableRe h).add_total_re ps hnd hfree

/-! ### non-vacuity -/

private def rg (n k : Nat) : List Nat := (List.range k).map (· + n)

/-- 27 registrants at 9/6; table 2 loses players 10 … 15; table 1 syncs and is told to release two
    players (1 and 2 leave: on the way back); player 10 REGISTERS AGAIN while they are on the way
    and is dispatched to table 2; then table 1's report arrives. -/
def reentryLate : List AOp :=
  [.add (rg 1 27) [], .status .normal [], .sync 2 [10,11,12,13,14,15] [16,17,18] [] [16,17,18],
   .sync 1 [] (rg 1 9) [1,2] (rg 3 7),
   .add [10] [2],
   .report 1 [1,2] [] [2]]

example : AReachableRe ((ASys.init 9 6).run reentryLate) :=
  (AReachableRe.init 9 6 (by decide)).run reentryLate (by decide)
example : ¬ (ASys.init 9 6).allOk reentryLate := by decide
example : (ASys.init 9 6).allOk (reentryLate.take 4) := by decide
example : ((ASys.init 9 6).run (reentryLate.take 5)).env.members =
    [(1, [3,4,5,6,7,8,9]), (2, [16,17,18,10]), (3, [19,20,21,22,23,24,25,26,27])] ∧
    ((ASys.init 9 6).run (reentryLate.take 5)).inflight = [(1, [1,2])] := by decide
example : ((ASys.init 9 6).run reentryLate).env.members =
    [(1, [3,4,5,6,7,8,9]), (2, [16,17,18,10,1,2]), (3, [19,20,21,22,23,24,25,26,27])] ∧
    ((ASys.init 9 6).run reentryLate).inflight = [] ∧
    ((ASys.init 9 6).run reentryLate).r.playerCount = 22 := by decide
/-- a player ON THE WAY BACK is alive: his name cannot be registered (edge of the domain) -/
example : ¬ ((ASys.init 9 6).run (reentryLate.take 4)).okRe (.add [1] [2]) := by decide

end Async

end Pokerface.C09
