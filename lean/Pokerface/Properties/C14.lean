import Pokerface.Proofs.CardsOps
import Pokerface.Proofs.GapsBCards
import Pokerface.Model.Shuffle
import Pokerface.Generated.Tables
/-
  C14 — Cards are dealt from the deck without loss, duplication or change.

  "No card is ever dealt twice: every player receives exactly the configured number of hole
   cards, one card is burned before the flop, the turn and the river, the board grows to
   exactly three, four and five cards, and at all times hole cards, board and burned cards
   together are exactly the consumed top of the deck.  Cards once dealt never change, and
   shuffling only reorders the deck - the same cards, each once."

  Quantification: every state `g` with `ReachableC g` (Proofs/CardsDefs.lean), i.e. every state
  reached by ANY sequence of operations of the alphabet (accepted or refused, early endings,
  all-in run-outs, …) from a successfully started hand of ANY configuration `c` with
  `WFConfig c` (forced bets ≥ 0) and `WFCards c`:
      c.opts.deck.Nodup  ∧  seats·holeCount + 8 ≤ deck.length.
  Any deck contents and order, any seat count, any hole-card count.  The length hypothesis is
  essential: with a shorter deck the Go `Deal` indexes past the slice and panics (observation
  O2), whereas the model's `List.take` would silently return fewer cards.

  Specification-level notions (Proofs/CardsDefs.lean):
    `streetCards burned board` = burn₁, flop₁₋₃, burn₂, turn, burn₃, river, as far as dealt;
    `g.holeCards`  = hole cards of seat 0, then seat 1, … (`g.players.flatMap (·.hole)`);
    `g.dealtCards` = `g.holeCards ++ streetCards g.burned g.board`;
    `Round.boardCount` = 0/0/3/4/5, `Round.burnCount` = 0/0/1/2/3 for none/preflop/flop/turn/river;
    `g.holeCountNow` = 0 in round none, `opts.holeCount` afterwards;
    `Stable g g'` = same deck list, cursor not smaller, dealt hole cards unchanged, old
                    board/burned are prefixes of the new ones.
  The invariant behind the theorems is `CInv` (Proofs/Cards.lean), proved for every operation
  in Proofs/CardsOps.lean (`cinv_step`, `cinv_reachable`).
-/
namespace Pokerface.C14
open Pokerface Game

/-! ## The dealt cards are exactly the consumed top of the deck -/

/-- **"at all times hole cards, board and burned cards together are exactly the consumed top
    of the deck"**: in every reachable state, the hole cards of seats 0, 1, … followed by the
    table cards in dealing order (burn, flop×3, burn, turn, burn, river — as far as dealt) are
    the first `deckPos` cards of the deck list, in deck order. -/
theorem dealt_is_prefix {g : Game} (h : ReachableC g) :
    g.players.flatMap (·.hole) ++ streetCards g.burned g.board = g.opts.deck.take g.deckPos :=
  (cinv_reachable h).core.pref

/-- The cursor never runs past the deck (so `take` above does not truncate), and it equals
    the number of cards dealt. -/
theorem cursor {g : Game} (h : ReachableC g) :
    g.deckPos ≤ g.opts.deck.length ∧
    g.deckPos = g.players.length * g.holeCountNow + g.board.length + g.burned.length := by
  have hc := (cinv_reachable h).core
  exact ⟨hc.pos_le, by rw [hc.board, hc.burned]; exact hc.pos⟩

/-- Sharper form of the prefix statement: the hole cards are the top `n·holeCount` cards of
    the deck and the table cards are the segment that follows. -/
theorem dealt_segments {g : Game} (h : ReachableC g) :
    g.holeCards = g.opts.deck.take (g.players.length * g.holeCountNow) ∧
    streetCards g.burned g.board =
      (g.opts.deck.drop (g.players.length * g.holeCountNow)).take (g.board.length + g.burned.length) :=
  (cinv_reachable h).core.segments

/-! ## Counts -/

/-- **"every player receives exactly the configured number of hole cards, one card is burned
    before the flop, the turn and the river, the board grows to exactly three, four and five
    cards"**: in every reachable state every player holds `opts.holeCount` hole cards from the
    preflop round on (none before), the board has 0/0/3/4/5 cards and 0/0/1/2/3 cards are
    burned in rounds none/preflop/flop/turn/river. -/
theorem counts {g : Game} (h : ReachableC g) :
    (∀ p ∈ g.players, p.hole.length = if g.round = .none then 0 else g.opts.holeCount) ∧
    g.board.length = (match g.round with | .none => 0 | .preflop => 0 | .flop => 3 | .turn => 4 | .river => 5) ∧
    g.burned.length = (match g.round with | .none => 0 | .preflop => 0 | .flop => 1 | .turn => 2 | .river => 3) := by
  have hc := (cinv_reachable h).core
  refine ⟨hc.holes, ?_, ?_⟩
  · rw [hc.board]; cases g.round <;> rfl
  · rw [hc.burned]; cases g.round <;> rfl

/-! ## No duplicates -/

/-- **"No card is ever dealt twice"**: in every reachable state all hole cards, board cards
    and burned cards are pairwise distinct (the deck of the configuration has no duplicates:
    `WFCards.nodup`). -/
theorem no_duplicates {g : Game} (h : ReachableC g) :
    (g.players.flatMap (·.hole) ++ g.board ++ g.burned).Nodup := by
  have hc := (cinv_reachable h).core
  apply nodup_rearrange
  · rw [hc.board, hc.burned]; exact round_counts g.round
  · have : (g.holeCards ++ streetCards g.burned g.board).Nodup := by
      have := hc.pref
      unfold Game.dealtCards at this
      rw [this]
      exact hc.nodup.sublist (List.take_sublist _ _)
    exact this

/-- The same, spelled out place by place: no card is at two places.  Hole cards of two different
    seats are disjoint, no hole card is on the board or burned, no board card is burned, and
    no single hand / the board / the burned list contains a card twice. -/
theorem no_card_in_two_places {g : Game} (h : ReachableC g) :
    (∀ (i j : Nat) (p q : Player), i < j → g.players[i]? = some p → g.players[j]? = some q →
      ∀ c ∈ p.hole, c ∉ q.hole) ∧
    (∀ p ∈ g.players, p.hole.Nodup ∧ ∀ c ∈ p.hole, c ∉ g.board ∧ c ∉ g.burned) ∧
    g.board.Nodup ∧ g.burned.Nodup ∧ (∀ c ∈ g.board, c ∉ g.burned) := by
  have hn := no_duplicates h
  rw [List.nodup_append] at hn
  obtain ⟨hn1, hburn, hx⟩ := hn
  rw [List.nodup_append] at hn1
  obtain ⟨hholes, hboard, hy⟩ := hn1
  have hpw := (List.pairwise_flatMap (R := (· ≠ ·))).mp hholes
  refine ⟨?_, ?_, hboard, hburn, ?_⟩
  · intro i j p q hij hp hq c hc hc'
    obtain ⟨hi, rfl⟩ := List.getElem?_eq_some_iff.mp hp
    obtain ⟨hj, rfl⟩ := List.getElem?_eq_some_iff.mp hq
    exact (List.pairwise_iff_getElem.mp hpw.2 i j hi hj hij) c hc c hc' rfl
  · intro p hp
    refine ⟨hpw.1 p hp, ?_⟩
    intro c hc
    have hm : c ∈ g.players.flatMap (·.hole) := List.mem_flatMap.mpr ⟨p, hp, hc⟩
    exact ⟨fun hb => hy c hm c hb rfl, fun hb => hx c (List.mem_append_left _ hm) c hb rfl⟩
  · intro c hc hb
    exact hx c (List.mem_append_right _ hc) c hb rfl

/-- … and none of them is still in the undealt rest of the deck. -/
theorem dealt_not_undealt {g : Game} (h : ReachableC g) :
    ∀ c ∈ g.dealtCards, c ∉ g.opts.deck.drop g.deckPos := by
  have hc := (cinv_reachable h).core
  have hn := hc.nodup
  rw [← List.take_append_drop g.deckPos g.opts.deck, List.nodup_append] at hn
  intro c hcm hcd
  rw [hc.pref] at hcm
  exact hn.2.2 c hcm c hcd rfl

/-! ## Cards once dealt never change -/

/-- **"Cards once dealt never change"**, one operation: for every reachable state `g` and every
    operation `op` (accepted or refused): the deck list is unchanged, the cursor does not move
    back, every non-empty hand of hole cards is unchanged, and the old board and burned lists
    are prefixes of the new ones. -/
theorem cards_stable {g : Game} (h : ReachableC g) (op : Op) : Stable g (g.step op).1 :=
  stable_step g (cinv_reachable h) op

/-- The same over any further history. -/
theorem cards_stable_run {g : Game} (h : ReachableC g) (ops : List Op) : Stable g (g.run ops) :=
  stable_run g (cinv_reachable h) ops

/-- From the preflop round on, nobody's hole cards change any more (also when
    `holeCount = 0`, where `Stable.holes` says nothing). -/
theorem holes_fixed {g : Game} (h : ReachableC g) (hr : g.round ≠ .none) (ops : List Op) :
    (g.run ops).players.map (·.hole) = g.players.map (·.hole) := by
  have hi := cinv_reachable h
  have hs := stable_run g hi ops
  have hi' := cinv_run g hi ops
  apply List.ext_getElem?
  intro k
  simp only [List.getElem?_map]
  by_cases hk : k < g.players.length
  · have hk' : k < (g.run ops).players.length := by rw [hs.seats]; exact hk
    rw [List.getElem?_eq_getElem hk, List.getElem?_eq_getElem hk']
    simp only [Option.map_some, Option.some.injEq]
    by_cases hne : g.players[k].hole = []
    · -- holeCount = 0: every hand is empty, before and after
      have h0 := hi.core.holes _ (List.getElem_mem hk)
      rw [hne, holeCountNow_of_ne hr] at h0
      have h1 := hi'.core.holes _ (List.getElem_mem hk')
      have : (g.run ops).holeCountNow ≤ (g.run ops).opts.holeCount := by
        unfold Game.holeCountNow; split <;> omega
      have hopts : (g.run ops).opts.holeCount = g.opts.holeCount := by rw [opts_run g hi ops]
      rw [hne]
      apply List.eq_nil_of_length_eq_zero
      simp only [List.length_nil] at h0
      omega
    · exact hs.holes k _ _ (List.getElem?_eq_getElem hk) (List.getElem?_eq_getElem hk') hne
  · have hk' : ¬ k < (g.run ops).players.length := by rw [hs.seats]; exact hk
    rw [List.getElem?_eq_none (by omega), List.getElem?_eq_none (by omega)]

/-- The deck list of every state of a hand is the deck of its configuration (what `start`
    was given, i.e. the deck as `Initialize` shuffled it). -/
theorem deck_unchanged (c : Config) (wf : WFConfig c) (wc : WFCards c) (hs : (start c).2 = none) (ops : List Op) :
    ((start c).1.run ops).opts.deck = c.opts.deck := by
  have h0 : ReachableC (start c).1 := ⟨c, [], wf, wc, hs, rfl⟩
  rw [(cards_stable_run h0 ops).deck, (start_ok c hs).2.2]
  rfl

/-! ## Shuffling -/

theorem swapAt_perm {α : Type} (l : List α) (i j : Nat) : (swapAt l i j).Perm l := by
  unfold swapAt
  split
  · rename_i h; exact List.set_set_perm h.1 h.2
  · exact List.Perm.refl l

/-- **"shuffling only reorders the deck - the same cards, each once"**: whatever sequence of
    index pairs `rand.Shuffle` passes to the swap closure of `ShuffleCards`, the result is a
    permutation of the input.  (That `rand.Shuffle` does nothing but call the closure is the
    Go library's contract — trusted, see Model/Shuffle.lean and DESIGN §8; K2 checks on real
    shuffles that the result is a permutation.) -/
theorem shuffle_perm {α : Type} (d : List α) (swaps : List (Nat × Nat)) : (applySwaps d swaps).Perm d := by
  induction swaps generalizing d with
  | nil => exact List.Perm.refl d
  | cons s swaps ih =>
    obtain ⟨i, j⟩ := s
    exact (ih (swapAt d i j)).trans (swapAt_perm d i j)

/-- Consequences used by the other theorems: a shuffled deck has the same length and is
    duplicate-free iff the unshuffled deck is — so `WFCards` can be checked on the deck
    handed to `NewGame`. -/
theorem shuffle_keeps_wf (d : List Card) (swaps : List (Nat × Nat)) :
    (applySwaps d swaps).length = d.length ∧ ((applySwaps d swaps).Nodup ↔ d.Nodup) :=
  ⟨(shuffle_perm d swaps).length_eq, (shuffle_perm d swaps).nodup_iff⟩

/-- every card occurs in the shuffled deck exactly as often as before -/
theorem shuffle_mem (d : List Card) (swaps : List (Nat × Nat)) (c : Card) :
    c ∈ applySwaps d swaps ↔ c ∈ d := (shuffle_perm d swaps).mem_iff

end Pokerface.C14

/-! ## Non-vacuity: a concrete three-seat hand -/
namespace Pokerface.C14.Examples
open Pokerface Game

/-- 26 cards: spades 2…A, then hearts 2…A -/
def exDeck : List Card :=
  ((List.range 13).map fun r => (⟨83, r + 2⟩ : Card)) ++ ((List.range 13).map fun r => (⟨72, r + 2⟩ : Card))

def exMeta : Meta :=
  { ante := 0, blindDealer := 0, blindSB := 5, blindBB := 10, potLimit := false, holeCount := 2, required := 0,
    lvl := Generated.combinationLevel, table := Generated.powerStandard, deck := exDeck }

/-- dealer, small blind, big blind with 100 chips each -/
def exCfg : Config :=
  { opts := exMeta, seats := [⟨100, true, false, false⟩, ⟨100, false, true, false⟩, ⟨100, false, false, true⟩] }

theorem exWF : WFConfig exCfg := ⟨⟨by decide, by decide, by decide, by decide⟩⟩
theorem exWFC : WFCards exCfg := ⟨by decide, by decide⟩
theorem exStart : (start exCfg).2 = none := by decide

/-- the hypotheses of all theorems are satisfiable: every run from this hand is `ReachableC` -/
theorem exReach (ops : List Op) : ReachableC ((start exCfg).1.run ops) := ⟨exCfg, ops, exWF, exWFC, exStart, rfl⟩

def check3 : List Op := [.act none .check 0, .act none .check 0, .act none .check 0]
def opsFlop : List Op := [.ready, .payBlinds, .ready, .act none .call 0, .act none .call 0, .act none .check 0, .next]
def opsShowdown : List Op := opsFlop ++ [.ready] ++ check3 ++ [.next, .ready] ++ check3 ++ [.next, .ready] ++ check3 ++ [.next]
/-- everybody all-in before the flop, then the board is run out with `Next` only -/
def opsRunOut : List Op :=
  [.ready, .payBlinds, .ready, .act none .allin 0, .act none .allin 0, .act none .allin 0, .next, .next, .next, .next]
/-- two folds before the flop: the hand ends with no board at all -/
def opsEarly : List Op := [.ready, .payBlinds, .ready, .act none .fold 0, .act none .fold 0, .next]

def gFlop : Game := (start exCfg).1.run opsFlop
def gShow : Game := (start exCfg).1.run opsShowdown
def gRunOut : Game := (start exCfg).1.run opsRunOut
def gEarly : Game := (start exCfg).1.run opsEarly

set_option maxRecDepth 100000

example : gFlop.round = .flop ∧ gFlop.event = .readyRequested ∧ gFlop.deckPos = 10 ∧
    gFlop.players.map (·.hole) = [[⟨83, 2⟩, ⟨83, 3⟩], [⟨83, 4⟩, ⟨83, 5⟩], [⟨83, 6⟩, ⟨83, 7⟩]] ∧
    gFlop.burned = [⟨83, 8⟩] ∧ gFlop.board = [⟨83, 9⟩, ⟨83, 10⟩, ⟨83, 11⟩] := by decide

example : gShow.round = .river ∧ gShow.event = .gameClosed ∧ gShow.deckPos = 14 ∧
    gShow.players.map (·.hole) = [[⟨83, 2⟩, ⟨83, 3⟩], [⟨83, 4⟩, ⟨83, 5⟩], [⟨83, 6⟩, ⟨83, 7⟩]] ∧
    gShow.burned = [⟨83, 8⟩, ⟨83, 12⟩, ⟨83, 14⟩] ∧
    gShow.board = [⟨83, 9⟩, ⟨83, 10⟩, ⟨83, 11⟩, ⟨83, 13⟩, ⟨72, 2⟩] := by decide

/-- the instance of `dealt_is_prefix` at the showdown, computed independently -/
example : gShow.dealtCards = exDeck.take 14 := by decide

example : gRunOut.round = .river ∧ gRunOut.event = .gameClosed ∧ gRunOut.deckPos = 14 ∧
    gRunOut.board.length = 5 ∧ gRunOut.burned.length = 3 ∧ gRunOut.dealtCards = exDeck.take 14 := by decide

example : gEarly.round = .preflop ∧ gEarly.event = .gameClosed ∧ gEarly.deckPos = 6 ∧
    gEarly.board = [] ∧ gEarly.burned = [] ∧ gEarly.dealtCards = exDeck.take 6 := by decide

/-- `cards_stable` relates states that really differ: flop state vs. showdown state -/
example : gFlop.board ≠ gShow.board ∧ gFlop.board <+: gShow.board := by
  refine ⟨by decide, ?_⟩
  have h := cards_stable_run (exReach opsFlop) ([.ready] ++ check3 ++ [.next, .ready] ++ check3 ++ [.next, .ready] ++ check3 ++ [.next])
  have e : ((start exCfg).1.run opsFlop).run ([.ready] ++ check3 ++ [.next, .ready] ++ check3 ++ [.next, .ready] ++ check3 ++ [.next]) = gShow := by
    simp only [gShow, opsShowdown, Game.run, List.foldl_append]
  rw [e] at h
  exact h.board

/-- The length hypothesis of `WFCards` is essential (observation O2): with a five-card deck the
    model deals seat 2 a single card (`List.take` truncates; the Go `Deal` panics with an index
    out of range instead), so `counts` fails without it. -/
example : (((start { exCfg with opts := { exMeta with deck := exDeck.take 5 } }).1.run [.ready]).players.map
    (·.hole.length)) = [2, 2, 1] := by decide

/-- a real shuffle: three swaps of Fisher–Yates on four cards -/
example : applySwaps [1, 2, 3, 4] (fisherYates 4 [2, 0, 1]) = [4, 2, 1, 3] := by decide
example : fisherYates 4 [2, 0, 1] = [(3, 2), (2, 0), (1, 1)] := by decide

end Pokerface.C14.Examples

/-! ## "All deck contents": the prefix and count statements without the no-duplicates hypothesis

`WFCards` bundles `deck.Nodup` with the length condition, but only the no-duplicate theorems
need `Nodup`.  The theorems below quantify over `ReachableL g` (Proofs/GapsBCards.lean): every state
reached by ANY sequence of operations from a successfully started hand of ANY configuration whose
deck merely satisfies  `seats·holeCount + 8 ≤ deck.length`  — any deck contents, duplicates
included, any forced bets.  (`ReachableC g → ReachableL g`: `ReachableC.toL`.) -/
namespace Pokerface.C14
open Pokerface Game

/-- **"at all times hole cards, board and burned cards together are exactly the consumed top of
    the deck"**, for ALL deck contents: the statement of `dealt_is_prefix` under the length
    hypothesis alone (no `Nodup`). -/
theorem dealt_is_prefix_any_deck {g : Game} (h : ReachableL g) :
    g.players.flatMap (·.hole) ++ streetCards g.burned g.board = g.opts.deck.take g.deckPos :=
  (cinvL_reachable h).core.pref

/-- **"every player receives exactly the configured number of hole cards, one card is burned
    before the flop, the turn and the river, the board grows to exactly three, four and five
    cards"**, for ALL deck contents: the statement of `counts` under the length hypothesis alone
    (no `Nodup`). -/
theorem counts_any_deck {g : Game} (h : ReachableL g) :
    (∀ p ∈ g.players, p.hole.length = if g.round = .none then 0 else g.opts.holeCount) ∧
    g.board.length = (match g.round with | .none => 0 | .preflop => 0 | .flop => 3 | .turn => 4 | .river => 5) ∧
    g.burned.length = (match g.round with | .none => 0 | .preflop => 0 | .flop => 1 | .turn => 2 | .river => 3) := by
  have hc := (cinvL_reachable h).core
  refine ⟨hc.holes, ?_, ?_⟩
  · rw [hc.board]; cases g.round <;> rfl
  · rw [hc.burned]; cases g.round <;> rfl

/-- The cursor equals the number of cards dealt, for all deck contents (companion of `cursor`). -/
theorem cursor_any_deck {g : Game} (h : ReachableL g) :
    g.deckPos = g.players.length * g.holeCountNow + g.board.length + g.burned.length := by
  have hc := (cinvL_reachable h).core
  rw [hc.board, hc.burned]; exact hc.pos

namespace Examples

/-- a deck full of duplicates: 7 copies of 2♠, 7 copies of 3♠, 7 copies of 4♠ -/
def dupDeck : List Card := (List.range 21).map fun k => (⟨83, k / 7 + 2⟩ : Card)

def dupCfg : Config := { exCfg with opts := { exMeta with deck := dupDeck } }

example : ¬ dupDeck.Nodup := by decide

/-- the hypothesis of the `_any_deck` theorems is satisfiable by a deck that is NOT duplicate-free -/
theorem dupReach (ops : List Op) : ReachableL ((start dupCfg).1.run ops) :=
  ⟨dupCfg, ops, by decide, by decide, rfl⟩

set_option maxRecDepth 100000

/-- the instance of `dealt_is_prefix_any_deck` / `counts_any_deck` at the showdown, computed independently -/
example : ((start dupCfg).1.run opsShowdown).round = .river ∧
    ((start dupCfg).1.run opsShowdown).dealtCards = dupDeck.take 14 ∧
    ((start dupCfg).1.run opsShowdown).players.map (·.hole.length) = [2, 2, 2] ∧
    ((start dupCfg).1.run opsShowdown).board.length = 5 ∧ ((start dupCfg).1.run opsShowdown).burned.length = 3 := by
  decide

example : ((start dupCfg).1.run opsShowdown).dealtCards = dupDeck.take ((start dupCfg).1.run opsShowdown).deckPos :=
  dealt_is_prefix_any_deck (dupReach opsShowdown)

end Examples

end Pokerface.C14

section Axioms
open Pokerface.C14
#print axioms dealt_is_prefix_any_deck
#print axioms counts_any_deck
#print axioms cursor_any_deck
end Axioms
