import Pokerface.Proofs.ShowdownPlayReach
/-
  C02 — "Showdown pays the right players the right amounts": the two gaps of the clause audit.

  (1) REAL PLAY.  `C02.level_winners` ("every layer goes to the best hand among the non-folded
      players who paid into it") carries the hypothesis `hex` — the layer has a non-folded
      contributor —, and `C02.folded_loses_stake` the hypothesis `hle` — some non-folded player put
      in at least as much as the folded one.  Both are discharged here for every hand that is
      actually PLAYED, by an engine invariant (`nonfolded_covers_all`, proved in
      Proofs/ShowdownPlay*.lean over all `Reachable` states): some NON-FOLDED player's
      `pot + wager` is ≥ every player's `pot + wager`.  (Fold is offered only below the wager to
      match, whose holder cannot fold; the seats with chips are level at every round close.)
      The Links theorems are restated without those hypotheses (`showdown_*_play`).

  (2) DIRECT VECTORS.  A layer paid ONLY by folded players (possible only for vectors that no
      played hand produces) is refunded: every player's net amount over that level is 0
      (`folded_only_level_refunded`).  With `C02.level_winners` this characterises EVERY layer of
      EVERY valid vector (`every_level`).
-/
namespace Pokerface.C02P
open Pokerface Pokerface.Game Pokerface.Links Generated

/-! ## (2) direct vectors: every layer -/

/-- Every level kept in the result was opened by somebody's contribution: some seat put in at
    least that much. -/
theorem level_has_contributor (ss : List C02.Seat) (h : C02.Valid ss) (pr : PotResult)
    (hpr : pr ∈ (C02.settle ss).pots) (li : LevelInfo) (hli : li ∈ pr.levels) :
    ∃ s ∈ ss, li.level ≤ s.contrib := by
  have hlv := gameResults_pots_levels (potsOf (C02.entriesOf ss)) (C02.rowsOf ss)
  have : pr.levels ∈ (potsOf (C02.entriesOf ss)).map (fun p => p.levels.map (toInfo (C02.rowsOf ss))) := by
    rw [← hlv]; exact List.mem_map.2 ⟨pr, hpr, rfl⟩
  obtain ⟨l, hl, rfl⟩ := mem_all_levels this hli
  obtain ⟨M, _, ⟨r, hr, hc, _⟩, _⟩ := mem_levelWinners (C02.gameIn h) hl
  obtain ⟨s, hs, _, hle⟩ := (C02.level_contributors ss h pr hpr _ hli r.1).1 hc
  exact ⟨s, hs, hle⟩

/-- **The folded-only layer is refunded** (complement of `C02.level_winners`, whose hypothesis
    `hex` fails here): if NO non-folded seat put in as much as the level `li`, then the update
    list that `settleLevel` applies to that level (`C02.level_payout`, for any incoming odd-chip
    offset `o`) gives every player the net amount 0 — the folded contributors are the "winners"
    of the level and each gets exactly its own wager back. -/
theorem folded_only_level_refunded (ss : List C02.Seat) (h : C02.Valid ss) (pr : PotResult)
    (hpr : pr ∈ (C02.settle ss).pots) (li : LevelInfo) (hli : li ∈ pr.levels)
    (hno : ¬ ∃ t ∈ ss, t.folded = false ∧ li.level ≤ t.contrib) (o : Int) (i : Nat) :
    net (levelUpdates li o) i = 0 := by
  have hlv := gameResults_pots_levels (potsOf (C02.entriesOf ss)) (C02.rowsOf ss)
  have : pr.levels ∈ (potsOf (C02.entriesOf ss)).map (fun p => p.levels.map (toInfo (C02.rowsOf ss))) := by
    rw [← hlv]; exact List.mem_map.2 ⟨pr, hpr, rfl⟩
  obtain ⟨l, hl, rfl⟩ := mem_all_levels this hli
  apply net_all_equal (C02.gameIn h) hl o 0
  intro r hr hc
  obtain ⟨s, hs, rfl⟩ := List.mem_map.1 hr
  obtain ⟨s', hs', he', hle'⟩ := (C02.level_contributors ss h pr hpr _ hli s.idx).1 hc
  have : s' = s := eq_of_nodup_map (·.idx) h.1 hs' hs he'
  subst this
  have hf : s'.folded = true := by
    cases hfo : s'.folded with
    | true => rfl
    | false => exact absurd ⟨s', hs, hfo, hle'⟩ hno
  simp [eff, hf]

/-- **Every layer of every valid vector**: for each level `li` kept in the result, EITHER some
    non-folded seat paid into it, and then its winners are exactly the best-ranked non-folded
    seats that paid into it (`C02.level_winners`; what each seat nets: `C02.level_payout`), OR
    only folded seats paid into it, and then everybody's net amount over the level is 0. -/
theorem every_level (ss : List C02.Seat) (h : C02.Valid ss) (pr : PotResult)
    (hpr : pr ∈ (C02.settle ss).pots) (li : LevelInfo) (hli : li ∈ pr.levels) (o : Int) (i : Nat) :
    ((∃ t ∈ ss, t.folded = false ∧ li.level ≤ t.contrib) ∧
      (i ∈ levelWinners li ↔
        ∃ s ∈ ss, s.idx = i ∧ s.folded = false ∧ li.level ≤ s.contrib ∧
          ∀ t ∈ ss, t.folded = false → li.level ≤ t.contrib → t.score ≤ s.score)) ∨
    ((∀ t ∈ ss, li.level ≤ t.contrib → t.folded = true) ∧ net (levelUpdates li o) i = 0) := by
  by_cases hex : ∃ t ∈ ss, t.folded = false ∧ li.level ≤ t.contrib
  · exact Or.inl ⟨hex, C02.level_winners ss h pr hpr li hli hex i⟩
  · refine Or.inr ⟨?_, folded_only_level_refunded ss h pr hpr li hli hex o i⟩
    intro t ht hle
    cases hf : t.folded with
    | true => rfl
    | false => exact absurd ⟨t, ht, hf, hle⟩ hex

/-- The auditor's vector: 50 not folded, 100 folded, 200 folded. -/
def foldedTop : List C02.Seat := [⟨0, 1000, 50, false, 5⟩, ⟨1, 1000, 100, true, 7⟩, ⟨2, 1000, 200, true, 9⟩]

example : C02.Valid foldedTop := by decide

/-- changes +100 / −50 / −50: the layers 50..100 and 100..200, paid by folded seats only, go back -/
example : foldedTop.map (fun s => C02.changed foldedTop s.idx) = [100, -50, -50] := by decide

/-- The hypotheses of `folded_only_level_refunded` are met by the levels 100 and 200 of that vector
    (no non-folded seat put in that much), those of `C02.level_winners` by the level 50. -/
example : (C02.settle foldedTop).pots.map (fun pr => pr.levels.map fun li =>
      (li.level, decide (∃ t ∈ foldedTop, t.folded = false ∧ li.level ≤ t.contrib), levelWinners li,
        [net (levelUpdates li 0) 0, net (levelUpdates li 0) 1, net (levelUpdates li 0) 2])) =
    [[(50, true, [0], [100, -50, -50])], [(100, false, [1, 2], [0, 0, 0]), (200, false, [2], [0, 0, 0])]] := by
  decide

/-- If some non-folded seat put in at least as much as every seat, then every level kept in the
    result has a non-folded contributor: the hypothesis `hex` of `C02.level_winners` holds for ALL
    levels. -/
theorem hex_of_cover (ss : List C02.Seat) (h : C02.Valid ss)
    (hcov : ∃ t ∈ ss, t.folded = false ∧ ∀ s ∈ ss, s.contrib ≤ t.contrib)
    (pr : PotResult) (hpr : pr ∈ (C02.settle ss).pots) (li : LevelInfo) (hli : li ∈ pr.levels) :
    ∃ t ∈ ss, t.folded = false ∧ li.level ≤ t.contrib := by
  obtain ⟨t, ht, htf, hmax⟩ := hcov
  obtain ⟨s, hs, hle⟩ := level_has_contributor ss h pr hpr li hli
  exact ⟨t, ht, htf, Int.le_trans hle (hmax s hs)⟩

example : ∃ t ∈ C02.sample, t.folded = false ∧ ∀ s ∈ C02.sample, s.contrib ≤ t.contrib :=
  ⟨⟨2, 0, 100, false, 5⟩, by decide, rfl, by decide⟩

/-! ## (1) real play: the engine invariant -/

/-- **Engine invariant** (every reachable state — any configuration the engine accepts with
    non-negative forced bets, any history of operations, accepted or refused): some NON-FOLDED
    player has put in (`pot + wager`) at least as much as every player of the hand. -/
theorem nonfolded_covers_all {g : Game} (h : Reachable g) :
    ∃ q ∈ g.players, q.fold = false ∧ ∀ p ∈ g.players, p.pot + p.wager ≤ q.pot + q.wager :=
  covered_reachable h

/-- … in particular as every FOLDED player (the hypothesis `hle` of `C02.folded_loses_stake` /
    `Links.showdown_folded_loses_stake`). -/
theorem folded_is_covered {g : Game} (h : Reachable g) (p : Player) (hp : p ∈ g.players) (_hf : p.fold = true) :
    ∃ q ∈ g.players, q.fold = false ∧ p.pot + p.wager ≤ q.pot + q.wager := by
  obtain ⟨q, hq, hqf, hmax⟩ := covered_reachable h
  exact ⟨q, hq, hqf, hmax p hp⟩

/-- The same for the seat vector `g.seats` that `C01.closed_result_is_settle` feeds to the settlement. -/
theorem seats_covered {g : Game} (h : Reachable g) :
    ∃ t ∈ g.seats, t.folded = false ∧ ∀ s ∈ g.seats, s.contrib ≤ t.contrib := by
  obtain ⟨q, hq, hqf, hmax⟩ := covered_reachable h
  refine ⟨seatOf q, mem_seats hq, hqf, ?_⟩
  intro s hs
  obtain ⟨p, hp, rfl⟩ := List.mem_map.mp hs
  exact hmax p hp

/-- `hex` for real play: every level of the settlement of a reachable state's seats has a
    non-folded contributor. -/
theorem hex_play {g : Game} (hR : Reachable g) (hv : C02.Valid g.seats) (pr : PotResult)
    (hpr : pr ∈ (C02.settle g.seats).pots) (li : LevelInfo) (hli : li ∈ pr.levels) :
    ∃ t ∈ g.seats, t.folded = false ∧ li.level ≤ t.contrib :=
  hex_of_cover _ hv (seats_covered hR) pr hpr li hli

/-- `C02.level_winners` for real play, WITHOUT `hex`: "every layer of the pot goes to the
    best-ranked hand or hands among the non-folded players who paid into that layer", for every
    level of the settlement of the seats of any reachable state. -/
theorem level_winners_play {g : Game} (hR : Reachable g) (hv : C02.Valid g.seats) (pr : PotResult)
    (hpr : pr ∈ (C02.settle g.seats).pots) (li : LevelInfo) (hli : li ∈ pr.levels) (i : Nat) :
    i ∈ levelWinners li ↔
      ∃ s ∈ g.seats, s.idx = i ∧ s.folded = false ∧ li.level ≤ s.contrib ∧
        ∀ t ∈ g.seats, t.folded = false → li.level ≤ t.contrib → t.score ≤ s.score :=
  C02.level_winners _ hv pr hpr li hli (hex_play hR hv pr hpr li hli) i

/-- `C02.folded_loses_stake` for real play, WITHOUT `hle`: a folded player loses exactly what it
    put in. -/
theorem folded_loses_stake_play {g : Game} (hR : Reachable g) (hv : C02.Valid g.seats)
    (p : Player) (hp : p ∈ g.players) (hf : p.fold = true) :
    C02.changed g.seats p.idx = -(p.pot + p.wager) := by
  obtain ⟨q, hq, hqf, hmax⟩ := covered_reachable hR
  exact C02.folded_loses_stake _ hv (seatOf p) (mem_seats hp) hf (seatOf q) (mem_seats hq) hqf (hmax p hp)

/-! ## (1) the Links theorems without `hex` / `hle` -/

/-- Every level kept in the RESULT of a closed hand has a non-folded contributor (`hex` of
    `Links.showdown_winners_of` / `showdown_winners_by_poker(_shortDeck)`, discharged). -/
theorem showdown_hex {T : List Cat} (hT : ShippedTable T) {cfg : Config} (hc : PokerConfig T cfg)
    (h1 : 1 ≤ cfg.opts.holeCount) (ops : List Op) (he : ((start cfg).1.run ops).event = .gameClosed)
    (r : Result) (hr : ((start cfg).1.run ops).result = some r) (pr : PotResult) (hpr : pr ∈ r.pots)
    (li : LevelInfo) (hli : li ∈ pr.levels) :
    ∃ t ∈ ((start cfg).1.run ops).players, t.fold = false ∧ li.level ≤ t.pot + t.wager := by
  have hres := C01.closed_result_is_settle (hc.reach ops) he
  rw [hr, Option.some.injEq] at hres
  subst hres
  obtain ⟨t, ht, htf, hle⟩ := hex_play (hc.reach ops) (showdown_valid hT hc h1 ops he) pr hpr li hli
  obtain ⟨p, hp, rfl⟩ := List.mem_map.mp ht
  exact ⟨p, hp, htf, hle⟩

theorem holeCount_of_rule {m : Meta} (h5 : FiveCardRule m) : 1 ≤ m.holeCount := by
  rcases h5 with ⟨_, h⟩ | ⟨h, h'⟩ <;> omega

/-- `Links.showdown_winners_of` without `hex`. -/
theorem showdown_winners_of_play {T : List Cat} (hT : ShippedTable T) {cfg : Config} (hc : PokerConfig T cfg)
    (h5 : FiveCardRule cfg.opts) (ops : List Op)
    (he : ((start cfg).1.run ops).event = .gameClosed) (h2 : 2 ≤ ((start cfg).1.run ops).aliveCount)
    (hord : ∀ p ∈ ((start cfg).1.run ops).players, ∀ q ∈ ((start cfg).1.run ops).players, ∀ c d,
      p.comb = some c → q.comb = some d →
      ((seatOf q).score ≤ (seatOf p).score ↔ ¬ C03.pokerKey T c.cards < C03.pokerKey T d.cards))
    (r : Result) (hr : ((start cfg).1.run ops).result = some r) (pr : PotResult) (hpr : pr ∈ r.pots)
    (li : LevelInfo) (hli : li ∈ pr.levels) (i : Nat) :
    i ∈ levelWinners li ↔
      ∃ p ∈ ((start cfg).1.run ops).players, ∃ c, p.comb = some c ∧ p.idx = i ∧ p.fold = false ∧
        li.level ≤ p.pot + p.wager ∧
        ∀ q ∈ ((start cfg).1.run ops).players, ∀ d, q.comb = some d → q.fold = false →
          li.level ≤ q.pot + q.wager → ¬ C03.pokerKey T c.cards < C03.pokerKey T d.cards :=
  showdown_winners_of hT hc h5 ops he h2 hord r hr pr hpr li hli
    (showdown_hex hT hc (holeCount_of_rule h5) ops he r hr pr hpr li hli) i

/-- **`showdown_winners_by_poker_play`** (standard table): "every layer of the pot goes to the
    best-ranked hand or hands among the non-folded players who paid into that layer", with
    "best-ranked" read by the rules of poker, for EVERY level of the result of EVERY played hand that
    ends in a showdown with at least two live players — no hypothesis on the level. -/
theorem showdown_winners_by_poker_play {cfg : Config} (hc : PokerConfig powerStandard cfg)
    (h5 : FiveCardRule cfg.opts) (ops : List Op)
    (he : ((start cfg).1.run ops).event = .gameClosed) (h2 : 2 ≤ ((start cfg).1.run ops).aliveCount)
    (r : Result) (hr : ((start cfg).1.run ops).result = some r) (pr : PotResult) (hpr : pr ∈ r.pots)
    (li : LevelInfo) (hli : li ∈ pr.levels) (i : Nat) :
    i ∈ levelWinners li ↔
      ∃ p ∈ ((start cfg).1.run ops).players, ∃ c, p.comb = some c ∧ p.idx = i ∧ p.fold = false ∧
        li.level ≤ p.pot + p.wager ∧
        ∀ q ∈ ((start cfg).1.run ops).players, ∀ d, q.comb = some d → q.fold = false →
          li.level ≤ q.pot + q.wager →
          ¬ C03.pokerKey powerStandard c.cards < C03.pokerKey powerStandard d.cards :=
  showdown_winners_by_poker hc h5 ops he h2 r hr pr hpr li hli
    (showdown_hex (Or.inl rfl) hc (holeCount_of_rule h5) ops he r hr pr hpr li hli) i

/-- **`showdown_winners_by_poker_shortDeck_play`**: the same for the short-deck table (C03's
    exclusion of A-9-8-7-6 stays, as in `Links.showdown_winners_by_poker_shortDeck`). -/
theorem showdown_winners_by_poker_shortDeck_play {cfg : Config} (hc : PokerConfig powerShortDeck cfg)
    (h5 : FiveCardRule cfg.opts) (ops : List Op)
    (he : ((start cfg).1.run ops).event = .gameClosed) (h2 : 2 ≤ ((start cfg).1.run ops).aliveCount)
    (hx : ∀ p ∈ ((start cfg).1.run ops).players, ∀ c, p.comb = some c → C03.isA6789 c.cards = false)
    (r : Result) (hr : ((start cfg).1.run ops).result = some r) (pr : PotResult) (hpr : pr ∈ r.pots)
    (li : LevelInfo) (hli : li ∈ pr.levels) (i : Nat) :
    i ∈ levelWinners li ↔
      ∃ p ∈ ((start cfg).1.run ops).players, ∃ c, p.comb = some c ∧ p.idx = i ∧ p.fold = false ∧
        li.level ≤ p.pot + p.wager ∧
        ∀ q ∈ ((start cfg).1.run ops).players, ∀ d, q.comb = some d → q.fold = false →
          li.level ≤ q.pot + q.wager →
          ¬ C03.pokerKey powerShortDeck c.cards < C03.pokerKey powerShortDeck d.cards :=
  showdown_winners_by_poker_shortDeck hc h5 ops he h2 hx r hr pr hpr li hli
    (showdown_hex (Or.inr rfl) hc (holeCount_of_rule h5) ops he r hr pr hpr li hli) i

/-- **`showdown_folded_loses_stake_play`**: in every closed hand, a folded player loses EXACTLY what
    it put in — `Links.showdown_folded_loses_stake` without the covering player `q` and `hle`. -/
theorem showdown_folded_loses_stake_play {T : List Cat} (hT : ShippedTable T) {cfg : Config}
    (hc : PokerConfig T cfg) (h1 : 1 ≤ cfg.opts.holeCount) (ops : List Op)
    (he : ((start cfg).1.run ops).event = .gameClosed)
    (p : Player) (hp : p ∈ ((start cfg).1.run ops).players) (hf : p.fold = true) :
    C02.changed ((start cfg).1.run ops).seats p.idx = -(p.pot + p.wager) :=
  folded_loses_stake_play (hc.reach ops) (showdown_valid hT hc h1 ops he) p hp hf

/-! ## non-vacuity on the played hand of Links (three seats, one fold, a tie) -/

open Links.Examples in
/-- the hypotheses of `showdown_winners_by_poker_play` hold for the example hand of Links, for every
    level of its result (levels 5 and 10, winners seats 0 and 2: see Links) -/
example (r : Result) (hr : gEnd.result = some r) (pr : PotResult) (hpr : pr ∈ r.pots)
    (li : LevelInfo) (hli : li ∈ pr.levels) (i : Nat) :=
  showdown_winners_by_poker_play exPC exRule exOps gEnd_facts.1 (Nat.le_of_eq gEnd_facts.2.2.2.1.symm)
    r hr pr hpr li hli i

open Links.Examples in
/-- … and those of `showdown_folded_loses_stake_play` for its folded seat 1, which loses its 5 chips -/
example : (∃ p ∈ gEnd.players, p.idx = 1 ∧ p.fold = true ∧ p.pot + p.wager = 5) ∧
    C02.changed gEnd.seats 1 = -5 := by
  decide +kernel

open Links.Examples in
example (p : Player) (hp : p ∈ gEnd.players) (hf : p.fold = true) :=
  showdown_folded_loses_stake_play (Or.inl rfl) exPC (by decide) exOps gEnd_facts.1 p hp hf

open Links.Examples in
/-- the invariant on that hand: seat 0 (not folded, 10 chips in) covers everybody -/
example : gEnd.players.map (fun p => (p.fold, p.pot + p.wager)) = [(false, 10), (true, 5), (false, 10)] := by
  decide +kernel

end Pokerface.C02P

section Axioms
open Pokerface.C02P
#print axioms nonfolded_covers_all
#print axioms folded_only_level_refunded
#print axioms every_level
#print axioms level_winners_play
#print axioms folded_loses_stake_play
#print axioms showdown_winners_by_poker_play
#print axioms showdown_winners_by_poker_shortDeck_play
#print axioms showdown_folded_loses_stake_play
end Axioms
