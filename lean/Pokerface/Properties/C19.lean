/-
  C19  No table is ever asked to hold more players than its capacity.

  "The regulator never asks a table to hold more than the configured maximum
   number of players - neither when opening tables for a batch of registrants
   nor when topping tables up later.  It opens no table before the competition
   has started or before the minimum initial number of players has registered,
   and every table opened by that initial allocation gets at least that minimum."

  Setting (DESIGN §5): `RSys` = regulator model × environment of tables that
  follow instructions; `Reachable s` = `s` is obtained from a fresh regulator with
  ANY setting with `1 ≤ max` by ANY finite sequence of valid operations
  (`RSys.ok`: fresh ids on registration, the status never returns to `pending`,
  a syncing table eliminates at most its members, releases exactly what it is
  told to, and the dispatch choices are ones `getAvailableTable` can make;
  these conditions never block a history, `Reachable.add_total`, `.status_total`,
  `.sync_total` in Proofs/RegTotal.lean).
  The property text restricts the settings to `2 ≤ min ≤ max`; NO theorem below
  needs that: they hold for every `min` (also `min = 0`, `min > max`, where
  `initial_tables_have_min` is true because then no table is ever opened) and
  every `max ≥ 1` (with `max = 0` the Go code divides by zero in `float64`).
  What IS needed is that the status only moves forward: on the wider domain
  `ReachableAny` of C09 (any `SetStatus` at any time) capacity is FALSE, see
  `capacity_fails_after_return_to_pending` at the end (observation O11).
  All theorems are for all settings and all histories; no bound on sizes.
-/
import Pokerface.Proofs.RegTotal

namespace Pokerface.C19
open Pokerface Reg RSys

/-- **capacity** (first sentence, at quiescent points): in every reachable state the real
    membership of every table is at most `max`. -/
theorem capacity {s : RSys} (h : Reachable s) :
    ∀ e ∈ s.env.members, e.2.length ≤ s.r.max :=
  fun _ he => (SInv.of_reachable h).capacity he

/-- **capacity, regulator side**: for every table on the regulator's sheet, `PlayerCount` and
    `Required` are non-negative and `PlayerCount + Required ≤ max` — the regulator never has an
    outstanding demand that would overfill a table (the run-time monitor checks this when
    `Required > 0`; it holds unconditionally). -/
theorem count_plus_required_le_max {s : RSys} (h : Reachable s) :
    ∀ tb ∈ s.r.tables, 0 ≤ tb.count ∧ 0 ≤ tb.required ∧ tb.count + tb.required ≤ s.r.max :=
  (SInv.of_reachable h).rinv.wf.bnd

/-- **capacity when opening tables**: every `requestTableFn` callback of every valid operation
    from a reachable state carries at most `max` players. -/
theorem request_le_max {s : RSys} (h : Reachable s) (op : EOp) (hok : s.ok op) :
    ∀ id ps, RCall.requestTable id ps ∈ (s.step op).r.calls → ps.length ≤ s.r.max :=
  ((SInv.of_reachable h).step_full op hok).2.reqmax

/-- **capacity while topping up** (first sentence, at every callback): inside an operation the
    environment applies the callbacks one by one to `baseMembers` (the sheet after the syncing
    table has carried out its eliminations/arrivals/departures).  After EVERY prefix `cs₁` of the
    callbacks of the operation, every table holds at most `max` players. -/
theorem capacity_during {s : RSys} (h : Reachable s) (op : EOp) (hok : s.ok op)
    (cs₁ cs₂ : List RCall) (hcs : (s.step op).r.calls = cs₁ ++ cs₂) :
    ∀ e ∈ Env.applyCalls (s.baseMembers op) cs₁, e.2.length ≤ s.r.max := by
  intro e he
  obtain ⟨hS, hF⟩ := (SInv.of_reachable h).step_full op hok
  obtain ⟨e', he', _, hle⟩ := applyCalls_grows _ cs₂ e he
  rw [← applyCalls_append, ← hcs, ← hF.members] at he'
  have := hS.capacity he'
  rw [hF.max_eq] at this
  omega

/-- **no_table_before_start** (state form): while the competition is pending there is no table,
    neither on the regulator's sheet nor in reality. -/
theorem no_table_before_start {s : RSys} (h : Reachable s) (hp : s.r.status = .pending) :
    s.r.tables = [] ∧ s.r.tableCount = 0 ∧ s.env.members = [] := by
  have hS := SInv.of_reachable h
  have ht := hS.rinv.pend hp
  refine ⟨ht, ?_, hS.members_nil_iff.2 ht⟩
  rw [hS.rinv.wf.tc, ht]; rfl

/-- **no_table_before_start** (callback form): an operation after which the competition is still
    pending made no callback at all (no table opened, nobody assigned). -/
theorem no_callback_before_start {s : RSys} (h : Reachable s) (op : EOp) (hok : s.ok op)
    (hp : (s.step op).r.status = .pending) : (s.step op).r.calls = [] := by
  obtain ⟨hS, hF⟩ := (SInv.of_reachable h).step_full op hok
  have hm : (s.step op).env.members = [] := hS.members_nil_iff.2 (hS.rinv.pend hp)
  cases hc : (s.step op).r.calls with
  | nil => rfl
  | cons c cs =>
    have h1 := applyTVs_ne_nil _ _ hF.valid (by rw [hc]; exact List.cons_ne_nil _ _)
    rw [← mview_applyCalls, ← hF.members, hm] at h1
    exact absurd rfl h1

/-- the status never returns to `pending`: once an operation has left it, it stays left.  (So
    "still pending after the operation" is the same as "the competition has not started".) -/
theorem pending_is_initial {s : RSys} (h : Reachable s) (op : EOp) (hok : s.ok op)
    (hp : (s.step op).r.status = .pending) : s.r.status = .pending := by
  have hF := ((SInv.of_reachable h).step_full op hok).2
  have hst := hF.status_eq
  cases op with
  | add ps ch => simp only at hst; exact hst ▸ hp
  | sync t elim stay rel keep ch => simp only at hst; exact hst ▸ hp
  | status st ch =>
    simp only at hst
    rcases hok.1 with h1 | h1
    · exact absurd (hst ▸ hp) h1
    · exact h1

/-- **no_table_before_min** (state form): tables exist only if at least `min` players have
    registered so far (`registered` = every id ever accepted by `AddPlayers`). -/
theorem no_table_before_min {s : RSys} (h : Reachable s) (hne : s.env.members ≠ []) :
    s.r.min ≤ s.env.registered.length := by
  have hS := SInv.of_reachable h
  exact hS.regmin (fun ht => hne (hS.members_nil_iff.2 ht))

/-- **no_table_before_min** (callback form): an operation that opens a table (`requestTableFn`)
    ends with at least `min` registered players — registrations of that very operation included,
    which is the earliest moment the Go code could know about them. -/
theorem no_request_before_min {s : RSys} (h : Reachable s) (op : EOp) (hok : s.ok op)
    (id : Nat) (ps : List Nat) (hc : RCall.requestTable id ps ∈ (s.step op).r.calls) :
    s.r.min ≤ (s.step op).env.registered.length := by
  obtain ⟨hS, hF⟩ := (SInv.of_reachable h).step_full op hok
  have hne : (s.step op).env.members ≠ [] := by
    intro hm
    have h1 := applyTVs_ne_nil _ _ hF.valid (List.ne_nil_of_mem hc)
    rw [← mview_applyCalls, ← hF.members, hm] at h1
    exact absurd rfl h1
  have := hS.regmin (fun ht => hne (hS.members_nil_iff.2 ht))
  rw [hF.min_eq] at this
  exact this

/-- **initial_tables_have_min**: every table opened by an operation that started with no table
    (`tableCount = 0`, the initial allocation) gets at least `min` players. -/
theorem initial_tables_have_min {s : RSys} (h : Reachable s) (h0 : s.r.tableCount = 0) (op : EOp)
    (hok : s.ok op) (id : Nat) (ps : List Nat) (hc : RCall.requestTable id ps ∈ (s.step op).r.calls) :
    s.r.min ≤ ps.length := by
  have hS := SInv.of_reachable h
  cases op with
  | add qs ch =>
    rw [step_add_r] at hc
    exact addPlayers_initial s.r qs ch hS.rinv h0 id ps hc
  | status st ch => exact setStatus_initial s.r st ch hS.rinv h0 id ps hc
  | sync t elim stay rel keep ch =>
    exfalso
    have ht := tables_nil_of_tc hS.rinv.wf h0
    have hm := hS.members_nil_iff.2 ht
    have : s.env.membersOf t = none := by simp [Env.membersOf, hm]
    simp only [RSys.step, this] at hc
    have hft : s.r.findTable t = none := by simp [Reg.findTable, ht]
    have : (s.syncAnswer t elim).1 = s.r.beginOp [] := by
      simp only [syncAnswer, syncState_eq, hft]
    rw [this] at hc
    simp [Reg.beginOp] at hc

/-- **initial_tables_have_min**, the remaining corner: the run-time monitor evaluates "no table
    open" again when a sync triggers `ReleasePlayers`.  If the sync just broke the last table
    (`tableCount = 0` after `SyncState`), tables opened by that `ReleasePlayers` also get at least
    `min` players.  (In fact nobody is alive then, so none is opened.) -/
theorem initial_tables_have_min_release {s : RSys} (h : Reachable s) (t : Nat)
    (elim stay rel keep ch : List Nat) (hok : s.ok (.sync t elim stay rel keep ch))
    (h0 : (s.syncAnswer t elim).1.tableCount = 0) (id : Nat) (ps : List Nat)
    (hc : RCall.requestTable id ps ∈ (s.step (.sync t elim stay rel keep ch)).r.calls) :
    s.r.min ≤ ps.length := by
  have hS := SInv.of_reachable h
  cases hm : s.env.membersOf t with
  | none =>
    exfalso
    have hft := (hS.unknown_iff t).1 hm
    have h1 : (s.syncAnswer t elim).1 = s.r.beginOp [] := by
      simp only [syncAnswer, syncState_eq, hft]
    simp only [RSys.step, hm, h1] at hc
    simp [Reg.beginOp] at hc
  | some ms =>
    have hok' := hok
    simp only [ok, hm] at hok'
    rw [show s.syncAnswer t elim = ((s.syncAnswer t elim).1, (s.syncAnswer t elim).2.1,
      (s.syncAnswer t elim).2.2.1, (s.syncAnswer t elim).2.2.2) from rfl] at hok'
    simp only [] at hok'
    obtain ⟨hp1, hp2, hrl, _, _⟩ := hok'
    obtain ⟨r1, relc, nw, t0, hft, hc0, hans, post⟩ := sync_facts hS t elim stay ms hm hp1
    rw [hans] at h0 hrl
    simp only at h0 hrl
    have hmin : r1.min = s.r.min := post.min_eq
    simp only [RSys.step, hm, hans] at hc
    split at hc
    · rw [post.calls] at hc
      exact absurd hc (by simp [syncBase, Reg.setTable, Reg.beginOp])
    · rw [← hmin]
      exact releasePlayers_initial r1 rel ch post.wf h0 (by rw [post.cnt]; omega) id ps hc

/-! ### non-vacuity: the witness of defect D5 (max 6, min 5, 13 registrants) and a longer history -/

/-- 13 registrants at 6/5, then start: two tables of six, one player waiting (before the repair:
    a table of seven). -/
def d5 : List EOp := [.add [1,2,3,4,5,6,7,8,9,10,11,12,13] [], .status .normal []]

example : Reachable ((RSys.init 6 5).run d5) := (Reachable.init 6 5 (by decide)).run d5 (by decide)
example : ((RSys.init 6 5).run d5).env.members = [(1, [1,2,3,4,5,6]), (2, [7,8,9,10,11,12])] := by decide
example : ((RSys.init 6 5).run d5).r.queue = [13] := by decide
/-- the start operation opened tables (hypotheses of `request_le_max`, `initial_tables_have_min`,
    `no_request_before_min` are satisfiable, the conclusions non-trivial) -/
example : ((RSys.init 6 5).run d5).r.calls =
    [.requestTable 1 [1,2,3,4,5,6], .requestTable 2 [7,8,9,10,11,12]] := by decide
/-- still pending after the registration: `no_callback_before_start` applies -/
example : ((RSys.init 6 5).step (.add [1,2,3,4,5,6,7,8,9,10,11,12,13] [])).r.status = .pending := by decide

/-- a history with eliminations, a top-up by dispatch (choice `1`), late registrations and a sync
    that hands queue players to a table -/
def longer : List EOp := d5 ++
  [.sync 1 [1,2] [3,4,5,6] [] [3,4,5,6,13] [], .add [14] [1], .sync 2 [7] [8,9,10,11,12] [] [8,9,10,11,12] []]

example : Reachable ((RSys.init 6 5).run longer) :=
  (Reachable.init 6 5 (by decide)).run longer (by decide)
example : ((RSys.init 6 5).run longer).env.members =
    [(1, [3,4,5,6,13,14]), (2, [8,9,10,11,12])] := by decide
/-- the late registrant was handed to table 1 by `assignPlayersFn` (hypotheses of `capacity_during`) -/
example : ((RSys.init 6 5).run (d5 ++ [.sync 1 [1,2] [3,4,5,6] [] [3,4,5,6,13] [], .add [14] [1]])).r.calls =
    [.assign 1 [14]] := by decide

/-! ### why the domain excludes a return to `pending` (observation O11)

`SetStatus(Pending)` on a running competition is accepted by the Go code but is outside the
regulator alphabet of DESIGN §5 (the status only moves forward); C09 is proved with it
(`ReachableAny`), C19 cannot be: registrations pile up in the queue while a table's `Required`
is outstanding, `SyncState` tops the table up from the queue WITHOUT clearing `Required`, and the
next start dispatches `Required` more players: six players at a table for four. -/
def backToPending : List EOp :=
  [.add [1,2] [], .status .normal [], .status .pending [], .add [3,4] [],
   .sync 1 [] [1,2] [] [1,2,3,4] [], .add [5,6] [], .status .normal [1]]

example : ((RSys.init 4 2).run backToPending).env.members = [(1, [1,2,3,4,5,6])] := by decide
example : ¬ (RSys.init 4 2).allOk backToPending := by decide
example : (RSys.init 4 2).allOkAny backToPending := by decide

/-- **capacity is FALSE once the status may return to `Pending`** (kernel-checked witness, setting
    4/2 which satisfies `2 ≤ min ≤ max`): a state reachable by operations that are valid in every
    respect except that one `SetStatus(Pending)` follows `SetStatus(Normal)`, in which a table holds
    more than `max` players — both in reality and on the regulator's sheet.  Reproduced on the Go
    code (report of the domain generalisation). -/
theorem capacity_fails_after_return_to_pending :
    ∃ s : RSys, ReachableAny s ∧ 2 ≤ s.r.min ∧ s.r.min ≤ s.r.max ∧
      (∃ e ∈ s.env.members, s.r.max < e.2.length) ∧ (∃ tb ∈ s.r.tables, (s.r.max : Int) < tb.count) :=
  ⟨(RSys.init 4 2).run backToPending,
   (ReachableAny.init 4 2 (by decide)).run backToPending (by decide),
   by decide, by decide, by decide, by decide⟩

/-- what survives on the wide domain: the tables OPENED never exceed `max` (only top-ups can) -/
theorem request_le_max_any {s : RSys} (h : ReachableAny s) (op : EOp) (hok : s.okAny op) :
    ∀ id ps, RCall.requestTable id ps ∈ (s.step op).r.calls → ps.length ≤ s.r.max :=
  ((SInv0.of_reachable h).step_full op hok).2.reqmax

/-! ### non-vacuity outside `2 ≤ min ≤ max` -/

/-- 1/1: every table has one seat -/
example : Reachable ((RSys.init 1 1).run [.status .normal [], .add [1,2,3] []]) :=
  (Reachable.init 1 1 (by decide)).run _ (by decide)
example : ((RSys.init 1 1).run [.status .normal [], .add [1,2,3] []]).env.members = [(1, [1]), (2, [2]), (3, [3])] := by
  decide
/-- 3/1: a single registrant gets a table -/
example : ((RSys.init 3 1).run [.status .normal [], .add [1] []]).env.members = [(1, [1])] := by decide
/-- 2/3 (`min > max`): no table is ever opened, everybody waits -/
example : Reachable ((RSys.init 2 3).run [.add [1,2,3,4,5,6,7] [], .status .normal []]) :=
  (Reachable.init 2 3 (by decide)).run _ (by decide)
example : ((RSys.init 2 3).run [.add [1,2,3,4,5,6,7] [], .status .normal []]).env.members = [] := by decide

end Pokerface.C19
