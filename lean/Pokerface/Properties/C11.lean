import Pokerface.Proofs.BetsMono
import Pokerface.Proofs.BetsExamples
/-
  C11 — Offered actions fit the betting situation and do what they say.

  Setting (`AtTurn g p`): `g` is any reachable state (any accepted configuration, any
  sequence of operations, accepted or refused, with any arguments) whose event is
  `RoundStarted`, i.e. a player is asked to act, and `p` is the player at seat `g.cur`.
  `p.allowed` is the published `AllowedActions` of that seat; `g.cw` is the wager to match,
  `g.prev` the previous raise size (minimum raise), `g.miniBet` the minimum bet,
  `p.initial` the player's stack at the start of the betting round, `p.wager` what the
  player has put in during this round.
-/
namespace Pokerface.C11
open Pokerface Game

/-- Every reachable state has a player at the seat to act, so `AtTurn` only adds
    "the hand is waiting for a player action". -/
theorem atTurn_exists {g : Game} (h : Reachable g) (he : g.event = .roundStarted) : ∃ p, AtTurn g p := by
  obtain ⟨p, hp⟩ := exists_cur h
  exact ⟨p, h, he, hp⟩

/-- The list published for the player to act is the situation table of `GetAvailableActions`
    evaluated on the current state (the list is never stale). -/
theorem offered_is_table {g : Game} {p : Player} (h : AtTurn g p) : p.allowed = g.availableActions p :=
  h.allowed_eq

/-- Sentence 1, first half: "A folded or all-in seat is only asked to pass". -/
theorem offered_pass_only {g : Game} {p : Player} (h : AtTurn g p) (hp : p.fold = true ∨ p.stack = 0) :
    p.allowed = [.pass] := by
  rw [h.allowed_eq]; exact avail_pass_only g p hp

/-- Sentence 1, the rest: for a player to act who has not folded and still has chips
    (clauses numbered as in the task):
    (2) all-in is always offered and pass never; (3) fold exactly when facing a higher wager;
    (4) check exactly when not; (5) call whenever facing a wager the player can cover with chips to
    spare, (6) call never when not facing a wager; (7) bet whenever nobody has wagered this round and
    the player holds at least the minimum bet, (8) bet never when a wager stands; (9) raise whenever a
    wager stands and the player holds more than wager-to-match + minimum raise and no less than the minimum
    bet, (10) raise never when no wager stands. -/
theorem offered_spec {g : Game} {p : Player} (h : AtTurn g p) (hf : p.fold = false) (hs : p.stack ≠ 0) :
    (Act.allin ∈ p.allowed ∧ Act.pass ∉ p.allowed) ∧
    (Act.fold ∈ p.allowed ↔ p.wager < g.cw) ∧
    (Act.check ∈ p.allowed ↔ ¬ p.wager < g.cw) ∧
    (p.wager < g.cw → p.initial > g.cw → Act.call ∈ p.allowed) ∧
    (Act.call ∈ p.allowed → p.wager < g.cw) ∧
    (g.cw = 0 → p.initial ≥ g.miniBet → Act.bet ∈ p.allowed) ∧
    (Act.bet ∈ p.allowed → g.cw = 0) ∧
    (g.cw > 0 → p.initial > g.cw + g.prev → p.initial ≥ g.miniBet → Act.raise ∈ p.allowed) ∧
    (Act.raise ∈ p.allowed → g.cw > 0) := by
  rw [h.allowed_eq]
  obtain ⟨m1, m2, _, m3, m4, m5, m6, m7⟩ := avail_mem (g := g) hf hs
  have hw0 := h.pinv.wager0
  have hwle := h.chips.wle p h.mem
  have hprev := h.chips.prev0
  have hcw := h.chips.cw0
  refine ⟨⟨m1, m2⟩, m3, m4, fun a b => m5.mpr ⟨a, b⟩, fun a => (m5.mp a).1, fun a b => m6.mpr ⟨by omega, b, a⟩,
    fun a => (m6.mp a).2.2, ?_, ?_⟩
  · intro a b c
    apply m7.mpr
    by_cases hc : p.wager < g.cw
    · exact Or.inl ⟨hc, b, by omega⟩
    · exact Or.inr ⟨hc, c, by omega⟩
  · intro a
    rcases m7.mp a with ⟨a1, _, _⟩ | ⟨_, _, a3⟩ <;> omega

/-- The facts about the state that the clauses rely on and that hold at every decision point:
    no negative wager, nobody above the wager to match, non-negative minimum raise. -/
theorem offered_side_facts {g : Game} {p : Player} (h : AtTurn g p) :
    0 ≤ p.wager ∧ p.wager ≤ g.cw ∧ 0 ≤ g.prev ∧ 0 ≤ p.stack ∧ p.stack = p.initial - p.wager :=
  ⟨h.pinv.wager0, h.chips.wle p h.mem, h.chips.prev0, h.pinv.stack0, h.pinv.rebase⟩

/-! Non-vacuity: a preflop decision (dealer facing the big blind: fold, call, raise, all-in) and a
    flop decision (nobody has bet: check, bet, all-in). -/
example : ∃ p, AtTurn Ex.g1 p ∧ p.fold = false ∧ p.stack ≠ 0 ∧ p.wager < Ex.g1.cw ∧
    p.allowed = [.allin, .fold, .call, .raise] :=
  ⟨_, ⟨Ex.reach_g1, by decide, rfl⟩, by decide⟩
example : ∃ p, AtTurn Ex.g2 p ∧ p.fold = false ∧ p.stack ≠ 0 ∧ Ex.g2.cw = 0 ∧
    p.allowed = [.allin, .check, .bet] :=
  ⟨_, ⟨Ex.reach_g2, by decide, rfl⟩, by decide⟩


/-! ## Second sentence: what an accepted action does

  The operation is `.act seat a x` where `ByCur g seat` says that the action is addressed to the
  seat to act — either implicitly (`seat = none`, Go `Game.X()`) or by naming it (`seat = some g.cur`,
  Go `Game.Player(cur).X()`).  `(g.step op).2 = none` says the engine accepted it.  `q` is THE player
  found afterwards at the seat that acted (seat `g.cur` of the OLD state; the new state may already
  point at the next player); the theorems assert that it exists.  -/

/-- Whatever is offered is accepted when the player to act does it (for `Bet`, with any amount `x ≥ 0`;
    `Raise` is the subject of C12). -/
theorem offered_accepted {g : Game} {p : Player} (h : AtTurn g p) {seat : Option Nat} (hs : ByCur g seat)
    {a : Act} (ha : a ∈ p.allowed) (har : a ≠ .raise) (x : Int) (hx : a = .bet → 0 ≤ x) :
    (g.step (.act seat a x)).2 = none := by
  rw [step_byCur hs]
  rw [h.allowed_eq] at ha
  have hal := h.allows_of ha
  by_cases hb : a = .bet
  · subst hb; exact act_bet_accepted_of_allows hal (hx rfl)
  · exact act_accepted_of_allows x hal hb har

/-- Conversely an action is only accepted when it is in the offered list. -/
theorem accepted_offered {g : Game} {p : Player} (h : AtTurn g p) {seat : Option Nat} (hs : ByCur g seat)
    {a : Act} {x : Int} (hacc : (g.step (.act seat a x)).2 = none) : a ∈ p.allowed := by
  rw [step_byCur hs] at hacc
  rw [h.allowed_eq]
  by_cases hb : a = .bet
  · subst hb; exact h.of_allows (act_bet_accepted hacc).1
  · by_cases hr : a = .raise
    · subst hr
      apply h.of_allows
      unfold Game.act at hacc
      simp only at hacc
      split at hacc
      · simp at hacc
      · rename_i h1; simpa using h1
    · exact h.of_allows (act_simple_accepted hr hb hacc)

/-- "An accepted check, fold or pass moves no chips": every player's bankroll, round-start stack, stack,
    pot and wager, and the round pot, the wager to match and the minimum raise are the same afterwards.
    (Holds in every state, for every seat designation, accepted or refused.) -/
theorem effect_passive (g : Game) (seat : Option Nat) {a : Act} (ha : a = .check ∨ a = .fold ∨ a = .pass) (x : Int) :
    (g.step (.act seat a x)).1.players.map (fun q => (q.bankroll, q.initial, q.stack, q.pot, q.wager)) =
      g.players.map (fun q => (q.bankroll, q.initial, q.stack, q.pot, q.wager)) ∧
    (g.step (.act seat a x)).1.roundPot = g.roundPot ∧ (g.step (.act seat a x)).1.cw = g.cw ∧
    (g.step (.act seat a x)).1.prev = g.prev := by
  have key : ∀ i, NoChip g (g.act i a x).1 := fun i => act_passive_noChip g i a x ha
  have : NoChip g (g.step (.act seat a x)).1 := by
    cases seat with
    | none => exact key _
    | some i => exact key i
  exact ⟨this.chips, this.rp, this.cw, this.prev⟩

/-- "a call brings the caller level with the wager to match" (reading I2: the wager to match after
    the call).  Also: the wager to match is not lowered, stays the same unless it was below the big
    blind (short big blind), and the caller's chips only move from stack to wager. -/
theorem effect_call {g : Game} {p : Player} (h : AtTurn g p) {seat : Option Nat} (hs : ByCur g seat) (x : Int)
    (hacc : (g.step (.act seat .call x)).2 = none) :
    ∃ q, (g.step (.act seat .call x)).1.players[g.cur]? = some q ∧
    q.wager = (g.step (.act seat .call x)).1.cw ∧ g.cw ≤ (g.step (.act seat .call x)).1.cw ∧
    (g.opts.blindBB ≤ g.cw → (g.step (.act seat .call x)).1.cw = g.cw) ∧
    q.stack = p.initial - q.wager ∧ q.pot = p.pot ∧ q.bankroll = p.bankroll := by
  rw [step_byCur hs] at hacc ⊢
  have hal := act_simple_accepted (by simp) (by simp) hacc
  rw [act_call_eq x hal]
  obtain ⟨q, hq, e1, e2, e3, _, e5, e6, e7⟩ := doCall_effect h (h.of_allows hal)
  exact ⟨q, hq, e1, e2, e3, e5, e6, e7⟩

/-- "a bet of a positive amount below the player's stack makes exactly that amount the new wager to match":
    also the bettor's wager is `x`, the minimum raise becomes `x`, the bettor is the last raiser. -/
theorem effect_bet {g : Game} {p : Player} (h : AtTurn g p) {seat : Option Nat} (hs : ByCur g seat) {x : Int}
    (hx0 : 0 < x) (hxs : x < p.stack)
    (hacc : (g.step (.act seat .bet x)).2 = none) :
    ∃ q, (g.step (.act seat .bet x)).1.players[g.cur]? = some q ∧
    (g.step (.act seat .bet x)).1.cw = x ∧ q.wager = x ∧ (g.step (.act seat .bet x)).1.prev = x ∧
    (g.step (.act seat .bet x)).1.raiser = g.cur ∧ q.stack = p.stack - x ∧ q.pot = p.pot ∧ q.bankroll = p.bankroll := by
  rw [step_byCur hs] at hacc ⊢
  obtain ⟨hal, _, heq⟩ := act_bet_accepted hacc
  rw [heq]
  obtain ⟨q, hq, e1, e2, e3, e4, e5, e6, e7⟩ := doBet_effect h (h.of_allows hal) hx0 hxs
  exact ⟨q, hq, e2, e1, e3, e4, e5, e6, e7⟩

/-- "all-in commits exactly the remaining stack": afterwards the stack is 0 and the wager is the whole
    round-start stack; the wager to match becomes that amount if it is larger. -/
theorem effect_allin {g : Game} {p : Player} (h : AtTurn g p) {seat : Option Nat} (hs : ByCur g seat) (x : Int)
    (hacc : (g.step (.act seat .allin x)).2 = none) :
    ∃ q, (g.step (.act seat .allin x)).1.players[g.cur]? = some q ∧
    q.stack = 0 ∧ q.wager = p.initial ∧ q.wager = p.wager + p.stack ∧ q.pot = p.pot ∧ q.bankroll = p.bankroll ∧
    (g.step (.act seat .allin x)).1.cw = (if p.initial > g.cw then p.initial else g.cw) := by
  rw [step_byCur hs] at hacc ⊢
  have hal := act_simple_accepted (by simp) (by simp) hacc
  rw [act_allin_eq x hal]
  obtain ⟨q, hq, e1, e2, e3, e4, _, e6⟩ := doAllin_effect h
  have := h.pinv.rebase
  exact ⟨q, hq, e1, e2, by omega, e3, e4, e6⟩

/-- Companion to the effect theorems: whatever the action, the designated seat and the amount, accepted or
    refused, every OTHER seat keeps its positions, bankroll, round-start stack, stack, pot and wager — a player
    action moves the chips of the acting seat only.  (`i` is the acting seat: `g.cur` for `seat = none`.) -/
theorem effect_only_actor (g : Game) (seat : Option Nat) (a : Act) (x : Int) (j : Nat)
    (hj : j ≠ seat.getD g.cur) {q : Player} (hq : (g.step (.act seat a x)).1.players[j]? = some q) :
    ∃ p, g.players[j]? = some p ∧ q.bankroll = p.bankroll ∧ q.initial = p.initial ∧ q.stack = p.stack ∧
      q.pot = p.pot ∧ q.wager = p.wager := by
  have key : ∀ i, j ≠ i → (g.act i a x).1.players[j]? = some q → ∃ p, g.players[j]? = some p ∧ q.frame = p.frame := by
    intro i hji hq
    have h := onlySeat_act g i a x j hji
    have h1 : ((g.act i a x).1.players.map Player.frame)[j]? = some q.frame := by simp [hq]
    rw [h] at h1
    simp only [List.getElem?_map, Option.map_eq_some_iff] at h1
    obtain ⟨p, hp, he⟩ := h1
    exact ⟨p, hp, he.symm⟩
  have : ∃ p, g.players[j]? = some p ∧ q.frame = p.frame := by
    cases seat with
    | none => exact key g.cur hj hq
    | some i => exact key i hj hq
  obtain ⟨p, hp, he⟩ := this
  obtain ⟨c1, c2, c3, c4, c5, _⟩ := frame_chips he
  exact ⟨p, hp, c1, c2, c3, c4, c5⟩

/-! Non-vacuity of the effect theorems: accepted actions at the example decision points. -/
example : AtTurn Ex.g1 (Ex.g1.players[0]) ∧ ByCur Ex.g1 none ∧ (Ex.g1.step (.act none .call 0)).2 = none ∧
    (Ex.g1.step (.act none .fold 0)).2 = none ∧ (Ex.g1.step (.act (some 0) .allin 0)).2 = none :=
  ⟨⟨Ex.reach_g1, by decide, rfl⟩, Or.inl rfl, by decide, by decide, by decide⟩
example : AtTurn Ex.g2 (Ex.g2.players[1]) ∧ (0:Int) < 30 ∧ 30 < (Ex.g2.players[1]).stack ∧
    (Ex.g2.step (.act none .bet 30)).2 = none ∧ (Ex.g2.step (.act none .check 0)).2 = none :=
  ⟨⟨Ex.reach_g2, by decide, rfl⟩, by decide, by decide, by decide, by decide⟩
/-- reading I2 at work: short big blind (6 of 10 posted), the dealer's call completes to the big blind -/
example : AtTurn Ex.g3 (Ex.g3.players[0]) ∧ Ex.g3.cw = 6 ∧ (Ex.g3.step (.act none .call 0)).2 = none ∧
    (Ex.g3.step (.act none .call 0)).1.cw = 10 ∧
    ((Ex.g3.step (.act none .call 0)).1.players[0]?.map (·.wager)) = some 10 :=
  ⟨⟨Ex.reach_g3, by decide, rfl⟩, by decide, by decide, by decide, by decide⟩

/-! ## The opposite polarity for call, bet and raise (gap found by review)

  `offered_spec` gives "call / bet / raise is offered WHENEVER …" and "never when no wager stands / a wager
  stands".  The property also says "call, bet and raise are never offered in the opposite situations": the
  theorems below give the converses, so that each of the three is offered EXACTLY in its situation. -/

/-- Sentence 1, "(call, bet and raise are never offered in the opposite situations)", the missing polarity.
    For the player to act at any reachable decision point (same hypotheses as `offered_spec`):
    (5') call is offered ONLY when the player faces a higher wager (`wager < cw`) and can cover it with chips
         to spare (`initial > cw`);
    (7') bet is offered ONLY when nobody has wagered this round (`cw = 0`, and indeed every seat's wager is 0)
         and the player holds at least the minimum bet (`initial ≥ miniBet`);
    (9') raise is offered ONLY when a wager stands (`cw > 0`) and either the player is behind it and holds
         more than wager-to-match + minimum raise (`wager < cw ∧ initial > cw + prev`), or the player is level
         with it (big blind / option) and holds at least the minimum bet (`wager = cw ∧ initial ≥ miniBet`).
    These are the exact branch conditions of `GetAvailableActions` (`availableActions`, `avail_mem`). -/
theorem offered_spec_converse {g : Game} {p : Player} (h : AtTurn g p) (hf : p.fold = false) (hs : p.stack ≠ 0) :
    (Act.call ∈ p.allowed → p.wager < g.cw ∧ p.initial > g.cw) ∧
    (Act.bet ∈ p.allowed → g.cw = 0 ∧ (∀ q ∈ g.players, q.wager = 0) ∧ p.initial ≥ g.miniBet) ∧
    (Act.raise ∈ p.allowed → g.cw > 0 ∧
      ((p.wager < g.cw ∧ p.initial > g.cw + g.prev) ∨ (p.wager = g.cw ∧ p.initial ≥ g.miniBet))) := by
  rw [h.allowed_eq]
  obtain ⟨_, _, _, _, _, m5, m6, m7⟩ := avail_mem (g := g) hf hs
  have hw0 := h.pinv.wager0
  have hwle := h.chips.wle p h.mem
  have hcw := h.chips.cw0
  refine ⟨fun a => m5.mp a, ?_, ?_⟩
  · intro a
    obtain ⟨_, b, c⟩ := m6.mp a
    refine ⟨c, ?_, b⟩
    intro q hq
    have := h.chips.wle q hq
    have := (h.chips.pinv q hq).wager0
    omega
  · intro a
    rcases m7.mp a with ⟨a1, a2, _⟩ | ⟨a1, a2, a3⟩
    · exact ⟨by omega, Or.inl ⟨a1, a2⟩⟩
    · exact ⟨by omega, Or.inr ⟨by omega, a2⟩⟩

/-- `offered_spec` and `offered_spec_converse` together, as equivalences: each of call, bet and raise is
    offered to the player to act exactly in its situation. -/
theorem offered_iff {g : Game} {p : Player} (h : AtTurn g p) (hf : p.fold = false) (hs : p.stack ≠ 0) :
    (Act.call ∈ p.allowed ↔ p.wager < g.cw ∧ p.initial > g.cw) ∧
    (Act.bet ∈ p.allowed ↔ g.cw = 0 ∧ p.initial ≥ g.miniBet) ∧
    (Act.raise ∈ p.allowed ↔ g.cw > 0 ∧
      ((p.wager < g.cw ∧ p.initial > g.cw + g.prev) ∨ (p.wager = g.cw ∧ p.initial ≥ g.miniBet))) := by
  obtain ⟨c1, c2, c3⟩ := offered_spec_converse h hf hs
  obtain ⟨_, _, _, s5, _, s7, _, _, _⟩ := offered_spec h hf hs
  have hprev := h.chips.prev0
  have hwle := h.chips.wle p h.mem
  refine ⟨⟨c1, fun a => s5 a.1 a.2⟩, ⟨fun a => ⟨(c2 a).1, (c2 a).2.2⟩, fun a => s7 a.1 a.2⟩, ⟨c3, ?_⟩⟩
  rintro ⟨a, b⟩
  rw [h.allowed_eq]
  obtain ⟨_, _, _, _, _, _, _, m7⟩ := avail_mem (g := g) hf hs
  apply m7.mpr
  rcases b with ⟨b1, b2⟩ | ⟨b1, b2⟩
  · exact Or.inl ⟨b1, b2, by omega⟩
  · exact Or.inr ⟨by omega, b2, by omega⟩

/-- Non-vacuity of the converses.  `Ex.g1` (preflop, dealer facing the big blind 10 with 1000): call and raise are
    offered, `wager 0 < cw 10`, `initial 1000 > cw + prev = 20`; `Ex.g2` (flop, nobody has bet): bet is offered,
    `cw = 0`, `initial 990 ≥ miniBet 10`; `Ex.g3` (short big blind 6, minimum raise still 10): call and raise offered. -/
example : AtTurn Ex.g1 (Ex.g1.players[0]) ∧ (Ex.g1.players[0]).fold = false ∧ (Ex.g1.players[0]).stack ≠ 0 ∧
    Act.call ∈ (Ex.g1.players[0]).allowed ∧ Act.raise ∈ (Ex.g1.players[0]).allowed ∧
    ((Ex.g1.players[0]).wager, Ex.g1.cw, Ex.g1.prev, (Ex.g1.players[0]).initial) = (0, 10, 10, 1000) :=
  ⟨⟨Ex.reach_g1, by decide, rfl⟩, by decide, by decide, by decide, by decide, by decide⟩
example : AtTurn Ex.g2 (Ex.g2.players[1]) ∧ (Ex.g2.players[1]).fold = false ∧ (Ex.g2.players[1]).stack ≠ 0 ∧
    Act.bet ∈ (Ex.g2.players[1]).allowed ∧ (Ex.g2.cw, Ex.g2.miniBet, (Ex.g2.players[1]).initial) = (0, 10, 990) :=
  ⟨⟨Ex.reach_g2, by decide, rfl⟩, by decide, by decide, by decide, by decide⟩
/-- the second raise situation (level with the wager to match): the big blind's option after two calls -/
example : let g := Ex.g1.run [.act none .call 0, .act none .call 0]
    AtTurn g (g.players[2]) ∧ Act.raise ∈ (g.players[2]).allowed ∧ Act.call ∉ (g.players[2]).allowed ∧
    ((g.players[2]).wager, g.cw, g.miniBet, (g.players[2]).initial) = (10, 10, 10, 1000) :=
  ⟨⟨Ex.reach_g1.run _, by decide, rfl⟩, by decide, by decide, by decide⟩

end Pokerface.C11
