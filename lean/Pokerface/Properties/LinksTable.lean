/-
  LinksTable — END-TO-END statements: the hand-off of the table (C08Table: seat manager → sheet → player settings)
  composed with the theorems about the engine (C06 start, C13 forced bets, C04 first to act, C01 chips).

  Setting of links 1–3 (`HandOff t t' seats m`, Proofs/TableGlueLinks.lean):
  * `t` is a table satisfying the invariant `TInv` (every reachable table does, and so does the state inside
    `prepareNextGame` from which the closing `setupPosition` of a hand runs: `C08T.closing_setup`), `t.inPosition = false`;
  * `t.setupPosition = (t', none)`: `setupPosition` ran `Next()` and succeeded; `seats` is `GetPlayableSeats()` of `t'`;
  * every player on a playable seat of `t'` has a positive bankroll;
  * `m : Meta` are the options `startGame` gives the game: ANY ante and blinds `≥ 0` (`OptsOK m`; the model of the
    table does not fix them) and a non-empty deck.
  The configuration handed to the engine is `⟨m, t'.gameSeats seats⟩`.  `posOf sm s` are the positions the seat manager
  gives seat `s` (dealer, sb, bb-and-not-sb); `owedAt sm m s` is the blind seat `s` owes under the options `m`.
  Link 4 is about reachable tables and the closing stacks the engine reports.
-/
import Pokerface.Proofs.TableGlueLinks
import Pokerface.Properties.C01
import Pokerface.Properties.C04
import Pokerface.Properties.C06
import Pokerface.Properties.C13
import Pokerface.Properties.C08Table

namespace Pokerface.LinksT
open Pokerface Table SM Game

/-- The blind the seat `s` owes, in terms of the SEATS of the seat manager: the big-blind seat owes the big blind;
the small-blind seat the small blind — when it is also the dealer's seat (heads-up) and the small blind is 0, the dealer
blind (reading I1 of C13); the dealer's seat (otherwise) the dealer blind; every other seat nothing. -/
def owedAt (sm : SM) (m : Meta) (s : Nat) : Int :=
  if sm.bb = some s then m.blindBB
  else if sm.sb = some s then
    (if sm.dealer = some s then (if m.blindSB > 0 then m.blindSB else m.blindDealer) else m.blindSB)
  else if sm.dealer = some s then m.blindDealer
  else 0

/-- the configuration handed to the engine is in the domain of C13 / C04 / C01 -/
theorem table_accepted {t t' : Table} {seats : List Nat} {m : Meta} (h : HandOff t t' seats m) :
    C13.Accepted ⟨m, t'.gameSeats seats⟩ ∧
    (∀ (k : Nat) c, (t'.gameSeats seats)[k]? = some c → (c.dealer = true ↔ k = 0)) ∧ 2 ≤ seats.length := by
  obtain ⟨seats0, d, hps, _, _, h2, _, hstart, hdl, _⟩ := C08T.hand_off_accepted t t' h.inv h.fresh h.setup h.bank
  rw [h.seats] at hps
  cases hps
  exact ⟨⟨⟨h.opts⟩, hstart m h.deck⟩, hdl, h2⟩

/-! ## Link 1: the game starts, with the players of the playable seats -/

/-- **Link 1** (C08Table ∘ C06).  `Start()` accepts the game made at the hand-off.  The game has one player per
playable seat (`playableCount ≥ 2`); player `k` of the game is the player sitting on seat `seats[k]` — the `k`-th
playable seat clockwise from the dealer — with the bankroll the sheet shows for him as bankroll AND stack, nothing
wagered, and the positions the seat manager gives his seat; player 0 is the dealer (also as cached by the engine);
the hand waits for `ReadyForAll` with no round yet. -/
theorem table_game_starts {t t' : Table} {seats : List Nat} {m : Meta} (h : HandOff t t' seats m) :
    (start ⟨m, t'.gameSeats seats⟩).2 = none ∧
    (start ⟨m, t'.gameSeats seats⟩).1.players.length = t'.sm.playableCount ∧ 2 ≤ t'.sm.playableCount ∧
    (start ⟨m, t'.gameSeats seats⟩).1.event = .readyRequested ∧ (start ⟨m, t'.gameSeats seats⟩).1.round = .none ∧
    (start ⟨m, t'.gameSeats seats⟩).1.dealerIdx = 0 ∧ t'.sm.dealer = seats[0]? ∧
    ∀ (k s : Nat), seats[k]? = some s → ∃ p q, t'.players[s]? = some (some p) ∧
      (start ⟨m, t'.gameSeats seats⟩).1.players[k]? = some q ∧ q.idx = k ∧
      q.bankroll = p.bankroll ∧ q.stack = p.bankroll ∧ q.wager = 0 ∧ q.pot = 0 ∧
      (q.posDealer, q.posSB, q.posBB) = posOf t'.sm s := by
  obtain ⟨hacc, hdl, h2⟩ := table_accepted h
  obtain ⟨d, s, b, kb, hd, _, _, h0, _, _, _, _, _, _, _, _, _, hlen⟩ := h.layout
  have hs := hacc.started
  obtain ⟨hpre, hev, hrd⟩ := pre_start _ hs
  have hfr := hpre.frames
  have hl : (start ⟨m, t'.gameSeats seats⟩).1.players.length = seats.length := by
    have := congrArg List.length hfr
    simp only [List.length_map] at this
    rw [this, config_players_length]; exact gameSeats_length _ _
  have hne : t'.gameSeats seats ≠ [] := by
    intro he
    have := gameSeats_length t' seats
    rw [he] at this; simp at this; omega
  have hdi := dealerIdx_run_zero m _ h.opts hs hne hdl []
  refine ⟨hs, by rw [hl, hlen], by rw [← hlen]; exact h2, hev, hrd, hdi, by rw [hd, h0], ?_⟩
  intro k s hk
  obtain ⟨_, p, hp, _, hcfg⟩ := h.entry hk
  have hkl : k < (start ⟨m, t'.gameSeats seats⟩).1.players.length := by
    rw [hl]; exact (List.getElem?_eq_some_iff.mp hk).1
  have hkc : k < (⟨m, t'.gameSeats seats⟩ : Config).players.length := by
    have := congrArg List.length hfr
    simp only [List.length_map] at this
    omega
  have hq := List.getElem?_eq_getElem hkl
  have hp0 := List.getElem?_eq_getElem hkc
  have hfk : ((start ⟨m, t'.gameSeats seats⟩).1.players[k]).frame = ((⟨m, t'.gameSeats seats⟩ : Config).players[k]).frame := by
    have := congrArg (fun l => l[k]?) hfr
    simp only [List.getElem?_map, hq, hp0, Option.map_some, Option.some.injEq] at this
    exact this
  obtain ⟨s0, hs0, c1, c2, c3, c4, c5⟩ := config_seat _ k _ hp0
  obtain ⟨_, d2, d3, d4, d5, _⟩ := config_players_getElem _ k _ hp0
  rw [show (⟨m, t'.gameSeats seats⟩ : Config).seats = t'.gameSeats seats from rfl, hcfg] at hs0
  cases hs0
  simp only [Player.frame, Player.chips, Prod.mk.injEq] at hfk
  obtain ⟨⟨f1, f2, f3, f4⟩, f5, f6, f7, f8, f9⟩ := hfk
  refine ⟨p, _, hp, hq, by rw [f1, c1], by rw [f5, c5], by rw [f7, d2, c5], by rw [f9, d4], by rw [f8, d5], ?_⟩
  rw [f2, f3, f4, c2, c3, c4]

/-! ## Link 2: the forced bets, by seat of the seat manager -/

/-- the blind the engine takes from a player (`blindOf`, C13) is the blind his SEAT owes -/
theorem blindOf_eq_owedAt {sm : SM} {m : Meta} (wf : OptsOK m) {d s' b s : Nat} (hd : sm.dealer = some d)
    (hs : sm.sb = some s') (hb : sm.bb = some b) (hdb : d ≠ b) (hsb : s' ≠ b) {q : Player}
    (hq : (q.posDealer, q.posSB, q.posBB) = posOf sm s) : blindOf m q = owedAt sm m s := by
  simp only [posOf, Prod.mk.injEq] at hq
  obtain ⟨q1, q2, q3⟩ := hq
  have := wf.bb0; have := wf.sb0; have := wf.bd0
  unfold Game.blindOf owedAt
  rw [q1, q2, q3, hd, hs, hb]
  simp only [Option.some.injEq, ne_eq, Bool.and_eq_true, decide_eq_true_eq]
  by_cases e1 : b = s
  · subst e1
    have : ¬ s' = b := hsb
    simp only [this, not_false_eq_true, and_true, if_true]
    have : ¬ d = b := hdb
    simp only [this, and_false, if_false]
    split <;> omega
  · simp only [e1, and_false, if_false]
    by_cases e2 : s' = s
    · simp only [e2, and_true, if_true]
      by_cases e3 : d = s
      · simp only [e3, and_true, if_true]
        split
        · rfl
        · split <;> omega
      · simp only [e3, and_false, if_false]
        split <;> omega
    · simp only [e2, and_false, if_false]
      by_cases e3 : d = s
      · simp only [e3, and_true, if_true]
        split <;> omega
      · simp [e3]

/-- **Link 2** (C08Table ∘ C13).  The configuration is in C13's domain (`C13.Accepted`, so `forced_path`,
`first_preflop_ready`, `cw_is_max_posted`, `prev_is_bb`, … apply as stated there); the forced path `ReadyForAll`,
`PayAnte` iff ante > 0, `PayBlinds` iff some blind > 0 ends in the state `afterForcedBets`, which waits for `ReadyForAll`
in the preflop round.  In that state, for EVERY playable seat `s = seats[k]` with table player `p`, the game player `k`:
* still has the table bankroll, and has paid the ante `min ante bankroll` into the pot;
* has posted exactly `min (bankroll − ante paid) (owedAt s)`, `owedAt` being the blind of the SEAT: the big blind for
  the seat manager's big-blind seat, the small blind for its small-blind seat (heads-up that is the dealer's seat, which
  then posts the small blind, or the dealer blind when there is no small blind), the dealer blind for the dealer's seat
  of a ring, nothing for any other seat — so each blind is capped by that player's TABLE bankroll and nobody else posted;
* holds the rest as stack. -/
theorem table_forced_bets_by_seat {t t' : Table} {seats : List Nat} {m : Meta} (h : HandOff t t' seats m) :
    C13.Accepted ⟨m, t'.gameSeats seats⟩ ∧
    ((afterForcedBets ⟨m, t'.gameSeats seats⟩).event = .readyRequested ∧
      (afterForcedBets ⟨m, t'.gameSeats seats⟩).round = .preflop ∧
      afterForcedBets ⟨m, t'.gameSeats seats⟩ = (start ⟨m, t'.gameSeats seats⟩).1.run (forcedOps m) ∧
      Reachable (afterForcedBets ⟨m, t'.gameSeats seats⟩) ∧
      (afterForcedBets ⟨m, t'.gameSeats seats⟩).n = t'.sm.playableCount) ∧
    (∀ (k s : Nat), seats[k]? = some s → ∃ p q, t'.players[s]? = some (some p) ∧
      (afterForcedBets ⟨m, t'.gameSeats seats⟩).players[k]? = some q ∧ q.idx = k ∧ q.bankroll = p.bankroll ∧
      (q.posDealer, q.posSB, q.posBB) = posOf t'.sm s ∧
      q.pot = min m.ante p.bankroll ∧
      q.wager = min (p.bankroll - q.pot) (owedAt t'.sm m s) ∧
      q.stack = p.bankroll - q.pot - q.wager ∧
      (owedAt t'.sm m s = 0 → q.wager = 0)) ∧
    (∃ d s b, t'.sm.dealer = some d ∧ t'.sm.sb = some s ∧ t'.sm.bb = some b ∧ d ∈ seats ∧ s ∈ seats ∧ b ∈ seats ∧
      owedAt t'.sm m b = m.blindBB ∧
      (s ≠ d → owedAt t'.sm m s = m.blindSB ∧ owedAt t'.sm m d = m.blindDealer) ∧
      (s = d → owedAt t'.sm m d = if m.blindSB > 0 then m.blindSB else m.blindDealer) ∧
      ∀ x, x ≠ d → x ≠ s → x ≠ b → owedAt t'.sm m x = 0) := by
  obtain ⟨hacc, _, _⟩ := table_accepted h
  obtain ⟨d, s, b, kb, hd, hsb, hbb, h0, hkb, hbr, hdb, hsb', _, _, _, _, _, hlen⟩ := h.layout
  obtain ⟨_, _, _, _, ⟨hev, hrd⟩, hrun, hreach⟩ := C13.forced_path hacc
  have hn : (afterForcedBets ⟨m, t'.gameSeats seats⟩).n = seats.length := by
    rw [afterForcedBets_n _ hacc.started]; exact gameSeats_length _ _
  refine ⟨hacc, ⟨hev, hrd, hrun, hreach, by rw [hn, hlen]⟩, ?_, ?_⟩
  · intro k x hk
    obtain ⟨_, p, hp, _, hcfg⟩ := h.entry hk
    have hkl : k < (afterForcedBets ⟨m, t'.gameSeats seats⟩).players.length := by
      have := hn; unfold Game.n at this; rw [this]; exact (List.getElem?_eq_some_iff.mp hk).1
    have hq := List.getElem?_eq_getElem hkl
    obtain ⟨s0, hs0, c1, c2, c3, c4, c5, c6, c7, c8, _⟩ := forced_seat _ hacc.wf hacc.started hq
    rw [show (⟨m, t'.gameSeats seats⟩ : Config).seats = t'.gameSeats seats from rfl, hcfg] at hs0
    cases hs0
    have hpos : ((afterForcedBets ⟨m, t'.gameSeats seats⟩).players[k].posDealer,
        (afterForcedBets ⟨m, t'.gameSeats seats⟩).players[k].posSB,
        (afterForcedBets ⟨m, t'.gameSeats seats⟩).players[k].posBB) = posOf t'.sm x := by
      rw [c2, c3, c4]
    have hbl := blindOf_eq_owedAt h.opts hd hsb hbb hdb hsb' hpos
    simp only at c6 c7 c8 hbl
    rw [hbl] at c7
    refine ⟨p, _, hp, hq, c1, c5, hpos, c6, c7, c8, ?_⟩
    intro h0'
    exact C13.nobody_else_posted hacc (List.getElem_mem hkl) (by rw [hbl]; exact h0')
  · have hsm : s ∈ seats := by
      rcases hbr with ⟨_, rfl, _⟩ | ⟨_, h1, _⟩
      · exact List.mem_of_getElem? h0
      · exact List.mem_of_getElem? h1
    refine ⟨d, s, b, hd, hsb, hbb, List.mem_of_getElem? h0, hsm, List.mem_of_getElem? hkb, ?_, ?_, ?_, ?_⟩
    · unfold owedAt; rw [hbb, if_pos rfl]
    · intro hne
      have e1 : ¬ b = s := fun e => hsb' e.symm
      have e2 : ¬ b = d := fun e => hdb e.symm
      have e3 : ¬ d = s := fun e => hne e.symm
      constructor
      · unfold owedAt; rw [hbb, hsb, hd]; simp [e1, e3]
      · unfold owedAt; rw [hbb, hsb, hd]; simp [e2, hne]
    · intro he
      subst he
      have e2 : ¬ b = s := fun e => hdb e.symm
      unfold owedAt; rw [hbb, hsb, hd]; simp [e2]
    · intro x h1 h2 h3
      have e1 : ¬ b = x := fun e => h3 e.symm
      have e2 : ¬ s = x := fun e => h2 e.symm
      have e3 : ¬ d = x := fun e => h1 e.symm
      unfold owedAt; rw [hbb, hsb, hd]; simp [e1, e2, e3]

/-! ## Link 3: who acts first -/

/-- **Link 3, general form** (C08Table ∘ C13 ∘ C04 `first_preflop`).  When the `ReadyForAll` after the forced bets opens
the first betting round (`hopen`: C04's own hypothesis — it fails only when nobody is left who could act, e.g. everybody
is all-in from the blinds; then the round is closed at once and nobody is asked), the player asked first is the game
player `cwNext n kb` sitting on the FIRST PLAYABLE SEAT CLOCKWISE AFTER THE SEAT MANAGER'S BIG-BLIND SEAT `b` (`kb` is the
game index of that seat: 1 when the small blind is the dealer, else 2; C04's walk `seekBB` from the dealer — game
index 0 — stops there).  A seat that is all-in from the blinds is still asked (C04: "merely asked to pass").  The state
is reachable, so `C04.one_actor` says that this player and nobody else is offered actions. -/
theorem table_first_to_act {t t' : Table} {seats : List Nat} {m : Meta} (h : HandOff t t' seats m)
    (hopen : ((afterForcedBets ⟨m, t'.gameSeats seats⟩).step .ready).1.event = .roundStarted) :
    ∃ b kb x, t'.sm.bb = some b ∧ seats[kb]? = some b ∧
      (kb = if t'.sm.sb = t'.sm.dealer then 1 else 2) ∧
      ((afterForcedBets ⟨m, t'.gameSeats seats⟩).step .ready).1.cur = cwNext seats.length kb ∧
      seats[((afterForcedBets ⟨m, t'.gameSeats seats⟩).step .ready).1.cur]? = some x ∧
      IsNextAfter t'.sm b x ∧
      Reachable ((afterForcedBets ⟨m, t'.gameSeats seats⟩).step .ready).1 := by
  obtain ⟨hacc, hdl, _⟩ := table_accepted h
  obtain ⟨_, ⟨hev, hrd, hrun, hreach, _⟩, hpl, _⟩ := table_forced_bets_by_seat h
  obtain ⟨d, s, b, kb, hd, hsb, hbb, h0, hkb, hbr, hdb, hsb', hnd, hdlt, hpd, _, hfil, hlen⟩ := h.layout
  have hn : (afterForcedBets ⟨m, t'.gameSeats seats⟩).n = seats.length := by
    rw [afterForcedBets_n _ hacc.started]; exact gameSeats_length _ _
  have hne : t'.gameSeats seats ≠ [] := by
    intro he
    have := gameSeats_length t' seats
    have hl := (List.getElem?_eq_some_iff.mp h0).1
    rw [he] at this; simp at this; omega
  have hdi : (afterForcedBets ⟨m, t'.gameSeats seats⟩).dealerIdx = 0 := by
    rw [hrun]; exact dealerIdx_run_zero m _ h.opts hacc.started hne hdl _
  have hkbl : kb < seats.length := (List.getElem?_eq_some_iff.mp hkb).1
  have hkb0 : 0 < kb := by rcases hbr with ⟨e, _⟩ | ⟨e, _⟩ <;> omega
  -- the big blind of the game sits at index `kb`, nobody before it carries the position
  have hposBB : ∀ (k x : Nat), seats[k]? = some x →
      ((afterForcedBets ⟨m, t'.gameSeats seats⟩).players[k]?).map (·.posBB) =
        some (decide (t'.sm.sb ≠ some x) && decide (t'.sm.bb = some x)) := by
    intro k x hk
    obtain ⟨p, q, _, hq, _, _, hpos, _⟩ := hpl k x hk
    simp only [posOf, Prod.mk.injEq] at hpos
    rw [hq, Option.map_some, hpos.2.2]
  have hit : cwIter (afterForcedBets ⟨m, t'.gameSeats seats⟩).n (kb - 1 + 1)
      (afterForcedBets ⟨m, t'.gameSeats seats⟩).dealerIdx = kb := by
    rw [hdi, hn, cwIter_zero _ _ _ (by omega)]; omega
  have hcur := C04.first_preflop hreach hev hrd (kb - 1) (by rw [hn]; omega)
    (by
      rw [hit, hposBB kb b hkb, hsb, hbb]
      have : ¬ s = b := hsb'
      simp [this])
    (by
      intro j' hj'
      rcases hbr with ⟨e, _⟩ | ⟨e, h1, _⟩
      · omega
      · have hj0 : j' = 0 := by omega
        subst hj0
        rw [hdi, hn, cwIter_zero _ _ _ (by omega), hposBB 1 s h1, hsb]
        simp)
    hopen
  rw [hit, hn] at hcur
  obtain ⟨x, hx, hnx⟩ := next_after_index hdlt hpd hfil h0 hkb0 hkb
  refine ⟨b, kb, x, hbb, hkb, ?_, hcur, by rw [hcur]; exact hx, hnx, hreach.step _⟩
  rcases hbr with ⟨e, e2, _⟩ | ⟨e, _, e2, _⟩
  · rw [hsb, hd, e2, if_pos rfl, e]
  · have : ¬ some s = some d := fun e' => e2 (Option.some.inj e')
    rw [hsb, hd, if_neg this, e]

/-- **Link 3, heads-up**: with exactly two playable seats the first to act before the flop is the game player 0 — the
player on the dealer's seat (who is the small blind). -/
theorem table_first_to_act_heads_up {t t' : Table} {seats : List Nat} {m : Meta} (h : HandOff t t' seats m)
    (h2 : t'.sm.playableCount = 2)
    (hopen : ((afterForcedBets ⟨m, t'.gameSeats seats⟩).step .ready).1.event = .roundStarted) :
    ((afterForcedBets ⟨m, t'.gameSeats seats⟩).step .ready).1.cur = 0 ∧ seats[0]? = t'.sm.dealer ∧
    t'.sm.sb = t'.sm.dealer := by
  obtain ⟨b, kb, x, _, hkb, hkbe, hcur, _, _, _⟩ := table_first_to_act h hopen
  obtain ⟨d, s, b', kb', hd, hsb, hbb, h0, hkb', hbr, _, _, _, _, _, _, _, hlen⟩ := h.layout
  rw [h2] at hlen
  have hkl := (List.getElem?_eq_some_iff.mp hkb).1
  have hk12 : kb = 1 ∨ kb = 2 := by
    rw [hkbe]; split
    · exact Or.inl rfl
    · exact Or.inr rfl
  have hk1 : kb = 1 := by omega
  have hsd : t'.sm.sb = t'.sm.dealer := by
    by_contra hne
    rw [if_neg hne] at hkbe; omega
  refine ⟨?_, by rw [h0, hd], hsd⟩
  rw [hcur, hk1, hlen]; rfl

/-- **Link 3, ring**: when the small blind `s` is the first playable seat after the dealer `d` (the hypothesis of
`C08T.hand_off_ring`; it holds iff `renewSeatStatus` took its ring branch), the first to act before the flop is the game
player 3 — the first playable seat clockwise after the big-blind seat — when at least four seats are playable, and
the game player 0, the dealer, when exactly three are. -/
theorem table_first_to_act_ring {t t' : Table} {seats : List Nat} {m : Meta} (h : HandOff t t' seats m)
    (d s : Nat) (hd : t'.sm.dealer = some d) (hs : t'.sm.sb = some s) (hna : IsNextAfter t'.sm d s)
    (hopen : ((afterForcedBets ⟨m, t'.gameSeats seats⟩).step .ready).1.event = .roundStarted) :
    3 ≤ t'.sm.playableCount ∧
    ((afterForcedBets ⟨m, t'.gameSeats seats⟩).step .ready).1.cur = (if t'.sm.playableCount = 3 then 0 else 3) ∧
    ∃ b x, t'.sm.bb = some b ∧ seats[0]? = some d ∧ seats[1]? = some s ∧ seats[2]? = some b ∧
      seats[((afterForcedBets ⟨m, t'.gameSeats seats⟩).step .ready).1.cur]? = some x ∧ IsNextAfter t'.sm b x ∧
      (t'.sm.playableCount = 3 → x = d) := by
  obtain ⟨b, kb, x, hbb, hkb, hkbe, hcur, hx, hnx, _⟩ := table_first_to_act h hopen
  obtain ⟨d', s', b', kb', hd', hsb', hbb', h0, hkb', hbr, _, _, _, hdlt, _, _, _, hlen⟩ := h.layout
  rw [hd] at hd'; rw [hs] at hsb'; rw [hbb] at hbb'
  cases hd'; cases hsb'; cases hbb'
  have hsd : s ≠ d := IsNextAfter.ne hna hdlt
  have hne : ¬ t'.sm.sb = t'.sm.dealer := by
    rw [hs, hd]; exact fun e => hsd (Option.some.inj e)
  rw [if_neg hne] at hkbe
  subst hkbe
  have h1 : seats[1]? = some s := by
    rcases hbr with ⟨_, e, _⟩ | ⟨_, h1, _⟩
    · exact absurd e hsd
    · exact h1
  have hkl := (List.getElem?_eq_some_iff.mp hkb).1
  refine ⟨by omega, ?_, b, x, hbb, h0, h1, hkb, hx, hnx, ?_⟩
  · rw [hcur, ← hlen]
    unfold cwNext
    by_cases h3 : seats.length = 3
    · rw [if_pos (by omega), if_pos h3]
    · rw [if_neg (by omega), if_neg h3]
  · intro h3
    rw [← hlen] at h3
    have : cwNext seats.length 2 = 0 := by unfold cwNext; rw [if_pos (by omega)]
    rw [hcur, this, h0] at hx
    exact (Option.some.inj hx).symm

/-! ## Link 4: from hand to hand -/

/-- solvency is kept by a hand whose closing stacks are not negative: a player who ends with chips has chips, a player
who ends with nothing is reserved, everybody else is as before -/
theorem solvent_after_hand (t : Table) (h : TReachable t) (hsol : Solvent t) (finals : List Int) (cfg : List SeatCfg)
    (hc : (t.step (.hand finals)).2.cfg = some cfg) (hok : Table.startRefusal cfg = none)
    (hl : finals.length = cfg.length) (hpos : ∀ f ∈ finals, 0 ≤ f) : Solvent (t.step (.hand finals)).1 := by
  obtain ⟨t1, seats, hset, hps, _, hA, hB, _⟩ := C08T.bankroll_writeback t h finals cfg hc hok hl
  obtain ⟨t1', seats', hset', hps', hbust⟩ := C08T.busted_sits_out t h finals cfg hc hok hl
  rw [hset] at hset'; cases hset'
  rw [hps] at hps'; cases hps'
  intro i p' hp'
  by_cases hi : i ∈ seats
  · obtain ⟨k, hk⟩ := List.getElem?_of_mem hi
    obtain ⟨p, f, _, hf, _, hm⟩ := hA k i hk
    rw [hp'] at hm
    have hf0 := hpos f (List.mem_of_getElem? hf)
    split at hm
    · cases hm
    · simp only [Option.map_some, Option.some.injEq, money, Prod.mk.injEq] at hm
      by_cases hz : f = 0
      · right
        subst hz
        exact (hbust k i hk hf).1
      · left; rw [hm.2]; omega
  · have hm := hB i hi
    rw [hp'] at hm
    cases hq : t.playerAt i with
    | none => rw [hq] at hm; cases hm
    | some q =>
      rw [hq] at hm
      simp only [Option.map_some, Option.some.injEq, money, Prod.mk.injEq] at hm
      rcases hsol i q hq with h1 | h1
      · left; rw [hm.2]; exact h1
      · right; exact prepareNextGame_held h.inv h1 finals

/-- **Link 4, one hand** (C08Table ∘ C01 ∘ links 1–3).  A reachable, solvent table creates a game with settings
`cfg`; the engine plays it — ANY history from `start ⟨m, cfg⟩` (any options with non-negative forced bets) that reaches
`GameClosed`; the closing stacks of its result are fed back.  Then the table reached
* is reachable again (hence satisfies `TInv`), holds exactly the chips it held before, and is solvent again;
* if `prepareNextGame` ended without error, its closing `setupPosition` is again a hand-off: there are `tc` and
  `seats2` with `HandOff tc t₂ seats2 m2` for every admissible `m2` — links 1, 2, 3 apply to the NEXT hand (which is
  made of exactly these settings when nothing happens at the table in between, `C08T.next_game_undisturbed`);
* if it ended with an error (no more games, or too few players left), the positions are not set up, and the
  `setupPosition` of the next `prepareNextGame`, when it succeeds, is a hand-off from `t₂` itself. -/
theorem table_hand_roundtrip (t : Table) (h : TReachable t) (hsol : Solvent t) (finals0 : List Int) (cfg : List SeatCfg)
    (hc : (t.step (.hand finals0)).2.cfg = some cfg)
    (m : Meta) (wf : OptsOK m) (hs : (start ⟨m, cfg⟩).2 = none) (ops : List Op) (r : Result)
    (he : ((start ⟨m, cfg⟩).1.run ops).event = .gameClosed) (hr : ((start ⟨m, cfg⟩).1.run ops).result = some r) :
    let finals := r.players.map (·.finalStack)
    TReachable (t.step (.hand finals)).1 ∧ TInv (t.step (.hand finals)).1 ∧
    (t.step (.hand finals)).1.sheetTotal = t.sheetTotal ∧ Solvent (t.step (.hand finals)).1 ∧
    ((t.step (.hand finals)).2.err = none →
      ∃ tc seats2, ∀ m2, OptsOK m2 → m2.deck ≠ [] → HandOff tc (t.step (.hand finals)).1 seats2 m2) ∧
    ((t.step (.hand finals)).2.err ≠ none → (t.step (.hand finals)).1.inPosition = false ∧
      ∀ t3 seats3 m3, (t.step (.hand finals)).1.setupPosition = (t3, none) → playableSeats t3.sm = some seats3 →
        OptsOK m3 → m3.deck ≠ [] → HandOff (t.step (.hand finals)).1 t3 seats3 m3) := by
  intro finals
  obtain ⟨hc', _, _, htot, hpos⟩ := C08T.table_hand_conserves t h finals0 cfg hc m wf hs ops r he hr
  obtain ⟨r', hr', hlen, _, _, _⟩ := C08T.engine_finals m cfg wf hs ops he
  rw [hr] at hr'; cases hr'
  have hdeck : m.deck ≠ [] := ((C06.start_iff ⟨m, cfg⟩).mp hs).2.2.2
  have hok : Table.startRefusal cfg = none := by
    rw [← Table.startRefusal_eq_start ⟨m, cfg⟩ hdeck]; exact hs
  have hre := h.step (.hand finals)
  have hsol2 := solvent_after_hand t h hsol finals cfg hc' hok hlen hpos
  refine ⟨hre, hre.inv, htot, hsol2, ?_, ?_⟩
  · intro herr
    obtain ⟨tc, htc, hfr, hsp, _⟩ := C08T.closing_setup t h finals cfg hc' herr
    obtain ⟨d, s, b, rest, ring, _, _, _, hseats, _⟩ := handoff_layout htc hfr hsp
    exact ⟨tc, _, fun m2 w2 d2 => ⟨htc, hfr, hsp, hseats, fun i p hp hpl => hsol2.bank hp hpl, w2, d2⟩⟩
  · intro herr
    have hin : (t.step (.hand finals)).1.inPosition = false := by
      obtain ⟨t1, seats, hcr, hcfg, hstep⟩ := hand_created h.inv hc'
      rw [hstep] at herr ⊢
      exact playHand_err_inPosition hok hlen herr
    refine ⟨hin, ?_⟩
    intro t3 seats3 m3 hsp hps w3 d3
    have hsol3 : Solvent t3 := by
      have := hsol2.setupPosition hre.inv
      rwa [hsp] at this
    exact ⟨hre.inv, hin, hsp, hps, fun i p hp hpl => hsol3.bank hp hpl, w3, d3⟩

/-- the closing stacks of a hand are what the engine reports: whenever this `prepareNextGame` creates a game that
`Start()` accepts, they are the final stacks of the result of SOME history of the engine model on that game (any
options with non-negative forced bets) that reaches `GameClosed` -/
def FairHand (t : Table) (finals : List Int) : Prop :=
  ∀ cfg, (t.step (.hand finals)).2.cfg = some cfg → Table.startRefusal cfg = none →
    ∃ (m : Meta) (ops : List Op) (r : Result), OptsOK m ∧ (start ⟨m, cfg⟩).2 = none ∧
      ((start ⟨m, cfg⟩).1.run ops).event = .gameClosed ∧ ((start ⟨m, cfg⟩).1.run ops).result = some r ∧
      finals = r.players.map (·.finalStack)

/-- every hand of the session is fed with what the engine reports; everything else is arbitrary -/
def FairSession : Table → List TOp → Prop
  | _, [] => True
  | t, op :: ops => (∀ finals, op = .hand finals → FairHand t finals) ∧ FairSession (t.step op).1 ops

/-- the chips brought to the table over a session: the bankrolls of the accepted joins minus the bankrolls of the
players who left (`chipsIn`, Proofs/TableGlueLinks.lean; a hand brings nothing) -/
def sessionChips : Table → List TOp → Int
  | _, [] => 0
  | t, op :: ops => chipsIn t op + sessionChips (t.step op).1 ops

/-- a fair hand — played or not — leaves the chips on the sheet as they were -/
theorem fair_hand_conserves (t : Table) (h : TReachable t) (finals : List Int) (hf : FairHand t finals) :
    (t.step (.hand finals)).1.sheetTotal = t.sheetTotal := by
  rcases prepareNextGame_unplayed h.inv finals with ⟨cfg, hc, hok, hl⟩ | hu
  · obtain ⟨m, ops, r, wf, hs, he, hr, hfin⟩ := hf cfg hc hok
    obtain ⟨r', hr', _, hsum, _, _⟩ := C08T.engine_finals m cfg wf hs ops he
    rw [hr] at hr'; cases hr'
    exact C08T.hand_conserves_chips t h finals cfg hc hok hl (by rw [hfin]; exact hsum)
  · exact hu

/-- **Link 4, sessions: chips are conserved at a table over any number of hands.**  From any reachable table, over ANY
sequence of operations — joins, leaves, sit-ins, sit-outs, hands, accepted or refused, in any order — in which every
hand is fed with the closing stacks the engine reports for it (`FairSession`), the chips on the sheet change exactly by
the bankrolls the accepted joins bring minus the bankrolls of the players who leave. -/
theorem table_session_conserves (t : Table) (h : TReachable t) (ops : List TOp) (hf : FairSession t ops) :
    (t.run ops).sheetTotal = t.sheetTotal + sessionChips t ops := by
  induction ops generalizing t with
  | nil => simp [Table.run, sessionChips]
  | cons op ops ih =>
    rw [Table.run_cons, ih _ (h.step op) hf.2]
    simp only [sessionChips]
    have : (t.step op).1.sheetTotal = t.sheetTotal + chipsIn t op := by
      cases op with
      | hand f =>
        rw [fair_hand_conserves t h f (hf.1 f rfl)]
        simp [chipsIn]
      | join seat pid b chose => exact step_sheetTotal h.inv _ (by intro f; simp)
      | leave seat => exact step_sheetTotal h.inv _ (by intro f; simp)
      | activate seat => exact step_sheetTotal h.inv _ (by intro f; simp)
      | reserve seat => exact step_sheetTotal h.inv _ (by intro f; simp)
      | setup => exact step_sheetTotal h.inv _ (by intro f; simp)
    omega

/-- without joins and leaves the chips on the sheet never change -/
theorem table_session_conserves_closed (t : Table) (h : TReachable t) (ops : List TOp) (hf : FairSession t ops)
    (hno : ∀ op ∈ ops, (∀ seat pid b c, op ≠ .join seat pid b c) ∧ ∀ seat, op ≠ .leave seat) :
    (t.run ops).sheetTotal = t.sheetTotal := by
  rw [table_session_conserves t h ops hf]
  have : ∀ (t : Table) (ops : List TOp),
      (∀ op ∈ ops, (∀ seat pid b c, op ≠ .join seat pid b c) ∧ ∀ seat, op ≠ .leave seat) → sessionChips t ops = 0 := by
    intro t ops
    induction ops generalizing t with
    | nil => intro _; rfl
    | cons op ops ih =>
      intro hno
      simp only [sessionChips]
      rw [ih _ (fun o ho => hno o (by simp [ho]))]
      have h1 := hno op (by simp)
      cases op with
      | join seat pid b c => exact absurd rfl (h1.1 seat pid b c)
      | leave seat => exact absurd rfl (h1.2 seat)
      | _ => simp [chipsIn]
  rw [this t ops hno]; omega

/-! ## Non-vacuity: `C08T.demo` handed to the engine -/

/-- all players on the sheet have chips -/
def allFunded (t : Table) : Bool := t.players.all fun o => match o with
  | some p => decide (0 < p.bankroll)
  | none => true

theorem funded_of_all {t : Table} (h : allFunded t = true) {i : Nat} {p : TPlayer} (hp : t.players[i]? = some (some p)) :
    0 < p.bankroll := by
  unfold allFunded at h
  rw [List.all_eq_true] at h
  have := h (some p) (List.mem_of_getElem? hp)
  simpa using this

theorem solvent_of_all {t : Table} (h : allFunded t = true) : Solvent t :=
  fun _ _ hp => Or.inl (funded_of_all h (playerAt_eq_some.mp hp))

/-- blinds 5 / 10, no ante -/
def demoMeta : Meta := Ex.opts 0 0 5 10

/-- the hypotheses of links 1–3 hold for `C08T.demo` (5 seats, players with 100, 200, 50 chips on seats 0, 2, 3) -/
theorem demo_handOff : HandOff C08T.demo C08T.demo.setupPosition.1 [0, 2, 3] demoMeta :=
  ⟨C08T.demo_reachable.inv, by decide, pair_of_snd (by decide), by decide,
   fun _ _ hp _ => funded_of_all (by decide) hp, Ex.optsOK _ _ _ _ (by decide), by decide⟩

/-- links 1, 2, 3 on `demo`, computed: three players with stacks 100, 200, 50; after the forced bets the player of seat 2
(the seat manager's small blind) has posted 5, the player of seat 3 (its big blind) 10; the betting round opens and the
player of seat 0 — the dealer, first playable seat after seat 3 — is asked first. -/
example : let c : Config := ⟨demoMeta, C08T.demo.setupPosition.1.gameSeats [0, 2, 3]⟩
    (C08T.demo.setupPosition.1.sm.dealer, C08T.demo.setupPosition.1.sm.sb, C08T.demo.setupPosition.1.sm.bb) =
      (some 0, some 2, some 3) ∧
    (start c).2 = none ∧ (start c).1.players.map (fun q => (q.idx, q.bankroll, q.stack)) = [(0, 100, 100), (1, 200, 200), (2, 50, 50)] ∧
    (afterForcedBets c).players.map (fun q => (q.pot, q.wager, q.stack)) = [(0, 0, 100), (0, 5, 195), (0, 10, 40)] ∧
    ((afterForcedBets c).step .ready).1.event = .roundStarted ∧ ((afterForcedBets c).step .ready).1.cur = 0 := by decide

/-- the hypotheses of `table_first_to_act_ring` hold for `demo`: seat 2 is the first playable seat after the dealer's
seat 0, and the betting round opens -/
example : 3 ≤ C08T.demo.setupPosition.1.sm.playableCount ∧
    ((afterForcedBets ⟨demoMeta, C08T.demo.setupPosition.1.gameSeats [0, 2, 3]⟩).step .ready).1.cur =
      (if C08T.demo.setupPosition.1.sm.playableCount = 3 then 0 else 3) :=
  let r := table_first_to_act_ring demo_handOff 0 2 (by decide) (by decide)
    ⟨2, by omega, by decide, by decide, by decide, fun j h1 h2 => by
      have : j = 1 := by omega
      subst this; decide⟩ (by decide)
  ⟨r.1, r.2.1⟩

example : owedAt C08T.demo.setupPosition.1.sm demoMeta 3 = 10 ∧ owedAt C08T.demo.setupPosition.1.sm demoMeta 2 = 5 ∧
    owedAt C08T.demo.setupPosition.1.sm demoMeta 0 = 0 := by decide

/-- heads-up: `C08T.demo2` (players on seats 3 and 1; dealer = small blind = seat 1, big blind = seat 3) -/
theorem demo2_handOff : HandOff C08T.demo2 C08T.demo2.setupPosition.1 [1, 3] demoMeta :=
  ⟨C08T.demo2_reachable.inv, by decide, pair_of_snd (by decide), by decide,
   fun _ _ hp _ => funded_of_all (by decide) hp, Ex.optsOK _ _ _ _ (by decide), by decide⟩

example : let c : Config := ⟨demoMeta, C08T.demo2.setupPosition.1.gameSeats [1, 3]⟩
    C08T.demo2.setupPosition.1.sm.playableCount = 2 ∧
    (afterForcedBets c).players.map (fun q => (q.pot, q.wager, q.stack)) = [(0, 5, 55), (0, 10, 90)] ∧
    ((afterForcedBets c).step .ready).1.event = .roundStarted ∧ ((afterForcedBets c).step .ready).1.cur = 0 := by decide

/-- link 4 on `C08T.sideTable` and the side-pot hand of C01 (`C01.sideCfg`, `C01.sideOps`): the hypotheses hold … -/
example : TReachable C08T.sideTable ∧ Solvent C08T.sideTable ∧
    (C08T.sideTable.step (.hand [])).2.cfg = some C01.sideCfg.seats ∧ OptsOK C01.sideCfg.opts ∧
    (start ⟨C01.sideCfg.opts, C01.sideCfg.seats⟩).2 = none ∧
    ((start ⟨C01.sideCfg.opts, C01.sideCfg.seats⟩).1.run C01.sideOps).event = .gameClosed :=
  ⟨⟨3, {}, _, rfl⟩, solvent_of_all (by decide), by decide, ⟨by decide, by decide, by decide, by decide⟩, by decide, by decide⟩

/-- … and a fair session: that hand, then a newcomer with 40 chips, then the player of seat 1 (21 chips) leaves:
157 + 40 − 21 = 176 chips on the sheet -/
def sideSession : List TOp := [.hand [50, 21, 86], .reserve 0, .join 1 9 40 none, .leave 1, .join 1 9 40 none]

theorem sideSession_fair : FairSession C08T.sideTable sideSession := by
  refine ⟨?_, ?_, ?_, ?_, ?_, trivial⟩
  case refine_2 => intro f hf; cases hf
  case refine_3 => intro f hf; cases hf
  case refine_4 => intro f hf; cases hf
  case refine_5 => intro f hf; cases hf
  intro f hf
  cases hf
  intro cfg hc _
  have hcfg : (C08T.sideTable.step (.hand [50, 21, 86])).2.cfg = some C01.sideCfg.seats := by decide
  rw [hcfg] at hc
  cases hc
  have hres : ∃ r, ((start ⟨C01.sideCfg.opts, C01.sideCfg.seats⟩).1.run C01.sideOps).result = some r ∧
      r.players.map (·.finalStack) = [50, 21, 86] := by
    cases hr : ((start ⟨C01.sideCfg.opts, C01.sideCfg.seats⟩).1.run C01.sideOps).result with
    | none =>
      have : ((start ⟨C01.sideCfg.opts, C01.sideCfg.seats⟩).1.run C01.sideOps).result.isSome = true := by decide
      rw [hr] at this; cases this
    | some r =>
      refine ⟨r, rfl, ?_⟩
      have : (((start ⟨C01.sideCfg.opts, C01.sideCfg.seats⟩).1.run C01.sideOps).result.map
          fun r => r.players.map (·.finalStack)) = some [50, 21, 86] := by decide
      rw [hr] at this
      exact Option.some.inj this
  obtain ⟨r, hr, hfin⟩ := hres
  exact ⟨C01.sideCfg.opts, C01.sideOps, r, ⟨by decide, by decide, by decide, by decide⟩, by decide, by decide, hr, hfin.symm⟩

example : (C08T.sideTable.run sideSession).sheetTotal = C08T.sideTable.sheetTotal + sessionChips C08T.sideTable sideSession :=
  table_session_conserves _ ⟨3, {}, _, rfl⟩ _ sideSession_fair

example : sessionChips C08T.sideTable sideSession = 40 - 21 ∧ C08T.sideTable.sheetTotal = 157 ∧
    (C08T.sideTable.run sideSession).sheetTotal = 176 := by decide

end Pokerface.LinksT

section Axioms
open Pokerface.LinksT
#print axioms table_accepted
#print axioms table_game_starts
#print axioms table_forced_bets_by_seat
#print axioms table_first_to_act
#print axioms table_first_to_act_heads_up
#print axioms table_first_to_act_ring
#print axioms solvent_after_hand
#print axioms table_hand_roundtrip
#print axioms fair_hand_conserves
#print axioms table_session_conserves
#print axioms table_session_conserves_closed
#print axioms demo_handOff
#print axioms sideSession_fair
end Axioms
