/-
  C17 — "The button moves to the next player who can play, never skipping or stalling".

  Statements about the model `Pokerface.SM` of `seat_manager/seat_manager.go`, for every reachable state
  (`SM.Reachable`: any table size, any history of join / sit-in / reserve / leave / next-hand operations).
  `playable i` = seat `i` is occupied, active and not reserved (what `getPlayableSeatCount` counts).
  `IsNextAfter sm d e` : `e = (d + k) % max` for some `1 ≤ k < max`, `e` is playable in `sm`, and none of the seats
  `(d + 1) % max, …, (d + k - 1) % max` is playable in `sm` — the first playable seat clockwise strictly after `d`.
  `IsFirstPlayable sm e` : `e` is playable and no lower-numbered seat is.
  `NoButtonAfterNext sm` (Proofs/SMGapsButton.lean) : `sm.nonEmptyCount = 0 ∨ (sm.dealer = none ∧ sm.nonEmptyCount = 1 ∧
  sm.playableCount = 1)` — the states in which a call of `Next()` leaves the seat manager without a dealer.
-/
import Pokerface.Proofs.SMRefuse
import Pokerface.Proofs.SMGapsButton

namespace Pokerface.C17
open SM

/-- **C17, first sentence.** If at least two seats are playable before `next`, then `next` succeeds and the new
dealer is, with respect to the *pre*-state, the first playable seat clockwise strictly after the old dealer
(`IsNextAfter sm d e`: so it is never the old dealer's seat again, never a seat behind a playable one — no player
who could play is skipped — and never further than one lap); when there is no previous dealer (`sm.dealer = none`)
it is the first playable seat scanning from seat 0 inclusive.
"No previous dealer" is *not* only "before the very first hand": `nextDealer` also resets the dealer to `none` in a
refused `Next()` that finds nobody to give the button to (e.g. after everybody has left), so the next successful
`Next()` after such a refusal starts from seat 0 again, whoever held the button before.  `dealer_none_iff` below
states exactly in which reachable states `dealer = none`; the second non-vacuity example below shows the reset. -/
theorem button_next (sm : SM) (h : Reachable sm) (hc : 2 ≤ sm.playableCount) :
    (sm.step .next).2.1 = none ∧
    ∃ e, (sm.step .next).1.dealer = some e ∧
      match sm.dealer with
      | some d => IsNextAfter sm d e
      | none => IsFirstPlayable sm e := by
  have hinv := h.inv
  obtain ⟨k, hk1, hk2, hp, hall, hf, hd, _⟩ := nextDealer_spec sm hc
  have hcm := (nextDealer_actUp sm).playableCount_le
  have hok : (sm.step .next).2.1 = none := by
    rcases step_next_cases hinv with ⟨_, hbad | hbad⟩ | ⟨_, _, sm', _, he⟩
    · rw [hf] at hbad; cases hbad
    · omega
    · rw [he]
  refine ⟨hok, ?_⟩
  obtain ⟨d', ks, kb, hn⟩ := next_ok hinv hok
  have hdd : d' = (sm.scanBase.1 + k) % sm.max := by
    have := hn.mid_dealer; rw [hd] at this; cases this; rfl
  refine ⟨d', hn.dealer, ?_⟩
  unfold scanBase at hk1 hp hall hdd
  cases hdl : sm.dealer with
  | none =>
    simp only [hdl, Nat.zero_add, Nat.mod_eq_of_lt hk2] at hk1 hp hall hdd ⊢
    subst hdd
    refine ⟨hp, ?_⟩
    intro j hj
    have := hall j (by omega) hj
    rwa [Nat.mod_eq_of_lt (by omega)] at this
  | some d =>
    simp only [hdl] at hk1 hp hall hdd ⊢
    subst hdd
    exact ⟨k, hk1, hk2, rfl, hp, hall⟩

/-- "It never stays put": the new dealer differs from the old one. -/
theorem button_moves (sm : SM) (h : Reachable sm) (hc : 2 ≤ sm.playableCount) (d : Nat) (hd : sm.dealer = some d) :
    (sm.step .next).1.dealer ≠ some d := by
  obtain ⟨_, e, he, hspec⟩ := button_next sm h hc
  rw [hd] at hspec
  rw [he]
  intro heq; cases heq
  exact (IsNextAfter.ne hspec (h.inv.dealer_lt d hd)) rfl

/-- Non-vacuity: 5 seats, players on 0, 2, 3 (all playable), dealer 0 after the first hand; the next `next`
moves the button to seat 2 (seat 1 is empty), then to 3, then back to 0. -/
example : let sm := (SM.new 5).run [.join 0 1 none, .seat 0, .join 2 2 none, .seat 2, .join 3 3 none, .seat 3, .next]
    sm.dealer = some 0 ∧ sm.playableCount = 3 ∧ (sm.step .next).1.dealer = some 2 ∧
    (sm.run [.next, .next]).dealer = some 3 ∧ (sm.run [.next, .next, .next]).dealer = some 0 := by decide
/-- Non-vacuity of the no-dealer clause: players on 1 and 3, first `next` puts the button on seat 1. -/
example : let sm := (SM.new 4).run [.join 3 1 none, .seat 3, .join 1 2 none, .seat 1]
    sm.dealer = none ∧ sm.playableCount = 2 ∧ (sm.step .next).1.dealer = some 1 := by decide

/-- **C17, second sentence.** "If, even after waiting players have been let in, fewer than two players can play,
the move is refused with the insufficient-players error."  Waiting players are the occupied, non-reserved seats
that are not active yet; once they are all let in, the players who can play are exactly the occupied non-reserved
seats (`nonEmptyCount`, Go: `getNonEmptySeatCount`).  So: fewer than two occupied non-reserved seats ⇒ `next`
returns `insufficientPlayers` (in particular it does not panic — defect D7 — and does not succeed). -/
theorem insufficient_refused (sm : SM) (h : Reachable sm) (hc : sm.nonEmptyCount < 2) :
    (sm.step .next).2.1 = some .insufficientPlayers := by
  have hinv := h.inv
  rcases step_next_cases hinv with ⟨he, _⟩ | ⟨_, hc2, _, _, _⟩
  · rw [he]
  · exfalso
    have h1 := playableCount_le_nonEmpty (nextDealer_inv hinv).wf
    have h2 := (nextDealer_actUp sm).samePlayers.nonEmptyCount
    omega

/-- `next` has only two outcomes, and when it succeeds at least two seats are playable in the new hand. -/
theorem next_outcome (sm : SM) (h : Reachable sm) :
    (sm.step .next).2.1 = some .insufficientPlayers ∨
    ((sm.step .next).2.1 = none ∧ 2 ≤ (sm.step .next).1.playableCount) := by
  have hinv := h.inv
  rcases step_next_cases hinv with ⟨he, _⟩ | ⟨_, _, sm', _, he⟩
  · left; rw [he]
  · right
    have hok : (sm.step .next).2.1 = none := by rw [he]
    obtain ⟨d, ks, kb, hn⟩ := next_ok hinv hok
    exact ⟨hok, hn.mid_count.trans (hn.count_le hinv)⟩

/-- The refusal rule is exact: `next` is refused **iff** fewer than two seats are occupied and not reserved; with two
or more it succeeds (all waiting players who are needed are let in).  This uses one more invariant of reachable
states: the dealer's seat is active (`SM.DealerActive`). -/
theorem next_refused_iff (sm : SM) (h : Reachable sm) :
    ((sm.step .next).2.1 = some .insufficientPlayers ↔ sm.nonEmptyCount < 2) ∧
    ((sm.step .next).2.1 = none ↔ 2 ≤ sm.nonEmptyCount) := by
  have h1 := insufficient_refused sm h
  have h2 := next_succeeds_of_nonEmpty h.inv h.dealerActive
  constructor
  · constructor
    · intro he
      by_contra hc
      rw [h2 (by omega)] at he; cases he
    · exact h1
  · constructor
    · intro he
      by_contra hc
      rw [h1 (by omega)] at he; cases he
    · exact h2

/-- Non-vacuity: the D7 history (one newcomer left alone: 1 occupied non-reserved seat) and an empty table. -/
example : ((SM.new 3).run [.join 0 1 none, .seat 0, .join 2 2 none, .seat 2, .next, .join 1 3 none, .seat 1,
    .leave 0, .leave 2]).nonEmptyCount = 1 := by decide
example : (SM.new 3).nonEmptyCount = 0 := by decide

/-! ## When is there no previous dealer? (review gap 3) -/

/-- **Exactly when `dealer = none`** in a reachable state, for every table size and history: either no `Next()` has
been called yet (fresh table, possibly with joins / sit-ins / reserves / leaves), or the *last* `Next()` of the
history was called in a state `NoButtonAfterNext`: no seat occupied-and-not-reserved at all (then `nextDealer`
resets the dealer to `none`), or no dealer yet and exactly one occupied non-reserved seat which is already
playable (then `nextDealer` touches nothing).  Operations other than `Next()` never change the dealer. -/
theorem dealer_none_iff (max : Nat) (ops : List SMOp) :
    ((SM.new max).run ops).dealer = none ↔
      SMOp.next ∉ ops ∨
      ∃ pre post, ops = pre ++ SMOp.next :: post ∧ SMOp.next ∉ post ∧
        NoButtonAfterNext ((SM.new max).run pre) := by
  have key : ∀ pre post, ops = pre ++ SMOp.next :: post → SMOp.next ∉ post →
      (((SM.new max).run ops).dealer = none ↔ NoButtonAfterNext ((SM.new max).run pre)) := by
    intro pre post he hp
    have hr : Reachable ((SM.new max).run pre) := ⟨max, pre, rfl⟩
    rw [he, run_split, run_dealer_of_no_next _ _ hp]
    exact step_next_dealer_none_iff hr.inv hr.dealerActive
  by_cases hm : SMOp.next ∈ ops
  · obtain ⟨pre, post, he, hp⟩ := split_last_next ops hm
    constructor
    · intro hd; right; exact ⟨pre, post, he, hp, (key pre post he hp).mp hd⟩
    · rintro (hno | ⟨pre', post', he', hp', hnb⟩)
      · exact absurd hm hno
      · exact (key pre' post' he' hp').mpr hnb
  · constructor
    · intro _; left; exact hm
    · intro _; rw [run_dealer_of_no_next _ _ hm]; rfl

/-- Consequence in the wording of the review: in a reachable state without a dealer, either the table is fresh (no
`Next()` so far) or the last `Next()` was refused with the insufficient-players error.  (The converse fails: a
refused `Next()` may also keep, or even move, the button — see the examples.) -/
theorem dealer_none_fresh_or_refused (max : Nat) (ops : List SMOp) (hd : ((SM.new max).run ops).dealer = none) :
    SMOp.next ∉ ops ∨
    ∃ pre post, ops = pre ++ SMOp.next :: post ∧ SMOp.next ∉ post ∧
      (((SM.new max).run pre).step .next).2.1 = some .insufficientPlayers := by
  rcases (dealer_none_iff max ops).mp hd with h | ⟨pre, post, he, hp, hnb⟩
  · exact Or.inl h
  · right
    refine ⟨pre, post, he, hp, insufficient_refused _ ⟨max, pre, rfl⟩ ?_⟩
    rcases hnb with h0 | ⟨_, h1, _⟩ <;> omega

/-- One step: after `Next()` (accepted or refused) from a reachable state there is no dealer iff the state was
`NoButtonAfterNext`; in particular after a successful `Next()` there always is one. -/
theorem next_dealer_none_iff (sm : SM) (h : Reachable sm) :
    (sm.step .next).1.dealer = none ↔ NoButtonAfterNext sm :=
  step_next_dealer_none_iff h.inv h.dealerActive

/-- Non-vacuity, the reset: a hand is played with the button on seat 2 (players on 2 and 3), everybody leaves, `Next()`
is refused and resets the dealer; two new players on seats 3 and 1 then get the button on seat 1 (first playable
seat from seat 0), not on seat 3 (first playable seat after the old button). -/
example : let ops : List SMOp := [.join 2 1 none, .seat 2, .join 3 2 none, .seat 3, .next, .leave 2, .leave 3, .next,
      .join 3 3 none, .seat 3, .join 1 4 none, .seat 1]
    ((SM.new 4).run (ops.take 5)).dealer = some 2 ∧ ((SM.new 4).run (ops.take 7)).dealer = some 2 ∧
    ((SM.new 4).run (ops.take 7)).nonEmptyCount = 0 ∧
    (((SM.new 4).run (ops.take 7)).step .next).2.1 = some .insufficientPlayers ∧
    ((SM.new 4).run ops).dealer = none ∧ ((SM.new 4).run ops).playableCount = 2 ∧
    (((SM.new 4).run ops).step .next).1.dealer = some 1 := by decide
/-- Non-vacuity, the other disjunct of `NoButtonAfterNext`: a lone seated player, no dealer yet; `Next()` is refused
and there is still no dealer. -/
example : let sm := (SM.new 3).run [.join 1 1 none, .seat 1]
    sm.dealer = none ∧ sm.nonEmptyCount = 1 ∧ sm.playableCount = 1 ∧ (sm.step .next).1.dealer = none := by decide
/-- A refused `Next()` does not always clear the button: with one player left it stays where it was; and a lone
*waiting* player (seat 1 was deactivated, then taken) even receives it although `Next()` is refused. -/
example : let sm := (SM.new 3).run [.join 0 1 none, .seat 0, .join 2 2 none, .seat 2, .next, .leave 2]
    (sm.step .next).2.1 = some .insufficientPlayers ∧ (sm.step .next).1.dealer = some 0 := by decide
example : let sm := (SM.new 3).run [.join 0 1 none, .seat 0, .join 2 2 none, .seat 2, .next, .join 1 3 none, .seat 1,
      .leave 0, .leave 2]
    sm.dealer = some 0 ∧ (sm.step .next).2.1 = some .insufficientPlayers ∧ (sm.step .next).1.dealer = some 1 := by decide

end Pokerface.C17
