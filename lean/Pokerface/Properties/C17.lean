/-
  C17 — "The button moves to the next player who can play, never skipping or stalling".

  Statements about the model `Pokerface.SM` of `seat_manager/seat_manager.go`, for every reachable state
  (`SM.Reachable`: any table size, any history of join / sit-in / reserve / leave / next-hand operations).
  `playable i` = seat `i` is occupied, active and not reserved (what `getPlayableSeatCount` counts).
  `IsNextAfter sm d e` : `e = (d + k) % max` for some `1 ≤ k < max`, `e` is playable in `sm`, and none of the seats
  `(d + 1) % max, …, (d + k - 1) % max` is playable in `sm` — the first playable seat clockwise strictly after `d`.
  `IsFirstPlayable sm e` : `e` is playable and no lower-numbered seat is.
-/
import Pokerface.Proofs.SMRefuse

namespace Pokerface.C17
open SM

/-- **C17, first sentence.** If at least two seats are playable before `next`, then `next` succeeds and the new
dealer is, with respect to the *pre*-state, the first playable seat clockwise strictly after the old dealer
(`IsNextAfter sm d e`: so it is never the old dealer's seat again, never a seat behind a playable one — no player
who could play is skipped — and never further than one lap); before the very first hand, when there is no dealer
yet, it is the first playable seat scanning from seat 0 inclusive. -/
theorem button_next (sm : SM) (h : Reachable sm) (hc : 2 ≤ sm.playableCount) :
    (sm.step .next).2.1 = none ∧
    ∃ e, (sm.step .next).1.dealer = some e ∧
      match sm.dealer with
      | some d => IsNextAfter sm d e
      | none => IsFirstPlayable sm e := by
  have hinv := h.inv
  obtain ⟨k, hk1, hk2, hp, hall, hf, hd, _⟩ := nextDealer_spec sm hc
  have hcm := (nextDealer_actUp sm).playableCount_le
  have hok : (sm.step .next).2.1 = none := by
    rcases step_next_cases hinv with ⟨_, hbad | hbad⟩ | ⟨_, _, sm', _, he⟩
    · rw [hf] at hbad; cases hbad
    · omega
    · rw [he]
  refine ⟨hok, ?_⟩
  obtain ⟨d', ks, kb, hn⟩ := next_ok hinv hok
  have hdd : d' = (sm.scanBase.1 + k) % sm.max := by
    have := hn.mid_dealer; rw [hd] at this; cases this; rfl
  refine ⟨d', hn.dealer, ?_⟩
  unfold scanBase at hk1 hp hall hdd
  cases hdl : sm.dealer with
  | none =>
    simp only [hdl, Nat.zero_add, Nat.mod_eq_of_lt hk2] at hk1 hp hall hdd ⊢
    subst hdd
    refine ⟨hp, ?_⟩
    intro j hj
    have := hall j (by omega) hj
    rwa [Nat.mod_eq_of_lt (by omega)] at this
  | some d =>
    simp only [hdl] at hk1 hp hall hdd ⊢
    subst hdd
    exact ⟨k, hk1, hk2, rfl, hp, hall⟩

/-- "It never stays put": the new dealer differs from the old one. -/
theorem button_moves (sm : SM) (h : Reachable sm) (hc : 2 ≤ sm.playableCount) (d : Nat) (hd : sm.dealer = some d) :
    (sm.step .next).1.dealer ≠ some d := by
  obtain ⟨_, e, he, hspec⟩ := button_next sm h hc
  rw [hd] at hspec
  rw [he]
  intro heq; cases heq
  exact (IsNextAfter.ne hspec (h.inv.dealer_lt d hd)) rfl

/-- Non-vacuity: 5 seats, players on 0, 2, 3 (all playable), dealer 0 after the first hand; the next `next`
moves the button to seat 2 (seat 1 is empty), then to 3, then back to 0. -/
example : let sm := (SM.new 5).run [.join 0 1 none, .seat 0, .join 2 2 none, .seat 2, .join 3 3 none, .seat 3, .next]
    sm.dealer = some 0 ∧ sm.playableCount = 3 ∧ (sm.step .next).1.dealer = some 2 ∧
    (sm.run [.next, .next]).dealer = some 3 ∧ (sm.run [.next, .next, .next]).dealer = some 0 := by decide
/-- Non-vacuity of the no-dealer clause: players on 1 and 3, first `next` puts the button on seat 1. -/
example : let sm := (SM.new 4).run [.join 3 1 none, .seat 3, .join 1 2 none, .seat 1]
    sm.dealer = none ∧ sm.playableCount = 2 ∧ (sm.step .next).1.dealer = some 1 := by decide

/-- **C17, second sentence.** "If, even after waiting players have been let in, fewer than two players can play,
the move is refused with the insufficient-players error."  Waiting players are the occupied, non-reserved seats
that are not active yet; once they are all let in, the players who can play are exactly the occupied non-reserved
seats (`nonEmptyCount`, Go: `getNonEmptySeatCount`).  So: fewer than two occupied non-reserved seats ⇒ `next`
returns `insufficientPlayers` (in particular it does not panic — defect D7 — and does not succeed). -/
theorem insufficient_refused (sm : SM) (h : Reachable sm) (hc : sm.nonEmptyCount < 2) :
    (sm.step .next).2.1 = some .insufficientPlayers := by
  have hinv := h.inv
  rcases step_next_cases hinv with ⟨he, _⟩ | ⟨_, hc2, _, _, _⟩
  · rw [he]
  · exfalso
    have h1 := playableCount_le_nonEmpty (nextDealer_inv hinv).wf
    have h2 := (nextDealer_actUp sm).samePlayers.nonEmptyCount
    omega

/-- `next` has only two outcomes, and when it succeeds at least two seats are playable in the new hand. -/
theorem next_outcome (sm : SM) (h : Reachable sm) :
    (sm.step .next).2.1 = some .insufficientPlayers ∨
    ((sm.step .next).2.1 = none ∧ 2 ≤ (sm.step .next).1.playableCount) := by
  have hinv := h.inv
  rcases step_next_cases hinv with ⟨he, _⟩ | ⟨_, _, sm', _, he⟩
  · left; rw [he]
  · right
    have hok : (sm.step .next).2.1 = none := by rw [he]
    obtain ⟨d, ks, kb, hn⟩ := next_ok hinv hok
    exact ⟨hok, hn.mid_count.trans (hn.count_le hinv)⟩

/-- The refusal rule is exact: `next` is refused **iff** fewer than two seats are occupied and not reserved; with two
or more it succeeds (all waiting players who are needed are let in).  This uses one more invariant of reachable
states: the dealer's seat is active (`SM.DealerActive`). -/
theorem next_refused_iff (sm : SM) (h : Reachable sm) :
    ((sm.step .next).2.1 = some .insufficientPlayers ↔ sm.nonEmptyCount < 2) ∧
    ((sm.step .next).2.1 = none ↔ 2 ≤ sm.nonEmptyCount) := by
  have h1 := insufficient_refused sm h
  have h2 := next_succeeds_of_nonEmpty h.inv h.dealerActive
  constructor
  · constructor
    · intro he
      by_contra hc
      rw [h2 (by omega)] at he; cases he
    · exact h1
  · constructor
    · intro he
      by_contra hc
      rw [h1 (by omega)] at he; cases he
    · exact h2

/-- Non-vacuity: the D7 history (one newcomer left alone: 1 occupied non-reserved seat) and an empty table. -/
example : ((SM.new 3).run [.join 0 1 none, .seat 0, .join 2 2 none, .seat 2, .next, .join 1 3 none, .seat 1,
    .leave 0, .leave 2]).nonEmptyCount = 1 := by decide
example : (SM.new 3).nonEmptyCount = 0 := by decide

end Pokerface.C17
