import Pokerface.Properties.Links
import Pokerface.Properties.C14
import Pokerface.Properties.C05
/-
  C10 "the reported hand is the player's best hand" — for EVERY non-empty board.

  `Links.reported_hand_is_poker_best(_shortDeck)` carry the hypothesis `3 ≤ board.length`.  The property speaks of
  "whenever community cards are on the board".  Here the hypothesis is `board ≠ []`: in a reachable state the board
  has 0, 3, 4 or 5 cards (`board_length_cases`, from `C14.counts`), so "not empty" and "at least three" are the same
  thing (`board_ne_nil_iff`), and a closed hand with two live players has five (`C05.full_board_at_showdown`).
-/
namespace Pokerface.C10B
open Pokerface Pokerface.Game Generated Pokerface.Links

/-- C14 "the board grows to exactly three, four and five cards", as a fact about EVERY state of EVERY hand of a poker
    configuration: the board has 0, 3, 4 or 5 cards — never 1 or 2 (and never more than 5). -/
theorem board_length_cases {T : List Cat} {cfg : Config} (hc : PokerConfig T cfg) (ops : List Op) :
    let g := (start cfg).1.run ops
    g.board.length = 0 ∨ g.board.length = 3 ∨ g.board.length = 4 ∨ g.board.length = 5 := by
  intro g
  have h := (C14.counts (hc.reachC ops)).2.1
  show ((start cfg).1.run ops).board.length = 0 ∨ _
  rw [h]
  cases ((start cfg).1.run ops).round <;> simp

/-- "community cards are on the board" is "the flop has been dealt": a non-empty board has at least three cards -/
theorem board_ne_nil_iff {T : List Cat} {cfg : Config} (hc : PokerConfig T cfg) (ops : List Op) :
    let g := (start cfg).1.run ops
    g.board ≠ [] ↔ 3 ≤ g.board.length := by
  intro g
  have h := board_length_cases hc ops
  constructor
  · intro hne
    have : g.board.length ≠ 0 := fun h0 => hne (List.length_eq_zero_iff.mp h0)
    rcases h with h | h | h | h
    · exact absurd h this
    all_goals (show 3 ≤ ((start cfg).1.run ops).board.length; omega)
  · intro h3 h0
    rw [h0] at h3; simp at h3

/-- … and the board is non-empty exactly from the flop round on -/
theorem board_ne_nil_iff_round {T : List Cat} {cfg : Config} (hc : PokerConfig T cfg) (ops : List Op) :
    let g := (start cfg).1.run ops
    g.board ≠ [] ↔ (g.round = .flop ∨ g.round = .turn ∨ g.round = .river) := by
  intro g
  have h := (C14.counts (hc.reachC ops)).2.1
  rw [ne_eq, ← List.length_eq_zero_iff]
  show ¬ ((start cfg).1.run ops).board.length = 0 ↔ _
  rw [h]
  show _ ↔ (((start cfg).1.run ops).round = .flop ∨ _)
  cases ((start cfg).1.run ops).round <;> simp

/-- **C10, "whenever community cards are on the board, the published hand is the best hand by the rules of poker"**
    (standard ranking table): `Links.reported_hand_is_poker_best` with `board ≠ []` in place of `3 ≤ board.length`.
    For every `PokerConfig` with the standard table and every history: whenever the board is not empty, every seat has
    a published combination whose cards are (up to order) an admissible selection of its hole cards and the board,
    and no admissible five-card selection beats it in the poker order. -/
theorem reported_hand_is_poker_best_any_board {cfg : Config} (hc : PokerConfig powerStandard cfg) (ops : List Op) :
    let g := (start cfg).1.run ops
    g.board ≠ [] →
    ∀ p ∈ g.players, ∃ c, p.comb = some c ∧
      (∃ sel, Admissible g.board p.hole cfg.opts.required sel ∧ c.cards.Perm sel) ∧
      ∀ s, Admissible g.board p.hole cfg.opts.required s → s.length = 5 →
        C03.Valid c.cards ∧ C03.Valid s ∧
        c.cat = some (C03.specCat (C03.ranks c.cards) (C03.sameSuit c.cards)) ∧
        ¬ C03.pokerKey powerStandard c.cards < C03.pokerKey powerStandard s := by
  intro g hne
  exact reported_hand_is_poker_best hc ops ((board_ne_nil_iff hc ops).mp hne)

/-- the same for the short-deck table (C03's exclusion of A-9-8-7-6 kept) -/
theorem reported_hand_is_poker_best_any_board_shortDeck {cfg : Config} (hc : PokerConfig powerShortDeck cfg)
    (ops : List Op) :
    let g := (start cfg).1.run ops
    g.board ≠ [] →
    ∀ p ∈ g.players, ∃ c, p.comb = some c ∧
      (∃ sel, Admissible g.board p.hole cfg.opts.required sel ∧ c.cards.Perm sel) ∧
      ∀ s, Admissible g.board p.hole cfg.opts.required s → s.length = 5 →
        C03.Valid c.cards ∧ C03.Valid s ∧
        c.cat = some (C03.specCat (C03.ranks c.cards) (C03.sameSuit c.cards)) ∧
        (C03.isA6789 c.cards = false → C03.isA6789 s = false →
          ¬ C03.pokerKey powerShortDeck c.cards < C03.pokerKey powerShortDeck s) := by
  intro g hne
  exact reported_hand_is_poker_best_shortDeck hc ops ((board_ne_nil_iff hc ops).mp hne)

/-- Under a five-card rule (hold'em, Omaha-like) the clause `s.length = 5` is no restriction on a non-empty board
    either (`Links.five_cards_from_flop`). -/
theorem five_cards_any_board {T : List Cat} {cfg : Config} (hc : PokerConfig T cfg) (h5 : FiveCardRule cfg.opts)
    (ops : List Op) :
    let g := (start cfg).1.run ops
    g.board ≠ [] → ∀ p ∈ g.players, ∀ s, Admissible g.board p.hole cfg.opts.required s → s.length = 5 :=
  fun hne => Links.five_cards_from_flop hc h5 ops ((board_ne_nil_iff hc ops).mp hne)

/-- C05 joined: at a showdown between live hands (closed, two or more not folded) the board is not empty, so the
    theorems above apply to every hand that is compared. -/
theorem board_ne_nil_at_showdown {T : List Cat} {cfg : Config} (hc : PokerConfig T cfg) (ops : List Op) :
    let g := (start cfg).1.run ops
    g.event = .gameClosed → 2 ≤ g.aliveCount → g.board ≠ [] := by
  intro g he h2 h0
  have := C05.full_board_at_showdown (hc.reachC ops).reachable (cinv_reachable (hc.reachC ops)).core.long he h2
  rw [h0] at this; simp at this

/-! ## Non-vacuity -/

section Examples
open Pokerface.Links.Examples

/-- the hand `Links.gEnd` (river, full board): hypothesis `board ≠ []` holds -/
example : gEnd.board ≠ [] := by rw [gEnd_facts.2.2.1]; decide

example : ∀ p ∈ gEnd.players, ∃ c, p.comb = some c ∧
    (∃ sel, Admissible gEnd.board p.hole 0 sel ∧ c.cards.Perm sel) ∧
    ∀ s, Admissible gEnd.board p.hole 0 s → s.length = 5 →
      C03.Valid c.cards ∧ C03.Valid s ∧ c.cat = some (C03.specCat (C03.ranks c.cards) (C03.sameSuit c.cards)) ∧
      ¬ C03.pokerKey powerStandard c.cards < C03.pokerKey powerStandard s :=
  reported_hand_is_poker_best_any_board exPC exOps (by show gEnd.board ≠ []; rw [gEnd_facts.2.2.1]; decide)

/-- short deck, on the flop (three cards) -/
example : ((start sdCfg).1.run sdToFlop).board ≠ [] := by rw [sdFlop_facts.1]; decide

/-- the case distinction is not vacuous: 0 before the flop, 3 on the flop, 5 on the river -/
example : ((start sdCfg).1.run (sdToFlop.take 3)).board.length = 0 ∧ ((start sdCfg).1.run sdToFlop).board.length = 3 ∧
    gEnd.board.length = 5 := by
  refine ⟨by decide +kernel, by rw [sdFlop_facts.1]; decide, by rw [gEnd_facts.2.2.1]; decide⟩

end Examples

end Pokerface.C10B

section Axioms
open Pokerface.C10B
#print axioms board_length_cases
#print axioms board_ne_nil_iff
#print axioms board_ne_nil_iff_round
#print axioms reported_hand_is_poker_best_any_board
#print axioms reported_hand_is_poker_best_any_board_shortDeck
#print axioms five_cards_any_board
#print axioms board_ne_nil_at_showdown
end Axioms
