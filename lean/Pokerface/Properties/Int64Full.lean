import Pokerface.Properties.Int64Exact
import Pokerface.Proofs.Int64Table
/-
  Int64Full — the part `Int64Exact` left open: the table fields `cw` (CurrentWager) and `prev`
  (PreviousRaiseSize) are bounded on every reachable state, hence `no_overflow` without side hypotheses.
-/
namespace Pokerface.I64
open Pokerface Game

/-- Item 1, table fields (C01 / C12): on every reachable state, for every `M` not below the chips in the hand
    (`total g`, the sum of the bankrolls), the big blind and the dealer blind: `0 ≤ cw ≤ M`, `0 ≤ prev ≤ M`.
    (`cw` is only ever set to a wager or a round-start stack; `prev` to a wager, a difference of those, or the blind.) -/
theorem table_fields_bounded : table_fields_bounded_full := by
  intro g h M hT hbb hbd
  have hi := inv_reachable h
  have hb := bd_reachable h hT hbb hbd
  exact ⟨hi.chips0.cw0, hb.cw, hi.chips0.prev0, hb.prev⟩

/-- the sharper form for the wager to match: it never exceeds the largest bankroll, whatever the blinds
    (a short stack posts what it has) — stated with `M` bounding the bankrolls and the two blinds as above,
    and instantiated at `max` below -/
theorem table_fields_le_max {g : Game} (h : Reachable g) :
    g.cw ≤ max (total g) (max g.opts.blindBB g.opts.blindDealer) ∧
    g.prev ≤ max (total g) (max g.opts.blindBB g.opts.blindDealer) := by
  have := table_fields_bounded h (M := max (total g) (max g.opts.blindBB g.opts.blindDealer))
    (by omega) (by omega) (by omega)
  exact ⟨this.2.1, this.2.2.2⟩

/-- Item 3 (C12 "every amount argument a caller can pass", trusted-base sentence "no int64 overflow"): on every
    reachable state with fewer than 2^62 chips in the hand and ante / blinds below 2^62, for every seat, every action
    and EVERY int64 amount `x`, every value player.go computes (`intermediates`) is an int64. -/
theorem no_overflow : no_overflow_full := no_overflow_of_table_fields table_fields_bounded

/-- Non-vacuity: the example state of `Int64Exact` meets all hypotheses; `prev` is the big blind there. -/
example : Reachable Ex.g1 ∧ total Ex.g1 < 2^62 ∧ Ex.g1.opts.blindBB < 2^62 ∧ Ex.g1.cw = 10 ∧ Ex.g1.prev = 10 ∧
    ∀ v ∈ intermediates Ex.g1 0 .raise (2^63 - 1), Fits v :=
  ⟨Ex.reach_g1, by decide, by decide, by decide, by decide,
   no_overflow Ex.reach_g1 (by decide) (by decide) (by decide) (by decide) (by decide) 0 .raise _ (by unfold Fits; omega)⟩

/-- the blind terms of the bound are needed for `prev`: big blind 10^6 configured, stacks of 1000 — after the blinds the
    recorded raise size is the configured big blind, above every bankroll and above the chips in the hand -/
example : let g := (start (Ex.cfg (Ex.opts 0 0 5 1000000) 1000 1000 1000)).1.run [.ready, .payBlinds]
    g.prev = 1000000 ∧ total g = 3000 ∧ g.cw = 1000 := by decide

end Pokerface.I64
