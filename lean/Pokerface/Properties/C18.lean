/-
  C18 — "A seat never holds two players and seat operations never crash"
  (sequential half; the racing-`Join` half is decided at run time by the stress test).

  All statements are about the model `Pokerface.SM` of `seat_manager/seat_manager.go`.
  `SM.Reachable sm` : `sm` is the state after running some operation list (any table size, any seat
  arguments, any recorded join-any choices) from `NewSeatManager(max)`.
  Spec-level notions used below (defined next to their lemmas in `Proofs/SM*.lean`):
  `SM.Free sm i` (seat `i` exists, is empty and not reserved), `SM.FreeActive` (… and active),
  `SM.setSeat sm i s` (replace exactly the record of seat `i`), `SM.joinsOK / SM.leavesOK sm ops`
  (number of successful joins / leaves when `ops` runs from `sm`), `SM.pidAt sm i` (player id at seat `i`),
  `SM.joinPids ops` (pids of the join operations of a history), `SM.NoDoubleBooking`,
  `SM.Disciplined sm ops` (Proofs/SMGapsBook.lean: every join of the history is issued for a player who, at that
  moment, sits nowhere; decidable).
-/
import Pokerface.Proofs.SMBook
import Pokerface.Proofs.SMGapsBook

namespace Pokerface.C18
open SM

/-- A concrete reachable 4-seat state used by the non-vacuity examples:
seats 0 and 1 are seated players, seat 2 has joined but not sat in, seat 3 is free; one hand was started. -/
def demo : SM :=
  (SM.new 4).run [.join 0 10 none, .seat 0, .join 1 11 none, .seat 1, .next, .join 2 12 none]

theorem demo_reachable : Reachable demo := ⟨4, _, rfl⟩

/-! ## No panic -/

/-- **C18, last sentence.** No sequence of seat operations makes the seat manager panic: in every reachable
state every operation (any seat argument, any recorded choice) returns something other than `panic`
(`panic` is the model's outcome for a Go slice-bounds / nil-dereference crash).

**Scope (alphabet).** "Seat operations" are the five exported mutators `Join, Seat, Reserve, Leave, Next`
(the constructors of `SMOp`); both the histories (`Reachable`) and the operation `op` range over exactly these.
The read-only accessors and the restore plumbing (`ApplyStates`, `SetDealer`, …) are not in the alphabet.
Observation outside the statement: the exported accessor `GetPlayableSeats()` dereferences `sm.dealer.ID`
(`getPlayableSeats`) and therefore panics with a nil dereference whenever no dealer is set — on a fresh seat
manager and after a refused `Next()` that reset the dealer (`C17.dealer_none_iff` says exactly when).  It is safe at
the property's observation point "after `Next()` returns nil": `C08.positions_playable` gives `dealer = some d`
there.  The accessor is not modelled. -/
theorem no_panic (sm : SM) (h : Reachable sm) (op : SMOp) : (sm.step op).2.1 ≠ some .panic :=
  step_no_panic h.inv op

/-- Same, over whole histories: no step of any run from a fresh seat manager panics.  Alphabet as for `no_panic`:
`ops` and `op` are built from the five mutators `Join, Seat, Reserve, Leave, Next` only (the accessor
`GetPlayableSeats()`, which panics while no dealer is set, is outside). -/
theorem no_panic_run (max : Nat) (ops : List SMOp) (op : SMOp) :
    (((SM.new max).run ops).step op).2.1 ≠ some .panic :=
  no_panic _ ⟨max, ops, rfl⟩ op

/-- Non-vacuity: the D7 history (3 seats: join/seat 0,2; next; join/seat 1; leave 0,2; next) is a reachable
situation in which `next` used to panic; on the repaired code it is refused. -/
example : (((SM.new 3).run [.join 0 1 none, .seat 0, .join 2 2 none, .seat 2, .next, .join 1 3 none, .seat 1,
    .leave 0, .leave 2]).step .next).2.1 = some .insufficientPlayers := by decide

/-- Non-vacuity: the D8 call `Leave(99)`. -/
example : ((SM.new 3).step (.leave 99)).2.1 = some .notFoundSeat := by decide

/-! ## join -/

/-- **"joining an … out-of-range seat is refused"**: seat argument outside `[-1, max)` gives `invalidSeat`
and changes nothing (holds in every state). -/
theorem join_out_of_range (sm : SM) (seat : Int) (pid : Nat) (c : Option Nat)
    (h : seat ≥ (sm.max : Int) ∨ seat < -1) :
    sm.step (.join seat pid c) = (sm, some .invalidSeat, none) := by
  rw [step_join_eq, if_pos h]

/-- **"joining an occupied … seat is refused"**: `notAvailable`, nothing changes, no seat id returned. -/
theorem join_occupied (sm : SM) (i : Nat) (s : Seat) (pid : Nat) (c : Option Nat)
    (hs : sm.seats[i]? = some s) (hocc : s.player.isSome = true) (hi : i < sm.max) :
    sm.step (.join (i : Int) pid c) = (sm, some .notAvailable, none) := by
  rw [step_join_eq, if_neg (by omega), if_pos (by omega)]
  simp only [Int.toNat_natCast]
  rcases joinAt_cases sm pid i with ⟨h, _⟩ | ⟨_, _, _, h⟩ | ⟨s', h1, h2, _⟩
  · rw [hs] at h; cases h
  · exact h
  · rw [hs] at h1; cases h1; simp [h2] at hocc

/-- **Joining a specific empty seat succeeds**: the call returns that seat id, the seat now holds the player
and is reserved (its `active` flag is untouched), every other seat and the positions are unchanged
(`setSeat` replaces exactly one list entry). -/
theorem join_empty (sm : SM) (h : Reachable sm) (i : Nat) (s : Seat) (pid : Nat) (c : Option Nat)
    (hs : sm.seats[i]? = some s) (hemp : s.player = none) :
    sm.step (.join (i : Int) pid c) =
      (sm.setSeat i { s with player := some pid, reserved := true }, none, some i) := by
  have hi : i < sm.max := by rw [← h.inv.wf]; exact (List.getElem?_eq_some_iff.mp hs).1
  rw [step_join_eq, if_neg (by omega), if_pos (by omega)]
  simp only [Int.toNat_natCast]
  rcases joinAt_cases sm pid i with ⟨h', _⟩ | ⟨s', h1, h2, _⟩ | ⟨s', h1, h2, h3⟩
  · rw [hs] at h'; cases h'
  · rw [hs] at h1; cases h1; simp [hemp] at h2
  · rw [hs] at h1; cases h1; exact h3

/-- **"… or reports that none is available (only when that is true)"**: join-any answers `noAvailableSeat`
exactly when no empty non-reserved seat exists, and then changes nothing. -/
theorem join_any_none_iff (sm : SM) (h : Reachable sm) (pid : Nat) (c : Option Nat) :
    ((sm.step (.join (-1) pid c)).2.1 = some .noAvailableSeat ↔ ∀ i, ¬ Free sm i) ∧
    ((∀ i, ¬ Free sm i) → sm.step (.join (-1) pid c) = (sm, some .noAvailableSeat, none)) := by
  have hw := h.inv.wf
  have hnp := no_pool_iff hw
  rw [step_join_eq, if_neg (by omega), if_neg (by omega)]
  by_cases hp : (sm.availableSeats.1.isEmpty && sm.availableSeats.2.isEmpty) = true
  · rw [if_pos hp]
    exact ⟨⟨fun _ => hnp.mp hp, fun _ => rfl⟩, fun _ => rfl⟩
  · rw [if_neg hp]
    have hno : ¬ ∀ i, ¬ Free sm i := fun h' => hp (hnp.mpr h')
    refine ⟨⟨fun he => ?_, fun h' => absurd h' hno⟩, fun h' => absurd h' hno⟩
    exfalso
    cases c with
    | none => simp at he
    | some c =>
      simp only at he
      split at he
      · rcases joinAt_cases sm pid c with ⟨_, h'⟩ | ⟨_, _, _, h'⟩ | ⟨_, _, _, h'⟩ <;> rw [h'] at he <;> simp at he
      · simp at he

/-- **"joining 'any seat' puts the player on some empty non-reserved seat"**, active ones preferred.
When a free seat exists, join-any either rejects the *recorded choice* (`badChoice`: the harness-supplied
choice is not a seat the Go code could have drawn; state unchanged) or seats the player on a seat `i` that
was empty and not reserved, and that was active unless no free active seat existed; exactly that seat
changes (occupied by `pid`, reserved), and `i` is returned. -/
theorem join_any_lands (sm : SM) (h : Reachable sm) (pid : Nat) (c : Option Nat) (hfree : ∃ i, Free sm i) :
    sm.step (.join (-1) pid c) = (sm, some .badChoice, none) ∨
    ∃ i s, sm.seats[i]? = some s ∧ s.player = none ∧ s.reserved = false ∧
      (s.active = true ∨ ∀ j, ¬ FreeActive sm j) ∧
      sm.step (.join (-1) pid c) = (sm.setSeat i { s with player := some pid, reserved := true }, none, some i) := by
  have hw := h.inv.wf
  have hp : ¬ (sm.availableSeats.1.isEmpty && sm.availableSeats.2.isEmpty) = true := by
    rw [no_pool_iff hw]; intro h'; obtain ⟨i, hi⟩ := hfree; exact h' i hi
  rw [step_join_eq, if_neg (by omega), if_neg (by omega), if_neg hp]
  cases c with
  | none => left; rfl
  | some c =>
    simp only
    split
    · next hc =>
      right
      have hmem := (mem_joinPool hw c).mp (by simpa using hc)
      obtain ⟨⟨s, hs, h1, h2⟩, h3⟩ := hmem
      refine ⟨c, s, hs, h1, h2, ?_, ?_⟩
      · rcases h3 with ⟨s', hs', _, _, ha⟩ | h3
        · rw [hs] at hs'; cases hs'; exact Or.inl ha
        · exact Or.inr h3
      · rcases joinAt_cases sm pid c with ⟨h', _⟩ | ⟨s', h1', h2', _⟩ | ⟨s', h1', h2', h3'⟩
        · rw [hs] at h'; cases h'
        · rw [hs] at h1'; cases h1'; simp [h1] at h2'
        · rw [hs] at h1'; cases h1'; exact h3'
    · left; rfl

/-- Every choice the specification allows is accepted: if `c` is free, and active unless no free active seat
exists, then join-any with recorded choice `c` succeeds on `c`.  (So `badChoice` is never forced, and the
model allows at least every seat the Go code can draw.) -/
theorem join_any_accepts (sm : SM) (h : Reachable sm) (pid c : Nat) (hc : Free sm c)
    (hact : FreeActive sm c ∨ ∀ j, ¬ FreeActive sm j) :
    (sm.step (.join (-1) pid (some c))).2 = (none, some c) := by
  have hw := h.inv.wf
  have hp : ¬ (sm.availableSeats.1.isEmpty && sm.availableSeats.2.isEmpty) = true := by
    rw [no_pool_iff hw]; intro h'; exact h' c hc
  have hmem : sm.joinPool.contains c = true := by
    simpa using (mem_joinPool hw c).mpr ⟨hc, hact⟩
  rw [step_join_eq, if_neg (by omega), if_neg (by omega), if_neg hp]
  simp only [hmem, if_true]
  obtain ⟨s, hs, h1, h2⟩ := hc
  rcases joinAt_cases sm pid c with ⟨h', _⟩ | ⟨s', h1', h2', _⟩ | ⟨s', h1', h2', h3'⟩
  · rw [hs] at h'; cases h'
  · rw [hs] at h1'; cases h1'; simp [h1] at h2'
  · rw [h3']

/-- Whenever a free seat exists there is an admissible choice. -/
theorem join_any_choice_exists (sm : SM) (hfree : ∃ i, Free sm i) :
    ∃ c, Free sm c ∧ (FreeActive sm c ∨ ∀ j, ¬ FreeActive sm j) := by
  by_cases ha : ∃ j, FreeActive sm j
  · obtain ⟨j, hj⟩ := ha; exact ⟨j, hj.free, Or.inl hj⟩
  · obtain ⟨i, hi⟩ := hfree
    exact ⟨i, hi, Or.inr (fun j hj => ha ⟨j, hj⟩)⟩

/-- **`join_spec`**: the five join clauses of C18 in one statement (each is one of the theorems above). -/
theorem join_spec (sm : SM) (h : Reachable sm) (pid : Nat) (c : Option Nat) :
    -- out of range: refused, nothing changes
    (∀ seat : Int, (seat ≥ (sm.max : Int) ∨ seat < -1) →
      sm.step (.join seat pid c) = (sm, some .invalidSeat, none)) ∧
    -- occupied: refused, nothing changes
    (∀ (i : Nat) (s : Seat), sm.seats[i]? = some s → s.player.isSome = true →
      sm.step (.join (i : Int) pid c) = (sm, some .notAvailable, none)) ∧
    -- specific empty seat: succeeds, exactly that seat changes
    (∀ (i : Nat) (s : Seat), sm.seats[i]? = some s → s.player = none →
      sm.step (.join (i : Int) pid c) = (sm.setSeat i { s with player := some pid, reserved := true }, none, some i)) ∧
    -- any seat: `noAvailableSeat` exactly when no free seat exists
    ((sm.step (.join (-1) pid c)).2.1 = some .noAvailableSeat ↔ ∀ i, ¬ Free sm i) ∧
    -- any seat, a free seat exists: lands on a free seat, active ones preferred (or the recorded choice is rejected)
    ((∃ i, Free sm i) →
      sm.step (.join (-1) pid c) = (sm, some .badChoice, none) ∨
      ∃ i s, sm.seats[i]? = some s ∧ s.player = none ∧ s.reserved = false ∧
        (s.active = true ∨ ∀ j, ¬ FreeActive sm j) ∧
        sm.step (.join (-1) pid c) = (sm.setSeat i { s with player := some pid, reserved := true }, none, some i)) := by
  refine ⟨fun seat hs => join_out_of_range sm seat pid c hs, ?_, fun i s hs he => join_empty sm h i s pid c hs he,
    (join_any_none_iff sm h pid c).1, join_any_lands sm h pid c⟩
  intro i s hs ho
  have hi : i < sm.max := by rw [← h.inv.wf]; exact (List.getElem?_eq_some_iff.mp hs).1
  exact join_occupied sm i s pid c hs ho hi

/-- Non-vacuity for the join theorems on `demo`: seat 0 is occupied, seat 3 is free and active, 7 is out of range. -/
example : demo.step (.join 0 99 none) = (demo, some .notAvailable, none) ∧
    (demo.step (.join 7 99 none)).2.1 = some .invalidSeat ∧
    (demo.step (.join 3 99 none)).2 = (none, some 3) ∧
    (demo.step (.join (-1) 99 (some 3))).2 = (none, some 3) ∧
    (demo.step (.join (-1) 99 (some 2))).2.1 = some .badChoice := by decide
example : FreeActive demo 3 := ⟨{}, by decide, rfl, rfl, rfl⟩
/-- … and a full table answers `noAvailableSeat`. -/
example : (((SM.new 2).run [.join 0 1 none, .join 1 2 none]).step (.join (-1) 3 (some 0))).2.1
    = some .noAvailableSeat := by decide

/-! ## held out until seated -/

/-- **"a player who has merely joined is held out of play until they sit in"**: after a successful join on seat
`i` the seat is reserved, hence not playable, and it stays not playable through every later operation
sequence that does not contain `Seat(i)` (including `next`, other joins, leaves, reserves …). -/
theorem joined_held_out (sm : SM) (h : Reachable sm) (seat : Int) (pid : Nat) (c : Option Nat) (i : Nat)
    (hok : (sm.step (.join seat pid c)).2 = (none, some i)) :
    (∃ s, (sm.step (.join seat pid c)).1.seats[i]? = some s ∧ s.reserved = true ∧ s.player = some pid) ∧
    ∀ ops : List SMOp, (∀ op ∈ ops, op ≠ .seat (i : Int)) →
      ((sm.step (.join seat pid c)).1.run ops).playable i = false := by
  rcases step_join_cases sm seat pid c with ⟨e, he⟩ | ⟨k, s, hs, hp, _, he⟩
  · rw [he] at hok; simp at hok
  · rw [he] at hok ⊢
    simp at hok; subst hok
    have hl := (List.getElem?_eq_some_iff.mp hs).1
    have hseat : (sm.setSeat k { s with reserved := true, player := some pid }).seats[k]? =
        some { s with reserved := true, player := some pid } := by
      rw [setSeat_seats]; simp [hl]
    refine ⟨⟨_, hseat, rfl, rfl⟩, ?_⟩
    intro ops hops
    have hinv : Inv (sm.setSeat k { s with reserved := true, player := some pid }) := by
      have := step_inv h.inv (.join seat pid c); rw [he] at this; exact this
    have hheld : Held (sm.setSeat k { s with reserved := true, player := some pid }) k := by
      intro s' hs'; rw [hseat] at hs'; cases hs'; left; rfl
    exact (run_held hinv hheld ops hops).not_playable

/-- The holding-out ends with `Seat(i)`: on an active seat, sitting in makes the newcomer playable. -/
theorem seated_playable (sm : SM) (i : Nat) (s : Seat) (hs : sm.seats[i]? = some s)
    (hact : s.active = true) (hocc : s.player.isSome = true) (hi : i < sm.max) :
    (sm.step (.seat (i : Int))).2.1 = none ∧ (sm.step (.seat (i : Int))).1.playable i = true := by
  rcases step_seat_cases sm (i : Int) with ⟨hr, _⟩ | ⟨k, hk, _, he⟩
  · omega
  · have : k = i := by omega
    subst this
    rw [he]
    refine ⟨rfl, ?_⟩
    simp [playable, modSeat_seats, hs, hact, hocc]

/-- Non-vacuity: in `demo` seat 2 has just joined; it survives a `next` unplayable and becomes playable by `Seat(2)`. -/
example : (demo.run [.next, .reserve 1, .next]).playable 2 = false ∧
    (demo.run [.seat 2]).playable 2 = true := by decide

/-! ## leave -/

/-- **"leaving frees exactly that seat"**, three cases:
unknown seat (outside `[0, max)`) → `notFoundSeat`, nothing changes;
empty seat → `emptySeat`, nothing changes;
occupied seat → success, that seat becomes empty and not reserved (its `active` flag is untouched) and every
other seat and the positions are unchanged. -/
theorem leave_frees (sm : SM) (h : Reachable sm) :
    (∀ id : Int, (id < 0 ∨ id ≥ (sm.max : Int)) → sm.step (.leave id) = (sm, some .notFoundSeat, none)) ∧
    (∀ (i : Nat) (s : Seat), sm.seats[i]? = some s → s.player = none →
      sm.step (.leave (i : Int)) = (sm, some .emptySeat, none)) ∧
    (∀ (i : Nat) (s : Seat), sm.seats[i]? = some s → s.player.isSome = true →
      sm.step (.leave (i : Int)) = (sm.setSeat i { s with player := none, reserved := false }, none, none)) := by
  have hw := h.inv.wf
  refine ⟨?_, ?_, ?_⟩
  · intro id hid
    unfold step; simp only; rw [if_pos hid]
  · intro i s hs hp
    have hi : i < sm.max := by rw [← hw]; exact (List.getElem?_eq_some_iff.mp hs).1
    unfold step; simp only
    rw [if_neg (by omega)]
    simp only [Int.toNat_natCast, hs, hp, Option.isNone_none, if_true]
  · intro i s hs hp
    rcases step_leave_cases sm (i : Int) with ⟨e, he⟩ | ⟨k, s', hk, hs', _, he⟩
    · exfalso
      have hi : i < sm.max := by rw [← hw]; exact (List.getElem?_eq_some_iff.mp hs).1
      revert he
      unfold step; simp only
      rw [if_neg (by omega)]
      simp only [Int.toNat_natCast, hs]
      cases hq : s.player with
      | none => simp [hq] at hp
      | some q => simp
    · have : k = i := by omega
      subst this
      rw [hs] at hs'; cases hs'; exact he

/-- Non-vacuity for `leave_frees` on `demo`. -/
example : (demo.step (.leave 9)).2.1 = some .notFoundSeat ∧ (demo.step (.leave 3)).2.1 = some .emptySeat ∧
    (demo.step (.leave 1)).2.1 = none ∧ (demo.step (.leave 1)).1.playerCount = 2 := by decide

/-! ## count -/

/-- **"the number of seated players always equals successful joins minus leaves"**, for every table size and
every operation list run from a fresh seat manager (`joinsOK`/`leavesOK` count the join/leave operations that
returned no error). Stated additively in `Nat`; the subtraction form follows. -/
theorem count_eq_joins_minus_leaves (max : Nat) (ops : List SMOp) :
    ((SM.new max).run ops).playerCount + leavesOK (SM.new max) ops = joinsOK (SM.new max) ops ∧
    ((SM.new max).run ops).playerCount = joinsOK (SM.new max) ops - leavesOK (SM.new max) ops := by
  have := run_playerCount (inv_new max) ops
  rw [playerCount_new] at this
  omega

/-- The same from any reachable state. -/
theorem count_eq_joins_minus_leaves_from (sm : SM) (h : Reachable sm) (ops : List SMOp) :
    (sm.run ops).playerCount + leavesOK sm ops = sm.playerCount + joinsOK sm ops :=
  run_playerCount h.inv ops

/-- Non-vacuity: a history with a refused join, a refused leave, two successful joins and one successful leave. -/
example : let ops : List SMOp := [.join 0 1 none, .join 0 2 none, .leave 3, .join (-1) 3 (some 2), .next, .leave 0]
    joinsOK (SM.new 4) ops = 2 ∧ leavesOK (SM.new 4) ops = 1 ∧ ((SM.new 4).run ops).playerCount = 1 := by decide

/-! ## no double booking -/

/-- **"A seat never holds two players and a player is never seated twice"**: a seat holds at most one player
by construction (`Seat.player : Option`, and a join on an occupied seat is refused — `join_occupied`);
and if the player ids used by the join operations of a history are pairwise distinct, then in the final state
no player id sits on two seats. All table sizes, all histories. -/
theorem no_double_booking (max : Nat) (ops : List SMOp) (hd : (joinPids ops).Nodup) :
    NoDoubleBooking ((SM.new max).run ops) :=
  run_noDoubleBooking (inv_new max) ops
    (by intro i j p hi; rw [pidAt_new] at hi; cases hi)
    (by intro i p hi; rw [pidAt_new] at hi; cases hi) hd

/-- Non-vacuity: distinct pids, with a leave and a re-join of the vacated seat. -/
example : (joinPids [.join 0 1 none, .join 1 2 none, .leave 0, .join 0 3 none, .next]).Nodup := by decide
/-- The distinctness hypothesis is needed: the seat manager does not compare player ids. -/
example : ¬ NoDoubleBooking ((SM.new 2).run [.join 0 7 none, .join 1 7 none]) := by
  intro h; have := h 0 1 7 (by decide) (by decide); cases this

/-! ## no double booking, without the "every join uses a new id" restriction (review gap 1) -/

/-- **"a player is never seated twice"**, for *disciplined* histories.  `Disciplined sm ops`
(`Proofs/SMGapsBook.lean`): every `join` operation of `ops` — accepted or refused, any seat argument — is issued
for a player id that sits on no seat *of the state in which that operation is carried out*
(`∀ i, pidAt i ≠ some pid`); all other operations are unrestricted.  This is the weakest reasonable discipline (the
seat manager does not compare player ids, see the counter-example after `no_double_booking`), and, unlike the
`(joinPids ops).Nodup` hypothesis of `no_double_booking`, it allows a player to retry after a refused join and to
leave and join again.  From any state satisfying the invariant (`Inv`, in particular any reachable state) in
which no player sits twice, a disciplined history ends in a state in which no player sits twice. -/
theorem no_double_booking_disciplined (sm : SM) (h : Inv sm) (hnd : NoDoubleBooking sm) (ops : List SMOp)
    (hd : Disciplined sm ops) : NoDoubleBooking (sm.run ops) :=
  run_noDoubleBooking_disciplined h hnd hd

/-- The same from the empty table, for every table size; and — since every prefix of a disciplined history is
disciplined — in *every intermediate state* of the history, not only the last. -/
theorem no_double_booking_disciplined_new (max : Nat) (ops : List SMOp) (hd : Disciplined (SM.new max) ops) :
    NoDoubleBooking ((SM.new max).run ops) ∧
    ∀ pre post, ops = pre ++ post → NoDoubleBooking ((SM.new max).run pre) := by
  have h0 : NoDoubleBooking (SM.new max) := by intro i j p hi; rw [pidAt_new] at hi; cases hi
  refine ⟨run_noDoubleBooking_disciplined (inv_new max) h0 hd, ?_⟩
  intro pre post he
  subst he
  exact run_noDoubleBooking_disciplined (inv_new max) h0 hd.prefix

/-- `no_double_booking` is the special case: pairwise distinct join ids make a history disciplined. -/
theorem disciplined_of_distinct_pids (max : Nat) (ops : List SMOp) (hd : (joinPids ops).Nodup) :
    Disciplined (SM.new max) ops :=
  disciplined_of_nodup (inv_new max) ops (by intro i p hi; rw [pidAt_new] at hi; cases hi) hd

/-- Non-vacuity: player 2 is refused on the occupied seat 0 and retries on seat 1; player 1 leaves seat 0 and joins
again on seat 2.  The history is disciplined although its join ids `[1, 2, 2, 1]` are not distinct (so
`no_double_booking` does not apply), and both the refusal and the re-join really happen. -/
example : let ops : List SMOp := [.join 0 1 none, .join 0 2 none, .join 1 2 none, .seat 0, .next, .leave 0,
      .join 2 1 none, .next]
    Disciplined (SM.new 3) ops ∧ ¬ (joinPids ops).Nodup ∧
    ((SM.new 3).run [.join 0 1 none]).step (.join 0 2 none) = ((SM.new 3).run [.join 0 1 none], some .notAvailable, none) ∧
    pidAt ((SM.new 3).run ops) 2 = some 1 ∧ pidAt ((SM.new 3).run ops) 1 = some 2 ∧
    pidAt ((SM.new 3).run ops) 0 = none := by decide
/-- The discipline is needed: the same player joining while seated is not disciplined (and is seated twice). -/
example : ¬ Disciplined (SM.new 2) [.join 0 7 none, .join 1 7 none] := by decide

end Pokerface.C18
