import Pokerface.Proofs.EngineResult
import Pokerface.Proofs.GapsAStatic
import Pokerface.Generated.Tables
/-
  C01 — Chips are conserved at every point of a hand.

  "At every point of a hand each player's bankroll equals the chips still behind plus the
  chips wagered in the current round plus the chips already moved to the pot, none of the
  three is ever negative, the round pot shown equals the wagers on the table, and whenever
  pots are published they add up to exactly what the players have put in.  When the hand
  closes the per-player changes sum to zero, every final stack equals the starting bankroll
  plus that player's change and is never negative, and nobody loses more than they put in."

  Statements about the model `Game.step` for every reachable state: every configuration
  `start` accepts with non-negative forced bets (any seats, bankrolls, blinds, antes, limit,
  deck, hole-card rule), every deck order, every sequence of operations — accepted or
  refused — with every `Int` amount.
-/
namespace Pokerface.C01
open Pokerface Game

/-- Sentence 1, per player: bankroll = stack + wager + pot, none negative, and the stack is the
    stack at the start of the round minus the round's wager. -/
theorem chip_inv {g : Game} (h : Reachable g) (p : Player) (hp : p ∈ g.players) :
    p.bankroll = p.stack + p.wager + p.pot ∧ 0 ≤ p.stack ∧ 0 ≤ p.wager ∧ 0 ≤ p.pot ∧
    p.stack = p.initial - p.wager :=
  let i := (inv_reachable h).chips0.pinv p hp
  ⟨i.split, i.stack0, i.wager0, i.pot0, i.rebase⟩

/-- Sentence 1: the round pot shown equals the wagers on the table. -/
theorem round_pot {g : Game} (h : Reachable g) : g.roundPot = (g.players.map (·.wager)).sum :=
  (inv_reachable h).chips0.rp

/-- The one-step form, with the amount universally quantified: whatever operation is applied
    to a reachable state — any action, any seat, any amount, accepted or refused — the chip
    invariant holds afterwards (this is what `Bet(-5)` broke before the repair, DESIGN §7 D1). -/
theorem chip_inv_step {g : Game} (h : Reachable g) (op : Op) (p : Player) (hp : p ∈ (g.step op).1.players) :
    p.bankroll = p.stack + p.wager + p.pot ∧ 0 ≤ p.stack ∧ 0 ≤ p.wager ∧ 0 ≤ p.pot ∧ p.stack ≤ p.bankroll := by
  have i := (inv_step g (inv_reachable h) op).chips0.pinv p hp
  exact ⟨i.split, i.stack0, i.wager0, i.pot0, by have := i.split; have := i.wager0; have := i.pot0; omega⟩

/-- Supporting facts of the same invariant: the wager to match and the minimum raise are never
    negative, and outside the ante collection no wager exceeds the wager to match. -/
theorem table_accounts {g : Game} (h : Reachable g) :
    0 ≤ g.cw ∧ 0 ≤ g.prev ∧ (g.event ≠ .anteRequested → ∀ p ∈ g.players, p.wager ≤ g.cw) :=
  let i := inv_reachable h
  ⟨i.chips0.cw0, i.chips0.prev0, i.wle⟩

/-- Non-vacuity: a reachable state in the middle of a hand with chips in all three accounts. -/
def exCfg : Config :=
  { opts := { ante := 2, blindDealer := 0, blindSB := 5, blindBB := 10, potLimit := false, holeCount := 2, required := 0,
              lvl := fun _ => 1, table := [], deck := (List.range 20).map fun k => { suit := 83, rank := k + 2 } },
    seats := [{ bankroll := 100, dealer := true, sb := false, bb := false },
              { bankroll := 7, dealer := false, sb := true, bb := false },
              { bankroll := 50, dealer := false, sb := false, bb := true }] }

def exOps : List Op := [.ready, .payAnte, .payBlinds, .ready, .act none .raise 30]

example : Reachable ((start exCfg).1.run exOps) :=
  ⟨exCfg, exOps, ⟨⟨by decide, by decide, by decide, by decide⟩⟩, by decide, rfl⟩

example : (((start exCfg).1.run exOps).players.map fun p => (p.stack, p.wager, p.pot)) = [(68, 30, 2), (0, 5, 2), (38, 10, 2)] := by
  decide

/-! ## Published pots -/

/-- Sentence 1, last clause ("whenever pots are published they add up to exactly what the
    players have put in").  `updatePots` publishes `g.pots` at `AntePaid`, at every
    `RoundClosed` and before settlement.  In every reachable state the pot totals add up to the
    chips in the per-player pot accounts (`potSum` = Σ `pot`), plus — at `RoundClosed`, the
    moment of publication, when the wagers of the round have not yet been swept — the wagers on
    the table (`wagerSum` = Σ `wager`); i.e. at each publication they equal everything put in,
    and in between (while a later round is played) they stay equal to the swept part. -/
theorem pots_total {g : Game} (h : Reachable g) :
    (g.pots.map (·.total)).sum = g.potSum + (if g.event = .roundClosed then g.wagerSum else 0) :=
  pots_total_of (inv_reachable h) (potsOK_reachable h)

/-- The same, spelled out for the two instants at which a driver reads the pots: at a closed
    round they hold every chip the players have put in so far (bankroll minus stack). -/
theorem pots_total_at_roundClosed {g : Game} (h : Reachable g) (he : g.event = .roundClosed) :
    (g.pots.map (·.total)).sum = (g.players.map fun p => p.bankroll - p.stack).sum := by
  rw [pots_total h, if_pos he]
  have hi := (inv_reachable h).chips0.pinv
  have : g.players.map (fun p => p.bankroll - p.stack) = g.players.map (fun p => p.pot + p.wager) :=
    List.map_congr_left (fun p hp => by have := (hi p hp).split; omega)
  rw [this, Game.potSum, Game.wagerSum]
  exact sum_map_add g.players (·.pot) (·.wager)

/-- Supporting fact (what makes C16 applicable to the engine): at `RoundClosed` and at
    `GameClosed` the published pots are exactly `potsOf` of the per-player totals
    `(idx, pot + wager, folded)` of the current players, and those entries are in C16's domain. -/
theorem pots_published {g : Game} (h : Reachable g) (he : g.event = .roundClosed ∨ g.event = .gameClosed) :
    g.pots = potsOf g.entries ∧ C16.Valid g.entries := by
  have hi := inv_reachable h
  refine ⟨?_, entries_valid hi.struct hi.chips0.pinv⟩
  rcases he with he | he
  · exact (potsOK_reachable h).closed he
  · exact (resultGood_reachable h he).fresh

/-! ## The closed hand -/

/-- Sentence 2 ("When the hand closes the per-player changes sum to zero, every final stack
    equals the starting bankroll plus that player's change and is never negative, and nobody
    loses more than they put in").  In every reachable state whose event is `GameClosed` there is
    a result; its `changed` column sums to zero; it lists exactly the seats, in seat order; and
    for seat `i` with player record `p`: `finalStack = bankroll + changed`, `0 ≤ finalStack`,
    and `changed ≥ −pot` where `p.pot` is everything the player put in (all wagers are zero at
    that point, see `closed_accounts`).  No assumption on the hand strengths is needed. -/
theorem closed_result {g : Game} (h : Reachable g) (he : g.event = .gameClosed) :
    ∃ r, g.result = some r ∧ (r.players.map (·.changed)).sum = 0 ∧ r.players.length = g.n ∧
      ∀ (i : Nat) (p : Player), g.players[i]? = some p → ∃ pr : PlayerResult, r.players[i]? = some pr ∧ pr.idx = i ∧
        pr.finalStack = p.bankroll + pr.changed ∧ 0 ≤ pr.finalStack ∧ -p.pot ≤ pr.changed := by
  have hi := inv_reachable h
  exact resultGood_spec hi.struct hi.chips0.pinv (resultGood_reachable h he)

/-- At `GameClosed` nothing is left on the table: every wager is zero, so a player's `pot`
    account is everything that player put in (`bankroll − stack`). -/
theorem closed_accounts {g : Game} (h : Reachable g) (he : g.event = .gameClosed) (p : Player) (hp : p ∈ g.players) :
    p.wager = 0 ∧ p.pot = p.bankroll - p.stack := by
  have hw := (resultGood_reachable h he).w0 p hp
  have := ((inv_reachable h).chips0.pinv p hp).split
  exact ⟨hw, by omega⟩

/-- Sentence 2 in the property's own words: when the hand is closed, (1) the changes sum to
    zero; for every seat (2) final stack = starting bankroll + change, (3) the final stack is
    not negative, (4) the loss is at most the chips put in (`bankroll − stack`). -/
theorem hand_closes_balanced {g : Game} (h : Reachable g) (he : g.event = .gameClosed) :
    ∃ r, g.result = some r ∧ (r.players.map (·.changed)).sum = 0 ∧
      ∀ (i : Nat) (p : Player) (pr : PlayerResult), g.players[i]? = some p → r.players[i]? = some pr →
        pr.finalStack = p.bankroll + pr.changed ∧ 0 ≤ pr.finalStack ∧ -(p.bankroll - p.stack) ≤ pr.changed := by
  obtain ⟨r, hr, hz, _, hall⟩ := closed_result h he
  refine ⟨r, hr, hz, ?_⟩
  intro i p pr hp hpr
  obtain ⟨pr', hpr', _, h1, h2, h3⟩ := hall i p hp
  rw [hpr] at hpr'; cases hpr'
  have := (closed_accounts h he p (List.mem_of_getElem? hp)).2
  exact ⟨h1, h2, by omega⟩

/-- The result of a closed hand is C02's showdown function applied to the engine's own players
    (seat, bankroll, chips put in, fold flag, published strength), so every theorem of C02 about
    `C02.settle` speaks about the engine's result (those that need positive strengths under that
    extra hypothesis). -/
theorem closed_result_is_settle {g : Game} (h : Reachable g) (he : g.event = .gameClosed) :
    g.result = some (C02.settle g.seats) :=
  (resultGood_reachable h he).settle

/-- Once closed, nothing changes any more (from C06): the statements above hold for the closed
    hand whatever is called afterwards. -/
theorem closed_is_final {g : Game} (h : Reachable g) (he : g.event = .gameClosed) (op : Op) : (g.step op).1 = g :=
  (closed_refuses g (inv_reachable h) he op).2

/-! ## Non-vacuity: a three-seat hand with two side pots played to `GameClosed` -/

/-- Standard power table; seat 1 (7 chips) is all-in by ante + small blind and holds aces, seat 2
    (50 chips) holds kings, seat 0 (100 chips) holds 7-2. -/
def sideCfg : Config :=
  { opts := { ante := 2, blindDealer := 0, blindSB := 5, blindBB := 10, potLimit := false, holeCount := 2, required := 0,
              lvl := Generated.combinationLevel, table := Generated.powerStandard,
              deck := [⟨67, 2⟩, ⟨68, 7⟩, ⟨83, 14⟩, ⟨72, 14⟩, ⟨83, 13⟩, ⟨72, 13⟩, ⟨67, 3⟩, ⟨68, 9⟩, ⟨67, 5⟩, ⟨72, 11⟩,
                       ⟨68, 3⟩, ⟨67, 12⟩, ⟨68, 4⟩, ⟨83, 8⟩, ⟨83, 2⟩] },
    seats := [{ bankroll := 100, dealer := true, sb := false, bb := false },
              { bankroll := 7, dealer := false, sb := true, bb := false },
              { bankroll := 50, dealer := false, sb := false, bb := true }] }

def sideOps : List Op :=
  [.ready, .payAnte, .payBlinds, .ready, .act none .allin 0, .act none .pass 0, .act none .allin 0,
   .next, .next, .next, .next]

def sideAt (k : Nat) : Game := (start sideCfg).1.run (sideOps.take k)

theorem sideReach (k : Nat) : Reachable (sideAt k) :=
  ⟨sideCfg, sideOps.take k, ⟨⟨by decide, by decide, by decide, by decide⟩⟩, by decide, rfl⟩

/-- pots published at `AntePaid` (one pot of 6 = three antes), still 6 = Σ pot while the preflop
    round is played with 113 chips of wagers on the table -/
example : ((sideAt 6).event, (sideAt 6).pots.map (fun p => (p.level, p.total)), (sideAt 6).potSum, (sideAt 6).wagerSum)
    = (.roundStarted, [(2, 6)], 6, 113) := by decide

/-- `RoundClosed` after the two all-ins: three pots 21 + 86 + 50 = 157 = 6 (pot accounts) + 151 (wagers) -/
example : ((sideAt 7).event, (sideAt 7).pots.map (fun p => (p.level, p.total)), (sideAt 7).potSum, (sideAt 7).wagerSum)
    = (.roundClosed, [(7, 21), (50, 86), (100, 50)], 6, 151) := by decide

/-- the flop closed at once (nobody can act): same pots, everything swept into the pot accounts -/
example : ((sideAt 8).event, (sideAt 8).round, ((sideAt 8).pots.map (·.total)).sum, (sideAt 8).potSum, (sideAt 8).wagerSum)
    = (.roundClosed, .flop, 157, 157, 0) := by decide

/-- `GameClosed`: seat 1 wins the main pot (+14), seat 2 the first side pot (+36), seat 0 gets the
    uncalled 50 back and loses 50; 14 + 36 − 50 = 0; final stacks 50, 21, 86 -/
example : ((sideAt 11).event, (sideAt 11).pots.map (fun p => (p.level, p.total)),
      (sideAt 11).result.map (fun r => r.players.map fun p => (p.idx, p.finalStack, p.changed)))
    = (.gameClosed, [(7, 21), (50, 86), (100, 50)], some [(0, 50, -50), (1, 21, 14), (2, 86, 36)]) := by decide

example : (sideAt 11).players.map (fun p => (p.bankroll, p.stack, p.wager, p.pot))
    = [(100, 0, 0, 100), (7, 0, 0, 7), (50, 0, 0, 50)] := by decide

/-- the hypotheses of `closed_result` / `pots_published` hold for that state -/
example : Reachable (sideAt 11) ∧ (sideAt 11).event = .gameClosed := ⟨sideReach 11, by decide⟩
example : Reachable (sideAt 7) ∧ (sideAt 7).event = .roundClosed := ⟨sideReach 7, by decide⟩

/-! ## The "starting bankroll" is the configured one -/

/-- Makes "starting bankroll" explicit (sentences 1 and 2 speak of "each player's bankroll" / "the
    starting bankroll"): in every state of every run — any operations, accepted or refused, any
    arguments — from a configuration `start` accepts, the table has the configured number of seats
    and the `bankroll` field of seat `i` is the bankroll configured for seat `i`; it never changes
    during the hand.  (`Static`, Proofs/EnginePay.lean: the same holds for the seat index and the
    three positions, `seat_is_configured`.) -/
theorem bankroll_is_configured (c : Config) (wf : WFConfig c) (hs : (start c).2 = none) (ops : List Op) :
    ((start c).1.run ops).players.length = c.seats.length ∧
    ∀ i : Nat, (((start c).1.run ops).players[i]?).map (·.bankroll) = (c.seats[i]?).map (·.bankroll) := by
  constructor
  · have h := congrArg List.length (static_of_config c wf hs ops)
    simp only [List.length_map] at h; rw [h]; exact players_length c
  · intro i
    have h := congrArg (Option.map (fun t : Nat × Bool × Bool × Bool × Int => t.2.2.2.2))
      (seat_static_of_config c wf hs ops i)
    simpa [Option.map_map, Function.comp_def, Player.static] using h

/-- the same for all static fields of a seat: index, dealer / small-blind / big-blind position, bankroll -/
theorem seat_is_configured (c : Config) (wf : WFConfig c) (hs : (start c).2 = none) (ops : List Op) (i : Nat)
    (p : Player) (hp : ((start c).1.run ops).players[i]? = some p) :
    ∃ s, c.seats[i]? = some s ∧ p.idx = i ∧ p.posDealer = s.dealer ∧ p.posSB = s.sb ∧ p.posBB = s.bb ∧
      p.bankroll = s.bankroll := by
  have h := seat_static_of_config c wf hs ops i
  rw [hp] at h
  cases hs' : c.seats[i]? with
  | none => rw [hs'] at h; cases h
  | some s =>
    rw [hs'] at h
    simp only [Option.map_some, Option.some.injEq, Player.static, Prod.mk.injEq] at h
    exact ⟨s, rfl, h.1, h.2.1, h.2.2.1, h.2.2.2.1, h.2.2.2.2⟩

/-- Sentence 1 with the configured bankroll: at every point of every hand, for every configured seat
    `i` with bankroll `b`, the player at seat `i` has `b = stack + wager + pot`, none of them negative. -/
theorem chip_inv_configured (c : Config) (wf : WFConfig c) (hs : (start c).2 = none) (ops : List Op) (i : Nat)
    (s : SeatCfg) (hseat : c.seats[i]? = some s) :
    ∃ p, ((start c).1.run ops).players[i]? = some p ∧
      s.bankroll = p.stack + p.wager + p.pot ∧ 0 ≤ p.stack ∧ 0 ≤ p.wager ∧ 0 ≤ p.pot := by
  obtain ⟨hlen, hb⟩ := bankroll_is_configured c wf hs ops
  have hi : i < ((start c).1.run ops).players.length := by
    rw [hlen]; exact (List.getElem?_eq_some_iff.mp hseat).1
  refine ⟨((start c).1.run ops).players[i], List.getElem?_eq_getElem hi, ?_⟩
  have hbi := hb i
  rw [List.getElem?_eq_getElem hi, hseat] at hbi
  simp only [Option.map_some, Option.some.injEq] at hbi
  obtain ⟨h1, h2, h3, h4, _⟩ := chip_inv ((⟨c, ops, wf, hs, rfl⟩ : Reachable ((start c).1.run ops))) _ (List.getElem_mem hi)
  exact ⟨by rw [← hbi]; exact h1, h2, h3, h4⟩

/-- Sentence 2 ("every final stack equals the starting bankroll plus that player's change and is never
    negative, and nobody loses more than they put in") restated with the CONFIGURED bankroll: when a run
    from configuration `c` ends in `GameClosed`, there is a result whose changes sum to zero, with one row
    per configured seat, in seat order; for the seat `i` configured with bankroll `b` the row says
    `finalStack = b + changed`, `0 ≤ finalStack`, and the loss is at most what that seat put in
    (`b − stack`, the stack being what the player record still holds), in particular at most `b`. -/
theorem closed_result_configured (c : Config) (wf : WFConfig c) (hs : (start c).2 = none) (ops : List Op)
    (he : ((start c).1.run ops).event = .gameClosed) :
    ∃ r, ((start c).1.run ops).result = some r ∧ (r.players.map (·.changed)).sum = 0 ∧
      r.players.length = c.seats.length ∧
      ∀ (i : Nat) (s : SeatCfg), c.seats[i]? = some s →
        ∃ (p : Player) (pr : PlayerResult), ((start c).1.run ops).players[i]? = some p ∧ r.players[i]? = some pr ∧
          pr.idx = i ∧ pr.finalStack = s.bankroll + pr.changed ∧ 0 ≤ pr.finalStack ∧
          -(s.bankroll - p.stack) ≤ pr.changed ∧ -s.bankroll ≤ pr.changed := by
  have hr := (⟨c, ops, wf, hs, rfl⟩ : Reachable ((start c).1.run ops))
  obtain ⟨r, hres, hz, hlen, hall⟩ := closed_result hr he
  obtain ⟨hn, hb⟩ := bankroll_is_configured c wf hs ops
  refine ⟨r, hres, hz, by rw [hlen, Game.n, hn], ?_⟩
  intro i s hseat
  have hi : i < ((start c).1.run ops).players.length := by
    rw [hn]; exact (List.getElem?_eq_some_iff.mp hseat).1
  have hp := List.getElem?_eq_getElem hi
  obtain ⟨pr, hpr, hidx, h1, h2, h3⟩ := hall i _ hp
  have hbi := hb i
  rw [hp, hseat] at hbi
  simp only [Option.map_some, Option.some.injEq] at hbi
  have hacc := closed_accounts hr he _ (List.getElem_mem hi)
  have hst := (chip_inv hr _ (List.getElem_mem hi)).2.1
  refine ⟨_, pr, hp, hpr, hidx, by rw [← hbi]; exact h1, h2, ?_, ?_⟩ <;> omega

/-- Non-vacuity: the side-pot hand above is such a run; the configured bankrolls 100, 7, 50 are the
    `bankroll` fields at every step, and the closing rows read 50 = 100 − 50, 21 = 7 + 14, 86 = 50 + 36. -/
example : WFConfig sideCfg ∧ (start sideCfg).2 = none ∧ ((start sideCfg).1.run sideOps).event = .gameClosed ∧
    (sideCfg.seats.map (·.bankroll)) = [100, 7, 50] ∧
    ((List.range 12).all fun k => (sideAt k).players.map (·.bankroll) == [100, 7, 50]) = true :=
  ⟨⟨⟨by decide, by decide, by decide, by decide⟩⟩, by decide, by decide, by decide, by decide⟩

end Pokerface.C01
