import Pokerface.Proofs.EngineReach
/-
  C01 — Chips are conserved at every point of a hand.

  "At every point of a hand each player's bankroll equals the chips still behind plus the
  chips wagered in the current round plus the chips already moved to the pot, none of the
  three is ever negative, the round pot shown equals the wagers on the table, and whenever
  pots are published they add up to exactly what the players have put in.  When the hand
  closes the per-player changes sum to zero, every final stack equals the starting bankroll
  plus that player's change and is never negative, and nobody loses more than they put in."

  Statements about the model `Game.step` for every reachable state: every configuration
  `start` accepts with non-negative forced bets (any seats, bankrolls, blinds, antes, limit,
  deck, hole-card rule), every deck order, every sequence of operations — accepted or
  refused — with every `Int` amount.
-/
namespace Pokerface.C01
open Pokerface Game

/-- Sentence 1, per player: bankroll = stack + wager + pot, none negative, and the stack is the
    stack at the start of the round minus the round's wager. -/
theorem chip_inv {g : Game} (h : Reachable g) (p : Player) (hp : p ∈ g.players) :
    p.bankroll = p.stack + p.wager + p.pot ∧ 0 ≤ p.stack ∧ 0 ≤ p.wager ∧ 0 ≤ p.pot ∧
    p.stack = p.initial - p.wager :=
  let i := (inv_reachable h).chips0.pinv p hp
  ⟨i.split, i.stack0, i.wager0, i.pot0, i.rebase⟩

/-- Sentence 1: the round pot shown equals the wagers on the table. -/
theorem round_pot {g : Game} (h : Reachable g) : g.roundPot = (g.players.map (·.wager)).sum :=
  (inv_reachable h).chips0.rp

/-- The one-step form, with the amount universally quantified: whatever operation is applied
    to a reachable state — any action, any seat, any amount, accepted or refused — the chip
    invariant holds afterwards (this is what `Bet(-5)` broke before the repair, DESIGN §7 D1). -/
theorem chip_inv_step {g : Game} (h : Reachable g) (op : Op) (p : Player) (hp : p ∈ (g.step op).1.players) :
    p.bankroll = p.stack + p.wager + p.pot ∧ 0 ≤ p.stack ∧ 0 ≤ p.wager ∧ 0 ≤ p.pot ∧ p.stack ≤ p.bankroll := by
  have i := (inv_step g (inv_reachable h) op).chips0.pinv p hp
  exact ⟨i.split, i.stack0, i.wager0, i.pot0, by have := i.split; have := i.wager0; have := i.pot0; omega⟩

/-- Supporting facts of the same invariant: the wager to match and the minimum raise are never
    negative, and outside the ante collection no wager exceeds the wager to match. -/
theorem table_accounts {g : Game} (h : Reachable g) :
    0 ≤ g.cw ∧ 0 ≤ g.prev ∧ (g.event ≠ .anteRequested → ∀ p ∈ g.players, p.wager ≤ g.cw) :=
  let i := inv_reachable h
  ⟨i.chips0.cw0, i.chips0.prev0, i.wle⟩

/-- Non-vacuity: a reachable state in the middle of a hand with chips in all three accounts. -/
def exCfg : Config :=
  { opts := { ante := 2, blindDealer := 0, blindSB := 5, blindBB := 10, potLimit := false, holeCount := 2, required := 0,
              lvl := fun _ => 1, table := [], deck := (List.range 20).map fun k => { suit := 83, rank := k + 2 } },
    seats := [{ bankroll := 100, dealer := true, sb := false, bb := false },
              { bankroll := 7, dealer := false, sb := true, bb := false },
              { bankroll := 50, dealer := false, sb := false, bb := true }] }

def exOps : List Op := [.ready, .payAnte, .payBlinds, .ready, .act none .raise 30]

example : Reachable ((start exCfg).1.run exOps) :=
  ⟨exCfg, exOps, ⟨⟨by decide, by decide, by decide, by decide⟩⟩, by decide, rfl⟩

example : (((start exCfg).1.run exOps).players.map fun p => (p.stack, p.wager, p.pot)) = [(68, 30, 2), (0, 5, 2), (38, 10, 2)] := by
  decide

end Pokerface.C01
