/-
  C20 with RE-ENTRIES (see Properties/C09Reentry.lean for the setting).

  The theorems of Properties/C20.lean that speak about reachable states are restated, with the same
  statements and the suffix `_re`, on the domains with re-entries of Proofs/RegReentry.lean and
  Proofs/RegReentry2.lean: `ReachableRe` where the original has `ReachableAny`
  (`break_returns_all_any_re`), `ReachableReFwd` where the original has `Reachable` (everything
  else: the convergence argument needs the forward-only status condition).  The regulator-level
  theorems of C20 (`stable_is_fixed`, `moves_are_directed`, `dispatch_is_directed`,
  `table_count_monotone`) hold for ANY regulator state and need no transfer; the definitions
  `Settled`, `settle_bound`, `small_bound`, `potential`, `askingSweeps` are those of C20.

  The scripts of the convergence theorems consist of elimination-free syncs only; on a sync
  `okReFwd`, `okRe`, `ok` and `okAny` are the same condition by definition, so `s.ok (.sync …)`
  and `s.allOk ops` are kept as they are in the originals (`allOkReFwd_of_allOk` /
  `allOk_of_allOkReFwd_quiet` convert).  What is new is the START state: any state of a history
  with re-entries.
-/
import Pokerface.Properties.C20Async
import Pokerface.Proofs.RegReentry2

namespace Pokerface.C20
open Pokerface Reg RSys

/-- **break_returns_all** on the WIDEST domain (`ReachableAny`, C09: any setting, status changes in
    any direction — if the competition is pending again, "queued" is all that happens to the
    released players until the restart).  Let a valid sync of an existing table `t` (members `≈ elim ++ stay`)
    from a reachable state break the table.  Then
    * the regulator tells the table to release exactly its whole remaining membership
      (`|stay|`) and gives it nobody; the released players are all of `stay`, nobody is kept;
    * afterwards table `t` exists neither in reality nor on the regulator's sheet;
    * every released player is, after the environment's `ReleasePlayers`, in the waiting queue or
      was handed to a table by a callback of this very step — and that table is another table. -/
theorem break_returns_all_any_re {s : RSys} (h : ReachableRe s) (t : Nat) (elim stay rel keep ch ms : List Nat)
    (hm : s.env.membersOf t = some ms) (hok : s.okAny (.sync t elim stay rel keep ch))
    (hb : s.broken t elim = true) :
    ((s.syncAnswer t elim).2.2.1 = stay.length ∧ (s.syncAnswer t elim).2.2.2 = [] ∧
      rel.Perm stay ∧ keep = []) ∧
    (t ∉ (s.step (.sync t elim stay rel keep ch)).env.members.map (·.1) ∧
      (s.step (.sync t elim stay rel keep ch)).r.findTable t = none) ∧
    (∀ p ∈ rel,
      (p ∈ (s.step (.sync t elim stay rel keep ch)).r.queue ∨
        p ∈ handed (s.step (.sync t elim stay rel keep ch)).r.calls) ∧
      (p ∈ (s.step (.sync t elim stay rel keep ch)).r.queue ∨
        ∃ e ∈ (s.step (.sync t elim stay rel keep ch)).env.members, e.1 ≠ t ∧ p ∈ e.2)) := by
  have hS := SInv0.of_reachableRe h
  obtain ⟨hS', hF⟩ := hS.step_full _ hok
  have hok' := hok
  simp only [okAny, ok, hm] at hok'
  rw [show s.syncAnswer t elim = ((s.syncAnswer t elim).1, (s.syncAnswer t elim).2.1,
    (s.syncAnswer t elim).2.2.1, (s.syncAnswer t elim).2.2.2) from rfl] at hok'
  simp only [] at hok'
  obtain ⟨hp1, hp2, hrl, hkeep, _⟩ := hok'
  obtain ⟨r1, relc, nw, t0, hans, hft, _, _, _, _, hq1, _, hbrk⟩ := hS.sync_known t elim stay ms hm hp1
  obtain ⟨hrelc, hnw⟩ := hbrk hb
  have hk := hkeep hb
  rw [hans] at hp2 hrl ⊢
  simp only [] at hp2 hrl ⊢
  subst hnw hk
  simp only [List.append_nil] at hp2
  -- the table is gone
  have hbase : s.baseMembers (.sync t elim stay rel [] ch) = s.env.members.filter (fun e => e.1 != t) := by
    simp only [baseMembers, hm, hb, if_true]
  have hgone : t ∉ (s.step (.sync t elim stay rel [] ch)).env.members.map (·.1) := by
    intro hin
    rw [hF.members, hbase] at hin
    rcases applyCalls_ids _ _ _ hin with h1 | ⟨ps, h1⟩
    · obtain ⟨e, he, het⟩ := List.mem_map.1 h1
      have := (List.mem_filter.1 he).2
      simp [het] at this
    · have h2 := hF.newids t ps h1
      obtain ⟨ht0, hid0⟩ := findTable_some hft
      have := hS.rinv.wf.idlt t0 ht0
      omega
  have hfind : (s.step (.sync t elim stay rel [] ch)).r.findTable t = none := by
    rw [← hS'.unknown_iff]
    unfold Env.membersOf
    rw [List.find?_eq_none.2]
    · rfl
    · intro e he hte
      exact hgone (List.mem_map.2 ⟨e, he, by simpa using hte⟩)
  refine ⟨⟨hrelc, rfl, hp2.symm, rfl⟩, ⟨hgone, hfind⟩, ?_⟩
  intro p hp
  have hho := hF.handout
  simp only [incoming, returned, hm, hans, List.nil_append] at hho
  have hmem : p ∈ handed (s.step (.sync t elim stay rel [] ch)).r.calls ++
      (s.step (.sync t elim stay rel [] ch)).r.queue := by
    rw [← hho]; exact List.mem_append_right _ hp
  rcases List.mem_append.1 hmem with h1 | h1
  · refine ⟨Or.inr h1, Or.inr ?_⟩
    have hperm := seatedOf_applyCalls (s.baseMembers (.sync t elim stay rel [] ch))
      (s.step (.sync t elim stay rel [] ch)).r.calls hF.base_nodup hF.valid
    rw [← hF.members] at hperm
    have : p ∈ seatedOf (s.step (.sync t elim stay rel [] ch)).env.members :=
      hperm.mem_iff.2 (List.mem_append_right _ h1)
    obtain ⟨e, he, hpe⟩ := mem_seatedOf.1 this
    exact ⟨e, he, fun het => hgone (List.mem_map.2 ⟨e, he, het⟩), hpe⟩
  · exact ⟨Or.inl h1, Or.inl h1⟩

/-- **break_returns_all**.  Let a valid sync of an existing table `t` (members `≈ elim ++ stay`)
    from a reachable state break the table.  Then
    * the regulator tells the table to release exactly its whole remaining membership
      (`|stay|`) and gives it nobody; the released players are all of `stay`, nobody is kept;
    * afterwards table `t` exists neither in reality nor on the regulator's sheet;
    * every released player is, after the environment's `ReleasePlayers`, in the waiting queue or
      was handed to a table by a callback of this very step — and that table is another table. -/
theorem break_returns_all_re {s : RSys} (h : ReachableReFwd s) (t : Nat) (elim stay rel keep ch ms : List Nat)
    (hm : s.env.membersOf t = some ms) (hok : s.ok (.sync t elim stay rel keep ch))
    (hb : s.broken t elim = true) :
    ((s.syncAnswer t elim).2.2.1 = stay.length ∧ (s.syncAnswer t elim).2.2.2 = [] ∧
      rel.Perm stay ∧ keep = []) ∧
    (t ∉ (s.step (.sync t elim stay rel keep ch)).env.members.map (·.1) ∧
      (s.step (.sync t elim stay rel keep ch)).r.findTable t = none) ∧
    (∀ p ∈ rel,
      (p ∈ (s.step (.sync t elim stay rel keep ch)).r.queue ∨
        p ∈ handed (s.step (.sync t elim stay rel keep ch)).r.calls) ∧
      (p ∈ (s.step (.sync t elim stay rel keep ch)).r.queue ∨
        ∃ e ∈ (s.step (.sync t elim stay rel keep ch)).env.members, e.1 ≠ t ∧ p ∈ e.2)) :=
  break_returns_all_any_re h.re t elim stay rel keep ch ms hm hok hb

/-- **stable_is_fixed** for reachable states: queue empty ∧ tableCount = requiredTables ∧ every
    table at or above `⌊wl⌋` ⇒ no table is asked to release, receive or break. -/
theorem stable_is_fixed_reachable_re {s : RSys} (h : ReachableReFwd s) (hq : s.r.queue = [])
    (hT : s.r.tableCount = s.r.requiredTables)
    (hfl : ∀ tb ∈ s.r.tables, s.r.playerCount / s.r.requiredTables ≤ tb.count)
    (t : Nat) (ms : List Nat) (hm : s.env.membersOf t = some ms) :
    s.syncAnswer t [] = (s.r.beginOp [], none, 0, []) ∧ s.broken t [] = false := by
  have hS := SInv.of_reachableReFwd h
  have hne : s.r.findTable t ≠ none := fun hn => by
    rw [(hS.unknown_iff t).2 hn] at hm; cases hm
  cases hf : s.r.findTable t with
  | none => exact absurd hf hne
  | some t0 =>
    have hpc : s.r.playerCount = sumCount s.r.tables := by
      have := hS.rinv.cnt; rw [hq] at this; simpa using this
    have heq := syncState_stable s.r t t0 hf hS.rinv.wf.tc hT hpc hfl
    have hans : s.syncAnswer t [] = (s.r.beginOp [], none, 0, []) := heq
    refine ⟨hans, ?_⟩
    simp only [broken, hans]
    have : (s.r.beginOp []).findTable t = some t0 := hf
    rw [this]; rfl

/-- the statement of **rebalancing_settles**: from every reachable state there is a bound `B`
    such that along EVERY valid sequence of elimination-free syncs — any order of tables, any
    choice of who is released, any dispatch choices — at most `B` syncs ask their table to
    release, receive or break.  A sweep that asks for something contains such a sync, so at most
    `B` sweeps do. -/
def rebalancing_settles_re : Prop :=
  ∀ s : RSys, ReachableReFwd s → ∃ B : Nat, ∀ ops : List EOp,
    (∀ op ∈ ops, quietOp op = true) → s.allOk ops → s.askCount ops ≤ B

/-- **rebalancing_settles**, with the explicit bound.  The proof is a termination argument: the
    lexicographic measure `( |T − R| , #deficit tables , B , A , S , Λ )` of
    `Proofs/RegMeasure.lean` strictly decreases at every sync that asks for something and never
    increases otherwise (`RSys.quiet_step`), and all its components are bounded by `W` on the
    states of such a run. -/
theorem rebalancing_settles_bound_re {s : RSys} (h : ReachableReFwd s) (ops : List EOp)
    (hq : ∀ op ∈ ops, quietOp op = true) (hok : s.allOk ops) : s.askCount ops ≤ settle_bound s := by
  have hS := SInv.of_reachableReFwd h
  have h0 : 0 ≤ s.r.tableCount := by rw [hS.rinv.wf.tc]; omega
  exact askCount_le s.r.max (Max.max s.r.tableCount s.r.requiredTables).toNat ops s hS rfl
    (by omega) (by omega) hq hok

theorem rebalancing_settles_holds_re : rebalancing_settles_re :=
  fun s h => ⟨settle_bound s, fun ops hq hok => rebalancing_settles_bound_re h ops hq hok⟩

/-- balanced states are settled (and by `stable_is_fixed` stay exactly as they are under every
    further sync) -/
theorem balanced_is_settled_re {s : RSys} (h : ReachableReFwd s) (hq : s.r.queue = [])
    (hT : s.r.tableCount = s.r.requiredTables)
    (hfl : ∀ tb ∈ s.r.tables, s.r.playerCount / s.r.requiredTables ≤ tb.count) : Settled s := by
  intro t ms hm
  obtain ⟨h1, h2⟩ := stable_is_fixed_reachable_re h hq hT hfl t ms hm
  rw [h1]
  exact ⟨rfl, rfl, h2⟩

/-- a settled state stays settled: an elimination-free sync asks nothing there and leaves a
    settled state (it can only refresh a `Required`, which no answer depends on) -/
theorem settled_persists_re {s : RSys} (h : ReachableReFwd s) (hs : Settled s) (op : EOp)
    (hq : quietOp op = true) (hok : s.ok op) : s.asks op = false ∧ Settled (s.step op) := by
  have hS := SInv.of_reachableReFwd h
  cases op with
  | add ps ch => simp [quietOp] at hq
  | status st ch => simp [quietOp] at hq
  | sync t elim stay rel keep ch =>
    have he : elim = [] := by simpa [quietOp] using hq
    subst he
    have hna := (settled_iff s).1 hs t stay rel keep ch
    refine ⟨hna, ?_⟩
    obtain ⟨hfr, hids⟩ := noask_frame hS t stay rel keep ch hok hna
    intro t' ms' hm'
    have hsome : (s.env.membersOf t').isSome = true := by
      rw [membersOf_isSome_iff, ← hids, ← membersOf_isSome_iff, hm']; rfl
    cases hm : s.env.membersOf t' with
    | none => rw [hm] at hsome; cases hsome
    | some ms =>
      obtain ⟨h1, h2, h3⟩ := hs t' ms hm
      have hfa := frame_answer hfr t'
      have e : answer0 s.r t' = (0, [], false) := by
        unfold answer0
        show ((s.syncAnswer t' []).2.2.1, (s.syncAnswer t' []).2.2.2, s.broken t' []) = _
        rw [h1, h2, h3]
      rw [e] at hfa
      have : ((s.step (.sync t [] stay rel keep ch)).syncAnswer t' []).2.2.1 = 0 ∧
          ((s.step (.sync t [] stay rel keep ch)).syncAnswer t' []).2.2.2 = [] ∧
          (s.step (.sync t [] stay rel keep ch)).broken t' [] = false := by
        have h4 := congrArg (·.1) hfa
        have h5 := congrArg (·.2.1) hfa
        have h6 := congrArg (·.2.2) hfa
        exact ⟨h4, h5, h6⟩
      exact this

/-- a whole sweep (every existing table is synced at least once) in which nobody is asked
    anything starts — and by `settled_persists` ends — in a settled state -/
theorem quiet_sweep_settled_re {s : RSys} (h : ReachableReFwd s) (ops : List EOp)
    (hq : ∀ op ∈ ops, quietOp op = true) (hok : s.allOk ops) (h0 : s.askCount ops = 0)
    (hcover : ∀ t ms, s.env.membersOf t = some ms → ∃ stay rel keep ch, EOp.sync t [] stay rel keep ch ∈ ops) :
    Settled s := by
  intro t ms hm
  have hsome : (s.env.membersOf t).isSome = true := by rw [hm]; rfl
  have := noask_script_answers ops s (SInv.of_reachableReFwd h) hq hok h0 t (hcover t ms hm) hsome
  have h4 := congrArg (·.1) this
  have h5 := congrArg (·.2.1) this
  have h6 := congrArg (·.2.2) this
  exact ⟨h4, h5, h6⟩

/-- **rebalancing reaches a settled state within `settle_bound + 1` sweeps**: take any valid
    sequence of more than `settle_bound s` elimination-free sweeps from a reachable state, each
    sweep syncing every table that exists when the sweep starts (in any order, possibly more
    than once, with any choices).  Then one of the sweeps starts in a state in which no table is
    asked to release, receive or break — and by `settled_persists` this remains so. -/
theorem rebalancing_reaches_settled_re {s : RSys} (h : ReachableReFwd s) (sweeps : List (List EOp))
    (hq : ∀ sw ∈ sweeps, ∀ op ∈ sw, quietOp op = true) (hok : s.allOk sweeps.flatten)
    (hcover : ∀ pre sw post, sweeps = pre ++ sw :: post → ∀ t ms,
      (s.run pre.flatten).env.membersOf t = some ms → ∃ stay rel keep ch, EOp.sync t [] stay rel keep ch ∈ sw)
    (hlen : settle_bound s < sweeps.length) :
    ∃ pre sw post, sweeps = pre ++ sw :: post ∧ Settled (s.run pre.flatten) := by
  have hqf : ∀ op ∈ sweeps.flatten, quietOp op = true := by
    intro op hop
    obtain ⟨sw, hsw, hin⟩ := List.mem_flatten.1 hop
    exact hq sw hsw op hin
  have hb := rebalancing_settles_bound_re h sweeps.flatten hqf hok
  -- some sweep asks nothing
  have hex : ∃ pre sw post, sweeps = pre ++ sw :: post ∧ (s.run pre.flatten).askCount sw = 0 := by
    apply Classical.byContradiction
    intro hno
    have := askCount_sweeps sweeps s (fun pre sw post he => by
      have : ¬ (s.run pre.flatten).askCount sw = 0 := fun h0 => hno ⟨pre, sw, post, he, h0⟩
      omega)
    omega
  obtain ⟨pre, sw, post, he, h0⟩ := hex
  refine ⟨pre, sw, post, he, ?_⟩
  have hokf : s.allOk (pre.flatten ++ (sw ++ post.flatten)) := by
    rw [he] at hok; simpa using hok
  have hok1 := (allOk_append s pre.flatten (sw ++ post.flatten)).1 hokf
  have hok2 := (allOk_append (s.run pre.flatten) sw post.flatten).1 hok1.2
  have hreach : ReachableReFwd (s.run pre.flatten) :=
    h.run pre.flatten (allOkReFwd_of_allOk _ _ (SInv.of_reachableReFwd h) hok1.1)
  exact quiet_sweep_settled_re hreach sw (fun op hop => hq sw (by rw [he]; simp) op hop) hok2.1 h0
    (hcover pre sw post he)

/-- the only fact about the settings the small bound uses: `max > 0` (demanded by `Reachable` of the
    initial settings; `min` is arbitrary) -/
theorem reachable_max_pos_re {s : RSys} (h : ReachableReFwd s) : 0 < s.r.max := (SInv.of_reachableReFwd h).rinv.wf.maxpos

theorem potential_le_small_bound_re {s : RSys} (h : ReachableReFwd s) : potential s ≤ small_bound s := by
  have hS := SInv.of_reachableReFwd h
  have hpc : 0 ≤ s.r.playerCount := by
    rw [hS.rinv.cnt]
    have := sumCount_nonneg s.r.tables (fun t ht => (hS.rinv.wf.bnd t ht).1)
    omega
  exact phi_le_smallBound s.r hS.rinv.wf (reachable_max_pos_re h) hpc

/-- **rebalancing_settles_small**, counted in syncs.  From every reachable state, along EVERY valid
    sequence of elimination-free syncs — any order of tables, any choice of who is released, any
    dispatch choices — at most `small_bound s` syncs ask their table to release, receive or break.
    The proof is a potential argument: `Reg.phi` never rises in such a sync (together with the
    `ReleasePlayers` it triggers) and drops by at least one when the sync asks for something
    (`RSys.quiet_step_phi`). -/
theorem rebalancing_settles_small_syncs_re {s : RSys} (h : ReachableReFwd s) (ops : List EOp)
    (hq : ∀ op ∈ ops, quietOp op = true) (hok : s.allOk ops) : s.askCount ops ≤ small_bound s :=
  Nat.le_trans (askCount_le_phi ops s (SInv.of_reachableReFwd h) (reachable_max_pos_re h) hq hok)
    (potential_le_small_bound_re h)

/-- **rebalancing_settles_small** (first sentence of C20, with a small bound in SWEEPS).  From every
    reachable state `s`, take any valid sequence of elimination-free sweeps (`sweeps`: each a list of
    syncs without eliminations — in particular each may be one sync of every open table, in any order,
    with any choice of released players and any dispatch choices; tables broken during a sweep simply
    drop out).  Then the number of sweeps in which at least one table is asked to release, receive or
    break is at most `small_bound s = 2·(e+1)·max + 5·T + 2·e + 2·(max+3)·u + 1`
    (`2·max + 5·T + 1` with exactly the tables needed): linear in the number of tables plus `max`,
    independent of the number of players.  No covering hypothesis is needed for the count: the bound
    holds for every way of cutting an elimination-free script into blocks.  A bound `T + C` is
    impossible, see `sweeps_exceed_tables`. -/
theorem rebalancing_settles_small_re {s : RSys} (h : ReachableReFwd s) (sweeps : List (List EOp))
    (hq : ∀ sw ∈ sweeps, ∀ op ∈ sw, quietOp op = true) (hok : s.allOk sweeps.flatten) :
    askingSweeps s sweeps ≤ small_bound s := by
  have hqf : ∀ op ∈ sweeps.flatten, quietOp op = true := by
    intro op hop
    obtain ⟨sw, hsw, hin⟩ := List.mem_flatten.1 hop
    exact hq sw hsw op hin
  exact Nat.le_trans (askingSweeps_le sweeps s) (rebalancing_settles_small_syncs_re h _ hqf hok)

/-- the usual case spelled out: when the state has exactly the tables it needs, at most
    `2·max + 5·tables + 1` sweeps ask for anything -/
theorem rebalancing_settles_small_balanced_re {s : RSys} (h : ReachableReFwd s) (hT : s.r.tableCount = s.r.requiredTables)
    (sweeps : List (List EOp)) (hq : ∀ sw ∈ sweeps, ∀ op ∈ sw, quietOp op = true)
    (hok : s.allOk sweeps.flatten) :
    askingSweeps s sweeps ≤ 2 * s.r.max + 5 * s.r.tables.length + 1 := by
  rw [← small_bound_balanced s hT]
  exact rebalancing_settles_small_re h sweeps hq hok

/-- the same with the state-dependent potential as bound (it is usually far smaller) -/
theorem rebalancing_settles_potential_re {s : RSys} (h : ReachableReFwd s) (sweeps : List (List EOp))
    (hq : ∀ sw ∈ sweeps, ∀ op ∈ sw, quietOp op = true) (hok : s.allOk sweeps.flatten) :
    askingSweeps s sweeps ≤ potential s := by
  have hqf : ∀ op ∈ sweeps.flatten, quietOp op = true := by
    intro op hop
    obtain ⟨sw, hsw, hin⟩ := List.mem_flatten.1 hop
    exact hq sw hsw op hin
  exact Nat.le_trans (askingSweeps_le sweeps s)
    (askCount_le_phi _ s (SInv.of_reachableReFwd h) (reachable_max_pos_re h) hqf hok)

/-- **rebalancing reaches a settled state within `small_bound + 1` sweeps**: take any valid sequence
    of more than `small_bound s` elimination-free sweeps from a reachable state, each sweep syncing
    every table that exists when the sweep starts (any order, possibly more than once, any choices).
    Then one of the sweeps starts in a state in which no table is asked to release, receive or
    break — and by `settled_persists` this remains so. -/
theorem rebalancing_reaches_settled_small_re {s : RSys} (h : ReachableReFwd s) (sweeps : List (List EOp))
    (hq : ∀ sw ∈ sweeps, ∀ op ∈ sw, quietOp op = true) (hok : s.allOk sweeps.flatten)
    (hcover : ∀ pre sw post, sweeps = pre ++ sw :: post → ∀ t ms,
      (s.run pre.flatten).env.membersOf t = some ms → ∃ stay rel keep ch, EOp.sync t [] stay rel keep ch ∈ sw)
    (hlen : small_bound s < sweeps.length) :
    ∃ pre sw post, sweeps = pre ++ sw :: post ∧ Settled (s.run pre.flatten) := by
  have hqf : ∀ op ∈ sweeps.flatten, quietOp op = true := by
    intro op hop
    obtain ⟨sw, hsw, hin⟩ := List.mem_flatten.1 hop
    exact hq sw hsw op hin
  have hb := rebalancing_settles_small_syncs_re h sweeps.flatten hqf hok
  have hex : ∃ pre sw post, sweeps = pre ++ sw :: post ∧ (s.run pre.flatten).askCount sw = 0 := by
    apply Classical.byContradiction
    intro hno
    have := askCount_sweeps sweeps s (fun pre sw post he => by
      have : ¬ (s.run pre.flatten).askCount sw = 0 := fun h0 => hno ⟨pre, sw, post, he, h0⟩
      omega)
    omega
  obtain ⟨pre, sw, post, he, h0⟩ := hex
  refine ⟨pre, sw, post, he, ?_⟩
  have hokf : s.allOk (pre.flatten ++ (sw ++ post.flatten)) := by
    rw [he] at hok; simpa using hok
  have hok1 := (allOk_append s pre.flatten (sw ++ post.flatten)).1 hokf
  have hok2 := (allOk_append (s.run pre.flatten) sw post.flatten).1 hok1.2
  have hreach : ReachableReFwd (s.run pre.flatten) :=
    h.run pre.flatten (allOkReFwd_of_allOk _ _ (SInv.of_reachableReFwd h) hok1.1)
  exact quiet_sweep_settled_re hreach sw (fun op hop => hq sw (by rw [he]; simp) op hop) hok2.1 h0
    (hcover pre sw post he)


/-! ### non-vacuity -/

/-- 27 registrants at 9/6 (three tables of nine); players 1 … 6 of table 1 are eliminated; player 1
    REGISTERS AGAIN and is seated at table 1 (4 players; 22 alive, water level 7⅓). -/
def startRe : List EOp :=
  [.add ((List.range 27).map (· + 1)) [], .status .normal [],
   .sync 1 [1,2,3,4,5,6] [7,8,9] [] [7,8,9] [], .add [1] [1]]

/-- the rebalancing sweep after it: table 2 releases two, table 3 one, all to table 1 -/
def sweepRe : List EOp :=
  [.sync 2 [] [10,11,12,13,14,15,16,17,18] [10,11] [12,13,14,15,16,17,18] [1],
   .sync 3 [] [19,20,21,22,23,24,25,26,27] [19] [20,21,22,23,24,25,26,27] [1],
   .sync 1 [] [7,8,9,1,10,11,19] [] [7,8,9,1,10,11,19] []]

example : ReachableReFwd ((RSys.init 9 6).run startRe) :=
  (ReachableReFwd.init 9 6 (by decide)).run startRe (by decide)
/-- outside the old domain -/
example : ¬ (RSys.init 9 6).allOk startRe := by decide
example : ((RSys.init 9 6).run startRe).env.members =
    [(1, [7,8,9,1]), (2, [10,11,12,13,14,15,16,17,18]), (3, [19,20,21,22,23,24,25,26,27])] := by decide
example : ∀ op ∈ sweepRe, quietOp op = true := by decide
example : ((RSys.init 9 6).run startRe).allOk sweepRe := by decide
example : ((RSys.init 9 6).run startRe).askCount sweepRe = 2 := by decide
example : small_bound ((RSys.init 9 6).run startRe) = 34 ∧ potential ((RSys.init 9 6).run startRe) = 11 := by
  decide
example : (((RSys.init 9 6).run startRe).run sweepRe).env.members =
    [(1, [7,8,9,1,10,11,19]), (2, [12,13,14,15,16,17,18]), (3, [20,21,22,23,24,25,26,27])] := by decide
/-- afterwards nobody is asked anything: a second sweep asks nothing -/
example : (((RSys.init 9 6).run startRe).run sweepRe).askCount
    [.sync 1 [] [7,8,9,1,10,11,19] [] [7,8,9,1,10,11,19] [], .sync 2 [] [12,13,14,15,16,17,18] [] [12,13,14,15,16,17,18] [],
     .sync 3 [] [20,21,22,23,24,25,26,27] [] [20,21,22,23,24,25,26,27] []] = 0 := by decide

end Pokerface.C20

/-! ## asynchronous releases, with re-entries

The theorems of Properties/C20Async.lean on `AReachableRe` (where the original has `AReachable`) and
`AReachableReFwd` (where it has `AReachableFwd`); the scripts are elimination-free syncs and reports,
on which `okReFwd` = `okFwd` and `okRe` = `ok` by definition, so `s.ok …`, `s.okFwd …`, `s.allOkFwd ops`
are kept as in the originals.  The liveness claim stays PARTIAL exactly as in C20Async
(`rebalancing_settles_async_full_re` is open). -/

namespace Pokerface.C20
open Pokerface Reg ASys


/-- **break_returns_all**, asynchronous, the sync half (WIDEST domain).  Let a valid sync of an
    existing table `t` (members `≈ elim ++ stay`) from a reachable state - with any players still
    on the way back, from `t` itself or from other tables - break the table.  Then
    * the regulator tells the table to release exactly its whole remaining membership (`|stay|`)
      and gives it nobody; the departing players are all of `stay`, nobody is kept;
    * afterwards table `t` exists neither in reality nor on the regulator's sheet;
    * ALL of them are now on the way back from `t` (`departing` = `rel`; the batch joins whoever was
      on the way already), and the sync itself made no callback and queued nobody: the regulator
      hears of them again only through `ReleasePlayers` (`reported_are_requeued_async`). -/
theorem break_returns_all_async_re {s : ASys} (h : AReachableRe s) (t : Nat) (elim stay rel keep ms : List Nat)
    (hm : s.env.membersOf t = some ms) (hok : s.ok (.sync t elim stay rel keep))
    (hb : s.broken t elim = true) :
    ((s.syncAnswer t elim).2.2.1 = stay.length ∧ (s.syncAnswer t elim).2.2.2 = [] ∧
      rel.Perm stay ∧ keep = []) ∧
    (t ∉ (s.step (.sync t elim stay rel keep)).env.members.map (·.1) ∧
      (s.step (.sync t elim stay rel keep)).r.findTable t = none ∧
      (s.step (.sync t elim stay rel keep)).env.membersOf t = none) ∧
    (s.departing (.sync t elim stay rel keep) = rel ∧
      (s.step (.sync t elim stay rel keep)).flyingOf t = s.flyingOf t ++ rel ∧
      (s.step (.sync t elim stay rel keep)).flying = s.flying ++ rel ∧
      (s.step (.sync t elim stay rel keep)).r.calls = [] ∧
      (s.step (.sync t elim stay rel keep)).r.queue = s.r.queue) := by
  have hS := AInv.of_reachableRe h
  have hok' := hok
  simp only [ok, hm] at hok'
  rw [show s.syncAnswer t elim = ((s.syncAnswer t elim).1, (s.syncAnswer t elim).2.1,
    (s.syncAnswer t elim).2.2.1, (s.syncAnswer t elim).2.2.2) from rfl] at hok'
  simp only [] at hok'
  obtain ⟨hp1, hp2, hrl, hkeep⟩ := hok'
  obtain ⟨r1, relc, nw, t0, hans, hft, _, _, _, _, hq1, hc1, _, hbrk⟩ := hS.sync_known t elim stay ms hm hp1
  obtain ⟨hrelc, hnw⟩ := hbrk hb
  have hk := hkeep hb
  rw [hans] at hp2 hrl ⊢
  simp only [] at hp2 hrl ⊢
  subst hnw hk
  simp only [List.append_nil] at hp2
  have hS' := (hS.step_full _ hok).1
  have hr : (s.step (.sync t elim stay rel [])).r = r1 := by rw [step_sync_r, hans]
  have hfind : (s.step (.sync t elim stay rel [])).r.findTable t = none := by
    have : (r1.findTable t).isNone = true := by
      have := hb; simp only [broken, hans] at this; exact this
    rw [hr]; exact Option.isNone_iff_eq_none.1 this
  have hmo : (s.step (.sync t elim stay rel [])).env.membersOf t = none := (hS'.unknown_iff t).2 hfind
  have hinf : (s.step (.sync t elim stay rel [])).inflight =
      (if rel.isEmpty then s.inflight else s.inflight ++ [(t, rel)]) := by simp only [ASys.step, hm]
  refine ⟨⟨hrelc, rfl, hp2.symm, rfl⟩, ⟨?_, hfind, hmo⟩, ?_, ?_, ?_, ?_, ?_⟩
  · intro hin
    have := (RSys.membersOf_isSome_iff _ t).2 hin
    rw [hmo] at this; cases this
  · simp only [departing, hm]
  · simp only [flyingOf, hinf]
    split
    · rename_i he
      have : rel = [] := by simpa using he
      simp [this]
    · simp
  · simp only [flying, hinf]
    split
    · rename_i he
      have : rel = [] := by simpa using he
      simp [this]
    · simp
  · rw [hr]; exact hc1
  · rw [hr]; simpa using hq1.symm

/-! ## moves are directed -/

/-- **moves_are_directed**, asynchronous (WIDEST domain), in REAL quantities.  A table `t` with
    members `≈ elim ++ stay` syncs while any number of players are on the way back.  The water
    level the regulator uses is computed from ALL players alive after the eliminations - seated,
    queued or on the way back: `N = |alive| − |elim|`, `R = ⌈N / max⌉` tables needed.
    * if the table is not broken and told to release `k > 0` players, it is strictly above the
      water level (`N < |stay|·R`) and stays at or above its floor (`⌊N/R⌋ ≤ |stay| − k`);
    * if it receives players from the queue, it is strictly below the water level, ends at or below
      the floor (`|stay| + |new| ≤ ⌊N/R⌋`), and is told to release nobody. -/
theorem moves_are_directed_async_re {s : ASys} (h : AReachableRe s) (t : Nat) (ms elim stay : List Nat)
    (hm : s.env.membersOf t = some ms) (hp : ms.Perm (elim ++ stay)) :
    (s.broken t elim = false → 0 < (s.syncAnswer t elim).2.2.1 →
        (s.env.alive.length : Int) - elim.length <
          stay.length * ceilDiv ((s.env.alive.length : Int) - elim.length) s.r.max ∧
        ((s.env.alive.length : Int) - elim.length) / ceilDiv ((s.env.alive.length : Int) - elim.length) s.r.max ≤
          stay.length - (s.syncAnswer t elim).2.2.1) ∧
    ((s.syncAnswer t elim).2.2.2 ≠ [] →
        stay.length * ceilDiv ((s.env.alive.length : Int) - elim.length) s.r.max <
          (s.env.alive.length : Int) - elim.length ∧
        (stay.length : Int) + ((s.syncAnswer t elim).2.2.2.length : Int) ≤
          ((s.env.alive.length : Int) - elim.length) / ceilDiv ((s.env.alive.length : Int) - elim.length) s.r.max ∧
        (s.syncAnswer t elim).2.2.1 = 0) := by
  have hS := AInv.of_reachableRe h
  obtain ⟨r1, relc, nw, t0, hans, hft, hc0, _⟩ := hS.sync_known t elim stay ms hm hp
  have hlen := hp.length_eq
  rw [List.length_append] at hlen
  have hd := syncState_directed s.r t elim.length t0 hft
  have hsa : s.r.syncState t elim.length = s.syncAnswer t elim := rfl
  rw [hsa, hS.pc] at hd
  have hcount : t0.count - (elim.length : Int) = stay.length := by omega
  rw [hcount] at hd
  refine ⟨fun hnb hpos => hd.1 ?_ hpos, hd.2⟩
  intro hnone
  have : s.broken t elim = true := by simp only [broken, hnone]; rfl
  rw [this] at hnb; cases hnb

/-- **dispatch_is_directed**, asynchronous.  (1) A sync makes NO callback in the asynchronous
    system (WIDEST domain): players are sent to tables only by the queue-draining operations
    (`AddPlayers`, `SetStatus`, and `ReleasePlayers` whenever it arrives).  (2) There, every
    `assignPlayersFn` callback is made by `dispatchPlayer`, which picks a table with
    `Required > 0` and hands it a prefix of the candidates no longer than that `Required` - the
    regulator-level statement of `dispatch_is_directed`, which holds for ANY regulator state and so
    whoever is on the way. -/
theorem dispatch_is_directed_async_re :
    (∀ {s : ASys}, AReachableRe s → ∀ (t : Nat) (elim stay rel keep : List Nat),
      s.ok (.sync t elim stay rel keep) → (s.step (.sync t elim stay rel keep)).r.calls = []) ∧
    (∀ {r r' : Reg} {cands rest : List Nat}, r.dispatchPlayer cands = some (rest, r') → r'.badChoice = false →
      ∃ tb ∈ r.tables, 0 < tb.required ∧ ∃ picked, r'.calls = r.calls ++ [RCall.assign tb.id picked] ∧
        (picked.length : Int) ≤ tb.required ∧ cands = picked ++ rest) := by
  refine ⟨?_, fun h hb => dispatchPlayer_directed h hb⟩
  intro s h t elim stay rel keep hok
  have hS := AInv.of_reachableRe h
  rw [step_sync_r]
  cases hm : s.env.membersOf t with
  | none =>
    have hft : s.r.findTable t = none := (hS.unknown_iff t).1 hm
    have : (s.syncAnswer t elim).1 = s.r.beginOp [] := syncState_unknown s.r t elim.length hft
    rw [this]
    rfl
  | some ms =>
    have hok' := hok
    simp only [ok, hm] at hok'
    rw [show s.syncAnswer t elim = ((s.syncAnswer t elim).1, (s.syncAnswer t elim).2.1,
      (s.syncAnswer t elim).2.2.1, (s.syncAnswer t elim).2.2.2) from rfl] at hok'
    simp only [] at hok'
    obtain ⟨r1, relc, nw, t0, hans, _, _, _, _, _, _, hc1, _⟩ := hS.sync_known t elim stay ms hm hok'.1
    rw [hans]; exact hc1

/-- **settled_persists**, asynchronous, syncs: from a settled state every valid elimination-free
    sync of any table asks for nothing - so nobody leaves, nobody gets on the way - and leaves a
    settled state. -/
theorem settled_persists_async_re {s : ASys} (h : AReachableReFwd s) (hs : ASettled s)
    (t : Nat) (stay rel keep : List Nat) (hok : s.okFwd (.sync t [] stay rel keep)) :
    s.asks (.sync t [] stay rel keep) = false ∧
    s.departing (.sync t [] stay rel keep) = [] ∧ ASettled (s.step (.sync t [] stay rel keep)) := by
  have hna := ((settled_iff_async s).1 hs).2 t stay rel keep
  have hok' : s.ok (.sync t [] stay rel keep) := hok
  obtain ⟨a, b, c, d⟩ := step_noask s t stay rel keep [] hok' hna
  have hSI := (AInvF.of_reachableReFwd h).toSInv hs.1
  -- the synchronous `settled_persists`, from the invariant
  have hset : Settled (s.toRSys.step (.sync t [] stay rel keep [])) := by
    obtain ⟨hfr, hids⟩ := RSys.noask_frame hSI t stay rel keep [] a b
    intro t' ms' hm'
    have hsome : (s.toRSys.env.membersOf t').isSome = true := by
      rw [RSys.membersOf_isSome_iff, ← hids, ← RSys.membersOf_isSome_iff, hm']; rfl
    cases hm2 : s.toRSys.env.membersOf t' with
    | none => rw [hm2] at hsome; cases hsome
    | some ms =>
      obtain ⟨h1, h2, h3⟩ := hs.2 t' ms hm2
      have hfa := frame_answer hfr t'
      have e : answer0 s.toRSys.r t' = (0, [], false) := by
        unfold answer0
        show ((s.toRSys.syncAnswer t' []).2.2.1, (s.toRSys.syncAnswer t' []).2.2.2, s.toRSys.broken t' []) = _
        rw [h1, h2, h3]
      rw [e] at hfa
      exact ⟨congrArg (·.1) hfa, congrArg (·.2.1) hfa, congrArg (·.2.2) hfa⟩
  have hdep : s.departing (.sync t [] stay rel keep) = [] := by
    cases hm : s.env.membersOf t with
    | none => simp only [departing, hm]
    | some ms =>
      simp only [departing, hm]
      simp only [ok, hm] at hok'
      simp only [asks, hm, Option.isSome_some, Bool.true_and, Bool.or_eq_false_iff,
        decide_eq_false_iff_not, Bool.not_eq_false', List.isEmpty_iff, Decidable.not_not] at hna
      rw [show s.syncAnswer t [] = ((s.syncAnswer t []).1, (s.syncAnswer t []).2.1,
        (s.syncAnswer t []).2.2.1, (s.syncAnswer t []).2.2.2) from rfl] at hok'
      simp only [] at hok'
      exact List.length_eq_zero_iff.1 (by have := hok'.2.2.1; have := hna.1.1; omega)
  refine ⟨hna, hdep, ?_, ?_⟩
  · rw [d]; exact hs.1
  · rw [c]; exact hset

/-- **syncs never raise the potential, whoever is on the way** (forward-only domain): every valid
    elimination-free sync keeps `potential_async` from rising and lowers it by at least one when
    it asks its table to release, receive or break. -/
theorem sync_never_raises_potential_async_re {s : ASys} (h : AReachableReFwd s) (t : Nat)
    (stay rel keep : List Nat) (hok : s.okFwd (.sync t [] stay rel keep)) :
    potential_async (s.step (.sync t [] stay rel keep)) ≤ potential_async s ∧
    (s.asks (.sync t [] stay rel keep) = true →
      potential_async (s.step (.sync t [] stay rel keep)) + 1 ≤ potential_async s) :=
  sync_step_phi (AInvF.of_reachableReFwd h) t stay rel keep (ok_of_okFwd hok)

/-- **a report raises the potential by at most its late cost**, and the late cost is `0` unless the
    report `overflows` (calm state, `|queue| + |ps| >` the sum of the outstanding `Required`s:
    cost `2·tables`) or `strands` players (the queue was empty, is not afterwards, and somebody is
    still on the way: cost `1`). -/
theorem report_raises_potential_by_late_cost_async_re {s : ASys} (h : AReachableReFwd s) (t : Nat)
    (ps rest ch : List Nat) (hok : s.okFwd (.report t ps rest ch)) :
    potential_async (s.step (.report t ps rest ch)) ≤ potential_async s + ASys.lateCost s (.report t ps rest ch) ∧
    ASys.lateCost s (.report t ps rest ch) =
      (if ASys.overflows s ps then 2 * s.r.tables.length else 0) +
        (if ASys.strands s (.report t ps rest ch) then 1 else 0) :=
  ⟨report_step_phi (AInvF.of_reachableReFwd h) t ps rest ch (ok_of_okFwd hok), rfl⟩

/-- the potential is at most the synchronous small bound plus one -/
theorem potential_async_le_re {s : ASys} (h : AReachableReFwd s) :
    potential_async s ≤ Reg.smallBound s.r + 1 := potentialA_le (AInvF.of_reachableReFwd h)

/-- the FULL claim (open): from every reachable state, along every valid script of elimination-free
    syncs and reports, at most `small_bound + 1` syncs ask for anything - however late and in
    however many parts the reports arrive. -/
def rebalancing_settles_async_full_re : Prop :=
  ∀ s : ASys, AReachableReFwd s → ∀ ops : List AOp,
    (∀ op ∈ ops, quietOp op = true) → s.allOkFwd ops → s.askCount ops ≤ Reg.smallBound s.r + 1

/-- **rebalancing_settles with late reports, partial**.  From every state of the forward-only domain
    - with anybody on the way -, along EVERY valid script of elimination-free syncs and reports:
    any order of tables, a table may sync again before its report, reports at any later time and
    in parts, any choice of who leaves, any dispatch choices.  The number of syncs that ask their
    table to release, receive or break is at most the potential at the start plus the late costs
    of the reports of the script; the potential is at most `small_bound + 1`.  What is missing
    for `rebalancing_settles_async_full` is a bound on `late_cost` that does not depend on the
    script. -/
theorem rebalancing_settles_async_partial_re {s : ASys} (h : AReachableReFwd s) (ops : List AOp)
    (hq : ∀ op ∈ ops, quietOp op = true) (hok : s.allOkFwd ops) :
    s.askCount ops ≤ potential_async s + late_cost s ops ∧
    s.askCount ops ≤ Reg.smallBound s.r + 1 + late_cost s ops := by
  have h1 := askCount_le_phiA ops s (AInvF.of_reachableReFwd h) hq hok
  have h2 := potential_async_le_re h
  unfold potential_async late_cost at *
  exact ⟨by omega, by omega⟩

/-- the full claim holds for every script whose reports cost nothing: no report arrives in a calm
    state with more players than the outstanding `Required`s can take, none strands players -/
theorem rebalancing_settles_async_costless_re {s : ASys} (h : AReachableReFwd s) (ops : List AOp)
    (hq : ∀ op ∈ ops, quietOp op = true) (hok : s.allOkFwd ops) (h0 : late_cost s ops = 0) :
    s.askCount ops ≤ Reg.smallBound s.r + 1 := by
  have := (rebalancing_settles_async_partial_re h ops hq hok).2
  omega

/-- a whole round that starts with nobody on the way, syncs every existing table at least once,
    asks nobody anything and contains no spurious report (every report names somebody - or nothing
    is queued) starts, and by `settled_persists_async` ends, in a settled state -/
theorem quiet_round_settled_async_re {s : ASys} (h : AReachableReFwd s) (hf : s.inflight = []) (ops : List AOp)
    (hq : ∀ op ∈ ops, quietOp op = true) (hok : s.allOkFwd ops) (h0 : s.askCount ops = 0)
    (hrep : s.r.queue = [] ∨ ∀ t ps rest ch, AOp.report t ps rest ch ∈ ops → ps ≠ [])
    (hcover : ∀ t ms, s.env.membersOf t = some ms → ∃ stay rel keep, AOp.sync t [] stay rel keep ∈ ops) :
    ASettled s := by
  refine ⟨hf, ?_⟩
  intro t ms hm
  have hm' : s.env.membersOf t = some ms := hm
  have hsome : (s.env.membersOf t).isSome = true := by rw [hm']; rfl
  have := noask_script_answers_async ops s (AInvF.of_reachableReFwd h) hf hq hok h0 hrep t (hcover t ms hm') hsome
  exact ⟨congrArg (·.1) this, congrArg (·.2.1) this, congrArg (·.2.2) this⟩

/-- **rebalancing reaches a settled state, partial**: take any valid sequence of rounds from a state
    of the forward-only domain; each round is a list of elimination-free syncs and reports that
    syncs every table existing at its start (any order, a table possibly several times) and by its
    end has delivered every report (fairness: every round STARTS with nobody on the way; inside a
    round the reports may come at any point after their sync, also after the table's next sync, and
    in parts); no report of nobody is made.  If there are more rounds than the potential at the
    start plus the late costs of the whole run, one of the rounds starts in a settled state. -/
theorem rebalancing_reaches_settled_async_partial_re {s : ASys} (h : AReachableReFwd s) (rounds : List (List AOp))
    (hq : ∀ sw ∈ rounds, ∀ op ∈ sw, quietOp op = true) (hok : s.allOkFwd rounds.flatten)
    (hcover : ∀ pre sw post, rounds = pre ++ sw :: post → ∀ t ms,
      (s.run pre.flatten).env.membersOf t = some ms → ∃ stay rel keep, AOp.sync t [] stay rel keep ∈ sw)
    (hfair : ∀ pre sw post, rounds = pre ++ sw :: post → (s.run pre.flatten).inflight = [])
    (hrep : ∀ sw ∈ rounds, ∀ t ps rest ch, AOp.report t ps rest ch ∈ sw → ps ≠ [])
    (hlen : potential_async s + late_cost s rounds.flatten < rounds.length) :
    ∃ pre sw post, rounds = pre ++ sw :: post ∧ ASettled (s.run pre.flatten) := by
  have hqf : ∀ op ∈ rounds.flatten, quietOp op = true := by
    intro op hop
    obtain ⟨sw, hsw, hin⟩ := List.mem_flatten.1 hop
    exact hq sw hsw op hin
  have hb := (rebalancing_settles_async_partial_re h rounds.flatten hqf hok).1
  have hex : ∃ pre sw post, rounds = pre ++ sw :: post ∧ (s.run pre.flatten).askCount sw = 0 := by
    apply Classical.byContradiction
    intro hno
    have := askCount_rounds rounds s (fun pre sw post he => by
      have : ¬ (s.run pre.flatten).askCount sw = 0 := fun h0 => hno ⟨pre, sw, post, he, h0⟩
      omega)
    omega
  obtain ⟨pre, sw, post, he, h0⟩ := hex
  refine ⟨pre, sw, post, he, ?_⟩
  have hokf : s.allOkFwd (pre.flatten ++ (sw ++ post.flatten)) := by
    rw [he] at hok; simpa using hok
  have hok1 := (allOkFwd_append s pre.flatten (sw ++ post.flatten)).1 hokf
  have hok2 := (allOkFwd_append (s.run pre.flatten) sw post.flatten).1 hok1.2
  have hreach : AReachableReFwd (s.run pre.flatten) :=
    h.run pre.flatten (allOkReFwd_of_allOkFwd _ _ (AInvF.of_reachableReFwd h) hok1.1)
  have hsw : sw ∈ rounds := by rw [he]; simp
  exact quiet_round_settled_async_re hreach (hfair pre sw post he) sw (fun op hop => hq sw hsw op hop) hok2.1 h0
    (Or.inr (hrep sw hsw)) (hcover pre sw post he)


/-- the synchronous small bound re-read on the asynchronous system, with re-entries -/
theorem rebalancing_settles_prompt_async_re {s : RSys} (h : RSys.ReachableReFwd s) (ops : List EOp)
    (hq : ∀ op ∈ ops, RSys.quietOp op = true) (hok : s.allOk ops) :
    AReachableReFwd (ASys.ofRSys s) ∧ AReachableReFwd (ASys.ofRSys (s.run ops)) ∧
      s.askCount ops ≤ small_bound s :=
  ⟨AReachableReFwd.ofRSys h,
   AReachableReFwd.ofRSys (h.run ops (RSys.allOkReFwd_of_allOk _ _ (RSys.SInv.of_reachableReFwd h) hok)),
   rebalancing_settles_small_syncs_re h ops hq hok⟩

/-! ### non-vacuity, asynchronous -/

private def rgRe (n k : Nat) : List Nat := (List.range k).map (· + n)

/-- 27 registrants at 9/6; table 2 loses 10 … 15; table 1 is told to release two (1, 2 leave: on
    the way back); player 10 REGISTERS AGAIN meanwhile and is seated at table 2; then a quiet
    script: the late report of table 1 and a sync of table 3. -/
def lateStartRe : List AOp :=
  [.add (rgRe 1 27) [], .status .normal [], .sync 2 [10,11,12,13,14,15] [16,17,18] [] [16,17,18],
   .sync 1 [] (rgRe 1 9) [1,2] (rgRe 3 7), .add [10] [2]]

example : AReachableReFwd ((ASys.init 9 6).run lateStartRe) :=
  (AReachableReFwd.init 9 6 (by decide)).run lateStartRe (by decide)
example : ¬ (ASys.init 9 6).allOkFwd lateStartRe := by decide
example : ((ASys.init 9 6).run lateStartRe).inflight = [(1, [1,2])] ∧
    ((ASys.init 9 6).run lateStartRe).env.members =
      [(1, [3,4,5,6,7,8,9]), (2, [16,17,18,10]), (3, rgRe 19 9)] := by decide
example : ((ASys.init 9 6).run lateStartRe).allOkFwd [.report 1 [1,2] [] [2]] ∧
    (∀ op ∈ [AOp.report 1 [1,2] [] [2]], quietOp op = true) := by decide

end Pokerface.C20
