import Pokerface.Proofs.LinksDriver
import Pokerface.Properties.C06Driver
import Pokerface.Properties.LinksTable
import Pokerface.Properties.LinksTableOpens
/-
  Composition across components: `table.Table` (seat manager, hand-off: C08Table / LinksTable) ∘ `table.game`
  (the driver of a hand: C06Driver) ∘ the engine.

  `C06D.driver_can_finish` needs a `BlindsOK` configuration (`C06D.blinds_group_empty_stalls` is what happens
  otherwise); `LinksT.table_game_starts` says what an UNDISTURBED hand-off (`HandOff`: a fresh `setupPosition` of a
  table satisfying the table invariant, funded playable seats, well-formed options) hands to `Start()`.  Here the two
  are joined: every such hand-off gives the driver a `BlindsOK` configuration, so the hand can always be finished
  through the wrappers, and everything the driver ever holds is an engine state of THAT configuration.
-/
namespace Pokerface.LinksD
open Pokerface Table SM Game Drv

/-- **The configuration of an undisturbed hand-off is fit for the driver** (C08Table ∘ C06Driver): it is well-formed,
    `Start()` accepts it, and it is `BlindsOK` — whatever the blinds, a seat that owes one is in the game whenever the
    engine will request blinds.  (`C06D.blindsOK_of_positions` with the layout of `HandOff.layout`.) -/
theorem table_config_blindsOK {t t' : Table} {seats : List Nat} {m : Meta} (h : HandOff t t' seats m) :
    WFConfig ⟨m, t'.gameSeats seats⟩ ∧ (start ⟨m, t'.gameSeats seats⟩).2 = none ∧
    C06D.BlindsOK ⟨m, t'.gameSeats seats⟩ := by
  obtain ⟨hacc, _, _⟩ := LinksT.table_accepted h
  obtain ⟨hs, hb⟩ := handOff_has_blind_seats h
  exact ⟨hacc.wf, hacc.started, C06D.blindsOK_of_positions _ hacc.wf hacc.started hs hb⟩

/-- **C06 "a hand always … finishes", for a hand started by the table** (C08Table ∘ C06Driver).  For every undisturbed
    hand-off of the table: `Start()` accepts the game; after ANY sequence `cs` of wrapper calls (`Ready, Pay, Pass, Fold,
    Check, Call, Allin, Bet, Raise`, any player index, any amount, accepted or refused)
    * if the driver is not closed, somebody can make a call that is accepted and makes progress (the held state changes
      or the pending ready group waits for one participant less), and
    * some continuation `cs'` of wrapper calls closes the hand (`g.isClosed`).
    The stall of `C06D.blinds_group_empty_stalls` / `C06D.stall_through_table` needs a DISTURBED hand-off. -/
theorem table_hand_can_finish {t t' : Table} {seats : List Nat} {m : Meta} (h : HandOff t t' seats m) :
    (start ⟨m, t'.gameSeats seats⟩).2 = none ∧ C06D.BlindsOK ⟨m, t'.gameSeats seats⟩ ∧
    ∀ cs : List Call,
      ((runD (startD (start ⟨m, t'.gameSeats seats⟩).1) cs).closed = false →
        ∃ k, (call (runD (startD (start ⟨m, t'.gameSeats seats⟩).1) cs) k).2 = none ∧
          ((runD (startD (start ⟨m, t'.gameSeats seats⟩).1) cs).updates <
              (call (runD (startD (start ⟨m, t'.gameSeats seats⟩).1) cs) k).1.updates ∨
           pending (call (runD (startD (start ⟨m, t'.gameSeats seats⟩).1) cs) k).1 <
              pending (runD (startD (start ⟨m, t'.gameSeats seats⟩).1) cs))) ∧
      ∃ cs', (runD (startD (start ⟨m, t'.gameSeats seats⟩).1) (cs ++ cs')).closed = true := by
  obtain ⟨wf, hs, ok⟩ := table_config_blindsOK h
  exact ⟨hs, ok, fun cs => ⟨C06D.no_stall_of_config _ wf hs ok cs, C06D.driver_can_finish _ wf hs ok cs⟩⟩

/-- … and when it is closed, the held state is the final one: `GameClosed` with the result (`C06D.held_closed_final`
    is about `DReach` states; the states of a table-started hand are such states). -/
theorem table_hand_dreach {t t' : Table} {seats : List Nat} {m : Meta} (h : HandOff t t' seats m) (cs : List Call) :
    C06D.DReach (runD (startD (start ⟨m, t'.gameSeats seats⟩).1) cs) := by
  obtain ⟨wf, hs, _⟩ := table_config_blindsOK h
  exact ⟨_, cs, wf, hs, rfl⟩

/-- **Refinement, for a hand started by the table** (C08Table ∘ C06Driver `driver_refines_engine` ∘ `table_game_starts`).
    Whatever wrapper calls `cs` are made on a hand the table started, the state the driver holds is — up to the "pay" /
    "ready" marks in `AllowedActions`, and exactly outside `AnteRequested` / `BlindsRequested` — the serialisation of an
    engine state `(start c).1.run ops` with all `ops` accepted, `Reachable`, within C06's bound, where `c` is THE
    configuration of the hand-off: options `m`, and player `k` is the player sitting on the `k`-th playable seat
    clockwise from the dealer (`seats[k]`), with the bankroll the table's sheet shows for him and the positions the seat
    manager gives his seat.  So every engine theorem (C01 … C14) holds of what a table-driven hand holds, with the
    table's own players and chips. -/
theorem table_hand_refines_engine {t t' : Table} {seats : List Nat} {m : Meta} (h : HandOff t t' seats m)
    (cs : List Call) :
    (∃ ops : List Op, C06D.AllAccepted (start ⟨m, t'.gameSeats seats⟩).1 ops ∧
      Reachable ((start ⟨m, t'.gameSeats seats⟩).1.run ops) ∧
      clr (runD (startD (start ⟨m, t'.gameSeats seats⟩).1) cs).gs = clr ((start ⟨m, t'.gameSeats seats⟩).1.run ops).hop ∧
      (((start ⟨m, t'.gameSeats seats⟩).1.run ops).event ≠ .anteRequested →
        ((start ⟨m, t'.gameSeats seats⟩).1.run ops).event ≠ .blindsRequested →
        (runD (startD (start ⟨m, t'.gameSeats seats⟩).1) cs).gs = ((start ⟨m, t'.gameSeats seats⟩).1.run ops).hop) ∧
      ops.length ≤ C06.bound ⟨m, t'.gameSeats seats⟩) ∧
    (start ⟨m, t'.gameSeats seats⟩).1.players.length = t'.sm.playableCount ∧ t'.sm.dealer = seats[0]? ∧
    ∀ (k s : Nat), seats[k]? = some s → ∃ p q, t'.players[s]? = some (some p) ∧
      (start ⟨m, t'.gameSeats seats⟩).1.players[k]? = some q ∧ q.idx = k ∧
      q.bankroll = p.bankroll ∧ q.stack = p.bankroll ∧ q.wager = 0 ∧ q.pot = 0 ∧
      (q.posDealer, q.posSB, q.posBB) = posOf t'.sm s := by
  obtain ⟨wf, hs, _⟩ := table_config_blindsOK h
  obtain ⟨_, hl, _, _, _, _, hd, hpl⟩ := LinksT.table_game_starts h
  exact ⟨C06D.driver_refines_engine _ wf hs cs, hl, hd, hpl⟩

/-- The driver `d` holds the opening of the first betting round of configuration `c`: event, round, player to act and
    all players (stacks, wagers, allowed actions, …) of the held state are those of the engine state after the forced
    bets and the `ReadyForAll` that opens the round.  (Decidable; implied by `d.gs = (…).hop`, `holdsOpening_of_eq`.
    The held state is a `Game` with a function field, so the equality itself cannot be checked by evaluation.) -/
def HoldsOpening (d : D) (c : Config) : Prop :=
  d.gs.event = ((afterForcedBets c).step .ready).1.event ∧ d.gs.round = ((afterForcedBets c).step .ready).1.round ∧
  d.gs.cur = ((afterForcedBets c).step .ready).1.cur ∧ d.gs.players = ((afterForcedBets c).step .ready).1.players

instance (d : D) (c : Config) : Decidable (HoldsOpening d c) := by unfold HoldsOpening; exact inferInstance

theorem holdsOpening_of_eq {d : D} {c : Config} (h : d.gs = ((afterForcedBets c).step .ready).1.hop) :
    HoldsOpening d c := by
  unfold HoldsOpening; rw [h]; exact ⟨rfl, rfl, rfl, rfl⟩

/-- **C04 "only the player to act can act", first action of a table-started hand** (C08Table ∘ C04 ∘ C06Driver
    `wrapper_acts_for_caller`).  Let the driver of a hand the table started hold the state after the forced bets and the
    `ReadyForAll` that opens the first betting round (`hheld`: `HoldsOpening`, in particular when the held state IS the
    serialisation of that engine state; `hopen`: the round does open).  Then every wrapper call `Pass/Fold/Check/Call/
    Allin/Bet/Raise/Pay(i, …)` that passes the wrapper's checks (`i` is a player, `HasAction(i, a)`) — i.e. every call
    that reaches the backend — comes from game player `i = cwNext n kb`, the player sitting on the first playable seat
    clockwise after the seat manager's big-blind seat `b` (`LinksT.table_first_to_act`), and the backend operation "for
    the current player" is performed for him. -/
theorem table_first_to_act_wrapper {t t' : Table} {seats : List Nat} {m : Meta} (h : HandOff t t' seats m)
    (cs : List Call)
    (hopen : ((afterForcedBets ⟨m, t'.gameSeats seats⟩).step .ready).1.event = .roundStarted)
    (hheld : HoldsOpening (runD (startD (start ⟨m, t'.gameSeats seats⟩).1) cs) ⟨m, t'.gameSeats seats⟩)
    (i : Nat) (a : Act) (x : Int)
    (h1 : ¬ (runD (startD (start ⟨m, t'.gameSeats seats⟩).1) cs).gs.players.length ≤ i)
    (h2 : hasAction (runD (startD (start ⟨m, t'.gameSeats seats⟩).1) cs) i a = true) :
    call (runD (startD (start ⟨m, t'.gameSeats seats⟩).1) cs) (.act i a x) =
      callBackend (runD (startD (start ⟨m, t'.gameSeats seats⟩).1) cs) (.act none a x) ∧
    ∃ b kb s, t'.sm.bb = some b ∧ seats[kb]? = some b ∧ (kb = if t'.sm.sb = t'.sm.dealer then 1 else 2) ∧
      i = cwNext seats.length kb ∧ seats[i]? = some s ∧ IsNextAfter t'.sm b s := by
  have hev : (runD (startD (start ⟨m, t'.gameSeats seats⟩).1) cs).gs.event = .roundStarted := by
    rw [hheld.1]; exact hopen
  obtain ⟨hc, hi, _⟩ := C06D.wrapper_acts_for_caller (table_hand_dreach h cs) i a x h1 h2
    (by rw [hev]; rintro ⟨_, h | h⟩ <;> cases h)
  obtain ⟨b, kb, s, hbb, hkb, hkbe, hcur, hx, hnx, _⟩ := LinksT.table_first_to_act h hopen
  have hcur' : (runD (startD (start ⟨m, t'.gameSeats seats⟩).1) cs).gs.cur =
      ((afterForcedBets ⟨m, t'.gameSeats seats⟩).step .ready).1.cur := hheld.2.2.1
  rw [hcur'] at hi
  refine ⟨hc, b, kb, s, hbb, hkb, hkbe, by rw [hi]; exact hcur, by rw [hi]; exact hx, hnx⟩

/-- the same with the hypothesis `hopen` replaced by "some playable seat can still move after the forced bets"
    (`LinksT.table_first_to_act_open`) -/
theorem table_first_to_act_wrapper_open {t t' : Table} {seats : List Nat} {m : Meta} (h : HandOff t t' seats m)
    (cs : List Call) (hmove : ∃ s ∈ seats, LinksT.SeatCanMove t' m s)
    (hheld : HoldsOpening (runD (startD (start ⟨m, t'.gameSeats seats⟩).1) cs) ⟨m, t'.gameSeats seats⟩)
    (i : Nat) (a : Act) (x : Int)
    (h1 : ¬ (runD (startD (start ⟨m, t'.gameSeats seats⟩).1) cs).gs.players.length ≤ i)
    (h2 : hasAction (runD (startD (start ⟨m, t'.gameSeats seats⟩).1) cs) i a = true) :
    call (runD (startD (start ⟨m, t'.gameSeats seats⟩).1) cs) (.act i a x) =
      callBackend (runD (startD (start ⟨m, t'.gameSeats seats⟩).1) cs) (.act none a x) ∧
    ∃ b kb s, t'.sm.bb = some b ∧ seats[kb]? = some b ∧ (kb = if t'.sm.sb = t'.sm.dealer then 1 else 2) ∧
      i = cwNext seats.length kb ∧ seats[i]? = some s ∧ IsNextAfter t'.sm b s :=
  table_first_to_act_wrapper h cs (LinksT.table_first_to_act_open h hmove).1 hheld i a x h1 h2

/-! ## Non-vacuity -/

section Examples
open Pokerface.LinksT

/-- `C08T.demo` (5 seats; players with 100, 200, 50 chips on seats 0, 2, 3; blinds 5/10) is an undisturbed hand-off
    (`LinksT.demo_handOff`); so is the heads-up `C08T.demo2`. -/
example : C06D.BlindsOK ⟨demoMeta, C08T.demo.setupPosition.1.gameSeats [0, 2, 3]⟩ ∧
    C06D.BlindsOK ⟨demoMeta, C08T.demo2.setupPosition.1.gameSeats [1, 3]⟩ :=
  ⟨(table_config_blindsOK demo_handOff).2.2, (table_config_blindsOK demo2_handOff).2.2⟩

/-- the hand of `demo` through the wrappers: everybody `Ready`; the blinds (game players 1 and 2, seats 2 and 3) `Pay`;
    everybody `Ready` -/
def demoCalls : List Call := [.ready 0, .ready 1, .ready 2, .act 1 .pay 0, .act 2 .pay 0, .ready 0, .ready 1, .ready 2]

def demoD : D := runD (startD (start ⟨demoMeta, C08T.demo.setupPosition.1.gameSeats [0, 2, 3]⟩).1) demoCalls

/-- the hypotheses of `table_first_to_act_wrapper` hold for it: the held state is the state after the forced bets and
    the opening `ReadyForAll`; the betting round is open; game player 0 (seat 0, the dealer, first playable seat after
    the big-blind seat 3) has the action "call" — and player 1 has not: -/
theorem demoD_facts :
    HoldsOpening demoD ⟨demoMeta, C08T.demo.setupPosition.1.gameSeats [0, 2, 3]⟩ ∧
    ((afterForcedBets ⟨demoMeta, C08T.demo.setupPosition.1.gameSeats [0, 2, 3]⟩).step .ready).1.event = .roundStarted ∧
    demoD.gs.players.length = 3 ∧ hasAction demoD 0 .call = true ∧ hasAction demoD 1 .call = false ∧
    hasAction demoD 2 .fold = false := by
  decide +kernel

example : ∃ b kb s, C08T.demo.setupPosition.1.sm.bb = some b ∧ [0, 2, 3][kb]? = some b ∧
    (kb = if C08T.demo.setupPosition.1.sm.sb = C08T.demo.setupPosition.1.sm.dealer then 1 else 2) ∧
    0 = cwNext [0, 2, 3].length kb ∧ [0, 2, 3][0]? = some s ∧ IsNextAfter C08T.demo.setupPosition.1.sm b s :=
  (table_first_to_act_wrapper demo_handOff demoCalls demoD_facts.2.1 demoD_facts.1 0 .call 0
    (by show ¬ demoD.gs.players.length ≤ 0; rw [demoD_facts.2.2.1]; omega) demoD_facts.2.2.2.1).2

/-- … and from there the hand closes: the dealer and the small blind fold (`table_hand_can_finish` promises some
    continuation from EVERY state; this is one from `demoD`) -/
example : (runD demoD [.act 0 .fold 0, .act 1 .fold 0]).closed = true := by decide +kernel

end Examples

end Pokerface.LinksD

section Axioms
open Pokerface.LinksD
#print axioms table_config_blindsOK
#print axioms table_hand_can_finish
#print axioms table_hand_dreach
#print axioms table_hand_refines_engine
#print axioms table_first_to_act_wrapper
#print axioms table_first_to_act_wrapper_open
#print axioms demoD_facts
end Axioms
