import Pokerface.Proofs.View
import Pokerface.Proofs.GapsBView
import Pokerface.Generated.Facts
import Pokerface.Generated.Tables
/-
  C15 — Player and observer views never leak hidden cards.

  "The state prepared for a given player or for an observer never contains the undealt
   deck, the burned cards, or - before the hand is closed - any other player's hole cards
   or hand evaluation; after the hand is closed, the cards of players who folded stay
   hidden.  The viewer's own cards and all public information are left unchanged."

  Every theorem below holds for ALL values of `Game` (hence for every reachable state of
  every hand), every viewer seat and the observer.  Model: Model/View.lean
  (`Game.asPlayer`, `Game.asObserver`, mirroring game_state.go `AsPlayer`, `AsObserver`).

  Vocabulary (Proofs/View.lean): `Viewer = Option Nat` (`some i` = player with `Idx = i`,
  `none` = observer); `g.view v` = `g.asPlayer i` / `g.asObserver`;
  `Hidden g v p` = "record `p` is not the viewer's own, and the hand is not closed or `p` folded".
-/
namespace Pokerface.C15
open Pokerface Game

/-! ## Classification of the model's state into public and secret parts -/

/-- The public fields of a player record: everything except `hole` and `comb`. -/
def playerPub (p : Player) :
    Nat × Bool × Bool × Bool × Bool × Bool × List Act × Int × Int × Int × Int × Int :=
  (p.idx, p.posDealer, p.posSB, p.posBB, p.acted, p.fold, p.allowed, p.bankroll, p.initial, p.stack, p.pot, p.wager)

/-- The public options: everything in `Meta` except `deck`. -/
def metaPub (m : Meta) : Int × Int × Int × Int × Bool × Nat × Nat × (Cat → Nat) × List Cat :=
  (m.ante, m.blindDealer, m.blindSB, m.blindBB, m.potLimit, m.holeCount, m.required, m.lvl, m.table)

/-- The public part of a state: every field of `Game` except `opts.deck`, `burned`, and the
    players' `hole`/`comb`. -/
def publicPart (g : Game) :=
  (metaPub g.opts, g.miniBet, g.pots, g.round, g.board, g.prev, g.deckPos, g.roundPot, g.cw, g.raiser, g.cur,
   g.event, g.result, g.players.map playerPub)

/-- The part of a state that may have to be hidden (what the model classifies as secret). -/
def secretPart (g : Game) : List Card × List Card × List (List Card × Option Comb) :=
  (g.opts.deck, g.burned, g.players.map fun p => (p.hole, p.comb))

/-- The two projections together are the whole state: no field of the model escapes the
    classification (a field added to `Game`, `Meta` or `Player` breaks this proof). -/
theorem parts_cover (g g' : Game) (hp : publicPart g = publicPart g') (hs : secretPart g = secretPart g') :
    g = g' := by
  obtain ⟨o, pl, mb, pots, rd, bu, bo, pv, dp, rp, cw, ra, cu, ev, re⟩ := g
  obtain ⟨o', pl', mb', pots', rd', bu', bo', pv', dp', rp', cw', ra', cu', ev', re'⟩ := g'
  obtain ⟨a1, a2, a3, a4, a5, a6, a7, a8, a9, a10⟩ := o
  obtain ⟨b1, b2, b3, b4, b5, b6, b7, b8, b9, b10⟩ := o'
  simp only [publicPart, metaPub, secretPart, Prod.mk.injEq] at hp hs
  obtain ⟨⟨h1, h2, h3, h4, h5, h6, h7, h8, h9⟩, h10, h11, h12, h13, h14, h15, h16, h17, h18, h19, h20, h21, h22⟩ := hp
  obtain ⟨s1, s2, s3⟩ := hs
  subst_vars
  congr 1
  apply List.ext_getElem?
  intro k
  have e1 := congrArg (·[k]?) h22
  have e2 := congrArg (·[k]?) s3
  simp only [List.getElem?_map] at e1 e2
  cases hp : pl[k]? with
  | none => cases hq : pl'[k]? with
    | none => rfl
    | some q => simp [hp, hq] at e1
  | some p => cases hq : pl'[k]? with
    | none => simp [hp, hq] at e1
    | some q =>
      simp only [hp, hq, Option.map_some, Option.some.injEq, playerPub, Prod.mk.injEq] at e1 e2
      obtain ⟨p1, p2, p3, p4, p5, p6, p7, p8, p9, p10, p11, p12, p13, p14⟩ := p
      obtain ⟨q1, q2, q3, q4, q5, q6, q7, q8, q9, q10, q11, q12, q13, q14⟩ := q
      simp only at e1 e2
      obtain ⟨c1, c2, c3, c4, c5, c6, c7, c8, c9, c10, c11, c12⟩ := e1
      obtain ⟨d1, d2⟩ := e2
      subst_vars
      rfl

/-! ## `AsPlayer` -/

/-- **"never contains the undealt deck, the burned cards, or - before the hand is closed - any
    other player's hole cards or hand evaluation; after the hand is closed, the cards of
    players who folded stay hidden"**, for `AsPlayer(i)`.
    For every state `g` and viewer seat `i`: in `g.asPlayer i` the deck list is empty, the
    burned list is empty, and every seat `k` whose record `p` has `p.idx ≠ i` shows empty hole
    cards and no hand evaluation — unless the hand is closed (`event = gameClosed`) and `p`
    did not fold. -/
theorem asPlayer_hides (g : Game) (i : Nat) :
    (g.asPlayer i).opts.deck = [] ∧ (g.asPlayer i).burned = [] ∧
    ∀ (k : Nat) (p : Player), g.players[k]? = some p → p.idx ≠ i →
      (g.event ≠ .gameClosed ∨ p.fold = true) →
      ∃ q, (g.asPlayer i).players[k]? = some q ∧ q.hole = [] ∧ q.comb = none := by
  rw [asPlayer_eq_blank]
  refine ⟨rfl, rfl, ?_⟩
  intro k p hp hi hc
  have hh : Hidden g (some i) p := ⟨fun h => hi (Option.some.inj h).symm, hc⟩
  exact ⟨hidePlayer p, by simp [blank_getElem?, hp, hh], rfl, rfl⟩

/-- The same secrecy statement read off the view alone: any record in `g.asPlayer i` that is
    not the viewer's and that is folded or seen before the close carries no cards and no
    evaluation. -/
theorem asPlayer_hides_mem (g : Game) (i : Nat) :
    ∀ q ∈ (g.asPlayer i).players, q.idx ≠ i →
      ((g.asPlayer i).event ≠ .gameClosed ∨ q.fold = true) → q.hole = [] ∧ q.comb = none := by
  rw [asPlayer_eq_blank]
  intro q hq hi hc
  simp only [Game.blank, List.mem_map] at hq
  obtain ⟨p, _, rfl⟩ := hq
  by_cases hh : Hidden g (some i) p
  · simp [hh, hidePlayer]
  · simp only [hh, if_false] at hi hc ⊢
    exact absurd ⟨fun h => hi (Option.some.inj h).symm, hc⟩ hh

/-- **"The viewer's own cards and all public information are left unchanged"**, for
    `AsPlayer(i)`: (1) the public part of the state (all fields other than the deck, the
    burned cards and the players' hole cards / evaluation — field list in `publicPart`) is
    the same in the view as in `g`; (2) every record that need not be hidden from `i` — the
    viewer's own, and after the close those of the players who did not fold — is unchanged
    as a whole, hole cards and evaluation included. -/
theorem asPlayer_keeps (g : Game) (i : Nat) :
    publicPart (g.asPlayer i) = publicPart g ∧
    ∀ (k : Nat) (p : Player), g.players[k]? = some p → ¬ Hidden g (some i) p →
      (g.asPlayer i).players[k]? = some p := by
  rw [asPlayer_eq_blank]
  refine ⟨?_, ?_⟩
  · simp only [publicPart, Game.blank, metaPub, List.map_map]
    congr 13
    apply List.map_congr_left
    intro p _
    by_cases hh : Hidden g (some i) p <;> simp [hh, hidePlayer, playerPub]
  · intro k p hp hh
    simp [blank_getElem?, hp, hh]

/-- In particular the viewer's own record (own hole cards, own evaluation) is unchanged. -/
theorem asPlayer_keeps_own (g : Game) (i k : Nat) (p : Player) (hp : g.players[k]? = some p)
    (hi : p.idx = i) : (g.asPlayer i).players[k]? = some p :=
  (asPlayer_keeps g i).2 k p hp (fun h => h.1 (by rw [hi]))

/-! ## `AsObserver` -/

/-- The secrecy statement for `AsObserver()`: deck and burned cards are empty, and every
    seat shows empty hole cards and no evaluation unless the hand is closed and the player
    did not fold. -/
theorem asObserver_hides (g : Game) :
    g.asObserver.opts.deck = [] ∧ g.asObserver.burned = [] ∧
    ∀ (k : Nat) (p : Player), g.players[k]? = some p →
      (g.event ≠ .gameClosed ∨ p.fold = true) →
      ∃ q, g.asObserver.players[k]? = some q ∧ q.hole = [] ∧ q.comb = none := by
  rw [asObserver_eq_blank]
  refine ⟨rfl, rfl, ?_⟩
  intro k p hp hc
  have hh : Hidden g none p := ⟨(fun h => by cases h), hc⟩
  exact ⟨hidePlayer p, by simp [blank_getElem?, hp, hh], rfl, rfl⟩

theorem asObserver_hides_mem (g : Game) :
    ∀ q ∈ g.asObserver.players,
      (g.asObserver.event ≠ .gameClosed ∨ q.fold = true) → q.hole = [] ∧ q.comb = none := by
  rw [asObserver_eq_blank]
  intro q hq hc
  simp only [Game.blank, List.mem_map] at hq
  obtain ⟨p, _, rfl⟩ := hq
  by_cases hh : Hidden g none p
  · simp [hh, hidePlayer]
  · simp only [hh, if_false] at hc ⊢
    exact absurd ⟨(fun h => by cases h), hc⟩ hh

/-- "All public information is left unchanged" for `AsObserver()`; after the close the
    records of the players who did not fold are unchanged as a whole. -/
theorem asObserver_keeps (g : Game) :
    publicPart g.asObserver = publicPart g ∧
    ∀ (k : Nat) (p : Player), g.players[k]? = some p → ¬ Hidden g none p →
      g.asObserver.players[k]? = some p := by
  rw [asObserver_eq_blank]
  refine ⟨?_, ?_⟩
  · simp only [publicPart, Game.blank, metaPub, List.map_map]
    congr 13
    apply List.map_congr_left
    intro p _
    by_cases hh : Hidden g none p <;> simp [hh, hidePlayer, playerPub]
  · intro k p hp hh
    simp [blank_getElem?, hp, hh]

/-! ## No hidden card in a view -/

/-- The cards of a hand evaluation (`Combination.Cards`). -/
def combCards (p : Player) : List Card := (p.comb.map (·.cards)).getD []

/-- Card `c` is hidden from viewer `v` in state `g`: it is in the deck list, or burned, or a
    hole card of a player whose record must be hidden from `v`. -/
def HiddenCard (g : Game) (v : Viewer) (c : Card) : Prop :=
  c ∈ g.opts.deck ∨ c ∈ g.burned ∨ ∃ p ∈ g.players, Hidden g v p ∧ c ∈ p.hole

/-- All cards stored in the card-valued fields that the model classifies as secret for
    viewer `v`: the deck list, the burned list, and hole cards and evaluation cards of the
    records that must be hidden from `v`. -/
def secretCards (g : Game) (v : Viewer) : List Card :=
  g.opts.deck ++ g.burned ++ g.players.flatMap fun p => if Hidden g v p then p.hole ++ combCards p else []

/-- The secret card fields of a view are all empty. -/
theorem secretCards_view (g : Game) (v : Viewer) : secretCards (g.view v) v = [] := by
  rw [view_eq_blank]
  simp only [secretCards, Game.blank, List.nil_append, List.flatMap_map]
  rw [List.flatMap_eq_nil_iff]
  intro p _
  by_cases hh : Hidden g v p
  · simp only [hh, if_true]
    split <;> rfl
  · simp only [hh, if_false]
    split
    · rename_i h; exact absurd h hh
    · rfl

/-- **No hidden card in a view.**  A card hidden from viewer `v` in `g` (in the deck list,
    burned, or in the hole cards of a record that must be hidden from `v`) occurs in none of
    the secret card fields of the view prepared for `v`.  (The hypothesis is not even needed:
    by `secretCards_view` those fields are empty.  Cards of the deck list that have been dealt
    face up — board, the viewer's own cards, cards shown at the close — are public and do
    of course occur in the public fields; that a hidden card never equals a public one is the
    no-duplicates part of C14.  The statement about ALL card fields of the view, public ones included,
    is `hidden_card_nowhere_in_view` / `hidden_card_nowhere_in_observer_view` below.) -/
theorem no_hidden_card_in_view (g : Game) (v : Viewer) (c : Card) (_h : HiddenCard g v c) :
    c ∉ secretCards (g.view v) v := by
  rw [secretCards_view]; exact List.not_mem_nil

/-- **Non-interference** (the views depend on nothing that must be hidden): two states that
    have the same public part and the same records for every player that need not be hidden
    from `v` — i.e. that differ at most in the deck, the burned cards and the cards/evaluation
    of hidden players — yield the same view for `v`. -/
theorem view_noninterference (v : Viewer) (g1 g2 : Game)
    (hpub : publicPart g1 = publicPart g2)
    (hvis : ∀ (k : Nat) (p1 p2 : Player), g1.players[k]? = some p1 → g2.players[k]? = some p2 →
      ¬ Hidden g1 v p1 → p1 = p2) :
    g1.view v = g2.view v := by
  apply parts_cover
  · have k1 : publicPart (g1.view v) = publicPart g1 := by
      cases v with
      | none => exact (asObserver_keeps g1).1
      | some i => exact (asPlayer_keeps g1 i).1
    have k2 : publicPart (g2.view v) = publicPart g2 := by
      cases v with
      | none => exact (asObserver_keeps g2).1
      | some i => exact (asPlayer_keeps g2 i).1
    rw [k1, k2, hpub]
  · rw [view_eq_blank, view_eq_blank]
    have hev : g1.event = g2.event := by
      simp only [publicPart, Prod.mk.injEq] at hpub
      exact hpub.2.2.2.2.2.2.2.2.2.2.2.1
    have hpl : g1.players.map playerPub = g2.players.map playerPub := by
      simp only [publicPart, Prod.mk.injEq] at hpub
      exact hpub.2.2.2.2.2.2.2.2.2.2.2.2.2
    simp only [secretPart, Game.blank, List.map_map, Prod.mk.injEq, true_and]
    apply List.ext_getElem?
    intro k
    have e1 := congrArg (·[k]?) hpl
    simp only [List.getElem?_map] at e1 ⊢
    cases hp : g1.players[k]? with
    | none => cases hq : g2.players[k]? with
      | none => rfl
      | some q => simp [hp, hq] at e1
    | some p => cases hq : g2.players[k]? with
      | none => simp [hp, hq] at e1
      | some q =>
        simp only [hp, hq, Option.map_some, Option.some.injEq, playerPub, Prod.mk.injEq] at e1
        have hiff : Hidden g1 v p ↔ Hidden g2 v q := by
          unfold Hidden; rw [hev, e1.1, e1.2.2.2.2.2.1]
        simp only [Option.map_some, Function.comp_def, Option.some.injEq]
        by_cases hh : Hidden g1 v p
        · have hh2 := hiff.mp hh
          simp [hh, hh2, hidePlayer]
        · have hh2 : ¬ Hidden g2 v q := fun h => hh (hiff.mpr h)
          have := hvis k p q hp hq hh
          subst this
          simp [hh, hh2]

/-! ## K1: every field of the Go state structs is classified -/

inductive Cls
  | pub        -- public: kept by both redactions; modelled
  | secret     -- may have to be hidden; blanked by the redactions as proved above; modelled
  | nested     -- struct-valued container whose members are classified one by one
  | info       -- informational, not modelled: carries no card (scalar/action/timestamp/id)
deriving DecidableEq, Repr

/-- (struct, field) of every field reachable from the Go type `GameState`, with the model's
    classification.  Model counterparts: `Meta.Deck` = `opts.deck`, `Status.Burned` = `burned`,
    `PlayerState.HoleCards` = `hole`, `PlayerState.Combination` (+ `CombinationInfo.*`) = `comb`;
    public fields = `publicPart`. -/
def classified : List ((String × String) × Cls) := [
  (("GameState", "GameID"), .info), (("GameState", "CreatedAt"), .info), (("GameState", "UpdatedAt"), .info),
  (("GameState", "Meta"), .nested),
  (("Meta", "Ante"), .pub), (("Meta", "Blind"), .nested),
  (("BlindSetting", "Dealer"), .pub), (("BlindSetting", "SB"), .pub), (("BlindSetting", "BB"), .pub),
  (("Meta", "Limit"), .pub), (("Meta", "HoleCardsCount"), .pub), (("Meta", "RequiredHoleCardsCount"), .pub),
  (("Meta", "CombinationPowers"), .pub),
  (("Meta", "Deck"), .secret),
  (("Meta", "BurnCount"), .info),
  (("GameState", "Status"), .nested),
  (("Status", "MiniBet"), .pub), (("Status", "MaxWager"), .info),
  (("Status", "Pots"), .pub),
  (("Pot", "Level"), .pub), (("Pot", "Wager"), .pub), (("Pot", "Total"), .pub), (("Pot", "Contributors"), .pub),
  (("Pot", "Levels"), .pub),
  (("Level", "Level"), .pub), (("Level", "Wager"), .pub), (("Level", "Total"), .pub), (("Level", "Contributors"), .pub),
  (("Status", "Round"), .pub),
  (("Status", "Burned"), .secret),
  (("Status", "Board"), .pub),
  (("Status", "PreviousRaiseSize"), .pub), (("Status", "CurrentDeckPosition"), .pub),
  (("Status", "CurrentRoundPot"), .pub), (("Status", "CurrentWager"), .pub), (("Status", "CurrentRaiser"), .pub),
  (("Status", "CurrentPlayer"), .pub), (("Status", "CurrentEvent"), .pub),
  (("Status", "LastAction"), .info),
  (("Action", "Source"), .info), (("Action", "Type"), .info), (("Action", "Value"), .info),
  (("GameState", "Players"), .nested),
  (("PlayerState", "Idx"), .pub), (("PlayerState", "Positions"), .pub), (("PlayerState", "Acted"), .pub),
  (("PlayerState", "DidAction"), .info),
  (("PlayerState", "Fold"), .pub),
  (("PlayerState", "VPIP"), .info),
  (("PlayerState", "AllowedActions"), .pub), (("PlayerState", "Bankroll"), .pub),
  (("PlayerState", "InitialStackSize"), .pub), (("PlayerState", "StackSize"), .pub), (("PlayerState", "Pot"), .pub),
  (("PlayerState", "Wager"), .pub),
  (("PlayerState", "HoleCards"), .secret),
  (("PlayerState", "Combination"), .secret),
  (("CombinationInfo", "Type"), .secret), (("CombinationInfo", "Cards"), .secret), (("CombinationInfo", "Power"), .secret),
  (("GameState", "Result"), .pub),
  (("Result", "Players"), .pub),
  (("PlayerResult", "Idx"), .pub), (("PlayerResult", "Final"), .pub), (("PlayerResult", "Changed"), .pub),
  (("Result", "Pots"), .pub),
  (("PotResult", "rank"), .info),
  (("Rank", "contributerCount"), .info), (("Rank", "groups"), .info),
  (("RankGroup", "Contributors"), .info), (("RankGroup", "Score"), .info),
  (("PotResult", "level"), .pub),
  (("PotLevel", "levels"), .pub),
  (("LevelInfo", "rank"), .pub),
  (("LevelInfo", "Level"), .pub), (("LevelInfo", "Wager"), .pub), (("LevelInfo", "Total"), .pub),
  (("LevelInfo", "Contributors"), .pub),
  (("PotResult", "oddChipOffset"), .info),
  (("PotResult", "Total"), .pub), (("PotResult", "Winners"), .pub),
  (("Winner", "Idx"), .pub), (("Winner", "Withdraw"), .pub)
]

/-- **K1 obligation.**  Every field reachable from the Go type `GameState` (list regenerated
    from the Go source by reflection on every run) is classified by the model.  A field added
    to any state struct later is not in `classified` and breaks this proof. -/
theorem fields_covered :
    ∀ f ∈ Generated.stateFields, (f.1, f.2.1) ∈ classified.map Prod.fst := by decide

/-- The classification has no stale entries (every classified field exists in the Go
    structs) and classifies every field exactly once. -/
theorem classified_exact :
    (∀ c ∈ classified, c.1 ∈ Generated.stateFields.map fun f => (f.1, f.2.1)) ∧
    (classified.map Prod.fst).Nodup := by decide

/-- Card-carrying Go fields are `[]string` fields named Deck/Burned/Board/HoleCards/Cards.
    None of them (indeed no `[]string` field at all) is dismissed as informational or as a
    mere container: each is public or secret, i.e. modelled and covered by the theorems above. -/
theorem card_fields_modelled :
    ∀ f ∈ Generated.stateFields, f.2.2.1 = "[]string" →
      ((f.1, f.2.1), Cls.pub) ∈ classified ∨ ((f.1, f.2.1), Cls.secret) ∈ classified := by decide

/-- The `[]string` fields of the Go state are exactly these (so the naming convention above
    is checked too): the card lists plus `Positions` and `AllowedActions`. -/
theorem string_list_fields :
    (Generated.stateFields.filter (fun f => f.2.2.1 == "[]string")).map (fun f => (f.1, f.2.1)) =
      [("Meta", "Deck"), ("Status", "Burned"), ("Status", "Board"), ("PlayerState", "Positions"),
       ("PlayerState", "AllowedActions"), ("PlayerState", "HoleCards"), ("CombinationInfo", "Cards")] := by decide

/-- The fields classified secret are exactly the ones the redactions blank (and the theorems
    above speak about): deck, burned cards, hole cards, the evaluation and its members. -/
theorem secret_fields :
    (classified.filter (fun c => c.2 == .secret)).map Prod.fst =
      [("Meta", "Deck"), ("Status", "Burned"), ("PlayerState", "HoleCards"), ("PlayerState", "Combination"),
       ("CombinationInfo", "Type"), ("CombinationInfo", "Cards"), ("CombinationInfo", "Power")] := by decide

/-! ## Non-vacuity: a concrete closed and a concrete running hand -/

section Examples

def c1 : Card := ⟨83, 14⟩
def c2 : Card := ⟨72, 13⟩
def c3 : Card := ⟨68, 12⟩
def c4 : Card := ⟨67, 11⟩
def c5 : Card := ⟨83, 10⟩
def c6 : Card := ⟨72, 9⟩
def c7 : Card := ⟨68, 8⟩

def mkP (i : Nat) (fold : Bool) (h : List Card) : Player :=
  { idx := i, posDealer := i == 0, posSB := i == 1, posBB := i == 2, fold := fold, bankroll := 100, initial := 100,
    stack := 90, wager := 10, hole := h, comb := some { cat := some .highCard, cards := h, power := 7 } }

def exMeta : Meta :=
  { ante := 0, blindDealer := 0, blindSB := 5, blindBB := 10, potLimit := false, holeCount := 2, required := 0,
    lvl := fun _ => 0, table := [], deck := [c1, c2, c3, c4, c5, c6, c7] }

/-- three seats, seat 1 folded, one burned card, mid-hand -/
def exRunning : Game :=
  { opts := exMeta, players := [mkP 0 false [c1, c2], mkP 1 true [c3, c4], mkP 2 false [c5, c6]],
    round := .flop, burned := [c7], deckPos := 7, event := .roundStarted }

def exClosed : Game := { exRunning with event := .gameClosed }

def holes (g : Game) : List (List Card) := g.players.map (·.hole)

example : holes (exRunning.asPlayer 0) = [[c1, c2], [], []] := by decide
example : holes (exRunning.asPlayer 2) = [[], [], [c5, c6]] := by decide
example : holes exRunning.asObserver = [[], [], []] := by decide
example : holes (exClosed.asPlayer 0) = [[c1, c2], [], [c5, c6]] := by decide
/-- the folded viewer still sees the own cards after the close -/
example : holes (exClosed.asPlayer 1) = [[c1, c2], [c3, c4], [c5, c6]] := by decide
example : holes exClosed.asObserver = [[c1, c2], [], [c5, c6]] := by decide
example : (exRunning.asPlayer 0).opts.deck = [] ∧ (exRunning.asPlayer 0).burned = [] := by decide
/-- hypotheses of `asPlayer_hides` are satisfiable: seat 2 is hidden from seat 0 while running -/
example : exRunning.players[2]? = some (mkP 2 false [c5, c6]) ∧ (mkP 2 false [c5, c6]).idx ≠ 0 ∧
    exRunning.event ≠ .gameClosed := by decide
/-- hypotheses of `asPlayer_keeps` (2): seat 2 is not hidden from seat 0 after the close -/
example : ¬ Hidden exClosed (some 0) (mkP 2 false [c5, c6]) := by decide
/-- `HiddenCard` is satisfiable: `c7` (burned) and `c5` (seat 2's card) are hidden from seat 0 -/
example : HiddenCard exRunning (some 0) c7 := Or.inr (Or.inl (by simp [exRunning]))
example : HiddenCard exRunning (some 0) c5 :=
  Or.inr (Or.inr ⟨mkP 2 false [c5, c6], by simp [exRunning], by decide, by simp [mkP]⟩)
/-- non-interference is not vacuous: a state with other hidden cards, same view for seat 0 -/
def exRunning' : Game :=
  { exRunning with opts := { exMeta with deck := [c7, c6, c5] }, burned := [c4],
                   players := [mkP 0 false [c1, c2], { mkP 1 true [c7, c7] with comb := none }, mkP 2 false [c3, c3]] }
example : exRunning.view (some 0) = exRunning'.view (some 0) :=
  view_noninterference (some 0) exRunning exRunning' (by simp [publicPart, exRunning, exRunning', metaPub, exMeta, playerPub, mkP])
    (by
      intro k p1 p2 h1 h2 hh
      match k with
      | 0 => simp [exRunning, exRunning'] at h1 h2; rw [← h1, ← h2]
      | 1 => simp [exRunning] at h1; subst h1; exact absurd (by decide) hh
      | 2 => simp [exRunning] at h1; subst h1; exact absurd (by decide) hh
      | k + 3 => simp [exRunning] at h1)

end Examples

/-! ## No hidden card in ANY card field of a view (public fields included)

`no_hidden_card_in_view` above only looks at the fields the redaction blanks.  The theorems of this
section look at EVERY card-valued field of the state prepared for a viewer — the public ones
included — and use that the cards of a real hand are all different (C14) and that a reported
combination is made of its owner's hole cards and of board cards (the enumeration of C10 only picks
among the cards it is given: `combOwn_reachable`, Proofs/GapsBComb.lean).

Card-valued fields of `Game` (by `parts_cover` every field is in `publicPart` or `secretPart`; the
only component of `publicPart` whose type mentions `Card` is `board`):
`opts.deck`, `burned`, `board`, `players[].hole`, `players[].comb.cards` — collected in `cardFields`. -/

/-- Card `c` is hidden from viewer `v` in state `g`: it is in the UNDEALT rest of the deck (below the
    cursor `deckPos`), or burned, or a hole card of a player whose record the view rules hide from
    `v` (`Hidden g v p`: not the viewer's own record, and the hand is not closed or `p` folded — i.e.
    during the hand every other player, after the close the folded other players). -/
def HiddenFrom (g : Game) (v : Viewer) (c : Card) : Prop :=
  c ∈ g.opts.deck.drop g.deckPos ∨ c ∈ g.burned ∨ ∃ p ∈ g.players, Hidden g v p ∧ c ∈ p.hole

instance (g : Game) (v : Viewer) (c : Card) : Decidable (HiddenFrom g v c) := by
  unfold HiddenFrom; infer_instance

/-- Every card stored anywhere in a state: deck list, burned cards, board, and every player's hole
    cards and reported combination cards. -/
def cardFields (g : Game) : List Card :=
  g.opts.deck ++ g.burned ++ g.board ++ g.players.flatMap fun p => p.hole ++ combCards p

/-- **A hidden card occurs nowhere in the state prepared for a viewer** (player or observer).
    `g` is any state reached by any sequence of operations from a successfully started hand whose
    deck is duplicate-free and long enough (`ReachableC`, the domain of C14 — any seat count, any
    rule, any hole-card count, any ranking table); `v` is a seat or the observer; `c` is hidden
    from `v` (`HiddenFrom`).  Then `c` is not in the view's deck list, not among its burned cards,
    NOT ON ITS BOARD, in NO player's hole cards as shown in the view (own cards, cards shown after
    the close) and in NO player's reported combination as shown in the view (the viewer's own
    combination and the combinations of shown players contain only their owners' hole cards and
    board cards — `combOwn_reachable` —, none of which is hidden). -/
theorem hidden_card_nowhere (g : Game) (h : ReachableC g) (v : Viewer) (c : Card) (hc : HiddenFrom g v c) :
    c ∉ (g.view v).opts.deck ∧ c ∉ (g.view v).burned ∧ c ∉ (g.view v).board ∧
    ∀ q ∈ (g.view v).players, c ∉ q.hole ∧ c ∉ combCards q := by
  rw [view_eq_blank]
  obtain ⟨h1, h2, h3, h4⟩ := hidden_nowhere_in_blank (cinv_reachable h).core (combOwn_reachable h) v c hc
  refine ⟨h1, h2, h3, fun q hq => ⟨(h4 q hq).1, ?_⟩⟩
  unfold combCards
  cases hqc : q.comb with
  | none => simp
  | some cb => simpa using (h4 q hq).2 cb hqc

/-- **`hidden_card_nowhere_in_view`** — the statement for `AsPlayer(i)`: no card hidden from seat
    `i` (undealt, burned, or a hole card of another player who is still hidden: everybody else
    during the hand, the folded others after the close) occurs in any card field of `g.asPlayer i`. -/
theorem hidden_card_nowhere_in_view (g : Game) (h : ReachableC g) (i : Nat) (c : Card)
    (hc : HiddenFrom g (some i) c) :
    c ∉ (g.asPlayer i).opts.deck ∧ c ∉ (g.asPlayer i).burned ∧ c ∉ (g.asPlayer i).board ∧
    ∀ q ∈ (g.asPlayer i).players, c ∉ q.hole ∧ c ∉ combCards q :=
  hidden_card_nowhere g h (some i) c hc

/-- **`hidden_card_nowhere_in_observer_view`** — the statement for `AsObserver()`: no card hidden
    from an observer (undealt, burned, or a hole card of anybody during the hand / of a folded
    player after the close) occurs in any card field of `g.asObserver`. -/
theorem hidden_card_nowhere_in_observer_view (g : Game) (h : ReachableC g) (c : Card) (hc : HiddenFrom g none c) :
    c ∉ g.asObserver.opts.deck ∧ c ∉ g.asObserver.burned ∧ c ∉ g.asObserver.board ∧
    ∀ q ∈ g.asObserver.players, c ∉ q.hole ∧ c ∉ combCards q :=
  hidden_card_nowhere g h none c hc

/-- The same in one line: a hidden card is not among the cards stored anywhere in the view. -/
theorem hidden_card_not_in_cardFields (g : Game) (h : ReachableC g) (v : Viewer) (c : Card)
    (hc : HiddenFrom g v c) : c ∉ cardFields (g.view v) := by
  obtain ⟨h1, h2, h3, h4⟩ := hidden_card_nowhere g h v c hc
  simp only [cardFields, List.mem_append, List.mem_flatMap, not_or, not_exists, not_and]
  exact ⟨⟨⟨h1, h2⟩, h3⟩, fun q hq => ⟨(h4 q hq).1, (h4 q hq).2⟩⟩

/-- The facts about the state the theorem rests on, for reference: in every reachable state the
    published combination of every seat is made of that seat's own hole cards and of board cards
    (any rule, any table). -/
theorem combination_cards_are_own (g : Game) (h : ReachableC g) :
    ∀ p ∈ g.players, ∀ x ∈ combCards p, x ∈ p.hole ∨ x ∈ g.board := by
  intro p hp x hx
  unfold combCards at hx
  cases hpc : p.comb with
  | none => rw [hpc] at hx; simp at hx
  | some cb => rw [hpc] at hx; exact combOwn_reachable h p hp cb hpc x (by simpa using hx)

/-! ### Non-vacuity: a real three-seat hand on a 26-card deck -/
section ReachableExamples

/-- 26 cards: spades 2…A, then hearts 2…A -/
def rDeck : List Card :=
  ((List.range 13).map fun r => (⟨83, r + 2⟩ : Card)) ++ ((List.range 13).map fun r => (⟨72, r + 2⟩ : Card))

def rMeta : Meta :=
  { ante := 0, blindDealer := 0, blindSB := 5, blindBB := 10, potLimit := false, holeCount := 2, required := 0,
    lvl := Generated.combinationLevel, table := Generated.powerStandard, deck := rDeck }

/-- dealer, small blind, big blind with 100 chips each -/
def rCfg : Config :=
  { opts := rMeta, seats := [⟨100, true, false, false⟩, ⟨100, false, true, false⟩, ⟨100, false, false, true⟩] }

theorem rReach (ops : List Op) : ReachableC ((start rCfg).1.run ops) :=
  ⟨rCfg, ops, ⟨⟨by decide, by decide, by decide, by decide⟩⟩, ⟨by decide, by decide⟩, by decide, rfl⟩

/-- to the flop: the dealer calls, the small blind folds, the big blind checks -/
def rToFlop : List Op := [.ready, .payBlinds, .ready, .act none .call 0, .act none .fold 0, .act none .check 0, .next]
/-- a street on which the folded small blind passes and the two others check -/
def rStreet : List Op := [.ready, .act none .pass 0, .act none .check 0, .act none .check 0]
def rToClose : List Op := rToFlop ++ rStreet ++ [.next] ++ rStreet ++ [.next] ++ rStreet ++ [.next]

def gFlop : Game := (start rCfg).1.run rToFlop
def gClose : Game := (start rCfg).1.run rToClose

set_option maxRecDepth 100000

theorem gFlop_facts : gFlop.event = .readyRequested ∧ gFlop.deckPos = 10 ∧ gFlop.opts.required = 0 ∧ gFlop.opts.holeCount = 2 ∧
    gFlop.players.map (fun p => (p.idx, p.fold, p.hole)) =
      [(0, false, [⟨83, 2⟩, ⟨83, 3⟩]), (1, true, [⟨83, 4⟩, ⟨83, 5⟩]), (2, false, [⟨83, 6⟩, ⟨83, 7⟩])] ∧
    gFlop.burned = [⟨83, 8⟩] ∧ gFlop.board = [⟨83, 9⟩, ⟨83, 10⟩, ⟨83, 11⟩] := by decide

theorem gClose_facts : gClose.event = .gameClosed ∧ gClose.deckPos = 14 ∧ gClose.opts.required = 0 ∧ gClose.opts.holeCount = 2 ∧
    gClose.players.map (fun p => (p.idx, p.fold, p.hole)) =
      [(0, false, [⟨83, 2⟩, ⟨83, 3⟩]), (1, true, [⟨83, 4⟩, ⟨83, 5⟩]), (2, false, [⟨83, 6⟩, ⟨83, 7⟩])] ∧
    gClose.burned = [⟨83, 8⟩, ⟨83, 12⟩, ⟨83, 14⟩] ∧
    gClose.board = [⟨83, 9⟩, ⟨83, 10⟩, ⟨83, 11⟩, ⟨83, 13⟩, ⟨72, 2⟩] := by decide

/-- `HiddenFrom` is satisfiable in a REACHABLE state, by each of its three clauses: on the flop the
    undealt Q♠, the burned 8♠ and seat 2's 6♠ are hidden from seat 0 … -/
theorem gFlop_hidden : HiddenFrom gFlop (some 0) ⟨83, 12⟩ ∧ HiddenFrom gFlop (some 0) ⟨83, 8⟩ ∧
    HiddenFrom gFlop (some 0) ⟨83, 6⟩ ∧ HiddenFrom gFlop none ⟨83, 2⟩ := by
  decide

/-- … so the theorem applies (all hypotheses hold) and says they are nowhere in seat 0's view … -/
example : (⟨83, 6⟩ : Card) ∉ cardFields (gFlop.view (some 0)) :=
  hidden_card_not_in_cardFields gFlop (rReach rToFlop) (some 0) _ gFlop_hidden.2.2.1

/-- … which, computed independently, holds exactly the viewer's own cards, the board, and the cards of
    the viewer's own combination (a subset of these). -/
example : cardFields (gFlop.asPlayer 0) =
    [⟨83, 9⟩, ⟨83, 10⟩, ⟨83, 11⟩, ⟨83, 2⟩, ⟨83, 3⟩, ⟨83, 11⟩, ⟨83, 10⟩, ⟨83, 9⟩, ⟨83, 3⟩, ⟨83, 2⟩] := by decide

/-- After the close the folded seat 1 stays hidden from seat 0 and from the observer, seat 2 is shown:
    4♠ (seat 1) is hidden, 6♠ (seat 2) is not — and does occur in the view. -/
theorem gClose_hidden : HiddenFrom gClose (some 0) ⟨83, 4⟩ ∧ HiddenFrom gClose none ⟨83, 4⟩ ∧
    ¬ HiddenFrom gClose (some 0) ⟨83, 6⟩ ∧ (⟨83, 6⟩ : Card) ∈ cardFields (gClose.asPlayer 0) ∧
    ¬ HiddenFrom gClose (some 1) ⟨83, 4⟩ := by
  decide

example : (⟨83, 4⟩ : Card) ∉ cardFields gClose.asObserver :=
  hidden_card_not_in_cardFields gClose (rReach rToClose) none _ gClose_hidden.2.1

/-- The no-duplicates hypothesis (inside `ReachableC`) is essential: on a deck that contains 9♠
    twice, the undealt copy is "hidden" yet the same card lies on the board. -/
example : let g := (start { rCfg with opts := { rMeta with deck := rDeck ++ [⟨83, 9⟩] } }).1.run rToFlop
    HiddenFrom g (some 0) ⟨83, 9⟩ ∧ (⟨83, 9⟩ : Card) ∈ (g.asPlayer 0).board := by
  decide

end ReachableExamples

end Pokerface.C15

section Axioms
open Pokerface.C15
#print axioms hidden_card_nowhere
#print axioms hidden_card_nowhere_in_view
#print axioms hidden_card_nowhere_in_observer_view
#print axioms hidden_card_not_in_cardFields
#print axioms combination_cards_are_own
end Axioms
