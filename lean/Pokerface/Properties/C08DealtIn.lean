/-
  C08, second sentence, carried THROUGH THE TABLE: "a player who takes an empty seat strictly between the dealer and the
  big blind is not DEALT IN until the button has passed that seat".

  The seat-manager theorems (`C08.newcomer_timing`, `C08A.newcomer_timing_general`) speak about seat `x` being PLAYABLE in
  the seat manager.  `C08T.game_players` says that the players of the game the table creates (`prepareNextGame` /
  `startGame`, table/internal.go) are exactly the playable seats, clockwise from the dealer.  This file composes the two:
  * `DealtIn t finals x`: the player on seat `x` is among the players of the game that `t.step (.hand finals)` creates
    (`x` is one of `GetPlayableSeats()`, the game's player settings are made from these seats, and the player on `x`
    carries the game index `k` of his entry: `GetPlayerByGameIdx(k)` is seat `x`);
  * `dealt_in_iff_playable`: whenever a reachable table creates a game, `DealtIn` ⇔ seat `x` is playable in the seat
    manager at the hand-off (the seat manager after `setupPosition`);
  * `dealt_in_iff_playable_after_next`: undisturbed hand-off (`inPosition = false`): that seat manager is
    `(t.sm.step .next).1`, the result of exactly one successful `Next()` of the table's own seat manager;
  * `newcomer_dealt_in_iff`, `newcomer_not_dealt_in_before_pass`: composed with the conclusion `Track` of
    `C08A.newcomer_timing_general` (same hypotheses D4 / D9 / D10, in `QuietRun`), for the seat manager under the table
    (reachable by `C08T.reachable_invariant`): the newcomer is among the players of the table's next game iff he has sat
    in and some `next` so far — including the one of this hand-off — moved the button past his seat.
-/
import Pokerface.Properties.C08Table
import Pokerface.Properties.C08Arrival

namespace Pokerface.C08D
open Pokerface Table SM

/-- "The player on seat `x` is dealt in by the table": the game created by `t.step (.hand finals)` (`prepareNextGame`)
has player settings made of the seats `GetPlayableSeats()` of the seat manager after `setupPosition` (state `t1`), seat
`x` is the `k`-th of them, and the sheet hands game index `k` to the player on seat `x`. -/
def DealtIn (t : Table) (finals : List Int) (x : Nat) : Prop :=
  ∃ t1 seats k, t.setupPosition = (t1, none) ∧ playableSeats t1.sm = some seats ∧
    (t.step (.hand finals)).2.cfg = some (t1.gameSeats seats) ∧ seats[k]? = some x ∧
    (t1.assignGameIdx seats).seatOfGameIdx k = some x ∧
    ∃ p, t1.players[x]? = some (some p) ∧ (t1.gameSeats seats)[k]? = some ⟨p.bankroll, p.dealer, p.sb, p.bb⟩

/-- **C08, "dealt in" = "playable at the hand-off"** (audit gap: `C08T.game_players` composed with playability).
Whenever a reachable table creates a game, the player on seat `x` is among its players (with a game index and an
entry of the player settings) iff seat `x` is a playable seat of the table's seat manager after `setupPosition`. -/
theorem dealt_in_iff_playable (t : Table) (h : TReachable t) (finals : List Int) (cfg : List SeatCfg)
    (hc : (t.step (.hand finals)).2.cfg = some cfg) (x : Nat) :
    DealtIn t finals x ↔ (x < t.setupPosition.1.sm.max ∧ t.setupPosition.1.sm.playable x = true) := by
  obtain ⟨t1, seats, d, hset, _, _, hps, hcfg, _, hpl, hidx, _⟩ := C08T.game_players t h finals cfg hc
  obtain ⟨_, _, _, _, _, hmem⟩ := playableSeats_spec hps
  rw [hset]
  constructor
  · rintro ⟨t1', seats', k, hset', hps', _, hk, _⟩
    rw [hset] at hset'
    cases hset'
    rw [hps] at hps'
    cases hps'
    exact (hmem x).mp (List.mem_of_getElem? hk)
  · intro hx
    obtain ⟨k, hk⟩ := List.getElem?_of_mem ((hmem x).mpr hx)
    obtain ⟨_, p, hp, hck⟩ := hpl k x hk
    exact ⟨t1, seats, k, hset, hps, by rw [hc, hcfg], hk, hidx k x hk, p, hp, by rw [← hcfg]; exact hck⟩

/-- Undisturbed hand-off (`inPosition = false`: the positions are set up by this very `prepareNextGame`): the seat
manager at the hand-off is the table's seat manager after exactly one successful `Next()`. -/
theorem dealt_in_iff_playable_after_next (t : Table) (h : TReachable t) (hp : t.inPosition = false) (finals : List Int)
    (cfg : List SeatCfg) (hc : (t.step (.hand finals)).2.cfg = some cfg) (x : Nat) :
    (t.sm.step .next).2.1 = none ∧
    (DealtIn t finals x ↔ (x < (t.sm.step .next).1.max ∧ (t.sm.step .next).1.playable x = true)) := by
  obtain ⟨t1, _, _, hset, _⟩ := C08T.game_players t h finals cfg hc
  obtain ⟨hsm, hok, _⟩ := C08T.positions_copied t t1 hp hset
  refine ⟨hok, ?_⟩
  have := dealt_in_iff_playable t h finals cfg hc x
  rw [hset] at this
  rw [← hsm]
  exact this

/-- **C08 second sentence at the table** ("… is not dealt in until the button has passed that seat — not before, and
not later").  `t` is a reachable table about to hand off undisturbed (`inPosition = false`) and it creates a game.  Its
seat manager `t.sm` (a reachable seat manager, `C08T.reachable_invariant`) is at a point of a history of the newcomer on
seat `x` as in `C08A.newcomer_timing_general`: `Track x t.sm sat passed (.next :: ops)` — the conclusion of that theorem
at the moment the `Next()` of this hand-off is the next operation (ghost state: `sat` the newcomer's `Seat(x)` has
happened, `passed` some earlier `next` moved the button past `x`); it holds under the hypotheses D4 / D9 / D10 of the
seat-manager theorem (`QuietRun`).  Then the newcomer is among the players of the game the table creates **iff** he has
sat in and the button has passed his seat, in an earlier `next` or in the `Next()` of this hand-off. -/
theorem newcomer_dealt_in_iff (t : Table) (h : TReachable t) (hp : t.inPosition = false) (finals : List Int)
    (cfg : List SeatCfg) (hc : (t.step (.hand finals)).2.cfg = some cfg) (x : Nat) (hx : x < t.sm.max)
    (sat : Bool) (passed : Prop) (ops : List SMOp) (htr : Track x t.sm sat passed (.next :: ops)) :
    DealtIn t finals x ↔ (sat = true ∧ (passed ∨ PassedStep t.sm x)) := by
  obtain ⟨_, hiff⟩ := dealt_in_iff_playable_after_next t h hp finals cfg hc x
  have hnext : (t.sm.step .next).1.playable x = true ↔ (sat = true ∧ (passed ∨ PassedStep t.sm x)) := by
    have h4 := htr.2.2.2
    have h5 : (t.sm.step .next).1.playable x = true ↔
        ((sat || decide (SMOp.next = .seat (x : Int))) = true ∧ (passed ∨ (SMOp.next = .next ∧ PassedStep t.sm x))) := by
      cases ops with
      | nil => exact h4
      | cons _ _ => exact h4.1
    rw [h5]
    simp
  have hmax : (t.sm.step .next).1.max = t.sm.max := SM.step_max h.inv.smr.inv .next
  rw [hiff, hmax, hnext]
  exact ⟨fun a => a.2, fun a => ⟨hx, a⟩⟩

/-- **"Not before"**, literally about being dealt in by the table: in the situation of `newcomer_dealt_in_iff`, if no
`next` so far has moved the button past seat `x` and the `Next()` of this hand-off does not either, the newcomer is NOT
among the players of the game the table creates — although the game is created and he may well have sat in. -/
theorem newcomer_not_dealt_in_before_pass (t : Table) (h : TReachable t) (hp : t.inPosition = false) (finals : List Int)
    (cfg : List SeatCfg) (hc : (t.step (.hand finals)).2.cfg = some cfg) (x : Nat) (hx : x < t.sm.max)
    (sat : Bool) (passed : Prop) (ops : List SMOp) (htr : Track x t.sm sat passed (.next :: ops))
    (hnp : ¬ passed) (hns : ¬ PassedStep t.sm x) : ¬ DealtIn t finals x := by
  rw [newcomer_dealt_in_iff t h hp finals cfg hc x hx sat passed ops htr]
  rintro ⟨_, hor⟩
  exact hor.elim hnp hns

/-! ## The hand-off in general (also `inPosition = true`: every hand but the first)

After a hand has been played, `prepareNextGame` closes it with a `setupPosition` of its own (`C08T.closing_setup`), so the
NEXT `prepareNextGame` finds `inPosition = true`, its `setupPosition` does nothing, and the seat manager at the hand-off is
the table's current one — the `Next()` that belongs to this hand-off is the closing one of the previous call. -/

/-- with the positions already set up, `setupPosition` does nothing -/
theorem setupPosition_of_inPosition (t : Table) (hp : t.inPosition = true) : t.setupPosition = (t, none) := by
  simp [Table.setupPosition, hp]

/-- the first clause of `Track`, at any point of the history -/
theorem track_head {x : Nat} {U : SM} {sat : Bool} {passed : Prop} {ops : List SMOp} (h : Track x U sat passed ops) :
    U.playable x = true ↔ (sat = true ∧ passed) := by
  cases ops with
  | nil => exact h
  | cons _ _ => exact h.1

/-- **C08 second sentence at the table, any hand-off.**  A reachable table creates a game.  The seat manager at the
hand-off, `t.setupPosition.1.sm` (= `t.sm` when `inPosition = true`, = `t.sm` after one `Next()` otherwise), is at a
point of a history of the newcomer on seat `x` as in `C08A.newcomer_timing_general` (`Track …`, ghost state `sat` /
`passed`; whatever operations `ops` follow).  Then the newcomer is among the players of that game **iff** he has sat in
and some `next` so far has moved the button past his seat. -/
theorem newcomer_dealt_in_iff_at_hand_off (t : Table) (h : TReachable t) (finals : List Int)
    (cfg : List SeatCfg) (hc : (t.step (.hand finals)).2.cfg = some cfg) (x : Nat) (hx : x < t.setupPosition.1.sm.max)
    (sat : Bool) (passed : Prop) (ops : List SMOp) (htr : Track x t.setupPosition.1.sm sat passed ops) :
    DealtIn t finals x ↔ (sat = true ∧ passed) := by
  rw [dealt_in_iff_playable t h finals cfg hc x, track_head htr]
  exact ⟨fun a => a.2, fun a => ⟨hx, a⟩⟩

/-- **"Not dealt in until the button has passed that seat"**, any hand-off, literally about the players of the table's
game: as long as no `next` has moved the button past seat `x` (`¬ passed`), the newcomer is not among them. -/
theorem newcomer_not_dealt_in_before_pass_at_hand_off (t : Table) (h : TReachable t) (finals : List Int)
    (cfg : List SeatCfg) (hc : (t.step (.hand finals)).2.cfg = some cfg) (x : Nat) (hx : x < t.setupPosition.1.sm.max)
    (sat : Bool) (passed : Prop) (ops : List SMOp) (htr : Track x t.setupPosition.1.sm sat passed ops)
    (hnp : ¬ passed) : ¬ DealtIn t finals x := by
  rw [newcomer_dealt_in_iff_at_hand_off t h finals cfg hc x hx sat passed ops htr]
  exact fun a => hnp a.2

/-! ## Non-vacuity -/

/-- `C08T.demo` (first hand, `inPosition = false`): seats 0, 2, 3 are dealt in, seats 1 and 4 are not. -/
example : TReachable C08T.demo ∧ C08T.demo.inPosition = false ∧ (C08T.demo.step (.hand [150, 200, 0])).2.cfg.isSome = true :=
  ⟨C08T.demo_reachable, by decide, by decide⟩
example : DealtIn C08T.demo [150, 200, 0] 2 :=
  (dealt_in_iff_playable C08T.demo C08T.demo_reachable [150, 200, 0] [⟨100, true, false, false⟩, ⟨200, false, true, false⟩, ⟨50, false, false, true⟩] (by decide) 2).mpr (by decide)
example : ¬ DealtIn C08T.demo [150, 200, 0] 4 := fun hd =>
  absurd ((dealt_in_iff_playable C08T.demo C08T.demo_reachable [150, 200, 0] [⟨100, true, false, false⟩, ⟨200, false, true, false⟩, ⟨50, false, false, true⟩] (by decide) 4).mp hd) (by decide)

/-- `demo` after its first hand (everybody keeps chips; the closing `Next()` gives dealer 2, small blind 3, big blind 0 and
deactivates the empty seat 4, which lies strictly between the dealer and the big blind). -/
def afterHand : Table := (C08T.demo.step (.hand [100, 200, 50])).1
/-- … then player 9 joins seat 4 and sits in. -/
def newcomer : Table := afterHand.run [.join 4 9 100 none, .activate 4]

theorem afterHand_reachable : TReachable afterHand := C08T.demo_reachable.step _
theorem newcomer_reachable : TReachable newcomer := (afterHand_reachable.step _).step _

/-- the seat manager under the table is the seat manager of the arrival history: `Join(4)`, `Seat(4)` from `afterHand.sm` -/
theorem newcomer_sm : newcomer.setupPosition.1.sm = ((afterHand.sm.step (.join 4 9 none)).1.step (.seat ((4 : Nat) : Int))).1 := by
  decide

/-- **Non-vacuity of the composition, end to end**: the hypotheses of `C08A.newcomer_timing_general` hold for the seat
manager under `afterHand` (reachable by `C08T.reachable_invariant`; dealer 2, seat 4 = two places after him, inactive;
`Join` accepted on seat 4; the history `[Seat(4)]` is quiet), its conclusion `Track` feeds
`newcomer_not_dealt_in_before_pass_at_hand_off`, and the game the table then creates (it IS created: three players) does not
contain the newcomer although he has sat in: the button has not passed seat 4. -/
example : (newcomer.step (.hand [])).2.cfg = some [⟨200, true, false, false⟩, ⟨50, false, true, false⟩, ⟨100, false, false, true⟩] ∧
    ¬ DealtIn newcomer [] 4 := by
  have hA : SM.Reachable afterHand.sm := (C08T.reachable_invariant afterHand afterHand_reachable).2.2.1
  have htr := C08A.newcomer_timing_general afterHand.sm hA 2 2 4 ⟨none, false, false⟩ 4 9 none (by decide) (by decide)
    (by decide) (by decide) (by decide) rfl (by decide) [.seat ((4 : Nat) : Int)] ⟨Or.inr (Or.inl rfl), trivial⟩
  have htr' := htr.2.2.2
  rw [← newcomer_sm] at htr'
  refine ⟨by decide, ?_⟩
  refine newcomer_not_dealt_in_before_pass_at_hand_off newcomer newcomer_reachable []
    [⟨200, true, false, false⟩, ⟨50, false, true, false⟩, ⟨100, false, false, true⟩] (by decide) 4 (by decide)
    _ _ [] htr' ?_
  rintro (hf | ⟨hf, _⟩)
  · exact hf
  · cases hf

end Pokerface.C08D

#print axioms Pokerface.C08D.dealt_in_iff_playable
#print axioms Pokerface.C08D.dealt_in_iff_playable_after_next
#print axioms Pokerface.C08D.newcomer_dealt_in_iff
#print axioms Pokerface.C08D.newcomer_not_dealt_in_before_pass
#print axioms Pokerface.C08D.newcomer_dealt_in_iff_at_hand_off
#print axioms Pokerface.C08D.newcomer_not_dealt_in_before_pass_at_hand_off
