import Pokerface.Proofs.Forced
import Pokerface.Proofs.BetsExamples
/-
  C13 — Antes and blinds are posted by the right seats in the right amounts.

  The state the property speaks about ("before the first betting round", anchored NOT at
  `PayBlinds` but at the first state that waits for `ReadyForAll` in the preflop round) is
  `afterForcedBets c`: from the freshly started hand `(start c).1` the operations
  `ReadyForAll`, then `PayAnte` iff ante > 0, then `PayBlinds` iff not all three blinds are 0
  (`forcedOps`).  `forced_path` shows that each of these is accepted, that the engine asks for
  exactly them (events `AnteRequested`, `BlindsRequested`), and that the result is the first state
  with round = preflop and event = ReadyRequested.

  Domain (`Accepted c`): ante and the three blinds ≥ 0 (`WFConfig`), and `Start()` accepts the
  table: n ≥ 2 seats, a dealer, every bankroll > 0, a non-empty deck.  Nothing else is assumed:
  any seat count and button position, any subsets of positions per seat (reading I1 decides what a
  seat with several positions posts), any sizes of forced bets and bankrolls.
-/
namespace Pokerface.C13
open Pokerface Game

/-- the configurations the engine accepts -/
structure Accepted (c : Config) : Prop where
  wf : WFConfig c
  started : (start c).2 = none

/-- what `Start()` checks, spelled out -/
theorem Accepted.facts {c : Config} (h : Accepted c) :
    2 ≤ c.seats.length ∧ (∀ s ∈ c.seats, 0 < s.bankroll) ∧
    0 ≤ c.opts.ante ∧ 0 ≤ c.opts.blindDealer ∧ 0 ≤ c.opts.blindSB ∧ 0 ≤ c.opts.blindBB := by
  obtain ⟨h1, h2, _⟩ := start_ok c h.started
  refine ⟨by rw [← config_players_length]; exact h1, ?_, h.wf.opts.ante0, h.wf.opts.bd0, h.wf.opts.sb0, h.wf.opts.bb0⟩
  intro s hs
  obtain ⟨i, hi, hsi⟩ := List.getElem_of_mem hs
  have hi' : i < c.players.length := by rw [config_players_length]; exact hi
  have hp : c.players[i]? = some c.players[i] := by simp [List.getElem?_eq_getElem hi']
  obtain ⟨s', hs', _, _, _, _, hb⟩ := config_seat c i _ hp
  have : s' = s := by
    have : c.seats[i]? = some s := by simp [List.getElem?_eq_getElem hi, hsi]
    rw [this] at hs'; exact (Option.some.inj hs').symm
  subst this
  rw [← hb]; exact h2 _ (List.getElem_mem hi')

/-- The path to the first betting round.  The fresh hand waits for `ReadyForAll` with no round yet;
    `ReadyForAll` is accepted; with an ante the engine then requests it and accepts `PayAnte`; then, unless all
    three blinds are 0, it requests the blinds and accepts `PayBlinds`; the state reached is a preflop state that waits
    for `ReadyForAll`, and it is the run of `forcedOps` (hence reachable). -/
theorem forced_path {c : Config} (h : Accepted c) :
    ((start c).1.event = .readyRequested ∧ (start c).1.round = .none) ∧
    ((start c).1.step .ready).2 = none ∧
    (c.opts.ante > 0 → (afterReady c).event = .anteRequested ∧ ((afterReady c).step .payAnte).2 = none) ∧
    (¬ c.opts.noBlinds → (afterAnte c).event = .blindsRequested ∧ ((afterAnte c).step .payBlinds).2 = none) ∧
    ((afterForcedBets c).event = .readyRequested ∧ (afterForcedBets c).round = .preflop) ∧
    afterForcedBets c = (start c).1.run (forcedOps c.opts) ∧ Reachable (afterForcedBets c) := by
  have sp := forcedSpec c h.started
  obtain ⟨_, e1, e2⟩ := pre_start c h.started
  exact ⟨⟨e1, e2⟩, sp.ready_ok, fun ha => ⟨sp.ante_ev ha, sp.ante_ok ha⟩, fun hb => ⟨sp.blinds_ev hb, sp.blinds_ok hb⟩,
    ⟨sp.ev, sp.round⟩, afterForcedBets_eq_run c, reachable_afterForcedBets c h.wf h.started⟩

/-- the state "waits for `ReadyForAll` in the preflop round" -/
def PreflopReady (g : Game) : Prop := g.round = .preflop ∧ g.event = .readyRequested

/-- Anchor of the property, over all histories: along EVERY sequence of operations (accepted or refused, with any
    arguments) from the freshly started hand, the first state that waits for `ReadyForAll` in the preflop round is
    `afterForcedBets c`.  (Before it, every operation other than the awaited one is refused without effect.) -/
theorem first_preflop_ready {c : Config} (h : Accepted c) (ops : List Op)
    (hg : PreflopReady ((start c).1.run ops))
    (hfirst : ∀ ops1 ops2, ops = ops1 ++ ops2 → ops2 ≠ [] → ¬ PreflopReady ((start c).1.run ops1)) :
    (start c).1.run ops = afterForcedBets c := by
  rcases run_through_forced c h.wf h.started ops _ (Or.inl rfl) with hb | ⟨o1, o2, e1, e2⟩
  · exact absurd hg (beforeForced_not_preflop_ready c h.started hb)
  · by_cases ho : o2 = []
    · subst ho; rw [e1, List.append_nil]; exact e2
    · have sp := forcedSpec c h.started
      exact absurd (show PreflopReady ((start c).1.run o1) by rw [e2]; exact ⟨sp.round, sp.ev⟩) (hfirst o1 o2 e1 ho)

/-- The table after the forced bets is the configured table: same seats in the same order with the same
    positions and bankrolls. -/
theorem seats_kept {c : Config} (h : Accepted c) :
    (afterForcedBets c).n = c.seats.length ∧
    ∀ (j : Nat) (q : Player), (afterForcedBets c).players[j]? = some q →
      ∃ s, c.seats[j]? = some s ∧ q.idx = j ∧ q.posDealer = s.dealer ∧ q.posSB = s.sb ∧ q.posBB = s.bb ∧
        q.bankroll = s.bankroll := by
  refine ⟨afterForcedBets_n c h.started, fun j q hq => ?_⟩
  obtain ⟨s, a, b, c1, d, e, f, _⟩ := forced_seat c h.wf h.started hq
  exact ⟨s, a, b, c1, d, e, f⟩

/-- "every player has paid the ante … capped at what the player has": each player's contribution to the
    pot is min(ante, bankroll) (0 without ante). -/
theorem ante_paid {c : Config} (h : Accepted c) {q : Player} (hq : q ∈ (afterForcedBets c).players) :
    q.pot = min c.opts.ante q.bankroll := by
  obtain ⟨j, hj, hqj⟩ := List.getElem_of_mem hq
  obtain ⟨s, _, _, _, _, _, hb, hp, _⟩ := forced_seat c h.wf h.started
    (show (afterForcedBets c).players[j]? = some q by simp [List.getElem?_eq_getElem hj, hqj])
  rw [hp, hb]

/-- "the holders of the big blind, small blind and dealer blind have posted their blind, each capped at
    what the player has (a shorter stack is all-in for less)": each player's wager is
    min(bankroll − ante paid, blind owed), where the blind owed `blindOf` is that of the seat's first position in
    the order bb > sb > dealer among the positions with a positive blind (reading I1), 0 for a seat without such a
    position.  The rest of the bankroll is the stack. -/
theorem blinds_posted {c : Config} (h : Accepted c) {q : Player} (hq : q ∈ (afterForcedBets c).players) :
    q.wager = min (q.bankroll - q.pot) (blindOf c.opts q) ∧
    q.stack = q.bankroll - q.pot - q.wager ∧ q.initial = q.bankroll - q.pot := by
  obtain ⟨j, hj, hqj⟩ := List.getElem_of_mem hq
  obtain ⟨s, _, _, _, _, _, hb, _, hw, hs, hi⟩ := forced_seat c h.wf h.started
    (show (afterForcedBets c).players[j]? = some q by simp [List.getElem?_eq_getElem hj, hqj])
  rw [hb]; exact ⟨hw, hs, hi⟩

/-- "nobody else has posted anything": a seat that owes no blind has no wager. -/
theorem nobody_else_posted {c : Config} (h : Accepted c) {q : Player} (hq : q ∈ (afterForcedBets c).players)
    (h0 : blindOf c.opts q = 0) : q.wager = 0 := by
  have hw := (blinds_posted h hq).1
  have hp := ante_paid h hq
  have hr := (inv_reachable (reachable_afterForcedBets c h.wf h.started)).chips0.pinv q hq
  have := hr.stack0; have := hr.split; have := hr.wager0
  rw [h0] at hw
  omega

/-- `blindOf` spelled out for the usual layouts: a big-blind seat owes BB; a small-blind seat that is not
    the big blind owes SB; a dealer that is neither owes the dealer blind; a seat without position owes nothing
    (positive blinds assumed where they matter). -/
theorem blindOf_cases (m : Meta) (q : Player) :
    (q.posBB = true → m.blindBB > 0 → blindOf m q = m.blindBB) ∧
    (q.posBB = false → q.posSB = true → m.blindSB > 0 → blindOf m q = m.blindSB) ∧
    (q.posBB = false → q.posSB = false → q.posDealer = true → 0 ≤ m.blindDealer → blindOf m q = m.blindDealer) ∧
    (q.posBB = false → q.posSB = false → q.posDealer = false → blindOf m q = 0) := by
  unfold Game.blindOf
  refine ⟨fun a b => by simp [a, b], fun a b c => by simp [a, b, c], fun a b c d => ?_, fun a b c => by simp [a, b, c]⟩
  simp only [a, b, c, Bool.false_eq_true, and_false, and_true, if_false]
  split <;> omega

/-- "[the wager to match] after the blinds equals the largest blind actually posted": nobody's wager
    exceeds it, and it is the wager of some player — or 0 when nobody posted anything. -/
theorem cw_is_max_posted {c : Config} (h : Accepted c) :
    (∀ q ∈ (afterForcedBets c).players, q.wager ≤ (afterForcedBets c).cw) ∧
    ((∃ q ∈ (afterForcedBets c).players, q.wager = (afterForcedBets c).cw) ∨
      ((afterForcedBets c).cw = 0 ∧ ∀ q ∈ (afterForcedBets c).players, q.wager = 0)) := by
  have hr := reachable_afterForcedBets c h.wf h.started
  have sp := forcedSpec c h.started
  have ok := (inv_reachable hr).chips (by rw [sp.ev]; simp)
  refine ⟨ok.wle, ?_⟩
  rcases cwMax_afterForcedBets c h.wf h.started with h0 | ⟨j, q, hq, hw⟩
  · right
    refine ⟨h0, fun q hq => ?_⟩
    have := ok.wle q hq; have := (ok.pinv q hq).wager0
    omega
  · exact Or.inl ⟨q, List.mem_of_getElem? hq, hw⟩

/-- the same as a formula: the wager to match is the maximum of the posted wagers (0 for none) -/
theorem cw_eq_foldl_max {c : Config} (h : Accepted c) :
    (afterForcedBets c).cw = ((afterForcedBets c).players.map (·.wager)).foldl max 0 := by
  obtain ⟨hle, hat⟩ := cw_is_max_posted h
  have key : ∀ (l : List Int) (a m : Int), a ≤ m → (∀ x ∈ l, x ≤ m) → (m = a ∨ m ∈ l) → l.foldl max a = m := by
    intro l
    induction l with
    | nil => intro a m _ _ h3; rcases h3 with h3 | h3 <;> simp_all
    | cons x l ih =>
      intro a m h1 h2 h3
      rw [List.foldl_cons]
      apply ih
      · have := h2 x (by simp); omega
      · exact fun y hy => h2 y (by simp [hy])
      · rcases h3 with h3 | h3
        · left; have := h2 x (by simp); omega
        · rcases List.mem_cons.mp h3 with h3 | h3
          · left; omega
          · exact Or.inr h3
  have hcw0 := (inv_reachable (reachable_afterForcedBets c h.wf h.started)).chips0.cw0
  symm
  apply key _ _ _ hcw0
  · intro x hx
    obtain ⟨q, hq, rfl⟩ := List.mem_map.mp hx
    exact hle q hq
  · rcases hat with ⟨q, hq, hw⟩ | ⟨h0, _⟩
    · exact Or.inr (List.mem_map.mpr ⟨q, hq, hw⟩)
    · exact Or.inl h0

/-- "with the big blind as the minimum raise": the minimum raise is BB, or the dealer blind when BB = 0. -/
theorem prev_is_bb {c : Config} (h : Accepted c) :
    (afterForcedBets c).prev = (if c.opts.blindBB > 0 then c.opts.blindBB else c.opts.blindDealer) :=
  (forcedSpec c h.started).prev

/-- "The ante goes straight to the pot and does not count toward the wager to match":
    (a) right after the ante step (before any blind) every wager is 0, the wager to match is 0, and the ante sits
    in the players' pot contributions;
    (b) in the final state the wager to match is 0 or one of the posted blinds
    min(bankroll − ante paid, blind owed) — the ante appears in it only as chips no longer available. -/
theorem ante_not_in_cw {c : Config} (h : Accepted c) :
    ((afterAnte c).cw = 0 ∧ ∀ q ∈ (afterAnte c).players, q.wager = 0 ∧ q.pot = min c.opts.ante q.bankroll ∧
        q.stack = q.bankroll - q.pot) ∧
    ((afterForcedBets c).cw = 0 ∨ ∃ q ∈ (afterForcedBets c).players,
        (afterForcedBets c).cw = min (q.bankroll - min c.opts.ante q.bankroll) (blindOf c.opts q)) := by
  have sp := forcedSpec c h.started
  refine ⟨⟨sp.anteCw, fun q hq => ?_⟩, ?_⟩
  · obtain ⟨j, hj, hqj⟩ := List.getElem_of_mem hq
    obtain ⟨s, _, hb, hp, hw, hs, _⟩ := ante_seat c h.wf h.started
      (show (afterAnte c).players[j]? = some q by simp [List.getElem?_eq_getElem hj, hqj])
    rw [hb]; exact ⟨hw, hp, hs⟩
  · rcases (cw_is_max_posted h).2 with ⟨q, hq, hw⟩ | ⟨h0, _⟩
    · right
      refine ⟨q, hq, ?_⟩
      rw [← hw, (blinds_posted h hq).1, ante_paid h hq]
    · exact Or.inl h0

/-- Consequence: the wager to match never exceeds the largest blind, whatever the ante. -/
theorem cw_le_blinds {c : Config} (h : Accepted c) :
    (afterForcedBets c).cw ≤ max c.opts.blindBB (max c.opts.blindSB c.opts.blindDealer) := by
  have ho := h.wf.opts
  have := ho.bb0; have := ho.sb0; have := ho.bd0
  rcases (ante_not_in_cw h).2 with h0 | ⟨q, _, hq⟩
  · omega
  · have : blindOf c.opts q ≤ max c.opts.blindBB (max c.opts.blindSB c.opts.blindDealer) := by
      unfold Game.blindOf
      split
      · omega
      · split
        · omega
        · split <;> omega
    omega

/-! ## Non-vacuity: concrete tables (kernel-evaluated) -/

/-- ante 2, blinds 5/10; the small blind has 4 chips, the big blind 11: both are all-in for less -/
def exShort : Config := Ex.cfg (Ex.opts 2 0 5 10) 1000 4 11
/-- small blind 0, dealer blind 0, big blind 10: the layout in which the unrepaired code skipped the blinds (D6) -/
def exOnlyBB : Config := Ex.cfg (Ex.opts 0 0 0 10) 100 100 100
/-- heads-up with a dealer blind 3: the dealer also holds the small blind and posts 5 (reading I1), not 3 or 8 -/
def exHeadsUp : Config :=
  { opts := Ex.opts 0 3 5 10, seats := [⟨100, true, true, false⟩, ⟨100, false, false, true⟩] }
/-- ante only, no blinds at all: `PayBlinds` is never requested -/
def exAnteOnly : Config := Ex.cfg (Ex.opts 5 0 0 0) 100 3 100

theorem acc_exShort : Accepted exShort := ⟨⟨Ex.optsOK _ _ _ _ (by decide)⟩, by decide⟩
theorem acc_exOnlyBB : Accepted exOnlyBB := ⟨⟨Ex.optsOK _ _ _ _ (by decide)⟩, by decide⟩
theorem acc_exHeadsUp : Accepted exHeadsUp := ⟨⟨Ex.optsOK _ _ _ _ (by decide)⟩, by decide⟩
theorem acc_exAnteOnly : Accepted exAnteOnly := ⟨⟨Ex.optsOK _ _ _ _ (by decide)⟩, by decide⟩

example : forcedOps exShort.opts = [.ready, .payAnte, .payBlinds] ∧
    (afterForcedBets exShort).players.map (fun q => (q.pot, q.wager, q.stack)) = [(2, 0, 998), (2, 2, 0), (2, 9, 0)] ∧
    (afterForcedBets exShort).cw = 9 ∧ (afterForcedBets exShort).prev = 10 := by decide
example : forcedOps exOnlyBB.opts = [.ready, .payBlinds] ∧
    (afterForcedBets exOnlyBB).players.map (fun q => (q.pot, q.wager, q.stack)) = [(0, 0, 100), (0, 0, 100), (0, 10, 90)] ∧
    (afterForcedBets exOnlyBB).cw = 10 ∧ (afterForcedBets exOnlyBB).prev = 10 := by decide
example : (afterForcedBets exHeadsUp).players.map (fun q => (q.pot, q.wager, q.stack)) = [(0, 5, 95), (0, 10, 90)] ∧
    (afterForcedBets exHeadsUp).cw = 10 := by decide
example : forcedOps exAnteOnly.opts = [.ready, .payAnte] ∧
    (afterForcedBets exAnteOnly).players.map (fun q => (q.pot, q.wager, q.stack)) = [(5, 0, 95), (3, 0, 0), (5, 0, 95)] ∧
    (afterForcedBets exAnteOnly).cw = 0 ∧ (afterForcedBets exAnteOnly).event = .readyRequested := by decide

end Pokerface.C13
