import Pokerface.Proofs.PotsNested
/-
  C16 (continued) — "Published pots partition the chips into correctly NESTED side pots … no chip is
  placed in a pot above what its owner actually paid".

  Two clauses that `Properties/C16.lean` renders only through consequences:
  * the eligible SETS (not only their sizes) strictly shrink from the main pot to the last side pot;
  * per-owner conservation: the chips of a player who paid `c` lie in the pots slice by slice,
    `min c Lₖ − min c Lₖ₋₁` in the pot of level `Lₖ`; the slices are within `[0, Lₖ − Lₖ₋₁]`, vanish
    from the first pot whose lower boundary is `≥ c`, add up to `c`, and each pot's total is the sum
    of its owners' slices; every owner of a chip in a pot is listed in the pot's `Contributors` map,
    and a player still in the hand either covers a pot completely or has no chip in it.
  Domain as in C16: every list of entries `(idx, contribution, folded)` with distinct idx and
  contributions `≥ 0` (`C16.Valid`), any insertion order.
-/
namespace Pokerface.C16N
open Pokerface Pokerface.C16

/-- `i` is an eligible player of the pot `p`: listed in `p.contributors` and not folded (reading I3). -/
def Eligible (es : List Entry) (p : Pot) (i : Nat) : Prop :=
  (∃ a, (i, a) ∈ p.contributors) ∧ isFolded es i = false

/-- Re-export of the slice of an owner's chips between two levels: `min c hi − min c lo`. -/
abbrev slice := Pokerface.slice

/-- The per-owner slices along the published pots: entry `k` is the number of chips of an owner who
    paid `c` that lie in the `k`-th published pot. -/
def ownerSlices (es : List Entry) (c : Int) : List Int :=
  slicesFrom c 0 ((potsOf es).map (·.level))

/-! ### 1. the eligible SETS are strictly nested -/

/-- "The eligible sets strictly shrink from the main pot to the last side pot", as SETS: if the pot `p`
    is published before the pot `q`, every eligible player of `q` is an eligible player of `p`, and some
    eligible player of `p` is not eligible for `q`. -/
theorem eligible_nested (es : List Entry) (h : Valid es) (pre mid post : List Pot) (p q : Pot)
    (hp : potsOf es = pre ++ p :: (mid ++ q :: post)) :
    (∀ i, Eligible es q i → Eligible es p i) ∧ (∃ i, Eligible es p i ∧ ¬ Eligible es q i) := by
  have hpm : p ∈ potsOf es := by rw [hp]; simp
  have hqm : q ∈ potsOf es := by rw [hp]; simp
  have hlt : p.level < q.level := by
    have hs := levels_increasing es h
    rw [hp] at hs
    simp only [List.map_append, List.map_cons, List.pairwise_append, List.pairwise_cons] at hs
    exact hs.2.1.1 q.level (by simp)
  have hsub : ∀ i, Eligible es q i → Eligible es p i := by
    intro i hi
    obtain ⟨c, hc, hle⟩ := (eligible_exact es h q hqm i).1 hi
    exact (eligible_exact es h p hpm i).2 ⟨c, hc, by omega⟩
  refine ⟨hsub, ?_⟩
  -- strictness from the counts
  have hcnt : eligibleCount es q < eligibleCount es p := by
    have hs := eligible_shrink es h
    rw [hp] at hs
    simp only [List.map_append, List.map_cons, List.pairwise_append, List.pairwise_cons] at hs
    exact hs.2.1.1 _ (by simp)
  apply Classical.byContradiction
  intro hno
  have hall : ∀ i, Eligible es p i → Eligible es q i := by
    intro i hi
    apply Classical.byContradiction
    intro hn
    exact hno ⟨i, hi, hn⟩
  -- then the eligible keys of p are among those of q
  have hnd : (((p.contributors.filter (fun kv => !isFolded es kv.1))).map (·.1)).Nodup :=
    ((contributors_keys_nodup es h p hpm).sublist (List.filter_sublist.map _))
  have hss : ((p.contributors.filter (fun kv => !isFolded es kv.1))).map (·.1)
      ⊆ ((q.contributors.filter (fun kv => !isFolded es kv.1))).map (·.1) := by
    intro i hi
    simp only [List.mem_map, List.mem_filter, Bool.not_eq_true'] at hi ⊢
    obtain ⟨⟨j, a⟩, ⟨hm, hf⟩, rfl⟩ := hi
    obtain ⟨⟨b, hb⟩, hf'⟩ := hall j ⟨⟨a, hm⟩, hf⟩
    exact ⟨(j, b), ⟨hb, hf'⟩, rfl⟩
  have := hnd.length_le_of_subset hss
  simp only [List.length_map] at this
  unfold eligibleCount at hcnt
  omega

/-- Instance: in the sample, the eligible players of the side pot (1, 3) are among those of the main
    pot (0, 1, 3), and player 0 is eligible for the main pot only. -/
example : ∃ pre mid post p q, potsOf sample = pre ++ p :: (mid ++ q :: post) ∧
    (p.contributors.filter (fun kv => !isFolded sample kv.1)).map (·.1) = [0, 1, 3] ∧
    (q.contributors.filter (fun kv => !isFolded sample kv.1)).map (·.1) = [1, 3] :=
  ⟨[], [], [], (potsOf sample)[0]!, (potsOf sample)[1]!, by decide, by decide, by decide⟩

/-! ### 2. per-owner conservation -/

/-- "No chip is placed in a pot above what its owner actually paid", size of a slice: the chips of an
    owner (folded or not) in the pot `p` standing after the pots `pre` are between `0` and the pot's
    per-player amount `Lₖ − Lₖ₋₁ = p.wager`, and together with the owner's chips in the earlier pots
    (`min c Lₖ₋₁`) they never exceed what the owner paid. -/
theorem slice_bounds (es : List Entry) (h : Valid es) (pre post : List Pot) (p : Pot)
    (hp : potsOf es = pre ++ p :: post) (c : Int) :
    0 ≤ slice c (prevLevel pre) p.level ∧ slice c (prevLevel pre) p.level ≤ p.wager ∧
    min c (prevLevel pre) + slice c (prevLevel pre) p.level ≤ c := by
  have h1 := prevLevel_le es h hp
  have h2 := pot_wager es h pre post p hp
  simp only [slice, Pokerface.slice]
  omega

/-- "… above what its owner actually paid": an owner who paid `c` has NO chip in a pot whose lower
    boundary is `≥ c`. -/
theorem slice_zero_above (es : List Entry) (h : Valid es) (pre post : List Pot) (p : Pot)
    (hp : potsOf es = pre ++ p :: post) (c : Int) (hc : c ≤ prevLevel pre) :
    slice c (prevLevel pre) p.level = 0 := by
  have h1 := prevLevel_le es h hp
  simp only [slice, Pokerface.slice]
  omega

/-- … and conversely an owner who paid more than the lower boundary has a chip in the pot. -/
theorem slice_pos_iff (es : List Entry) (_h : Valid es) (pre post : List Pot) (p : Pot)
    (_hp : potsOf es = pre ++ p :: post) (c : Int) (hne : prevLevel pre < p.level) :
    0 < slice c (prevLevel pre) p.level ↔ prevLevel pre < c := by
  simp only [slice, Pokerface.slice]
  omega

/-- `ownerSlices` lists, position by position, the slice between the previous pot's level and the
    pot's own level. -/
theorem ownerSlices_at (es : List Entry) (pre post : List Pot) (p : Pot)
    (hp : potsOf es = pre ++ p :: post) (c : Int) :
    (ownerSlices es c)[pre.length]? = some (slice c (prevLevel pre) p.level) := by
  have := slicesFrom_getElem? c 0 (pre.map (·.level)) p.level (post.map (·.level))
  simp only [List.length_map] at this
  rw [ownerSlices, hp, List.map_append, List.map_cons, this, prevLevel_eq]

/-- Per-owner conservation: the slices of every player (folded or not) over all published pots add
    up to exactly what the player paid — none of an owner's chips is lost, duplicated or moved to
    another owner. -/
theorem slices_sum (es : List Entry) (h : Valid es) (e : Entry) (he : e ∈ es) :
    (ownerSlices es e.2.1).sum = e.2.1 := by
  rw [ownerSlices, slicesFrom_sum, potsOf_eq, getPots_last_level (llOf_inv es)]
  have h0 := h.2 e he
  have hmem : e.2.1 ∈ (llOf es).levels.map (·.level) := (llOf_levels es e.2.1).2 ⟨e, he, rfl⟩
  have := le_lastD_of_sorted (llOf_inv es).sorted 0 _ hmem
  omega

/-- There is one slice per published pot. -/
theorem ownerSlices_length (es : List Entry) (c : Int) : (ownerSlices es c).length = (potsOf es).length := by
  simp [ownerSlices, slicesFrom_length]

/-- "Each pot's total equals what all players put in between the previous level and its own": the
    total of a pot is the sum of its owners' slices (`C16.pot_total` in terms of `slice`). -/
theorem pot_total_slices (es : List Entry) (h : Valid es) (pre post : List Pot) (p : Pot)
    (hp : potsOf es = pre ++ p :: post) :
    p.total = (es.map (fun e => slice e.2.1 (prevLevel pre) p.level)).sum :=
  pot_total es h pre post p hp

/-- A player still in the hand either covers a pot completely or has no chip in it: the slice of a
    NON-FOLDED player is the full per-pot amount if the player is listed (eligible), and `0`
    otherwise.  So nobody who can still win has chips in a pot they cannot win. -/
theorem nonfolded_slice (es : List Entry) (h : Valid es) (pre post : List Pot) (p : Pot)
    (hp : potsOf es = pre ++ p :: post) (i : Nat) (c : Int) (hi : (i, c, false) ∈ es) :
    (Eligible es p i → slice c (prevLevel pre) p.level = p.wager) ∧
    (¬ Eligible es p i → slice c (prevLevel pre) p.level = 0) := by
  have hpm : p ∈ potsOf es := by rw [hp]; simp
  have h1 := prevLevel_le es h hp
  have h2 := pot_wager es h pre post p hp
  have hiff := eligible_exact es h p hpm i
  constructor
  · intro hel
    obtain ⟨c', hc', hle⟩ := hiff.1 hel
    have : (i, c, false) = (i, c', false) := eq_of_nodup_map (·.1) h.1 hi hc' rfl
    simp only [Prod.mk.injEq, and_true, true_and] at this
    subst this
    simp only [slice, Pokerface.slice]; omega
  · intro hnel
    have hlt : ¬ p.level ≤ c := fun hle => hnel (hiff.2 ⟨c, hi, hle⟩)
    have : ¬ prevLevel pre < c := fun hlt' => hlt (nonfolded_covers es h hp hi hlt')
    simp only [slice, Pokerface.slice]; omega

/-- The amount the `Contributors` map of a pot shows for an eligible player IS that player's slice. -/
theorem listed_amount_is_slice (es : List Entry) (h : Valid es) (pre post : List Pot) (p : Pot)
    (hp : potsOf es = pre ++ p :: post) (i : Nat) (c a : Int) (hi : (i, c, false) ∈ es)
    (hm : (i, a) ∈ p.contributors) : a = slice c (prevLevel pre) p.level := by
  have hf := isFolded_false_of_mem h hi
  rw [eligible_amount es h pre post p hp i a hm hf,
    ((nonfolded_slice es h pre post p hp i c hi).1 ⟨⟨a, hm⟩, hf⟩), pot_wager es h pre post p hp]

/-- Every owner of a chip in a pot is listed in the pot's `Contributors` map (folded or not): no
    chip lies in a pot whose map does not name its owner. -/
theorem chip_owner_listed (es : List Entry) (h : Valid es) (pre post : List Pot) (p : Pot)
    (hp : potsOf es = pre ++ p :: post) (e : Entry) (he : e ∈ es)
    (hpos : 0 < slice e.2.1 (prevLevel pre) p.level) : ∃ a, (e.1, a) ∈ p.contributors := by
  obtain ⟨i, c, f⟩ := e
  have h1 := prevLevel_le es h hp
  have h0 := prevLevel_nonneg es h hp
  have hlt : prevLevel pre < c := by
    simp only [slice, Pokerface.slice] at hpos; omega
  cases f with
  | true =>
    exact ⟨c, (folded_listing es h pre post p hp i c he c).2 ⟨rfl, by omega, by omega⟩⟩
  | false =>
    apply Classical.byContradiction
    intro hno
    have := (nonfolded_slice es h pre post p hp i c he).2 (fun hel => hno hel.1)
    simp only at hpos
    omega

/-- Pot by pot, the total splits into the eligible players' full shares and the folded players'
    slices: `total = Σ_{non-folded e, Lₖ ≤ cₑ} (Lₖ − Lₖ₋₁) + Σ_{folded e} slice`. -/
theorem pot_total_split (es : List Entry) (h : Valid es) (pre post : List Pot) (p : Pot)
    (hp : potsOf es = pre ++ p :: post) :
    p.total = ((es.filter (fun e => !e.2.2 && decide (p.level ≤ e.2.1))).length : Int) * p.wager
      + ((es.filter (fun e => e.2.2)).map (fun e => slice e.2.1 (prevLevel pre) p.level)).sum := by
  rw [pot_total_slices es h pre post p hp]
  have hpm : p ∈ potsOf es := by rw [hp]; simp
  have key : ∀ e ∈ es, e.2.2 = false →
      slice e.2.1 (prevLevel pre) p.level = if p.level ≤ e.2.1 then p.wager else 0 := by
    rintro ⟨i, c, f⟩ he hf
    simp only at hf; subst hf
    have hns := nonfolded_slice es h pre post p hp i c he
    have hiff := eligible_exact es h p hpm i
    simp only
    split
    · next hle => exact hns.1 (hiff.2 ⟨c, he, hle⟩)
    · next hle =>
      apply hns.2
      intro hel
      obtain ⟨c', hc', hle'⟩ := hiff.1 hel
      have : (i, c, false) = (i, c', false) := eq_of_nodup_map (·.1) h.1 he hc' rfl
      simp only [Prod.mk.injEq, and_true, true_and] at this
      subst this
      exact hle hle'
  generalize prevLevel pre = lo at key ⊢
  suffices aux : ∀ E : List Entry, (∀ e ∈ E, e ∈ es) →
      (E.map (fun e => slice e.2.1 lo p.level)).sum
        = ((E.filter (fun e => !e.2.2 && decide (p.level ≤ e.2.1))).length : Int) * p.wager
          + ((E.filter (fun e => e.2.2)).map (fun e => slice e.2.1 lo p.level)).sum from
    aux es (fun _ h => h)
  intro E hsub
  induction E with
  | nil => simp
  | cons e E ih =>
    have ih' := ih (fun x hx => hsub x (by simp [hx]))
    have hk := key e (hsub e (by simp))
    simp only [List.map_cons, List.sum_cons, List.filter_cons]
    rcases hf : e.2.2 with _ | _
    · rw [hk hf]
      by_cases hle : p.level ≤ e.2.1
      · simp only [hle, if_true, Bool.not_false, Bool.true_and, decide_true, List.length_cons,
          Bool.false_eq_true, if_false]
        rw [ih']; push_cast; rw [Int.add_mul]; omega
      · simp only [hle, if_false, Bool.not_false, Bool.true_and, decide_false, Bool.false_eq_true]
        rw [ih']; omega
    · simp only [Bool.not_true, Bool.false_and, Bool.false_eq_true, if_false, if_true, List.map_cons,
        List.sum_cons]
      rw [ih']; omega

/-! ### non-vacuity on the C16 sample (0:30, 1:100, 2:60 folded, 3:100, 4:30 folded at a boundary) -/

/-- The slices of the folded player 2 (paid 60): 30 in the main pot, 30 of the 70 in the side pot. -/
example : ownerSlices sample 60 = [30, 30] := by decide
/-- Player 0 (paid 30) has nothing in the side pot; player 4 (folded at the boundary) neither. -/
example : ownerSlices sample 30 = [30, 0] := by decide
example : ownerSlices sample 100 = [30, 70] := by decide

/-- The positional hypotheses are met by the side pot of the sample, and there the formula of
    `pot_total_split` reads `170 = 2 * 70 + (30 + 0)`. -/
example : ∃ pre p post, potsOf sample = pre ++ p :: post ∧ prevLevel pre = 30 ∧ p.level = 100 ∧
    p.total = 170 ∧ (sample.filter (fun e => !e.2.2 && decide (p.level ≤ e.2.1))).length = 2 ∧
    (sample.filter (fun e => e.2.2)).map (fun e => slice e.2.1 (prevLevel pre) p.level) = [30, 0] :=
  ⟨[(potsOf sample)[0]!], (potsOf sample)[1]!, [], by decide, by decide, by decide, by decide,
    by decide, by decide⟩

/-- `chip_owner_listed` is not vacuous: the folded player 2 owns 30 chips of the side pot. -/
example : 0 < slice 60 30 100 := by decide

end Pokerface.C16N

#print axioms Pokerface.C16N.eligible_nested
#print axioms Pokerface.C16N.slice_bounds
#print axioms Pokerface.C16N.slice_zero_above
#print axioms Pokerface.C16N.slice_pos_iff
#print axioms Pokerface.C16N.ownerSlices_at
#print axioms Pokerface.C16N.slices_sum
#print axioms Pokerface.C16N.pot_total_slices
#print axioms Pokerface.C16N.nonfolded_slice
#print axioms Pokerface.C16N.listed_amount_is_slice
#print axioms Pokerface.C16N.chip_owner_listed
#print axioms Pokerface.C16N.pot_total_split
