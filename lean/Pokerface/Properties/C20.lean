/-
  C20  Rebalancing settles: players are not moved between tables forever.

  "With no new registrations and no eliminations, repeatedly syncing every table
   and carrying out the moves the regulator asks for reaches, within a small
   bounded number of sweeps, a state in which no table is asked to release,
   receive or break.  A table that is told to break hands back all of its
   players, and each of them is queued for another table."

  Proved here (all settings, all reachable states, all choices):
    * `break_returns_all`    — the second sentence, in full;
    * `stable_is_fixed`      — balanced states are fixed points of every `SyncState(t,0)`;
    * `moves_are_directed`   — releases only from above the water level and never below its
                               floor, arrivals only up to the floor, dispatch only up to `Required`;
    * `table_count_monotone` — the number of tables only moves towards the number needed;
    * `rebalancing_settles`  — the convergence bound of the first sentence: from every reachable
                               state at most `B` elimination-free syncs ask for anything, whatever
                               the order of tables, the choice of released players and the dispatch
                               choices (`B` explicit: `settle_bound`);
    * `rebalancing_reaches_settled`, `settled_persists` — hence among any `B + 1` sweeps one starts
                               in a state where no table is asked anything, and that stays so;
    * `rebalancing_settles_small` (end of file) — the SMALL bound: at most
                               `2·(e+1)·max + 5·T + 2·e + 2·(max+3)·u + 1` syncs, a fortiori sweeps, ask for
                               anything (`T` tables, `e` spare, `u` missing tables; `2·max + 5·T + 1` when
                               there are exactly the tables needed), and `sweeps_exceed_tables`: no bound
                               of the form `T + C` holds (3 tables, 9 players, 6 asking sweeps at max = 8;
                               3 tables, 17 players, 14 asking sweeps at max = 16).

  Domain: `Reachable s` (Model/RegulatorEnv.lean) = every state obtained from a fresh regulator
  with ANY setting with `1 ≤ max` (any `min`, no relation to `max`; with `max = 0` the Go code
  divides by zero in `float64`) by ANY finite history of valid operations in which the status
  only moves forward (`RSys.ok`; these conditions never block a history, Proofs/RegTotal.lean).
  No theorem here needs `2 ≤ min ≤ max`.  The forward-only restriction is needed by the
  convergence proof (its measure uses `count + required ≤ max` and the invariant `Q`, both false
  once `SetStatus(Pending)` is applied to a running competition, `C19.capacity_fails_after_
  return_to_pending`); the second sentence is proved without it (`break_returns_all_any`).
-/
import Pokerface.Proofs.RegFrame
import Pokerface.Proofs.RegAnyProps
import Pokerface.Proofs.RegSweepBound
import Pokerface.Proofs.RegSweepExplore

namespace Pokerface.C20
open Pokerface Reg RSys

/-- **break_returns_all** on the WIDEST domain (`ReachableAny`, C09: any setting, status changes in
    any direction — if the competition is pending again, "queued" is all that happens to the
    released players until the restart).  Let a valid sync of an existing table `t` (members `≈ elim ++ stay`)
    from a reachable state break the table.  Then
    * the regulator tells the table to release exactly its whole remaining membership
      (`|stay|`) and gives it nobody; the released players are all of `stay`, nobody is kept;
    * afterwards table `t` exists neither in reality nor on the regulator's sheet;
    * every released player is, after the environment's `ReleasePlayers`, in the waiting queue or
      was handed to a table by a callback of this very step — and that table is another table. -/
theorem break_returns_all_any {s : RSys} (h : ReachableAny s) (t : Nat) (elim stay rel keep ch ms : List Nat)
    (hm : s.env.membersOf t = some ms) (hok : s.okAny (.sync t elim stay rel keep ch))
    (hb : s.broken t elim = true) :
    ((s.syncAnswer t elim).2.2.1 = stay.length ∧ (s.syncAnswer t elim).2.2.2 = [] ∧
      rel.Perm stay ∧ keep = []) ∧
    (t ∉ (s.step (.sync t elim stay rel keep ch)).env.members.map (·.1) ∧
      (s.step (.sync t elim stay rel keep ch)).r.findTable t = none) ∧
    (∀ p ∈ rel,
      (p ∈ (s.step (.sync t elim stay rel keep ch)).r.queue ∨
        p ∈ handed (s.step (.sync t elim stay rel keep ch)).r.calls) ∧
      (p ∈ (s.step (.sync t elim stay rel keep ch)).r.queue ∨
        ∃ e ∈ (s.step (.sync t elim stay rel keep ch)).env.members, e.1 ≠ t ∧ p ∈ e.2)) := by
  have hS := SInv0.of_reachable h
  obtain ⟨hS', hF⟩ := hS.step_full _ hok
  have hok' := hok
  simp only [okAny, ok, hm] at hok'
  rw [show s.syncAnswer t elim = ((s.syncAnswer t elim).1, (s.syncAnswer t elim).2.1,
    (s.syncAnswer t elim).2.2.1, (s.syncAnswer t elim).2.2.2) from rfl] at hok'
  simp only [] at hok'
  obtain ⟨hp1, hp2, hrl, hkeep, _⟩ := hok'
  obtain ⟨r1, relc, nw, t0, hans, hft, _, _, _, _, hq1, _, hbrk⟩ := hS.sync_known t elim stay ms hm hp1
  obtain ⟨hrelc, hnw⟩ := hbrk hb
  have hk := hkeep hb
  rw [hans] at hp2 hrl ⊢
  simp only [] at hp2 hrl ⊢
  subst hnw hk
  simp only [List.append_nil] at hp2
  -- the table is gone
  have hbase : s.baseMembers (.sync t elim stay rel [] ch) = s.env.members.filter (fun e => e.1 != t) := by
    simp only [baseMembers, hm, hb, if_true]
  have hgone : t ∉ (s.step (.sync t elim stay rel [] ch)).env.members.map (·.1) := by
    intro hin
    rw [hF.members, hbase] at hin
    rcases applyCalls_ids _ _ _ hin with h1 | ⟨ps, h1⟩
    · obtain ⟨e, he, het⟩ := List.mem_map.1 h1
      have := (List.mem_filter.1 he).2
      simp [het] at this
    · have h2 := hF.newids t ps h1
      obtain ⟨ht0, hid0⟩ := findTable_some hft
      have := hS.rinv.wf.idlt t0 ht0
      omega
  have hfind : (s.step (.sync t elim stay rel [] ch)).r.findTable t = none := by
    rw [← hS'.unknown_iff]
    unfold Env.membersOf
    rw [List.find?_eq_none.2]
    · rfl
    · intro e he hte
      exact hgone (List.mem_map.2 ⟨e, he, by simpa using hte⟩)
  refine ⟨⟨hrelc, rfl, hp2.symm, rfl⟩, ⟨hgone, hfind⟩, ?_⟩
  intro p hp
  have hho := hF.handout
  simp only [incoming, returned, hm, hans, List.nil_append] at hho
  have hmem : p ∈ handed (s.step (.sync t elim stay rel [] ch)).r.calls ++
      (s.step (.sync t elim stay rel [] ch)).r.queue := by
    rw [← hho]; exact List.mem_append_right _ hp
  rcases List.mem_append.1 hmem with h1 | h1
  · refine ⟨Or.inr h1, Or.inr ?_⟩
    have hperm := seatedOf_applyCalls (s.baseMembers (.sync t elim stay rel [] ch))
      (s.step (.sync t elim stay rel [] ch)).r.calls hF.base_nodup hF.valid
    rw [← hF.members] at hperm
    have : p ∈ seatedOf (s.step (.sync t elim stay rel [] ch)).env.members :=
      hperm.mem_iff.2 (List.mem_append_right _ h1)
    obtain ⟨e, he, hpe⟩ := mem_seatedOf.1 this
    exact ⟨e, he, fun het => hgone (List.mem_map.2 ⟨e, he, het⟩), hpe⟩
  · exact ⟨Or.inl h1, Or.inl h1⟩

/-- **break_returns_all**.  Let a valid sync of an existing table `t` (members `≈ elim ++ stay`)
    from a reachable state break the table.  Then
    * the regulator tells the table to release exactly its whole remaining membership
      (`|stay|`) and gives it nobody; the released players are all of `stay`, nobody is kept;
    * afterwards table `t` exists neither in reality nor on the regulator's sheet;
    * every released player is, after the environment's `ReleasePlayers`, in the waiting queue or
      was handed to a table by a callback of this very step — and that table is another table. -/
theorem break_returns_all {s : RSys} (h : Reachable s) (t : Nat) (elim stay rel keep ch ms : List Nat)
    (hm : s.env.membersOf t = some ms) (hok : s.ok (.sync t elim stay rel keep ch))
    (hb : s.broken t elim = true) :
    ((s.syncAnswer t elim).2.2.1 = stay.length ∧ (s.syncAnswer t elim).2.2.2 = [] ∧
      rel.Perm stay ∧ keep = []) ∧
    (t ∉ (s.step (.sync t elim stay rel keep ch)).env.members.map (·.1) ∧
      (s.step (.sync t elim stay rel keep ch)).r.findTable t = none) ∧
    (∀ p ∈ rel,
      (p ∈ (s.step (.sync t elim stay rel keep ch)).r.queue ∨
        p ∈ handed (s.step (.sync t elim stay rel keep ch)).r.calls) ∧
      (p ∈ (s.step (.sync t elim stay rel keep ch)).r.queue ∨
        ∃ e ∈ (s.step (.sync t elim stay rel keep ch)).env.members, e.1 ≠ t ∧ p ∈ e.2)) :=
  break_returns_all_any h.any t elim stay rel keep ch ms hm (okAny_of_ok hok) hb

/-- **stable_is_fixed** (regulator level, ANY state): if the regulator's total is the sum of its
    table counts (nobody queued, counts agree), it has exactly as many tables as it needs, and
    every table holds at least the floor of the water level `⌊players / tables needed⌋`, then
    `SyncState(t, 0)` on any table returns `(0, [])`, breaks nothing and changes nothing
    (`beginOp` only resets the model's scratch fields).  The upper bound `≤ ⌈wl⌉` of the informal
    statement is not needed. -/
theorem stable_is_fixed (r : Reg) (t : Nat) (t0 : RTable) (hf : r.findTable t = some t0)
    (hlen : r.tableCount = r.tables.length) (hT : r.tableCount = r.requiredTables)
    (hpc : r.playerCount = sumCount r.tables)
    (hfl : ∀ tb ∈ r.tables, r.playerCount / r.requiredTables ≤ tb.count) :
    r.syncState t 0 = (r.beginOp [], none, 0, []) :=
  syncState_stable r t t0 hf hlen hT hpc hfl

/-- **stable_is_fixed** for reachable states: queue empty ∧ tableCount = requiredTables ∧ every
    table at or above `⌊wl⌋` ⇒ no table is asked to release, receive or break. -/
theorem stable_is_fixed_reachable {s : RSys} (h : Reachable s) (hq : s.r.queue = [])
    (hT : s.r.tableCount = s.r.requiredTables)
    (hfl : ∀ tb ∈ s.r.tables, s.r.playerCount / s.r.requiredTables ≤ tb.count)
    (t : Nat) (ms : List Nat) (hm : s.env.membersOf t = some ms) :
    s.syncAnswer t [] = (s.r.beginOp [], none, 0, []) ∧ s.broken t [] = false := by
  have hS := SInv.of_reachable h
  have hne : s.r.findTable t ≠ none := fun hn => by
    rw [(hS.unknown_iff t).2 hn] at hm; cases hm
  cases hf : s.r.findTable t with
  | none => exact absurd hf hne
  | some t0 =>
    have hpc : s.r.playerCount = sumCount s.r.tables := by
      have := hS.rinv.cnt; rw [hq] at this; simpa using this
    have heq := syncState_stable s.r t t0 hf hS.rinv.wf.tc hT hpc hfl
    have hans : s.syncAnswer t [] = (s.r.beginOp [], none, 0, []) := heq
    refine ⟨hans, ?_⟩
    simp only [broken, hans]
    have : (s.r.beginOp []).findTable t = some t0 := hf
    rw [this]; rfl

/-- **moves_are_directed**, `SyncState` half (ANY state, ANY elimination count `out`).  With
    `pc = playerCount − out`, `R = ⌈pc / max⌉`, `tc` = the table's count after the eliminations:
    * if the table is not broken and told to release `rel > 0` players, it is strictly above the
      water level (`pc < tc·R`) and stays at or above its floor (`⌊pc/R⌋ ≤ tc − rel`);
    * if it receives players from the queue, it is strictly below the water level, ends at or
      below the floor (`tc + |new| ≤ ⌊pc/R⌋`), and is told to release nobody. -/
theorem moves_are_directed (r : Reg) (t : Nat) (out : Int) (t0 : RTable) (hf : r.findTable t = some t0) :
    ((r.syncState t out).1.findTable t ≠ none → 0 < (r.syncState t out).2.2.1 →
        r.playerCount - out < (t0.count - out) * ceilDiv (r.playerCount - out) r.max ∧
        (r.playerCount - out) / ceilDiv (r.playerCount - out) r.max ≤ t0.count - out - (r.syncState t out).2.2.1) ∧
    ((r.syncState t out).2.2.2 ≠ [] →
        (t0.count - out) * ceilDiv (r.playerCount - out) r.max < r.playerCount - out ∧
        t0.count - out + ((r.syncState t out).2.2.2.length : Int) ≤
          (r.playerCount - out) / ceilDiv (r.playerCount - out) r.max ∧
        (r.syncState t out).2.2.1 = 0) :=
  syncState_directed r t out t0 hf

/-- **moves_are_directed**, dispatch half: every `assignPlayersFn` callback is made by
    `dispatchPlayer`, which picks a table with `Required > 0` and hands it a prefix of the
    candidates no longer than that `Required`. -/
theorem dispatch_is_directed {r r' : Reg} {cands rest : List Nat}
    (h : r.dispatchPlayer cands = some (rest, r')) (hb : r'.badChoice = false) :
    ∃ tb ∈ r.tables, 0 < tb.required ∧ ∃ picked, r'.calls = r.calls ++ [RCall.assign tb.id picked] ∧
      (picked.length : Int) ≤ tb.required ∧ cands = picked ++ rest :=
  dispatchPlayer_directed h hb

/-- **table_count_monotone** (part (a) of the convergence argument; ANY regulator state with
    `max > 0`).  In a sync without eliminations followed by the `ReleasePlayers` it triggers, the
    number of tables needed `R = ⌈players/max⌉` does not change, and the number of tables `T`
    * drops by at most one in `SyncState`, and only if `R < T` (a break),
    * never drops and never rises above `max T R` in `ReleasePlayers` (allocations only while `T < R`).
    So `|T − R|` never increases, and decreases by one at each break and each allocation. -/
theorem table_count_monotone (r : Reg) (t : Nat) (rel ch : List Nat) (hm : 0 < r.max) :
    let r1 := (r.syncState t 0).1
    let r2 := r1.releasePlayers rel ch
    r1.requiredTables = r.requiredTables ∧ r2.requiredTables = r.requiredTables ∧
    (r1.tableCount = r.tableCount ∨ (r1.tableCount = r.tableCount - 1 ∧ r.requiredTables < r.tableCount)) ∧
    r1.tableCount ≤ r2.tableCount ∧
    (r2.tableCount = r1.tableCount ∨ r2.tableCount ≤ r.requiredTables) := by
  intro r1 r2
  obtain ⟨h1, h2⟩ := syncState_tc r t
  obtain ⟨h3, h4, h5⟩ := releasePlayers_tc r1 rel ch (by rw [h1.max]; exact hm)
  refine ⟨h1.req, (h1.trans h3).req, h2, h4, ?_⟩
  rcases h5 with h5 | h5
  · exact Or.inl h5
  · exact Or.inr (by rw [h1.req] at h5; exact h5)

/-! ### the convergence bound -/

/-- no table is asked to release, receive or break -/
def Settled (s : RSys) : Prop :=
  ∀ t ms, s.env.membersOf t = some ms →
    (s.syncAnswer t []).2.2.1 = 0 ∧ (s.syncAnswer t []).2.2.2 = [] ∧ s.broken t [] = false

/-- `Settled` says exactly that no elimination-free sync asks for anything
    (`RSys.asks`: release count ≠ 0, or new players, or the table is broken). -/
theorem settled_iff (s : RSys) :
    Settled s ↔ ∀ t stay rel keep ch, s.asks (.sync t [] stay rel keep ch) = false := by
  constructor
  · intro h t stay rel keep ch
    cases hm : s.env.membersOf t with
    | none => simp [RSys.asks, hm]
    | some ms =>
      obtain ⟨h1, h2, h3⟩ := h t ms hm
      simp [RSys.asks, hm, h1, h2, h3]
  · intro h t ms hm
    have := h t [] [] [] []
    simp only [RSys.asks, hm, Option.isSome_some, Bool.true_and, Bool.or_eq_false_iff,
      decide_eq_false_iff_not, Bool.not_eq_false', List.isEmpty_iff, Decidable.not_not] at this
    exact ⟨this.1.1, this.1.2, this.2⟩

/-- the explicit bound: the termination measure of the state, encoded as a number, with
    `Tmax = max(tables, tables needed)` and weight `W = Tmax·max + Tmax + 1`; it is below `W⁶`,
    a (coarse) polynomial in the number of tables and `max` -/
def settle_bound (s : RSys) : Nat :=
  let Tmax := (Max.max s.r.tableCount s.r.requiredTables).toNat
  Reg.pot (Tmax * s.r.max + Tmax + 1) s.r

/-- the statement of **rebalancing_settles**: from every reachable state there is a bound `B`
    such that along EVERY valid sequence of elimination-free syncs — any order of tables, any
    choice of who is released, any dispatch choices — at most `B` syncs ask their table to
    release, receive or break.  A sweep that asks for something contains such a sync, so at most
    `B` sweeps do. -/
def rebalancing_settles : Prop :=
  ∀ s : RSys, Reachable s → ∃ B : Nat, ∀ ops : List EOp,
    (∀ op ∈ ops, quietOp op = true) → s.allOk ops → s.askCount ops ≤ B

/-- **rebalancing_settles**, with the explicit bound.  The proof is a termination argument: the
    lexicographic measure `( |T − R| , #deficit tables , B , A , S , Λ )` of
    `Proofs/RegMeasure.lean` strictly decreases at every sync that asks for something and never
    increases otherwise (`RSys.quiet_step`), and all its components are bounded by `W` on the
    states of such a run. -/
theorem rebalancing_settles_bound {s : RSys} (h : Reachable s) (ops : List EOp)
    (hq : ∀ op ∈ ops, quietOp op = true) (hok : s.allOk ops) : s.askCount ops ≤ settle_bound s := by
  have hS := SInv.of_reachable h
  have h0 : 0 ≤ s.r.tableCount := by rw [hS.rinv.wf.tc]; omega
  exact askCount_le s.r.max (Max.max s.r.tableCount s.r.requiredTables).toNat ops s hS rfl
    (by omega) (by omega) hq hok

theorem rebalancing_settles_holds : rebalancing_settles :=
  fun s h => ⟨settle_bound s, fun ops hq hok => rebalancing_settles_bound h ops hq hok⟩

/-- balanced states are settled (and by `stable_is_fixed` stay exactly as they are under every
    further sync) -/
theorem balanced_is_settled {s : RSys} (h : Reachable s) (hq : s.r.queue = [])
    (hT : s.r.tableCount = s.r.requiredTables)
    (hfl : ∀ tb ∈ s.r.tables, s.r.playerCount / s.r.requiredTables ≤ tb.count) : Settled s := by
  intro t ms hm
  obtain ⟨h1, h2⟩ := stable_is_fixed_reachable h hq hT hfl t ms hm
  rw [h1]
  exact ⟨rfl, rfl, h2⟩

/-- a settled state stays settled: an elimination-free sync asks nothing there and leaves a
    settled state (it can only refresh a `Required`, which no answer depends on) -/
theorem settled_persists {s : RSys} (h : Reachable s) (hs : Settled s) (op : EOp)
    (hq : quietOp op = true) (hok : s.ok op) : s.asks op = false ∧ Settled (s.step op) := by
  have hS := SInv.of_reachable h
  cases op with
  | add ps ch => simp [quietOp] at hq
  | status st ch => simp [quietOp] at hq
  | sync t elim stay rel keep ch =>
    have he : elim = [] := by simpa [quietOp] using hq
    subst he
    have hna := (settled_iff s).1 hs t stay rel keep ch
    refine ⟨hna, ?_⟩
    obtain ⟨hfr, hids⟩ := noask_frame hS t stay rel keep ch hok hna
    intro t' ms' hm'
    have hsome : (s.env.membersOf t').isSome = true := by
      rw [membersOf_isSome_iff, ← hids, ← membersOf_isSome_iff, hm']; rfl
    cases hm : s.env.membersOf t' with
    | none => rw [hm] at hsome; cases hsome
    | some ms =>
      obtain ⟨h1, h2, h3⟩ := hs t' ms hm
      have hfa := frame_answer hfr t'
      have e : answer0 s.r t' = (0, [], false) := by
        unfold answer0
        show ((s.syncAnswer t' []).2.2.1, (s.syncAnswer t' []).2.2.2, s.broken t' []) = _
        rw [h1, h2, h3]
      rw [e] at hfa
      have : ((s.step (.sync t [] stay rel keep ch)).syncAnswer t' []).2.2.1 = 0 ∧
          ((s.step (.sync t [] stay rel keep ch)).syncAnswer t' []).2.2.2 = [] ∧
          (s.step (.sync t [] stay rel keep ch)).broken t' [] = false := by
        have h4 := congrArg (·.1) hfa
        have h5 := congrArg (·.2.1) hfa
        have h6 := congrArg (·.2.2) hfa
        exact ⟨h4, h5, h6⟩
      exact this

/-- a whole sweep (every existing table is synced at least once) in which nobody is asked
    anything starts — and by `settled_persists` ends — in a settled state -/
theorem quiet_sweep_settled {s : RSys} (h : Reachable s) (ops : List EOp)
    (hq : ∀ op ∈ ops, quietOp op = true) (hok : s.allOk ops) (h0 : s.askCount ops = 0)
    (hcover : ∀ t ms, s.env.membersOf t = some ms → ∃ stay rel keep ch, EOp.sync t [] stay rel keep ch ∈ ops) :
    Settled s := by
  intro t ms hm
  have hsome : (s.env.membersOf t).isSome = true := by rw [hm]; rfl
  have := noask_script_answers ops s (SInv.of_reachable h) hq hok h0 t (hcover t ms hm) hsome
  have h4 := congrArg (·.1) this
  have h5 := congrArg (·.2.1) this
  have h6 := congrArg (·.2.2) this
  exact ⟨h4, h5, h6⟩

theorem run_append (s : RSys) (a b : List EOp) : s.run (a ++ b) = (s.run a).run b := by
  simp [RSys.run, List.foldl_append]

/-- if every sweep of a sequence asks for something, the script asks at least as often as there
    are sweeps -/
theorem askCount_sweeps (sweeps : List (List EOp)) : ∀ (s : RSys),
    (∀ pre sw post, sweeps = pre ++ sw :: post → 1 ≤ (s.run pre.flatten).askCount sw) →
    sweeps.length ≤ s.askCount sweeps.flatten := by
  induction sweeps with
  | nil => intro _ _; exact Nat.zero_le _
  | cons sw rest ih =>
    intro s hall
    have h1 := hall [] sw rest rfl
    have h2 := ih (s.run sw) (fun pre x post he => by
      have := hall (sw :: pre) x post (by rw [he]; rfl)
      simpa [run_append] using this)
    simp only [List.flatten_cons, askCount_append, List.length_cons]
    simp only [List.flatten_nil, RSys.run, List.foldl_nil] at h1
    omega

/-- **rebalancing reaches a settled state within `settle_bound + 1` sweeps**: take any valid
    sequence of more than `settle_bound s` elimination-free sweeps from a reachable state, each
    sweep syncing every table that exists when the sweep starts (in any order, possibly more
    than once, with any choices).  Then one of the sweeps starts in a state in which no table is
    asked to release, receive or break — and by `settled_persists` this remains so. -/
theorem rebalancing_reaches_settled {s : RSys} (h : Reachable s) (sweeps : List (List EOp))
    (hq : ∀ sw ∈ sweeps, ∀ op ∈ sw, quietOp op = true) (hok : s.allOk sweeps.flatten)
    (hcover : ∀ pre sw post, sweeps = pre ++ sw :: post → ∀ t ms,
      (s.run pre.flatten).env.membersOf t = some ms → ∃ stay rel keep ch, EOp.sync t [] stay rel keep ch ∈ sw)
    (hlen : settle_bound s < sweeps.length) :
    ∃ pre sw post, sweeps = pre ++ sw :: post ∧ Settled (s.run pre.flatten) := by
  have hqf : ∀ op ∈ sweeps.flatten, quietOp op = true := by
    intro op hop
    obtain ⟨sw, hsw, hin⟩ := List.mem_flatten.1 hop
    exact hq sw hsw op hin
  have hb := rebalancing_settles_bound h sweeps.flatten hqf hok
  -- some sweep asks nothing
  have hex : ∃ pre sw post, sweeps = pre ++ sw :: post ∧ (s.run pre.flatten).askCount sw = 0 := by
    apply Classical.byContradiction
    intro hno
    have := askCount_sweeps sweeps s (fun pre sw post he => by
      have : ¬ (s.run pre.flatten).askCount sw = 0 := fun h0 => hno ⟨pre, sw, post, he, h0⟩
      omega)
    omega
  obtain ⟨pre, sw, post, he, h0⟩ := hex
  refine ⟨pre, sw, post, he, ?_⟩
  have hokf : s.allOk (pre.flatten ++ (sw ++ post.flatten)) := by
    rw [he] at hok; simpa using hok
  have hok1 := (allOk_append s pre.flatten (sw ++ post.flatten)).1 hokf
  have hok2 := (allOk_append (s.run pre.flatten) sw post.flatten).1 hok1.2
  have hreach : Reachable (s.run pre.flatten) := h.run pre.flatten hok1.1
  exact quiet_sweep_settled hreach sw (fun op hop => hq sw (by rw [he]; simp) op hop) hok2.1 h0
    (hcover pre sw post he)

/-! ### non-vacuity -/

/-- 12 registrants at 9/6 make two tables of six; four eliminations at table 1 leave 8 players,
    one table suffices, both tables are low: table 1 is broken and its two players go to table 2 -/
def start12 : List EOp := [.add [1,2,3,4,5,6,7,8,9,10,11,12] [], .status .normal []]
def breakOp : EOp := .sync 1 [1,2,3,4] [5,6] [5,6] [] [2]

example : Reachable ((RSys.init 9 6).run start12) :=
  (Reachable.init 9 6 (by decide)).run start12 (by decide)
example : ((RSys.init 9 6).run start12).ok breakOp := by decide
example : ((RSys.init 9 6).run start12).broken 1 [1,2,3,4] = true := by decide
example : (((RSys.init 9 6).run start12).step breakOp).env.members = [(2, [7,8,9,10,11,12,5,6])] := by decide
example : (((RSys.init 9 6).run start12).step breakOp).r.calls = [.assign 2 [5, 6]] := by decide

/-- the state after the start is balanced: the hypotheses of `stable_is_fixed_reachable` hold -/
example : ((RSys.init 9 6).run start12).r.queue = [] ∧
    ((RSys.init 9 6).run start12).r.tableCount = ((RSys.init 9 6).run start12).r.requiredTables ∧
    (∀ tb ∈ ((RSys.init 9 6).run start12).r.tables,
      ((RSys.init 9 6).run start12).r.playerCount / ((RSys.init 9 6).run start12).r.requiredTables ≤ tb.count) := by
  decide

/-- a release from above the water level (hypotheses of `moves_are_directed`, first half):
    27 registrants at 9/6, six eliminations at table 1; table 2 (9 players, water level 7) is told
    to release two -/
def start27 : List EOp :=
  [.add ((List.range 27).map (· + 1)) [], .status .normal [], .sync 1 [1,2,3,4,5,6] [7,8,9] [] [7,8,9] []]
example : Reachable ((RSys.init 9 6).run start27) :=
  (Reachable.init 9 6 (by decide)).run start27 (by decide)
example : (((RSys.init 9 6).run start27).r.syncState 2 0).2.2.1 = 2 := by decide
/-- an arrival from the queue (second half): player 13 waits, table 1 loses two and receives him -/
example : (((RSys.init 6 5).run [.add [1,2,3,4,5,6,7,8,9,10,11,12,13] [], .status .normal []]).r.syncState 1 2).2.2.2
    = [13] := by decide
/-- the counting of asking syncs is not trivial -/
example : ((RSys.init 9 6).run start12).askCount [breakOp, .sync 2 [] [7,8,9,10,11,12,5,6] [] [7,8,9,10,11,12,5,6] []] = 1 := by
  decide

/-- a rebalancing run (hypotheses of `rebalancing_settles_bound`, `quiet_sweep_settled`,
    `rebalancing_reaches_settled` are satisfiable): after `start27` the tables hold 3/9/9; the first
    sweep moves two players from table 2 and two from table 3 to table 1 (two asking syncs), the
    second sweep asks nothing and covers all three tables: 7/7/7 is settled -/
def sweep1 : List EOp :=
  [.sync 2 [] [10,11,12,13,14,15,16,17,18] [10,11] [12,13,14,15,16,17,18] [1],
   .sync 3 [] [19,20,21,22,23,24,25,26,27] [19,20] [21,22,23,24,25,26,27] [1],
   .sync 1 [] [7,8,9,10,11,19,20] [] [7,8,9,10,11,19,20] []]
def sweep2 : List EOp :=
  [.sync 1 [] [7,8,9,10,11,19,20] [] [7,8,9,10,11,19,20] [],
   .sync 2 [] [12,13,14,15,16,17,18] [] [12,13,14,15,16,17,18] [],
   .sync 3 [] [21,22,23,24,25,26,27] [] [21,22,23,24,25,26,27] []]

example : ((RSys.init 9 6).run start27).allOk (sweep1 ++ sweep2) := by decide
example : ∀ op ∈ sweep1 ++ sweep2, quietOp op = true := by decide
example : ((RSys.init 9 6).run start27).askCount (sweep1 ++ sweep2) = 2 := by decide
example : (((RSys.init 9 6).run start27).run sweep1).askCount sweep2 = 0 := by decide
example : (((RSys.init 9 6).run start27).run sweep1).env.members =
    [(1, [7,8,9,10,11,19,20]), (2, [12,13,14,15,16,17,18]), (3, [21,22,23,24,25,26,27])] := by decide

/-! ### the small bound -/

/-- the small bound, closed form.  With `T` = number of tables, `R = ⌈players/max⌉` = tables
    needed, `e = (T − R)⁺` spare tables and `u = (R − T)⁺` missing tables it is
    `2·(e + 1)·max + 5·T + 2·e + 2·(max + 3)·u + 1`; with exactly the tables needed, `2·max + 5·T + 1`.
    It does not mention the number of players. -/
def small_bound (s : RSys) : Nat := Reg.smallBound s.r

theorem small_bound_eq (s : RSys) :
    small_bound s =
      2 * ((s.r.tableCount - s.r.requiredTables).toNat + 1) * s.r.max + 5 * s.r.tables.length +
        2 * (s.r.tableCount - s.r.requiredTables).toNat +
        2 * (s.r.max + 3) * (s.r.requiredTables - s.r.tableCount).toNat + 1 := rfl

/-- with exactly the tables needed the bound is `2·max + 5·tables + 1` -/
theorem small_bound_balanced (s : RSys) (h : s.r.tableCount = s.r.requiredTables) :
    small_bound s = 2 * s.r.max + 5 * s.r.tables.length + 1 := by
  rw [small_bound_eq, h]
  simp

/-- the finer, state-dependent bound behind it: the potential `Reg.phi` of `Proofs/RegSweepDefs.lean`,
    `2·(G + [not calm]·T + e + (max+2)·u) + D + [queue ≠ ∅]` with `G = Σ (count + Required − ⌊wl⌋)⁺`
    and `D` the number of tables below `⌊wl⌋` -/
def potential (s : RSys) : Nat := Reg.phi s.r

/-- the only fact about the settings the small bound uses: `max > 0` (demanded by `Reachable` of the
    initial settings; `min` is arbitrary) -/
theorem reachable_max_pos {s : RSys} (h : Reachable s) : 0 < s.r.max := (SInv.of_reachable h).rinv.wf.maxpos

theorem potential_le_small_bound {s : RSys} (h : Reachable s) : potential s ≤ small_bound s := by
  have hS := SInv.of_reachable h
  have hpc : 0 ≤ s.r.playerCount := by
    rw [hS.rinv.cnt]
    have := sumCount_nonneg s.r.tables (fun t ht => (hS.rinv.wf.bnd t ht).1)
    omega
  exact phi_le_smallBound s.r hS.rinv.wf (reachable_max_pos h) hpc

/-- **rebalancing_settles_small**, counted in syncs.  From every reachable state, along EVERY valid
    sequence of elimination-free syncs — any order of tables, any choice of who is released, any
    dispatch choices — at most `small_bound s` syncs ask their table to release, receive or break.
    The proof is a potential argument: `Reg.phi` never rises in such a sync (together with the
    `ReleasePlayers` it triggers) and drops by at least one when the sync asks for something
    (`RSys.quiet_step_phi`). -/
theorem rebalancing_settles_small_syncs {s : RSys} (h : Reachable s) (ops : List EOp)
    (hq : ∀ op ∈ ops, quietOp op = true) (hok : s.allOk ops) : s.askCount ops ≤ small_bound s :=
  Nat.le_trans (askCount_le_phi ops s (SInv.of_reachable h) (reachable_max_pos h) hq hok)
    (potential_le_small_bound h)

/-- number of sweeps of a sequence in which at least one sync asks for something -/
def askingSweeps : RSys → List (List EOp) → Nat
  | _, [] => 0
  | s, sw :: rest => (if 1 ≤ s.askCount sw then 1 else 0) + askingSweeps (s.run sw) rest

theorem askingSweeps_le (sweeps : List (List EOp)) : ∀ s : RSys,
    askingSweeps s sweeps ≤ s.askCount sweeps.flatten := by
  induction sweeps with
  | nil => intro _; exact Nat.zero_le _
  | cons sw rest ih =>
    intro s
    have := ih (s.run sw)
    simp only [askingSweeps, List.flatten_cons, askCount_append]
    split <;> omega

/-- **rebalancing_settles_small** (first sentence of C20, with a small bound in SWEEPS).  From every
    reachable state `s`, take any valid sequence of elimination-free sweeps (`sweeps`: each a list of
    syncs without eliminations — in particular each may be one sync of every open table, in any order,
    with any choice of released players and any dispatch choices; tables broken during a sweep simply
    drop out).  Then the number of sweeps in which at least one table is asked to release, receive or
    break is at most `small_bound s = 2·(e+1)·max + 5·T + 2·e + 2·(max+3)·u + 1`
    (`2·max + 5·T + 1` with exactly the tables needed): linear in the number of tables plus `max`,
    independent of the number of players.  No covering hypothesis is needed for the count: the bound
    holds for every way of cutting an elimination-free script into blocks.  A bound `T + C` is
    impossible, see `sweeps_exceed_tables`. -/
theorem rebalancing_settles_small {s : RSys} (h : Reachable s) (sweeps : List (List EOp))
    (hq : ∀ sw ∈ sweeps, ∀ op ∈ sw, quietOp op = true) (hok : s.allOk sweeps.flatten) :
    askingSweeps s sweeps ≤ small_bound s := by
  have hqf : ∀ op ∈ sweeps.flatten, quietOp op = true := by
    intro op hop
    obtain ⟨sw, hsw, hin⟩ := List.mem_flatten.1 hop
    exact hq sw hsw op hin
  exact Nat.le_trans (askingSweeps_le sweeps s) (rebalancing_settles_small_syncs h _ hqf hok)

/-- the usual case spelled out: when the state has exactly the tables it needs, at most
    `2·max + 5·tables + 1` sweeps ask for anything -/
theorem rebalancing_settles_small_balanced {s : RSys} (h : Reachable s) (hT : s.r.tableCount = s.r.requiredTables)
    (sweeps : List (List EOp)) (hq : ∀ sw ∈ sweeps, ∀ op ∈ sw, quietOp op = true)
    (hok : s.allOk sweeps.flatten) :
    askingSweeps s sweeps ≤ 2 * s.r.max + 5 * s.r.tables.length + 1 := by
  rw [← small_bound_balanced s hT]
  exact rebalancing_settles_small h sweeps hq hok

/-- the same with the state-dependent potential as bound (it is usually far smaller) -/
theorem rebalancing_settles_potential {s : RSys} (h : Reachable s) (sweeps : List (List EOp))
    (hq : ∀ sw ∈ sweeps, ∀ op ∈ sw, quietOp op = true) (hok : s.allOk sweeps.flatten) :
    askingSweeps s sweeps ≤ potential s := by
  have hqf : ∀ op ∈ sweeps.flatten, quietOp op = true := by
    intro op hop
    obtain ⟨sw, hsw, hin⟩ := List.mem_flatten.1 hop
    exact hq sw hsw op hin
  exact Nat.le_trans (askingSweeps_le sweeps s)
    (askCount_le_phi _ s (SInv.of_reachable h) (reachable_max_pos h) hqf hok)

/-- **rebalancing reaches a settled state within `small_bound + 1` sweeps**: take any valid sequence
    of more than `small_bound s` elimination-free sweeps from a reachable state, each sweep syncing
    every table that exists when the sweep starts (any order, possibly more than once, any choices).
    Then one of the sweeps starts in a state in which no table is asked to release, receive or
    break — and by `settled_persists` this remains so. -/
theorem rebalancing_reaches_settled_small {s : RSys} (h : Reachable s) (sweeps : List (List EOp))
    (hq : ∀ sw ∈ sweeps, ∀ op ∈ sw, quietOp op = true) (hok : s.allOk sweeps.flatten)
    (hcover : ∀ pre sw post, sweeps = pre ++ sw :: post → ∀ t ms,
      (s.run pre.flatten).env.membersOf t = some ms → ∃ stay rel keep ch, EOp.sync t [] stay rel keep ch ∈ sw)
    (hlen : small_bound s < sweeps.length) :
    ∃ pre sw post, sweeps = pre ++ sw :: post ∧ Settled (s.run pre.flatten) := by
  have hqf : ∀ op ∈ sweeps.flatten, quietOp op = true := by
    intro op hop
    obtain ⟨sw, hsw, hin⟩ := List.mem_flatten.1 hop
    exact hq sw hsw op hin
  have hb := rebalancing_settles_small_syncs h sweeps.flatten hqf hok
  have hex : ∃ pre sw post, sweeps = pre ++ sw :: post ∧ (s.run pre.flatten).askCount sw = 0 := by
    apply Classical.byContradiction
    intro hno
    have := askCount_sweeps sweeps s (fun pre sw post he => by
      have : ¬ (s.run pre.flatten).askCount sw = 0 := fun h0 => hno ⟨pre, sw, post, he, h0⟩
      omega)
    omega
  obtain ⟨pre, sw, post, he, h0⟩ := hex
  refine ⟨pre, sw, post, he, ?_⟩
  have hokf : s.allOk (pre.flatten ++ (sw ++ post.flatten)) := by
    rw [he] at hok; simpa using hok
  have hok1 := (allOk_append s pre.flatten (sw ++ post.flatten)).1 hokf
  have hok2 := (allOk_append (s.run pre.flatten) sw post.flatten).1 hok1.2
  have hreach : Reachable (s.run pre.flatten) := h.run pre.flatten hok1.1
  exact quiet_sweep_settled hreach sw (fun op hop => hq sw (by rw [he]; simp) op hop) hok2.1 h0
    (hcover pre sw post he)

/-! non-vacuity of the small bound: the rebalancing run `sweep1`, `sweep2` after `start27`
    (three tables 3/9/9 at max 9): one asking sweep, bound `2·9 + 5·3 + 1 = 34`, potential 9 -/
example : ∀ sw ∈ [sweep1, sweep2], ∀ op ∈ sw, quietOp op = true := by decide
example : ((RSys.init 9 6).run start27).allOk [sweep1, sweep2].flatten := by decide
example : askingSweeps ((RSys.init 9 6).run start27) [sweep1, sweep2] = 1 := by decide
example : small_bound ((RSys.init 9 6).run start27) = 34 := by decide
example : potential ((RSys.init 9 6).run start27) = 9 := by decide

/-! ### a bound `tables + C` is impossible: the number of asking sweeps grows with `max`

  At `max = M` (even, ≥ 8), `min = 2`: `M²` registrants make `M` tables of `M`.  Table 1 loses `M/2`
  players (`Required := M/2 − 1`), table 2 loses `M/2 − 1` (`Required := M/2 − 2`), tables 3 … M lose
  everybody (3 … M−1 are broken; table `M` is then the only table below the level and survives, empty,
  with `Required = M/2`).  Now `M + 1` players sit at 3 tables (`M/2`, `M/2 + 1`, 0), two tables would
  do, `⌊wl⌋ = M/2`.  In every sweep the table holding `M/2 + 1` is told to release one player (table
  `M` is in deficit), and `getAvailableTable` (a Go map iteration) may hand that player to the other
  table, whose stale `Required` is still positive, instead of table `M`: `M − 2` sweeps in a row ask
  for something.  The stale `Required`s — the term `G` of the potential — are what a dispatch order
  can waste one sweep at a time.  Kernel-checked below for `M = 8` (6 asking sweeps) and `M = 16`
  (14 asking sweeps on 3 tables with 17 players: more than `tables + 10`). -/

def witStart (M : Nat) : List EOp := [.add ((List.range (M * M)).map (· + 1)) [], .status .normal []]
/-- `(table, eliminations, dispatch choices)` of the syncs that lead to the witness state -/
def witPrep (M : Nat) : List (Nat × Nat × List Nat) :=
  [(1, M / 2, []), (2, M / 2 - 1, [])] ++ ((List.range (M - 2)).map fun i => (i + 3, M, []))
def witOps (M : Nat) : List EOp := witStart M ++ scriptOps ((RSys.init M 2).run (witStart M)) (witPrep M)
def wit (M : Nat) : RSys := (RSys.init M 2).run (witOps M)

/-- a sweep: the empty table `M` first, then the table at the level, then the table above it, whose
    released player is dispatched to the other one — `swA`: table 2 releases to table 1, `swB`: table 1
    releases to table 2, `swLast`: table 1 releases and only table `M` is left to take the player -/
def swA (M : Nat) : List (Nat × Nat × List Nat) := [(M, 0, []), (1, 0, []), (2, 0, [1])]
def swB (M : Nat) : List (Nat × Nat × List Nat) := [(M, 0, []), (2, 0, []), (1, 0, [2])]
def swLast (M : Nat) : List (Nat × Nat × List Nat) := [(M, 0, []), (2, 0, []), (1, 0, [M])]
def swAlt (M : Nat) : Nat → List (List (Nat × Nat × List Nat))
  | 0 => []
  | n + 1 => swA M :: swB M :: swAlt M n
/-- `M − 2` sweeps -/
def witSweeps (M : Nat) : List (List (Nat × Nat × List Nat)) := swAlt M (M / 2 - 2) ++ [swA M, swLast M]

/-- the operations of a list of sweep scripts, sweep by sweep -/
def sweepOps : RSys → List (List (Nat × Nat × List Nat)) → List (List EOp)
  | _, [] => []
  | s, sw :: rest => scriptOps s sw :: sweepOps (s.run (scriptOps s sw)) rest

theorem wit8_reachable : Reachable (wit 8) :=
  (Reachable.init 8 2 (by decide)).run (witOps 8) (by decide +kernel)

theorem wit16_reachable : Reachable (wit 16) :=
  (Reachable.init 16 2 (by decide)).run (witOps 16) (by decide +kernel)

/-- **sweeps_exceed_tables** (`max = 8`): a reachable state with 3 tables and 9 players and six
    consecutive valid elimination-free sweeps, each syncing each of the three tables exactly once,
    each asking for something. -/
theorem sweeps_exceed_tables :
    Reachable (wit 8) ∧ (wit 8).r.tables.length = 3 ∧ (wit 8).r.playerCount = 9 ∧
    (wit 8).r.requiredTables = 2 ∧
    (∀ sw ∈ sweepOps (wit 8) (witSweeps 8), ∀ op ∈ sw, quietOp op = true) ∧
    (wit 8).allOk (sweepOps (wit 8) (witSweeps 8)).flatten ∧
    (sweepOps (wit 8) (witSweeps 8)).length = 6 ∧
    askingSweeps (wit 8) (sweepOps (wit 8) (witSweeps 8)) = 6 :=
  ⟨wit8_reachable, by decide +kernel, by decide +kernel, by decide +kernel, by decide +kernel,
   by decide +kernel, by decide +kernel, by decide +kernel⟩

/-- **sweeps_exceed_tables_plus_ten** (`max = 16`): a reachable state with 3 tables and 17 players
    and fourteen consecutive valid elimination-free sweeps, each syncing each of the three tables
    exactly once, each asking for something: `askingSweeps ≤ tables + 10` is false of the model. -/
theorem sweeps_exceed_tables_plus_ten :
    Reachable (wit 16) ∧ (wit 16).r.tables.length = 3 ∧ (wit 16).r.playerCount = 17 ∧
    (∀ sw ∈ sweepOps (wit 16) (witSweeps 16), ∀ op ∈ sw, quietOp op = true) ∧
    (wit 16).allOk (sweepOps (wit 16) (witSweeps 16)).flatten ∧
    (wit 16).r.tables.length + 10 < askingSweeps (wit 16) (sweepOps (wit 16) (witSweeps 16)) :=
  ⟨wit16_reachable, by decide +kernel, by decide +kernel, by decide +kernel, by decide +kernel,
   by decide +kernel⟩

/-- every sweep of the witness run syncs each of the open tables 1, 2 and 8 exactly once (none is
    broken: the final sheet below still lists all three) -/
example : (sweepOps (wit 8) (witSweeps 8)).map (fun sw => sw.map fun op =>
      match op with
      | .sync t _ _ _ _ _ => t
      | _ => 0) =
    [[8, 1, 2], [8, 2, 1], [8, 1, 2], [8, 2, 1], [8, 1, 2], [8, 2, 1]] := by decide +kernel

/-- the tables of the witness: ids, counts, `Required`s; what the bound and the potential say; and
    the settled state the run ends in (three tables where two would do, one of them with one player) -/
example : (wit 8).sheet = [(1, 4, 3), (2, 5, 2), (8, 0, 4)] := by decide +kernel
example : small_bound (wit 8) = 2 * 2 * 8 + 5 * 3 + 2 * 1 + 1 := by decide +kernel
example : potential (wit 8) = 21 := by decide +kernel
example : ((wit 8).run (sweepOps (wit 8) (witSweeps 8)).flatten).sheet = [(1, 4, 0), (2, 4, 0), (8, 1, 3)] := by
  decide +kernel
example : askingSweeps (wit 16) (sweepOps (wit 16) (witSweeps 16)) = 14 := by decide +kernel

end Pokerface.C20
