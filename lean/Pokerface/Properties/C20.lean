/-
  C20  Rebalancing settles: players are not moved between tables forever.

  "With no new registrations and no eliminations, repeatedly syncing every table
   and carrying out the moves the regulator asks for reaches, within a small
   bounded number of sweeps, a state in which no table is asked to release,
   receive or break.  A table that is told to break hands back all of its
   players, and each of them is queued for another table."

  Proved here (all settings, all reachable states, all choices):
    * `break_returns_all`    — the second sentence, in full;
    * `stable_is_fixed`      — balanced states are fixed points of every `SyncState(t,0)`;
    * `moves_are_directed`   — releases only from above the water level and never below its
                               floor, arrivals only up to the floor, dispatch only up to `Required`;
    * `table_count_monotone` — the number of tables only moves towards the number needed;
    * `rebalancing_settles`  — the convergence bound of the first sentence: from every reachable
                               state at most `B` elimination-free syncs ask for anything, whatever
                               the order of tables, the choice of released players and the dispatch
                               choices (`B` explicit: `settle_bound`);
    * `rebalancing_reaches_settled`, `settled_persists` — hence among any `B + 1` sweeps one starts
                               in a state where no table is asked anything, and that stays so.

  Domain: `Reachable s` (Model/RegulatorEnv.lean) = every state obtained from a fresh regulator
  with ANY setting with `1 ≤ max` (any `min`, no relation to `max`; with `max = 0` the Go code
  divides by zero in `float64`) by ANY finite history of valid operations in which the status
  only moves forward (`RSys.ok`; these conditions never block a history, Proofs/RegTotal.lean).
  No theorem here needs `2 ≤ min ≤ max`.  The forward-only restriction is needed by the
  convergence proof (its measure uses `count + required ≤ max` and the invariant `Q`, both false
  once `SetStatus(Pending)` is applied to a running competition, `C19.capacity_fails_after_
  return_to_pending`); the second sentence is proved without it (`break_returns_all_any`).
-/
import Pokerface.Proofs.RegFrame
import Pokerface.Proofs.RegAnyProps

namespace Pokerface.C20
open Pokerface Reg RSys

/-- **break_returns_all** on the WIDEST domain (`ReachableAny`, C09: any setting, status changes in
    any direction — if the competition is pending again, "queued" is all that happens to the
    released players until the restart).  Let a valid sync of an existing table `t` (members `≈ elim ++ stay`)
    from a reachable state break the table.  Then
    * the regulator tells the table to release exactly its whole remaining membership
      (`|stay|`) and gives it nobody; the released players are all of `stay`, nobody is kept;
    * afterwards table `t` exists neither in reality nor on the regulator's sheet;
    * every released player is, after the environment's `ReleasePlayers`, in the waiting queue or
      was handed to a table by a callback of this very step — and that table is another table. -/
theorem break_returns_all_any {s : RSys} (h : ReachableAny s) (t : Nat) (elim stay rel keep ch ms : List Nat)
    (hm : s.env.membersOf t = some ms) (hok : s.okAny (.sync t elim stay rel keep ch))
    (hb : s.broken t elim = true) :
    ((s.syncAnswer t elim).2.2.1 = stay.length ∧ (s.syncAnswer t elim).2.2.2 = [] ∧
      rel.Perm stay ∧ keep = []) ∧
    (t ∉ (s.step (.sync t elim stay rel keep ch)).env.members.map (·.1) ∧
      (s.step (.sync t elim stay rel keep ch)).r.findTable t = none) ∧
    (∀ p ∈ rel,
      (p ∈ (s.step (.sync t elim stay rel keep ch)).r.queue ∨
        p ∈ handed (s.step (.sync t elim stay rel keep ch)).r.calls) ∧
      (p ∈ (s.step (.sync t elim stay rel keep ch)).r.queue ∨
        ∃ e ∈ (s.step (.sync t elim stay rel keep ch)).env.members, e.1 ≠ t ∧ p ∈ e.2)) := by
  have hS := SInv0.of_reachable h
  obtain ⟨hS', hF⟩ := hS.step_full _ hok
  have hok' := hok
  simp only [okAny, ok, hm] at hok'
  rw [show s.syncAnswer t elim = ((s.syncAnswer t elim).1, (s.syncAnswer t elim).2.1,
    (s.syncAnswer t elim).2.2.1, (s.syncAnswer t elim).2.2.2) from rfl] at hok'
  simp only [] at hok'
  obtain ⟨hp1, hp2, hrl, hkeep, _⟩ := hok'
  obtain ⟨r1, relc, nw, t0, hans, hft, _, _, _, _, hq1, _, hbrk⟩ := hS.sync_known t elim stay ms hm hp1
  obtain ⟨hrelc, hnw⟩ := hbrk hb
  have hk := hkeep hb
  rw [hans] at hp2 hrl ⊢
  simp only [] at hp2 hrl ⊢
  subst hnw hk
  simp only [List.append_nil] at hp2
  -- the table is gone
  have hbase : s.baseMembers (.sync t elim stay rel [] ch) = s.env.members.filter (fun e => e.1 != t) := by
    simp only [baseMembers, hm, hb, if_true]
  have hgone : t ∉ (s.step (.sync t elim stay rel [] ch)).env.members.map (·.1) := by
    intro hin
    rw [hF.members, hbase] at hin
    rcases applyCalls_ids _ _ _ hin with h1 | ⟨ps, h1⟩
    · obtain ⟨e, he, het⟩ := List.mem_map.1 h1
      have := (List.mem_filter.1 he).2
      simp [het] at this
    · have h2 := hF.newids t ps h1
      obtain ⟨ht0, hid0⟩ := findTable_some hft
      have := hS.rinv.wf.idlt t0 ht0
      omega
  have hfind : (s.step (.sync t elim stay rel [] ch)).r.findTable t = none := by
    rw [← hS'.unknown_iff]
    unfold Env.membersOf
    rw [List.find?_eq_none.2]
    · rfl
    · intro e he hte
      exact hgone (List.mem_map.2 ⟨e, he, by simpa using hte⟩)
  refine ⟨⟨hrelc, rfl, hp2.symm, rfl⟩, ⟨hgone, hfind⟩, ?_⟩
  intro p hp
  have hho := hF.handout
  simp only [incoming, returned, hm, hans, List.nil_append] at hho
  have hmem : p ∈ handed (s.step (.sync t elim stay rel [] ch)).r.calls ++
      (s.step (.sync t elim stay rel [] ch)).r.queue := by
    rw [← hho]; exact List.mem_append_right _ hp
  rcases List.mem_append.1 hmem with h1 | h1
  · refine ⟨Or.inr h1, Or.inr ?_⟩
    have hperm := seatedOf_applyCalls (s.baseMembers (.sync t elim stay rel [] ch))
      (s.step (.sync t elim stay rel [] ch)).r.calls hF.base_nodup hF.valid
    rw [← hF.members] at hperm
    have : p ∈ seatedOf (s.step (.sync t elim stay rel [] ch)).env.members :=
      hperm.mem_iff.2 (List.mem_append_right _ h1)
    obtain ⟨e, he, hpe⟩ := mem_seatedOf.1 this
    exact ⟨e, he, fun het => hgone (List.mem_map.2 ⟨e, he, het⟩), hpe⟩
  · exact ⟨Or.inl h1, Or.inl h1⟩

/-- **break_returns_all**.  Let a valid sync of an existing table `t` (members `≈ elim ++ stay`)
    from a reachable state break the table.  Then
    * the regulator tells the table to release exactly its whole remaining membership
      (`|stay|`) and gives it nobody; the released players are all of `stay`, nobody is kept;
    * afterwards table `t` exists neither in reality nor on the regulator's sheet;
    * every released player is, after the environment's `ReleasePlayers`, in the waiting queue or
      was handed to a table by a callback of this very step — and that table is another table. -/
theorem break_returns_all {s : RSys} (h : Reachable s) (t : Nat) (elim stay rel keep ch ms : List Nat)
    (hm : s.env.membersOf t = some ms) (hok : s.ok (.sync t elim stay rel keep ch))
    (hb : s.broken t elim = true) :
    ((s.syncAnswer t elim).2.2.1 = stay.length ∧ (s.syncAnswer t elim).2.2.2 = [] ∧
      rel.Perm stay ∧ keep = []) ∧
    (t ∉ (s.step (.sync t elim stay rel keep ch)).env.members.map (·.1) ∧
      (s.step (.sync t elim stay rel keep ch)).r.findTable t = none) ∧
    (∀ p ∈ rel,
      (p ∈ (s.step (.sync t elim stay rel keep ch)).r.queue ∨
        p ∈ handed (s.step (.sync t elim stay rel keep ch)).r.calls) ∧
      (p ∈ (s.step (.sync t elim stay rel keep ch)).r.queue ∨
        ∃ e ∈ (s.step (.sync t elim stay rel keep ch)).env.members, e.1 ≠ t ∧ p ∈ e.2)) :=
  break_returns_all_any h.any t elim stay rel keep ch ms hm (okAny_of_ok hok) hb

/-- **stable_is_fixed** (regulator level, ANY state): if the regulator's total is the sum of its
    table counts (nobody queued, counts agree), it has exactly as many tables as it needs, and
    every table holds at least the floor of the water level `⌊players / tables needed⌋`, then
    `SyncState(t, 0)` on any table returns `(0, [])`, breaks nothing and changes nothing
    (`beginOp` only resets the model's scratch fields).  The upper bound `≤ ⌈wl⌉` of the informal
    statement is not needed. -/
theorem stable_is_fixed (r : Reg) (t : Nat) (t0 : RTable) (hf : r.findTable t = some t0)
    (hlen : r.tableCount = r.tables.length) (hT : r.tableCount = r.requiredTables)
    (hpc : r.playerCount = sumCount r.tables)
    (hfl : ∀ tb ∈ r.tables, r.playerCount / r.requiredTables ≤ tb.count) :
    r.syncState t 0 = (r.beginOp [], none, 0, []) :=
  syncState_stable r t t0 hf hlen hT hpc hfl

/-- **stable_is_fixed** for reachable states: queue empty ∧ tableCount = requiredTables ∧ every
    table at or above `⌊wl⌋` ⇒ no table is asked to release, receive or break. -/
theorem stable_is_fixed_reachable {s : RSys} (h : Reachable s) (hq : s.r.queue = [])
    (hT : s.r.tableCount = s.r.requiredTables)
    (hfl : ∀ tb ∈ s.r.tables, s.r.playerCount / s.r.requiredTables ≤ tb.count)
    (t : Nat) (ms : List Nat) (hm : s.env.membersOf t = some ms) :
    s.syncAnswer t [] = (s.r.beginOp [], none, 0, []) ∧ s.broken t [] = false := by
  have hS := SInv.of_reachable h
  have hne : s.r.findTable t ≠ none := fun hn => by
    rw [(hS.unknown_iff t).2 hn] at hm; cases hm
  cases hf : s.r.findTable t with
  | none => exact absurd hf hne
  | some t0 =>
    have hpc : s.r.playerCount = sumCount s.r.tables := by
      have := hS.rinv.cnt; rw [hq] at this; simpa using this
    have heq := syncState_stable s.r t t0 hf hS.rinv.wf.tc hT hpc hfl
    have hans : s.syncAnswer t [] = (s.r.beginOp [], none, 0, []) := heq
    refine ⟨hans, ?_⟩
    simp only [broken, hans]
    have : (s.r.beginOp []).findTable t = some t0 := hf
    rw [this]; rfl

/-- **moves_are_directed**, `SyncState` half (ANY state, ANY elimination count `out`).  With
    `pc = playerCount − out`, `R = ⌈pc / max⌉`, `tc` = the table's count after the eliminations:
    * if the table is not broken and told to release `rel > 0` players, it is strictly above the
      water level (`pc < tc·R`) and stays at or above its floor (`⌊pc/R⌋ ≤ tc − rel`);
    * if it receives players from the queue, it is strictly below the water level, ends at or
      below the floor (`tc + |new| ≤ ⌊pc/R⌋`), and is told to release nobody. -/
theorem moves_are_directed (r : Reg) (t : Nat) (out : Int) (t0 : RTable) (hf : r.findTable t = some t0) :
    ((r.syncState t out).1.findTable t ≠ none → 0 < (r.syncState t out).2.2.1 →
        r.playerCount - out < (t0.count - out) * ceilDiv (r.playerCount - out) r.max ∧
        (r.playerCount - out) / ceilDiv (r.playerCount - out) r.max ≤ t0.count - out - (r.syncState t out).2.2.1) ∧
    ((r.syncState t out).2.2.2 ≠ [] →
        (t0.count - out) * ceilDiv (r.playerCount - out) r.max < r.playerCount - out ∧
        t0.count - out + ((r.syncState t out).2.2.2.length : Int) ≤
          (r.playerCount - out) / ceilDiv (r.playerCount - out) r.max ∧
        (r.syncState t out).2.2.1 = 0) :=
  syncState_directed r t out t0 hf

/-- **moves_are_directed**, dispatch half: every `assignPlayersFn` callback is made by
    `dispatchPlayer`, which picks a table with `Required > 0` and hands it a prefix of the
    candidates no longer than that `Required`. -/
theorem dispatch_is_directed {r r' : Reg} {cands rest : List Nat}
    (h : r.dispatchPlayer cands = some (rest, r')) (hb : r'.badChoice = false) :
    ∃ tb ∈ r.tables, 0 < tb.required ∧ ∃ picked, r'.calls = r.calls ++ [RCall.assign tb.id picked] ∧
      (picked.length : Int) ≤ tb.required ∧ cands = picked ++ rest :=
  dispatchPlayer_directed h hb

/-- **table_count_monotone** (part (a) of the convergence argument; ANY regulator state with
    `max > 0`).  In a sync without eliminations followed by the `ReleasePlayers` it triggers, the
    number of tables needed `R = ⌈players/max⌉` does not change, and the number of tables `T`
    * drops by at most one in `SyncState`, and only if `R < T` (a break),
    * never drops and never rises above `max T R` in `ReleasePlayers` (allocations only while `T < R`).
    So `|T − R|` never increases, and decreases by one at each break and each allocation. -/
theorem table_count_monotone (r : Reg) (t : Nat) (rel ch : List Nat) (hm : 0 < r.max) :
    let r1 := (r.syncState t 0).1
    let r2 := r1.releasePlayers rel ch
    r1.requiredTables = r.requiredTables ∧ r2.requiredTables = r.requiredTables ∧
    (r1.tableCount = r.tableCount ∨ (r1.tableCount = r.tableCount - 1 ∧ r.requiredTables < r.tableCount)) ∧
    r1.tableCount ≤ r2.tableCount ∧
    (r2.tableCount = r1.tableCount ∨ r2.tableCount ≤ r.requiredTables) := by
  intro r1 r2
  obtain ⟨h1, h2⟩ := syncState_tc r t
  obtain ⟨h3, h4, h5⟩ := releasePlayers_tc r1 rel ch (by rw [h1.max]; exact hm)
  refine ⟨h1.req, (h1.trans h3).req, h2, h4, ?_⟩
  rcases h5 with h5 | h5
  · exact Or.inl h5
  · exact Or.inr (by rw [h1.req] at h5; exact h5)

/-! ### the convergence bound -/

/-- no table is asked to release, receive or break -/
def Settled (s : RSys) : Prop :=
  ∀ t ms, s.env.membersOf t = some ms →
    (s.syncAnswer t []).2.2.1 = 0 ∧ (s.syncAnswer t []).2.2.2 = [] ∧ s.broken t [] = false

/-- `Settled` says exactly that no elimination-free sync asks for anything
    (`RSys.asks`: release count ≠ 0, or new players, or the table is broken). -/
theorem settled_iff (s : RSys) :
    Settled s ↔ ∀ t stay rel keep ch, s.asks (.sync t [] stay rel keep ch) = false := by
  constructor
  · intro h t stay rel keep ch
    cases hm : s.env.membersOf t with
    | none => simp [RSys.asks, hm]
    | some ms =>
      obtain ⟨h1, h2, h3⟩ := h t ms hm
      simp [RSys.asks, hm, h1, h2, h3]
  · intro h t ms hm
    have := h t [] [] [] []
    simp only [RSys.asks, hm, Option.isSome_some, Bool.true_and, Bool.or_eq_false_iff,
      decide_eq_false_iff_not, Bool.not_eq_false', List.isEmpty_iff, Decidable.not_not] at this
    exact ⟨this.1.1, this.1.2, this.2⟩

/-- the explicit bound: the termination measure of the state, encoded as a number, with
    `Tmax = max(tables, tables needed)` and weight `W = Tmax·max + Tmax + 1`; it is below `W⁶`,
    a (coarse) polynomial in the number of tables and `max` -/
def settle_bound (s : RSys) : Nat :=
  let Tmax := (Max.max s.r.tableCount s.r.requiredTables).toNat
  Reg.pot (Tmax * s.r.max + Tmax + 1) s.r

/-- the statement of **rebalancing_settles**: from every reachable state there is a bound `B`
    such that along EVERY valid sequence of elimination-free syncs — any order of tables, any
    choice of who is released, any dispatch choices — at most `B` syncs ask their table to
    release, receive or break.  A sweep that asks for something contains such a sync, so at most
    `B` sweeps do. -/
def rebalancing_settles : Prop :=
  ∀ s : RSys, Reachable s → ∃ B : Nat, ∀ ops : List EOp,
    (∀ op ∈ ops, quietOp op = true) → s.allOk ops → s.askCount ops ≤ B

/-- **rebalancing_settles**, with the explicit bound.  The proof is a termination argument: the
    lexicographic measure `( |T − R| , #deficit tables , B , A , S , Λ )` of
    `Proofs/RegMeasure.lean` strictly decreases at every sync that asks for something and never
    increases otherwise (`RSys.quiet_step`), and all its components are bounded by `W` on the
    states of such a run. -/
theorem rebalancing_settles_bound {s : RSys} (h : Reachable s) (ops : List EOp)
    (hq : ∀ op ∈ ops, quietOp op = true) (hok : s.allOk ops) : s.askCount ops ≤ settle_bound s := by
  have hS := SInv.of_reachable h
  have h0 : 0 ≤ s.r.tableCount := by rw [hS.rinv.wf.tc]; omega
  exact askCount_le s.r.max (Max.max s.r.tableCount s.r.requiredTables).toNat ops s hS rfl
    (by omega) (by omega) hq hok

theorem rebalancing_settles_holds : rebalancing_settles :=
  fun s h => ⟨settle_bound s, fun ops hq hok => rebalancing_settles_bound h ops hq hok⟩

/-- balanced states are settled (and by `stable_is_fixed` stay exactly as they are under every
    further sync) -/
theorem balanced_is_settled {s : RSys} (h : Reachable s) (hq : s.r.queue = [])
    (hT : s.r.tableCount = s.r.requiredTables)
    (hfl : ∀ tb ∈ s.r.tables, s.r.playerCount / s.r.requiredTables ≤ tb.count) : Settled s := by
  intro t ms hm
  obtain ⟨h1, h2⟩ := stable_is_fixed_reachable h hq hT hfl t ms hm
  rw [h1]
  exact ⟨rfl, rfl, h2⟩

/-- a settled state stays settled: an elimination-free sync asks nothing there and leaves a
    settled state (it can only refresh a `Required`, which no answer depends on) -/
theorem settled_persists {s : RSys} (h : Reachable s) (hs : Settled s) (op : EOp)
    (hq : quietOp op = true) (hok : s.ok op) : s.asks op = false ∧ Settled (s.step op) := by
  have hS := SInv.of_reachable h
  cases op with
  | add ps ch => simp [quietOp] at hq
  | status st ch => simp [quietOp] at hq
  | sync t elim stay rel keep ch =>
    have he : elim = [] := by simpa [quietOp] using hq
    subst he
    have hna := (settled_iff s).1 hs t stay rel keep ch
    refine ⟨hna, ?_⟩
    obtain ⟨hfr, hids⟩ := noask_frame hS t stay rel keep ch hok hna
    intro t' ms' hm'
    have hsome : (s.env.membersOf t').isSome = true := by
      rw [membersOf_isSome_iff, ← hids, ← membersOf_isSome_iff, hm']; rfl
    cases hm : s.env.membersOf t' with
    | none => rw [hm] at hsome; cases hsome
    | some ms =>
      obtain ⟨h1, h2, h3⟩ := hs t' ms hm
      have hfa := frame_answer hfr t'
      have e : answer0 s.r t' = (0, [], false) := by
        unfold answer0
        show ((s.syncAnswer t' []).2.2.1, (s.syncAnswer t' []).2.2.2, s.broken t' []) = _
        rw [h1, h2, h3]
      rw [e] at hfa
      have : ((s.step (.sync t [] stay rel keep ch)).syncAnswer t' []).2.2.1 = 0 ∧
          ((s.step (.sync t [] stay rel keep ch)).syncAnswer t' []).2.2.2 = [] ∧
          (s.step (.sync t [] stay rel keep ch)).broken t' [] = false := by
        have h4 := congrArg (·.1) hfa
        have h5 := congrArg (·.2.1) hfa
        have h6 := congrArg (·.2.2) hfa
        exact ⟨h4, h5, h6⟩
      exact this

/-- a whole sweep (every existing table is synced at least once) in which nobody is asked
    anything starts — and by `settled_persists` ends — in a settled state -/
theorem quiet_sweep_settled {s : RSys} (h : Reachable s) (ops : List EOp)
    (hq : ∀ op ∈ ops, quietOp op = true) (hok : s.allOk ops) (h0 : s.askCount ops = 0)
    (hcover : ∀ t ms, s.env.membersOf t = some ms → ∃ stay rel keep ch, EOp.sync t [] stay rel keep ch ∈ ops) :
    Settled s := by
  intro t ms hm
  have hsome : (s.env.membersOf t).isSome = true := by rw [hm]; rfl
  have := noask_script_answers ops s (SInv.of_reachable h) hq hok h0 t (hcover t ms hm) hsome
  have h4 := congrArg (·.1) this
  have h5 := congrArg (·.2.1) this
  have h6 := congrArg (·.2.2) this
  exact ⟨h4, h5, h6⟩

theorem run_append (s : RSys) (a b : List EOp) : s.run (a ++ b) = (s.run a).run b := by
  simp [RSys.run, List.foldl_append]

/-- if every sweep of a sequence asks for something, the script asks at least as often as there
    are sweeps -/
theorem askCount_sweeps (sweeps : List (List EOp)) : ∀ (s : RSys),
    (∀ pre sw post, sweeps = pre ++ sw :: post → 1 ≤ (s.run pre.flatten).askCount sw) →
    sweeps.length ≤ s.askCount sweeps.flatten := by
  induction sweeps with
  | nil => intro _ _; exact Nat.zero_le _
  | cons sw rest ih =>
    intro s hall
    have h1 := hall [] sw rest rfl
    have h2 := ih (s.run sw) (fun pre x post he => by
      have := hall (sw :: pre) x post (by rw [he]; rfl)
      simpa [run_append] using this)
    simp only [List.flatten_cons, askCount_append, List.length_cons]
    simp only [List.flatten_nil, RSys.run, List.foldl_nil] at h1
    omega

/-- **rebalancing reaches a settled state within `settle_bound + 1` sweeps**: take any valid
    sequence of more than `settle_bound s` elimination-free sweeps from a reachable state, each
    sweep syncing every table that exists when the sweep starts (in any order, possibly more
    than once, with any choices).  Then one of the sweeps starts in a state in which no table is
    asked to release, receive or break — and by `settled_persists` this remains so. -/
theorem rebalancing_reaches_settled {s : RSys} (h : Reachable s) (sweeps : List (List EOp))
    (hq : ∀ sw ∈ sweeps, ∀ op ∈ sw, quietOp op = true) (hok : s.allOk sweeps.flatten)
    (hcover : ∀ pre sw post, sweeps = pre ++ sw :: post → ∀ t ms,
      (s.run pre.flatten).env.membersOf t = some ms → ∃ stay rel keep ch, EOp.sync t [] stay rel keep ch ∈ sw)
    (hlen : settle_bound s < sweeps.length) :
    ∃ pre sw post, sweeps = pre ++ sw :: post ∧ Settled (s.run pre.flatten) := by
  have hqf : ∀ op ∈ sweeps.flatten, quietOp op = true := by
    intro op hop
    obtain ⟨sw, hsw, hin⟩ := List.mem_flatten.1 hop
    exact hq sw hsw op hin
  have hb := rebalancing_settles_bound h sweeps.flatten hqf hok
  -- some sweep asks nothing
  have hex : ∃ pre sw post, sweeps = pre ++ sw :: post ∧ (s.run pre.flatten).askCount sw = 0 := by
    apply Classical.byContradiction
    intro hno
    have := askCount_sweeps sweeps s (fun pre sw post he => by
      have : ¬ (s.run pre.flatten).askCount sw = 0 := fun h0 => hno ⟨pre, sw, post, he, h0⟩
      omega)
    omega
  obtain ⟨pre, sw, post, he, h0⟩ := hex
  refine ⟨pre, sw, post, he, ?_⟩
  have hokf : s.allOk (pre.flatten ++ (sw ++ post.flatten)) := by
    rw [he] at hok; simpa using hok
  have hok1 := (allOk_append s pre.flatten (sw ++ post.flatten)).1 hokf
  have hok2 := (allOk_append (s.run pre.flatten) sw post.flatten).1 hok1.2
  have hreach : Reachable (s.run pre.flatten) := h.run pre.flatten hok1.1
  exact quiet_sweep_settled hreach sw (fun op hop => hq sw (by rw [he]; simp) op hop) hok2.1 h0
    (hcover pre sw post he)

/-! ### non-vacuity -/

/-- 12 registrants at 9/6 make two tables of six; four eliminations at table 1 leave 8 players,
    one table suffices, both tables are low: table 1 is broken and its two players go to table 2 -/
def start12 : List EOp := [.add [1,2,3,4,5,6,7,8,9,10,11,12] [], .status .normal []]
def breakOp : EOp := .sync 1 [1,2,3,4] [5,6] [5,6] [] [2]

example : Reachable ((RSys.init 9 6).run start12) :=
  (Reachable.init 9 6 (by decide)).run start12 (by decide)
example : ((RSys.init 9 6).run start12).ok breakOp := by decide
example : ((RSys.init 9 6).run start12).broken 1 [1,2,3,4] = true := by decide
example : (((RSys.init 9 6).run start12).step breakOp).env.members = [(2, [7,8,9,10,11,12,5,6])] := by decide
example : (((RSys.init 9 6).run start12).step breakOp).r.calls = [.assign 2 [5, 6]] := by decide

/-- the state after the start is balanced: the hypotheses of `stable_is_fixed_reachable` hold -/
example : ((RSys.init 9 6).run start12).r.queue = [] ∧
    ((RSys.init 9 6).run start12).r.tableCount = ((RSys.init 9 6).run start12).r.requiredTables ∧
    (∀ tb ∈ ((RSys.init 9 6).run start12).r.tables,
      ((RSys.init 9 6).run start12).r.playerCount / ((RSys.init 9 6).run start12).r.requiredTables ≤ tb.count) := by
  decide

/-- a release from above the water level (hypotheses of `moves_are_directed`, first half):
    27 registrants at 9/6, six eliminations at table 1; table 2 (9 players, water level 7) is told
    to release two -/
def start27 : List EOp :=
  [.add ((List.range 27).map (· + 1)) [], .status .normal [], .sync 1 [1,2,3,4,5,6] [7,8,9] [] [7,8,9] []]
example : Reachable ((RSys.init 9 6).run start27) :=
  (Reachable.init 9 6 (by decide)).run start27 (by decide)
example : (((RSys.init 9 6).run start27).r.syncState 2 0).2.2.1 = 2 := by decide
/-- an arrival from the queue (second half): player 13 waits, table 1 loses two and receives him -/
example : (((RSys.init 6 5).run [.add [1,2,3,4,5,6,7,8,9,10,11,12,13] [], .status .normal []]).r.syncState 1 2).2.2.2
    = [13] := by decide
/-- the counting of asking syncs is not trivial -/
example : ((RSys.init 9 6).run start12).askCount [breakOp, .sync 2 [] [7,8,9,10,11,12,5,6] [] [7,8,9,10,11,12,5,6] []] = 1 := by
  decide

/-- a rebalancing run (hypotheses of `rebalancing_settles_bound`, `quiet_sweep_settled`,
    `rebalancing_reaches_settled` are satisfiable): after `start27` the tables hold 3/9/9; the first
    sweep moves two players from table 2 and two from table 3 to table 1 (two asking syncs), the
    second sweep asks nothing and covers all three tables: 7/7/7 is settled -/
def sweep1 : List EOp :=
  [.sync 2 [] [10,11,12,13,14,15,16,17,18] [10,11] [12,13,14,15,16,17,18] [1],
   .sync 3 [] [19,20,21,22,23,24,25,26,27] [19,20] [21,22,23,24,25,26,27] [1],
   .sync 1 [] [7,8,9,10,11,19,20] [] [7,8,9,10,11,19,20] []]
def sweep2 : List EOp :=
  [.sync 1 [] [7,8,9,10,11,19,20] [] [7,8,9,10,11,19,20] [],
   .sync 2 [] [12,13,14,15,16,17,18] [] [12,13,14,15,16,17,18] [],
   .sync 3 [] [21,22,23,24,25,26,27] [] [21,22,23,24,25,26,27] []]

example : ((RSys.init 9 6).run start27).allOk (sweep1 ++ sweep2) := by decide
example : ∀ op ∈ sweep1 ++ sweep2, quietOp op = true := by decide
example : ((RSys.init 9 6).run start27).askCount (sweep1 ++ sweep2) = 2 := by decide
example : (((RSys.init 9 6).run start27).run sweep1).askCount sweep2 = 0 := by decide
example : (((RSys.init 9 6).run start27).run sweep1).env.members =
    [(1, [7,8,9,10,11,19,20]), (2, [12,13,14,15,16,17,18]), (3, [21,22,23,24,25,26,27])] := by decide

end Pokerface.C20
