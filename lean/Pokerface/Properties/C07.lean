import Pokerface.Proofs.EngineHop
import Pokerface.Proofs.EngineReach
import Pokerface.Proofs.GeneratedLogicHop
/-
  C07 — A hand can be resumed from its serialized state at any wait point.

  "At every point where the engine waits for input its JSON state is complete: a game
   rebuilt from that JSON — which is what the stateless table backend does for every single
   call — reacts to all subsequent operations exactly like the original in-memory game, up to
   timestamps, and the backend never modifies the state handed to it.  Equivalently, the same
   deck and the same operations always lead to the same state."

  Rendering.  `Game.hop` (Model/Game.lean) is what survives `json.Marshal`/`json.Unmarshal`
  of the Go `GameState` followed by `NewGameFromState`: every field except the pots' `levels`
  (Go `Levels []*Level json:"-"`).  The cached dealer/sb/bb player objects of the Go `game`
  struct are recomputed by `LoadState`/`addPlayer`; the model has no cache (`dealerIdx` is a
  function of the players), so nothing else is lost.  "Up to timestamps": `GameID`,
  `CreatedAt`, `UpdatedAt` are not part of the model (never read by the engine).
  The Go `settlement.Result` stored in the state has unexported internals as well (the levels
  and rank groups of each pot result); the model keeps them inside `Game.result`, so a second,
  coarser serialisation `Game.json` (Proofs/EngineHop.lean) drops those too; every theorem is
  given for both (`hop_…` as the task states them, `json_…` for the state exactly as the JSON
  carries it).  The observation of a game is its serialisation; two games with
  `a.json = b.json` print the same JSON.

  All theorems below hold for EVERY state `g` (in particular every reachable state and every
  wait point: between two operations the engine is at a wait point by construction of `step`),
  every operation, every argument — no reachability or well-formedness hypothesis is needed,
  because no function of the event chain reads `pots[·].levels` except `calculateGameResults`,
  which only runs in `gameCompleted`, right after `updatePots` has rebuilt the pots — levels
  included — from the players.

  NOT expressible here: the aliasing half, "the backend never modifies the state handed to
  it".  A pure functional model has no pointers, hence no way to say that `*GameState` given
  to `NativeBackend.X` is not written through.  That half is decided at run time by the K2
  harness: a byte comparison of the marshalled argument before and after every backend call
  on every generated history (DESIGN §6 C07, §4 table row "pointer aliasing").
-/
namespace Pokerface.C07
open Pokerface Game

/-! ## Specification-level notions

  Two renderings of "rebuilt from that JSON" are used side by side:
   * `Game.hop`  (Model/Game.lean): the pots' `levels` are dropped (`Levels … json:"-"`); this is the
     only loss inside `GameState` proper, and the one the differential harness checks;
   * `Game.json` (Proofs/EngineHop.lean): additionally the internals of the settlement result
     (`PotResult.level`, rank groups — unexported Go fields, kept by the model in
     `Result.pots[·].levels`) are dropped.  This is exactly the state the JSON carries.
  Every theorem is proved for both (`hop_…` / `json_…`).  -/

/-- a rebuild function applied (flag `true`: a process restart / backend hop happens here) or not
    (flag `false`: the same in-memory game goes on) -/
def hopIf (r : Game → Game) (b : Bool) (g : Game) : Game := if b then r g else g

/-- The error answers of the operations of an in-memory run (`Game.run` gives the state). -/
def errs : Game → List Op → List (Option Err)
  | _, [] => []
  | g, op :: ops => (g.step op).2 :: errs (g.step op).1 ops

/-- Run a history in which, before each operation, the game may (flag `true`) or may not
    (flag `false`) have been serialised and rebuilt (by `r` = `Game.hop` or `Game.json`): the final game. -/
def runHops (r : Game → Game) : Game → List (Bool × Op) → Game
  | g, [] => g
  | g, (b, op) :: rest => runHops r ((hopIf r b g).step op).1 rest

/-- … and the error answers along that history. -/
def errsHops (r : Game → Game) : Game → List (Bool × Op) → List (Option Err)
  | _, [] => []
  | g, (b, op) :: rest => ((hopIf r b g).step op).2 :: errsHops r ((hopIf r b g).step op).1 rest

/-- One operation on an in-memory game as a driver sees it: the new game, or the error. -/
def memCall (g : Game) (op : Op) : Except Err Game :=
  match g.step op with
  | (g', none) => .ok g'
  | (_, some e) => .error e

/-- table/native_backend.go, every method: `cloneState` of the argument (a JSON round trip),
    `NewGameFromState`, ONE operation, and on success `cloneState(g.GetState())` (a second JSON
    round trip); on error `nil, err`. -/
def backendCall (s : Game) (op : Op) : Except Err Game :=
  match s.json.step op with
  | (g', none) => .ok g'.json
  | (_, some e) => .error e

/-- K1 (regenerated logic, group "Hop"): `backendCall` is the model `Hop.backendModel` which
    `GeneratedLogic.hopBackend_model` proves equal to EVERY method of table/native_backend.go as translated from the
    source on this run (clone in → `NewGameFromState` → the one operation of the same name → clone out, error passed
    through); `GeneratedLogic.hopBackend…_eq` state the same for all interpretations of `cloneState` (aliasing included). -/
theorem backendCall_generated (s : Game) (op : Op) : backendCall s op = GeneratedLogic.Hop.backendModel s op := rfl

/-- a driver threading the state through the stateless backend, stopping at the first error -/
def backendRun (s : Game) (ops : List Op) : Except Err Game := ops.foldlM backendCall s

/-- the same driver holding one in-memory game -/
def memRun (g : Game) (ops : List Op) : Except Err Game := ops.foldlM memCall g

/-- the serialisable part of a pot -/
def potPublic (p : Pot) : Int × Int × Int × List (Nat × Int) := (p.level, p.wager, p.total, p.contributors)

/-! ## Theorems -/

/-- **"a game rebuilt from that JSON reacts to [an operation] exactly like the original
    in-memory game"**.  For every state `g` (no hypothesis: in particular at every wait point of
    every reachable history of every configuration), every operation `op` with every argument:
    the rebuilt game `g.hop` and the original `g` answer with the same error value, and the two
    resulting states have the same serialisation (they agree on every field, `result`
    included, except possibly `pots[·].levels`). -/
theorem hop_step (g : Game) (op : Op) :
    ((g.hop).step op).1.hop = (g.step op).1.hop ∧ ((g.hop).step op).2 = (g.step op).2 :=
  sameR_step (same_hop_left g) op

/-- The same with the internals of the settlement result dropped too (the state exactly as the
    JSON has it): same answer, same JSON afterwards. -/
theorem json_step (g : Game) (op : Op) :
    ((g.json).step op).1.json = (g.step op).1.json ∧ ((g.json).step op).2 = (g.step op).2 :=
  sameR_step (same_json_left g) op

/-- The same, for any two in-memory games with the same serialisation (e.g. the game on the
    node that crashed and the game rebuilt on another node). -/
theorem same_step {a b : Game} (h : a.hop = b.hop) (op : Op) :
    (a.step op).1.hop = (b.step op).1.hop ∧ (a.step op).2 = (b.step op).2 :=
  sameR_step (σ := id) h op

theorem same_json_step {a b : Game} (h : a.json = b.json) (op : Op) :
    (a.step op).1.json = (b.step op).1.json ∧ (a.step op).2 = (b.step op).2 :=
  sameR_step (σ := Option.map stripResult) h op

/-- The settlement result — the one published value that is computed FROM the levels — is
    literally the same in the rebuilt game as in the original (it is not touched by `hop`). -/
theorem hop_step_result (g : Game) (op : Op) : ((g.hop).step op).1.result = (g.step op).1.result :=
  (sameR_step (same_hop_left g) op).1.result

/-- general form of `hop_run`/`json_run` -/
theorem run_ser {σ : Option Result → Option Result} (hσ : ∀ g : Game, Same σ (g.ser σ) g)
    (g : Game) (hs : List (Bool × Op)) :
    (runHops (Game.ser σ) g hs).ser σ = (g.run (hs.map (·.2))).ser σ ∧
    errsHops (Game.ser σ) g hs = errs g (hs.map (·.2)) := by
  have key : ∀ (hs : List (Bool × Op)) (a b : Game), Same σ a b →
      Same σ (runHops (Game.ser σ) a hs) (b.run (hs.map (·.2))) ∧
      errsHops (Game.ser σ) a hs = errs b (hs.map (·.2)) := by
    intro hs
    induction hs with
    | nil => intro a b h; exact ⟨h, rfl⟩
    | cons x rest ih =>
      intro a b h
      obtain ⟨f, op⟩ := x
      have h' : Same σ (hopIf (Game.ser σ) f a) b := by
        cases f
        · exact h
        · exact (hσ a).trans h
      obtain ⟨h1, h2⟩ := sameR_step h' op
      obtain ⟨i1, i2⟩ := ih _ _ h1
      refine ⟨i1, ?_⟩
      simp only [errsHops, errs, List.map_cons, h2, i2]
  exact key hs g g (Same.refl g)

/-- **"reacts to ALL subsequent operations exactly like the original … a process restart or a
    backend hop may happen between any two operations"**.  For every state `g` and every
    history `hs` of operations, each flagged with whether a serialise-and-rebuild happens just
    before it (so: hops at ANY subset of the cut points, including all of them — the stateless
    backend — and none): the final state has the same serialisation as that of the plain
    in-memory run, and the error answers are the same, operation by operation. -/
theorem hop_run (g : Game) (hs : List (Bool × Op)) :
    (runHops Game.hop g hs).hop = (g.run (hs.map (·.2))).hop ∧ errsHops Game.hop g hs = errs g (hs.map (·.2)) :=
  run_ser (σ := id) same_hop_left g hs

/-- `hop_run` for the state exactly as the JSON has it. -/
theorem json_run (g : Game) (hs : List (Bool × Op)) :
    (runHops Game.json g hs).json = (g.run (hs.map (·.2))).json ∧ errsHops Game.json g hs = errs g (hs.map (·.2)) :=
  run_ser (σ := Option.map stripResult) same_json_left g hs

/-- `hop_run` with a hop before every single operation (what `table.NativeBackend` does). -/
theorem hop_run_all (g : Game) (ops : List Op) :
    (runHops Game.hop g (ops.map fun op => (true, op))).hop = (g.run ops).hop ∧
    errsHops Game.hop g (ops.map fun op => (true, op)) = errs g ops := by
  have := hop_run g (ops.map fun op => (true, op))
  simpa [List.map_map, Function.comp_def] using this

theorem json_run_all (g : Game) (ops : List Op) :
    (runHops Game.json g (ops.map fun op => (true, op))).json = (g.run ops).json ∧
    errsHops Game.json g (ops.map fun op => (true, op)) = errs g ops := by
  have := json_run g (ops.map fun op => (true, op))
  simpa [List.map_map, Function.comp_def] using this

/-- **"which is what the stateless table backend does for every single call"**: one backend
    call on the serialised state of ANY in-memory game `g` answers exactly as `g` itself does —
    the same error, or the serialisation of the same new state. -/
theorem backend_call (g : Game) (op : Op) :
    backendCall g.json op = (memCall g op).map Game.json := by
  obtain ⟨h1, h2⟩ := sameR_step ((same_json_left g.json).trans (same_json_left g)) op
  unfold backendCall memCall
  revert h1 h2
  generalize g.json.json.step op = x
  generalize g.step op = y
  obtain ⟨x1, x2⟩ := x
  obtain ⟨y1, y2⟩ := y
  intro h1 h2
  simp only at h1 h2
  subst h2
  cases x2 with
  | none => simp only [Except.map]; exact congrArg Except.ok h1
  | some e => rfl

/-- A driver that threads the state through the stateless backend (a JSON hop before and after
    every single operation) observes exactly what a driver holding one in-memory game observes:
    the same first error if there is one, otherwise the serialisation of the same final state. -/
theorem backend_run (g : Game) (ops : List Op) :
    backendRun g.json ops = (memRun g ops).map Game.json := by
  induction ops generalizing g with
  | nil => rfl
  | cons op rest ih =>
    unfold backendRun memRun at ih ⊢
    rw [List.foldlM_cons, List.foldlM_cons, backend_call]
    cases memCall g op with
    | error e => rfl
    | ok g' => exact ih g'

/-- DESIGN §6 `resume_equiv`, as stated there (the hypothesis is not needed; see `hop_step`). -/
theorem resume_equiv {g : Game} (_h : Reachable g) (op : Op) :
    ((g.hop).step op).1.hop = (g.step op).1.hop ∧ ((g.hop).step op).2 = (g.step op).2 :=
  hop_step g op

/-- Serialising twice is serialising once. -/
theorem hop_idempotent (g : Game) : g.hop.hop = g.hop := hop_hop g

theorem json_idempotent (g : Game) : g.json.json = g.json := json_json g

/-- the JSON state is a function of the `hop` state (it only forgets more) -/
theorem json_of_hop (g : Game) : g.hop.json = g.json := by
  have := hop_hop g
  cases g
  simp only [Game.json, Game.ser, Game.hop, Game.mk.injEq] at this ⊢
  simp [this]

/-- **"its JSON state is complete"**, the static half: the hop changes nothing but
    `pots[k].levels` — every other field of the state, every pot's `level`, `wager`, `total`
    and `contributors`, and the number of pots are the same. -/
theorem hop_public (g : Game) :
    g.hop.opts = g.opts ∧ g.hop.players = g.players ∧ g.hop.miniBet = g.miniBet ∧ g.hop.round = g.round ∧
    g.hop.burned = g.burned ∧ g.hop.board = g.board ∧ g.hop.prev = g.prev ∧ g.hop.deckPos = g.deckPos ∧
    g.hop.roundPot = g.roundPot ∧ g.hop.cw = g.cw ∧ g.hop.raiser = g.raiser ∧ g.hop.cur = g.cur ∧
    g.hop.event = g.event ∧ g.hop.result = g.result ∧
    g.hop.pots.map potPublic = g.pots.map potPublic ∧ g.hop.pots.length = g.pots.length ∧
    ∀ p ∈ g.hop.pots, p.levels = [] := by
  refine ⟨rfl, rfl, rfl, rfl, rfl, rfl, rfl, rfl, rfl, rfl, rfl, rfl, rfl, rfl, ?_, ?_, ?_⟩
  · simp [Game.hop, List.map_map, Function.comp_def, potPublic]
  · simp [Game.hop]
  · intro p hp
    simp only [Game.hop, List.mem_map] at hp
    obtain ⟨q, _, rfl⟩ := hp
    rfl

/-- … and conversely two states that agree on all of that have the same serialisation. -/
theorem same_of_public {a b : Game}
    (h : a.opts = b.opts ∧ a.players = b.players ∧ a.miniBet = b.miniBet ∧ a.round = b.round ∧
      a.burned = b.burned ∧ a.board = b.board ∧ a.prev = b.prev ∧ a.deckPos = b.deckPos ∧
      a.roundPot = b.roundPot ∧ a.cw = b.cw ∧ a.raiser = b.raiser ∧ a.cur = b.cur ∧
      a.event = b.event ∧ a.result = b.result ∧ a.pots.map potPublic = b.pots.map potPublic) :
    a.hop = b.hop := by
  obtain ⟨h1, h2, h3, h4, h5, h6, h7, h8, h9, h10, h11, h12, h13, h14, h15⟩ := h
  cases a; cases b
  simp only at h1 h2 h3 h4 h5 h6 h7 h8 h9 h10 h11 h12 h13 h14 h15
  subst h1 h2 h3 h4 h5 h6 h7 h8 h9 h10 h11 h12 h13 h14
  simp only [Game.hop, Game.mk.injEq, true_and, and_true]
  rename_i pa pb
  have := congrArg (List.map fun (t : Int × Int × Int × List (Nat × Int)) =>
    ({ level := t.1, wager := t.2.1, total := t.2.2.1, contributors := t.2.2.2, levels := [] } : Pot)) h15
  simpa [List.map_map, Function.comp_def, potPublic] using this

/-- **"Equivalently, the same deck and the same operations always lead to the same state."**
    In the model the engine is a function: `start` and `step` take the configuration — which
    includes the deck AS IT IS AFTER the shuffle of `Initialize` — and the operations as their
    only inputs.  Wall-clock time (`CreatedAt`/`UpdatedAt`), the uuid (`GameID`) and the random
    shuffle are the only other inputs of the Go code; the first two are never read by the engine
    (not modelled, masked in the differential run), the third is made an input here.  So the
    statement is true by construction of the model (and the differential validation of the
    model against the Go code is what transfers it); it is stated for the record, together with
    its non-trivial form: also through any pattern of serialise-and-rebuild hops. -/
theorem deterministic (c c' : Config) (ops ops' : List Op) (hc : c = c') (ho : ops = ops') :
    (start c).1.run ops = (start c').1.run ops' ∧ (start c).2 = (start c').2 ∧
    errs (start c).1 ops = errs (start c').1 ops' := by
  subst hc ho
  exact ⟨rfl, rfl, rfl⟩

/-- Determinism through the serialisation: the same configuration (deck included) and the same
    operations lead to the same serialised state and the same answers, whatever the pattern of
    restarts (`fs`, `fs'` say before which operations a hop happens in either execution). -/
theorem deterministic_hops (c : Config) (ops : List Op) (fs fs' : List Bool)
    (hl : fs.length = ops.length) (hl' : fs'.length = ops.length) :
    (runHops Game.json (start c).1 (fs.zip ops)).json = (runHops Game.json (start c).1 (fs'.zip ops)).json ∧
    errsHops Game.json (start c).1 (fs.zip ops) = errsHops Game.json (start c).1 (fs'.zip ops) := by
  have h1 := json_run (start c).1 (fs.zip ops)
  have h2 := json_run (start c).1 (fs'.zip ops)
  have e1 : (fs.zip ops).map (·.2) = ops := by
    rw [List.map_snd_zip]; omega
  have e2 : (fs'.zip ops).map (·.2) = ops := by
    rw [List.map_snd_zip]; omega
  rw [e1] at h1
  rw [e2] at h2
  exact ⟨h1.1.trans h2.1.symm, h1.2.trans h2.2.symm⟩

/-! ## Non-vacuity: a complete three-handed hand with side pots, a refused action, hops -/

section Examples

deriving instance DecidableEq for LevelInfo, PotResult, Result

/-- 52 cards in a fixed (post-shuffle) order -/
def deck52 : List Card := suitCodes.flatMap fun s => (List.range 13).map fun r => { suit := s, rank := r + 2 }

/-- stacks 100 / 200 / 300 on dealer / small blind / big blind, ante 1, blinds 5/10, no-limit -/
def cfg : Config :=
  { opts := { ante := 1, blindDealer := 0, blindSB := 5, blindBB := 10, potLimit := false, holeCount := 2, required := 0,
              lvl := Cat.toNat, table := Cat.all, deck := deck52 },
    seats := [⟨100, true, false, false⟩, ⟨200, false, true, false⟩, ⟨300, false, false, true⟩] }

def g0 : Game := (start cfg).1

/-- a whole hand: the dealer goes all-in preflop and is called twice (main pot), betting goes on
    between the other two on flop and river (side pot, two levels), seat 2 tries a `pass` that is
    refused, folds; showdown; one more `next` after the hand is closed (refused) -/
def ops : List Op :=
  [.ready, .payAnte, .payBlinds, .ready, .act none .allin 0, .act none .call 0, .act none .call 0, .act none .pass 0, .next,
   .ready, .act none .bet 20, .act none .raise 60, .act none .pass 0, .act none .call 0, .next,
   .ready, .act none .check 0, .act none .check 0, .act none .pass 0, .next,
   .ready, .act none .check 0, .act none .bet 30, .act none .pass 0, .act none .allin 0, .act none .pass 0,
   .act none .fold 0, .next, .next]

/-- the expected answers: everything accepted except operations 25 and 28 -/
def answers : List (Option Err) :=
  (List.replicate 25 none) ++ [some .invalidAction, none, none, some .notClosedRound]

/-- hop before every third operation (a node restart now and then) -/
def flags : List Bool := (List.range 29).map fun k => k % 3 == 0

/-- the state at the river, round closed, just before the settlement -/
def gRiver : Game := g0.run (ops.take 27)

/-- The in-memory run is what the comment says: accepted/refused as listed, the hand ends at
    `GameClosed` with a result. -/
example : (start cfg).2 = none ∧ ops.length = 29 ∧ errs g0 ops = answers ∧
    (g0.run ops).event = .gameClosed ∧ (g0.run ops).result.isSome = true := by decide +kernel

/-- `hop_step` is about something: at `gRiver` (event `RoundClosed`) there are two pots with 1
    and 2 levels, the hop erases them (so `gRiver.hop ≠ gRiver`), `next` is accepted by both
    games, both settle, with the same result, which is not the empty one. -/
example : gRiver.event = .roundClosed ∧ gRiver.pots.map (·.levels.length) = [1, 2] ∧
    gRiver.hop.pots.map (·.levels.length) = [0, 0] ∧ gRiver.hop.pots ≠ gRiver.pots ∧
    (gRiver.hop.step .next).2 = none ∧ (gRiver.step .next).2 = none ∧
    (gRiver.hop.step .next).1.event = .gameClosed ∧
    (gRiver.hop.step .next).1.result = (gRiver.step .next).1.result ∧
    (gRiver.hop.step .next).1.pots = (gRiver.step .next).1.pots ∧
    ((gRiver.step .next).1.result.map fun r => r.players.map (·.changed)) = some [-100, 290, -190] := by
  decide +kernel

/-- Why it is true, and that it is not true for free: the settlement function itself DOES read the
    levels — applied to the rebuilt game without `updatePots` first it yields another result
    (nobody is paid).  The engine never does that: `gameCompleted` runs `updatePots` first. -/
example : gRiver.hop.calculateGameResults.result ≠ gRiver.calculateGameResults.result ∧
    (gRiver.hop.calculateGameResults.result.map fun r => r.players.map (·.changed)) = some [0, 0, 0] := by
  decide +kernel

/-- `resume_equiv`'s hypothesis is satisfiable: `gRiver` is a reachable state. -/
example : Reachable gRiver :=
  ⟨cfg, ops.take 27, ⟨⟨by decide, by decide, by decide, by decide⟩⟩, by decide +kernel, rfl⟩

/-- `hop_run` on the whole hand with a hop before every third operation: same answers (two
    refusals included), the hand is closed with the same result and the same pots. -/
example : errsHops Game.json g0 (flags.zip ops) = answers ∧ (runHops Game.json g0 (flags.zip ops)).event = .gameClosed ∧
    (runHops Game.json g0 (flags.zip ops)).json.result = (g0.run ops).json.result ∧
    (runHops Game.json g0 (flags.zip ops)).json.pots = (g0.run ops).json.pots ∧
    errsHops Game.hop g0 (flags.zip ops) = answers ∧
    (runHops Game.hop g0 (flags.zip ops)).result = (g0.run ops).result := by decide +kernel

/-- `backend_run`: the first 25 operations all succeed through the stateless backend (a state comes
    back); with the 26th the driver gets the error of the refused `pass`. -/
example : (memRun g0 (ops.take 25)).toBool = true ∧ (backendRun g0.json (ops.take 25)).toBool = true ∧
    (match backendRun g0.json (ops.take 26) with
      | .error e => decide (e = Err.invalidAction) | .ok _ => false) = true ∧
    (match memRun g0 (ops.take 26) with
      | .error e => decide (e = Err.invalidAction) | .ok _ => false) = true := by
  decide +kernel

/-- `hop_public`/`hop_idempotent`: the hop is not the identity (see above) but is a projection. -/
example : gRiver.hop.hop.pots = gRiver.hop.pots ∧ gRiver.hop.pots.map potPublic = gRiver.pots.map potPublic := by
  decide +kernel

/-- `json_step` is about something more than `hop_step`: after the settlement the result has
    internals (levels with rank groups) which the JSON drops, so `.json ≠ .hop` there; the closed
    game, rebuilt from its JSON, refuses a further `next` exactly like the original. -/
example : (g0.run (ops.take 28)).event = .gameClosed ∧
    (g0.run (ops.take 28)).json.result ≠ (g0.run (ops.take 28)).hop.result ∧
    ((g0.run (ops.take 28)).json.step .next).2 = some .notClosedRound ∧
    ((g0.run (ops.take 28)).step .next).2 = some .notClosedRound := by
  decide +kernel

end Examples

end Pokerface.C07
