import Pokerface.Proofs.TableDriver7
import Pokerface.Properties.C01
import Pokerface.Properties.C08Table
/-
  C06 / C04 at the level of the table's DRIVER of a hand (`table/game.go`, model `Model/TableDriver.lean`).

  C06: "a hand always tells its driver what comes next and always finishes";
  C04: "only the player to act can act".

  The engine theorems (C01 … C14) are about `Reachable` engine states: runs of engine operations from
  `start c`.  The table does not run the engine directly: `table.game` holds the last state the stateless
  backend returned, reacts to it in `handleState` (automatic `Next`, ready groups with "ready"/"pay" marks
  written into `AllowedActions`), and offers wrappers `Ready, Pay, Pass, Fold, …(playerIdx, …)` that check
  `HasAction(playerIdx, name)` and then call the backend operation, which acts for the engine's current
  player.  The theorems here say that every history of wrapper calls — any player index, any action, any
  amount, in any order — is an engine history (`driver_refines_engine`), so that the engine theorems hold
  of every state a table-driven hand can hold, and that the driver's own calls are always accepted.
-/
namespace Pokerface.C06D
open Pokerface Game Drv

/-! ## Specification-level notions -/

/-- the states of `table.game` for engine-accepted configurations: `Start()` and then ANY sequence of wrapper calls -/
def DReach (d : D) : Prop :=
  ∃ (c : Config) (cs : List Call), WFConfig c ∧ (start c).2 = none ∧ d = runD (startD (start c).1) cs

/-- every operation of the history was accepted by the engine -/
def AllAccepted (g0 : Game) (ops : List Op) : Prop := ∀ x ∈ C07.errs g0 ops, x = none

/-- How the driver `d` relates to the engine state `e` behind the state it holds:
    the engine is not at `RoundClosed` (the driver has already called `Next`); the driver is closed exactly at
    `GameClosed`; at the three request events (`arm e.hop = some …`, i.e. not `AnteRequested` with `ante = 0`)
    the held state is the serialised engine state with the marks `handleState` wrote, the "ready" marks are
    what `handleState` wrote, and a started, NOT completed ready group exists with the callback and exactly
    the participants `handleState` gave it; at every other event the held state is the serialised engine state
    itself and nobody is marked "ready" (a stale, completed or not, group may still be there: no wrapper
    reaches it, see `wrapper_acts_for_caller`). -/
def Held (d : D) (e : Game) : Prop :=
  e.event ≠ .roundClosed ∧ (d.closed = true ↔ e.event = .gameClosed) ∧
  match arm e.hop with
  | some (g', marks, grp) => d.gs = g' ∧ d.readyMarks = marks ∧
      ∃ G, d.group = some G ∧ G.fire = grp.fire ∧ G.completed = false ∧ G.parts.map (·.1) = grp.parts.map (·.1)
  | none => d.gs = e.hop ∧ d.readyMarks = []

/-- the invariant of the driver: behind the held state there is an engine history of accepted operations -/
def DInv (g0 : Game) (d : D) : Prop :=
  ∃ ops : List Op, AllAccepted g0 ops ∧ Held d (g0.run ops)

/-! ## 1. the backend -/

/-- `table.NativeBackend` as modelled in `Model/TableDriver.lean` (`Drv.backend`, the JSON round trip rendered by
    `Game.hop`) is `C07.backendCall` (rendered by the coarser `Game.json`) up to that coarser serialisation: same
    error, and the JSON of the same state.  (`Game.hop` keeps the internals of the settlement result, which the
    real JSON drops and nothing reads; `C07.json_of_hop`.) -/
theorem backend_is_backendCall (s : Game) (op : Op) :
    (backend s op).map Game.json = C07.backendCall s op := by
  obtain ⟨h1, h2⟩ := C07.hop_step s op
  obtain ⟨j1, j2⟩ := C07.json_step s op
  unfold backend C07.backendCall
  revert h1 h2 j1 j2
  generalize s.hop.step op = x
  generalize s.json.step op = z
  generalize s.step op = y
  obtain ⟨x1, x2⟩ := x; obtain ⟨y1, y2⟩ := y; obtain ⟨z1, z2⟩ := z
  intro h1 h2 j1 j2
  simp only at h1 h2 j1 j2
  subst h2; subst j2
  cases z2 with
  | some e => rfl
  | none =>
    show Except.ok x1.hop.json = Except.ok z1.json
    have := congrArg Game.json h1
    rw [C07.json_of_hop, C07.json_of_hop] at this
    rw [C07.json_of_hop, this, j1]

/-- … and one backend call on the serialised state of an in-memory game answers as that game does
    (`C07.backend_call` for the `hop` rendering). -/
theorem backend_is_memCall (g : Game) (op : Op) :
    backend g.hop op = (C07.memCall g op).map Game.hop := by
  rw [backend_hop]
  unfold C07.memCall
  generalize g.step op = y
  obtain ⟨y1, y2⟩ := y
  cases y2 <;> rfl

/-! ## 2. the invariant -/

/-- C06 "a hand always tells its driver what comes next", driver side: the invariant `DInv` holds after
    `game.Start()` and after every sequence of wrapper calls (`Ready, Pay, Pass, Fold, Check, Call, Allin, Bet,
    Raise` with any player index and any amount), for every configuration the engine accepts. -/
theorem dinv (c : Config) (wf : WFConfig c) (hs : (start c).2 = none) (cs : List Call) :
    DInv (start c).1 (runD (startD (start c).1) cs) := by
  obtain ⟨ops, e, hh, hp⟩ := runD_ok ⟨c, wf, hs, rfl⟩ cs
  refine ⟨ops, hh.errs_none, ?_⟩
  rw [← hh.run_eq]
  exact hp

/-! ## 3. refinement -/

/-- REFINEMENT: every table-level history is an engine history.  For every accepted configuration and every
    sequence `cs` of wrapper calls there is a list `ops` of engine operations, ALL accepted, such that the state
    the driver holds is — up to the "pay" marks in `AllowedActions` (`clr` empties `AllowedActions` on both sides) —
    the serialisation of `Game.run g0 ops`; outside `AnteRequested`/`BlindsRequested` it is exactly that
    serialisation.  Hence `e` below is `Reachable`, and every engine theorem applies to what the table holds.
    The number of engine operations is within C06's bound. -/
theorem driver_refines_engine (c : Config) (wf : WFConfig c) (hs : (start c).2 = none) (cs : List Call) :
    ∃ ops : List Op, AllAccepted (start c).1 ops ∧ Reachable ((start c).1.run ops) ∧
      clr (runD (startD (start c).1) cs).gs = clr ((start c).1.run ops).hop ∧
      (((start c).1.run ops).event ≠ .anteRequested → ((start c).1.run ops).event ≠ .blindsRequested →
        (runD (startD (start c).1) cs).gs = ((start c).1.run ops).hop) ∧
      ops.length ≤ C06.bound c := by
  obtain ⟨ops, e, hh, hp⟩ := runD_ok ⟨c, wf, hs, rfl⟩ cs
  have he := hh.run_eq
  subst he
  refine ⟨ops, hh.errs_none, ⟨c, ops, wf, hs, rfl⟩, Post_clr hp, Post_exact hp, ?_⟩
  have := C06.terminates c wf hs ops
  unfold C06.acceptedCount at this
  rw [hh.accepted_eq] at this
  exact this

/-- corollary (C01 through the table): in every state held by the driver, every player's chips are conserved —
    `C01.chip_inv` transferred through the refinement (the marks do not touch chips). -/
theorem held_chips_conserved {d : D} (h : DReach d) (p : Player) (hp : p ∈ d.gs.players) :
    p.bankroll = p.stack + p.wager + p.pot ∧ 0 ≤ p.stack ∧ 0 ≤ p.wager ∧ 0 ≤ p.pot ∧ p.stack = p.initial - p.wager := by
  obtain ⟨c, cs, wf, hs, rfl⟩ := h
  obtain ⟨ops, _, hR, hc, _, _⟩ := driver_refines_engine c wf hs cs
  have h1 : clearAllowed p ∈ (clr (runD (startD (start c).1) cs).gs).players := by
    simp only [clr, Game.mapP]; exact List.mem_map_of_mem hp
  rw [hc] at h1
  simp only [clr, Game.mapP, List.mem_map] at h1
  obtain ⟨q, hq, hqp⟩ := h1
  have := C01.chip_inv hR q hq
  have e1 : q.bankroll = p.bankroll := (congrArg Player.bankroll hqp :)
  have e2 : q.stack = p.stack := (congrArg Player.stack hqp :)
  have e3 : q.wager = p.wager := (congrArg Player.wager hqp :)
  have e4 : q.pot = p.pot := (congrArg Player.pot hqp :)
  have e5 : q.initial = p.initial := (congrArg Player.initial hqp :)
  rw [e1, e2, e3, e4, e5] at this
  exact this

/-- corollary (C06 through the table): the driver is closed exactly when the held state is `GameClosed`; then the
    held state carries the settlement result and the backend refuses every further operation (`C06.closed_final`). -/
theorem held_closed_final {d : D} (h : DReach d) :
    (d.closed = true ↔ d.gs.event = .gameClosed) ∧
    (d.closed = true → d.gs.result ≠ none ∧ ∀ op, ∃ err, backend d.gs op = .error err) := by
  obtain ⟨c, cs, wf, hs, rfl⟩ := h
  obtain ⟨ops, e, hh, hp⟩ := runD_ok ⟨c, wf, hs, rfl⟩ cs
  have hR := hh.reach ⟨c, wf, hs, rfl⟩
  have hev0 := congrArg Game.event (Post_clr hp)
  have hev : (runD (startD (start c).1) cs).gs.event = e.event := hev0
  refine ⟨by rw [hev]; exact hp.2.1, fun hc => ?_⟩
  have hg := hp.2.1.mp hc
  have hgs := Post_exact hp (by rw [hg]; simp) (by rw [hg]; simp)
  obtain ⟨r1, r2⟩ := C06.closed_final hR hg
  rw [hgs]
  refine ⟨r1, fun op => ?_⟩
  rw [backend_hop]
  have := (r2 op).1
  revert this
  generalize e.step op = y
  obtain ⟨y1, y2⟩ := y
  cases y2 with
  | none => intro h; exact absurd rfl h
  | some err => intro _; exact ⟨err, rfl⟩

/-! ## 8. termination at table level -/

/-- C06 "… and always finishes", at table level: whatever the players call, the backend accepts at most
    `C06.bound c` operations during the hand (those of the wrappers and the driver's own together): the engine
    history behind any driver state has at most that many operations, all accepted (transfer of `C06.terminates`). -/
theorem driver_terminates (c : Config) (wf : WFConfig c) (hs : (start c).2 = none) (cs : List Call) :
    ∃ ops : List Op, AllAccepted (start c).1 ops ∧ Held (runD (startD (start c).1) cs) ((start c).1.run ops) ∧
      ops.length ≤ C06.bound c := by
  obtain ⟨ops, e, hh, hp⟩ := runD_ok ⟨c, wf, hs, rfl⟩ cs
  have he := hh.run_eq
  subst he
  refine ⟨ops, hh.errs_none, hp, ?_⟩
  have := C06.terminates c wf hs ops
  unfold C06.acceptedCount at this
  rw [hh.accepted_eq] at this
  exact this

/-! ## 4. the driver's own calls; 5. fuel -/

/-- C06 "a hand always tells its driver what comes next": the backend calls `table.game` makes on its own
    initiative are always accepted.  In every state of the driver: (a) if a started, not yet completed ready group
    exists at a request event, its callback (`ReadyForAll` / `PayAnte` / `PayBlinds`, `Drv.fireOp`) is accepted by
    the backend; (b) for every state `s` the backend returns to the driver (`Drv.Performs`: for the callback of the
    pending group, or for a player action at `RoundStarted` — by `wrapper_acts_for_caller` and `Held` nothing else
    reaches the backend), the chain `handleState(RoundClosed) → backend.Next → …` never takes the error branch
    (`fmt.Println(err); return`, which would leave the table waiting forever) and never runs out of the model's fuel
    (`Drv.updateBad … = false`). -/
theorem driver_calls_accepted {d : D} (h : DReach d) :
    (∀ G, d.group = some G → G.completed = false →
      (d.gs.event = .readyRequested ∨ d.gs.event = .anteRequested ∨ d.gs.event = .blindsRequested) →
      ∃ s, backend d.gs (fireOp G.fire) = .ok s) ∧
    (∀ op s, Performs d op → backend d.gs op = .ok s → ∀ d', updateBad fuel d' s = false) := by
  obtain ⟨c, cs, wf, hs, rfl⟩ := h
  have h0 : Start0 (start c).1 := ⟨c, wf, hs, rfl⟩
  obtain ⟨ops, e, hh, hp⟩ := runD_ok h0 cs
  constructor
  · intro G hG hc hev
    refine (backend_answer h0 hh hp _ (Or.inl ⟨G, hG, hc, rfl, hev⟩)).2.2 ?_
    intro a x
    cases G.fire <;> simp [fireOp]
  · intro op s hperf hb d'
    obtain ⟨e1, hh1, rfl⟩ := (backend_answer h0 hh hp op hperf).1 s hb
    exact (update_any_fuel h0 hh1 d' fuel (by decide)).2.1

/-- … and at `game.Start()`: the state `CreateGame` returns is handled without error. -/
theorem start_accepted (c : Config) (wf : WFConfig c) (hs : (start c).2 = none) (d' : D) :
    updateBad fuel d' (start c).1 = false := by
  have h0 : Start0 (start c).1 := ⟨c, wf, hs, rfl⟩
  have h1 : (start c).1.hop = (start c).1 := by rw [(start_ok c hs).2.2]; rfl
  have := (update_any_fuel h0 Hist.nil d' fuel (by decide)).2.1
  rw [h1] at this
  exact this

/-- The marks are invisible to the engine: the "pay" marks `handleState` writes into `AllowedActions` of the held
    state do not change what the backend answers to any operation the driver performs — the answer is the one the
    unmarked serialised engine state `e.hop` gets (`PayAnte` / `PayBlinds` / `ReadyForAll` never read
    `AllowedActions` before resetting them). -/
theorem marks_invisible (c : Config) (wf : WFConfig c) (hs : (start c).2 = none) (cs : List Call) :
    ∃ ops : List Op, AllAccepted (start c).1 ops ∧ Held (runD (startD (start c).1) cs) ((start c).1.run ops) ∧
      ∀ op, Performs (runD (startD (start c).1) cs) op →
        backend (runD (startD (start c).1) cs).gs op = backend ((start c).1.run ops).hop op := by
  have h0 : Start0 (start c).1 := ⟨c, wf, hs, rfl⟩
  obtain ⟨ops, e, hh, hp⟩ := runD_ok h0 cs
  have he := hh.run_eq
  subst he
  exact ⟨ops, hh.errs_none, hp, fun op hperf => (backend_answer h0 hh hp op hperf).2.1⟩

/-- `update`'s fuel is sufficient: for every state `s` the backend returns to the driver (and for the state
    `CreateGame` returns), `update` gives the same result for every fuel `k ≥ 5` — in particular for `Drv.fuel = 8` —
    for whatever driver record `d'` it is applied to: the chain `RoundClosed → Next → RoundClosed → …` is at most four
    links long (one per street) and the `0` case of `update` is never reached (`driver_calls_accepted`). -/
theorem fuel_sufficient {d : D} (h : DReach d) (op : Op) (s : Game) (hperf : Performs d op)
    (hb : backend d.gs op = .ok s) (d' : D) (k : Nat) (hk : 5 ≤ k) :
    update k d' s = update fuel d' s ∧ updateBad k d' s = false := by
  obtain ⟨c, cs, wf, hs, rfl⟩ := h
  have h0 : Start0 (start c).1 := ⟨c, wf, hs, rfl⟩
  obtain ⟨ops, e, hh, hp⟩ := runD_ok h0 cs
  obtain ⟨e1, hh1, rfl⟩ := (backend_answer h0 hh hp op hperf).1 s hb
  have := update_any_fuel h0 hh1 d' k hk
  exact ⟨this.1, this.2.1⟩

theorem fuel_sufficient_start (c : Config) (wf : WFConfig c) (hs : (start c).2 = none) (k : Nat) (hk : 5 ≤ k) :
    update k { gs := (start c).1 } (start c).1 = startD (start c).1 := by
  have h0 : Start0 (start c).1 := ⟨c, wf, hs, rfl⟩
  have h1 : (start c).1.hop = (start c).1 := by rw [(start_ok c hs).2.2]; rfl
  have := (update_any_fuel h0 Hist.nil { gs := (start c).1 } k hk).1
  rw [h1] at this
  exact this

/-! ## 6. the wrapper acts for its caller -/

/-- C04 "only the player to act can act", at table level.  The wrappers `Pass, Fold, Check, Call, Allin, Bet, Raise,
    Pay(playerIdx, …)` check `HasAction(playerIdx, name)` on the held state and then call a backend operation that
    acts for the engine's CURRENT player.  Whenever such a call reaches the backend (`playerIdx` is a seat, it has the
    action, and it is not the ready-group branch of `Pay`), the caller IS the current player and the hand is in an open
    betting round: the operation performed "for the current player" is performed for the caller. -/
theorem wrapper_acts_for_caller {d : D} (h : DReach d) (i : Nat) (a : Act) (x : Int)
    (h1 : ¬ d.gs.players.length ≤ i) (h2 : hasAction d i a = true)
    (h3 : ¬(a = .pay ∧ (d.gs.event = .anteRequested ∨ d.gs.event = .blindsRequested))) :
    call d (.act i a x) = callBackend d (.act none a x) ∧ i = d.gs.cur ∧ d.gs.event = .roundStarted := by
  obtain ⟨c, cs, wf, hs, rfl⟩ := h
  have h0 : Start0 (start c).1 := ⟨c, wf, hs, rfl⟩
  obtain ⟨ops, e, hh, hp⟩ := runD_ok h0 cs
  refine ⟨?_, act_for_caller h0 hh hp i a h2 h3⟩
  simp only [call, h1, h2, h3, if_false, Bool.not_true, Bool.false_eq_true]

/-! ## 7. progress -/

/-- C06 "a hand always tells its driver what comes next", for the PLAYERS at the table: in every state of the driver
    that is not closed, someone can make a wrapper call that is accepted and makes progress — either the held state
    changes (`updates`, the number of `onStateUpdated` callbacks, grows: a backend operation was accepted), or the
    number of participants the pending ready group still waits for (`Drv.pending`) decreases.
    Hypothesis `hB`: when blinds are requested, some player holds a position that owes one (see
    `blinds_group_empty_stalls` for what happens otherwise).  The witness call is: at `RoundStarted`, an allowed action
    of the current player (any of `p.allowed`, amount `cw + 1`); at a request event, the readying call
    (`Drv.readyCall`: `Ready(i)` resp. `Pay(i, x)`) of a participant that is not ready yet. -/
theorem no_stall {d : D} (h : DReach d) (hnc : d.closed = false)
    (hB : d.gs.event = .blindsRequested → ∃ p ∈ d.gs.players, owesBlind d.gs.opts p = true) :
    ∃ c, (call d c).2 = none ∧ (d.updates < (call d c).1.updates ∨ pending (call d c).1 < pending d) := by
  obtain ⟨c, cs, wf, hs, rfl⟩ := h
  have h0 : Start0 (start c).1 := ⟨c, wf, hs, rfl⟩
  obtain ⟨ops, e, hh, hp⟩ := runD_ok h0 cs
  have hg := runD_gok _ cs (startD_gok (start c).1)
  have hR := hh.reach h0
  have hev := Post_event hp
  rcases C06.wait_points hR with he | he | he | he | he | he
  case' inr.inr.inr.inl =>
    obtain ⟨a, x, _, h1, h2⟩ := act_progress h0 hh hp he
    exact ⟨_, h1, Or.inl h2⟩
  case' inr.inr.inr.inr.inl => exact absurd he hp.1
  case' inr.inr.inr.inr.inr =>
    have := hp.2.1.mpr he
    rw [hnc] at this; cases this
  all_goals
    cases ha : arm e.hop with
    | none => exact absurd ha (arm_isSome (flow_reachable hR) (by simp [he]))
    | some t =>
      obtain ⟨g', m, grp⟩ := t
      have hne := arm_parts_ne (inv_reachable hR).struct ha (fun hb => owes_transfer (b := e.hop) (Post_clr hp) (hB (hev.trans hb)))
      obtain ⟨i, hi, hprog⟩ := group_progress h0 hh hp hg ha hne
      have hc := readyCall_eq h0 hh hp ha i hi 0
      refine ⟨readyCall e.event i 0, by rw [hc], by rw [hc]; exact hprog⟩

/-- … and EVERY participant of the pending group passes the wrapper's checks: at a request event a started, not
    completed group `G` exists, and for each of its participants `i` the readying call (`Ready(i)` at `ReadyRequested`,
    `Pay(i, x)` with any `x` at `AnteRequested` / `BlindsRequested`) returns no error and reaches `rg.Ready(i)`. -/
theorem participants_accepted {d : D} (h : DReach d)
    (hev : d.gs.event = .readyRequested ∨ d.gs.event = .anteRequested ∨ d.gs.event = .blindsRequested) :
    ∃ G, d.group = some G ∧ G.completed = false ∧
      ∀ i ∈ G.parts.map (·.1), ∀ x, call d (readyCall d.gs.event i x) = (groupReady d i, none) := by
  obtain ⟨c, cs, wf, hs, rfl⟩ := h
  have h0 : Start0 (start c).1 := ⟨c, wf, hs, rfl⟩
  obtain ⟨ops, e, hh, hp⟩ := runD_ok h0 cs
  have hR := hh.reach h0
  have hev' := Post_event hp
  rw [hev'] at hev ⊢
  cases ha : arm e.hop with
  | none => exact absurd ha (arm_isSome (flow_reachable hR) hev)
  | some t =>
    obtain ⟨g', m, grp⟩ := t
    have p3 := hp.2.2
    simp only [ha] at p3
    obtain ⟨_, _, G, q3, _, q5, q6⟩ := p3
    refine ⟨G, q3, q5, fun i hi x => ?_⟩
    rw [q6] at hi
    exact readyCall_eq h0 hh hp ha i hi x

/-- `AnteRequested` with `ante = 0` (the `break` in `handleState`, after which nothing is armed and the table would
    wait forever) is never held by the driver: the engine requests antes only when `ante > 0`. -/
theorem ante_zero_unreachable {d : D} (h : DReach d) (he : d.gs.event = .anteRequested) : 0 < d.gs.opts.ante := by
  obtain ⟨c, cs, wf, hs, rfl⟩ := h
  have h0 : Start0 (start c).1 := ⟨c, wf, hs, rfl⟩
  obtain ⟨ops, e, hh, hp⟩ := runD_ok h0 cs
  have hR := hh.reach h0
  have hc := Post_clr hp
  have ho : (clr (runD (startD (start c).1) cs).gs).opts = (clr e.hop).opts := by rw [hc]
  have ho' : (runD (startD (start c).1) cs).gs.opts = e.opts := ho
  rw [ho']
  rw [Post_event hp] at he
  exact ((flow_reachable hR).ante he).1

/-- some configured seat owes a blind: it holds a position (bb, sb or dealer) whose blind is positive -/
def OwesCfg (c : Config) : Prop := ∃ s ∈ c.seats, seatOwes c.opts s = true

/-- The hypothesis `hB` of `no_stall` holds in EVERY state of the driver (not only when blinds are requested) for a
    configuration in which some seat owes a blind: positions and options never change during a hand
    (`static_of_config`), and the marks do not touch them. -/
theorem blind_owed_of_config (c : Config) (wf : WFConfig c) (hs : (start c).2 = none) (ho : OwesCfg c) (cs : List Call) :
    ∃ p ∈ (runD (startD (start c).1) cs).gs.players, owesBlind (runD (startD (start c).1) cs).gs.opts p = true := by
  obtain ⟨ops, e, hh, hp⟩ := runD_ok ⟨c, wf, hs, rfl⟩ cs
  have he := hh.run_eq
  subst he
  exact owes_transfer (a := ((start c).1.run ops).hop) (Post_clr hp).symm (owes_of_seat c wf hs ops ho)

/-- the configuration is fit for the driver's blinds group: either no blind is requested at all (all three are zero)
    or some seat owes one -/
def BlindsOK (c : Config) : Prop :=
  (c.opts.blindDealer = 0 ∧ c.opts.blindSB = 0 ∧ c.opts.blindBB = 0) ∨ OwesCfg c

/-- The hypothesis `hB` of `no_stall` holds in every state of the driver for a `BlindsOK` configuration: the engine
    requests blinds only when one of them is not zero (`Drv.nz_reachable`), and then some seat owes one. -/
theorem blind_owed_when_requested (c : Config) (wf : WFConfig c) (hs : (start c).2 = none) (hok : BlindsOK c)
    (cs : List Call) (he : (runD (startD (start c).1) cs).gs.event = .blindsRequested) :
    ∃ p ∈ (runD (startD (start c).1) cs).gs.players, owesBlind (runD (startD (start c).1) cs).gs.opts p = true := by
  rcases hok with hz | ho
  · exfalso
    obtain ⟨ops, e, hh, hp⟩ := runD_ok ⟨c, wf, hs, rfl⟩ cs
    have hrun := hh.run_eq
    subst hrun
    rw [Post_event hp] at he
    have := nz_reachable ⟨c, ops, wf, hs, rfl⟩ he
    rw [run_opts c wf hs ops] at this
    exact this hz
  · exact blind_owed_of_config c wf hs ho cs

/-- `no_stall` without a hypothesis on the state: for a `BlindsOK` configuration, in every state of the driver that is
    not closed somebody can make an accepted call that makes progress. -/
theorem no_stall_of_config (c : Config) (wf : WFConfig c) (hs : (start c).2 = none) (ho : BlindsOK c) (cs : List Call)
    (hnc : (runD (startD (start c).1) cs).closed = false) :
    ∃ k, (call (runD (startD (start c).1) cs) k).2 = none ∧
      ((runD (startD (start c).1) cs).updates < (call (runD (startD (start c).1) cs) k).1.updates ∨
       pending (call (runD (startD (start c).1) cs) k).1 < pending (runD (startD (start c).1) cs)) :=
  no_stall ⟨c, cs, wf, hs, rfl⟩ hnc (blind_owed_when_requested c wf hs ho cs)

/-- C06 "… and always finishes", at table level, for the players: for a `BlindsOK` configuration (no blinds, or some seat owes one),
    from EVERY state of the driver (after any calls `cs`, refused or accepted, by anybody) the players can finish the
    hand: there is a continuation `cs'` of wrapper calls after which the driver is closed (`g.isClosed`, the held state
    is `GameClosed` with the result, `held_closed_final`).  (Measure: the callbacks still possible within `C06.bound`,
    then the participants the pending group waits for; `no_stall_of_config` decreases it.) -/
theorem driver_can_finish (c : Config) (wf : WFConfig c) (hs : (start c).2 = none) (ho : BlindsOK c) (cs : List Call) :
    ∃ cs', (runD (startD (start c).1) (cs ++ cs')).closed = true := by
  have aux : ∀ A P : Nat, ∀ cs : List Call, A = C06.bound c + 1 - (runD (startD (start c).1) cs).updates →
      P = pending (runD (startD (start c).1) cs) → ∃ cs', (runD (startD (start c).1) (cs ++ cs')).closed = true := by
    intro A
    induction A using Nat.strongRecOn with
    | ind A ihA =>
      intro P
      induction P using Nat.strongRecOn with
      | ind P ihP =>
        intro cs hA hP
        cases hcl : (runD (startD (start c).1) cs).closed with
        | true => exact ⟨[], by simpa using hcl⟩
        | false =>
          obtain ⟨k, _, hprog⟩ := no_stall_of_config c wf hs ho cs hcl
          have happ : runD (startD (start c).1) (cs ++ [k]) = (call (runD (startD (start c).1) cs) k).1 := by
            rw [runD_append]; rfl
          have hle := updates_le c wf hs (cs ++ [k])
          have hmono := call_updates_mono (runD (startD (start c).1) cs) k
          rw [← happ] at hprog hmono
          have fin : (∃ cs', (runD (startD (start c).1) ((cs ++ [k]) ++ cs')).closed = true) →
              ∃ cs', (runD (startD (start c).1) (cs ++ cs')).closed = true := by
            intro ⟨cs', h'⟩
            exact ⟨k :: cs', by simpa [List.append_assoc] using h'⟩
          apply fin
          by_cases hup : (runD (startD (start c).1) cs).updates < (runD (startD (start c).1) (cs ++ [k])).updates
          · exact ihA _ (by omega) _ (cs ++ [k]) rfl rfl
          · have hpd : pending (runD (startD (start c).1) (cs ++ [k])) < pending (runD (startD (start c).1) cs) := by
              rcases hprog with h | h
              · exact absurd h hup
              · exact h
            exact ihP _ (by omega) (cs ++ [k]) (by omega) rfl
  exact aux _ _ cs rfl rfl

/-- Configurations coming from the table's hand-off satisfy `OwesCfg` whenever the engine requests blinds at all (not
    all three blinds are zero): by `C08T.hand_off_heads_up` / `C08T.hand_off_ring` the seat list handed to the engine
    is `[⟨_, dealer+sb⟩, ⟨_, bb⟩]` heads-up and `⟨_, dealer⟩ :: ⟨_, sb⟩ :: ⟨_, bb⟩ :: rest` otherwise, so a dealer, a
    small-blind and a big-blind seat exist — which is all that is needed. -/
theorem owesCfg_of_positions (c : Config) (wf : WFConfig c)
    (hnb : ¬(c.opts.blindDealer = 0 ∧ c.opts.blindSB = 0 ∧ c.opts.blindBB = 0))
    (hd : ∃ s ∈ c.seats, s.dealer = true) (hsb : ∃ s ∈ c.seats, s.sb = true) (hbb : ∃ s ∈ c.seats, s.bb = true) :
    OwesCfg c := seatOwes_of_positions c wf hnb hd hsb hbb

/-- … so: every accepted configuration that has a small-blind seat and a big-blind seat (a dealer seat it has anyway,
    `C06.start_iff`) — in particular every configuration of an UNDISTURBED hand-off of the table — is `BlindsOK`, whatever
    the blinds: `no_stall_of_config` and `driver_can_finish` apply to it. -/
theorem blindsOK_of_positions (c : Config) (wf : WFConfig c) (hs : (start c).2 = none)
    (hsb : ∃ s ∈ c.seats, s.sb = true) (hbb : ∃ s ∈ c.seats, s.bb = true) : BlindsOK c := by
  by_cases hz : c.opts.blindDealer = 0 ∧ c.opts.blindSB = 0 ∧ c.opts.blindBB = 0
  · exact Or.inl hz
  · exact Or.inr (owesCfg_of_positions c wf hz ((C06.start_iff c).mp hs).2.1 hsb hbb)

/-- the two shapes of `C08T.hand_off_heads_up` and `C08T.hand_off_ring` -/
theorem owesCfg_heads_up (m : Meta) (wf : OptsOK m) (hnb : ¬(m.blindDealer = 0 ∧ m.blindSB = 0 ∧ m.blindBB = 0)) (x y : Int) :
    OwesCfg ⟨m, [⟨x, true, true, false⟩, ⟨y, false, false, true⟩]⟩ :=
  owesCfg_of_positions _ ⟨wf⟩ hnb ⟨⟨x, true, true, false⟩, by simp, rfl⟩ ⟨⟨x, true, true, false⟩, by simp, rfl⟩
    ⟨⟨y, false, false, true⟩, by simp, rfl⟩

theorem owesCfg_ring (m : Meta) (wf : OptsOK m) (hnb : ¬(m.blindDealer = 0 ∧ m.blindSB = 0 ∧ m.blindBB = 0)) (x y z : Int)
    (rest : List SeatCfg) :
    OwesCfg ⟨m, ⟨x, true, false, false⟩ :: ⟨y, false, true, false⟩ :: ⟨z, false, false, true⟩ :: rest⟩ :=
  owesCfg_of_positions _ ⟨wf⟩ hnb ⟨⟨x, true, false, false⟩, by simp, rfl⟩ ⟨⟨y, false, true, false⟩, by simp, rfl⟩
    ⟨⟨z, false, false, true⟩, by simp, rfl⟩

/-! ## a stall: blinds requested, nobody holds a position that owes one -/

/-- two players, the first is the dealer, NOBODY is small or big blind; blinds 5/10, no dealer blind, no ante.
    The engine accepts this configuration (`start` checks seats, dealer, bankrolls, deck only). -/
def stallCfg : Config :=
  { opts := { ante := 0, blindDealer := 0, blindSB := 5, blindBB := 10, potLimit := false, holeCount := 2, required := 0,
              lvl := fun _ => 1, table := [], deck := (List.range 20).map fun k => { suit := 83, rank := k + 2 } },
    seats := [{ bankroll := 100, dealer := true, sb := false, bb := false },
              { bankroll := 100, dealer := false, sb := false, bb := false }] }

/-- `Start()`, then both players call `Ready` -/
def stallD : D := runD (startD (start stallCfg).1) [.ready 0, .ready 1]

theorem stallD_reach : DReach stallD := ⟨stallCfg, _, ⟨⟨by decide, by decide, by decide, by decide⟩⟩, by decide, rfl⟩

example : OwesCfg C06.exCfg ∧ BlindsOK C06.exCfg ∧ ¬ OwesCfg stallCfg ∧ ¬ BlindsOK stallCfg := by
  have h1 : OwesCfg C06.exCfg := ⟨⟨100, false, false, true⟩, by decide, by decide⟩
  have h2 : ¬ OwesCfg stallCfg := by
    intro ⟨s, hs, h⟩
    simp only [stallCfg, List.mem_cons, List.not_mem_nil, or_false] at hs
    rcases hs with rfl | rfl <;> revert h <;> decide
  refine ⟨h1, Or.inr h1, h2, ?_⟩
  rintro (h | h)
  · exact absurd h.2.1 (by decide)
  · exact h2 h

/-- WITNESS (kernel-checked): `table.game` can wait forever.  For the engine-accepted configuration `stallCfg` the
    engine requests blinds (`blindsRequested`: SB and BB are not zero) but no player holds a position that owes one,
    so `handleState(BlindsRequested)` starts a ready group with NO participants and allows nobody "pay".  A
    `syncsaga.ReadyGroup` only completes inside `Ready(id)`; no wrapper call can reach it (`Pay` needs the "pay" mark,
    `Ready` the "ready" mark): every wrapper call with any player index, action and amount is refused and the driver
    does not change — the hand never finishes although the engine itself would accept `PayBlinds` at once
    (`C06.expected_step_succeeds`).  (The hypothesis `hB` of `no_stall` excludes exactly this.) -/
theorem blinds_group_empty_stalls :
    DReach stallD ∧ stallD.gs.event = .blindsRequested ∧ stallD.closed = false ∧
    (∃ G, stallD.group = some G ∧ G.parts = [] ∧ G.completed = false ∧ G.fire = .payBlinds) ∧
    (∀ c, (call stallD c).1 = stallD ∧ (call stallD c).2 ≠ none) ∧
    (∀ cs, runD stallD cs = stallD) ∧
    (∃ s, backend stallD.gs .payBlinds = .ok s) := by
  have h1 : stallD.readyMarks = [] := by decide +kernel
  have h2 : ∀ p ∈ stallD.gs.players, p.allowed = [] := by decide +kernel
  refine ⟨stallD_reach, by decide +kernel, by decide +kernel, ⟨_, rfl, by decide +kernel, by decide +kernel, by decide +kernel⟩,
    stuck_of_no_marks _ h1 h2, stuck_run _ h1 h2, ?_⟩
  exact (driver_calls_accepted stallD_reach).1 _ rfl (by decide +kernel) (Or.inr (Or.inr (by decide +kernel)))

/-- A table history that hands exactly `stallCfg`'s seats to the engine (a "disturbed hand-off" in the sense of
    `C08T.disturbed_layout`): 6 seats; players on 0, 2, 4 sit in, a fourth joins seat 3 without sitting in; one hand; its
    closing `Next()` sets up dealer 2, small blind 4, big blind 0 for the next hand (`inPosition = true`); then the two
    blinds leave (`Leave(4)`, `Leave(0)`) and the player on seat 3 sits in (`Activate(3)`). -/
def stallTable : Table :=
  (Table.new 6 {}).run [.join 0 10 100 none, .activate 0, .join 2 12 100 none, .activate 2, .join 4 14 100 none, .activate 4,
    .join 3 13 100 none, .hand [100, 100, 100], .leave 4, .leave 0, .activate 3]

/-- WITNESS (kernel-checked): the stall is reachable through `table.Table`.  `stallTable` is a reachable table; its next
    `startGame` builds the game from the two remaining players ⟨dealer⟩, ⟨no position⟩ — exactly `stallCfg.seats` — and
    `Start()` accepts it.  With blinds 5/10 (`stallCfg.opts`) `table.game` then waits at `BlindsRequested` for ever
    (`blinds_group_empty_stalls`; the ready group has no timeout: `timeoutInterval = 0`). -/
theorem stall_through_table :
    Table.TReachable stallTable ∧ stallTable.inPosition = true ∧
    (stallTable.step (.hand [100, 100])).2.cfg = some stallCfg.seats ∧
    (stallTable.step (.hand [100, 100])).2.err = none :=
  ⟨⟨6, {}, _, rfl⟩, by decide +kernel, by decide +kernel, by decide +kernel⟩

/-! ## Non-vacuity: a hand played through the wrappers -/

section Examples

/-- `C06.exCfg` (ante 2, blinds 5/10, three players with 100 on dealer / sb / bb) played through `table.game`:
    everybody `Ready`, everybody `Pay`s the ante, the two blinds `Pay`, everybody `Ready`; the dealer (first to act)
    raises to 30, seat 2 tries to fold out of turn (refused), seats 1 and 2 fold in turn: the driver calls `Next` itself
    and closes. -/
def exCalls : List Call :=
  [.ready 0, .ready 1, .ready 2, .act 0 .pay 0, .act 1 .pay 0, .act 2 .pay 7, .act 2 .pay 0, .act 1 .pay 0,
   .ready 2, .ready 0, .ready 1, .act 0 .raise 30, .act 2 .fold 0, .act 1 .fold 0, .act 2 .fold 0]

def exD (k : Nat) : D := runD (startD (start C06.exCfg).1) (exCalls.take k)

theorem exD_reach (k : Nat) : DReach (exD k) := ⟨C06.exCfg, _, C06.exWF, by decide, rfl⟩

/-- the events the driver holds along the hand, the callbacks delivered, and the end: closed, at `GameClosed` -/
example : ((List.range 16).map fun k => (exD k).gs.event) =
    [.readyRequested, .readyRequested, .readyRequested, .anteRequested, .anteRequested, .anteRequested,
     .blindsRequested, .blindsRequested, .readyRequested, .readyRequested, .readyRequested, .roundStarted,
     .roundStarted, .roundStarted, .roundStarted, .gameClosed] ∧
    (exD 15).closed = true ∧ (exD 15).updates = 9 ∧ (exD 15).gs.result.isSome = true := by decide +kernel

/-- the out-of-turn fold (call 12) is refused by the wrapper; the in-turn calls are not -/
example : (call (exD 12) (.act 2 .fold 0)).2 = some .invalidAction ∧ (call (exD 13) (.act 1 .fold 0)).2 = none ∧
    (exD 12).gs.cur = 1 ∧ (call (exD 3) (.act 5 .pay 0)).2 = some .playerNotInGame := by decide +kernel

/-- `no_stall` / `participants_accepted` are about something: at call 6 (blinds requested) the pending group waits for
    the small and the big blind, both marked "pay", the dealer is not -/
example : (exD 6).gs.event = .blindsRequested ∧ (exD 6).closed = false ∧
    (exD 6).group = some { parts := [(1, false), (2, false)], fire := .payBlinds } ∧ pending (exD 6) = 2 ∧
    pending (exD 7) = 1 ∧ hasAction (exD 6) 1 .pay = true ∧ hasAction (exD 6) 0 .pay = false ∧
    (∃ p ∈ (exD 6).gs.players, owesBlind (exD 6).gs.opts p = true) := by decide +kernel

/-- `wrapper_acts_for_caller`'s hypotheses hold at call 11 for the dealer's raise; `Performs` is inhabited -/
example : ¬ (exD 11).gs.players.length ≤ 0 ∧ hasAction (exD 11) 0 .raise = true ∧ (exD 11).gs.cur = 0 ∧
    (exD 11).gs.event = .roundStarted := by decide +kernel

example : Performs (exD 11) (.act none .raise 30) := Or.inr ⟨by decide +kernel, _, _, rfl⟩

/-- the marks are there (so `marks_invisible` says something): at `AnteRequested` the held state differs from the
    engine's state in `AllowedActions` -/
example : (exD 3).gs.players.map (·.allowed) = [[.pay], [.pay], [.pay]] ∧
    (((start C06.exCfg).1.run [.ready]).players.map (·.allowed)) = [[], [], []] := by decide +kernel

end Examples

end Pokerface.C06D

section Axioms
open Pokerface.C06D
#print axioms backend_is_backendCall
#print axioms backend_is_memCall
#print axioms dinv
#print axioms driver_refines_engine
#print axioms held_chips_conserved
#print axioms held_closed_final
#print axioms driver_terminates
#print axioms driver_calls_accepted
#print axioms start_accepted
#print axioms marks_invisible
#print axioms fuel_sufficient
#print axioms fuel_sufficient_start
#print axioms wrapper_acts_for_caller
#print axioms no_stall
#print axioms participants_accepted
#print axioms ante_zero_unreachable
#print axioms blind_owed_of_config
#print axioms blind_owed_when_requested
#print axioms no_stall_of_config
#print axioms driver_can_finish
#print axioms owesCfg_of_positions
#print axioms blindsOK_of_positions
#print axioms owesCfg_heads_up
#print axioms owesCfg_ring
#print axioms blinds_group_empty_stalls
#print axioms stall_through_table
end Axioms
