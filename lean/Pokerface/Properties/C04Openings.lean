import Pokerface.Properties.C04
import Pokerface.Properties.C05Opens
import Pokerface.Proofs.OpeningsFirst
/-
  C04Openings — "play starts left of the big blind before the flop (the dealer, who is the small blind, when heads-up)
  and left of the dealer on later streets" (C04, sentence 1): the clauses the audit found missing (items 5 and 7).

  * `heads_up_first_actor` (+ `heads_up_first_actor_config`): the parenthesis of the property, at ENGINE level — on a
    two-seat table whose non-dealer seat holds the big-blind position the first player asked before the flop is the dealer;
  * `openings_complete`: a betting round is opened ONLY by an accepted `ReadyForAll` in a state that waits for it on a dealt
    street — so `C04.first_preflop` (+ `first_preflop_no_bb`) and `C04.first_postflop` speak of EVERY opening;
    `first_actor_every_opening` puts the three together;
  * `first_preflop_no_bb` (+ `_config`): what the engine does when no seat holds the big-blind position (such
    configurations are accepted by `Start()`): `seekBB` walks once around the table and stops on the dealer, so the first
    seat asked is the one left of the DEALER, as on later streets.

  All statements are about the model `Game.step` for every reachable state.
-/
namespace Pokerface.C04O
open Pokerface Game

/-! ## Heads-up -/

/-- **Sentence 1, the parenthesis "(the dealer, who is the small blind, when heads-up)", engine level.**
    In every reachable state of a two-seat hand (`g.n = 2`) that waits for `ReadyForAll` in the preflop round, if the seat that
    is not the dealer's (`i ≠ g.dealerIdx`) holds the big-blind position and the `ReadyForAll` opens the betting round, the
    first player asked is the dealer.  Instance `j = 0` of `C04.first_preflop`. -/
theorem heads_up_first_actor {g : Game} (h : Reachable g) (he : g.event = .readyRequested) (hr : g.round = .preflop)
    (hn : g.n = 2) {i : Nat} {p : Player} (hp : g.players[i]? = some p) (hi : i ≠ g.dealerIdx) (hb : p.posBB = true)
    (hopen : (g.step .ready).1.event = .roundStarted) :
    (g.step .ready).1.cur = g.dealerIdx := by
  have hd := dealerIdx_lt (inv_reachable h).struct
  rw [hn] at hd
  have hil : i < 2 := by
    have := (List.getElem?_eq_some_iff.mp hp).1
    simp only [Game.n] at hn; omega
  have hnext : cwNext 2 g.dealerIdx = i := by unfold cwNext; split <;> omega
  have := C04.first_preflop h he hr 0 (by omega)
    (by rw [hn]; simp only [cwIter]; rw [hnext, hp, Option.map_some, hb])
    (fun j' hj' => by omega) hopen
  rw [this, hn]
  simp only [cwIter]
  exact cwNext_cwNext_two hd

/-- **The same on accepted configurations, without the hypothesis that the round opens** (instance of
    `C05.preflop_first_actor_unconditional`): for every configuration accepted by `Start()` with exactly two seats whose
    non-dealer seat is the big blind, the `ReadyForAll` after the forced bets
    * opens the preflop betting round with the DEALER to act — when some seat's bankroll exceeds ante + the blind it owes;
    * otherwise closes the round at once and nobody is offered anything (everybody is all-in from the forced bets). -/
theorem heads_up_first_actor_config {c : Config} (h : C13.Accepted c) (h2 : c.seats.length = 2)
    {i : Nat} {s : SeatCfg} (hs : c.seats[i]? = some s) (hi : i ≠ C05.dealerSeat c) (hb : s.bb = true) :
    ((∃ s ∈ c.seats, C05.CanMove c.opts s) →
      ((afterForcedBets c).step .ready).1.event = .roundStarted ∧
      ((afterForcedBets c).step .ready).1.cur = C05.dealerSeat c ∧
      Reachable ((afterForcedBets c).step .ready).1) ∧
    ((∀ s ∈ c.seats, ¬ C05.CanMove c.opts s) →
      ((afterForcedBets c).step .ready).1.event = .roundClosed ∧
      ∀ p ∈ ((afterForcedBets c).step .ready).1.players, p.allowed = []) := by
  obtain ⟨_, _, _, _, _, hrun, hreach⟩ := C13.forced_path h
  have hnn := afterForcedBets_n c h.started
  have hd : C05.dealerSeat c < 2 := by
    have := dealerIdx_lt (inv_reachable hreach).struct
    rw [hrun, C05.dealerIdx_eq_dealerSeat h, ← hrun, hnn, h2] at this
    exact this
  have hil : i < 2 := by
    have := (List.getElem?_eq_some_iff.mp hs).1; omega
  have hnext : cwNext 2 (C05.dealerSeat c) = i := by unfold cwNext; split <;> omega
  constructor
  · intro hmove
    obtain ⟨e1, e2, e3⟩ := C05.preflop_first_actor_unconditional h 0 (by omega)
      (by rw [h2]; simp only [cwIter]; rw [hnext, hs, Option.map_some, hb])
      (fun j' hj' => by omega) hmove
    refine ⟨e1, ?_, e3⟩
    rw [e2, h2]
    simp only [cwIter]
    exact cwNext_cwNext_two hd
  · intro hnone
    obtain ⟨a, b, _⟩ := (C05.preflop_opens_iff h).2.2.2.1 hnone
    exact ⟨a, b⟩

/-! ## The betting rounds open only where the property says -/

/-- **Closure of the openings.**  In every reachable state that is not inside a betting round, if an operation — ANY
    operation of the alphabet: a table operation or any action by any seat with any amount — leads to a state inside a
    betting round (`RoundStarted`), then that operation is `ReadyForAll`, it was accepted, the state was waiting for it
    (`ReadyRequested`) on a dealt street (preflop, flop, turn or river), and the street is unchanged.  Hence every opening of a
    betting round satisfies the hypotheses `he`, `hr`, `hopen` of `C04.first_preflop` (or `first_preflop_no_bb`) when the
    street is the preflop, and of `C04.first_postflop` otherwise. -/
theorem openings_complete {g : Game} (h : Reachable g) (op : Op) (hne : g.event ≠ .roundStarted)
    (hopen : (g.step op).1.event = .roundStarted) :
    op = .ready ∧ g.event = .readyRequested ∧ (g.step op).2 = none ∧
    (g.round = .preflop ∨ g.round = .flop ∨ g.round = .turn ∨ g.round = .river) ∧
    (g.step op).1.round = g.round := by
  by_cases hacc : (g.step op).2 = none
  · have hnonact : ∀ s a x, op ≠ .act s a x := by
      rintro s a x rfl
      cases s with
      | none => exact hne (C04.accepted_only_from_current h g.cur a x hacc).2
      | some i => exact hne (C04.accepted_only_from_current h i a x hacc).2
    obtain ⟨gh, hL⟩ := reachable_lreachable .i8 h
    have hinv := lreachable_inv hL
    obtain ⟨e1, e2, _, _, e5, _⟩ := (nonact_step g (flow_reachable h) hinv.ready op hnonact hacc).2 hopen
    refine ⟨e1, e2, hacc, ?_, e5⟩
    subst e1
    have hrn : g.round ≠ .none := fun hr => ready_none_not_started g e2 hr hopen
    cases hround : g.round with
    | none => exact absurd hround hrn
    | preflop => exact Or.inl rfl
    | flop => exact Or.inr (Or.inl rfl)
    | turn => exact Or.inr (Or.inr (Or.inl rfl))
    | river => exact Or.inr (Or.inr (Or.inr rfl))
  · have := C04.refused_no_effect h op hacc
    rw [this] at hopen
    exact absurd hopen hne

/-- … and inside a betting round no operation "opens" one either: the only way from `RoundStarted` to `RoundStarted` is an
    accepted action of the seat to act (which passes the turn clockwise, `C04.clockwise`) or a refused operation (which
    changes nothing). -/
theorem within_round_only_actions {g : Game} (h : Reachable g) (op : Op) (he : g.event = .roundStarted)
    (hacc : (g.step op).2 = none) : ∃ s a x, op = .act s a x ∧ ByCur g s := by
  cases op with
  | ready => rw [C04.ready_wrong_phase g (by rw [he]; simp)] at hacc; cases hacc
  | payBlinds => rw [C04.payBlinds_wrong_phase g (by rw [he]; simp)] at hacc; cases hacc
  | payAnte => rw [C04.payAnte_wrong_phase g (by rw [he]; simp)] at hacc; cases hacc
  | next => rw [C04.next_wrong_phase g (by rw [he]; simp)] at hacc; cases hacc
  | act s a x =>
    refine ⟨s, a, x, rfl, ?_⟩
    cases s with
    | none => exact Or.inl rfl
    | some i =>
      have := (C04.accepted_only_from_current h i a x hacc).1
      exact Or.inr (by rw [this])

/-! ## No seat holds the big-blind position -/

/-- **Sentence 1 before the flop, the case `C04.first_preflop` does not cover.**  The exact rule the engine follows
    (game.go `StartRound`, model `seekBB`): the search for the big blind walks clockwise from the dealer for at most `n` steps;
    when none of the `n` seats met holds the big-blind position it ends where it began, ON THE DEALER, and the first seat
    asked is the one LEFT OF THE DEALER — the rule of the later streets.  Hypotheses as in `C04.first_preflop`, with "no
    seat on the walk is the big blind" in place of `hbb`/`hno`. -/
theorem first_preflop_no_bb {g : Game} (h : Reachable g) (he : g.event = .readyRequested) (hr : g.round = .preflop)
    (hno : ∀ j < g.n, (g.players[cwIter g.n (j + 1) g.dealerIdx]?).map (·.posBB) = some false)
    (hopen : (g.step .ready).1.event = .roundStarted) :
    (g.step .ready).1.cur = cwNext g.n g.dealerIdx := by
  have hi := inv_reachable h
  have hrn : g.round ≠ .none := by simp [hr]
  rw [ready_opens g he hrn] at hopen ⊢
  have nc : NoChip g g.resetAllAllowed.resetAllAllowed := (noChip_resetAllAllowed g).trans (noChip_resetAllAllowed _)
  have hr2 : g.resetAllAllowed.resetAllAllowed.round = .preflop := hr
  generalize g.resetAllAllowed.resetAllAllowed = g2 at hopen nc hr2 ⊢
  unfold Game.startRound' at hopen ⊢
  simp only [hr2, if_true] at hopen ⊢
  split at hopen
  · cases hopen
  · rename_i hmov
    simp only [hmov, if_false]
    have nd := noChip_setCurrentPlayer_dealer g2
    have s3 := nd.struct (nc.struct hi.struct)
    have ns := noChip_seekBB g2.n (g2.setCurrentPlayer g2.dealerIdx)
    rw [openRound_cur _ (ns.struct s3) hopen, ns.length, setCurrentPlayer_n, nc.length]
    have hd : g2.dealerIdx = g.dealerIdx := nc.dealerIdx
    have hn2 : g2.n = g.n := nc.length
    have hdl := dealerIdx_lt hi.struct
    have := seekBB_none g2.n (g2.setCurrentPlayer g2.dealerIdx)
      (by rw [setCurrentPlayer_cur, setCurrentPlayer_n, hd, hn2]; exact hdl)
    simp only [setCurrentPlayer_cur, setCurrentPlayer_n, hd, hn2] at this
    rw [hd, this, opCwIter_full hdl]
    intro j hj
    rw [setCurrentPlayer_posBB, posBB_congr nc.frame]; exact hno j hj

/-- the same with the hypothesis in its plain form: no player holds the big-blind position -/
theorem first_preflop_no_bb' {g : Game} (h : Reachable g) (he : g.event = .readyRequested) (hr : g.round = .preflop)
    (hno : ∀ p ∈ g.players, p.posBB = false) (hopen : (g.step .ready).1.event = .roundStarted) :
    (g.step .ready).1.cur = cwNext g.n g.dealerIdx :=
  first_preflop_no_bb h he hr
    (fun j _ => walk_no_bb g.players (dealerIdx_lt (inv_reachable h).struct) hno j) hopen

/-- **On accepted configurations, without the hypothesis that the round opens.**  For every configuration accepted by
    `Start()` in which NO seat is configured as big blind: when some seat's bankroll exceeds ante + the blind it owes, the
    `ReadyForAll` after the forced bets opens the preflop betting round and the first seat asked is the one left of the dealer;
    otherwise the round is closed at once and nobody is offered anything. -/
theorem first_preflop_no_bb_config {c : Config} (h : C13.Accepted c) (hno : ∀ s ∈ c.seats, s.bb = false) :
    ((∃ s ∈ c.seats, C05.CanMove c.opts s) →
      ((afterForcedBets c).step .ready).1.event = .roundStarted ∧
      ((afterForcedBets c).step .ready).1.cur = cwNext c.seats.length (C05.dealerSeat c) ∧
      Reachable ((afterForcedBets c).step .ready).1) ∧
    ((∀ s ∈ c.seats, ¬ C05.CanMove c.opts s) →
      ((afterForcedBets c).step .ready).1.event = .roundClosed ∧
      ∀ p ∈ ((afterForcedBets c).step .ready).1.players, p.allowed = []) := by
  obtain ⟨_, _, _, _, ⟨hev, hrd⟩, hrun, hreach⟩ := C13.forced_path h
  have hnn := afterForcedBets_n c h.started
  have hd : (afterForcedBets c).dealerIdx = C05.dealerSeat c := by rw [hrun]; exact C05.dealerIdx_eq_dealerSeat h _
  constructor
  · intro hmove
    have hopen := (C05.preflop_opens_iff h).2.2.1.mpr hmove
    have hpl : ∀ p ∈ (afterForcedBets c).players, p.posBB = false := by
      intro p hp
      obtain ⟨k, hk⟩ := List.getElem?_of_mem hp
      obtain ⟨s, hs, _, _, _, hb, _⟩ := (C13.seats_kept h).2 k p hk
      rw [hb]; exact hno s (List.mem_of_getElem? hs)
    have := first_preflop_no_bb' hreach hev hrd hpl hopen
    rw [hnn, hd] at this
    exact ⟨hopen, this, hreach.step _⟩
  · intro hnone
    obtain ⟨a, b, _⟩ := (C05.preflop_opens_iff h).2.2.2.1 hnone
    exact ⟨a, b⟩

/-! ## Every opening at once -/

/-- **Sentence 1, "play starts …", for EVERY opening of a betting round.**  Whenever an operation takes a reachable state
    from outside a betting round into one, the operation is an accepted `ReadyForAll` on a state waiting for it, and the
    first seat asked is
    * before the flop: the seat left of the first seat holding the big-blind position met walking clockwise from the dealer
      (`j + 1 ≤ n` seats away) — or, when no seat met holds it, the seat left of the dealer;
    * on the flop, the turn and the river: the seat left of the dealer.
    No other case exists (`openings_complete` + `bb_walk_cases`). -/
theorem first_actor_every_opening {g : Game} (h : Reachable g) (op : Op) (hne : g.event ≠ .roundStarted)
    (hopen : (g.step op).1.event = .roundStarted) :
    op = .ready ∧ g.event = .readyRequested ∧
    ((g.round = .preflop ∧
        ((∃ j < g.n, (g.players[cwIter g.n (j + 1) g.dealerIdx]?).map (·.posBB) = some true ∧
            (∀ j' < j, (g.players[cwIter g.n (j' + 1) g.dealerIdx]?).map (·.posBB) = some false) ∧
            (g.step op).1.cur = cwNext g.n (cwIter g.n (j + 1) g.dealerIdx)) ∨
         ((∀ j < g.n, (g.players[cwIter g.n (j + 1) g.dealerIdx]?).map (·.posBB) = some false) ∧
            (g.step op).1.cur = cwNext g.n g.dealerIdx))) ∨
     ((g.round = .flop ∨ g.round = .turn ∨ g.round = .river) ∧ (g.step op).1.cur = cwNext g.n g.dealerIdx)) := by
  obtain ⟨e1, e2, _, hround, _⟩ := openings_complete h op hne hopen
  subst e1
  refine ⟨rfl, e2, ?_⟩
  rcases hround with hr | hr
  · left
    refine ⟨hr, ?_⟩
    have hdl := dealerIdx_lt (inv_reachable h).struct
    rcases bb_walk_cases g.players (d := g.dealerIdx) hdl with ⟨j, hj, hbb, hno⟩ | hnone
    · exact Or.inl ⟨j, hj, hbb, hno, C04.first_preflop h e2 hr j hj hbb hno hopen⟩
    · exact Or.inr ⟨hnone, first_preflop_no_bb h e2 hr hnone hopen⟩
  · exact Or.inr ⟨hr, C04.first_postflop h e2 hr hopen⟩

/-! ## Non-vacuity -/

theorem acc_exHeadsUp : C13.Accepted C04.exHeadsUp := ⟨⟨⟨by decide, by decide, by decide, by decide⟩⟩, by decide⟩

/-- `heads_up_first_actor` on `C04.exHeadsUp` (seat 0 big blind, seat 1 dealer and small blind, 100 chips each): the
    hypotheses hold after `ReadyForAll`, `PayBlinds`, and the dealer (seat 1) is asked -/
example : let g := (start C04.exHeadsUp).1.run [.ready, .payBlinds]
    Reachable g ∧ g.event = .readyRequested ∧ g.round = .preflop ∧ g.n = 2 ∧ g.dealerIdx = 1 ∧
    (g.players[0]?.map (·.posBB)) = some true ∧ (g.step .ready).1.event = .roundStarted ∧ (g.step .ready).1.cur = 1 :=
  ⟨reachable_run acc_exHeadsUp.wf acc_exHeadsUp.started _, by decide⟩

/-- `heads_up_first_actor_config` on the same table: two seats, seat 0 ≠ dealer seat 1 is the big blind, somebody can move -/
example : C04.exHeadsUp.seats.length = 2 ∧ C05.dealerSeat C04.exHeadsUp = 1 ∧
    (C04.exHeadsUp.seats[0]?.map (·.bb)) = some true ∧ (∃ s ∈ C04.exHeadsUp.seats, C05.CanMove C04.exHeadsUp.opts s) ∧
    ((afterForcedBets C04.exHeadsUp).step .ready).1.cur = 1 :=
  ⟨by decide, by decide, by decide, ⟨_, List.mem_cons_self, by decide⟩, by decide⟩
/-- … and the other branch on `C05.exShort` (5 and 10 chips, both all-in from the blinds) -/
example : (∀ s ∈ C05.exShort.seats, ¬ C05.CanMove C05.exShort.opts s) ∧ C05.exShort.seats.length = 2 := by decide

/-- `openings_complete`: the three openings of a hand played to the turn on `C05.exCfg` (each from `ReadyRequested` by
    `ReadyForAll`), and operations that do NOT open a round from outside one: `PayBlinds`, `Next` -/
example : let g0 := (start C05.exCfg).1
    let pre := g0.run [.ready, .payBlinds]
    let flop := g0.run (C05.exCalls ++ [.next])
    (pre.event, pre.round, (pre.step .ready).1.event) = (.readyRequested, .preflop, .roundStarted) ∧
    (flop.event, flop.round, (flop.step .ready).1.event, (flop.step .ready).1.cur) =
      (.readyRequested, .flop, .roundStarted, 1) ∧
    ((g0.step .ready).1.step .payBlinds).1.event = .readyRequested ∧
    ((g0.run C05.exCalls).step .next).1.event = .readyRequested ∧ (g0.run C05.exCalls).event = .roundClosed := by decide

/-- three seats, blinds 0/10 but NO seat configured as big blind (accepted by `Start()`); dealer at seat 1 -/
def exNoBB : Config :=
  { opts := C04.exCfg.opts,
    seats := [{ bankroll := 100, dealer := false, sb := true, bb := false },
              { bankroll := 100, dealer := true, sb := false, bb := false },
              { bankroll := 100, dealer := false, sb := false, bb := false }] }

/-- heads-up, big blind 10 but no seat holds the big-blind position (the configuration `C12.exDead`); dealer at seat 0 -/
def exNoBBHeadsUp : Config :=
  { opts := Ex.opts 0 0 0 10, seats := [⟨100, true, false, false⟩, ⟨5, false, false, false⟩] }

theorem acc_exNoBB : C13.Accepted exNoBB := ⟨⟨⟨by decide, by decide, by decide, by decide⟩⟩, by decide⟩

/-- `first_preflop_no_bb` / `_config` on `exNoBB`: no big blind, somebody can move; the round opens and seat 2 — left of the
    dealer at seat 1 — is asked first; likewise heads-up on `C12.exDead` (dealer seat 0: seat 1 is asked) -/
example : (∀ s ∈ exNoBB.seats, s.bb = false) ∧ (∃ s ∈ exNoBB.seats, C05.CanMove exNoBB.opts s) ∧
    C05.dealerSeat exNoBB = 1 ∧ cwNext exNoBB.seats.length (C05.dealerSeat exNoBB) = 2 ∧
    ((afterForcedBets exNoBB).step .ready).1.event = .roundStarted ∧
    ((afterForcedBets exNoBB).step .ready).1.cur = 2 ∧
    (start exNoBBHeadsUp).2 = none ∧ (((start exNoBBHeadsUp).1.run [.ready, .payBlinds, .ready]).cur = 1) :=
  ⟨by decide, ⟨_, List.mem_cons_self, by decide⟩, by decide, by decide, by decide, by decide, by decide, by decide⟩

end Pokerface.C04O

section Axioms
open Pokerface.C04O
#print axioms heads_up_first_actor
#print axioms heads_up_first_actor_config
#print axioms openings_complete
#print axioms within_round_only_actions
#print axioms first_preflop_no_bb
#print axioms first_preflop_no_bb'
#print axioms first_preflop_no_bb_config
#print axioms first_actor_every_opening
end Axioms
