import Pokerface.Proofs.PotsFinal
/-
  C16 — "Published pots partition the chips into correctly nested side pots".

  `potsOf entries` is the model of pot.go `updatePots`: one `AddContributor` per entry
  `(idx, contribution, folded)` in list order, then `GetPots`.  All theorems hold for EVERY
  list of entries with distinct idx and contributions ≥ 0 (`Valid`), in any insertion order.
  Reading I3 (DESIGN §5): the "eligible players" of a pot are the non-folded keys of its
  `contributors`; folded contributors are listed too and are characterised by `folded_listing`.
-/
namespace Pokerface.C16
open Pokerface

/-- An entry is `(idx, contribution, folded)`. -/
abbrev Entry := Nat × Int × Bool

/-- The domain of C16: distinct player indices, contributions ≥ 0 (zero and equal amounts allowed). -/
def Valid (es : List Entry) : Prop := (es.map (·.1)).Nodup ∧ ∀ e ∈ es, 0 ≤ e.2.1

instance (es : List Entry) : Decidable (Valid es) := by unfold Valid; infer_instance

/-- Level of the pot before this one (`L₋₁ = 0` for the main pot); `pre` = the pots before it. -/
def prevLevel (pre : List Pot) : Int := (pre.getLast?.map (·.level)).getD 0

/-- `i` is entered as folded. -/
def isFolded (es : List Entry) (i : Nat) : Bool := es.any (fun e => e.1 == i && e.2.2)

/-- Number of eligible (= listed and not folded) players of a pot. -/
def eligibleCount (es : List Entry) (p : Pot) : Nat :=
  (p.contributors.filter (fun kv => !isFolded es kv.1)).length

/-! ### bridge between entries and the level list -/

theorem potsOf_eq (es : List Entry) : potsOf es = (llOf es).getPots := rfl

theorem prevLevel_eq (pre : List Pot) : prevLevel pre = lastD 0 (pre.map (·.level)) := by
  simp [prevLevel, lastD, List.getLast?_map]

theorem contribs_levels {es : List Entry} (h : Valid es) :
    ∀ kv ∈ (llOf es).contribs, 0 ≤ kv.2 ∧ kv.2 ∈ (llOf es).levels.map (·.level) := by
  intro kv hkv
  rw [llOf_contribs es h.1] at hkv
  obtain ⟨f, hf⟩ := hkv
  exact ⟨h.2 _ hf, (llOf_levels es kv.2).2 ⟨_, hf, rfl⟩⟩

theorem levels_nonneg {es : List Entry} (h : Valid es) : ∀ L ∈ (llOf es).levels.map (·.level), 0 ≤ L := by
  intro L hL
  rw [llOf_levels] at hL
  obtain ⟨e, he, rfl⟩ := hL
  exact h.2 e he

theorem folded_contains (es : List Entry) (i : Nat) : (llOf es).folded.contains i = isFolded es i := by
  rw [Bool.eq_iff_iff]
  simp only [List.contains_eq_mem, decide_eq_true_eq, llOf_folded, isFolded, List.any_eq_true,
    Bool.and_eq_true, beq_iff_eq]
  constructor
  · rintro ⟨c, hc⟩; exact ⟨_, hc, rfl, rfl⟩
  · rintro ⟨⟨j, c, f⟩, he, h1, h2⟩
    simp only at h1 h2; subst h1; subst h2; exact ⟨c, he⟩

theorem contribs_perm {es : List Entry} (h : Valid es) :
    (llOf es).contribs.Perm (es.map (fun e => (e.1, e.2.1))) := by
  have n1 : (llOf es).contribs.Nodup := (llOf_inv es).contribs.imp (fun {a b} hab e => by subst e; omega)
  have n2 : (es.map (fun e : Entry => (e.1, e.2.1))).Nodup := by
    have : (es.map (fun e : Entry => (e.1, e.2.1))).map (·.1) = es.map (·.1) := by
      simp [List.map_map, Function.comp_def]
    exact nodup_of_nodup_map (·.1) (this ▸ h.1)
  rw [List.perm_ext_iff_of_nodup n1 n2]
  intro x
  rw [llOf_contribs es h.1]
  simp only [List.mem_map]
  constructor
  · rintro ⟨f, hf⟩; exact ⟨_, hf, rfl⟩
  · rintro ⟨⟨j, c, f⟩, he, rfl⟩; exact ⟨f, he⟩

theorem sum_contribs {es : List Entry} (h : Valid es) (g : Int → Int) :
    ((llOf es).contribs.map (fun kv => g kv.2)).sum = (es.map (fun e => g e.2.1)).sum := by
  have := perm_sum_int ((contribs_perm h).map (fun kv => g kv.2))
  simpa [List.map_map, Function.comp_def] using this

/-! ### the property -/

/-- "The pots … have strictly increasing levels." -/
theorem levels_increasing (es : List Entry) (_h : Valid es) :
    ((potsOf es).map (·.level)).Pairwise (· < ·) := by
  rw [potsOf_eq, getPots_levels]
  exact mergedPots_levels_sorted (llOf_inv es)

/-- "Each pot's total equals what all players, folded or not, put in between the previous level
    and its own": total of the pot `p` standing after the pots `pre` is
    `Σ_i (min cᵢ Lₖ − min cᵢ Lₖ₋₁)`, the sum ranging over ALL entries. -/
theorem pot_total (es : List Entry) (h : Valid es) (pre post : List Pot) (p : Pot)
    (hp : potsOf es = pre ++ p :: post) :
    p.total = (es.map (fun e => min e.2.1 p.level - min e.2.1 (prevLevel pre))).sum := by
  obtain ⟨_, _, ht, _⟩ := getPots_at (llOf_inv es) (fun kv hkv => (contribs_levels h kv hkv).2)
    (levels_nonneg h) hp
  rw [ht, prevLevel_eq]
  exact sum_contribs h (fun c => min c p.level - min c (lastD 0 (pre.map (·.level))))

/-- "Its eligible players are exactly the non-folded players who reached that level": `i` is listed
    in `p.contributors` and not folded iff `i` is a non-folded entry with contribution `≥ p.level`. -/
theorem eligible_exact (es : List Entry) (h : Valid es) (p : Pot) (hp : p ∈ potsOf es) (i : Nat) :
    ((∃ a, (i, a) ∈ p.contributors) ∧ isFolded es i = false) ↔ ∃ c, (i, c, false) ∈ es ∧ p.level ≤ c := by
  obtain ⟨pre, post, hsplit⟩ := List.append_of_mem hp
  have hmem := fun a => getPots_contributors_mem (llOf_inv es) (fun kv hkv => (contribs_levels h kv hkv).2)
    (levels_nonneg h) hsplit i a
  have hfold : i ∈ (llOf es).folded ↔ isFolded es i = true := by
    rw [← folded_contains]; simp
  constructor
  · rintro ⟨⟨a, ha⟩, hnf⟩
    rcases (hmem a).1 ha with ⟨h1, _⟩ | ⟨_, _, v, hv, hle⟩
    · rw [hfold, hnf] at h1; exact absurd h1 (by simp)
    · rw [llOf_contribs es h.1] at hv
      obtain ⟨f, hf⟩ := hv
      cases f with
      | false => exact ⟨v, hf, hle⟩
      | true =>
        have : isFolded es i = true := by
          simp only [isFolded, List.any_eq_true, Bool.and_eq_true, beq_iff_eq]
          exact ⟨_, hf, rfl, rfl⟩
        rw [hnf] at this; exact absurd this (by simp)
  · rintro ⟨c, hc, hle⟩
    have hnf : isFolded es i = false := by
      rw [Bool.eq_false_iff]
      intro hf
      simp only [isFolded, List.any_eq_true, Bool.and_eq_true, beq_iff_eq] at hf
      obtain ⟨⟨j, c', f'⟩, he, h1, h2⟩ := hf
      simp only at h1 h2; subst h1; subst h2
      -- two entries with the same idx
      have := eq_of_nodup_map (·.1) h.1 hc he rfl
      simp at this
    refine ⟨⟨p.wager, (hmem p.wager).2 (Or.inr ⟨?_, rfl, c, ?_, hle⟩)⟩, hnf⟩
    · rw [hfold, hnf]; simp
    · exact (llOf_contribs es h.1 (i, c)).2 ⟨false, hc⟩

/-- A player is listed at most once in a pot (the Go map has one entry per key). -/
theorem contributors_keys_nodup (es : List Entry) (h : Valid es) (p : Pot) (hp : p ∈ potsOf es) :
    (p.contributors.map (·.1)).Nodup := by
  obtain ⟨pre, post, hsplit⟩ := List.append_of_mem hp
  obtain ⟨_, _, _, hcon, _⟩ := getPots_at (llOf_inv es) (fun kv hkv => (contribs_levels h kv hkv).2)
    (levels_nonneg h) hsplit
  have hbase : KeysSorted ((((contribsAt (llOf es).contribs p.level).filter
      (fun i => !(llOf es).folded.contains i)).map (fun i => (i, p.wager)))) := by
    unfold KeysSorted
    rw [List.pairwise_map]
    exact (contribsAt_sorted (llOf_inv es).contribs _).sublist List.filter_sublist
  have := putContribs_sorted (foldedStakes (llOf es)) (pre.map (·.level)) _ hbase
  rw [← hcon] at this
  unfold KeysSorted at this
  rw [List.Nodup, List.pairwise_map]
  exact this.imp (fun {a b} hab => by omega)

/-- "… each listed with that per-pot amount": a non-folded listed player is listed with
    `Lₖ − Lₖ₋₁`. -/
theorem eligible_amount (es : List Entry) (h : Valid es) (pre post : List Pot) (p : Pot)
    (hp : potsOf es = pre ++ p :: post) (i : Nat) (a : Int)
    (hm : (i, a) ∈ p.contributors) (hf : isFolded es i = false) :
    a = p.level - prevLevel pre := by
  obtain ⟨_, hw, _⟩ := getPots_at (llOf_inv es) (fun kv hkv => (contribs_levels h kv hkv).2)
    (levels_nonneg h) hp
  rcases (getPots_contributors_mem (llOf_inv es) (fun kv hkv => (contribs_levels h kv hkv).2)
    (levels_nonneg h) hp i a).1 hm with ⟨h1, _⟩ | ⟨_, h2, _⟩
  · have : (llOf es).folded.contains i = true := by simpa using h1
    rw [folded_contains, hf] at this; exact absurd this (by simp)
  · rw [h2, hw, prevLevel_eq]

/-- The pot's own `Wager` field is that same per-pot amount. -/
theorem pot_wager (es : List Entry) (h : Valid es) (pre post : List Pot) (p : Pot)
    (hp : potsOf es = pre ++ p :: post) : p.wager = p.level - prevLevel pre := by
  obtain ⟨_, hw, _⟩ := getPots_at (llOf_inv es) (fun kv hkv => (contribs_levels h kv hkv).2)
    (levels_nonneg h) hp
  rw [hw, prevLevel_eq]

/-- "The eligible sets strictly shrink from the main pot to the last side pot": the number of
    eligible players strictly decreases along the pot list (the sets are nested by `eligible_exact`
    and `levels_increasing`, so this is strict inclusion). -/
theorem eligible_shrink (es : List Entry) (_h : Valid es) :
    ((potsOf es).map (eligibleCount es)).Pairwise (· > ·) := by
  have hcount := getPots_nonfolded_counts (llOf_inv es)
  have : (potsOf es).map (eligibleCount es)
      = (mergedPots (llOf es)).map (fun q => q.contributors.length) := by
    rw [← hcount, potsOf_eq]
    apply List.map_congr_left
    intro p _
    simp only [eligibleCount, folded_contains]
  rw [this, List.pairwise_map]
  exact (mergedPots_spec (llOf_inv es)).2.2

/-- "The totals add up to all chips put in, so no chip is created, lost …". -/
theorem totals_sum (es : List Entry) (h : Valid es) :
    ((potsOf es).map (·.total)).sum = (es.map (·.2.1)).sum := by
  rw [potsOf_eq, getPots_totals_sum (llOf_inv es) (contribs_levels h) (levels_nonneg h)]
  exact sum_contribs h id

/-- "… in any insertion order": permuting the entries does not change the published pots
    (Go map iteration order is canonicalised in the model, so this is an equality). -/
theorem order_independent (es es' : List Entry) (h : Valid es) (hp : es'.Perm es) :
    potsOf es' = potsOf es := by
  rw [potsOf_eq, potsOf_eq, llOf_perm hp.symm h.1]

/-- Reading I3 / observation O1: a folded player with stake `c` is listed in the pot standing
    after the pots `pre` iff `c ≠ 0` and `prevLevel pre ≤ c`, and then with the whole stake `c`
    — i.e. in every pot up to the one holding their last chip, and in the next one too when `c`
    equals a pot boundary. -/
theorem folded_listing (es : List Entry) (h : Valid es) (pre post : List Pot) (p : Pot)
    (hp : potsOf es = pre ++ p :: post) (i : Nat) (c : Int) (hi : (i, c, true) ∈ es) (a : Int) :
    (i, a) ∈ p.contributors ↔ a = c ∧ c ≠ 0 ∧ prevLevel pre ≤ c := by
  have hmem := getPots_contributors_mem (llOf_inv es) (fun kv hkv => (contribs_levels h kv hkv).2)
    (levels_nonneg h) hp i a
  have hfold : i ∈ (llOf es).folded := (llOf_folded es i).2 ⟨c, hi⟩
  have hstake : (assocGet? (llOf es).contribs i).getD 0 = c := by
    rw [assocGet?_of_mem (llOf_inv es).contribs ((llOf_contribs es h.1 (i, c)).2 ⟨true, hi⟩)]; rfl
  have hc0 : 0 ≤ c := h.2 _ hi
  -- the levels of the earlier pots are ascending, so "all ≤ c" is "the last ≤ c"
  have hsorted : (pre.map (·.level)).Pairwise (· < ·) := by
    have := levels_increasing es h
    rw [hp, List.map_append, List.pairwise_append] at this
    exact this.1
  have hall : (∀ L ∈ pre.map (·.level), L ≤ c) ↔ prevLevel pre ≤ c := by
    rw [prevLevel_eq]
    constructor
    · intro hA
      rcases List.eq_nil_or_concat (pre.map (·.level)) with hnil | ⟨init, y, hy⟩
      · rw [hnil]; exact hc0
      · rw [hy] at hA ⊢
        simp only [List.concat_eq_append, lastD_append, lastD_cons, lastD_nil]
        exact hA y (by simp)
    · intro hA L hL
      have := le_lastD_of_sorted hsorted 0 L hL
      omega
  rw [hmem, hstake]
  constructor
  · rintro (⟨_, h2, h3, h4⟩ | ⟨h1, _⟩)
    · subst h2; exact ⟨rfl, h3, hall.1 h4⟩
    · exact absurd hfold h1
  · rintro ⟨h1, h2, h3⟩
    subst h1
    exact Or.inl ⟨hfold, rfl, h2, hall.2 h3⟩

/-! ### non-vacuity: a three-level side-pot layout with a fold and equal amounts -/

/-- 0:30, 1:100, 2:60 folded, 3:100, 4:30 folded at a pot boundary. -/
def sample : List Entry := [(3, 100, false), (0, 30, false), (2, 60, true), (1, 100, false), (4, 30, true)]

example : Valid sample := by decide

example : (potsOf sample).map (fun p => (p.level, p.wager, p.total, p.contributors)) =
    [(30, 30, 150, [(0, 30), (1, 30), (2, 60), (3, 30), (4, 30)]),
     (100, 70, 170, [(1, 70), (2, 60), (3, 70), (4, 30)])] := by decide

/-- The second pot of the sample: hypotheses of the positional theorems are satisfiable. -/
example : ∃ pre p post, potsOf sample = pre ++ p :: post ∧ pre ≠ [] ∧ prevLevel pre = 30 ∧ p.level = 100 :=
  ⟨[(potsOf sample)[0]!], (potsOf sample)[1]!, [], by decide, by decide, by decide, by decide⟩

example : (potsOf sample).map (eligibleCount sample) = [3, 2] := by decide

/-- A permutation of the sample gives the same pots (instance of `order_independent`). -/
example : potsOf sample.reverse = potsOf sample := by decide

end Pokerface.C16
