import Pokerface.Proofs.BetsMono
import Pokerface.Proofs.BetsPhase
import Pokerface.Proofs.BetsExamples
import Pokerface.Proofs.RaiseGhost
import Pokerface.Proofs.GapsABets
import Pokerface.Proofs.GapsAPots
/-
  C12 — Raise sizes obey the minimum-raise rule and amounts cannot corrupt chips.
  Setting as in C11 (`AtTurn g p`); `x` is the amount argument of `Raise(x)` / `Bet(x)`,
  any integer.
-/
namespace Pokerface.C12
open Pokerface Game

/-- Last sentence: "no amount argument whatsoever - zero, negative, tiny or larger than the stack -
    can make a wager, stack or pot negative or lift a stack above the player's bankroll."
    For EVERY reachable state and EVERY operation of the alphabet (in particular every action `a`, by
    the seat to act or by any explicitly named seat, with every integer amount `x`), accepted or refused,
    the state afterwards satisfies the whole chip invariant: per player stack, wager and pot are not
    negative, bankroll = stack + wager + pot (hence stack ≤ bankroll), stack = round-start stack − wager;
    the round pot is the sum of the wagers (hence not negative); wager to match and minimum raise are
    not negative. -/
theorem amounts_safe {g : Game} (h : Reachable g) (op : Op) :
    (∀ q ∈ (g.step op).1.players,
      0 ≤ q.stack ∧ 0 ≤ q.wager ∧ 0 ≤ q.pot ∧ q.stack ≤ q.bankroll ∧
      q.bankroll = q.stack + q.wager + q.pot ∧ q.stack = q.initial - q.wager) ∧
    (g.step op).1.roundPot = (g.step op).1.wagerSum ∧ 0 ≤ (g.step op).1.roundPot ∧
    0 ≤ (g.step op).1.cw ∧ 0 ≤ (g.step op).1.prev := by
  have hi := inv_step g (inv_reachable h) op
  have ok := hi.chips0
  refine ⟨?_, ok.rp, ?_, ok.cw0, ok.prev0⟩
  · intro q hq
    have hq := ok.pinv q hq
    have := hq.split; have := hq.stack0; have := hq.wager0; have := hq.pot0; have := hq.rebase
    omega
  · rw [ok.rp]
    apply sum_nonneg
    intro x hx
    obtain ⟨q, hq, rfl⟩ := List.mem_map.mp hx
    exact (ok.pinv q hq).wager0

/-- `amounts_safe` with the amount argument spelled out: any action, any seat designation, any integer. -/
theorem amounts_safe_act {g : Game} (h : Reachable g) (seat : Option Nat) (a : Act) (x : Int) :
    ∀ q ∈ (g.step (.act seat a x)).1.players,
      0 ≤ q.stack ∧ 0 ≤ q.wager ∧ 0 ≤ q.pot ∧ q.stack ≤ q.bankroll :=
  fun q hq => let ⟨a, b, c, d, _⟩ := (amounts_safe h (.act seat a x)).1 q hq; ⟨a, b, c, d⟩

/-- "a request below the current wager is refused": `Raise(x)` with `x = 0` or `x` below the wager to
    match returns an error and leaves the state untouched — in every state whatsoever and for every
    seat designation (`ErrIllegalRaise` when raise is offered, `ErrInvalidAction` otherwise). -/
theorem raise_below_refused (g : Game) (seat : Option Nat) (x : Int) (hx : x = 0 ∨ x < g.cw) :
    (g.step (.act seat .raise x)).2 ≠ none ∧ (g.step (.act seat .raise x)).1 = g := by
  have key : ∀ i, (g.act i .raise x).2 ≠ none ∧ (g.act i .raise x).1 = g := by
    intro i
    unfold Game.act
    simp only
    split
    · exact ⟨by simp, rfl⟩
    · exact ⟨by simp, rfl⟩
  cases seat with
  | none => exact key _
  | some i => exact key i


/-- First sentence, first half: "In no-limit play a raise request to a level below the player's stack
    [reading I6: below the stack at the start of the round, `p.initial`] that lifts the wager to match by at
    least the size of the previous bet or raise of the round (the big blind before any) is carried out
    exactly - that level becomes the wager to match, the raiser the last raiser and the increment the new
    minimum".  Hypotheses: decision point of `p` (`AtTurn`), no-limit, raise is offered, the request is
    addressed to the seat to act, `cw < x < p.initial`, `x − cw ≥ prev`.  Conclusion: accepted; the new wager
    to match is `x`; the last raiser is the acting seat; the new minimum raise is `x − cw`; the raiser's wager
    is `x` (and only their stack paid for it). -/
theorem raise_exact {g : Game} {p : Player} (h : AtTurn g p) (hnl : g.opts.potLimit = false)
    (hr : Act.raise ∈ p.allowed) {seat : Option Nat} (hs : ByCur g seat) {x : Int}
    (hx1 : g.cw < x) (hx2 : x < p.initial) (hx3 : x - g.cw ≥ g.prev) :
    (g.step (.act seat .raise x)).2 = none ∧
    (g.step (.act seat .raise x)).1.cw = x ∧
    (g.step (.act seat .raise x)).1.raiser = g.cur ∧
    (g.step (.act seat .raise x)).1.prev = x - g.cw ∧
    ∃ q, (g.step (.act seat .raise x)).1.players[g.cur]? = some q ∧ q.wager = x ∧
      q.stack = p.initial - x ∧ q.pot = p.pot ∧ q.bankroll = p.bankroll := by
  rw [h.allowed_eq] at hr
  rw [step_byCur hs, act_raise_dispatch h hr hx1]
  have : ¬ (x ≥ p.initial ∨ x - g.cw < g.prev) := by omega
  rw [if_neg this]
  obtain ⟨q, hq, e1, e2, e3, e4, e5, e6, e7⟩ := doRaise_effect h hnl hx1 hx2
  exact ⟨rfl, e2, e4, e3, q, hq, e1, e5, e6, e7⟩

/-- First sentence, second half: "a request that would lift it by less is never carried out as an
    undersized raise (the player is put all-in or refused)".  The model (as the Go code) always takes the
    first alternative: the request is accepted and carried out as `Allin` — stack 0, the whole round-start
    stack wagered.  Holds for no-limit and pot-limit alike. -/
theorem raise_undersized {g : Game} {p : Player} (h : AtTurn g p)
    (hr : Act.raise ∈ p.allowed) {seat : Option Nat} (hs : ByCur g seat) {x : Int}
    (hx1 : g.cw < x) (hx3 : x - g.cw < g.prev) :
    (g.step (.act seat .raise x)).2 = none ∧
    ∃ q, (g.step (.act seat .raise x)).1.players[g.cur]? = some q ∧ q.stack = 0 ∧ q.wager = p.initial := by
  rw [h.allowed_eq] at hr
  rw [step_byCur hs, act_raise_dispatch h hr hx1, if_pos (Or.inr hx3)]
  obtain ⟨q, hq, e1, e2, _⟩ := doAllin_effect h
  exact ⟨rfl, q, hq, e1, e2⟩

/-- The same statement in the disjunctive wording of the property (all-in, or refused without effect). -/
theorem raise_undersized' {g : Game} {p : Player} (h : AtTurn g p)
    (hr : Act.raise ∈ p.allowed) {seat : Option Nat} (hs : ByCur g seat) {x : Int}
    (hx1 : g.cw < x) (hx3 : x - g.cw < g.prev) :
    (∃ q, (g.step (.act seat .raise x)).1.players[g.cur]? = some q ∧ q.stack = 0 ∧ q.wager = p.initial) ∨
    ((g.step (.act seat .raise x)).2 ≠ none ∧ (g.step (.act seat .raise x)).1 = g) :=
  Or.inl (raise_undersized h hr hs hx1 hx3).2

/-- Companion (reading I6): a request at or above the round-start stack is carried out as all-in too. -/
theorem raise_over_stack {g : Game} {p : Player} (h : AtTurn g p)
    (hr : Act.raise ∈ p.allowed) {seat : Option Nat} (hs : ByCur g seat) {x : Int}
    (hx1 : g.cw < x) (hx2 : p.initial ≤ x) :
    (g.step (.act seat .raise x)).2 = none ∧
    ∃ q, (g.step (.act seat .raise x)).1.players[g.cur]? = some q ∧ q.stack = 0 ∧ q.wager = p.initial := by
  rw [h.allowed_eq] at hr
  rw [step_byCur hs, act_raise_dispatch h hr hx1, if_pos (Or.inl hx2)]
  obtain ⟨q, hq, e1, e2, _⟩ := doAllin_effect h
  exact ⟨rfl, q, hq, e1, e2⟩

/-- "The wager to match never goes down within a round": no operation other than `Next()` and `PayAnte()`
    ever lowers it — in every state, for every action, seat designation and amount. -/
theorem cw_monotone (g : Game) (op : Op) (h1 : op ≠ .next) (h2 : op ≠ .payAnte) : g.cw ≤ (g.step op).1.cw := by
  unfold Game.step
  cases op with
  | ready => simp only; rw [readyForAll_cw]; exact Int.le_refl _
  | payAnte => exact absurd rfl h2
  | payBlinds => exact payBlinds_cw_mono g
  | next => exact absurd rfl h1
  | act seat a x =>
    cases seat with
    | none => exact act_cw_mono g _ a x
    | some i => exact act_cw_mono g i a x

/-- The two exceptions are not "within a round": `Next()` either does nothing or sets the wager to match
    to 0 while it changes the street or closes the hand; `PayAnte()` either leaves it alone or opens the
    preflop round with it at 0. -/
theorem cw_reset_only_between_rounds (g : Game) :
    ((g.step .next).1 = g ∨ ((g.step .next).1.cw = 0 ∧
       ((g.step .next).1.round ≠ g.round ∨ (g.step .next).1.event = .gameClosed))) ∧
    ((g.step .payAnte).1.cw = g.cw ∨ ((g.step .payAnte).1.cw = 0 ∧ (g.step .payAnte).1.round = .preflop)) :=
  ⟨next_cw g, payAnte_cw g⟩

/-- "The wager to match never goes down within a round", for all histories: in every reachable state, EVERY
    operation (any action, seat, amount; accepted or refused) that leaves the hand in the same round and does not
    close the hand leaves the wager to match at least as high as it was.  (`Next()` resets it only when it moves to
    another street or closes the hand; `PayAnte()` only when it opens the preflop round from "no round yet".) -/
theorem cw_monotone_within_round {g : Game} (h : Reachable g) (op : Op)
    (hround : (g.step op).1.round = g.round) (hopen : (g.step op).1.event ≠ .gameClosed) :
    g.cw ≤ (g.step op).1.cw := by
  by_cases h1 : op = .next
  · subst h1
    rcases next_cw g with h2 | ⟨_, h3 | h3⟩
    · show g.cw ≤ g.next.1.cw; rw [h2]; exact Int.le_refl _
    · exact absurd hround h3
    · exact absurd h3 hopen
  · by_cases h2 : op = .payAnte
    · subst h2
      rcases payAnte_cw' g with h3 | ⟨he, _, hr⟩
      · show g.cw ≤ g.payAnte.1.cw; rw [h3]; exact Int.le_refl _
      · have := ((phase_reachable h).ante he).1
        have hr' : g.payAnte.1.round = g.round := hround
        rw [hr, this] at hr'; cases hr'
    · exact cw_monotone g op h1 h2

/-! Non-vacuity. `Ex.g4`: flop, seat 2 faces a bet of 30 (minimum raise 30) with 990 behind. -/
example : AtTurn Ex.g4 (Ex.g4.players[2]) ∧ Ex.g4.opts.potLimit = false ∧ Act.raise ∈ (Ex.g4.players[2]).allowed ∧
    Ex.g4.cw = 30 ∧ Ex.g4.prev = 30 ∧ (Ex.g4.players[2]).initial = 990 :=
  ⟨⟨Ex.reach_g4, by decide, rfl⟩, by decide, by decide, by decide, by decide, by decide⟩
/-- exact minimum raise to 60, an undersized request to 45, a request below the wager to match -/
example : (Ex.g4.step (.act none .raise 60)).1.cw = 60 ∧ (Ex.g4.step (.act none .raise 60)).1.prev = 30 ∧
    ((Ex.g4.step (.act none .raise 45)).1.players[2]?.map (·.stack)) = some 0 ∧
    (Ex.g4.step (.act none .raise 20)).2 = some .illegalRaise := by decide
/-- within a round: the raise keeps the flop open; `Next()` after the round closes moves on and resets -/
example : (Ex.g4.step (.act none .raise 60)).1.round = Ex.g4.round ∧
    (Ex.g4.step (.act none .raise 60)).1.event ≠ .gameClosed ∧ Ex.g4.cw = 30 := by decide
/-- amounts: a negative bet is refused, a huge one is an all-in -/
example : (Ex.g2.step (.act none .bet (-5))).2 = some .invalidAction ∧
    ((Ex.g2.step (.act none .bet 1000000)).1.players[1]?.map (fun q => (q.stack, q.wager))) = some (0, 990) := by decide

/-! ## FINDING (reproduced on the Go code): an oversized `Bet` inflates the recorded minimum raise

  `raise_exact` / `raise_undersized` are stated with `g.prev`, the RECORDED `PreviousRaiseSize`.  The property
  text speaks of "the size of the previous bet or raise of the round".  The two differ after `Bet(x)` with `x`
  above the bettor's stack: the bettor is all-in for the stack, but `PreviousRaiseSize := x` (player.go `Bet`).
  A natural consequence of "prev is the size of the last bet or raise" — after the flop the recorded minimum
  raise never exceeds the wager to match — was FALSE of the model and of the Go code before the repair of D11: -/

/-- the full reading: postflop, the recorded minimum raise is at most the wager to match -/
def prev_is_actual_size_full : Prop :=
  ∀ g, Reachable g → g.event = .roundStarted → g.round = .flop → g.prev ≤ g.cw

/-- dealer 3,000,000, small blind 1000, big blind 5000; blinds 5/10 -/
def exOversized : Config := Ex.cfg (Ex.opts 0 0 5 10) 3000000 1000 5000
/-- flop after call, call, check; seat 1 (stack 990) does `Bet(1000000)` -/
def exOversizedBet : Game :=
  (start exOversized).1.run [.ready, .payBlinds, .ready, .act none .call 0, .act none .call 0, .act none .check 0,
    .next, .ready, .act none .bet 1000000]

/-- The witness that falsified this statement before the repair ("fix: Bet records the amount
    actually wagered as the minimum raise", DESIGN §7 D11): the 990 stack does `Bet(1000000)`.  The
    recorded minimum raise is now the 990 actually put in, the next seat is offered a raise, and
    `Raise(1980)` — a raise by exactly the size of the bet — is carried out exactly.  (A test on one
    history, not the general statement; the general statement `prev_is_actual_size_full` is kept
    above as a `Prop`.) -/
example : exOversizedBet.cw = 990 ∧ exOversizedBet.prev = 990 ∧ exOversizedBet.cur = 2 ∧
    (exOversizedBet.players[2]?.map (·.allowed)) = some [.allin, .fold, .call, .raise] ∧
    (exOversizedBet.step (.act none .raise 1980)).2 = none ∧
    ((exOversizedBet.run [.act none .raise 1980]).cw = 1980) ∧
    ((exOversizedBet.run [.act none .raise 1980]).prev = 990) ∧
    (((exOversizedBet.run [.act none .raise 1980]).players[2]?.map (fun q => (q.stack, q.wager)))
      = some (3010, 1980)) := by decide

/-! ## The recorded minimum raise IS "the size of the previous bet or raise of the round"

  `raise_exact` / `raise_undersized` above speak of `g.prev`, the engine's own record.  The specification's quantity
  is kept here by a GHOST (`Proofs/RaiseGhost.lean`): `RGhost.lastRaise`, updated along the run by the
  specification's rules only (`RGhost.step`, `lastRaiseTurn`), never by looking at `prev`:
   * when `ReadyForAll` opens a betting round: the big blind (the dealer blind when there is no big blind) preflop,
     0 on later streets;
   * after an accepted action in an open round, with `d` the rise of the wager to match (rule `.i8`, reading I8):
     a `Bet` sets it to `d`; a `Raise(x)`, `x` above the wager to match, or an `Allin` sets it to `d` when `d > 0`
     and `d` is at least the record, and leaves it otherwise (short all-in); `Call`, `Raise(x)` with `x` equal to
     the wager to match (carried out as a call, including the completion of a short big blind), `Fold`, `Check`,
     `Pass` leave it.
  `LReachable .i8 g gh`: `(g, gh)` is the state and the record after some history from an accepted configuration. -/

/-- The missing link: in every open betting round of every history the engine's `PreviousRaiseSize` equals the
    specification's record. -/
theorem recorded_is_last_raise {g : Game} {gh : RGhost} (h : LReachable .i8 g gh) (he : g.event = .roundStarted) :
    g.prev = gh.lastRaise := prev_is_last_raise h he

/-- `raise_exact` in terms of the specification's quantity: a raise request to a level `x` below the round-start
    stack that lifts the wager to match by at least `lastRaise` — the size of the previous bet or raise of the round,
    the big blind before any — is carried out exactly; the increment is the new recorded minimum AND the new value of
    the specification's record. -/
theorem raise_exact_spec {g : Game} {gh : RGhost} {p : Player} (hG : LReachable .i8 g gh)
    (hev : g.event = .roundStarted) (hp : g.players[g.cur]? = some p) (hnl : g.opts.potLimit = false)
    (hr : Act.raise ∈ p.allowed) {seat : Option Nat} (hs : ByCur g seat) {x : Int}
    (hx1 : g.cw < x) (hx2 : x < p.initial) (hx3 : x - g.cw ≥ gh.lastRaise) :
    (g.step (.act seat .raise x)).2 = none ∧
    (g.step (.act seat .raise x)).1.cw = x ∧
    (g.step (.act seat .raise x)).1.raiser = g.cur ∧
    (g.step (.act seat .raise x)).1.prev = x - g.cw ∧
    (gh.step .i8 g (.act seat .raise x)).lastRaise = x - g.cw ∧
    ∃ q, (g.step (.act seat .raise x)).1.players[g.cur]? = some q ∧ q.wager = x ∧
      q.stack = p.initial - x ∧ q.pot = p.pot ∧ q.bankroll = p.bankroll := by
  have hL := prev_is_last_raise hG hev
  obtain ⟨e1, e2, e3, e4, e5⟩ :=
    raise_exact (g := g) (p := p) ⟨lreachable_reachable hG, hev, hp⟩ hnl hr hs hx1 hx2 (by rw [hL]; exact hx3)
  refine ⟨e1, e2, e3, e4, ?_, e5⟩
  rw [rghost_step_act hev e1, e2]
  have hn : ¬ asCall .raise x g.cw := by simp [asCall]; omega
  have h1 : 0 < x - g.cw := by omega
  simp only [lastRaiseTurn, reduceCtorEq, if_false]
  rw [if_pos ⟨hn, h1, hx3⟩]

/-- `raise_undersized` in terms of the specification's quantity: a request that would lift the wager to match by
    less than `lastRaise` is never carried out as an undersized raise: the player is put all-in. -/
theorem raise_undersized_spec {g : Game} {gh : RGhost} {p : Player} (hG : LReachable .i8 g gh)
    (hev : g.event = .roundStarted) (hp : g.players[g.cur]? = some p)
    (hr : Act.raise ∈ p.allowed) {seat : Option Nat} (hs : ByCur g seat) {x : Int}
    (hx1 : g.cw < x) (hx3 : x - g.cw < gh.lastRaise) :
    (g.step (.act seat .raise x)).2 = none ∧
    ∃ q, (g.step (.act seat .raise x)).1.players[g.cur]? = some q ∧ q.stack = 0 ∧ q.wager = p.initial := by
  have hL := prev_is_last_raise hG hev
  exact raise_undersized (g := g) (p := p) ⟨lreachable_reachable hG, hev, hp⟩ hr hs hx1 (by rw [hL]; exact hx3)

/-- After the flop the recorded minimum raise never exceeds the wager to match (on the flop, the turn and the
    river), in every open betting round of every history: it is 0 until somebody bets, and then the size of a bet
    or raise that is part of the wager to match.  (False before the repair of D11.) -/
theorem prev_le_cw_postflop {g : Game} (h : Reachable g) (he : g.event = .roundStarted) (hr : g.round ≠ .preflop) :
    g.prev ≤ g.cw := prev_le_cw_of_reachable h he hr

/-- the statement kept open above now holds -/
theorem prev_is_actual_size_full_holds : prev_is_actual_size_full :=
  fun _ h he hr => prev_le_cw_postflop h he (by rw [hr]; simp)

/-! ### Non-vacuity -/

/-- blinds 5/10; the big blind has 100 -/
def exGhost : Config := Ex.cfg (Ex.opts 0 0 5 10) 1000 1000 100
/-- preflop call, call, check; flop: seat 1 bets 30, seat 2 calls, seat 0 raises to 80 (by 50), seat 1 calls,
    seat 2 is all-in for 90 (a rise of 10, short of 50), seat 0 calls -/
def exGhostOps : List Op :=
  [.ready, .payBlinds, .ready, .act none .call 0, .act none .call 0, .act none .check 0, .next, .ready,
   .act none .bet 30, .act none .call 0, .act none .raise 80, .act none .call 0, .act none .allin 0, .act none .call 0]

theorem exGhost_reach (k : Nat) : LReachable .i8 ((start exGhost).1.runL .i8 ⟨0⟩ (exGhostOps.take k)).1
    ((start exGhost).1.runL .i8 ⟨0⟩ (exGhostOps.take k)).2 :=
  ⟨exGhost, exGhostOps.take k, ⟨Ex.optsOK _ _ _ _ (by decide)⟩, by decide, rfl⟩

/-- the record and the recorded minimum raise along that history: 10 preflop (the big blind before any), 0 when
    the flop opens, 30 after the bet, 50 after the raise, still 50 after the short all-in and the calls -/
example : (([3, 6, 8, 9, 10, 11, 12, 13, 14].map fun k =>
      let r := (start exGhost).1.runL .i8 ⟨0⟩ (exGhostOps.take k); (r.1.cw, r.1.prev, r.2.lastRaise)) =
    [(10, 10, 10), (10, 10, 10), (0, 0, 0), (30, 30, 30), (30, 30, 30), (80, 50, 50), (80, 50, 50), (90, 50, 50),
     (90, 50, 50)]) ∧
    ((start exGhost).1.runL .i8 ⟨0⟩ exGhostOps).1.event = .roundStarted ∧
    ((start exGhost).1.runL .i8 ⟨0⟩ exGhostOps).1.round = .flop := by decide

/-- hypotheses of `raise_exact_spec` / `raise_undersized_spec` at the end of that history: seat 1 (910 behind, 80 in)
    faces 90 with the record at 50; raise is offered; `Raise(140)` lifts by exactly 50 and is carried out exactly,
    `Raise(120)` lifts by 30 < 50 and puts seat 1 all-in -/
example : let r := (start exGhost).1.runL .i8 ⟨0⟩ exGhostOps
    r.1.cur = 1 ∧ (r.1.players[1]?.map fun q => (q.initial, q.allowed)) = some (990, [.allin, .fold, .call, .raise]) ∧
    r.1.opts.potLimit = false ∧ r.1.cw = 90 ∧ r.2.lastRaise = 50 ∧
    (r.1.step (.act none .raise 140)).1.cw = 140 ∧ (r.1.step (.act none .raise 140)).1.prev = 50 ∧
    (r.2.step .i8 r.1 (.act none .raise 140)).lastRaise = 50 ∧
    ((r.1.step (.act none .raise 120)).1.players[1]?.map fun q => (q.stack, q.wager)) = some (0, 990) := by decide

/-- short big blind (`Ex.c3`: the big blind has 6 chips): the round opens with 6 to match and the record at the
    big blind 10; the dealer's `Call` — and `Raise(6)`, carried out as a call — completes to 10 and is no raise: the
    record stays 10 (reading I8) -/
example :
    (let r := (start Ex.c3).1.runL .i8 ⟨0⟩ [.ready, .payBlinds, .ready]; (r.1.cw, r.1.prev, r.2.lastRaise)) = (6, 10, 10) ∧
    (let r := (start Ex.c3).1.runL .i8 ⟨0⟩ [.ready, .payBlinds, .ready, .act none .call 0];
      (r.1.cw, r.1.prev, r.2.lastRaise)) = (10, 10, 10) ∧
    (let r := (start Ex.c3).1.runL .i8 ⟨0⟩ [.ready, .payBlinds, .ready, .act none .raise 6];
      (r.1.cw, r.1.prev, r.2.lastRaise)) = (10, 10, 10) := by decide

/-! ## FINDING: the rule of the run-time monitor differs from the engine on a dead blind

  The monitor (`harness/cmd/trace/engine_monitors.go`, rule `.monitor`) lets ANY non-call action that lifts the wager
  to match from 0 set the record (`pcw == 0 || d >= lastRaise`).  When the preflop round is opened with nothing to
  match although the big blind is positive — no seat owing a blind has a chip left after the ante, or no seat holds
  the position — an `Allin` for less than the big blind lifts the wager to match from 0 by less than the big blind:
  the engine keeps the big blind as the minimum raise (`Allin` only records a rise of at least the recorded size),
  the monitor's record drops to the size of the all-in.  By reading I8 to the letter ("a raise/all-in that lifts the
  wager to match by at least the previous such size", "the big blind before any") the engine is right, and the
  monitor's disjunct `pcw == 0` is the mismatch: the rule `.i8` (`Bet`: record := d; other non-calls: d > 0 ∧ d ≥ record)
  matches the engine on ALL histories (`recorded_is_last_raise`), and the two rules agree on every history that never
  opens the preflop round on a dead blind (`monitor_rule_agrees`). -/

/-- heads-up, big blind 10 but no seat holds the big-blind position; seat 1 has 5 chips -/
def exDead : Config := { opts := Ex.opts 0 0 0 10, seats := [⟨100, true, false, false⟩, ⟨5, false, false, false⟩] }
/-- the usual layout (dealer, small blind, big blind, one more seat) with an ante of 5 that eats both blind stacks;
    the last seat is left with 7 -/
def exDeadAnte : Config :=
  { opts := Ex.opts 5 0 5 10,
    seats := [⟨1000, true, false, false⟩, ⟨5, false, true, false⟩, ⟨5, false, false, true⟩, ⟨12, false, false, false⟩] }

/-- The smallest counter-history to "`prev` = the monitor's record" (4 operations: `ReadyForAll`, `PayBlinds`,
    `ReadyForAll`, `Allin` by the 5-chip seat): the round is open, 5 to match, the engine's minimum raise is still the
    big blind 10, the monitor's record is 5, the record of rule `.i8` is 10.  The history passes through a dead
    blind, so `prev_is_last_raise_monitor` does not apply. -/
theorem monitor_rule_counterexample :
    (start exDead).2 = none ∧
    (let r := (start exDead).1.runL .monitor ⟨0⟩ [.ready, .payBlinds, .ready, .act none .allin 0]
     r.1.event = .roundStarted ∧ r.1.cw = 5 ∧ r.1.prev = 10 ∧ r.2.lastRaise = 5) ∧
    ((start exDead).1.runL .i8 ⟨0⟩ [.ready, .payBlinds, .ready, .act none .allin 0]).2.lastRaise = 10 ∧
    ((start exDead).1.run [.ready, .payBlinds]).deadBlind := by decide

/-- The same with the usual layout and an ante; and what the monitor would then report as a violation of
    `raise_exact` although the engine follows reading I8: `Raise(14)` by the dealer lifts the 7 to match by 7 — at
    least the monitor's record 7, less than the engine's (and rule `.i8`'s) 10 — and is carried out as an all-in. -/
theorem monitor_rule_counterexample_ante :
    (start exDeadAnte).2 = none ∧
    (let r := (start exDeadAnte).1.runL .monitor ⟨0⟩ [.ready, .payAnte, .payBlinds, .ready, .act none .allin 0]
     r.1.event = .roundStarted ∧ r.1.cw = 7 ∧ r.1.prev = 10 ∧ r.2.lastRaise = 7 ∧ r.1.cur = 0 ∧
     (r.1.players[0]?.map fun q => (q.initial, q.allowed)) = some (995, [.allin, .fold, .call, .raise]) ∧
     ((r.1.step (.act none .raise 14)).1.players[0]?.map fun q => (q.stack, q.wager)) = some (0, 995)) ∧
    ((start exDeadAnte).1.runL .i8 ⟨0⟩ [.ready, .payAnte, .payBlinds, .ready, .act none .allin 0]).2.lastRaise = 10 := by
  decide

/-- Outside that corner the monitor's rule is the rule of I8: along every history that never opens the preflop round
    on a dead blind the two records coincide step by step, hence the monitor's record equals `PreviousRaiseSize`
    in every open betting round. -/
theorem monitor_rule_agrees (c : Config) (wf : WFConfig c) (hs : (start c).2 = none) (ops : List Op)
    (hnd : NoDeadBlind (start c).1 ops) :
    (start c).1.runL .monitor ⟨0⟩ ops = (start c).1.runL .i8 ⟨0⟩ ops ∧
    (((start c).1.runL .monitor ⟨0⟩ ops).1.event = .roundStarted →
      ((start c).1.runL .monitor ⟨0⟩ ops).1.prev = ((start c).1.runL .monitor ⟨0⟩ ops).2.lastRaise) :=
  ⟨monitor_eq_i8_start c wf hs ops hnd, prev_is_last_raise_monitor c wf hs ops hnd⟩

/-- non-vacuity: the flop history above never meets a dead blind -/
example : NoDeadBlind (start exGhost).1 exGhostOps := by decide

/-! ### OBSERVATION: `Bet(0)` is accepted and erases the big blind as minimum raise (dead blind only)

  Under rule `.i8` every accepted `Bet` is a bet, also `Bet(0)` (the engine accepts it whenever bet is offered: it
  moves no chip, marks the seat as having acted, and records 0 as the minimum raise).  After the flop that changes
  nothing (the record is 0 as long as nothing is to match, `prev_le_cw_postflop`).  On a dead blind it replaces the
  big blind by 0: below, after `Bet(0)` an all-in for 7 becomes the minimum raise and `Raise(14)` — a raise by 7 with a
  big blind of 10 and no bet of positive size before the all-in — is carried out as a raise, whereas WITHOUT the
  `Bet(0)` the very same request is turned into an all-in (minimum raise still 10).  If one reads "a bet" as a bet
  of positive size, the first outcome contradicts "a request that would lift it by less [than the big blind before
  any] is never carried out as an undersized raise"; under reading I8 to the letter both outcomes conform. -/
def exBetZero : Config :=
  { opts := Ex.opts 5 0 5 10,
    seats := [⟨12, true, false, false⟩, ⟨5, false, true, false⟩, ⟨5, false, false, true⟩, ⟨1000, false, false, false⟩] }

example :
    (let r := (start exBetZero).1.runL .i8 ⟨0⟩ [.ready, .payAnte, .payBlinds, .ready, .act none .bet 0]
     (r.1.event, r.1.cw, r.1.prev, r.2.lastRaise) = (.roundStarted, 0, 0, 0)) ∧
    (let r := (start exBetZero).1.runL .i8 ⟨0⟩ [.ready, .payAnte, .payBlinds, .ready, .act none .bet 0, .act none .allin 0,
        .act none .pass 0, .act none .pass 0, .act none .raise 14]
     (r.1.cw, r.1.prev, r.2.lastRaise, r.1.players[3]?.map fun q => (q.stack, q.wager)) = (14, 7, 7, some (981, 14))) ∧
    (let r := (start exBetZero).1.runL .i8 ⟨0⟩ [.ready, .payAnte, .payBlinds, .ready, .act none .allin 0,
        .act none .pass 0, .act none .pass 0, .act none .raise 14]
     (r.1.cw, r.1.prev, r.2.lastRaise, r.1.players[3]?.map fun q => (q.stack, q.wager)) = (995, 995, 995, some (0, 995))) := by
  decide

/-! ## Unconditional forms of the raise clauses (gaps found by review)

  `raise_exact`, `raise_undersized` and `raise_over_stack` carry the hypothesis `hr : Act.raise ∈ p.allowed`.  The
  property text has no such hypothesis, and the numeric hypotheses do not imply it (`exNotOffered` below: the
  minimum bet is the dealer blind 100, the big blind seat holds 50 and is offered all-in and check only).  The
  theorems below say exactly when raise is offered, and what `Raise(x)` does in EVERY case. -/

/-- (a) When raise is offered: for a player to act who has not folded and has chips, raise is in the offered
    list exactly when a wager stands that the player is behind and holds more than wager-to-match + minimum raise,
    or a wager stands that the player is level with and the player holds at least the minimum bet (the exact
    branch conditions of `GetAvailableActions`). -/
theorem raise_offered_iff {g : Game} {p : Player} (h : AtTurn g p) (hf : p.fold = false) (hs : p.stack ≠ 0) :
    Act.raise ∈ p.allowed ↔
      (p.wager < g.cw ∧ p.initial > g.cw + g.prev) ∨ (p.wager = g.cw ∧ p.initial ≥ g.miniBet ∧ g.cw ≠ 0) := by
  rw [h.allowed_eq]
  obtain ⟨_, _, _, _, _, _, _, m7⟩ := avail_mem (g := g) hf hs
  have hwle := h.chips.wle p h.mem
  have hprev := h.chips.prev0
  rw [m7]
  constructor
  · rintro (⟨a, b, _⟩ | ⟨a, b, c⟩)
    · exact Or.inl ⟨a, b⟩
    · exact Or.inr ⟨by omega, b, c⟩
  · rintro (⟨a, b⟩ | ⟨a, b, c⟩)
    · exact Or.inl ⟨a, b, by omega⟩
    · exact Or.inr ⟨by omega, b, c⟩

/-- … and a folded or all-in seat is never offered raise. -/
theorem raise_not_offered_passive {g : Game} {p : Player} (h : AtTurn g p) (hp : p.fold = true ∨ p.stack = 0) :
    Act.raise ∉ p.allowed := by
  rw [h.allowed_eq, avail_pass_only g p hp]; simp

/-- (e) When raise is NOT offered to the player to act, `Raise(x)` is refused with `ErrInvalidAction` and the state
    is returned exactly as it was — for every amount `x` and every seat designation. -/
theorem raise_not_offered_refused {g : Game} {p : Player} (h : AtTurn g p) (hr : Act.raise ∉ p.allowed)
    (seat : Option Nat) (x : Int) : g.step (.act seat .raise x) = (g, some .invalidAction) :=
  step_not_offered h hr seat x

/-- … and so is `Raise(x)` addressed to any seat other than the one to act (C04). -/
theorem raise_other_seat_refused {g : Game} (h : Reachable g) {seat : Option Nat} (hs : ¬ ByCur g seat) (x : Int) :
    g.step (.act seat .raise x) = (g, some .invalidAction) :=
  step_other_seat (inv_reachable h) hs .raise x

/-- (e) First sentence, first half, WITHOUT assuming that raise is offered: in no-limit play, at any decision point,
    a raise request by the player to act to a level `x` with `cw < x < p.initial` and `x − cw ≥ prev` is either
    carried out exactly (accepted; `x` is the new wager to match and the raiser's wager, the raiser is the last
    raiser, `x − cw` the new minimum) — this is the case exactly when raise is offered (`raise_offered_iff`) — or,
    when raise is not offered, refused with `ErrInvalidAction` leaving the state untouched.  Nothing else can
    happen. -/
theorem raise_exact_unconditional {g : Game} {p : Player} (h : AtTurn g p) (hnl : g.opts.potLimit = false)
    {seat : Option Nat} (hs : ByCur g seat) {x : Int} (hx1 : g.cw < x) (hx2 : x < p.initial) (hx3 : x - g.cw ≥ g.prev) :
    (Act.raise ∈ p.allowed ∧
      (g.step (.act seat .raise x)).2 = none ∧ (g.step (.act seat .raise x)).1.cw = x ∧
      (g.step (.act seat .raise x)).1.raiser = g.cur ∧ (g.step (.act seat .raise x)).1.prev = x - g.cw ∧
      ∃ q, (g.step (.act seat .raise x)).1.players[g.cur]? = some q ∧ q.wager = x ∧
        q.stack = p.initial - x ∧ q.pot = p.pot ∧ q.bankroll = p.bankroll) ∨
    (Act.raise ∉ p.allowed ∧ g.step (.act seat .raise x) = (g, some .invalidAction)) := by
  by_cases hr : Act.raise ∈ p.allowed
  · exact Or.inl ⟨hr, raise_exact h hnl hr hs hx1 hx2 hx3⟩
  · exact Or.inr ⟨hr, raise_not_offered_refused h hr seat x⟩

/-- (b) First sentence, second half, WITHOUT assuming that raise is offered and for EVERY seat designation: at any
    decision point, for any level `x` above the wager to match that would lift it by less than the previous bet or
    raise (`cw < x`, `x − cw < prev`), `Raise(x)` is either refused with the state returned exactly as it was, or
    accepted and carried out as an all-in of the player to act (stack 0, the whole round-start stack wagered, the
    wager to match becoming that amount if it is larger) — never as an undersized raise.  The second alternative
    occurs exactly when the request is addressed to the seat to act and raise is offered. -/
theorem raise_undersized_unconditional {g : Game} {p : Player} (h : AtTurn g p) (seat : Option Nat) {x : Int}
    (hx1 : g.cw < x) (hx3 : x - g.cw < g.prev) :
    (g.step (.act seat .raise x) = (g, some .invalidAction) ∧ ¬ (ByCur g seat ∧ Act.raise ∈ p.allowed)) ∨
    ((ByCur g seat ∧ Act.raise ∈ p.allowed) ∧ (g.step (.act seat .raise x)).2 = none ∧
      (g.step (.act seat .raise x)).1.cw = (if p.initial > g.cw then p.initial else g.cw) ∧
      ∃ q, (g.step (.act seat .raise x)).1.players[g.cur]? = some q ∧ q.stack = 0 ∧ q.wager = p.initial) := by
  by_cases hs : ByCur g seat
  · by_cases hr : Act.raise ∈ p.allowed
    · right
      refine ⟨⟨hs, hr⟩, ?_⟩
      rw [h.allowed_eq] at hr
      rw [step_byCur hs, act_raise_dispatch h hr hx1, if_pos (Or.inr hx3)]
      obtain ⟨q, hq, e1, e2, _, _, _, e6⟩ := doAllin_effect h
      exact ⟨rfl, e6, q, hq, e1, e2⟩
    · exact Or.inl ⟨raise_not_offered_refused h hr seat x, fun c => hr c.2⟩
  · exact Or.inl ⟨raise_other_seat_refused h.reach hs x, fun c => hs c.1⟩

/-- the same in the property's own words: put all-in, or refused — in every case -/
theorem raise_undersized_never {g : Game} {p : Player} (h : AtTurn g p) (seat : Option Nat) {x : Int}
    (hx1 : g.cw < x) (hx3 : x - g.cw < g.prev) :
    (∃ q, (g.step (.act seat .raise x)).1.players[g.cur]? = some q ∧ q.stack = 0 ∧ q.wager = p.initial) ∨
    ((g.step (.act seat .raise x)).2 ≠ none ∧ (g.step (.act seat .raise x)).1 = g) := by
  rcases raise_undersized_unconditional h seat hx1 hx3 with ⟨e, _⟩ | ⟨_, _, _, hq⟩
  · exact Or.inr (by rw [e]; exact ⟨by simp, rfl⟩)
  · exact Or.inl hq

/-- (c) The boundary `x = cw` (neither "below the current wager" nor a lift): `Raise(cw)` by the player to act is
    carried out EXACTLY as `Call` — same resulting state, same (absent) error — when both raise and call are
    offered, i.e. when the player is behind the wager to match and holds more than wager-to-match + minimum raise;
    in every other case (raise not offered; or raise offered to a player who is level with the wager to match,
    who is not offered call) it is refused with `ErrInvalidAction` and the state is returned as it was.
    (`effect_call` of C11 then says what the call does.)  -/
theorem raise_to_current {g : Game} {p : Player} (h : AtTurn g p) {seat : Option Nat} (hs : ByCur g seat) :
    (Act.raise ∈ p.allowed ∧ Act.call ∈ p.allowed →
      ∀ y : Int, g.step (.act seat .raise g.cw) = g.step (.act seat .call y) ∧ (g.step (.act seat .call y)).2 = none) ∧
    (¬ (Act.raise ∈ p.allowed ∧ Act.call ∈ p.allowed) →
      g.step (.act seat .raise g.cw) = (g, some .invalidAction)) := by
  constructor
  · rintro ⟨hr, hc⟩ y
    rw [h.allowed_eq] at hr hc
    rw [step_byCur hs, step_byCur hs]
    exact ⟨act_raise_cw_eq_call h hr hc y, act_accepted_of_allows y (h.allows_of hc) (by simp) (by simp)⟩
  · intro hn
    by_cases hr : Act.raise ∈ p.allowed
    · have hc : Act.call ∉ p.allowed := fun hc => hn ⟨hr, hc⟩
      rw [h.allowed_eq] at hr hc
      rw [step_byCur hs]
      exact act_raise_cw_no_call h hr hc
    · exact raise_not_offered_refused h hr seat g.cw

/-- when both are offered (companion to `raise_to_current`): exactly the first raise situation -/
theorem raise_and_call_offered_iff {g : Game} {p : Player} (h : AtTurn g p) (hf : p.fold = false) (hs : p.stack ≠ 0) :
    (Act.raise ∈ p.allowed ∧ Act.call ∈ p.allowed) ↔ (p.wager < g.cw ∧ p.initial > g.cw + g.prev) := by
  rw [raise_offered_iff h hf hs, h.allowed_eq]
  obtain ⟨_, _, _, _, _, m5, _, _⟩ := avail_mem (g := g) hf hs
  have hprev := h.chips.prev0
  rw [m5]
  constructor
  · rintro ⟨(a | ⟨a, _, _⟩), b, _⟩
    · exact a
    · omega
  · rintro ⟨a, b⟩
    exact ⟨Or.inl ⟨a, b⟩, a, by omega⟩

/-- (d) Last sentence, "… can make a wager, stack or POT negative": after EVERY operation on every reachable state —
    any action by any seat with any integer amount, accepted or refused — every published pot (`Status.Pots`) has a
    non-negative total.  (The pots are only rewritten by `updatePots`, from per-player totals `pot + wager ≥ 0`;
    C16 `pot_total`.) -/
theorem pots_nonneg {g : Game} (h : Reachable g) (op : Op) : ∀ pt ∈ (g.step op).1.pots, 0 ≤ pt.total :=
  pn_reachable (h.step op)

/-- `pots_nonneg` with the amount spelled out, together with the per-player pot accounts (`amounts_safe`) -/
theorem pots_nonneg_act {g : Game} (h : Reachable g) (seat : Option Nat) (a : Act) (x : Int) :
    (∀ pt ∈ (g.step (.act seat a x)).1.pots, 0 ≤ pt.total) ∧ (∀ q ∈ (g.step (.act seat a x)).1.players, 0 ≤ q.pot) :=
  ⟨pots_nonneg h _, fun q hq => (amounts_safe_act h seat a x q hq).2.2.1⟩

/-! ### Non-vacuity -/

/-- The reviewer's witness: dealer blind 100 > big blind 10, so the minimum bet is 100; the dealer (8 chips) is all-in
    on the blind, the small blind calls, the big blind seat (50 chips, 10 posted) is level with the wager to match and
    holds less than the minimum bet: it is offered all-in and check only. -/
def exNotOffered : Game :=
  (start (Ex.cfg (Ex.opts 0 100 5 10) 8 1000 50)).1.run [.ready, .payBlinds, .ready, .act none .pass 0, .act none .call 0]

theorem exNotOffered_reach : Reachable exNotOffered := reachable_run ⟨Ex.optsOK _ _ _ _ (by decide)⟩ (by decide) _

/-- The numeric hypotheses of `raise_exact` hold for `Raise(30)` (`10 < 30 < 50`, `30 − 10 ≥ 10`, no-limit) but raise
    is not offered: the request is refused with `ErrInvalidAction` and nothing changes (`raise_exact_unconditional`,
    second alternative).  `Raise(15)` — an undersized request — is refused likewise (`raise_undersized_unconditional`,
    first alternative). -/
example : AtTurn exNotOffered (exNotOffered.players[2]) ∧ exNotOffered.opts.potLimit = false ∧
    (exNotOffered.cw, exNotOffered.prev, exNotOffered.miniBet, (exNotOffered.players[2]).initial,
      (exNotOffered.players[2]).wager) = (10, 10, 100, 50, 10) ∧
    (exNotOffered.players[2]).allowed = [.allin, .check] ∧
    exNotOffered.step (.act none .raise 30) = (exNotOffered, some .invalidAction) ∧
    exNotOffered.step (.act none .raise 15) = (exNotOffered, some .invalidAction) :=
  ⟨⟨exNotOffered_reach, by decide, rfl⟩, by decide, by decide, by decide,
   raise_not_offered_refused ⟨exNotOffered_reach, by decide, rfl⟩ (by decide) none 30,
   raise_not_offered_refused ⟨exNotOffered_reach, by decide, rfl⟩ (by decide) none 15⟩

/-- `raise_to_current` at `Ex.g4` (seat 2 faces a bet of 30, both raise and call offered): `Raise(30)` is the call;
    at the big blind's option (`Ex.g1` after two calls: raise offered, call not) `Raise(10)` is refused. -/
example : Act.raise ∈ (Ex.g4.players[2]).allowed ∧ Act.call ∈ (Ex.g4.players[2]).allowed ∧ Ex.g4.cw = 30 ∧
    (Ex.g4.step (.act none .raise 30)).2 = none ∧
    ((Ex.g4.step (.act none .raise 30)).1.players[2]?.map fun q => (q.stack, q.wager)) = some (960, 30) ∧
    (Ex.g4.step (.act none .raise 30)).1.prev = 30 := by decide
example : let g := Ex.g1.run [.act none .call 0, .act none .call 0]
    AtTurn g (g.players[2]) ∧ Act.raise ∈ (g.players[2]).allowed ∧ Act.call ∉ (g.players[2]).allowed ∧ g.cw = 10 ∧
    (g.step (.act none .raise 10)).2 = some .invalidAction :=
  ⟨⟨Ex.reach_g1.run _, by decide, rfl⟩, by decide, by decide, by decide, by decide⟩

/-- `pots_nonneg`: while the flop round of `exGhost` is played the pot of the preflop round (30) stays published —
    also after a refused `Bet(-7)` —, and when the round closes (call, pass of the all-in seat) one pot of 300 is -/
example : (((start exGhost).1.run exGhostOps).pots.map (·.total)) = [30] ∧
    (((start exGhost).1.run (exGhostOps ++ [.act none .bet (-7)])).pots.map (·.total)) = [30] ∧
    (((start exGhost).1.run (exGhostOps ++ [.act none .call 0, .act none .pass 0])).pots.map (·.total)) = [300] ∧
    ((start exGhost).1.run (exGhostOps ++ [.act none .call 0, .act none .pass 0])).event = .roundClosed := by decide

end Pokerface.C12
