import Pokerface.Proofs.BetsMono
import Pokerface.Proofs.BetsPhase
import Pokerface.Proofs.BetsExamples
/-
  C12 — Raise sizes obey the minimum-raise rule and amounts cannot corrupt chips.
  Setting as in C11 (`AtTurn g p`); `x` is the amount argument of `Raise(x)` / `Bet(x)`,
  any integer.
-/
namespace Pokerface.C12
open Pokerface Game

/-- Last sentence: "no amount argument whatsoever - zero, negative, tiny or larger than the stack -
    can make a wager, stack or pot negative or lift a stack above the player's bankroll."
    For EVERY reachable state and EVERY operation of the alphabet (in particular every action `a`, by
    the seat to act or by any explicitly named seat, with every integer amount `x`), accepted or refused,
    the state afterwards satisfies the whole chip invariant: per player stack, wager and pot are not
    negative, bankroll = stack + wager + pot (hence stack ≤ bankroll), stack = round-start stack − wager;
    the round pot is the sum of the wagers (hence not negative); wager to match and minimum raise are
    not negative. -/
theorem amounts_safe {g : Game} (h : Reachable g) (op : Op) :
    (∀ q ∈ (g.step op).1.players,
      0 ≤ q.stack ∧ 0 ≤ q.wager ∧ 0 ≤ q.pot ∧ q.stack ≤ q.bankroll ∧
      q.bankroll = q.stack + q.wager + q.pot ∧ q.stack = q.initial - q.wager) ∧
    (g.step op).1.roundPot = (g.step op).1.wagerSum ∧ 0 ≤ (g.step op).1.roundPot ∧
    0 ≤ (g.step op).1.cw ∧ 0 ≤ (g.step op).1.prev := by
  have hi := inv_step g (inv_reachable h) op
  have ok := hi.chips0
  refine ⟨?_, ok.rp, ?_, ok.cw0, ok.prev0⟩
  · intro q hq
    have hq := ok.pinv q hq
    have := hq.split; have := hq.stack0; have := hq.wager0; have := hq.pot0; have := hq.rebase
    omega
  · rw [ok.rp]
    apply sum_nonneg
    intro x hx
    obtain ⟨q, hq, rfl⟩ := List.mem_map.mp hx
    exact (ok.pinv q hq).wager0

/-- `amounts_safe` with the amount argument spelled out: any action, any seat designation, any integer. -/
theorem amounts_safe_act {g : Game} (h : Reachable g) (seat : Option Nat) (a : Act) (x : Int) :
    ∀ q ∈ (g.step (.act seat a x)).1.players,
      0 ≤ q.stack ∧ 0 ≤ q.wager ∧ 0 ≤ q.pot ∧ q.stack ≤ q.bankroll :=
  fun q hq => let ⟨a, b, c, d, _⟩ := (amounts_safe h (.act seat a x)).1 q hq; ⟨a, b, c, d⟩

/-- "a request below the current wager is refused": `Raise(x)` with `x = 0` or `x` below the wager to
    match returns an error and leaves the state untouched — in every state whatsoever and for every
    seat designation (`ErrIllegalRaise` when raise is offered, `ErrInvalidAction` otherwise). -/
theorem raise_below_refused (g : Game) (seat : Option Nat) (x : Int) (hx : x = 0 ∨ x < g.cw) :
    (g.step (.act seat .raise x)).2 ≠ none ∧ (g.step (.act seat .raise x)).1 = g := by
  have key : ∀ i, (g.act i .raise x).2 ≠ none ∧ (g.act i .raise x).1 = g := by
    intro i
    unfold Game.act
    simp only
    split
    · exact ⟨by simp, rfl⟩
    · exact ⟨by simp, rfl⟩
  cases seat with
  | none => exact key _
  | some i => exact key i


/-- First sentence, first half: "In no-limit play a raise request to a level below the player's stack
    [reading I6: below the stack at the start of the round, `p.initial`] that lifts the wager to match by at
    least the size of the previous bet or raise of the round (the big blind before any) is carried out
    exactly - that level becomes the wager to match, the raiser the last raiser and the increment the new
    minimum".  Hypotheses: decision point of `p` (`AtTurn`), no-limit, raise is offered, the request is
    addressed to the seat to act, `cw < x < p.initial`, `x − cw ≥ prev`.  Conclusion: accepted; the new wager
    to match is `x`; the last raiser is the acting seat; the new minimum raise is `x − cw`; the raiser's wager
    is `x` (and only their stack paid for it). -/
theorem raise_exact {g : Game} {p : Player} (h : AtTurn g p) (hnl : g.opts.potLimit = false)
    (hr : Act.raise ∈ p.allowed) {seat : Option Nat} (hs : ByCur g seat) {x : Int}
    (hx1 : g.cw < x) (hx2 : x < p.initial) (hx3 : x - g.cw ≥ g.prev) :
    (g.step (.act seat .raise x)).2 = none ∧
    (g.step (.act seat .raise x)).1.cw = x ∧
    (g.step (.act seat .raise x)).1.raiser = g.cur ∧
    (g.step (.act seat .raise x)).1.prev = x - g.cw ∧
    ∃ q, (g.step (.act seat .raise x)).1.players[g.cur]? = some q ∧ q.wager = x ∧
      q.stack = p.initial - x ∧ q.pot = p.pot ∧ q.bankroll = p.bankroll := by
  rw [h.allowed_eq] at hr
  rw [step_byCur hs, act_raise_dispatch h hr hx1]
  have : ¬ (x ≥ p.initial ∨ x - g.cw < g.prev) := by omega
  rw [if_neg this]
  obtain ⟨q, hq, e1, e2, e3, e4, e5, e6, e7⟩ := doRaise_effect h hnl hx1 hx2
  exact ⟨rfl, e2, e4, e3, q, hq, e1, e5, e6, e7⟩

/-- First sentence, second half: "a request that would lift it by less is never carried out as an
    undersized raise (the player is put all-in or refused)".  The model (as the Go code) always takes the
    first alternative: the request is accepted and carried out as `Allin` — stack 0, the whole round-start
    stack wagered.  Holds for no-limit and pot-limit alike. -/
theorem raise_undersized {g : Game} {p : Player} (h : AtTurn g p)
    (hr : Act.raise ∈ p.allowed) {seat : Option Nat} (hs : ByCur g seat) {x : Int}
    (hx1 : g.cw < x) (hx3 : x - g.cw < g.prev) :
    (g.step (.act seat .raise x)).2 = none ∧
    ∃ q, (g.step (.act seat .raise x)).1.players[g.cur]? = some q ∧ q.stack = 0 ∧ q.wager = p.initial := by
  rw [h.allowed_eq] at hr
  rw [step_byCur hs, act_raise_dispatch h hr hx1, if_pos (Or.inr hx3)]
  obtain ⟨q, hq, e1, e2, _⟩ := doAllin_effect h
  exact ⟨rfl, q, hq, e1, e2⟩

/-- The same statement in the disjunctive wording of the property (all-in, or refused without effect). -/
theorem raise_undersized' {g : Game} {p : Player} (h : AtTurn g p)
    (hr : Act.raise ∈ p.allowed) {seat : Option Nat} (hs : ByCur g seat) {x : Int}
    (hx1 : g.cw < x) (hx3 : x - g.cw < g.prev) :
    (∃ q, (g.step (.act seat .raise x)).1.players[g.cur]? = some q ∧ q.stack = 0 ∧ q.wager = p.initial) ∨
    ((g.step (.act seat .raise x)).2 ≠ none ∧ (g.step (.act seat .raise x)).1 = g) :=
  Or.inl (raise_undersized h hr hs hx1 hx3).2

/-- Companion (reading I6): a request at or above the round-start stack is carried out as all-in too. -/
theorem raise_over_stack {g : Game} {p : Player} (h : AtTurn g p)
    (hr : Act.raise ∈ p.allowed) {seat : Option Nat} (hs : ByCur g seat) {x : Int}
    (hx1 : g.cw < x) (hx2 : p.initial ≤ x) :
    (g.step (.act seat .raise x)).2 = none ∧
    ∃ q, (g.step (.act seat .raise x)).1.players[g.cur]? = some q ∧ q.stack = 0 ∧ q.wager = p.initial := by
  rw [h.allowed_eq] at hr
  rw [step_byCur hs, act_raise_dispatch h hr hx1, if_pos (Or.inl hx2)]
  obtain ⟨q, hq, e1, e2, _⟩ := doAllin_effect h
  exact ⟨rfl, q, hq, e1, e2⟩

/-- "The wager to match never goes down within a round": no operation other than `Next()` and `PayAnte()`
    ever lowers it — in every state, for every action, seat designation and amount. -/
theorem cw_monotone (g : Game) (op : Op) (h1 : op ≠ .next) (h2 : op ≠ .payAnte) : g.cw ≤ (g.step op).1.cw := by
  unfold Game.step
  cases op with
  | ready => simp only; rw [readyForAll_cw]; exact Int.le_refl _
  | payAnte => exact absurd rfl h2
  | payBlinds => exact payBlinds_cw_mono g
  | next => exact absurd rfl h1
  | act seat a x =>
    cases seat with
    | none => exact act_cw_mono g _ a x
    | some i => exact act_cw_mono g i a x

/-- The two exceptions are not "within a round": `Next()` either does nothing or sets the wager to match
    to 0 while it changes the street or closes the hand; `PayAnte()` either leaves it alone or opens the
    preflop round with it at 0. -/
theorem cw_reset_only_between_rounds (g : Game) :
    ((g.step .next).1 = g ∨ ((g.step .next).1.cw = 0 ∧
       ((g.step .next).1.round ≠ g.round ∨ (g.step .next).1.event = .gameClosed))) ∧
    ((g.step .payAnte).1.cw = g.cw ∨ ((g.step .payAnte).1.cw = 0 ∧ (g.step .payAnte).1.round = .preflop)) :=
  ⟨next_cw g, payAnte_cw g⟩

/-- "The wager to match never goes down within a round", for all histories: in every reachable state, EVERY
    operation (any action, seat, amount; accepted or refused) that leaves the hand in the same round and does not
    close the hand leaves the wager to match at least as high as it was.  (`Next()` resets it only when it moves to
    another street or closes the hand; `PayAnte()` only when it opens the preflop round from "no round yet".) -/
theorem cw_monotone_within_round {g : Game} (h : Reachable g) (op : Op)
    (hround : (g.step op).1.round = g.round) (hopen : (g.step op).1.event ≠ .gameClosed) :
    g.cw ≤ (g.step op).1.cw := by
  by_cases h1 : op = .next
  · subst h1
    rcases next_cw g with h2 | ⟨_, h3 | h3⟩
    · show g.cw ≤ g.next.1.cw; rw [h2]; exact Int.le_refl _
    · exact absurd hround h3
    · exact absurd h3 hopen
  · by_cases h2 : op = .payAnte
    · subst h2
      rcases payAnte_cw' g with h3 | ⟨he, _, hr⟩
      · show g.cw ≤ g.payAnte.1.cw; rw [h3]; exact Int.le_refl _
      · have := ((phase_reachable h).ante he).1
        have hr' : g.payAnte.1.round = g.round := hround
        rw [hr, this] at hr'; cases hr'
    · exact cw_monotone g op h1 h2

/-! Non-vacuity. `Ex.g4`: flop, seat 2 faces a bet of 30 (minimum raise 30) with 990 behind. -/
example : AtTurn Ex.g4 (Ex.g4.players[2]) ∧ Ex.g4.opts.potLimit = false ∧ Act.raise ∈ (Ex.g4.players[2]).allowed ∧
    Ex.g4.cw = 30 ∧ Ex.g4.prev = 30 ∧ (Ex.g4.players[2]).initial = 990 :=
  ⟨⟨Ex.reach_g4, by decide, rfl⟩, by decide, by decide, by decide, by decide, by decide⟩
/-- exact minimum raise to 60, an undersized request to 45, a request below the wager to match -/
example : (Ex.g4.step (.act none .raise 60)).1.cw = 60 ∧ (Ex.g4.step (.act none .raise 60)).1.prev = 30 ∧
    ((Ex.g4.step (.act none .raise 45)).1.players[2]?.map (·.stack)) = some 0 ∧
    (Ex.g4.step (.act none .raise 20)).2 = some .illegalRaise := by decide
/-- within a round: the raise keeps the flop open; `Next()` after the round closes moves on and resets -/
example : (Ex.g4.step (.act none .raise 60)).1.round = Ex.g4.round ∧
    (Ex.g4.step (.act none .raise 60)).1.event ≠ .gameClosed ∧ Ex.g4.cw = 30 := by decide
/-- amounts: a negative bet is refused, a huge one is an all-in -/
example : (Ex.g2.step (.act none .bet (-5))).2 = some .invalidAction ∧
    ((Ex.g2.step (.act none .bet 1000000)).1.players[1]?.map (fun q => (q.stack, q.wager))) = some (0, 990) := by decide

/-! ## FINDING (reproduced on the Go code): an oversized `Bet` inflates the recorded minimum raise

  `raise_exact` / `raise_undersized` are stated with `g.prev`, the RECORDED `PreviousRaiseSize`.  The property
  text speaks of "the size of the previous bet or raise of the round".  The two differ after `Bet(x)` with `x`
  above the bettor's stack: the bettor is all-in for the stack, but `PreviousRaiseSize := x` (player.go `Bet`).
  A natural consequence of "prev is the size of the last bet or raise" — after the flop the recorded minimum
  raise never exceeds the wager to match — was FALSE of the model and of the Go code before the repair of D11: -/

/-- the full reading: postflop, the recorded minimum raise is at most the wager to match -/
def prev_is_actual_size_full : Prop :=
  ∀ g, Reachable g → g.event = .roundStarted → g.round = .flop → g.prev ≤ g.cw

/-- dealer 3,000,000, small blind 1000, big blind 5000; blinds 5/10 -/
def exOversized : Config := Ex.cfg (Ex.opts 0 0 5 10) 3000000 1000 5000
/-- flop after call, call, check; seat 1 (stack 990) does `Bet(1000000)` -/
def exOversizedBet : Game :=
  (start exOversized).1.run [.ready, .payBlinds, .ready, .act none .call 0, .act none .call 0, .act none .check 0,
    .next, .ready, .act none .bet 1000000]

/-- The witness that falsified this statement before the repair ("fix: Bet records the amount
    actually wagered as the minimum raise", DESIGN §7 D11): the 990 stack does `Bet(1000000)`.  The
    recorded minimum raise is now the 990 actually put in, the next seat is offered a raise, and
    `Raise(1980)` — a raise by exactly the size of the bet — is carried out exactly.  (A test on one
    history, not the general statement; the general statement `prev_is_actual_size_full` is kept
    above as a `Prop`.) -/
example : exOversizedBet.cw = 990 ∧ exOversizedBet.prev = 990 ∧ exOversizedBet.cur = 2 ∧
    (exOversizedBet.players[2]?.map (·.allowed)) = some [.allin, .fold, .call, .raise] ∧
    (exOversizedBet.step (.act none .raise 1980)).2 = none ∧
    ((exOversizedBet.run [.act none .raise 1980]).cw = 1980) ∧
    ((exOversizedBet.run [.act none .raise 1980]).prev = 990) ∧
    (((exOversizedBet.run [.act none .raise 1980]).players[2]?.map (fun q => (q.stack, q.wager)))
      = some (3010, 1980)) := by decide

end Pokerface.C12
