import Pokerface.Proofs.SettleTie
import Pokerface.Proofs.GapsBSettle
/-
  C02 — "Showdown pays the right players the right amounts".

  `settle seats` is the model of the showdown: `potsOf` (pot.go `updatePots`: one `AddContributor`
  per seat, then `GetPots`) followed by `gameResults` (settlement.go `CalculateGameResults`:
  `AddPot` per pot, `AddPlayer` + `UpdateScore` per seat with folded players entering with
  score 0, then `Calculate`).  Every theorem holds for EVERY list of seats with distinct idx,
  contributions ≥ 0 and strengths > 0 for the non-folded players (`Valid`, reading I4):
  any number of seats, any number of all-in levels, folded players at any level, any ties.
  The bankroll column is arbitrary.
-/
namespace Pokerface.C02
open Pokerface

/-- One player at showdown: seat index, stack behind, chips put in, fold flag, hand strength. -/
structure Seat where
  idx : Nat
  bankroll : Int
  contrib : Int
  folded : Bool
  score : Int
deriving DecidableEq, Repr

/-- Entries given to the pot package. -/
def entriesOf (ss : List Seat) : List (Nat × Int × Bool) := ss.map fun s => (s.idx, s.contrib, s.folded)

/-- Rows given to `CalculateGameResults` (same players, same order). -/
def rowsOf (ss : List Seat) : List (Nat × Int × Bool × Int) := ss.map fun s => (s.idx, s.bankroll, s.folded, s.score)

/-- Domain of C02 (I4): distinct idx, contributions ≥ 0, non-folded strengths > 0. -/
def Valid (ss : List Seat) : Prop :=
  (ss.map (·.idx)).Nodup ∧ ∀ s ∈ ss, 0 ≤ s.contrib ∧ (s.folded = false → 0 < s.score)

instance (ss : List Seat) : Decidable (Valid ss) := by unfold Valid; infer_instance

/-- The showdown. -/
def settle (ss : List Seat) : Result := gameResults (potsOf (entriesOf ss)) (rowsOf ss)

/-- Net win/loss of player `i` (`Result.Players[].Changed`). -/
def changed (ss : List Seat) (i : Nat) : Int := chg (settle ss).players i

/-- Chips player `i` has in the pot `pr`: the wagers of its levels that `i` contributes to. -/
def potStake (pr : PotResult) (i : Nat) : Int :=
  ((pr.levels.filter (fun l => l.contributors.contains i)).map (·.wager)).sum

/-- Share of the pot `pr` received by `i`: net amount from that pot (`potNetOf`: the model's own
    `settlePot` run for `i` alone) plus `i`'s stake in it.  `changed_eq_sum_pots` shows that the
    net amounts add up to `changed`. -/
def potShare (pr : PotResult) (i : Nat) : Int := potNetOf pr i + potStake pr i

/-! ### bridge -/

theorem gameIn {ss : List Seat} (h : Valid ss) : GameIn (entriesOf ss) (rowsOf ss) := by
  refine ⟨?_, ?_, ?_, ?_⟩
  · simpa [entriesOf, List.map_map, Function.comp_def] using h.1
  · intro e he
    obtain ⟨s, hs, rfl⟩ := List.mem_map.1 he
    exact (h.2 s hs).1
  · simp [entriesOf, rowsOf, List.map_map, Function.comp_def]
  · intro r hr hf
    obtain ⟨s, hs, rfl⟩ := List.mem_map.1 hr
    exact (h.2 s hs).2 hf

theorem mem_entries {ss : List Seat} {s : Seat} (hs : s ∈ ss) : (s.idx, s.contrib, s.folded) ∈ entriesOf ss :=
  List.mem_map.2 ⟨s, hs, rfl⟩

theorem mem_rows {ss : List Seat} {s : Seat} (hs : s ∈ ss) : (s.idx, s.bankroll, s.folded, s.score) ∈ rowsOf ss :=
  List.mem_map.2 ⟨s, hs, rfl⟩

theorem chg_self (ps : List PlayerResult) (hn : (ps.map (·.idx)).Nodup) {p : PlayerResult} (hp : p ∈ ps) :
    chg ps p.idx = p.changed := by
  induction ps with
  | nil => simp at hp
  | cons q qs ih =>
    simp only [List.map_cons, List.nodup_cons] at hn
    rw [chg_cons]
    simp only [List.mem_cons] at hp
    rcases hp with rfl | hp
    · simp
    · have : q.idx ≠ p.idx := fun e => hn.1 (e ▸ List.mem_map.2 ⟨p, hp, rfl⟩)
      simp only [this, if_false]
      exact ih hn.2 hp

/-! ### the property -/

/-- The result lists exactly the seats, in order. -/
theorem players_listed (ss : List Seat) : (settle ss).players.map (·.idx) = ss.map (·.idx) := by
  unfold settle
  rw [players_idx]; simp [rowsOf, List.map_map, Function.comp_def]

/-- `final_eq`: every player's final stack is the bankroll plus `changed`; the result list is
    exactly one record per seat carrying `changed` and that final stack. -/
theorem final_eq (ss : List Seat) (h : Valid ss) :
    (settle ss).players
      = ss.map (fun s => ({ idx := s.idx, finalStack := s.bankroll + changed ss s.idx,
                            changed := changed ss s.idx } : PlayerResult)) := by
  have hb := players_base (entriesOf ss) (rowsOf ss)
  have hn : ((settle ss).players.map (·.idx)).Nodup := by rw [players_listed]; exact h.1
  have h1 : (settle ss).players = (settle ss).players.map (fun p =>
      ({ idx := p.idx, finalStack := (p.finalStack - p.changed) + chg (settle ss).players p.idx,
         changed := chg (settle ss).players p.idx } : PlayerResult)) := by
    conv => lhs; rw [← List.map_id (settle ss).players]
    apply List.map_congr_left
    intro p hp
    rw [chg_self _ hn hp]
    cases p
    simp only [id, PlayerResult.mk.injEq, true_and, and_true]
    omega
  have h2 : (settle ss).players.map (fun p =>
      ({ idx := p.idx, finalStack := (p.finalStack - p.changed) + chg (settle ss).players p.idx,
         changed := chg (settle ss).players p.idx } : PlayerResult))
      = ((settle ss).players.map (fun p => (p.idx, p.finalStack - p.changed))).map (fun ib =>
        ({ idx := ib.1, finalStack := ib.2 + chg (settle ss).players ib.1,
           changed := chg (settle ss).players ib.1 } : PlayerResult)) := by
    rw [List.map_map]; rfl
  rw [h1, h2]
  show ((gameResults (potsOf (entriesOf ss)) (rowsOf ss)).players.map _).map _ = _
  rw [hb]
  simp only [rowsOf, List.map_map, Function.comp_def, changed, settle]

/-- `zero_sum`: the net results add up to zero — chips only move between players. -/
theorem zero_sum (ss : List Seat) (h : Valid ss) : (ss.map (fun s => changed ss s.idx)).sum = 0 := by
  have := total_zero_sum (gameIn h)
  have he := final_eq ss h
  unfold settle at he
  rw [he] at this
  simpa [List.map_map, Function.comp_def] using this

/-- `loses_at_most_stake`: nobody loses more than they put in. -/
theorem loses_at_most_stake (ss : List Seat) (h : Valid ss) (s : Seat) (hs : s ∈ ss) :
    -s.contrib ≤ changed ss s.idx :=
  total_lower (gameIn h) (mem_entries hs)

/-- `folded_wins_nothing`, first half: "a folded player wins nothing". -/
theorem folded_wins_nothing (ss : List Seat) (h : Valid ss) (s : Seat) (hs : s ∈ ss) (hf : s.folded = true) :
    changed ss s.idx ≤ 0 :=
  total_folded_le (gameIn h) (hf ▸ mem_entries hs)

/-- `folded_wins_nothing`, second half: a folded player loses the whole stake as soon as some
    non-folded player put in at least as much.  (Otherwise the part of the stake that nobody
    still in the hand covered comes back, cf. `excess_returned`.) -/
theorem folded_loses_stake (ss : List Seat) (h : Valid ss) (s : Seat) (hs : s ∈ ss) (hf : s.folded = true)
    (t : Seat) (ht : t ∈ ss) (htf : t.folded = false) (hle : s.contrib ≤ t.contrib) :
    changed ss s.idx = -s.contrib :=
  total_folded_eq (gameIn h) (hf ▸ mem_entries hs) (htf ▸ mem_entries ht) hle

/-- `no_gain_from_unpaid_layer`: "nobody wins from a layer they did not pay into (so a short all-in
    collects at most its own stake from each opponent)": `changed i ≤ Σ_{j≠i} min cⱼ cᵢ`. -/
theorem no_gain_from_unpaid_layer (ss : List Seat) (h : Valid ss) (s : Seat) (hs : s ∈ ss) :
    changed ss s.idx ≤ ((ss.filter (fun t => t.idx != s.idx)).map (fun t => min t.contrib s.contrib)).sum := by
  have := total_upper (gameIn h) (mem_entries hs)
  have hr : ((entriesOf ss).filter (fun e => e.1 != s.idx)).map (fun e => min e.2.1 s.contrib)
      = (ss.filter (fun t => t.idx != s.idx)).map (fun t => min t.contrib s.contrib) := by
    simp [entriesOf, List.filter_map, List.map_map, Function.comp_def]
  rw [hr] at this
  exact this

/-- `excess_returned`: "an uncalled excess goes back to its owner": if every other player put in at
    most `m < cᵢ`, player `i` loses at most `m` (with `m = max_{j≠i} cⱼ` this is the statement of
    DESIGN §6; stated for any such bound `m ≥ 0` so that a lone player is covered too). -/
theorem excess_returned (ss : List Seat) (h : Valid ss) (s : Seat) (hs : s ∈ ss) (m : Int) (hm : 0 ≤ m)
    (hothers : ∀ t ∈ ss, t.idx ≠ s.idx → t.contrib ≤ m) (hlt : m < s.contrib) :
    -m ≤ changed ss s.idx := by
  apply total_excess (gameIn h) (mem_entries hs) m hm hlt
  intro e he hne
  obtain ⟨t, ht, rfl⟩ := List.mem_map.1 he
  exact hothers t ht hne

/-- Largest contribution among the players other than `i` (0 when there is none). -/
def othersMax (ss : List Seat) (i : Nat) : Int :=
  ((ss.filter (fun t => t.idx != i)).map (·.contrib)).foldl max 0

theorem le_foldl_max (xs : List Int) (a : Int) : a ≤ xs.foldl max a ∧ ∀ x ∈ xs, x ≤ xs.foldl max a := by
  induction xs generalizing a with
  | nil => simp
  | cons y ys ih =>
    simp only [List.foldl_cons, List.mem_cons, forall_eq_or_imp]
    have := ih (max a y)
    refine ⟨by omega, by omega, this.2⟩

/-- `excess_returned` in the form of DESIGN §6: `cᵢ > max_{j≠i} cⱼ → changed i ≥ − max_{j≠i} cⱼ`. -/
theorem excess_returned_max (ss : List Seat) (h : Valid ss) (s : Seat) (hs : s ∈ ss)
    (hlt : othersMax ss s.idx < s.contrib) : -(othersMax ss s.idx) ≤ changed ss s.idx := by
  have hm := le_foldl_max ((ss.filter (fun t => t.idx != s.idx)).map (·.contrib)) 0
  apply excess_returned ss h s hs _ hm.1 _ hlt
  intro t ht hne
  apply hm.2
  apply List.mem_map.2
  exact ⟨t, List.mem_filter.2 ⟨ht, by simpa using hne⟩, rfl⟩

/-- The levels kept in the result are the contribution levels: the contributors of a level are
    the seats that put in at least that much. -/
theorem level_contributors (ss : List Seat) (h : Valid ss) (pr : PotResult) (hpr : pr ∈ (settle ss).pots)
    (li : LevelInfo) (hli : li ∈ pr.levels) (i : Nat) :
    i ∈ li.contributors ↔ ∃ s ∈ ss, s.idx = i ∧ li.level ≤ s.contrib := by
  have hlv := gameResults_pots_levels (potsOf (entriesOf ss)) (rowsOf ss)
  have : pr.levels ∈ (potsOf (entriesOf ss)).map (fun p => p.levels.map (toInfo (rowsOf ss))) := by
    rw [← hlv]; exact List.mem_map.2 ⟨pr, hpr, rfl⟩
  obtain ⟨l, hl, rfl⟩ := mem_all_levels this hli
  show i ∈ l.contributors ↔ _
  rw [(gameIn h).mem_level hl]
  constructor
  · rintro ⟨c, f, he, hle⟩
    obtain ⟨s, hs, hh⟩ := List.mem_map.1 he
    simp only [Prod.mk.injEq] at hh
    exact ⟨s, hs, hh.1, by rw [hh.2.1]; exact hle⟩
  · rintro ⟨s, hs, rfl, hle⟩
    exact ⟨_, _, mem_entries hs, hle⟩

/-- `level_winners`: "every layer of the pot goes to the best-ranked hand or hands among the
    non-folded players who paid into that layer": for every level kept in the result that has a
    non-folded contributor, the winner list of the level (rank.go `GetWinners`, the players who are
    credited by `CalculateWinnerRewards`; everybody else of the level is debited its wager by
    `CalculateLoserResults`) is exactly the set of non-folded contributors with the maximal score. -/
theorem level_winners (ss : List Seat) (h : Valid ss) (pr : PotResult) (hpr : pr ∈ (settle ss).pots)
    (li : LevelInfo) (hli : li ∈ pr.levels)
    (hex : ∃ t ∈ ss, t.folded = false ∧ li.level ≤ t.contrib) (i : Nat) :
    i ∈ levelWinners li ↔
      ∃ s ∈ ss, s.idx = i ∧ s.folded = false ∧ li.level ≤ s.contrib ∧
        ∀ t ∈ ss, t.folded = false → li.level ≤ t.contrib → t.score ≤ s.score := by
  have hcon := level_contributors ss h pr hpr li hli
  have hlv := gameResults_pots_levels (potsOf (entriesOf ss)) (rowsOf ss)
  have : pr.levels ∈ (potsOf (entriesOf ss)).map (fun p => p.levels.map (toInfo (rowsOf ss))) := by
    rw [← hlv]; exact List.mem_map.2 ⟨pr, hpr, rfl⟩
  obtain ⟨l, hl, rfl⟩ := mem_all_levels this hli
  have hcon' : ∀ i, i ∈ l.contributors ↔ ∃ s ∈ ss, s.idx = i ∧ l.level ≤ s.contrib := hcon
  have hex' : ∃ r ∈ rowsOf ss, r.1 ∈ l.contributors ∧ r.2.2.1 = false := by
    obtain ⟨t, ht, htf, hle⟩ := hex
    exact ⟨_, mem_rows ht, (hcon' t.idx).2 ⟨t, ht, rfl, hle⟩, htf⟩
  rw [level_winners_rows (gameIn h) hl hex']
  constructor
  · rintro ⟨r, hr, rfl, hc, hf, hmax⟩
    obtain ⟨s, hs, rfl⟩ := List.mem_map.1 hr
    obtain ⟨s', hs', he', hle'⟩ := (hcon' s.idx).1 hc
    have : s' = s := eq_of_nodup_map (·.idx) h.1 hs' hs he'
    subst this
    refine ⟨s', hs, rfl, hf, hle', ?_⟩
    intro t ht htf hle
    exact hmax _ (mem_rows ht) ((hcon' t.idx).2 ⟨t, ht, rfl, hle⟩) htf
  · rintro ⟨s, hs, rfl, hf, hle, hmax⟩
    refine ⟨_, mem_rows hs, rfl, (hcon' s.idx).2 ⟨s, hs, rfl, hle⟩, hf, ?_⟩
    intro r' hr' hc' hf'
    obtain ⟨t, ht, rfl⟩ := List.mem_map.1 hr'
    obtain ⟨t', ht', he', hle'⟩ := (hcon' t.idx).1 hc'
    have : t' = t := eq_of_nodup_map (·.idx) h.1 ht' ht he'
    subst this
    exact hmax t' ht hf' hle'

/-- What a level pays (complement of `level_winners`, for any incoming odd-chip offset of the pot):
    `settleLevel` applies exactly the update list `levelUpdates`, in which a player who is not a
    contributor of the level gets nothing, a contributor who is not a winner is debited the level's
    wager, and each of the `n` winners is credited the `n`-th part of the level's total (rounded
    down, plus at most one odd chip) minus its own wager. -/
theorem level_payout (ss : List Seat) (h : Valid ss) (pr : PotResult) (hpr : pr ∈ (settle ss).pots)
    (li : LevelInfo) (hli : li ∈ pr.levels) (a : Acc) (i : Nat) :
    (settleLevel a li).players = bumpAll a.players (levelUpdates li a.offset) ∧
    (i ∉ li.contributors → net (levelUpdates li a.offset) i = 0) ∧
    (i ∈ li.contributors → i ∉ levelWinners li → net (levelUpdates li a.offset) i = -li.wager) ∧
    (i ∈ levelWinners li →
      Int.tdiv li.total (levelWinners li).length - li.wager ≤ net (levelUpdates li a.offset) i ∧
      net (levelUpdates li a.offset) i ≤ Int.tdiv li.total (levelWinners li).length + 1 - li.wager) := by
  have hlv := gameResults_pots_levels (potsOf (entriesOf ss)) (rowsOf ss)
  have : pr.levels ∈ (potsOf (entriesOf ss)).map (fun p => p.levels.map (toInfo (rowsOf ss))) := by
    rw [← hlv]; exact List.mem_map.2 ⟨pr, hpr, rfl⟩
  obtain ⟨l, hl, rfl⟩ := mem_all_levels this hli
  exact ⟨settleLevel_players a _, level_payout_rows (gameIn h) hl a.offset i⟩

/-- The per-pot net amounts (`potNetOf`, the model's own `settlePot` run for one player) add up to
    `changed`: this is the per-pot decomposition that `tie_fair` speaks about. -/
theorem changed_eq_sum_pots (ss : List Seat) (h : Valid ss) (s : Seat) (hs : s ∈ ss) :
    changed ss s.idx = ((settle ss).pots.map (fun pr => potNetOf pr s.idx)).sum :=
  chg_eq_sum_potNet (gameIn h) (List.mem_map.2 ⟨_, mem_entries hs, rfl⟩)

/-- `tie_fair`: "Tied winners of the same pot split it equally, their shares differing by at most
    one chip".  `p` is the published pot at position `pre.length`, `pr` the result record at the same
    position; `si`, `sj` are non-folded players eligible for `p` (contribution ≥ its level) holding
    the same strength, which is the best among the non-folded eligible players.  The share of a pot
    is summed over all its levels (`potShare`). -/
theorem tie_fair (ss : List Seat) (h : Valid ss) (pre post : List Pot) (p : Pot)
    (hp : potsOf (entriesOf ss) = pre ++ p :: post)
    (pr : PotResult) (hpr : (settle ss).pots[pre.length]? = some pr)
    (si sj : Seat) (hi : si ∈ ss) (hj : sj ∈ ss)
    (hfi : si.folded = false) (hfj : sj.folded = false)
    (hei : p.level ≤ si.contrib) (hej : p.level ≤ sj.contrib)
    (htie : si.score = sj.score)
    (hbest : ∀ t ∈ ss, t.folded = false → p.level ≤ t.contrib → t.score ≤ si.score) :
    (potShare pr si.idx - potShare pr sj.idx).natAbs ≤ 1 := by
  have g := gameIn h
  -- the levels of `pr`
  have hlv := gameResults_pots_levels (potsOf (entriesOf ss)) (rowsOf ss)
  have hprl : pr.levels = p.levels.map (toInfo (rowsOf ss)) := by
    have h1 := congrArg (fun l => l[pre.length]?) hlv
    simp only [List.getElem?_map] at h1
    have h2 : (settle ss).pots[pre.length]? = some pr := hpr
    unfold settle at h2
    rw [h2, hp] at h1
    simp only [List.getElem?_append_right (Nat.le_refl _), Nat.sub_self, List.getElem?_cons_zero,
      Option.map_some, Option.some.injEq] at h1
    exact h1
  have heli : ∃ c, (si.idx, c, false) ∈ entriesOf ss ∧ p.level ≤ c := ⟨_, hfi ▸ mem_entries hi, hei⟩
  have helj : ∃ c, (sj.idx, c, false) ∈ entriesOf ss ∧ p.level ≤ c := ⟨_, hfj ▸ mem_entries hj, hej⟩
  have hmax : ∀ r ∈ rowsOf ss, r.2.2.1 = false →
      (∃ c, (r.1, c, false) ∈ entriesOf ss ∧ p.level ≤ c) → r.2.2.2 ≤ si.score := by
    intro r hr hf ⟨c, hc, hle⟩
    obtain ⟨t, ht, rfl⟩ := List.mem_map.1 hr
    have := (g.entry_unique hc (mem_entries ht)).1
    exact hbest t ht hf (this ▸ hle)
  -- equal stakes
  have hstake : potStake pr si.idx = potStake pr sj.idx := by
    unfold potStake
    congr 2
    rw [hprl]
    apply List.filter_congr
    intro li hli
    obtain ⟨l, hl, rfl⟩ := List.mem_map.1 hli
    have h1 := pot_level_mem g hp heli l hl
    have h2 := pot_level_mem g hp helj l hl
    show l.contributors.contains si.idx = l.contributors.contains sj.idx
    simp [h1, h2]
  have h1 := pot_tie g hp si.score hmax (mem_rows hi) (mem_rows hj) hfi hfj heli helj rfl htie.symm
  have h2 := pot_tie g hp si.score hmax (mem_rows hj) (mem_rows hi) hfj hfi helj heli htie.symm rfl
  unfold potShare
  rw [potNetOf_eq, potNetOf_eq, hprl, hstake]
  simp only at h1 h2
  omega

/-! ### non-vacuity and the D2 witness -/

/-- Three pots (levels 30 / 45+60 merged / 100), a folded stake inside the second pot, a short
    all-in holding the best hand, and a tie between seats 2 and 3 with an odd chip. -/
def sample : List Seat :=
  [ ⟨0, 500, 30, false, 9⟩, ⟨1, 40, 60, false, 3⟩, ⟨2, 0, 100, false, 5⟩, ⟨3, 7, 100, false, 5⟩,
    ⟨4, 55, 45, true, 8⟩ ]

example : Valid sample := by decide

example : (potsOf (entriesOf sample)).map (fun p => (p.level, p.total, p.levels.length)) =
    [(30, 150, 1), (60, 105, 2), (100, 80, 1)] := by decide

example : sample.map (fun s => changed sample s.idx) = [120, -60, -7, -8, -45] := by decide

/-- Hypotheses of `tie_fair` are satisfiable: second pot of the sample, seats 2 and 3. -/
example : ∃ pre p post pr, potsOf (entriesOf sample) = pre ++ p :: post ∧
    (settle sample).pots[pre.length]? = some pr ∧ p.level = 60 ∧
    (potShare pr 2, potShare pr 3) = (53, 52) :=
  ⟨[(potsOf (entriesOf sample))[0]!], (potsOf (entriesOf sample))[1]!, [(potsOf (entriesOf sample))[2]!],
    (settle sample).pots[1]!, by decide, by rfl, by decide, by decide⟩

/-- Hypotheses of `folded_loses_stake` / `excess_returned` are satisfiable. -/
example : ∃ s ∈ sample, s.folded = true ∧ ∃ t ∈ sample, t.folded = false ∧ s.contrib ≤ t.contrib :=
  ⟨⟨4, 55, 45, true, 8⟩, by decide, rfl, ⟨1, 40, 60, false, 3⟩, by decide, rfl, by decide⟩

example : changed [⟨0, 10, 100, false, 4⟩, ⟨1, 10, 40, false, 9⟩] 0 = -40 ∧
    othersMax [⟨0, 10, 100, false, 4⟩, ⟨1, 10, 40, false, 9⟩] 0 = 40 := by decide

/-- The D2 witness (contributions 100,100,25(f),50(f),75(f), the first two tied): one published
    pot made of four levels.  Before the repair "deal odd chips round-robin across the levels of
    one pot" the shares were 176/174; with the repaired code they are 175/175. -/
def d2 : List Seat :=
  [ ⟨0, 1000, 100, false, 5⟩, ⟨1, 1000, 100, false, 5⟩, ⟨2, 1000, 25, true, 7⟩, ⟨3, 1000, 50, true, 7⟩,
    ⟨4, 1000, 75, true, 7⟩ ]

example : Valid d2 := by decide

theorem d2_one_pot : (potsOf (entriesOf d2)).map (fun p => (p.level, p.total, p.levels.length)) = [(100, 350, 4)] := by
  decide

theorem d2_shares : (settle d2).pots.map (fun pr => (potShare pr 0, potShare pr 1)) = [(175, 175)] := by
  decide

theorem d2_changed : d2.map (fun s => changed d2 s.idx) = [75, 75, -25, -50, -75] := by decide

/-! ### per-level conservation, and `changed` level by level -/

/-- The levels of the result pot `pr`, each paired with the odd-chip offset (pot.go `oddChipOffset`)
    with which `CalculatePot` reaches it: 0 at the first level of the pot, then threaded by
    `nextOffset` (`withOffsets`, Proofs/GapsBSettle.lean).  `settleLevel` applies to the level `lo.1`
    exactly the update list `levelUpdates lo.1 lo.2` (`level_payout`, first clause). -/
def potLevels (pr : PotResult) : List (LevelInfo × Int) := withOffsets 0 pr.levels

theorem levels_wf {ss : List Seat} (h : Valid ss) {pr : PotResult} (hpr : pr ∈ (settle ss).pots) :
    ∀ li ∈ pr.levels, ∃ xs, LevelWF xs li := by
  have hlv := gameResults_pots_levels (potsOf (entriesOf ss)) (rowsOf ss)
  have : pr.levels ∈ (potsOf (entriesOf ss)).map (fun p => p.levels.map (toInfo (rowsOf ss))) := by
    rw [← hlv]; exact List.mem_map.2 ⟨pr, hpr, rfl⟩
  exact all_wf (gameIn h) _ this

/-- **Per-level conservation** ("chips only move between players", inside every single layer):
    for every level `li` kept in the result and every incoming odd-chip offset `o ≥ 0` (the offsets
    that occur are ≥ 0: `changed_by_levels`), (1) the level's total is `|contributors| · wager` —
    every contributor put exactly the level's wager into it —, hence (2) the deltas of the update
    list `levelUpdates li o` that `settleLevel` applies (winners: share − wager, the others:
    − wager) add up to zero, and (3) so do the net amounts of the level's contributors. -/
theorem level_zero_sum (ss : List Seat) (h : Valid ss) (pr : PotResult) (hpr : pr ∈ (settle ss).pots)
    (li : LevelInfo) (hli : li ∈ pr.levels) (o : Int) (ho : 0 ≤ o) :
    li.total = (li.contributors.length : Int) * li.wager ∧
    ((levelUpdates li o).map (·.2)).sum = 0 ∧
    (li.contributors.map (fun i => net (levelUpdates li o) i)).sum = 0 := by
  obtain ⟨xs, hxs⟩ := levels_wf h hpr li hli
  exact ⟨hxs.total, levelUpdates_sum hxs o ho, level_net_sum_zero hxs o ho⟩

/-- **`changed`, level by level** — the link between `level_winners` (stated on the rank groups of
    a level) and the observable `Result.Players[].Changed`, in one statement.  For every seat `s`:
    (1) `changed ss s.idx` is the sum, over the pots of the result and the levels of each pot, of
    `s`'s net amount in that level (`net (levelUpdates li o) s.idx`, `o` the pot's odd-chip offset
    at that level); and (2) for each of these levels `(li, o)`: `o ≥ 0`; `s` is a contributor iff
    it put in at least the level; its net amount is `0` if it is not a contributor, `−wager` if it
    is a contributor but not a winner, and the `n`-th part of the level's total (rounded down, plus
    at most one odd chip) minus its own wager if it is one of the `n` winners; and, when some
    non-folded player put in at least the level, `s` IS a winner iff it is not folded, put in at
    least the level, and no non-folded player who put in at least the level has a better score.
    (Composes `changed_eq_sum_pots`, `potNetOf_eq`, `level_payout`, `level_contributors`,
    `level_winners`.) -/
theorem changed_by_levels (ss : List Seat) (h : Valid ss) (s : Seat) (hs : s ∈ ss) :
    changed ss s.idx =
      ((settle ss).pots.map fun pr =>
        ((potLevels pr).map fun lo => net (levelUpdates lo.1 lo.2) s.idx).sum).sum ∧
    ∀ pr ∈ (settle ss).pots, ∀ lo ∈ potLevels pr,
      lo.1 ∈ pr.levels ∧ 0 ≤ lo.2 ∧
      (s.idx ∈ lo.1.contributors ↔ lo.1.level ≤ s.contrib) ∧
      (s.idx ∉ lo.1.contributors → net (levelUpdates lo.1 lo.2) s.idx = 0) ∧
      (s.idx ∈ lo.1.contributors → s.idx ∉ levelWinners lo.1 →
        net (levelUpdates lo.1 lo.2) s.idx = -lo.1.wager) ∧
      (s.idx ∈ levelWinners lo.1 →
        Int.tdiv lo.1.total (levelWinners lo.1).length - lo.1.wager ≤ net (levelUpdates lo.1 lo.2) s.idx ∧
        net (levelUpdates lo.1 lo.2) s.idx ≤ Int.tdiv lo.1.total (levelWinners lo.1).length + 1 - lo.1.wager) ∧
      ((∃ t ∈ ss, t.folded = false ∧ lo.1.level ≤ t.contrib) →
        (s.idx ∈ levelWinners lo.1 ↔
          s.folded = false ∧ lo.1.level ≤ s.contrib ∧
            ∀ t ∈ ss, t.folded = false → lo.1.level ≤ t.contrib → t.score ≤ s.score)) := by
  refine ⟨?_, ?_⟩
  · rw [changed_eq_sum_pots ss h s hs]
    congr 1
    apply List.map_congr_left
    intro pr _
    rw [potNetOf_eq, net_potUpdates_withOffsets]
    rfl
  · intro pr hpr lo hlo
    have hli : lo.1 ∈ pr.levels := withOffsets_mem_fst hlo
    have ho : 0 ≤ lo.2 := withOffsets_nonneg pr.levels (levels_wf h hpr) 0 (Int.le_refl _) lo hlo
    have hpay := (level_payout ss h pr hpr lo.1 hli { players := [], winners := [], offset := lo.2 } s.idx).2
    have hcon : s.idx ∈ lo.1.contributors ↔ lo.1.level ≤ s.contrib := by
      rw [level_contributors ss h pr hpr lo.1 hli s.idx]
      constructor
      · rintro ⟨s', hs', he, hle⟩
        have : s' = s := eq_of_nodup_map (·.idx) h.1 hs' hs he
        rw [← this]; exact hle
      · intro hle; exact ⟨s, hs, rfl, hle⟩
    refine ⟨hli, ho, hcon, hpay.1, hpay.2.1, hpay.2.2, ?_⟩
    intro hex
    rw [level_winners ss h pr hpr lo.1 hli hex s.idx]
    constructor
    · rintro ⟨s', hs', he, hf, hle, hmax⟩
      have : s' = s := eq_of_nodup_map (·.idx) h.1 hs' hs he
      subst this
      exact ⟨hf, hle, hmax⟩
    · rintro ⟨hf, hle, hmax⟩
      exact ⟨s, hs, rfl, hf, hle, hmax⟩



/-- Non-vacuity of `level_zero_sum` / `changed_by_levels` on the sample: the second pot has two
    levels (45 and 60); the level at 45 holds 4·15 = 60 chips, the level at 60 holds 3·15 = 45 chips
    and its odd chip goes to seat 2; seats 2 and 3 tie for both.
    Entries: (level, wager, total, contributors). -/
example : (settle sample).pots.map (fun pr => (potLevels pr).map fun lo =>
      (lo.1.level, lo.1.wager, lo.1.total, lo.1.contributors)) =
    [[(30, 30, 150, [0, 1, 2, 3, 4])], [(45, 15, 60, [1, 2, 3, 4]), (60, 15, 45, [1, 2, 3])], [(100, 40, 80, [2, 3])]] := by
  decide

/-- … (incoming offset, winners) of these levels … -/
example : (settle sample).pots.map (fun pr => (potLevels pr).map fun lo => (lo.2, levelWinners lo.1)) =
    [[(0, [0])], [(0, [2, 3]), (0, [2, 3])], [(0, [2, 3])]] := by decide

/-- … and their update lists (each adds up to zero). -/
example : (settle sample).pots.map (fun pr => (potLevels pr).map fun lo => levelUpdates lo.1 lo.2) =
    [[[(0, 120), (2, -30), (3, -30), (1, -30), (4, -30)]],
     [[(2, 15), (3, 15), (1, -15), (4, -15)], [(2, 8), (3, 7), (1, -15)]],
     [[(2, 0), (3, 0)]]] := by decide

/-- The decomposition of `changed` for seat 2 of the sample: −30 + (15 + 8) + 0 = −7. -/
example : (settle sample).pots.map (fun pr => (potLevels pr).map fun lo => net (levelUpdates lo.1 lo.2) 2) =
    [[-30], [15, 8], [0]] ∧ changed sample 2 = -7 := by decide

/-- the hypotheses of `changed_by_levels` / `level_zero_sum` hold for the sample and its seat 2 / its pots -/
example := changed_by_levels sample (by decide) ⟨2, 0, 100, false, 5⟩ (by decide)
example : ∀ pr ∈ (settle sample).pots, ∀ li ∈ pr.levels, ((levelUpdates li 0).map (·.2)).sum = 0 :=
  fun pr hpr li hli => (level_zero_sum sample (by decide) pr hpr li hli 0 (by decide)).2.1

/-- A level all of whose contributors folded (seat 0's excess over everybody still in the hand): the
    hypothesis of the last clause of `changed_by_levels` fails there; the folded contributor is the
    "winner" of that level and gets its wager back (net 0). -/
example : (settle [⟨0, 10, 100, true, 4⟩, ⟨1, 10, 40, false, 9⟩, ⟨2, 10, 40, false, 3⟩]).pots.map
      (fun pr => (potLevels pr).map fun lo => (lo.1.level, levelWinners lo.1, net (levelUpdates lo.1 lo.2) 0)) =
    [[(40, [1], -40)], [(100, [0], 0)]] := by decide

end Pokerface.C02

section Axioms
open Pokerface.C02
#print axioms level_zero_sum
#print axioms changed_by_levels
end Axioms

