/-
  C20 with RE-ENTRIES, asynchronous, second sentence along a history: the two theorems of
  Properties/C20Async.lean that use the table-id invariant (`AInvN`, "a broken table's id is never
  used again"), on the widest asynchronous domain with re-entries `AReachableRe`
  (Proofs/RegReentry.lean).  Same statements; the script between the breaking sync and the report
  is any script valid WITH RE-ENTRIES (`allOkRe`: registrations of new names or of names of
  eliminated players, status changes in any order, syncs, reports).
-/
import Pokerface.Properties.C20Reentry
import Pokerface.Proofs.RegReentry3

namespace Pokerface.C20
open Pokerface Reg ASys

/-- **each of them is queued for another table**, asynchronous (WIDEST domain): EVERY valid release
    report `ReleasePlayers(t, ps)` - at any time, for all or part of the players on the way back
    from `t`, whether `t` still exists or not -
    * names players on the way back from `t`, who all enter the waiting queue in this operation
      (`reported` = `incoming` = `ps`), and `rest` is exactly who stays on the way from `t`;
    * obeys the C09 ledger: queue before ++ `ps` = handed out by the callbacks of this operation
      ++ queue after, in order;
    * so every reported player is, after the operation, in the waiting queue or was handed to a
      table by a callback of this very operation - and then sits at that table; if `t` does not
      exist (it was broken), that table is ANOTHER table: the id of a broken table is never used
      again. -/
theorem reported_are_requeued_async_re {s : ASys} (h : AReachableRe s) (t : Nat) (ps rest ch : List Nat)
    (hok : s.ok (.report t ps rest ch)) :
    (ASys.reported (.report t ps rest ch) = ps ∧ s.incoming (.report t ps rest ch) = ps ∧
      (s.flyingOf t).Perm (ps ++ rest) ∧ ((s.step (.report t ps rest ch)).flyingOf t).Perm rest) ∧
    s.r.queue ++ ps = handed (s.step (.report t ps rest ch)).r.calls ++ (s.step (.report t ps rest ch)).r.queue ∧
    (∀ p ∈ ps,
      (p ∈ (s.step (.report t ps rest ch)).r.queue ∨ p ∈ handed (s.step (.report t ps rest ch)).r.calls) ∧
      (p ∈ (s.step (.report t ps rest ch)).r.queue ∨
        ∃ e ∈ (s.step (.report t ps rest ch)).env.members, p ∈ e.2 ∧ (s.env.membersOf t = none → e.1 ≠ t))) := by
  have hS := AInv.of_reachableRe h
  obtain ⟨hS', hF⟩ := hS.step_full_re (.report t ps rest ch) hok
  have hho : s.r.queue ++ ps =
      handed (s.step (.report t ps rest ch)).r.calls ++ (s.step (.report t ps rest ch)).r.queue := by
    have := hF.handout
    simpa [incoming, returned] using this
  have hfl : ((s.step (.report t ps rest ch)).flyingOf t).Perm rest := by
    have : (s.step (.report t ps rest ch)).inflight =
        s.inflight.filter (fun e => e.1 != t) ++ (if rest.isEmpty then [] else [(t, rest)]) := rfl
    simp only [flyingOf, this, List.filter_append, List.filter_filter]
    have e1 : (s.inflight.filter fun a => (a.1 == t && a.1 != t)) = [] := by
      apply List.filter_eq_nil_iff.2
      intro a _
      by_cases ha : a.1 = t <;> simp [ha]
    rw [e1]
    split
    · rename_i he
      have : rest = [] := by simpa using he
      simp [this]
    · simp
  refine ⟨⟨rfl, rfl, hok.1, hfl⟩, hho, ?_⟩
  intro p hp
  have hmem : p ∈ handed (s.step (.report t ps rest ch)).r.calls ++ (s.step (.report t ps rest ch)).r.queue := by
    rw [← hho]; exact List.mem_append_right _ hp
  refine ⟨(List.mem_append.1 hmem).symm, ?_⟩
  -- where the player is afterwards: conservation of the successor state
  have hpf : p ∈ s.flyingOf t := hok.1.mem_iff.2 (List.mem_append_left _ hp)
  have hpfl : p ∈ s.flying := mem_flying_of_flyingOf hpf
  have hal : p ∈ s.env.alive := hS.cons.mem_iff.2 (List.mem_append_right _ hpfl)
  have hal' : p ∈ (s.step (.report t ps rest ch)).env.alive := hal
  have hnd' := hS'.cons.nodup_iff.1 hS'.nodup
  have hcnt := hF.flying.count_eq p
  have hndf : s.flying.count p ≤ 1 := by
    have := hS.cons.nodup_iff.1 hS.nodup
    rw [List.nodup_append] at this
    exact List.nodup_iff_count.1 this.2.1 p
  have hnot : p ∉ (s.step (.report t ps rest ch)).flying := by
    intro hin
    have c1 : 0 < (s.step (.report t ps rest ch)).flying.count p := List.count_pos_iff.2 hin
    have c2 : 0 < ps.count p := List.count_pos_iff.2 hp
    simp only [List.count_append, reported, departing, List.count_nil] at hcnt
    omega
  rcases List.mem_append.1 (hS'.cons.mem_iff.1 hal') with h1 | h1
  · rcases List.mem_append.1 h1 with h2 | h2
    · exact Or.inl h2
    · right
      obtain ⟨e, he, hpe⟩ := mem_seatedOf.1 h2
      refine ⟨e, he, hpe, fun hun het => ?_⟩
      -- a batch of `t` is on the way, so `t` was handed out; unknown ids below the counter stay unknown
      obtain ⟨e0, he0, het0, _⟩ := mem_flyingOf hpf
      have hlt : t < s.r.nextId := het0 ▸ AInvN.of_reachableRe h e0 he0
      have hun' := (hS.step_ids_re (.report t ps rest ch) hok).2.1 t hlt ((hS.unknown_iff t).1 hun)
      have := (hS'.unknown_iff t).2 hun'
      have hsome : ((s.step (.report t ps rest ch)).env.membersOf t).isSome = true :=
        (RSys.membersOf_isSome_iff _ t).2 (List.mem_map.2 ⟨e, he, het⟩)
      rw [this] at hsome; cases hsome
  · exact absurd h1 hnot

/-- **break_returns_all**, asynchronous, the whole sentence along a history.  A valid sync breaks
    table `t`; ANY valid script `ops` follows (registrations, status changes, syncs of other
    tables, reports of other tables and partial reports of `t`); then a report of `t` arrives.
    Every player it names enters the waiting queue or is handed to a table in that operation, and
    that table is another table: `t` no longer exists and never exists again. -/
theorem broken_table_players_requeued_async_re {s : ASys} (h : AReachableRe s) (t : Nat)
    (elim stay rel keep ms : List Nat) (hm : s.env.membersOf t = some ms)
    (hok : s.ok (.sync t elim stay rel keep)) (hb : s.broken t elim = true)
    (ops : List AOp) (hops : (s.step (.sync t elim stay rel keep)).allOkRe ops)
    (ps rest ch : List Nat) (hokr : ((s.step (.sync t elim stay rel keep)).run ops).ok (.report t ps rest ch)) :
    ((s.step (.sync t elim stay rel keep)).run ops).env.membersOf t = none ∧
    ∀ p ∈ ps,
      (p ∈ (((s.step (.sync t elim stay rel keep)).run ops).step (.report t ps rest ch)).r.queue ∨
        p ∈ handed (((s.step (.sync t elim stay rel keep)).run ops).step (.report t ps rest ch)).r.calls) ∧
      (p ∈ (((s.step (.sync t elim stay rel keep)).run ops).step (.report t ps rest ch)).r.queue ∨
        ∃ e ∈ (((s.step (.sync t elim stay rel keep)).run ops).step (.report t ps rest ch)).env.members,
          e.1 ≠ t ∧ p ∈ e.2) := by
  have hS := AInv.of_reachableRe h
  have h1 : AReachableRe (s.step (.sync t elim stay rel keep)) := AReachableRe.step _ h hok
  have hS1 := AInv.of_reachableRe h1
  obtain ⟨_, ⟨_, _, hgone⟩, _⟩ := break_returns_all_async_re h t elim stay rel keep ms hm hok hb
  -- the id was handed out
  have hlt : t < (s.step (.sync t elim stay rel keep)).r.nextId := by
    obtain ⟨t0, hft⟩ : ∃ t0, s.r.findTable t = some t0 := by
      cases hf : s.r.findTable t with
      | none => rw [(hS.unknown_iff t).2 hf] at hm; cases hm
      | some t0 => exact ⟨t0, rfl⟩
    obtain ⟨ht0, hid0⟩ := findTable_some hft
    have := hS.wf.idlt t0 ht0
    have := (hS.step_ids_re (.sync t elim stay rel keep) hok).1
    omega
  obtain ⟨hun, _⟩ := gone_stays_gone_re ops _ hS1 hops t hlt hgone
  refine ⟨hun, fun p hp => ?_⟩
  obtain ⟨_, _, hall⟩ := reported_are_requeued_async_re (h1.run ops hops) t ps rest ch hokr
  obtain ⟨a, b⟩ := hall p hp
  refine ⟨a, ?_⟩
  rcases b with b | ⟨e, he, hpe, hne⟩
  · exact Or.inl b
  · exact Or.inr ⟨e, he, hne hun, hpe⟩


/-! ### non-vacuity -/

private def rg2 (n k : Nat) : List Nat := (List.range k).map (· + n)

/-- twelve registrants at 9/6, two tables of six; four eliminations at table 1 break it (5, 6 are
    on the way back); player 1 REGISTERS AGAIN meanwhile and is seated at table 2; then the late
    report of the broken table arrives: 5 and 6 go to table 2. -/
def brkRe : List AOp :=
  [.add (rg2 1 12) [], .status .normal [], .sync 1 [1,2,3,4] [5,6] [5,6] [],
   .add [1] [2], .report 1 [5,6] [] [2]]

example : AReachableRe ((ASys.init 9 6).run (brkRe.take 2)) :=
  (AReachableRe.init 9 6 (by decide)).run _ (by decide)
example : ((ASys.init 9 6).run (brkRe.take 2)).env.membersOf 1 = some [1,2,3,4,5,6] ∧
    ((ASys.init 9 6).run (brkRe.take 2)).okRe (.sync 1 [1,2,3,4] [5,6] [5,6] []) ∧
    ((ASys.init 9 6).run (brkRe.take 2)).broken 1 [1,2,3,4] = true := by decide
/-- the script in between is valid with re-entries only -/
example : ((ASys.init 9 6).run (brkRe.take 3)).allOkRe [.add [1] [2]] ∧
    ¬ ((ASys.init 9 6).run (brkRe.take 3)).allOk [.add [1] [2]] := by decide
example : ((ASys.init 9 6).run (brkRe.take 4)).ok (.report 1 [5,6] [] [2]) := by decide
example : ((ASys.init 9 6).run brkRe).env.members = [(2, [7,8,9,10,11,12,1,5,6])] ∧
    ((ASys.init 9 6).run brkRe).r.calls = [.assign 2 [5, 6]] ∧
    ((ASys.init 9 6).run brkRe).inflight = [] := by decide

end Pokerface.C20
